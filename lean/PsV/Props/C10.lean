import PsV.Proofs.Monotone
import PsV.Proofs.MonoTail
import PsV.Proofs.MonoCoords
import PsV.Props.C11
import PsV.Proofs.FitQuad
import PsV.Proofs.KnotScale
import Mathlib.LinearAlgebra.Matrix.Notation
/-!
# C10 — the monotonic fit's back-transform yields a surface that is non-decreasing along the
monotonic dimension on the fully supported region

Property theorems only (helpers in `PsV.Proofs.Monotone`).

* `float_cumsum_monotone`   : the in-place cumulative-sum loop (`PsV.cumsumLoop`, the model of the loop at
                              the end of `glamfit_complex`) run with *any* addition satisfying
                              `0 ≤ a → s ≤ add a s` (rounded float addition does) on non-negative input
                              produces coefficients non-decreasing along the monotonic index.
* `cumsum_monotone`         : the exact instance, with the closed formula `c_j = Σ_{l ≤ j} t_l`.
* `tspline_eq_cumsum`       : change of basis `B·L` (T-spline) ↔ cumulative sums, any shape.
* `Bind_nonneg`             : Cox–de Boor functions on sorted knots are non-negative.
* `deriv_formula`, `monotone_coeffs_nonneg_deriv` : 1-D core (summation by parts).
* `selInd_ok`               : the order-0 indicator of the spec brackets `x` inside the supported region.
* `C10_monotone`            : n-D statement about `specEval` with `.deriv1` in the monotonic dimension.
* `tcoords_normal_eq`, `inactive_constraint` : the normal equations in T-spline coordinates are the change of basis
                              of the B-spline ones; if their unconstrained solution is non-negative it is the
                              KKT point, i.e. the unique solution of the non-negative problem (with C11).
* `penalty_factor_differs`  : witness that the penalty the unrepaired code builds for a *non*-monotonic dimension of a
                              ≥ 2-d monotonic fit (`… ⊗ I ⊗ …` in the monotonic slot) is not the change of basis
                              (`… ⊗ LᵀL ⊗ …`) — `fixes/C10-1.diff`.
The non-negativity of the T-coefficients on *every* exit of the solver is `block3_nonneg_invariant` (Props/C11).

Second part (§8–§10; helpers in `PsV.Proofs.MonoTail`, `PsV.Proofs.MonoCoords`):
* `float_cumsum_nonneg`, `rounded_cumsum_monotone`, `nearest_rounding_monotone`, `ieee_cumsum_monotone` : the float
                              hypothesis reduced to "the addition returns a nearest representable number";
* `backTransform_monotone`  : the whole tail of `glamfit_complex` (rescale, double → float, cumulative sum), any shape,
                              any non-negative solver output;
* `cumsum_diff_inverse`, `increments_nonneg_iff`, `cumMat_spec` : the change of variables `c = L t` as a bijection /
                              a matrix, `L t` = the loop, image of the non-negative orthant = what the driver decides;
* `spline_value_monotone_1d`, `C10_surface_monotone`, `C10_surface_monotone_B`, `C10_fit_surface_monotone` : non-decreasing
                              coefficients ⇒ non-decreasing **values** of `specEval` along the monotonic dimension, n-D,
                              every order, sorted knots with repetitions;
* `tobjective_eq`, `inactive_constraint_B`, `inactive_constraint_cumsum`, `inactive_constraint_objective`,
  `code_objective_1d` : the inactive-constraint clause for the same objective (abstract normal equations, the
                              cumulative-sum change of variables of any shape, the objective `objective P` of the
                              specification of C09; the code's 1-d assembly is that objective);
* `inactive_clause_fails_for_code_penalty` : a 2 × 2 problem on which the matrix the unrepaired code assembles gives a
                              monotonic fit different from the unconstrained one although the constraint is inactive.

Third part (§11; helpers in `PsV.Proofs.KnotScale`, definitions in `PsV.Model.KnotScale`) — rescaled axes:
* `derivCoef_knot_scale`, `divided_diffs_knot_scale`, `finiteDiff_knot_scale` : multiplying the knots by `h ≠ 0` divides the
                              `p`-th derivative coefficients, the weights of `divided_diffs` and every entry of the
                              finite-difference matrix of `calc_penalty` (plain and times `tril`) by `h^p` — no further factor;
* `penalty_chunk_knot_scale`: so `λ h^(2p) · DᵀD` on the rescaled axis is `λ · DᵀD` at scale 1, entry by entry, in both branches;
* `Bind_knot_scale`         : the Cox–de Boor values are invariant under `t ↦ h t, x ↦ h x`, `h > 0`;
* `objective_knot_scale`, `C10_knot_scale_equivariant`, `C10_inactive_on_rescaled_axes` : the objective of the problem on
                              rescaled axes (`FitProblem.knotScale`: knots and abscissae of dimension `d` times `h_d`, smoothing
                              times `h_d^(2 p_d)`) is the same function of the coefficients; unconstrained and monotone-constrained
                              minimisers coincide; the inactive clause transfers to the rescaled problem;
* `absolute_drop_not_scale_invariant` : `cholmod_l_drop(2^-52, ·)` applied to `finitediff · tril` keeps every entry at knot
                              spacing 1 and removes every entry at knot spacing `2^20` (penalty order 3: entries `±2^-60, 2^-59`)
                              — an absolute tolerance in `calc_penalty` breaks the equivariance (seeded change C10-6).
-/
namespace PsV
open Finset

/-! ## 1. the loop with an abstract monotone rounding -/

/-- Cumulative-sum loop, rounded arithmetic.  `add a s` is `fl(a + s)` with `a` the increment
(`out[idx i j k]`) and `s` the running sum (`out[idx i (j-1) k]`), as in `cumStep`. -/
theorem float_cumsum_monotone {α : Type} [LinearOrder α] (z : α) (add : α → α → α)
    (hadd : ∀ a s, z ≤ a → s ≤ add a s) (s1 n s2 : Nat) (out : Nat → α)
    (hout : ∀ p, p < s1 * n * s2 → z ≤ out p) :
    ∀ i, i < s1 → ∀ j, j + 1 < n → ∀ k, k < s2 →
      cumsumLoop add s1 n s2 out (idx3 n s2 i j k)
        ≤ cumsumLoop add s1 n s2 out (idx3 n s2 i (j+1) k) := by
  intro i hi j hj k hk
  rw [cumsumLoop_spec add out n s2 s1 hi (by omega) hk, cumsumLoop_spec add out n s2 s1 hi hj hk]
  exact csum_mono_step z add hadd out n s2 i k j (hout _ (idx3_lt hi hj hk))

/-- the same, as the executable check the driver runs -/
theorem float_cumsum_monoAlongB {α : Type} [LinearOrder α] (z : α) (add : α → α → α)
    (hadd : ∀ a s, z ≤ a → s ≤ add a s) (s1 n s2 : Nat) (out : Nat → α)
    (hout : ∀ p, p < s1 * n * s2 → z ≤ out p) :
    monoAlongB (fun a b => decide (a ≤ b)) s1 n s2 (cumsumLoop add s1 n s2 out) = true :=
  monoAlongB_of_le s1 n s2 _ (float_cumsum_monotone z add hadd s1 n s2 out hout)

/-- the closed form the proof rests on: cell `(i,j,k)` ends up holding `cs j`, `cs 0 = out[i,0,k]`,
`cs (j+1) = add out[i,j+1,k] (cs j)` -/
theorem cumsumLoop_closed_form {α : Type} (add : α → α → α) (s1 n s2 : Nat) (out : Nat → α)
    (i j k : Nat) (hi : i < s1) (hj : j < n) (hk : k < s2) :
    cumsumLoop add s1 n s2 out (idx3 n s2 i j k) = csum add out n s2 i k j :=
  cumsumLoop_spec add out n s2 s1 hi hj hk

/-- Non-vacuity: a non-associative "rounding" addition on `Nat` (round the exact sum up to an even
number) satisfies the hypothesis, and the loop on a 2×3×2 array gives a monotone result. -/
example : (∀ a s : Nat, 0 ≤ a → s ≤ (a + s + 1) / 2 * 2) ∧
    (∀ p, p < 2 * 3 * 2 → 0 ≤ (fun p : Nat => 7 * p % 5) p) ∧
    monoAlongB (fun a b => decide (a ≤ b)) 2 3 2
      (cumsumLoop (fun a s => (a + s + 1) / 2 * 2) 2 3 2 (fun p => 7 * p % 5)) = true :=
  ⟨fun a s _ => by omega, fun _ _ => Nat.zero_le _, by decide⟩

/-! ## 2. exact arithmetic -/

/-- closed formula of the exact cumulative sum -/
theorem cumsum_formula {α : Type} [AddCommMonoid α] (s1 n s2 : Nat) (t : Nat → α)
    (i j k : Nat) (hi : i < s1) (hj : j < n) (hk : k < s2) :
    cumsumLoop (· + ·) s1 n s2 t (idx3 n s2 i j k) = ∑ l ∈ range (j+1), t (idx3 n s2 i l k) := by
  rw [cumsumLoop_spec _ t n s2 s1 hi hj hk]
  exact csum_add_eq_sum t n s2 i k j

theorem cumsum_monotone {α : Type} [Field α] [LinearOrder α] [IsStrictOrderedRing α]
    (s1 n s2 : Nat) (t : Nat → α) (ht : ∀ p, p < s1 * n * s2 → 0 ≤ t p) :
    (∀ i, i < s1 → ∀ j, j + 1 < n → ∀ k, k < s2 →
      cumsumLoop (· + ·) s1 n s2 t (idx3 n s2 i j k)
        ≤ cumsumLoop (· + ·) s1 n s2 t (idx3 n s2 i (j+1) k)) ∧
    (∀ i, i < s1 → ∀ j, j < n → ∀ k, k < s2 →
      cumsumLoop (· + ·) s1 n s2 t (idx3 n s2 i j k) = ∑ l ∈ range (j+1), t (idx3 n s2 i l k)) :=
  ⟨float_cumsum_monotone 0 (· + ·) (fun _ _ ha => le_add_of_nonneg_left ha) s1 n s2 t ht,
   fun i hi j hj k hk => cumsum_formula s1 n s2 t i j k hi hj hk⟩

example : (∀ p, p < 2 * 3 * 2 → (0 : Rat) ≤ (fun p : Nat => ((p % 3 : Nat) : Rat) / 2) p) :=
  fun p _ => by positivity

/-! ## 3. change of basis `B·L` ↔ cumulative sums -/

/-- `(B·L)_j = Σ_{l ≥ j} B_l` (`L` the lower-triangular ones matrix): evaluating the T-spline
coefficients `t` against the basis `B·L` equals evaluating the cumulative sums against `B`,
for a tensor flattened to `s1 × n × s2` and arbitrary weights `W` from the other dimensions. -/
theorem tspline_eq_cumsum {α : Type} [CommRing α] (s1 n s2 : Nat) (W : Nat → Nat → α)
    (B : Nat → α) (t : Nat → α) :
    ∑ i ∈ range s1, ∑ j ∈ range n, ∑ k ∈ range s2,
        W i k * (∑ l ∈ range n, if j ≤ l then B l else 0) * t (idx3 n s2 i j k)
      = ∑ i ∈ range s1, ∑ j ∈ range n, ∑ k ∈ range s2,
        W i k * B j * cumsumLoop (· + ·) s1 n s2 t (idx3 n s2 i j k) := by
  apply Finset.sum_congr rfl
  intro i hi
  refine (Finset.sum_comm).trans (Eq.trans ?_ (Finset.sum_comm))
  apply Finset.sum_congr rfl
  intro k hk
  have hL : ∑ j ∈ range n, W i k * (∑ l ∈ range n, if j ≤ l then B l else 0) * t (idx3 n s2 i j k)
      = W i k * ∑ j ∈ range n, (∑ l ∈ range n, if j ≤ l then B l else 0) * t (idx3 n s2 i j k) := by
    rw [Finset.mul_sum]
    exact Finset.sum_congr rfl (fun j _ => by ring)
  have hR : ∑ j ∈ range n, W i k * B j * cumsumLoop (· + ·) s1 n s2 t (idx3 n s2 i j k)
      = W i k * ∑ j ∈ range n, B j * ∑ l ∈ range (j+1), t (idx3 n s2 i l k) := by
    rw [Finset.mul_sum]
    apply Finset.sum_congr rfl
    intro j hj
    rw [cumsum_formula s1 n s2 t i j k (mem_range.mp hi) (mem_range.mp hj) (mem_range.mp hk)]
    ring
  rw [hL, hR, fibre_BL B (fun j => t (idx3 n s2 i j k)) n]

-- (`tspline_eq_cumsum` has no hypotheses: nothing to instantiate.)

/-- any shape: the three blocks exhaust the array -/
theorem strides_total (naxes : List Nat) (m : Nat) (h : m < naxes.length) :
    stride1 naxes m * naxes[m] * stride2 naxes m = naxes.foldl (· * ·) 1 :=
  strides_total_aux naxes m h

example : stride1 [2, 3, 4, 5] 2 = 6 ∧ stride2 [2, 3, 4, 5] 2 = 5 ∧ [2, 3, 4, 5].foldl (· * ·) 1 = 120 := by
  decide

/-! ## 4. non-negativity of the Cox–de Boor functions -/

/-- support of a basis function: combinatorial, no hypothesis on the knots -/
theorem Bind_support (ind : Int → Bool) (t : Int → Rat) (x : Rat) (n : Nat) (i : Int)
    (h : Bind ind t x n i ≠ 0) : ∃ m, ind m = true ∧ i ≤ m ∧ m ≤ i + n :=
  PsV.Bind_support_aux ind t x n i h

theorem Bind_nonneg (ind : Int → Bool) (t : Int → Rat) (x : Rat)
    (hmono : ∀ a b : Int, a ≤ b → t a ≤ t b)
    (hind : ∀ m, ind m = true → t m ≤ x ∧ x ≤ t (m+1)) (n : Nat) (i : Int) :
    0 ≤ Bind ind t x n i :=
  Bind_nonneg_aux ind t x hmono hind n i

example : (∀ a b : Int, a ≤ b → ((a : Rat)) ≤ (b : Rat)) ∧
    (∀ m, indR (fun i : Int => (i : Rat)) (5/2) m = true →
      ((m : Rat)) ≤ 5/2 ∧ (5/2 : Rat) ≤ ((m + 1 : Int) : Rat)) ∧
    indR (fun i : Int => (i : Rat)) (5/2) 2 = true := by
  refine ⟨fun a b h => by exact_mod_cast h, ?_, ?_⟩
  swap
  · show (decide ((((2 : Int)) : Rat) ≤ 5/2) && decide ((5/2 : Rat) < (((2 + 1 : Int)) : Rat))) = true
    simp only [Bool.and_eq_true, decide_eq_true_eq]
    norm_num
  intro m hm
  have h' : (decide (((m : Int) : Rat) ≤ 5/2) && decide ((5/2 : Rat) < ((m + 1 : Int) : Rat))) = true := hm
  simp only [Bool.and_eq_true, decide_eq_true_eq] at h'
  exact ⟨h'.1, le_of_lt h'.2⟩

/-! ## 5. the 1-D core -/

/-- derivative formula: `Σ_j c_j B'_{j,n+1}(x) = Σ_j (n+1)(c_{j+1} - c_j)/(t_{j+n+2} - t_{j+1}) B_{j+1,n}(x)`
on the fully supported region (the boundary terms vanish by the support lemma) -/
theorem deriv_formula (ind : Int → Bool) (t : Int → Rat) (x : Rat) (n N : Nat)
    (hsup : ∀ m, ind m = true → ((n : Int) + 1 ≤ m ∧ m + 1 ≤ (N : Int))) (c : Nat → Rat) :
    ∑ j ∈ range N, c j * Dind ind t x 1 (n+1) (j : Int)
      = ∑ j ∈ range (N-1), ((n+1 : Nat) : Rat) * (c (j+1) - c j)
          / (t ((j : Int) + 1 + n + 1) - t ((j : Int) + 1)) * Bind ind t x n ((j : Int) + 1) :=
  deriv_formula_aux ind t x n N hsup c

/-- non-decreasing coefficients give a non-negative first derivative (order `n+1 ≥ 1`) -/
theorem monotone_coeffs_nonneg_deriv (ind : Int → Bool) (t : Int → Rat) (x : Rat) (n N : Nat)
    (hmono : ∀ a b : Int, a ≤ b → t a ≤ t b)
    (hind : ∀ m, ind m = true → t m ≤ x ∧ x ≤ t (m+1))
    (hsup : ∀ m, ind m = true → ((n : Int) + 1 ≤ m ∧ m + 1 ≤ (N : Int)))
    (c : Nat → Rat) (hc : ∀ j, j + 1 < N → c j ≤ c (j+1)) :
    0 ≤ ∑ j ∈ range N, c j * Dind ind t x 1 (n+1) (j : Int) :=
  deriv_nonneg_aux ind t x n N hsup hmono hind c hc

/-- Well-formed dimension. -/
structure Dim.WF (d : Dim Rat) : Prop where
  mono : ∀ a b : Int, a ≤ b → d.knots a ≤ d.knots b
  naxes_eq : d.naxes = d.nknots - d.order - 1

/-- On the fully supported region `[knots[order], knots[naxes]]` (non-degenerate) the indicator of the
spec selects an interval that brackets `x` and lies inside the region.  (`order + 1 ≤ naxes` is not
needed as a hypothesis: it follows from `knots[order] < knots[naxes]`, see `order_lt_naxes`.) -/
theorem selInd_ok (d : Dim Rat) (x : Rat) (hwf : d.WF)
    (hlo : d.knots d.order ≤ x) (hhi : x ≤ d.knots d.naxes) (hlt : d.knots d.order < d.knots d.naxes) :
    ∀ m, selInd d x m = true →
      d.knots m ≤ x ∧ x ≤ d.knots (m+1) ∧ (d.order : Int) ≤ m ∧ m + 1 ≤ (d.naxes : Int) := by
  intro m hm
  have h1 := selInd_bracket d x m hm
  have h2 := selInd_region d x hwf.mono hlo hhi hlt m hm
  exact ⟨h1.1, h1.2, h2.1, h2.2⟩

theorem order_lt_naxes (d : Dim Rat) (hwf : d.WF) (hlt : d.knots d.order < d.knots d.naxes) :
    d.order + 1 ≤ d.naxes := by
  by_contra h
  have := hwf.mono d.naxes d.order (by omega)
  linarith

/-- Non-vacuity: order 2, knots 0..6, 4 coefficients, `x = 5/2` in the supported region `[2,4]`:
the indicator is not identically false. -/
example : (⟨2, 7, 4, 1, fun i => (i : Rat)⟩ : Dim Rat).WF ∧
    selInd (⟨2, 7, 4, 1, fun i => (i : Rat)⟩ : Dim Rat) (5/2) 2 = true ∧
    ((⟨2, 7, 4, 1, fun i => (i : Rat)⟩ : Dim Rat).knots 2 ≤ 5/2) := by
  refine ⟨⟨fun a b h => ?_, rfl⟩, ?_, ?_⟩
  · show ((a : Int) : Rat) ≤ ((b : Int) : Rat)
    exact_mod_cast h
  · have hlt : Arith.lt (5/2 : Rat) ((((4 : Nat) : Int)) : Rat) = true := by
      show decide ((5/2 : Rat) < ((((4 : Nat) : Int)) : Rat)) = true
      rw [decide_eq_true_eq]; norm_num
    unfold selInd
    rw [if_pos hlt]
    show (decide ((((2 : Int)) : Rat) ≤ 5/2) && decide ((5/2 : Rat) < (((2 + 1 : Int)) : Rat))) = true
    simp only [Bool.and_eq_true, decide_eq_true_eq]
    norm_num
  · show ((((2 : Nat) : Int)) : Rat) ≤ 5/2
    norm_num

/-- Non-vacuity of the 1-D core: order 2 (`n = 1`), knots `0,1,2,…`, `N = 4`, `x = 5/2`, `c j = j`;
all hypotheses hold with an indicator that fires at `m = 2`. -/
example : 0 ≤ ∑ j ∈ range 4, ((j : Nat) : Rat) *
    Dind (selInd (⟨2, 7, 4, 1, fun i => (i : Rat)⟩ : Dim Rat) (5/2)) (fun i => (i : Rat)) (5/2) 1 (1+1) (j : Int) := by
  have hwf : (⟨2, 7, 4, 1, fun i => (i : Rat)⟩ : Dim Rat).WF :=
    ⟨fun a b h => by show ((a : Int) : Rat) ≤ ((b : Int) : Rat); exact_mod_cast h, rfl⟩
  have hsel := selInd_ok (⟨2, 7, 4, 1, fun i => (i : Rat)⟩ : Dim Rat) (5/2) hwf
    (by show ((((2 : Nat) : Int)) : Rat) ≤ 5/2; norm_num)
    (by show (5/2 : Rat) ≤ ((((4 : Nat) : Int)) : Rat); norm_num)
    (by show ((((2 : Nat) : Int)) : Rat) < ((((4 : Nat) : Int)) : Rat); norm_num)
  exact monotone_coeffs_nonneg_deriv _ (fun i => (i : Rat)) (5/2) 1 4 hwf.mono
    (fun m hm => ⟨(hsel m hm).1, (hsel m hm).2.1⟩)
    (fun m hm => ⟨(hsel m hm).2.2.1, (hsel m hm).2.2.2⟩)
    (fun j => (j : Rat)) (fun j _ => by push_cast; linarith)

/-! ## 6. the property -/

/-- C10: first derivative along dimension `m` of the tensor-product spline is non-negative at every
point whose `m`-th coordinate lies in the fully supported region of dimension `m`, provided the
coefficients are non-decreasing along `m` (row-major table of any shape, flattened to
`stride1 × naxes_m × stride2`). -/
theorem C10_monotone (T : Table Rat) (m : Nat) (xs : List Rat) (ms : List BasisMode)
    (dm : Dim Rat) (xm : Rat)
    (hxs : xs.length = T.dims.length) (hms : ms.length = T.dims.length)
    (hdm : T.dims[m]? = some dm) (hxm : xs[m]? = some xm)
    (hmode : ∀ e mo, ms[e]? = some mo → mo = if e = m then BasisMode.deriv1 else BasisMode.value)
    (hwf : ∀ d ∈ T.dims, d.WF)
    (hstride : ∀ e d, T.dims[e]? = some d →
      d.stride = ((T.dims.drop (e+1)).map Dim.naxes).foldl (· * ·) 1)
    (hord : 1 ≤ dm.order)
    (hlo : dm.knots dm.order ≤ xm) (hhi : xm ≤ dm.knots dm.naxes)
    (hlt : dm.knots dm.order < dm.knots dm.naxes)
    (hcoef : ∀ i, i < stride1 (T.dims.map Dim.naxes) m → ∀ j, j + 1 < dm.naxes →
      ∀ k, k < stride2 (T.dims.map Dim.naxes) m →
        T.coef (idx3 dm.naxes (stride2 (T.dims.map Dim.naxes) m) i j k : Nat)
          ≤ T.coef (idx3 dm.naxes (stride2 (T.dims.map Dim.naxes) m) i (j+1) k : Nat)) :
    0 ≤ specEval T xs ms := by
  show 0 ≤ specSum T.coef (specRows T.dims xs ms) 1 0
  have hwfm : dm.WF := hwf dm (List.mem_of_getElem? hdm)
  obtain ⟨n', hn'⟩ : ∃ n', dm.order = n' + 1 := ⟨dm.order - 1, by omega⟩
  have hcore : ∀ c : Nat → Rat, (∀ j, j + 1 < dm.naxes → c j ≤ c (j+1)) →
      0 ≤ ∑ j ∈ range dm.naxes, c j * Bsel dm xm 1 j := by
    intro c hc
    have hsel := selInd_ok dm xm hwfm hlo hhi hlt
    have := monotone_coeffs_nonneg_deriv (selInd dm xm) dm.knots xm n' dm.naxes hwfm.mono
      (fun q hq => ⟨(hsel q hq).1, (hsel q hq).2.1⟩)
      (fun q hq => by
        have h := hsel q hq
        have e : (dm.order : Int) = (n' : Int) + 1 := by rw [hn']; push_cast; rfl
        omega) c hc
    unfold Bsel
    rw [hn']
    exact this
  apply specSum_dims_nonneg T.coef dm xm hcore m T.dims xs ms hxs hms hdm hxm hmode
    (fun d hd => (hwf d hd).mono) (DimsRM_of_index _ hstride) 1 (by norm_num) 0
  intro i hi j hj k hk
  rw [zero_add, zero_add]
  exact hcoef i hi j hj k hk

/-- the same with the executable monotonicity check as hypothesis -/
theorem C10_monotone_B (T : Table Rat) (m : Nat) (xs : List Rat) (ms : List BasisMode)
    (dm : Dim Rat) (xm : Rat)
    (hxs : xs.length = T.dims.length) (hms : ms.length = T.dims.length)
    (hdm : T.dims[m]? = some dm) (hxm : xs[m]? = some xm)
    (hmode : ∀ e mo, ms[e]? = some mo → mo = if e = m then BasisMode.deriv1 else BasisMode.value)
    (hwf : ∀ d ∈ T.dims, d.WF)
    (hstride : ∀ e d, T.dims[e]? = some d →
      d.stride = ((T.dims.drop (e+1)).map Dim.naxes).foldl (· * ·) 1)
    (hord : 1 ≤ dm.order)
    (hlo : dm.knots dm.order ≤ xm) (hhi : xm ≤ dm.knots dm.naxes)
    (hlt : dm.knots dm.order < dm.knots dm.naxes)
    (hcoef : monoAlongB (fun a b => decide (a ≤ b)) (stride1 (T.dims.map Dim.naxes) m) dm.naxes
      (stride2 (T.dims.map Dim.naxes) m) (fun p => T.coef (p : Nat)) = true) :
    0 ≤ specEval T xs ms :=
  C10_monotone T m xs ms dm xm hxs hms hdm hxm hmode hwf hstride hord hlo hhi hlt
    (le_of_monoAlongB _ _ _ (fun p => T.coef (p : Nat)) hcoef)

/-- end to end: coefficients produced by the (rounded) cumulative-sum loop from non-negative
T-spline coefficients give a surface non-decreasing along `m` -/
theorem C10_monotone_of_cumsum (T : Table Rat) (m : Nat) (xs : List Rat) (ms : List BasisMode)
    (dm : Dim Rat) (xm : Rat) (add : Rat → Rat → Rat) (t : Nat → Rat)
    (hadd : ∀ a s, 0 ≤ a → s ≤ add a s)
    (ht : ∀ p, p < stride1 (T.dims.map Dim.naxes) m * dm.naxes * stride2 (T.dims.map Dim.naxes) m → 0 ≤ t p)
    (hT : ∀ p : Nat, T.coef (p : Nat) = cumsumLoop add (stride1 (T.dims.map Dim.naxes) m) dm.naxes
      (stride2 (T.dims.map Dim.naxes) m) t p)
    (hxs : xs.length = T.dims.length) (hms : ms.length = T.dims.length)
    (hdm : T.dims[m]? = some dm) (hxm : xs[m]? = some xm)
    (hmode : ∀ e mo, ms[e]? = some mo → mo = if e = m then BasisMode.deriv1 else BasisMode.value)
    (hwf : ∀ d ∈ T.dims, d.WF)
    (hstride : ∀ e d, T.dims[e]? = some d →
      d.stride = ((T.dims.drop (e+1)).map Dim.naxes).foldl (· * ·) 1)
    (hord : 1 ≤ dm.order)
    (hlo : dm.knots dm.order ≤ xm) (hhi : xm ≤ dm.knots dm.naxes)
    (hlt : dm.knots dm.order < dm.knots dm.naxes) :
    0 ≤ specEval T xs ms := by
  apply C10_monotone T m xs ms dm xm hxs hms hdm hxm hmode hwf hstride hord hlo hhi hlt
  intro i hi j hj k hk
  rw [hT, hT]
  exact float_cumsum_monotone 0 add hadd _ _ _ t ht i hi j hj k hk

/-- Non-vacuity of C10: a 2×3×3 table (orders 1,1,1; integer knots; coefficient `p` at flat position
`p`), monotonic dimension `m = 1` (`stride1 = 2`, `stride2 = 3`), point `(3/2, 3/2, 3/2)`.
(`#eval` of this `specEval` gives `3`, the slope of the coefficients along `m`.) -/
example : 0 ≤ specEval
    (⟨[⟨1, 4, 2, 9, fun i => (i : Rat)⟩, ⟨1, 5, 3, 3, fun i => (i : Rat)⟩, ⟨1, 5, 3, 1, fun i => (i : Rat)⟩],
      fun p => (p : Rat)⟩ : Table Rat)
    [3/2, 3/2, 3/2] [BasisMode.value, BasisMode.deriv1, BasisMode.value] := by
  apply C10_monotone _ 1 _ _ (⟨1, 5, 3, 3, fun i => (i : Rat)⟩ : Dim Rat) (3/2) rfl rfl rfl rfl
  · intro e mo h
    rcases e with _ | _ | _ | e
    · simp at h; subst h; rfl
    · simp at h; subst h; rfl
    · simp at h; subst h; rfl
    · simp at h
  · intro d hd
    simp only [List.mem_cons, List.not_mem_nil, or_false] at hd
    rcases hd with rfl | rfl | rfl <;>
      exact ⟨fun a b h => by show ((a : Int) : Rat) ≤ ((b : Int) : Rat); exact_mod_cast h, rfl⟩
  · intro e d h
    rcases e with _ | _ | _ | e
    · simp at h; subst h; rfl
    · simp at h; subst h; rfl
    · simp at h; subst h; rfl
    · simp at h
  · exact Nat.le_refl 1
  · show ((((1 : Nat) : Int)) : Rat) ≤ 3/2; norm_num
  · show (3/2 : Rat) ≤ ((((3 : Nat) : Int)) : Rat); norm_num
  · show ((((1 : Nat) : Int)) : Rat) < ((((3 : Nat) : Int)) : Rat); norm_num
  · intro i _ j _ k _
    show (((idx3 _ _ i j k : Nat) : Int) : Rat) ≤ (((idx3 _ _ i (j+1) k : Nat) : Int) : Rat)
    rw [idx3_succ]
    exact_mod_cast Nat.le_add_right _ _

/-! ## 7. the inactive constraint -/

open Matrix

section Inactive
variable {n : ℕ} {α : Type} [Field α] [LinearOrder α] [IsStrictOrderedRing α]

omit [LinearOrder α] [IsStrictOrderedRing α] in
/-- The normal equations of the T-spline problem are the change of basis `c = L t` of the B-spline ones:
with `A_T = Lᵀ A L`, `b_T = Lᵀ b`, any solution `c = L t` of `A c = b` gives a solution `t` of `A_T t = b_T`
(`L` need not even be the ones matrix here). -/
theorem tcoords_normal_eq (A L : Matrix (Fin n) (Fin n) α) (b t : Fin n → α)
    (h : A *ᵥ (L *ᵥ t) = b) : (Lᵀ * A * L) *ᵥ t = Lᵀ *ᵥ b := by
  rw [← h, Matrix.mulVec_mulVec, Matrix.mulVec_mulVec, Matrix.mul_assoc]

/-- **Inactive constraint.**  If the unconstrained minimiser of the (T-coordinate) quadratic — the solution `t` of
`A t = b` with `A` symmetric positive definite — is component-wise non-negative, then it satisfies the KKT conditions
of the non-negative problem and is therefore (by `kkt_unique_min`) its unique solution: the monotonic fit returns the
unconstrained fit. -/
theorem inactive_constraint (A : Matrix (Fin n) (Fin n) α) (b t : Fin n → α) (hA : SPD A)
    (hsol : A *ᵥ t = b) (ht : ∀ i, 0 ≤ t i) :
    KKT A b t ∧ ∀ z : Fin n → α, (∀ i, 0 ≤ z i) → qf A b t ≤ qf A b z ∧ (qf A b z = qf A b t → z = t) := by
  have hk : KKT A b t := by
    refine ⟨ht, fun i => ?_, fun i _ => ?_⟩ <;> simp [gradM, hsol]
  exact ⟨hk, kkt_unique_min A b t hA hk⟩

end Inactive

/-- non-vacuity of `inactive_constraint`: the 2 × 2 example of C11 with `b = A (1, 2)` -/
example : SPD (Nnls.toMat 2 exA) ∧
    (Nnls.toMat 2 exA) *ᵥ (fun i : Fin 2 => if i = 0 then (1:ℚ) else 2) = (fun i : Fin 2 => if i = 0 then (4:ℚ) else 5) ∧
    ∀ i : Fin 2, (0:ℚ) ≤ (fun i : Fin 2 => if i = 0 then (1:ℚ) else 2) i := by
  refine ⟨exA_spd, ?_, fun i => by fin_cases i <;> simp⟩
  ext i; fin_cases i <;> simp [Matrix.mulVec, dotProduct, Fin.sum_univ_two, Nnls.toMat, exA] <;> norm_num

/-- **Witness for the penalty defect** (2 coefficients in the monotonic dimension): the Kronecker factor that the
unrepaired `calc_penalty` puts in the monotonic slot when it penalises *another* dimension is the identity, whereas the
change of basis `c = L t` requires `LᵀL = [[2,1],[1,1]]`.  So for ≥ 2 dimensions the unrepaired monotonic fit minimises a
different objective and `inactive_constraint` does not apply to it. -/
theorem penalty_factor_differs :
    let L : Matrix (Fin 2) (Fin 2) ℚ := fun i j => if j ≤ i then 1 else 0
    Lᵀ * L ≠ (1 : Matrix (Fin 2) (Fin 2) ℚ) := by
  intro L h
  have h00 : (Lᵀ * L) 0 0 = (1 : Matrix (Fin 2) (Fin 2) ℚ) 0 0 := by rw [h]
  have e : (Lᵀ * L) 0 0 = L 0 0 * L 0 0 + L 1 0 * L 1 0 := by
    rw [Matrix.mul_apply, Fin.sum_univ_two]; rfl
  rw [e] at h00
  norm_num [L] at h00


/-! ## 8. the change of variables of the monotonic fit, for all shapes

`c = L t`, `L = I_{s1} ⊗ (lower-triangular ones)_n ⊗ I_{s2}`; `cumsumLoop` computes `L t`, `diffAlong` computes `L⁻¹ c`. -/

/-- every coefficient the loop produces from increments `≥ z` is itself `≥ z` (what the check reports as
`mono:negative-coefficient` when violated) -/
theorem float_cumsum_nonneg {α : Type} [LinearOrder α] (z : α) (add : α → α → α)
    (hadd : ∀ a s, z ≤ a → s ≤ add a s) (s1 n s2 : Nat) (out : Nat → α)
    (hout : ∀ p, p < s1 * n * s2 → z ≤ out p) :
    ∀ i, i < s1 → ∀ j, j < n → ∀ k, k < s2 → z ≤ cumsumLoop add s1 n s2 out (idx3 n s2 i j k) := by
  intro i hi j hj k hk
  rw [cumsumLoop_spec add out n s2 s1 hi hj hk]
  induction j with
  | zero => exact hout _ (idx3_lt hi hj hk)
  | succ j ih =>
    exact le_trans (ih (by omega)) (csum_mono_step z add hadd out n s2 i k j (hout _ (idx3_lt hi hj hk)))

example : ∀ i, i < 2 → ∀ j, j < 3 → ∀ k, k < 2 →
    0 ≤ cumsumLoop (fun a s : Nat => (a + s + 1) / 2 * 2) 2 3 2 (fun p => 7 * p % 5) (idx3 3 2 i j k) :=
  float_cumsum_nonneg 0 _ (fun a s _ => by omega) 2 3 2 _ (fun _ _ => Nat.zero_le _)

/-- **Float storage, hypothesis reduced to the two defining properties of a rounding.**  `add a s = rnd (plus a s)`
with `rnd` monotone and the identity on representable numbers (`R`; every value the loop reads is representable: the
increments are floats, and every running sum has been rounded): the rounded cumulative sum of non-negative increments is
non-decreasing.  IEEE round-to-nearest (also composed double → float) is such an `rnd`. -/
theorem rounded_cumsum_monotone {α : Type} [LinearOrder α] (z : α) (plus : α → α → α) (rnd : α → α) (R : α → Prop)
    (hplus : ∀ a s, z ≤ a → s ≤ plus a s)
    (hmono : ∀ a b, a ≤ b → rnd a ≤ rnd b) (hfix : ∀ a, R a → rnd a = a) (hrep : ∀ a, R (rnd a))
    (s1 n s2 : Nat) (out : Nat → α)
    (hR : ∀ p, p < s1 * n * s2 → R (out p)) (hout : ∀ p, p < s1 * n * s2 → z ≤ out p) :
    ∀ i, i < s1 → ∀ j, j + 1 < n → ∀ k, k < s2 →
      cumsumLoop (fun a s => rnd (plus a s)) s1 n s2 out (idx3 n s2 i j k)
        ≤ cumsumLoop (fun a s => rnd (plus a s)) s1 n s2 out (idx3 n s2 i (j+1) k) := by
  intro i hi j hj k hk
  rw [cumsumLoop_spec _ out n s2 s1 hi (by omega) hk, cumsumLoop_spec _ out n s2 s1 hi hj hk]
  have hrepj : ∀ j', j' < n → R (csum (fun a s => rnd (plus a s)) out n s2 i k j') := by
    intro j' hj'
    cases j' with
    | zero => exact hR _ (idx3_lt hi hj' hk)
    | succ j'' => exact hrep _
  show csum _ out n s2 i k j ≤ rnd (plus (out (idx3 n s2 i (j+1) k)) (csum _ out n s2 i k j))
  calc csum (fun a s => rnd (plus a s)) out n s2 i k j
      = rnd (csum (fun a s => rnd (plus a s)) out n s2 i k j) := (hfix _ (hrepj j (by omega))).symm
    _ ≤ _ := hmono _ _ (hplus _ _ (hout _ (idx3_lt hi hj hk)))

/-- non-vacuity: rounding to the nearest even integer (upwards) on `Int`; representable = even -/
example : (∀ a s : Int, 0 ≤ a → s ≤ a + s) ∧ (∀ a b : Int, a ≤ b → (a + 1) / 2 * 2 ≤ (b + 1) / 2 * 2) ∧
    (∀ a : Int, a % 2 = 0 → (a + 1) / 2 * 2 = a) ∧ (∀ a : Int, ((a + 1) / 2 * 2) % 2 = 0) ∧
    (∀ p, p < 2 * 3 * 2 → (fun p : Nat => (2 * (7 * p % 5 : Nat) : Int)) p % 2 = 0) :=
  ⟨fun a s _ => by omega, fun a b _ => by omega, fun a _ => by omega, fun a => by omega,
    fun p _ => by show (2 * ((7 * p % 5 : Nat) : Int)) % 2 = 0; omega⟩

/-- **Round-to-nearest is such a rounding.**  Any selector `rnd` of a nearest element of a set `F` of representable numbers
(`rnd a ∈ F`, no element of `F` is closer to `a` — the definition of IEEE-754 round-to-nearest away from overflow, whatever
the tie rule) is monotone and fixes `F`; so is the composition of two of them with `F ⊆ F'` (a double-precision addition
stored into a `float`). -/
theorem nearest_rounding_monotone {α : Type} [Field α] [LinearOrder α] [IsStrictOrderedRing α] (F : α → Prop)
    (rnd : α → α) (hF : ∀ a, F (rnd a)) (hnear : ∀ a f, F f → |a - rnd a| ≤ |a - f|) :
    (∀ a b, a ≤ b → rnd a ≤ rnd b) ∧ (∀ a, F a → rnd a = a) := by
  have key : ∀ a fa fb : α, fb < fa → |a - fa| ≤ |a - fb| → fa + fb ≤ 2 * a := by
    intro a fa fb hlt h
    rcases abs_cases (a - fa) with ⟨h1, h1'⟩ | ⟨h1, h1'⟩ <;> rcases abs_cases (a - fb) with ⟨h2, h2'⟩ | ⟨h2, h2'⟩ <;>
      linarith
  have key' : ∀ b fa fb : α, fb < fa → |b - fb| ≤ |b - fa| → 2 * b ≤ fa + fb := by
    intro b fa fb hlt h
    rcases abs_cases (b - fa) with ⟨h1, h1'⟩ | ⟨h1, h1'⟩ <;> rcases abs_cases (b - fb) with ⟨h2, h2'⟩ | ⟨h2, h2'⟩ <;>
      linarith
  refine ⟨fun a b hab => ?_, fun a ha => ?_⟩
  · by_contra hlt
    have hlt : rnd b < rnd a := not_le.mp hlt
    have h1 := key a (rnd a) (rnd b) hlt (hnear a (rnd b) (hF b))
    have h2 := key' b (rnd a) (rnd b) hlt (hnear b (rnd a) (hF a))
    have : a = b := le_antisymm hab (by linarith)
    subst this
    exact lt_irrefl _ hlt
  · have := hnear a a ha
    rw [sub_self, abs_zero] at this
    have h0 : |a - rnd a| = 0 := le_antisymm this (abs_nonneg _)
    have := abs_eq_zero.mp h0
    linarith

/-- non-vacuity: `F = {0, 1}` inside `ℚ`, `rnd` = the nearer of the two (tie at `1/2` downwards) -/
example : (∀ a : ℚ, (fun q : ℚ => q = 0 ∨ q = 1) ((fun q : ℚ => if q ≤ 1/2 then (0 : ℚ) else 1) a)) ∧
    (∀ a f : ℚ, (f = 0 ∨ f = 1) → |a - (fun q : ℚ => if q ≤ 1/2 then (0 : ℚ) else 1) a| ≤ |a - f|) := by
  refine ⟨fun a => ?_, fun a f hf => ?_⟩
  · show (if a ≤ 1/2 then (0 : ℚ) else 1) = 0 ∨ (if a ≤ 1/2 then (0 : ℚ) else 1) = 1
    split <;> simp
  · show |a - (if a ≤ 1/2 then (0 : ℚ) else 1)| ≤ |a - f|
    rcases hf with rfl | rfl <;> split <;>
      rcases abs_cases (a - 0) with ⟨e1, _⟩ | ⟨e1, _⟩ <;> rcases abs_cases (a - 1) with ⟨e2, _⟩ | ⟨e2, _⟩ <;> linarith

/-- the float cumulative sum with an IEEE-style addition `fl(a + s)` = a nearest representable number to the exact sum:
no hypothesis on the arithmetic beyond that definition -/
theorem ieee_cumsum_monotone {α : Type} [Field α] [LinearOrder α] [IsStrictOrderedRing α] (F : α → Prop)
    (rnd : α → α) (hF : ∀ a, F (rnd a)) (hnear : ∀ a f, F f → |a - rnd a| ≤ |a - f|)
    (s1 n s2 : Nat) (out : Nat → α)
    (hR : ∀ p, p < s1 * n * s2 → F (out p)) (hout : ∀ p, p < s1 * n * s2 → 0 ≤ out p) :
    ∀ i, i < s1 → ∀ j, j + 1 < n → ∀ k, k < s2 →
      cumsumLoop (fun a s => rnd (a + s)) s1 n s2 out (idx3 n s2 i j k)
        ≤ cumsumLoop (fun a s => rnd (a + s)) s1 n s2 out (idx3 n s2 i (j+1) k) := by
  obtain ⟨hm, hfix⟩ := nearest_rounding_monotone F rnd hF hnear
  exact rounded_cumsum_monotone 0 (· + ·) rnd F (fun a s ha => le_add_of_nonneg_left ha) hm hfix hF s1 n s2 out hR hout

/-- non-vacuity: exact arithmetic is the rounding with every number representable; increments `p % 3` -/
example : (∀ a : ℚ, (fun _ : ℚ => True) (id a)) ∧ (∀ a f : ℚ, True → |a - id a| ≤ |a - f|) ∧
    (∀ p, p < 2 * 3 * 2 → (0 : ℚ) ≤ (fun p : Nat => ((p % 3 : Nat) : ℚ)) p) :=
  ⟨fun _ => trivial, fun a f _ => by simp, fun p _ => by positivity⟩

/-- **The tail of `glamfit_complex` for a monotonic fit** (`backTransform`: scale the normalised solution back in double,
convert to float, cumulative sum in float), for every shape and every solver output `x ≥ 0` (which
`block3_nonneg_invariant` of C11 guarantees on every exit of the non-negative solver): the coefficient table is
non-negative and non-decreasing along the monotonic index, and passes the check the driver executes. -/
theorem backTransform_monotone {δ φ : Type} [Preorder δ] [LinearOrder φ] (zd : δ) (zf : φ)
    (mulS : δ → δ) (toF : δ → φ) (add : φ → φ → φ)
    (hmul : ∀ a, zd ≤ a → zd ≤ mulS a) (htoF : ∀ a, zd ≤ a → zf ≤ toF a) (hadd : ∀ a s, zf ≤ a → s ≤ add a s)
    (s1 n s2 : Nat) (x : Nat → δ) (hx : ∀ p, p < s1 * n * s2 → zd ≤ x p) :
    (∀ i, i < s1 → ∀ j, j + 1 < n → ∀ k, k < s2 →
      backTransform mulS toF add s1 n s2 x (idx3 n s2 i j k)
        ≤ backTransform mulS toF add s1 n s2 x (idx3 n s2 i (j+1) k)) ∧
    (∀ i, i < s1 → ∀ j, j < n → ∀ k, k < s2 → zf ≤ backTransform mulS toF add s1 n s2 x (idx3 n s2 i j k)) ∧
    monoAlongB (fun a b => decide (a ≤ b)) s1 n s2 (backTransform mulS toF add s1 n s2 x) = true := by
  have h0 : ∀ p, p < s1 * n * s2 → zf ≤ (fun p => toF (mulS (x p))) p :=
    fun p hp => htoF _ (hmul _ (hx p hp))
  exact ⟨float_cumsum_monotone zf add hadd s1 n s2 _ h0, float_cumsum_nonneg zf add hadd s1 n s2 _ h0,
    float_cumsum_monoAlongB zf add hadd s1 n s2 _ h0⟩

example : (∀ a : Nat, 0 ≤ a → 0 ≤ 3 * a) ∧ (∀ a : Nat, 0 ≤ a → (0 : Int) ≤ (a : Int)) ∧
    monoAlongB (fun a b => decide (a ≤ b)) 2 3 2
      (backTransform (fun a : Nat => 3 * a) (fun a => (a : Int)) (fun a s : Int => (a + s + 1) / 2 * 2) 2 3 2
        (fun p => 7 * p % 5)) = true :=
  ⟨fun _ _ => Nat.zero_le _, fun a _ => Int.natCast_nonneg a, by decide⟩

/-- **The change of variables is a bijection of the box** (exact arithmetic): every table is the cumulative sum of its own
increments, and the increments of a cumulative sum are the summands. -/
theorem cumsum_diff_inverse {α : Type} [AddCommGroup α] (s1 n s2 : Nat) (c t : Nat → α) :
    (∀ p, p < s1 * n * s2 → cumsumLoop (· + ·) s1 n s2 (diffAlong (· - ·) n s2 c) p = c p) ∧
    (∀ p, p < s1 * n * s2 → diffAlong (· - ·) n s2 (cumsumLoop (· + ·) s1 n s2 t) p = t p) :=
  ⟨fun _ hp => cumsum_diffAlong s1 n s2 c hp, fun _ hp => diffAlong_cumsum s1 n s2 t hp⟩

-- (`cumsum_diff_inverse` has no hypotheses; a concrete instance on a 2 × 3 × 2 box:)
example : (List.range 12).all (fun p =>
    diffAlong (· - ·) 3 2 (cumsumLoop (· + ·) 2 3 2 (fun q : Nat => ((7 * q % 5 : Nat) : Int))) p == ((7 * p % 5 : Nat) : Int)) = true := by
  decide

/-- **Tables with non-negative increments = non-negative first slice + non-decreasing along the monotonic index**; so
the image of the non-negative orthant under the change of variables is exactly the set of tables the property describes,
and the executable checks `incNonnegB` / `monoAlongB` decide membership. -/
theorem increments_nonneg_iff (s1 n s2 : Nat) (c : Nat → Rat) :
    incNonnegB (fun a => decide (0 ≤ a)) (· - ·) s1 n s2 c = true ↔
      (∀ i, i < s1 → ∀ k, k < s2 → 0 < n → 0 ≤ c (idx3 n s2 i 0 k)) ∧
      monoAlongB (fun a b => decide (a ≤ b)) s1 n s2 c = true := by
  have h1 : incNonnegB (fun a => decide (0 ≤ a)) (· - ·) s1 n s2 c = true ↔
      ∀ p, p < s1 * n * s2 → 0 ≤ diffAlong (· - ·) n s2 c p := by
    unfold incNonnegB
    simp only [List.all_eq_true, List.mem_range, decide_eq_true_eq]
  rw [h1, diffAlong_nonneg_iff s1 n s2 c]
  constructor
  · rintro ⟨a, b⟩; exact ⟨a, monoAlongB_of_le s1 n s2 c b⟩
  · rintro ⟨a, b⟩; exact ⟨a, le_of_monoAlongB s1 n s2 c b⟩

example : incNonnegB (fun a : Rat => decide (0 ≤ a)) (· - ·) 2 3 2 (fun p => (p : Rat)) = true := by decide +kernel

/-- **`L t` is the cumulative sum, and `L` is injective** (any shape; `cumMat` is built column by column with the loop of
`glamfit_complex`). -/
theorem cumMat_spec {α : Type} [CommRing α] (s1 n s2 : Nat) :
    (∀ (t : Fin (s1 * n * s2) → α) (p : Fin (s1 * n * s2)),
      (cumMat α s1 n s2 *ᵥ t) p = cumsumLoop (· + ·) s1 n s2 (extZ t) p.val) ∧
    (∀ t : Fin (s1 * n * s2) → α, cumMat α s1 n s2 *ᵥ t = 0 → t = 0) :=
  ⟨cumMat_mulVec s1 n s2, cumMat_injective s1 n s2⟩

example : cumMat ℚ 1 2 2 = !![1,0,0,0; 0,1,0,0; 1,0,1,0; 0,1,0,1] := by decide +kernel

/-! ## 9. from non-decreasing coefficients to a non-decreasing surface (values, not derivatives) -/

/-- **1-d core**: with non-decreasing coefficients, `x ≤ y` inside the fully supported region implies
`Σ_j c_j B_j(x) ≤ Σ_j c_j B_j(y)` (any order, repeated knots allowed; no calculus: Abel summation over the tail sums
`Σ_{l ≥ j} B_l`, which are non-decreasing in `x` by induction over the order). -/
theorem spline_value_monotone_1d (d : Dim Rat) (x y : Rat) (hwf : d.WF)
    (hlo : d.knots d.order ≤ x) (hxy : x ≤ y) (hhi : y ≤ d.knots d.naxes)
    (hlt : d.knots d.order < d.knots d.naxes)
    (c : Nat → Rat) (hc : ∀ j, j + 1 < d.naxes → c j ≤ c (j+1)) :
    ∑ j ∈ range d.naxes, c j * Bsel d x 0 j ≤ ∑ j ∈ range d.naxes, c j * Bsel d y 0 j := by
  obtain ⟨mx, hbx, hox⟩ := selInd_brk d x hwf.mono hlo (le_trans hxy hhi) hlt
  obtain ⟨my, hby, _⟩ := selInd_brk d y hwf.mono (le_trans hlo hxy) hhi hlt
  exact spline1d_mono hwf.mono hbx hby hxy (selInd_brk_le d x y hwf.mono hbx hby hxy) d.order hox c hc

/-- Non-vacuity of the 1-d statement: order 2, knots `0..6`, 4 coefficients `c j = j`, from `x = 5/2` to `y = 7/2`
inside the supported region `[2, 4]`. -/
example : ∑ j ∈ range 4, ((j : Nat) : Rat) * Bsel (⟨2, 7, 4, 1, fun i => (i : Rat)⟩ : Dim Rat) (5/2) 0 j
    ≤ ∑ j ∈ range 4, ((j : Nat) : Rat) * Bsel (⟨2, 7, 4, 1, fun i => (i : Rat)⟩ : Dim Rat) (7/2) 0 j :=
  spline_value_monotone_1d (⟨2, 7, 4, 1, fun i => (i : Rat)⟩ : Dim Rat) (5/2) (7/2)
    ⟨fun a b h => by show ((a : Int) : Rat) ≤ ((b : Int) : Rat); exact_mod_cast h, rfl⟩
    (by show ((((2 : Nat) : Int)) : Rat) ≤ 5/2; norm_num) (by norm_num)
    (by show (7/2 : Rat) ≤ ((((4 : Nat) : Int)) : Rat); norm_num)
    (by show ((((2 : Nat) : Int)) : Rat) < ((((4 : Nat) : Int)) : Rat); norm_num)
    (fun j => (j : Rat)) (fun j _ => by push_cast; linarith)

/-- **C10, the surface itself**: if the coefficients are non-decreasing along dimension `m`, then moving the `m`-th
coordinate from `xm` up to `ym` inside the fully supported region of that dimension (all other coordinates fixed,
anywhere) does not decrease the value of the tensor-product spline — for every number of dimensions, every order
(0 included), every sorted knot vector. -/
theorem C10_surface_monotone (T : Table Rat) (m : Nat) (xs : List Rat) (ms : List BasisMode)
    (dm : Dim Rat) (xm ym : Rat)
    (hxs : xs.length = T.dims.length) (hms : ms.length = T.dims.length)
    (hdm : T.dims[m]? = some dm) (hxm : xs[m]? = some xm)
    (hmode : ∀ mo ∈ ms, mo = BasisMode.value)
    (hwf : ∀ d ∈ T.dims, d.WF)
    (hstride : ∀ e d, T.dims[e]? = some d →
      d.stride = ((T.dims.drop (e+1)).map Dim.naxes).foldl (· * ·) 1)
    (hlo : dm.knots dm.order ≤ xm) (hxy : xm ≤ ym) (hhi : ym ≤ dm.knots dm.naxes)
    (hlt : dm.knots dm.order < dm.knots dm.naxes)
    (hcoef : ∀ i, i < stride1 (T.dims.map Dim.naxes) m → ∀ j, j + 1 < dm.naxes →
      ∀ k, k < stride2 (T.dims.map Dim.naxes) m →
        T.coef (idx3 dm.naxes (stride2 (T.dims.map Dim.naxes) m) i j k : Nat)
          ≤ T.coef (idx3 dm.naxes (stride2 (T.dims.map Dim.naxes) m) i (j+1) k : Nat)) :
    specEval T xs ms ≤ specEval T (xs.set m ym) ms := by
  show specSum T.coef (specRows T.dims xs ms) 1 0 ≤ specSum T.coef (specRows T.dims (xs.set m ym) ms) 1 0
  have hwfm : dm.WF := hwf dm (List.mem_of_getElem? hdm)
  apply specSum_dims_le T.coef dm xm ym
    (fun c hc => spline_value_monotone_1d dm xm ym hwfm hlo hxy hhi hlt c hc)
    m T.dims xs ms hxs hms hdm hxm hmode (fun d hd => (hwf d hd).mono) (DimsRM_of_index _ hstride) 1 (by norm_num) 0
  intro i hi j hj k hk
  rw [zero_add, zero_add]
  exact hcoef i hi j hj k hk

/-- the same with the executable monotonicity check of the driver as hypothesis -/
theorem C10_surface_monotone_B (T : Table Rat) (m : Nat) (xs : List Rat) (ms : List BasisMode)
    (dm : Dim Rat) (xm ym : Rat)
    (hxs : xs.length = T.dims.length) (hms : ms.length = T.dims.length)
    (hdm : T.dims[m]? = some dm) (hxm : xs[m]? = some xm)
    (hmode : ∀ mo ∈ ms, mo = BasisMode.value)
    (hwf : ∀ d ∈ T.dims, d.WF)
    (hstride : ∀ e d, T.dims[e]? = some d →
      d.stride = ((T.dims.drop (e+1)).map Dim.naxes).foldl (· * ·) 1)
    (hlo : dm.knots dm.order ≤ xm) (hxy : xm ≤ ym) (hhi : ym ≤ dm.knots dm.naxes)
    (hlt : dm.knots dm.order < dm.knots dm.naxes)
    (hcoef : monoAlongB (fun a b => decide (a ≤ b)) (stride1 (T.dims.map Dim.naxes) m) dm.naxes
      (stride2 (T.dims.map Dim.naxes) m) (fun p => T.coef (p : Nat)) = true) :
    specEval T xs ms ≤ specEval T (xs.set m ym) ms :=
  C10_surface_monotone T m xs ms dm xm ym hxs hms hdm hxm hmode hwf hstride hlo hxy hhi hlt
    (le_of_monoAlongB _ _ _ (fun p => T.coef (p : Nat)) hcoef)

/-- **End to end**: a table whose coefficients are (the exact values of) the output of the back-transform of
`glamfit_complex` applied to any non-negative solver output is a surface non-decreasing along `m` on the fully supported
region. -/
theorem C10_fit_surface_monotone {δ : Type} [Preorder δ] (zd : δ) (mulS : δ → δ) (toF : δ → Rat)
    (add : Rat → Rat → Rat) (x : Nat → δ)
    (T : Table Rat) (m : Nat) (xs : List Rat) (ms : List BasisMode) (dm : Dim Rat) (xm ym : Rat)
    (hmul : ∀ a, zd ≤ a → zd ≤ mulS a) (htoF : ∀ a, zd ≤ a → 0 ≤ toF a) (hadd : ∀ a s, 0 ≤ a → s ≤ add a s)
    (hx : ∀ p, p < stride1 (T.dims.map Dim.naxes) m * dm.naxes * stride2 (T.dims.map Dim.naxes) m → zd ≤ x p)
    (hT : ∀ p : Nat, T.coef (p : Nat) = backTransform mulS toF add (stride1 (T.dims.map Dim.naxes) m) dm.naxes
      (stride2 (T.dims.map Dim.naxes) m) x p)
    (hxs : xs.length = T.dims.length) (hms : ms.length = T.dims.length)
    (hdm : T.dims[m]? = some dm) (hxm : xs[m]? = some xm)
    (hmode : ∀ mo ∈ ms, mo = BasisMode.value)
    (hwf : ∀ d ∈ T.dims, d.WF)
    (hstride : ∀ e d, T.dims[e]? = some d →
      d.stride = ((T.dims.drop (e+1)).map Dim.naxes).foldl (· * ·) 1)
    (hlo : dm.knots dm.order ≤ xm) (hxy : xm ≤ ym) (hhi : ym ≤ dm.knots dm.naxes)
    (hlt : dm.knots dm.order < dm.knots dm.naxes) :
    specEval T xs ms ≤ specEval T (xs.set m ym) ms := by
  apply C10_surface_monotone T m xs ms dm xm ym hxs hms hdm hxm hmode hwf hstride hlo hxy hhi hlt
  intro i hi j hj k hk
  rw [hT, hT]
  exact (backTransform_monotone zd 0 mulS toF add hmul htoF hadd _ _ _ x hx).1 i hi j hj k hk

/-- Non-vacuity of `C10_surface_monotone`: the 2×3×3 table of §6 (orders 1,1,1; coefficient `p` at flat position `p`),
monotonic dimension 1, from `(3/2, 3/2, 3/2)` to `(3/2, 5/2, 3/2)`.  (`#eval` gives `11` and `14`.) -/
example : specEval
    (⟨[⟨1, 4, 2, 9, fun i => (i : Rat)⟩, ⟨1, 5, 3, 3, fun i => (i : Rat)⟩, ⟨1, 5, 3, 1, fun i => (i : Rat)⟩],
      fun p => (p : Rat)⟩ : Table Rat)
    [3/2, 3/2, 3/2] [BasisMode.value, BasisMode.value, BasisMode.value]
    ≤ specEval
    (⟨[⟨1, 4, 2, 9, fun i => (i : Rat)⟩, ⟨1, 5, 3, 3, fun i => (i : Rat)⟩, ⟨1, 5, 3, 1, fun i => (i : Rat)⟩],
      fun p => (p : Rat)⟩ : Table Rat)
    [3/2, 5/2, 3/2] [BasisMode.value, BasisMode.value, BasisMode.value] := by
  apply C10_surface_monotone _ 1 [3/2, 3/2, 3/2] _ (⟨1, 5, 3, 3, fun i => (i : Rat)⟩ : Dim Rat) (3/2) (5/2) rfl rfl rfl rfl
  · intro mo h
    simp only [List.mem_cons, List.not_mem_nil, or_false, or_self] at h
    exact h
  · intro d hd
    simp only [List.mem_cons, List.not_mem_nil, or_false] at hd
    rcases hd with rfl | rfl | rfl <;>
      exact ⟨fun a b h => by show ((a : Int) : Rat) ≤ ((b : Int) : Rat); exact_mod_cast h, rfl⟩
  · intro e d h
    rcases e with _ | _ | _ | e
    · simp at h; subst h; rfl
    · simp at h; subst h; rfl
    · simp at h; subst h; rfl
    · simp at h
  · show ((((1 : Nat) : Int)) : Rat) ≤ 3/2; norm_num
  · norm_num
  · show (5/2 : Rat) ≤ ((((3 : Nat) : Int)) : Rat); norm_num
  · show ((((1 : Nat) : Int)) : Rat) < ((((3 : Nat) : Int)) : Rat); norm_num
  · intro i _ j _ k _
    show (((idx3 _ _ i j k : Nat) : Int) : Rat) ≤ (((idx3 _ _ i (j+1) k : Nat) : Int) : Rat)
    rw [idx3_succ]
    exact_mod_cast Nat.le_add_right _ _

/-- Non-vacuity of the `_B` form: the executable hypothesis holds for that table (`stride1 = 2`, `n = 3`, `stride2 = 3`). -/
example : monoAlongB (fun a b : Rat => decide (a ≤ b)) 2 3 3 (fun p => ((p : Nat) : Rat)) = true := by decide +kernel

/-- Non-vacuity of the end-to-end form: solver output `x p = p % 2` in `Nat` (`zd = 0`), scaling by 3, conversion `Nat → ℚ`,
exact addition; the table `T.coef = backTransform …` satisfies `hT` by definition. -/
example : (∀ a : Nat, 0 ≤ a → 0 ≤ 3 * a) ∧ (∀ a : Nat, 0 ≤ a → (0 : Rat) ≤ (a : Rat)) ∧
    (∀ a s : Rat, 0 ≤ a → s ≤ a + s) ∧ (∀ p, p < 2 * 3 * 3 → 0 ≤ (fun p : Nat => p % 2) p) ∧
    (∀ p : Nat, (fun q : Int => backTransform (fun a : Nat => 3 * a) (fun a => (a : Rat)) (· + ·) 2 3 3 (fun p => p % 2) q.toNat) (p : Nat)
      = backTransform (fun a : Nat => 3 * a) (fun a => (a : Rat)) (· + ·) 2 3 3 (fun p => p % 2) p) :=
  ⟨fun _ _ => Nat.zero_le _, fun a _ => Nat.cast_nonneg a, fun a s h => le_add_of_nonneg_left h, fun _ _ => Nat.zero_le _,
   fun p => by simp⟩

/-! ## 10. the inactive-constraint clause, for the same objective -/

section InactiveB
variable {N : ℕ} {α : Type} [Field α] [LinearOrder α] [IsStrictOrderedRing α]

/-- the objective of the T-spline problem (matrix `LᵀAL`, right-hand side `Lᵀb`) **is** the objective of the B-spline
problem evaluated at `c = L t` -/
theorem tobjective_eq (A L : Matrix (Fin N) (Fin N) α) (b t : Fin N → α) :
    qf (Lᵀ * A * L) (Lᵀ *ᵥ b) t = qf A b (L *ᵥ t) := qf_tcoords A L b t

/-- **Inactive constraint, in B-spline coordinates.**  `A` symmetric positive definite (the normal matrix of the
penalised least-squares objective `qf A b`), `L` an injective change of variables `c = L t`, `c` the solution of the normal
equations `A c = b`.  If `c = L t` with `t ≥ 0` (the unconstrained fit has non-negative increments), then
1. `c` minimises `qf A b` over *all* vectors (it is the unconstrained fit),
2. the T-problem `(LᵀAL, Lᵀb)` — the **same objective** by `tobjective_eq` — is positive definite and `t` is a KKT point of it,
3. `c` minimises `qf A b` over the cone `{L z : z ≥ 0}`, uniquely,
4. whatever KKT point `t'` of the T-problem a non-negative solver returns, the back-transform `L t'` **is** `c`. -/
theorem inactive_constraint_B (A L : Matrix (Fin N) (Fin N) α) (b c t : Fin N → α) (hA : SPD A)
    (hL : ∀ v, L *ᵥ v = 0 → v = 0) (hsol : A *ᵥ c = b) (hc : c = L *ᵥ t) (ht : ∀ i, 0 ≤ t i) :
    (∀ z, qf A b c ≤ qf A b z) ∧
    SPD (Lᵀ * A * L) ∧ KKT (Lᵀ * A * L) (Lᵀ *ᵥ b) t ∧
    (∀ z : Fin N → α, (∀ i, 0 ≤ z i) → qf A b c ≤ qf A b (L *ᵥ z) ∧ (qf A b (L *ᵥ z) = qf A b c → z = t)) ∧
    (∀ t' : Fin N → α, KKT (Lᵀ * A * L) (Lᵀ *ᵥ b) t' → L *ᵥ t' = c) := by
  have hspd := spd_tcoords A L hA hL
  have hT : (Lᵀ * A * L) *ᵥ t = Lᵀ *ᵥ b := tcoords_normal_eq A L b t (by rw [← hc]; exact hsol)
  obtain ⟨hk, hmin⟩ := inactive_constraint (Lᵀ * A * L) (Lᵀ *ᵥ b) t hspd hT ht
  refine ⟨normal_eq_global_min A b c hA hsol, hspd, hk, fun z hz => ?_, fun t' hk' => ?_⟩
  · have := hmin z hz
    rw [tobjective_eq, tobjective_eq, ← hc] at this
    exact this
  · have h1 := (kkt_unique_min _ _ t' hspd hk' t ht).1
    have h2 := hmin t' hk'.1
    have : t' = t := h2.2 (le_antisymm h1 h2.1)
    rw [this, hc]

end InactiveB

/-- non-vacuity of `inactive_constraint_B`: `A = exA` (C11), `L` the 2 × 2 lower-triangular ones matrix, `t = (1, 1)`,
`c = L t = (1, 2)`, `b = A c = (4, 5)` -/
example : SPD (Nnls.toMat 2 exA) ∧ (∀ v, cumMat ℚ 1 2 1 *ᵥ v = 0 → v = 0) ∧
    (Nnls.toMat 2 exA) *ᵥ ![1, 2] = ![4, 5] ∧ (![1, 2] : Fin 2 → ℚ) = cumMat ℚ 1 2 1 *ᵥ ![1, 1] ∧
    ∀ i : Fin 2, (0:ℚ) ≤ ![1, 1] i :=
  ⟨exA_spd, cumMat_injective 1 2 1, by decide +kernel, by decide +kernel, by decide +kernel⟩

/-- **Inactive constraint for the cumulative-sum change of variables, any shape `s1 × n × s2`.**  If the unconstrained fit
`c` (solution of `A c = b`, `A` positive definite) has a non-negative first slice and non-negative increments along the
monotonic index (`diffAlong`), then for **every** KKT point `t'` of the T-problem `(LᵀAL, Lᵀb)`, `L = cumMat`, the
cumulative sum of `t'` computed by the loop of `glamfit_complex` (in exact arithmetic) returns exactly `c`. -/
theorem inactive_constraint_cumsum {α : Type} [Field α] [LinearOrder α] [IsStrictOrderedRing α] (s1 n s2 : Nat)
    (A : Matrix (Fin (s1 * n * s2)) (Fin (s1 * n * s2)) α) (b c : Fin (s1 * n * s2) → α) (hA : SPD A)
    (hsol : A *ᵥ c = b)
    (hinc : ∀ p, p < s1 * n * s2 → 0 ≤ diffAlong (· - ·) n s2 (extZ c) p) :
    ∀ t' : Fin (s1 * n * s2) → α,
      KKT ((cumMat α s1 n s2)ᵀ * A * cumMat α s1 n s2) ((cumMat α s1 n s2)ᵀ *ᵥ b) t' →
      ∀ p : Fin (s1 * n * s2), cumsumLoop (· + ·) s1 n s2 (extZ t') p.val = c p := by
  intro t' hk p
  let t : Fin (s1 * n * s2) → α := fun q => diffAlong (· - ·) n s2 (extZ c) q.val
  have hc : c = cumMat α s1 n s2 *ᵥ t := by
    funext q
    rw [cumMat_mulVec, cumsum_congr s1 n s2 (extZ t) (diffAlong (· - ·) n s2 (extZ c))
      (fun r hr => extZ_val t ⟨r, hr⟩) q.isLt,
      cumsum_diffAlong s1 n s2 (extZ c) q.isLt, extZ_val]
  have := (inactive_constraint_B A (cumMat α s1 n s2) b c t hA (cumMat_injective s1 n s2) hsol hc
    (fun q => hinc q.val q.isLt)).2.2.2.2 t' hk
  rw [← cumMat_mulVec, this]

/-- non-vacuity: shape 1 × 2 × 1, `A = exA`, `c = (1, 2)` has increments `(1, 1) ≥ 0` -/
example : SPD (Nnls.toMat 2 exA) ∧ (Nnls.toMat 2 exA) *ᵥ ![1, 2] = ![4, 5] ∧
    ∀ p, p < 1 * 2 * 1 → (0 : ℚ) ≤ diffAlong (· - ·) 2 1 (extZ (![1, 2] : Fin (1 * 2 * 1) → ℚ)) p :=
  ⟨exA_spd, by decide +kernel, by decide +kernel⟩

/-- **The clause for the objective the property states** (`objective P` of `Spec/Fit.lean`, the penalised weighted
least-squares objective of C09 — data term *and* penalty in B-spline coefficients): if the unconstrained minimiser is the
cumulative sum of non-negative increments `t`, it minimises `objective P` over all tables with non-negative increments,
and (normal matrix positive definite) it is the only such minimiser: every `t'` that does as well equals `t` on the box. -/
theorem inactive_constraint_objective (P : FitProblem Rat) (hP : NormalEq.PosDef P.ncoef (Mf P)) (s1 n s2 : Nat)
    (hN : s1 * n * s2 = P.ncoef) (t : Nat → Rat)
    (hmin : ∀ c' : Nat → Rat, objective P (cumsumLoop (· + ·) s1 n s2 t) ≤ objective P c') :
    (∀ t' : Nat → Rat, (∀ p, p < s1 * n * s2 → 0 ≤ t' p) →
      objective P (cumsumLoop (· + ·) s1 n s2 t) ≤ objective P (cumsumLoop (· + ·) s1 n s2 t')) ∧
    (∀ t' : Nat → Rat, objective P (cumsumLoop (· + ·) s1 n s2 t') ≤ objective P (cumsumLoop (· + ·) s1 n s2 t) →
      ∀ p, p < s1 * n * s2 → t' p = t p) := by
  refine ⟨fun t' _ => hmin _, fun t' hle => ?_⟩
  have hne : ∀ i < P.ncoef, NormalEq.mulVec P.ncoef (Mf P) (cumsumLoop (· + ·) s1 n s2 t) i = rf P i := by
    rw [NormalEq.normal_eq_minimises_full (objConst P) (specM_symm P) hP]
    intro c'
    rw [← objective_eq_fullObj P, ← objective_eq_fullObj P]
    exact hmin c'
  rw [objective_eq_fullObj P, objective_eq_fullObj P, NormalEq.objective_shift] at hle
  have huniq := NormalEq.minimiser_unique (specM_symm P) hP hne hle
  exact cumsum_injective s1 n s2 t' t (fun p hp => huniq p (by omega))

/-- non-vacuity: the example problem of C09 (`exP`: two coefficients, minimiser `(1, 1)`) with shape 1 × 2 × 1 and
increments `t = (1, 0)` -/
example : NormalEq.PosDef exP.ncoef (Mf exP) ∧ 1 * 2 * 1 = exP.ncoef ∧
    ∀ c' : Nat → Rat, objective exP (cumsumLoop (· + ·) 1 2 1 (fun p => if p = 0 then 1 else 0)) ≤ objective exP c' := by
  refine ⟨exP_posDef, rfl, ?_⟩
  intro c'
  rw [objective_eq_fullObj exP, objective_eq_fullObj exP]
  revert c'
  rw [← NormalEq.normal_eq_minimises_full (objConst exP) (specM_symm exP) exP_posDef]
  intro i hi
  have hi' : i < 2 := hi
  have e : ∀ q, q < 2 → cumsumLoop (· + ·) 1 2 1 (fun p => if p = 0 then (1 : Rat) else 0) q = (fun _ => (1 : Rat)) q := by
    intro q hq
    have hq' : q = 0 ∨ q = 1 := by omega
    rcases hq' with rfl | rfl <;> decide +kernel
  rw [← exP_normal i hi]
  unfold NormalEq.mulVec
  apply Finset.sum_congr rfl
  intro j hj
  rw [e j (Finset.mem_range.mp hj)]

/-- **The code's objective in one dimension is the same objective.**  With a single dimension the only penalty is that of
the monotonic dimension itself, which `calc_penalty(mono = 1)` builds from the finite-difference matrix times `L`
(`finitediff · tril`): `Lᵀ G L + λ (D L)ᵀ (D L) = Lᵀ (G + λ DᵀD) L` — the change of basis of the B-spline normal matrix, so
`inactive_constraint_B` applies to what the code solves (the check finds the 1-d inactive case agreeing to 1e-7).  In two
or more dimensions this fails: `inactive_clause_fails_for_code_penalty`. -/
theorem code_objective_1d {N K : ℕ} {α : Type} [Field α] (G L : Matrix (Fin N) (Fin N) α) (D : Matrix (Fin K) (Fin N) α)
    (lam : α) :
    Lᵀ * G * L + lam • ((D * L)ᵀ * (D * L)) = Lᵀ * (G + lam • (Dᵀ * D)) * L := by
  rw [Matrix.transpose_mul, Matrix.mul_add, Matrix.add_mul, Matrix.mul_smul, Matrix.smul_mul]
  congr 2
  simp only [Matrix.mul_assoc]

-- (`code_objective_1d` has no hypotheses: nothing to instantiate.)

/-! ### the clause is false for the objective the unrepaired code minimises in ≥ 2 dimensions (known finding) -/

/-- 2 × 2 table, monotonic dimension 0 (`s1 = 1, n = 2, s2 = 2`): `L = cumMat` -/
def cexL : Matrix (Fin 4) (Fin 4) ℚ := cumMat ℚ 1 2 2
/-- smoothness penalty of dimension 1 in B-spline coefficients, `I₂ ⊗ DᵀD` with `D = (−1 1)` (first differences) -/
def cexP : Matrix (Fin 4) (Fin 4) ℚ := !![1,-1,0,0; -1,1,0,0; 0,0,1,-1; 0,0,-1,1]
/-- the B-spline normal matrix: data term `BᵀWB = 1` plus the penalty -/
def cexA : Matrix (Fin 4) (Fin 4) ℚ := 1 + cexP
/-- what `glamfit_complex` + `calc_penalty` assemble for the monotonic fit: the data term in T-coordinates, but the
penalty of the *other* dimension with the identity in the monotonic slot (`I₂ ⊗ DᵀD` again, instead of `LᵀL ⊗ DᵀD`) -/
def cexAcode : Matrix (Fin 4) (Fin 4) ℚ := cexLᵀ * 1 * cexL + cexP
def cexb : Fin 4 → ℚ := ![0, 3, 1, 7]
def cexc : Fin 4 → ℚ := ![1, 2, 3, 5]
def cext : Fin 4 → ℚ := ![6/11, 27/11, 20/11, 35/11]
def cexAcodeN : Nnls.Mat := fun i j =>
  (([[3,-1,1,0], [-1,3,0,1], [1,0,2,-1], [0,1,-1,2]] : List (List ℚ)).getD i []).getD j 0

/-- **Counterexample for the code's objective** (known finding `inactive:differs:nd`; `fixes/C10-1.diff` repairs it).
The unconstrained fit `c = (1,2;3,5)` of the 2 × 2 problem `(cexA, cexb)` has non-negative increments along dimension 0,
so by `inactive_constraint_B` the monotonic fit for the *same* objective returns `c`.  The matrix the code assembles
(`cexAcode`) differs from the change of basis `LᵀAL`; it is positive definite, `t' = (6,27,20,35)/11 ≥ 0` solves its
normal equations — so `t'` is the unique solution of the non-negative problem the code hands to its solver — and the
back-transform `L t' = (6,27,26,62)/11` is not `c`. -/
theorem inactive_clause_fails_for_code_penalty :
    cexA *ᵥ cexc = cexb ∧ (∀ p, p < 1 * 2 * 2 → 0 ≤ diffAlong (· - ·) 2 2 (extZ cexc) p) ∧
    cexAcode ≠ cexLᵀ * cexA * cexL ∧
    SPD cexAcode ∧ KKT cexAcode (cexLᵀ *ᵥ cexb) cext ∧
    (∀ t' : Fin 4 → ℚ, KKT cexAcode (cexLᵀ *ᵥ cexb) t' → t' = cext) ∧
    cexL *ᵥ cext ≠ cexc := by
  have hN : cexAcode = Nnls.toMat 4 cexAcodeN := by decide +kernel
  have hspd : SPD cexAcode := by
    rw [hN]; exact spdCert_sound 4 cexAcodeN (by decide +kernel)
  have hk : KKT cexAcode (cexLᵀ *ᵥ cexb) cext := by
    have hg : gradM cexAcode (cexLᵀ *ᵥ cexb) cext = 0 := by decide +kernel
    refine ⟨by decide +kernel, fun i => by rw [hg]; exact le_refl _, fun i _ => by rw [hg]; rfl⟩
  refine ⟨by decide +kernel, by decide +kernel, by decide +kernel, hspd, hk, fun t' hk' => ?_, by decide +kernel⟩
  have h1 := kkt_unique_min _ _ cext hspd hk t' hk'.1
  have h2 := kkt_unique_min _ _ t' hspd hk' cext hk.1
  exact h1.2 (le_antisymm h2.1 h1.1)


/-! ## 11. rescaled axes: the fit does not depend on the unit of the abscissa -/

section KnotScale
variable {α : Type} [Field α] [LinearOrder α] [IsStrictOrderedRing α] [A : Arith α] [L : LawfulArith α]

/-- de Boor's recurrence on knots `h·t`: the `p`-th derivative coefficients are those on `t` divided by `h^p`
(also at repeated knots, where both sides are `0`). -/
theorem derivCoef_knot_scale (h : α) (hh : h ≠ 0) (t : Int → α) (order p : Nat) (c : Nat → α) (j : Nat) :
    derivCoef (scaleKnots h t) order p c j = derivCoef t order p c j / h ^ p :=
  derivCoef_knot_scale' h hh t order p c j

/-- `divided_diffs(order, p, j, h·knots, out)`: every one of the `p+1` weights is the weight for `knots` divided by `h^p`:
each of the `p` levels of the recursion divides by `delta = (t_{j+order+1} − t_{j+porder})/(order − (porder−1))`, which is
`h` times larger; nothing else in `divided_diffs` depends on the knots. -/
theorem divided_diffs_knot_scale (h : α) (hh : h ≠ 0) (t : Int → α) (order p j i : Nat) :
    (dividedDiffs (scaleKnots h t) order p j).getD i 0 = (dividedDiffs t order p j).getD i 0 / h ^ p :=
  dividedDiffs_knot_scale' h hh t order p j i

/-- the rows of the `p`-th divided-difference matrix of `calc_penalty` scale by `h^-p`: every entry of `finitediff`
(`mono = 0`) and of `finitediff · tril` (`mono = 1`, the matrix of the monotonic dimension). -/
theorem finiteDiff_knot_scale (h : α) (hh : h ≠ 0) (t : Int → α) (order p n r c : Nat) :
    (finiteDiff (scaleKnots h t) order p n).get r c = (finiteDiff t order p n).get r c / h ^ p
    ∧ (finiteDiffMono (scaleKnots h t) order p n).get r c = (finiteDiffMono t order p n).get r c / h ^ p :=
  ⟨finiteDiff_knot_scale' h hh t order p n r c, finiteDiffMono_knot_scale' h hh t order p n r c⟩

/-- non-vacuity / instance: uniform knots `2^20 · i`, third differences: `[-1, 3, -3, 1] / 2^60`; times `tril`: `[0, 1, -2, 1] / 2^60`. -/
example : dividedDiffs (scaleKnots (1048576 : Rat) (fun i => (i : Rat))) 3 3 0
      = [-1 / 1152921504606846976, 3 / 1152921504606846976, -3 / 1152921504606846976, 1 / 1152921504606846976]
    ∧ (List.range 4).map ((finiteDiffMono (scaleKnots (1048576 : Rat) (fun i => (i : Rat))) 3 3 6).get 0)
      = [0, 1 / 1152921504606846976, -2 / 1152921504606846976, 1 / 1152921504606846976] := by
  constructor <;> decide +kernel

/-- what `add_penalty_term` adds (`scale · DᵀD`, `DᵀD` = `dtd`) for a dimension on an axis rescaled by `h` with smoothing
`λ h^(2p)` is, entry by entry, what it adds at scale 1 with smoothing `λ`; in both branches of `calc_penalty`. -/
theorem penalty_chunk_knot_scale_code (h : α) (hh : h ≠ 0) (lam : α) (t : Int → α) (order p n i j : Nat) :
    lam * h ^ (2 * p) * (dtd (finiteDiff (scaleKnots h t) order p n)).get i j = lam * (dtd (finiteDiff t order p n)).get i j
    ∧ lam * h ^ (2 * p) * (dtd (finiteDiffMono (scaleKnots h t) order p n)).get i j
        = lam * (dtd (finiteDiffMono t order p n)).get i j :=
  penalty_chunk_knot_scale h hh lam t order p n i j

/-- non-vacuity / instance: `h = 2^20 ≠ 0`, non-uniform knots `t_i = i²`, `λ = 5`, penalty order 2, entry `(2, 3)` of the monotonic branch;
and the second derivative coefficient `0` of `c_i = i³` on the rescaled knots is the one at scale 1 divided by `2^40`. -/
example : (1048576 : Rat) ≠ 0
    ∧ (5 : Rat) * 1048576 ^ (2 * 2) * (dtd (finiteDiffMono (scaleKnots (1048576 : Rat) (fun i => ((i * i : Int) : Rat))) 3 2 6)).get 2 3
        = 5 * (dtd (finiteDiffMono (fun i => ((i * i : Int) : Rat)) 3 2 6)).get 2 3
    ∧ (dtd (finiteDiffMono (fun i => ((i * i : Int) : Rat)) 3 2 6)).get 2 3 ≠ 0
    ∧ derivCoef (scaleKnots (1048576 : Rat) (fun i => ((i * i : Int) : Rat))) 3 2 (fun i => ((i * i * i : Nat) : Rat)) 0
        = derivCoef (fun i => ((i * i : Int) : Rat)) 3 2 (fun i => ((i * i * i : Nat) : Rat)) 0 / 1048576 ^ 2 := by
  refine ⟨by norm_num, by decide +kernel, by decide +kernel, by decide +kernel⟩

/-- the Cox–de Boor basis values (right-continuous order-0 indicator of the specification, `a/0 = 0` at repeated knots)
are invariant under simultaneous scaling of the knots and the abscissa by `h > 0` — every order, every index. -/
theorem Bind_knot_scale (h : α) (hpos : 0 < h) (t : Int → α) (x : α) (n : Nat) (i : Int) :
    Bind (indR (scaleKnots h t) (h * x)) (scaleKnots h t) (h * x) n i = Bind (indR t x) t x n i :=
  Bind_knot_scale' h hpos t x n i

example : Bind (indR (scaleKnots (1048576 : Rat) (fun i => (i : Rat))) (1048576 * (5/2)))
      (scaleKnots (1048576 : Rat) (fun i => (i : Rat))) (1048576 * (5/2)) 2 1 = 3/4 := by decide +kernel

/-- **The objective on rescaled axes is the same objective.**  `P.knotScale hs`: knots and abscissae of dimension `d`
multiplied by `h_d > 0`, smoothing `λ_d` replaced by `λ_d h_d^(2 p_d)`; data, weights, orders and penalty orders unchanged.
For every coefficient vector the penalised weighted least-squares objective of the specification has the same value. -/
theorem objective_knot_scale (hs : List α) (hpos : ∀ h ∈ hs, 0 < h) (P : FitProblem α) (c : Nat → α) :
    objective (P.knotScale hs) c = objective P c :=
  objective_knotScale hs hpos P c

/-- **Knot-scale equivariance of the unconstrained and of the monotonic fit** (exact arithmetic).  On the rescaled axes
1. the objective is the same function of the coefficients;
2. `c` minimises it over all coefficient vectors iff `c` minimises the original objective (the unconstrained fits coincide);
3. a cumulative sum of non-negative increments `t` (the tables the monotonic fit ranges over, any shape `s1 × n × s2`)
   minimises it over all such tables iff it does so for the original objective (the monotonic fits coincide). -/
theorem C10_knot_scale_equivariant (hs : List α) (hpos : ∀ h ∈ hs, 0 < h) (P : FitProblem α) (s1 n s2 : Nat) :
    (∀ c, objective (P.knotScale hs) c = objective P c) ∧
    (∀ c, (∀ c', objective (P.knotScale hs) c ≤ objective (P.knotScale hs) c') ↔ (∀ c', objective P c ≤ objective P c')) ∧
    (∀ t : Nat → α,
      (∀ t' : Nat → α, (∀ p, p < s1 * n * s2 → 0 ≤ t' p) →
        objective (P.knotScale hs) (cumsumLoop (· + ·) s1 n s2 t) ≤ objective (P.knotScale hs) (cumsumLoop (· + ·) s1 n s2 t'))
      ↔ (∀ t' : Nat → α, (∀ p, p < s1 * n * s2 → 0 ≤ t' p) →
        objective P (cumsumLoop (· + ·) s1 n s2 t) ≤ objective P (cumsumLoop (· + ·) s1 n s2 t'))) := by
  have e := objective_knotScale hs hpos P
  refine ⟨e, fun c => ?_, fun t => ?_⟩
  · simp only [e]
  · simp only [e]

end KnotScale

/-- non-vacuity: the example problem of C09 (`exP`: knots `0,1,2,3`, order 1, penalty order 1, `λ = 1`) on an axis
rescaled by `2^20`: the knots become `2^20 i`, the smoothing `2^40`, the abscissae `2^20 x`; the scale is positive and
the objective at `c = (0, 1)` is the same number. -/
example : (∀ h ∈ [(1048576 : Rat)], 0 < h) ∧ (exP.knotScale [1048576]).smooth = [1099511627776]
    ∧ ((exP.knotScale [1048576]).dims.map fun d => d.knots 3) = [3145728]
    ∧ objective (exP.knotScale [1048576]) (fun p => (p : Rat)) = objective exP (fun p => (p : Rat)) := by
  refine ⟨by simp, by decide +kernel, by decide +kernel, by decide +kernel⟩

/-- **The inactive clause on rescaled axes.**  If at scale 1 the unconstrained minimiser is the cumulative sum of
non-negative increments `t` (normal matrix positive definite), then on the rescaled axes the same table is the unconstrained
minimiser, it minimises the objective over all tables with non-negative increments, and it is the only such minimiser:
the monotonic fit at scale `h` returns the coefficients of the unconstrained fit at scale `h` — and both are the fits at
scale 1.  (What the check judges in one dimension, where the code's objective is this one: `code_objective_1d`.) -/
theorem C10_inactive_on_rescaled_axes (P : FitProblem Rat) (hP : NormalEq.PosDef P.ncoef (Mf P)) (hs : List Rat)
    (hpos : ∀ h ∈ hs, 0 < h) (s1 n s2 : Nat) (hN : s1 * n * s2 = P.ncoef) (t : Nat → Rat)
    (hmin : ∀ c' : Nat → Rat, objective P (cumsumLoop (· + ·) s1 n s2 t) ≤ objective P c') :
    (∀ c' : Nat → Rat, objective (P.knotScale hs) (cumsumLoop (· + ·) s1 n s2 t) ≤ objective (P.knotScale hs) c') ∧
    (∀ t' : Nat → Rat, (∀ p, p < s1 * n * s2 → 0 ≤ t' p) →
      objective (P.knotScale hs) (cumsumLoop (· + ·) s1 n s2 t)
        ≤ objective (P.knotScale hs) (cumsumLoop (· + ·) s1 n s2 t')) ∧
    (∀ t' : Nat → Rat, objective (P.knotScale hs) (cumsumLoop (· + ·) s1 n s2 t')
        ≤ objective (P.knotScale hs) (cumsumLoop (· + ·) s1 n s2 t) →
      ∀ p, p < s1 * n * s2 → t' p = t p) := by
  have e := objective_knotScale hs hpos P
  obtain ⟨h1, h2⟩ := inactive_constraint_objective P hP s1 n s2 hN t hmin
  simp only [e]
  exact ⟨hmin, h1, h2⟩

/-- non-vacuity: `exP`, shape 1 × 2 × 1, increments `t = (1, 0)` (the example of `inactive_constraint_objective`), axis scale `2^20` -/
example : NormalEq.PosDef exP.ncoef (Mf exP) ∧ (∀ h ∈ [(1048576 : Rat)], 0 < h) ∧ 1 * 2 * 1 = exP.ncoef :=
  ⟨exP_posDef, by simp, rfl⟩

/-- **An absolute drop tolerance is not scale-invariant** (the modelled reason why the seeded change C10-6 — `cholmod_l_drop(DBL_EPSILON,
finitediff, c)` after `finitediff = finitediff · tril` in `calc_penalty` — breaks the equivariance).  Uniform knots `t_i = i`,
spline order 3, penalty order 3, 6 coefficients, tolerance `2^-52`, axis scale `h = 2^20`:
1. at scale 1 the drop removes nothing but exact zeros: the matrix `D · tril` (rows `[0, 1, −2, 1, 0, 0]`, …) is unchanged;
2. at scale `h` its genuine entries are those divided by `h³ = 2^60` (`finiteDiff_knot_scale`), e.g. `2^-60 ≠ 0` …
3. … all of them below the tolerance: the drop removes **every** entry,
4. so `DᵀD = 0`: the smoothing penalty of the monotonic dimension vanishes whatever the smoothing `λ h⁶` is, whereas
5. the equivariant value of the entry `(1,1)` of `λ h⁶ · DᵀD` is `λ · 1 ≠ 0` (here `λ = 1`). -/
theorem absolute_drop_not_scale_invariant :
    (∀ r < 3, ∀ c < 6, ((finiteDiffMono (fun i => (i : Rat)) 3 3 6).dropTol (1 / 4503599627370496)).get r c
        = (finiteDiffMono (fun i => (i : Rat)) 3 3 6).get r c) ∧
    (finiteDiffMono (scaleKnots (1048576 : Rat) (fun i => (i : Rat))) 3 3 6).get 0 1 = 1 / 1152921504606846976 ∧
    (∀ r < 3, ∀ c < 6,
      ((finiteDiffMono (scaleKnots (1048576 : Rat) (fun i => (i : Rat))) 3 3 6).dropTol (1 / 4503599627370496)).get r c = 0) ∧
    (∀ i < 6, ∀ j < 6,
      (dtd ((finiteDiffMono (scaleKnots (1048576 : Rat) (fun i => (i : Rat))) 3 3 6).dropTol (1 / 4503599627370496))).get i j = 0) ∧
    (1 : Rat) * 1048576 ^ (2 * 3) * (dtd (finiteDiffMono (scaleKnots (1048576 : Rat) (fun i => (i : Rat))) 3 3 6)).get 1 1 = 1 := by
  refine ⟨by decide +kernel, by decide +kernel, by decide +kernel, by decide +kernel, by decide +kernel⟩

-- (`absolute_drop_not_scale_invariant` has no hypotheses: nothing to instantiate.)

end PsV
