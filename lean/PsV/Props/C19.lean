import PsV.Proofs.Alloc
/-!
# C19 — estimateMemory bounds the memory requested while loading and convolving

Property theorems only.  `readEvents`, `convolveEvents`, `estimate` are the definitions the driver executes;
their call sites, size expressions and the terms of `estimate` are regenerated from the source on every run
(`PsV.Generated.C19`), so these theorems are re-checked against what the code says now.
-/
namespace PsV
open PsV.C19 PsV.Generated.C19

/-- The files and declared convolutions the property quantifies over. -/
structure C19.Valid (p : Params) : Prop where
  /-- a kernel has at least one knot (`1` = no convolution) -/
  n_pos : 1 ≤ p.n
  /-- the convolved dimension exists (so the table has at least one dimension) -/
  cdim_lt : p.cdim < p.dims.length
  /-- key and value of an auxiliary entry come from one 80-column card: `strlen(key)+strlen(value) ≤ 80`
      (checked on every generated file at run time); with the two terminators that is 82 -/
  card : ∀ a ∈ p.aux, a.keylen + a.vallen ≤ 82
  /-- in the convolved dimension the coefficient image has the size the knot vector implies
      (`naxes = nknots − order − 1`; files written by `write_fits` satisfy it in every dimension) -/
  consistent : ∀ d, p.dims[p.cdim]? = some d → d.naxes + d.order + 1 = d.nknots

/-- **C19.**  For every table file and every convolution declared to `estimateMemory` (kernel of `n ≥ 1` knots in an
    existing dimension), the table object plus the bytes simultaneously requested from the table's allocator at any
    moment while constructing the table from the file and then convolving it never exceed the value
    `estimateMemory` returns; and no `deallocate` releases more than is live. -/
theorem C19_peak_le_estimate (p : Params) (h : C19.Valid p) :
    balanced 0 (readEvents p ++ convolveEvents p) = true ∧
    p.objsize + peak (readEvents p ++ convolveEvents p) ≤ estimate p := by
  obtain ⟨hb, hp, _⟩ := peak_read_convolve p
  refine ⟨hb, ?_⟩
  rw [hp, read_bytes, convFrees_bytes, convAllocs_bytes]
  have hest := estimateWith_ge (nauxCounted p.aux.length p.nauxKnotsHdu) p
  rw [estDims_eq_convDims p h.n_pos] at hest
  have haux := auxBytes_le p.aux h.card
  have hk : knotBytes p.dims ≤ knotBytes (convDims p) :=
    knotBytes_adjustAt_ge _ (convDim_knots_ge p.n h.n_pos) _ _
  have hc : prodNaxes p.dims ≤ prodNaxes (convDims p) :=
    prodNaxes_adjustAt_ge _ _ _ (fun d hd => convDim_naxes_ge p.n h.n_pos d (h.consistent d hd))
  simp only [estimate, nauxCounted] at *
  omega

/-- **C19, loading only.**  The same value also bounds the load alone (whatever convolution was declared), in
    particular `estimateMemory(file)` with its defaults `n = 1`, dimension `0`. -/
theorem C19_peak_read_le_estimate (p : Params) (h : C19.Valid p) :
    p.objsize + peak (readEvents p) ≤ estimate p := by
  have h1 := (C19_peak_le_estimate p h).2
  have h2 : peak (readEvents p) ≤ peak (readEvents p ++ convolveEvents p) := by
    unfold peak; rw [peakFrom_append]; exact Nat.le_max_left _ _
  omega

/-- After load-then-convolve exactly the footprint of the convolved table is live: what `convolve` releases is
    what the reader requested for coefficients and knots, no more and no less. -/
theorem C19_live_after_convolve (p : Params) :
    liveAfter 0 (readEvents p ++ convolveEvents p) =
      8 * p.aux.length + auxBytes p.aux + 68 * p.dims.length + 4 * prodNaxes (convDims p) + knotBytes (convDims p) := by
  rw [(peak_read_convolve p).2.2, read_bytes, convFrees_bytes, convAllocs_bytes]; omega

/-- a 3-dimensional table (orders 2,0,3), 2 auxiliary entries, a 4-knot kernel in dimension 2 -/
def C19.exampleParams : Params :=
  { objsize := 96, dims := [⟨2, 9, 6⟩, ⟨0, 4, 3⟩, ⟨3, 12, 8⟩], aux := [⟨5, 11⟩, ⟨30, 52⟩], nauxKnotsHdu := 4, n := 4, cdim := 2 }

/-- the hypotheses are satisfiable by a non-trivial value, and the bound is not vacuous on it -/
example : C19.Valid C19.exampleParams ∧ peak (readEvents C19.exampleParams ++ convolveEvents C19.exampleParams) = 3918 ∧
    estimate C19.exampleParams = 6144 :=
  ⟨⟨by decide, by decide, by decide, by intro d hd; simp [C19.exampleParams] at hd; subst hd; decide⟩, by decide, by decide⟩

set_option maxRecDepth 8192 in
/-- Why the auxiliary cards must be counted in the primary header: had `estimateMemory` used the number of
    non-reserved cards of the last `KNOTSn` extension (4 in files written by `write_fits`; this is what the code did
    before the fix, because the call came after the loop that moves to the knot extensions), a 1-dimensional table
    with 20 full-width auxiliary cards exceeds the estimate already while loading. -/
theorem C19_knots_hdu_count_underestimates :
    ∃ p : Params, C19.Valid p ∧ estimateWith p.nauxKnotsHdu p < p.objsize + peak (readEvents p) :=
  ⟨{ objsize := 96, dims := [⟨0, 2, 1⟩], aux := List.replicate 20 ⟨9, 71⟩, nauxKnotsHdu := 4, n := 1, cdim := 0 },
   ⟨by decide, by decide, by decide, by intro d hd; simp at hd; subst hd; decide⟩, by decide⟩

/-- Why `Valid.consistent` is needed: `estimateMemory` recomputes the coefficient axis of the convolved dimension
    from the knot count, the reader takes it from the image header and does not compare the two.  A file whose
    image is larger than `nknots − order − 1` along that axis is loaded but exceeds the estimate. -/
theorem C19_inconsistent_file_exceeds :
    ∃ p : Params, 1 ≤ p.n ∧ p.cdim < p.dims.length ∧ (∀ a ∈ p.aux, a.keylen + a.vallen ≤ 82) ∧
      estimate p < p.objsize + peak (readEvents p) :=
  ⟨{ objsize := 96, dims := [⟨2, 10, 1000⟩], aux := [], nauxKnotsHdu := 4, n := 1, cdim := 0 },
   by decide, by decide, by decide, by decide⟩

end PsV
