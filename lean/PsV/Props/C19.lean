import PsV.Proofs.Alloc
/-!
# C19 — estimateMemory bounds the memory requested while loading and convolving

Property theorems only.  `readEvents`, `convolveEvents`, `estimate`, `loadable` are the definitions the driver
executes; their call sites, size expressions, conditions and the terms of `estimate` are regenerated from the source
on every run (`PsV.Generated.C19`), so these theorems are re-checked against what the code says now.
-/
namespace PsV
open PsV.C19 PsV.Generated.C19

/-- The files and declared convolutions the property quantifies over. -/
structure C19.Valid (p : Params) : Prop where
  /-- a kernel has at least one knot (`1` = no convolution) -/
  n_pos : 1 ≤ p.n
  /-- the convolved dimension exists (so the table has at least one dimension) -/
  cdim_lt : p.cdim < p.dims.length
  /-- key and raw value of an auxiliary entry come from one 80-column card: `strlen(key)+strlen(value) ≤ 80`
      (checked on every generated file at run time); with the two terminators that is 82 -/
  card : ∀ a ∈ p.aux, a.keylen + a.vallen ≤ 82
  /-- the stored string is the raw card value with characters removed (enclosing quotes, one of every doubled
      quote), never longer (checked on every generated file at run time) -/
  stored_le : ∀ a ∈ p.aux, a.storedlen ≤ a.vallen
  /-- in the convolved dimension the coefficient image has the size the knot vector implies
      (`naxes = nknots − order − 1`).  `read_fits_core` now rejects every file for which this fails in any dimension
      (`C19_loadable_consistent`), so for a file that can be loaded at all this is not an assumption. -/
  consistent : ∀ d, p.dims[p.cdim]? = some d → d.naxes + d.order + 1 = d.nknots

/-- **C19.**  For every table file and every convolution declared to `estimateMemory` (kernel of `n ≥ 1` knots in an
    existing dimension), the table object plus the bytes simultaneously requested from the table's allocator at any
    moment while constructing the table from the file and then convolving it never exceed the value
    `estimateMemory` returns; and no `deallocate` releases more than is live.  This includes the moment at which, for a
    quoted auxiliary value, the block of the raw card length and its exact-size replacement are both live. -/
theorem C19_peak_le_estimate (p : Params) (h : C19.Valid p) :
    balanced 0 (readEvents p ++ convolveEvents p) = true ∧
    p.objsize + peak (readEvents p ++ convolveEvents p) ≤ estimate p := by
  obtain ⟨hb, hp, _⟩ := read_convolve_run p 82 (fun a ha => by have := h.card a ha; omega)
  refine ⟨hb, ?_⟩
  have hest := estimateWith_ge (nauxCounted p.aux.length p.nauxKnotsHdu) p
  rw [estDims_eq_convDims p h.n_pos] at hest
  have haux := auxBytes_le p.aux h.card h.stored_le
  have hk : knotBytes p.dims ≤ knotBytes (convDims p) :=
    knotBytes_adjustAt_ge _ (convDim_knots_ge p.n h.n_pos) _ _
  have hc : prodNaxes p.dims ≤ prodNaxes (convDims p) :=
    prodNaxes_adjustAt_ge _ _ _ (fun d hd => convDim_naxes_ge p.n h.n_pos d (h.consistent d hd))
  simp only [estimate, nauxCounted, readBytes, convolvedBytes] at *
  omega

/-- **C19, loading only.**  The same value also bounds the load alone (whatever convolution was declared), in
    particular `estimateMemory(file)` with its defaults `n = 1`, dimension `0`. -/
theorem C19_peak_read_le_estimate (p : Params) (h : C19.Valid p) :
    p.objsize + peak (readEvents p) ≤ estimate p := by
  have h1 := (C19_peak_le_estimate p h).2
  have h2 : peak (readEvents p) ≤ peak (readEvents p ++ convolveEvents p) := by
    unfold peak; rw [peakFrom_append]; exact Nat.le_max_left _ _
  omega

/-- After load-then-convolve exactly the footprint of the convolved table is live: what `convolve` releases is
    what the reader requested for coefficients and knots, and of the two blocks requested for a quoted auxiliary
    value only the exact-size one (`storedlen`) remains. -/
theorem C19_live_after_convolve (p : Params) :
    liveAfter 0 (readEvents p ++ convolveEvents p) =
      8 * p.aux.length + auxBytes p.aux + 68 * p.dims.length + 4 * prodNaxes (convDims p) + knotBytes (convDims p) :=
  live_after_read_convolve p

/-- **The reader guarantees `Valid.consistent`.**  A file whose shape passes the validation of `read_fits_core`
    (generated predicate `readerRejects`, evaluated per dimension by `loadable`) has, in every dimension and hence in
    the convolved one, a coefficient axis of exactly `nknots − order − 1` entries and at least `2·order + 2` knots. -/
theorem C19_loadable_consistent (p : Params) (hl : loadable p = true) :
    ∀ (c : Nat) (d : Dim), p.dims[c]? = some d → d.naxes + d.order + 1 = d.nknots ∧ 2 * d.order + 2 ≤ d.nknots := by
  intro c d hd
  have hmem : d ∈ p.dims := List.mem_of_getElem? hd
  have := List.all_eq_true.mp hl d hmem
  simp [readerRejects] at this
  omega

/-- **The argument checks of `convolve` are `Valid.n_pos` and `Valid.cdim_lt`.** -/
theorem C19_convolvable_iff (p : Params) : convolvable p = true ↔ (1 ≤ p.n ∧ p.cdim < p.dims.length) := by
  simp [convolvable, convolveRejects]
  omega

/-- **C19 for every file the reader accepts and every convolution `convolve` accepts**: no consistency assumption is
    left; what remains assumed is that an auxiliary entry comes from one 80-column card. -/
theorem C19_peak_le_estimate_loadable (p : Params) (hl : loadable p = true) (hc : convolvable p = true)
    (card : ∀ a ∈ p.aux, a.keylen + a.vallen ≤ 82) (stored_le : ∀ a ∈ p.aux, a.storedlen ≤ a.vallen) :
    balanced 0 (readEvents p ++ convolveEvents p) = true ∧
    p.objsize + peak (readEvents p ++ convolveEvents p) ≤ estimate p :=
  C19_peak_le_estimate p
    ⟨((C19_convolvable_iff p).mp hc).1, ((C19_convolvable_iff p).mp hc).2, card, stored_le,
     fun d hd => (C19_loadable_consistent p hl p.cdim d hd).1⟩

/-- a 3-dimensional table (orders 2,0,3), 3 auxiliary entries (a quoted string with a doubled quote, a number, a
    full-width quoted string), a 4-knot kernel in dimension 2 -/
def C19.exampleParams : Params :=
  { objsize := 96, dims := [⟨2, 9, 6⟩, ⟨0, 4, 3⟩, ⟨3, 12, 8⟩], aux := [⟨5, 12, 9⟩, ⟨7, 3, 3⟩, ⟨9, 71, 69⟩], nauxKnotsHdu := 4, n := 4, cdim := 2 }

/-- the hypotheses are satisfiable by a non-trivial value (also in the `loadable`/`convolvable` form), and the bound
    is not vacuous on it -/
example : C19.Valid C19.exampleParams ∧ loadable C19.exampleParams = true ∧ convolvable C19.exampleParams = true ∧
    peak (readEvents C19.exampleParams ++ convolveEvents C19.exampleParams) = 3946 ∧
    estimate C19.exampleParams = 6144 :=
  ⟨⟨by decide, by decide, by decide, by decide, by intro d hd; simp [C19.exampleParams] at hd; subst hd; decide⟩,
   by decide, by decide, by decide, by decide⟩

/-- the transient is real: while the second card of this file is read more bytes are live (8 + 16+9+71+69 = 173)
    than remain after loading its aux part (8 + 16+9+69 = 102) -/
example : peakFrom 0 (.alloc 8 :: auxSeg ⟨9, 71, 69⟩) = 173 ∧ liveAfter 0 (.alloc 8 :: auxSeg ⟨9, 71, 69⟩) = 102 := by decide

set_option maxRecDepth 8192 in
/-- Why the auxiliary cards must be counted in the primary header: had `estimateMemory` used the number of
    non-reserved cards of the last `KNOTSn` extension (4 in files written by `write_fits`; this is what the code did
    before the fix, because the call came after the loop that moves to the knot extensions), a 1-dimensional table
    with 20 full-width auxiliary cards exceeds the estimate already while loading. -/
theorem C19_knots_hdu_count_underestimates :
    ∃ p : Params, C19.Valid p ∧ loadable p = true ∧ estimateWith p.nauxKnotsHdu p < p.objsize + peak (readEvents p) :=
  ⟨{ objsize := 96, dims := [⟨0, 2, 1⟩], aux := List.replicate 20 ⟨9, 71, 69⟩, nauxKnotsHdu := 4, n := 1, cdim := 0 },
   ⟨by decide, by decide, by decide, by decide, by intro d hd; simp at hd; subst hd; decide⟩, by decide, by decide⟩

/-- Why `Valid.consistent` is needed for the inequality, and why it costs nothing any more: `estimateMemory`
    recomputes the coefficient axis of the convolved dimension from the knot count while the reader takes it from the
    image header.  For a file whose image is larger than `nknots − order − 1` along that axis the requests of the
    call sites would exceed the estimate — but the reader's validation (`readerRejects`, generated from the source)
    refuses exactly such a file, so it is never loaded.  (Before the reader compared the two numbers this was a
    defect: the file was loaded and exceeded the estimate.) -/
theorem C19_inconsistent_file_rejected :
    ∃ p : Params, 1 ≤ p.n ∧ p.cdim < p.dims.length ∧ (∀ a ∈ p.aux, a.keylen + a.vallen ≤ 82) ∧
      estimate p < p.objsize + peak (readEvents p) ∧ loadable p = false :=
  ⟨{ objsize := 96, dims := [⟨2, 10, 1000⟩], aux := [], nauxKnotsHdu := 4, n := 1, cdim := 0 },
   by decide, by decide, by decide, by decide, by decide⟩

end PsV
