import PsV.Proofs.AllocDeep
/-!
# C19 — estimateMemory bounds the memory requested while loading and convolving

Property theorems only.  `readEvents`, `convolveEvents`, `estimate`, `loadable` are the definitions the driver
executes; their call sites, size expressions, conditions and the terms of `estimate` are regenerated from the source
on every run (`PsV.Generated.C19`), so these theorems are re-checked against what the code says now.
-/
namespace PsV
open PsV.C19 PsV.Generated.C19

/-- The files and declared convolutions the property quantifies over. -/
structure C19.Valid (p : Params) : Prop where
  /-- a kernel has at least one knot (`1` = no convolution) -/
  n_pos : 1 ≤ p.n
  /-- the convolved dimension exists (so the table has at least one dimension) -/
  cdim_lt : p.cdim < p.dims.length
  /-- key and raw value of an auxiliary entry come from one 80-column card: `strlen(key)+strlen(value) ≤ 80`
      (checked on every generated file at run time); with the two terminators that is 82 -/
  card : ∀ a ∈ p.aux, a.keylen + a.vallen ≤ 82
  /-- the stored string is the raw card value with characters removed (enclosing quotes, one of every doubled
      quote), never longer (checked on every generated file at run time) -/
  stored_le : ∀ a ∈ p.aux, a.storedlen ≤ a.vallen
  /-- in the convolved dimension the coefficient image has the size the knot vector implies
      (`naxes = nknots − order − 1`).  `read_fits_core` now rejects every file for which this fails in any dimension
      (`C19_loadable_consistent`), so for a file that can be loaded at all this is not an assumption. -/
  consistent : ∀ d, p.dims[p.cdim]? = some d → d.naxes + d.order + 1 = d.nknots

/-- **C19.**  For every table file and every convolution declared to `estimateMemory` (kernel of `n ≥ 1` knots in an
    existing dimension), the table object plus the bytes simultaneously requested from the table's allocator at any
    moment while constructing the table from the file and then convolving it never exceed the value
    `estimateMemory` returns; and no `deallocate` releases more than is live.  This includes the moment at which, for a
    quoted auxiliary value, the block of the raw card length and its exact-size replacement are both live. -/
theorem C19_peak_le_estimate (p : Params) (h : C19.Valid p) :
    balanced 0 (readEvents p ++ convolveEvents p) = true ∧
    p.objsize + peak (readEvents p ++ convolveEvents p) ≤ estimate p := by
  obtain ⟨hb, hp, _⟩ := read_convolve_run p 82 (fun a ha => by have := h.card a ha; omega)
  refine ⟨hb, ?_⟩
  have hest := estimateWith_ge (nauxCounted p.aux.length p.nauxKnotsHdu) p
  rw [estDims_eq_convDims p h.n_pos] at hest
  have haux := auxBytes_le p.aux h.card h.stored_le
  have hk : knotBytes p.dims ≤ knotBytes (convDims p) :=
    knotBytes_adjustAt_ge _ (convDim_knots_ge p.n h.n_pos) _ _
  have hc : prodNaxes p.dims ≤ prodNaxes (convDims p) :=
    prodNaxes_adjustAt_ge _ _ _ (fun d hd => convDim_naxes_ge p.n h.n_pos d (h.consistent d hd))
  simp only [estimate, nauxCounted, readBytes, convolvedBytes] at *
  omega

/-- **C19, loading only.**  The same value also bounds the load alone (whatever convolution was declared), in
    particular `estimateMemory(file)` with its defaults `n = 1`, dimension `0`. -/
theorem C19_peak_read_le_estimate (p : Params) (h : C19.Valid p) :
    p.objsize + peak (readEvents p) ≤ estimate p := by
  have h1 := (C19_peak_le_estimate p h).2
  have h2 : peak (readEvents p) ≤ peak (readEvents p ++ convolveEvents p) := by
    unfold peak; rw [peakFrom_append]; exact Nat.le_max_left _ _
  omega

/-- After load-then-convolve exactly the footprint of the convolved table is live: what `convolve` releases is
    what the reader requested for coefficients and knots, and of the two blocks requested for a quoted auxiliary
    value only the exact-size one (`storedlen`) remains. -/
theorem C19_live_after_convolve (p : Params) :
    liveAfter 0 (readEvents p ++ convolveEvents p) =
      8 * p.aux.length + auxBytes p.aux + 68 * p.dims.length + 4 * prodNaxes (convDims p) + knotBytes (convDims p) :=
  live_after_read_convolve p

/-- **The reader guarantees `Valid.consistent`.**  A file whose shape passes the validation of `read_fits_core`
    (generated predicate `readerRejects`, evaluated per dimension by `loadable`) has, in every dimension and hence in
    the convolved one, a coefficient axis of exactly `nknots − order − 1` entries and at least `2·order + 2` knots. -/
theorem C19_loadable_consistent (p : Params) (hl : loadable p = true) :
    ∀ (c : Nat) (d : Dim), p.dims[c]? = some d → d.naxes + d.order + 1 = d.nknots ∧ 2 * d.order + 2 ≤ d.nknots := by
  intro c d hd
  have hmem : d ∈ p.dims := List.mem_of_getElem? hd
  have := List.all_eq_true.mp hl d hmem
  simp [readerRejects] at this
  omega

/-- **The argument checks of `convolve` are `Valid.n_pos` and `Valid.cdim_lt`.** -/
theorem C19_convolvable_iff (p : Params) : convolvable p = true ↔ (1 ≤ p.n ∧ p.cdim < p.dims.length) := by
  simp [convolvable, convolveRejects]
  omega

/-- **C19 for every file the reader accepts and every convolution `convolve` accepts**: no consistency assumption is
    left; what remains assumed is that an auxiliary entry comes from one 80-column card. -/
theorem C19_peak_le_estimate_loadable (p : Params) (hl : loadable p = true) (hc : convolvable p = true)
    (card : ∀ a ∈ p.aux, a.keylen + a.vallen ≤ 82) (stored_le : ∀ a ∈ p.aux, a.storedlen ≤ a.vallen) :
    balanced 0 (readEvents p ++ convolveEvents p) = true ∧
    p.objsize + peak (readEvents p ++ convolveEvents p) ≤ estimate p :=
  C19_peak_le_estimate p
    ⟨((C19_convolvable_iff p).mp hc).1, ((C19_convolvable_iff p).mp hc).2, card, stored_le,
     fun d hd => (C19_loadable_consistent p hl p.cdim d hd).1⟩

/-- a 3-dimensional table (orders 2,0,3), 3 auxiliary entries (a quoted string with a doubled quote, a number, a
    full-width quoted string), a 4-knot kernel in dimension 2 -/
def C19.exampleParams : Params :=
  { objsize := 96, dims := [⟨2, 9, 6⟩, ⟨0, 4, 3⟩, ⟨3, 12, 8⟩], aux := [⟨5, 12, 9⟩, ⟨7, 3, 3⟩, ⟨9, 71, 69⟩], nauxKnotsHdu := 4, n := 4, cdim := 2 }

/-- the hypotheses are satisfiable by a non-trivial value (also in the `loadable`/`convolvable` form), and the bound
    is not vacuous on it -/
example : C19.Valid C19.exampleParams ∧ loadable C19.exampleParams = true ∧ convolvable C19.exampleParams = true ∧
    peak (readEvents C19.exampleParams ++ convolveEvents C19.exampleParams) = 3946 ∧
    estimate C19.exampleParams = 6144 :=
  ⟨⟨by decide, by decide, by decide, by decide, by intro d hd; simp [C19.exampleParams] at hd; subst hd; decide⟩,
   by decide, by decide, by decide, by decide⟩

/-- the transient is real: while the second card of this file is read more bytes are live (8 + 16+9+71+69 = 173)
    than remain after loading its aux part (8 + 16+9+69 = 102) -/
example : peakFrom 0 (.alloc 8 :: auxSeg ⟨9, 71, 69⟩) = 173 ∧ liveAfter 0 (.alloc 8 :: auxSeg ⟨9, 71, 69⟩) = 102 := by decide

set_option maxRecDepth 8192 in
/-- Why the auxiliary cards must be counted in the primary header: had `estimateMemory` used the number of
    non-reserved cards of the last `KNOTSn` extension (4 in files written by `write_fits`; this is what the code did
    before the fix, because the call came after the loop that moves to the knot extensions), a 1-dimensional table
    with 20 full-width auxiliary cards exceeds the estimate already while loading. -/
theorem C19_knots_hdu_count_underestimates :
    ∃ p : Params, C19.Valid p ∧ loadable p = true ∧ estimateWith p.nauxKnotsHdu p < p.objsize + peak (readEvents p) :=
  ⟨{ objsize := 96, dims := [⟨0, 2, 1⟩], aux := List.replicate 20 ⟨9, 71, 69⟩, nauxKnotsHdu := 4, n := 1, cdim := 0 },
   ⟨by decide, by decide, by decide, by decide, by intro d hd; simp at hd; subst hd; decide⟩, by decide, by decide⟩

/-- Why `Valid.consistent` is needed for the inequality, and why it costs nothing any more: `estimateMemory`
    recomputes the coefficient axis of the convolved dimension from the knot count while the reader takes it from the
    image header.  For a file whose image is larger than `nknots − order − 1` along that axis the requests of the
    call sites would exceed the estimate — but the reader's validation (`readerRejects`, generated from the source)
    refuses exactly such a file, so it is never loaded.  (Before the reader compared the two numbers this was a
    defect: the file was loaded and exceeded the estimate.) -/
theorem C19_inconsistent_file_rejected :
    ∃ p : Params, 1 ≤ p.n ∧ p.cdim < p.dims.length ∧ (∀ a ∈ p.aux, a.keylen + a.vallen ≤ 82) ∧
      estimate p < p.objsize + peak (readEvents p) ∧ loadable p = false :=
  ⟨{ objsize := 96, dims := [⟨2, 10, 1000⟩], aux := [], nauxKnotsHdu := 4, n := 1, cdim := 0 },
   by decide, by decide, by decide, by decide, by decide⟩

/-! ## Deepening: exact peak, order of the cards, the destructor, arenas with padding, monotonicity, tightness -/

/-- `Valid` from the two generated predicates and the two card facts (as in `C19_peak_le_estimate_loadable`). -/
theorem C19_valid_of_loadable (p : Params) (hl : loadable p = true) (hc : convolvable p = true)
    (card : ∀ a ∈ p.aux, a.keylen + a.vallen ≤ 82) (stored_le : ∀ a ∈ p.aux, a.storedlen ≤ a.vallen) : C19.Valid p :=
  ⟨((C19_convolvable_iff p).mp hc).1, ((C19_convolvable_iff p).mp hc).2, card, stored_le,
   fun d hd => (C19_loadable_consistent p hl p.cdim d hd).1⟩

example : loadable C19.exampleParams = true ∧ convolvable C19.exampleParams = true ∧
    (∀ a ∈ C19.exampleParams.aux, a.keylen + a.vallen ≤ 82) ∧ (∀ a ∈ C19.exampleParams.aux, a.storedlen ≤ a.vallen) :=
  ⟨by decide, by decide, by decide, by decide⟩

/-- **The peak, exactly.**  For every file the reader accepts and every convolution `convolve` accepts, the highest
    level of the whole event sequence is reached at its very end: it is the footprint of the convolved table.  (The
    transient second block of a quoted card value never shows in the peak: at least 84 bytes are requested after the
    cards, more than a raw card value is long; and `convolve` frees before it allocates.) -/
theorem C19_peak_exact (p : Params) (hl : loadable p = true) (hc : convolvable p = true)
    (card : ∀ a ∈ p.aux, a.keylen + a.vallen ≤ 82) :
    peak (readEvents p ++ convolveEvents p) = liveAfter 0 (readEvents p ++ convolveEvents p) ∧
    peak (readEvents p ++ convolveEvents p) =
      8 * p.aux.length + auxBytes p.aux + 68 * p.dims.length + 4 * prodNaxes (convDims p) + knotBytes (convDims p) := by
  obtain ⟨hn, hcd⟩ := (C19_convolvable_iff p).mp hc
  have ht := tail_ge p hl (by omega)
  have hC : ∀ a ∈ p.aux, a.vallen ≤ 68 * p.dims.length + 4 * prodNaxes p.dims + knotBytes p.dims :=
    fun a ha => by have := card a ha; omega
  have hle := readBytes_le_convolvedBytes p hn (fun d hd => (C19_loadable_consistent p hl p.cdim d hd).1)
  have e := read_convolve_peak_exact p hC
  rw [Nat.max_eq_right hle] at e
  rw [C19_live_after_convolve]
  exact ⟨e, e⟩

/-- **Loading alone, exactly**: the peak of the load is the footprint of the loaded table. -/
theorem C19_peak_read_exact (p : Params) (hl : loadable p = true) (hnd : 0 < p.dims.length)
    (card : ∀ a ∈ p.aux, a.keylen + a.vallen ≤ 82) :
    peak (readEvents p) =
      8 * p.aux.length + auxBytes p.aux + 68 * p.dims.length + 4 * prodNaxes p.dims + knotBytes p.dims := by
  have ht := tail_ge p hl hnd
  exact read_peak_exact p (fun a ha => by have := card a ha; omega)

example : peak (readEvents C19.exampleParams ++ convolveEvents C19.exampleParams) = 3946 ∧
    liveAfter 0 (readEvents C19.exampleParams ++ convolveEvents C19.exampleParams) = 3946 ∧
    peak (readEvents C19.exampleParams) = 1234 ∧ 0 < C19.exampleParams.dims.length := by decide

/-- **The order of the auxiliary cards does not matter**: the same file with its cards in any other order has the same
    peak and the same estimate (the level *during* the cards does depend on their order, the peak does not). -/
theorem C19_peak_aux_order (p : Params) (aux' : List AuxEntry) (hperm : aux'.Perm p.aux)
    (hl : loadable p = true) (hc : convolvable p = true) (card : ∀ a ∈ p.aux, a.keylen + a.vallen ≤ 82) :
    peak (readEvents { p with aux := aux' } ++ convolveEvents { p with aux := aux' }) =
      peak (readEvents p ++ convolveEvents p) ∧
    estimate { p with aux := aux' } = estimate p := by
  have h1 := (C19_peak_exact p hl hc card).2
  have h2 := (C19_peak_exact { p with aux := aux' } hl hc (fun a ha => card a (hperm.mem_iff.mp ha))).2
  have hlen : aux'.length = p.aux.length := hperm.length_eq
  have hb : auxBytes aux' = auxBytes p.aux := auxBytes_perm _ _ hperm
  refine ⟨?_, ?_⟩
  · rw [h1, h2]; simp only [convDims, hlen, hb]
  · simp only [estimate, estimateWith, rawSizeWith, estDims, nauxCounted, hlen]

example : [⟨9, 71, 69⟩, ⟨5, 12, 9⟩, ⟨7, 3, 3⟩].Perm C19.exampleParams.aux ∧
    peakFrom 0 (.alloc 24 :: ([⟨9, 71, 69⟩, ⟨5, 12, 9⟩, ⟨7, 3, 3⟩].flatMap auxSeg)) = 189 ∧
    peakFrom 0 (.alloc 24 :: (C19.exampleParams.aux.flatMap auxSeg)) = 245 := by
  refine ⟨?_, by decide, by decide⟩
  exact (List.Perm.swap _ _ _).trans ((List.Perm.refl _).cons _ |>.trans (List.Perm.swap _ _ _ |>.cons _ |>.trans (List.Perm.refl _))) |>.trans (List.Perm.refl _)

/-- **Construct, convolve, destroy.**  With the call sites of `~splinetable` (generated: `destroyBlocks`) appended,
    nothing is ever released that is not live, every byte is given back, and the destructor does not raise the peak.
    No hypothesis: this holds for every file description and every declared convolution. -/
theorem C19_lifecycle (p : Params) :
    balanced 0 (lifeEvents p) = true ∧ liveAfter 0 (lifeEvents p) = 0 ∧
    peak (lifeEvents p) = peak (readEvents p ++ convolveEvents p) := by
  obtain ⟨b1, _, l1⟩ := read_convolve_run p ((p.aux.map (·.vallen)).sum)
    (fun _ ha => le_sum_of_mem _ _ (List.mem_map_of_mem ha))
  obtain ⟨d1, d2, d3⟩ := cost_destroy_run (fun n => n) p (convDims p)
  rw [costEvents_id, footprintC_id_conv] at d1 d2 d3
  have hp := liveAfter_le_peakFrom 0 (readEvents p ++ convolveEvents p)
  unfold lifeEvents peak
  refine ⟨?_, ?_, ?_⟩
  · rw [balanced_append, b1, l1, d3]; rfl
  · rw [liveAfter_append, l1, d2]
  · rw [peakFrom_append, l1, d1]; rw [l1] at hp; omega

/-- the same for a table that is loaded and destroyed without a convolution -/
theorem C19_lifecycle_load_only (p : Params) :
    balanced 0 (readEvents p ++ destroyEvents p p.dims) = true ∧
    liveAfter 0 (readEvents p ++ destroyEvents p p.dims) = 0 ∧
    peak (readEvents p ++ destroyEvents p p.dims) = peak (readEvents p) := by
  obtain ⟨l1, _, b1⟩ := read_run p ((p.aux.map (·.vallen)).sum)
    (fun _ ha => le_sum_of_mem _ _ (List.mem_map_of_mem ha))
  obtain ⟨d1, d2, d3⟩ := cost_destroy_run (fun n => n) p p.dims
  rw [costEvents_id, footprintC_id_read] at d1 d2 d3
  have hp := liveAfter_le_peakFrom 0 (readEvents p)
  unfold peak
  refine ⟨?_, ?_, ?_⟩
  · rw [balanced_append, b1, l1, d3]; rfl
  · rw [liveAfter_append, l1, d2]
  · rw [peakFrom_append, l1, d1]; rw [l1] at hp; omega

/-- the same in any arena (`c n` bytes used for a request of `n`, whatever `c` is): what is released was requested with
    the same size, so the arena's ledger is balanced too and returns to zero -/
theorem C19_lifecycle_cost (c : Nat → Nat) (p : Params) :
    balanced 0 (costEvents c (lifeEvents p)) = true ∧ liveAfter 0 (costEvents c (lifeEvents p)) = 0 := by
  obtain ⟨b1, _, l1⟩ := cost_read_convolve_run c p ((p.aux.map fun a => c a.vallen).sum)
    (fun a ha => le_sum_of_mem _ _ (List.mem_map_of_mem (f := fun a => c a.vallen) ha))
  obtain ⟨_, d2, d3⟩ := cost_destroy_run c p (convDims p)
  unfold lifeEvents
  rw [costEvents_append]
  refine ⟨?_, ?_⟩
  · rw [balanced_append, b1, l1, d3]; rfl
  · rw [liveAfter_append, l1, d2]

example : liveAfter 0 (arenaEvents 16 16 (lifeEvents C19.exampleParams)) = 0 :=
  (C19_lifecycle_cost (fun n => alignUp 16 n + 16) C19.exampleParams).2

example : (destroyEvents C19.exampleParams (convDims C19.exampleParams)).length = 22 ∧
    freeBytes (destroyEvents C19.exampleParams (convDims C19.exampleParams)) = 3946 := by decide

/-- **Arenas that use more than was requested (general form).**  Let an arena use `c n` bytes for a request of `n`
    bytes, with `c 16 ≤ 16 + e16`, `c n ≤ n + e1`, `c (4k) ≤ 4k + e4`, `c (8k) ≤ 8k + e8` (`PadBound`).  If
    `e16 + 2·e1 ≤ 40` (what `estimateMemory` leaves over per card: 146 − 8 − 98) and `(8 + ndim)·e8 + 2·e4 ≤ 1025`
    (its final rounding), then for every file the reader accepts and every convolution `convolve` accepts the arena
    never holds more than `estimateMemory` returns, and releases only what it holds. -/
theorem C19_peak_cost_le_estimate (c : Nat → Nat) (e16 e1 e4 e8 : Nat) (hb : PadBound c e16 e1 e4 e8) (p : Params)
    (hl : loadable p = true) (hc : convolvable p = true)
    (card : ∀ a ∈ p.aux, a.keylen + a.vallen ≤ 82) (stored_le : ∀ a ∈ p.aux, a.storedlen ≤ a.vallen)
    (h1 : e16 + 2 * e1 ≤ 40) (h3 : 8 * e8 + e8 * p.dims.length + 2 * e4 ≤ 1025) :
    balanced 0 (costEvents c (readEvents p ++ convolveEvents p)) = true ∧
    p.objsize + peak (costEvents c (readEvents p ++ convolveEvents p)) ≤ estimate p :=
  cost_peak_le_estimate hb p ((C19_convolvable_iff p).mp hc).1 card stored_le
    (fun d hd => (C19_loadable_consistent p hl p.cdim d hd).1) h1 h3

example : PadBound (alignUp 16) 0 15 12 8 ∧ 0 + 2 * 15 ≤ 40 ∧ 8 * 8 + 8 * C19.exampleParams.dims.length + 2 * 12 ≤ 1025 :=
  ⟨padBound_align16, by decide, by decide⟩

/-- **Aligned blocks.**  When every block is rounded up to a multiple of `A ∈ {1, 2, 4, 8, 16}` the bound still holds:
    for `A ≤ 8` for every table, for `A = 16` for tables of up to 117 dimensions (every per-dimension array may then
    lose 8 bytes, which the 1025 bytes of rounding must cover). -/
theorem C19_peak_aligned_le_estimate (p : Params) (hl : loadable p = true) (hc : convolvable p = true)
    (card : ∀ a ∈ p.aux, a.keylen + a.vallen ≤ 82) (stored_le : ∀ a ∈ p.aux, a.storedlen ≤ a.vallen)
    (A : Nat) (hA : A ∣ 16) (hnd : A = 16 → p.dims.length ≤ 117) :
    balanced 0 (padEvents A (readEvents p ++ convolveEvents p)) = true ∧
    p.objsize + peak (padEvents A (readEvents p ++ convolveEvents p)) ≤ estimate p := by
  rcases dvd16_cases A hA with rfl | rfl | rfl | rfl | rfl
  · exact C19_peak_cost_le_estimate _ 0 7 4 0 (padBound_align8 1 (by decide)) p hl hc card stored_le (by decide) (by omega)
  · exact C19_peak_cost_le_estimate _ 0 7 4 0 (padBound_align8 2 (by decide)) p hl hc card stored_le (by decide) (by omega)
  · exact C19_peak_cost_le_estimate _ 0 7 4 0 (padBound_align8 4 (by decide)) p hl hc card stored_le (by decide) (by omega)
  · exact C19_peak_cost_le_estimate _ 0 7 4 0 (padBound_align8 8 (by decide)) p hl hc card stored_le (by decide) (by omega)
  · have := hnd rfl
    exact C19_peak_cost_le_estimate _ 0 15 12 8 padBound_align16 p hl hc card stored_le (by decide) (by omega)

example : (16 ∣ 16) ∧ C19.exampleParams.dims.length ≤ 117 ∧
    peak (padEvents 16 (readEvents C19.exampleParams ++ convolveEvents C19.exampleParams)) = 4080 := by decide

/-- **Blocks with a header.**  An arena that puts a header of `H ≤ 8` bytes before every block and aligns blocks to
    `A ∈ {1, 2, 4, 8}` is covered as long as `H·(ndim + 10) ≤ 1017`. -/
theorem C19_peak_arena_le_estimate (p : Params) (hl : loadable p = true) (hc : convolvable p = true)
    (card : ∀ a ∈ p.aux, a.keylen + a.vallen ≤ 82) (stored_le : ∀ a ∈ p.aux, a.storedlen ≤ a.vallen)
    (A H : Nat) (hA : A ∣ 8) (hH : H ≤ 8) (hnd : 10 * H + H * p.dims.length ≤ 1017) :
    balanced 0 (arenaEvents A H (readEvents p ++ convolveEvents p)) = true ∧
    p.objsize + peak (arenaEvents A H (readEvents p ++ convolveEvents p)) ≤ estimate p :=
  C19_peak_cost_le_estimate _ H (7 + H) (4 + H) H (padBound_arena8 A H hA) p hl hc card stored_le (by omega) (by omega)

example : (8 ∣ 8) ∧ 10 * 8 + 8 * C19.exampleParams.dims.length ≤ 1017 ∧
    peak (arenaEvents 8 8 (readEvents C19.exampleParams ++ convolveEvents C19.exampleParams)) = 4152 := by decide

set_option maxRecDepth 16384 in
/-- **Where the arena bounds end.**  The hypotheses above are needed: with a 16-byte header per block and 16-byte
    alignment (a common general-purpose arena layout), or with cache-line (64-byte) alignment, a 1-dimensional table with 47
    full-width auxiliary cards needs more than `estimateMemory` returns, although the bytes *requested* stay below
    it.  `estimateMemory` bounds requested bytes; it leaves 40 bytes per card and 1–2 KB in total for the arena's own
    bookkeeping and nothing more. -/
theorem C19_arena_overhead_can_exceed :
    ∃ p : Params, C19.Valid p ∧ loadable p = true ∧
      p.objsize + peak (readEvents p ++ convolveEvents p) ≤ estimate p ∧
      estimate p < p.objsize + peak (arenaEvents 16 16 (readEvents p ++ convolveEvents p)) ∧
      estimate p < p.objsize + peak (padEvents 64 (readEvents p ++ convolveEvents p)) :=
  ⟨{ objsize := 96, dims := [⟨0, 2, 1⟩], aux := List.replicate 47 ⟨9, 71, 69⟩, nauxKnotsHdu := 4, n := 1, cdim := 0 },
   ⟨by decide, by decide, by decide, by decide, by intro d hd; simp at hd; subst hd; decide⟩,
   by decide, by decide, by decide, by decide⟩

/-- **`estimateMemory` is monotone** in the object size, the number of auxiliary cards, the number of kernel knots and
    the order / knot count / coefficient count of every dimension (`ParamsLe`; in the convolved dimension
    `nknots − order` must not drop). -/
theorem C19_estimate_mono (p q : Params) (h : ParamsLe p q) : estimate p ≤ estimate q := estimate_mono p q h

/-- For two files the reader accepts, growing pointwise is enough for `ParamsLe`. -/
theorem C19_paramsLe_of_loadable (p q : Params) (hp : loadable p = true) (hq : loadable q = true)
    (h1 : p.objsize ≤ q.objsize) (h2 : p.aux.length ≤ q.aux.length) (h3 : p.n ≤ q.n) (h4 : p.cdim = q.cdim)
    (h5 : DimsLe p.dims q.dims) : ParamsLe p q := paramsLe_of_loadable p q hp hq h1 h2 h3 h4 h5

/-- the example file, and the same file with a larger object, one more card, a longer kernel, and more knots and
    coefficients (orders 2,0,3 → 2,1,3) -/
example : ParamsLe C19.exampleParams
    { objsize := 104, dims := [⟨2, 10, 7⟩, ⟨1, 6, 4⟩, ⟨3, 14, 10⟩], aux := [⟨5, 12, 9⟩, ⟨7, 3, 3⟩, ⟨9, 71, 69⟩, ⟨3, 3, 3⟩],
      nauxKnotsHdu := 4, n := 5, cdim := 2 } :=
  paramsLe_of_loadable _ _ (by decide) (by decide) (by decide) (by decide) (by decide) rfl
    ⟨⟨by decide, by decide, by decide⟩, ⟨by decide, by decide, by decide⟩, ⟨by decide, by decide, by decide⟩, True.intro⟩

/-- **Not monotone in the order alone**: raising the order of the convolved dimension while keeping its knot vector
    removes coefficients (`naxes = nknots − order − 1`), and in more than one dimension that outweighs the longer knot
    padding: both files are accepted by the reader, the second differs only in the order (0 → 40) of dimension 0 and the
    coefficient count that goes with it, and its estimate is smaller. -/
theorem C19_estimate_not_monotone_in_order :
    ∃ p q : Params, loadable p = true ∧ loadable q = true ∧
      p.dims = [⟨0, 100, 99⟩, ⟨0, 1001, 1000⟩] ∧ q.dims = [⟨40, 100, 59⟩, ⟨0, 1001, 1000⟩] ∧
      p.objsize = q.objsize ∧ p.aux = q.aux ∧ p.n = q.n ∧ p.cdim = q.cdim ∧ estimate q < estimate p :=
  ⟨{ objsize := 96, dims := [⟨0, 100, 99⟩, ⟨0, 1001, 1000⟩], aux := [], nauxKnotsHdu := 4, n := 1, cdim := 0 },
   { objsize := 96, dims := [⟨40, 100, 59⟩, ⟨0, 1001, 1000⟩], aux := [], nauxKnotsHdu := 4, n := 1, cdim := 0 },
   by decide, by decide, rfl, rfl, rfl, rfl, rfl, rfl, by decide⟩

/-- **The bound is tight up to the rounding and the per-card allowance**: the estimate exceeds object + peak by at
    most 2048 bytes plus, per auxiliary card, the difference between the 146 bytes assumed and the `8 + 16 + keylen +
    storedlen` bytes the card occupies. -/
theorem C19_estimate_le_peak_plus (p : Params) (hn : 1 ≤ p.n) :
    estimate p + (8 * p.aux.length + auxBytes p.aux) ≤
      p.objsize + peak (readEvents p ++ convolveEvents p) + 2048 + 146 * p.aux.length :=
  estimate_le_peak_plus p hn

example : 1 ≤ C19.exampleParams.n ∧ estimate C19.exampleParams + (8 * 3 + auxBytes C19.exampleParams.aux) = 6318 ∧
    C19.exampleParams.objsize + peak (readEvents C19.exampleParams ++ convolveEvents C19.exampleParams) + 2048 + 146 * 3 = 6528 := by
  decide

/-- a 1-dimensional table of order 0 with `k + 2` knots, no auxiliary cards, no convolution -/
def C19.tightParams (k : Nat) : Params :=
  { objsize := 96, dims := [⟨0, k + 2, k + 1⟩], aux := [], nauxKnotsHdu := 4, n := 1, cdim := 0 }

/-- **Tightness witness (a family)**: for the tables `tightParams k` the peak is `12·k + 88` bytes and the estimate is
    at most 2048 bytes above object + peak, so `peak / estimate → 1`. -/
theorem C19_tight_family (k : Nat) :
    C19.Valid (C19.tightParams k) ∧ loadable (C19.tightParams k) = true ∧ convolvable (C19.tightParams k) = true ∧
    peak (readEvents (C19.tightParams k) ++ convolveEvents (C19.tightParams k)) = 12 * k + 88 ∧
    estimate (C19.tightParams k) ≤ 96 + (12 * k + 88) + 2048 := by
  have hl : loadable (C19.tightParams k) = true := by
    simp [loadable, readerRejects, C19.tightParams]
  have hc : convolvable (C19.tightParams k) = true := by
    simp [convolvable, convolveRejects, C19.tightParams]
  have hv : C19.Valid (C19.tightParams k) :=
    C19_valid_of_loadable _ hl hc (by simp [C19.tightParams]) (by simp [C19.tightParams])
  have hp : peak (readEvents (C19.tightParams k) ++ convolveEvents (C19.tightParams k)) = 12 * k + 88 := by
    rw [(C19_peak_exact _ hl hc (by simp [C19.tightParams])).2]
    simp [C19.tightParams, convDims, adjustAt, convDim, prodNaxes, knotBytes, auxBytes]
    omega
  refine ⟨hv, hl, hc, hp, ?_⟩
  have := C19_estimate_le_peak_plus (C19.tightParams k) (by simp [C19.tightParams])
  rw [hp] at this
  simp [C19.tightParams, auxBytes] at this ⊢
  omega

/-- **The relative slack vanishes**: for every `M` there is a valid, loadable file whose estimate exceeds object + peak
    by less than a fraction `1/M` of the estimate. -/
theorem C19_relative_slack_vanishes (M : Nat) :
    ∃ p : Params, C19.Valid p ∧ loadable p = true ∧
      p.objsize + peak (readEvents p ++ convolveEvents p) ≤ estimate p ∧
      M * (estimate p - (p.objsize + peak (readEvents p ++ convolveEvents p))) ≤ estimate p := by
  obtain ⟨hv, hl, _, hp, he⟩ := C19_tight_family (171 * M)
  refine ⟨C19.tightParams (171 * M), hv, hl, (C19_peak_le_estimate _ hv).2, ?_⟩
  have hlow := (C19_peak_le_estimate _ hv).2
  rw [hp] at hlow ⊢
  have hobj : (C19.tightParams (171 * M)).objsize = 96 := rfl
  rw [hobj] at hlow ⊢
  have h1 : estimate (C19.tightParams (171 * M)) - (96 + (12 * (171 * M) + 88)) ≤ 2048 := by omega
  have h2 := Nat.mul_le_mul_left M h1
  omega

example : C19.tightParams 1000 = { objsize := 96, dims := [⟨0, 1002, 1001⟩], aux := [], nauxKnotsHdu := 4, n := 1, cdim := 0 } ∧
    estimate (C19.tightParams 1000) = 13312 ∧
    peak (readEvents (C19.tightParams 1000) ++ convolveEvents (C19.tightParams 1000)) = 12088 := by
  refine ⟨rfl, by decide, ?_⟩
  exact (C19_tight_family 1000).2.2.2.1

end PsV
