import PsV.Proofs.Glam1d
import PsV.Proofs.GlamNd
/-!
# C09 (continued) — the GLAM assembly identity

Kept in its own module because its proof uses the theorems of `Props/C17.lean` (mode-product semantics of
`sliceMultiply`) and of `Props/C09.lean` (`specM_entries`, `specR_entries`).  Audited together with `Props/C09.lean`.
-/
namespace PsV
open Arith NormalEq
set_option linter.unusedSectionVars false
section
variable {α : Type} [Field α] [LinearOrder α] [IsStrictOrderedRing α] [A : Arith α] [L : LawfulArith α]



/-- In one dimension the system that the model of `glamfit_complex` / `fit.h` hands to the Cholesky solve
(`box`, `slicemultiply`, doubling + reordering of the axes of `F`, `flatten_ndarray_to_sparse`, `divided_diffs`,
`calc_penalty`, `add_penalty_term`) is exactly the normal-equation system `(specM, specR)` of the stated objective,
for every smoothing strength (zero included) and penalty order.
The n-dimensional identity is `glam_eq_kron_C09` below (this one-dimensional statement is kept; it is the case
`dims = [d]` of the general one up to the spelling of the hypotheses). -/
theorem glam_eq_kron_1d_C09 (d : Dim α) (xs : List α) (data : List (List Nat × α)) (weights : List α) (lam : α)
    (p : Nat) (hax : d.naxes = d.nknots - d.order - 1) (hs : d.stride = 1)
    (hdata : ∀ e ∈ data, ∃ g < xs.length, e.1 = [g]) :
    let P : FitProblem α :=
      ⟨[d], [xs], ((data.zip weights).map fun (e, w) => ⟨e.1, e.2, w⟩).toArray, [lam], [p]⟩
    ∃ S, glamSystem [d] [xs] [xs.length] data weights [lam] [p] = some S ∧
      (∀ i < d.naxes, ∀ j < d.naxes, S.fitmat.get i j = (specM P).get i j) ∧
      (∀ i < d.naxes, S.rhs.getD i 0 = (specR P).getD i 0) :=
  glam_eq_kron_1d d xs data weights lam p hax hs hdata

/-- non-vacuity: a concrete one-dimensional problem (order 1, knots 0,1,2,…, three data points one of which has weight 0,
λ = 1, penalty order 1) satisfies the hypotheses. -/
example : (∀ e ∈ ([([0], (1:Rat)), ([1], 1), ([2], 5)] : List (List Nat × Rat)), ∃ g < ([1, 3/2, 2] : List Rat).length, e.1 = [g]) := by
  intro e he
  simp only [List.mem_cons, List.not_mem_nil, or_false] at he
  rcases he with rfl | rfl | rfl
  · exact ⟨0, by decide, rfl⟩
  · exact ⟨1, by decide, rfl⟩
  · exact ⟨2, by decide, rfl⟩

/-- **The GLAM identity, any number of dimensions** (supersedes the one-dimensional theorem above and the per-instance
test `glamM=1 glamR=1` of the driver, which is kept as a regression check of the model against the code).
For every list of dimensions with C-ordered strides (`stride_d = Π_{k>d} naxes_k`) and `naxes = nknots − order − 1`, one
coordinate vector per dimension, data on the grid (`IdxIn`: index tuple of the right length, every index below the length
of its coordinate vector), any weights, any smoothing / penalty-order arguments (a single entry or one per dimension,
selected by `pick` as fit.h does), the system that the model of `glamfit_complex` / `fit.h` hands to the Cholesky solve —
`bsplinebasis` per dimension, `box`, the chain of `slicemultiply` calls on `F` and `R`, doubling the dimensions of `F`,
even axes first, `flatten_ndarray_to_sparse`, `divided_diffs`, `calc_penalty` with its Kronecker chain, `add_penalty_term`
skipping zero scales — is entry for entry the normal-equation system of the stated objective,
`fitmat = BᵀWB + Σ_d λ_d K_dᵀK_d = specM P`, `rhs = BᵀWz = specR P`, with `B[r,i] = Π_d B_d(i_d, x_{r,d})` the Kronecker
(row-tensor) design matrix that the code never forms.  The proof is by induction over the dimensions
(`glamConvolve_get`: loop invariant of the convolution; `flattenNd_F_get_nd`: the mixed-radix reshape;
`penaltyMat_get_nd`: the Kronecker chain).  `P` and the arguments of `glamSystem` are built exactly as `psvdriver C09`
builds them. -/
theorem glam_eq_kron_C09 (dims : List (Dim α)) (coords : List (List α)) (data : List (List Nat × α))
    (weights : List α) (smoothing : List α) (porders : List Nat)
    (hne : dims ≠ []) (hs : StridesRowMajor dims) (hax : ∀ d ∈ dims, d.naxes = d.nknots - d.order - 1)
    (hlen : coords.length = dims.length)
    (hdata : ∀ e ∈ data, IdxIn e.1 (coords.map List.length)) :
    let P : FitProblem α :=
      ⟨dims, coords, ((data.zip weights).map fun (e, w) => ⟨e.1, e.2, w⟩).toArray,
       (List.range dims.length).map (fun k => pick smoothing k 0),
       (List.range dims.length).map (fun k => pick porders k 0)⟩
    ∃ S, glamSystem dims coords (coords.map List.length) data weights smoothing porders = some S ∧
      (∀ i < P.ncoef, ∀ j < P.ncoef, S.fitmat.get i j = (specM P).get i j) ∧
      (∀ i < P.ncoef, S.rhs.getD i 0 = (specR P).getD i 0) :=
  glam_eq_kron_nd dims coords data weights smoothing porders hne hs hax hlen hdata

/-- **End to end (exact arithmetic).**  Under the hypotheses of the GLAM identity, if the normal matrix is positive
definite then every exact solution `c` of the system assembled by the model of the code, `fitmat · c = rhs` — what the
Cholesky solve computes up to rounding — is the unique minimiser of the penalised weighted least-squares objective stated
by the property. -/
theorem glam_solution_is_unique_minimiser (dims : List (Dim α)) (coords : List (List α))
    (data : List (List Nat × α)) (weights : List α) (smoothing : List α) (porders : List Nat)
    (hne : dims ≠ []) (hs : StridesRowMajor dims) (hax : ∀ d ∈ dims, d.naxes = d.nknots - d.order - 1)
    (hlen : coords.length = dims.length)
    (hdata : ∀ e ∈ data, IdxIn e.1 (coords.map List.length)) :
    let P : FitProblem α :=
      ⟨dims, coords, ((data.zip weights).map fun (e, w) => ⟨e.1, e.2, w⟩).toArray,
       (List.range dims.length).map (fun k => pick smoothing k 0),
       (List.range dims.length).map (fun k => pick porders k 0)⟩
    PosDef P.ncoef (Mf P) →
    ∀ S, glamSystem dims coords (coords.map List.length) data weights smoothing porders = some S →
    ∀ c : Nat → α, (∀ i < P.ncoef, mulVec P.ncoef (fun i j => S.fitmat.get i j) c i = S.rhs.getD i 0) →
      (∀ c' : Nat → α, objective P c ≤ objective P c')
        ∧ ∀ c' : Nat → α, objective P c' ≤ objective P c → ∀ i < P.ncoef, c' i = c i := by
  intro P hP S hS c hc
  obtain ⟨S', hS', hM, hr⟩ := glam_eq_kron_nd dims coords data weights smoothing porders hne hs hax hlen hdata
  have hSS : S' = S := Option.some.inj (hS'.symm.trans hS)
  subst hSS
  have hN : ∀ i < P.ncoef, mulVec P.ncoef (Mf P) c i = rf P i := by
    intro i hi
    have h1 : mulVec P.ncoef (fun i j => S'.fitmat.get i j) c i = mulVec P.ncoef (Mf P) c i :=
      mulVec_congr_mat P.ncoef c i hi (fun a ha b hb => hM a ha b hb)
    rw [← h1, hc i hi]
    exact hr i hi
  exact ⟨((C09_fit_is_minimiser P c hP).1).1 hN, (C09_fit_is_minimiser P c hP).2 hN⟩

end

/-- a two-dimensional example: orders 1 × 1, four knots each, 2 × 2 coefficients with strides (2, 1) -/
def exDims2 : List (Dim Rat) := [⟨1, 4, 2, 2, fun i => (i : Rat)⟩, ⟨1, 4, 2, 1, fun i => (i : Rat)⟩]

/-- non-vacuity: a concrete two-dimensional problem (3 × 2 grid, four data one of which has weight 0, a single smoothing
strength and a single penalty order for both dimensions) satisfies the hypotheses … -/
example : exDims2 ≠ [] ∧ StridesRowMajor exDims2 ∧ (∀ d ∈ exDims2, d.naxes = d.nknots - d.order - 1)
    ∧ ([[1, 3/2, 2], [1, 2]] : List (List Rat)).length = exDims2.length
    ∧ ∀ e ∈ ([([0, 0], (1:Rat)), ([2, 1], 1), ([1, 0], 5), ([1, 1], 2)] : List (List Nat × Rat)),
        IdxIn e.1 (([[1, 3/2, 2], [1, 2]] : List (List Rat)).map List.length) := by
  refine ⟨by simp [exDims2], ⟨rfl, rfl⟩, ?_, rfl, ?_⟩
  · intro d hd
    simp only [exDims2, List.mem_cons, List.not_mem_nil, or_false] at hd
    rcases hd with rfl | rfl <;> rfl
  · intro e he
    simp only [List.mem_cons, List.not_mem_nil, or_false] at he
    rcases he with rfl | rfl | rfl | rfl <;>
      exact ⟨rfl, fun k hk => by
        have : k = 0 ∨ k = 1 := by simp at hk; omega
        rcases this with rfl | rfl <;> simp⟩

/-- … so the model assembles a 4 × 4 system (and it is the specification's). -/
example : ∃ S, glamSystem exDims2 [[1, 3/2, 2], [1, 2]] [3, 2]
      [([0, 0], 1), ([2, 1], 1), ([1, 0], 5), ([1, 1], 2)] [1, 1, 0, 2] [1] [1] = some S ∧
    S.fitmat.get 0 0 = (specM (⟨exDims2, [[1, 3/2, 2], [1, 2]],
      #[⟨[0, 0], 1, 1⟩, ⟨[2, 1], 1, 1⟩, ⟨[1, 0], 5, 0⟩, ⟨[1, 1], 2, 2⟩], [1, 1], [1, 1]⟩ : FitProblem Rat)).get 0 0 := by
  obtain ⟨S, h1, h2, _⟩ := glam_eq_kron_C09 exDims2 [[1, 3/2, 2], [1, 2]]
    [([0, 0], 1), ([2, 1], 1), ([1, 0], 5), ([1, 1], 2)] [1, 1, 0, 2] [1] [1] (by simp [exDims2]) ⟨rfl, rfl⟩
    (by
      intro d hd
      simp only [exDims2, List.mem_cons, List.not_mem_nil, or_false] at hd
      rcases hd with rfl | rfl <;> rfl) rfl
    (by
      intro e he
      simp only [List.mem_cons, List.not_mem_nil, or_false] at he
      rcases he with rfl | rfl | rfl | rfl <;>
        exact ⟨rfl, fun k hk => by
          have : k = 0 ∨ k = 1 := by simp at hk; omega
          rcases this with rfl | rfl <;> simp⟩)
  exact ⟨S, h1, h2 0 (by decide) 0 (by decide)⟩

/-- non-vacuity of `glam_solution_is_unique_minimiser`: the problem built from the arguments of the one-dimensional example
is `exP`, whose normal matrix is positive definite; `c = (1,1)` solves the assembled system. -/
example :
    let P : FitProblem Rat :=
      ⟨[exDim], [[1, 3/2, 2]], (([([0], (1:Rat)), ([2], 1), ([1], 5)].zip [(1:Rat), 1, 0]).map
          fun (e, w) => ⟨e.1, e.2, w⟩).toArray,
       (List.range 1).map (fun k => pick [(1:Rat)] k 0), (List.range 1).map (fun k => pick [1] k 0)⟩
    PosDef P.ncoef (Mf P) ∧ ∀ i < P.ncoef, mulVec P.ncoef (Mf P) (fun _ => 1) i = rf P i :=
  ⟨exP_posDef, exP_normal⟩

end PsV
