import PsV.Proofs.Glam1d
/-!
# C09 (continued) — the GLAM assembly identity

Kept in its own module because its proof uses the theorems of `Props/C17.lean` (mode-product semantics of
`sliceMultiply`) and of `Props/C09.lean` (`specM_entries`, `specR_entries`).  Audited together with `Props/C09.lean`.
-/
namespace PsV
open Arith NormalEq
set_option linter.unusedSectionVars false
section
variable {α : Type} [Field α] [LinearOrder α] [IsStrictOrderedRing α] [A : Arith α] [L : LawfulArith α]



/-- In one dimension the system that the model of `glamfit_complex` / `fit.h` hands to the Cholesky solve
(`box`, `slicemultiply`, doubling + reordering of the axes of `F`, `flatten_ndarray_to_sparse`, `divided_diffs`,
`calc_penalty`, `add_penalty_term`) is exactly the normal-equation system `(specM, specR)` of the stated objective,
for every smoothing strength (zero included) and penalty order.
The n-dimensional identity `glam_eq_kron` (same statement for `dims`, `coords` of any length with row-major strides) is
not proved; `psvdriver C09` checks it exactly (entry by entry, in `Rat`) on every generated instance — a test. -/
theorem glam_eq_kron_1d_C09 (d : Dim α) (xs : List α) (data : List (List Nat × α)) (weights : List α) (lam : α)
    (p : Nat) (hax : d.naxes = d.nknots - d.order - 1) (hs : d.stride = 1)
    (hdata : ∀ e ∈ data, ∃ g < xs.length, e.1 = [g]) :
    let P : FitProblem α :=
      ⟨[d], [xs], ((data.zip weights).map fun (e, w) => ⟨e.1, e.2, w⟩).toArray, [lam], [p]⟩
    ∃ S, glamSystem [d] [xs] [xs.length] data weights [lam] [p] = some S ∧
      (∀ i < d.naxes, ∀ j < d.naxes, S.fitmat.get i j = (specM P).get i j) ∧
      (∀ i < d.naxes, S.rhs.getD i 0 = (specR P).getD i 0) :=
  glam_eq_kron_1d d xs data weights lam p hax hs hdata

/-- non-vacuity: a concrete one-dimensional problem (order 1, knots 0,1,2,…, three data points one of which has weight 0,
λ = 1, penalty order 1) satisfies the hypotheses. -/
example : (∀ e ∈ ([([0], (1:Rat)), ([1], 1), ([2], 5)] : List (List Nat × Rat)), ∃ g < ([1, 3/2, 2] : List Rat).length, e.1 = [g]) := by
  intro e he
  simp only [List.mem_cons, List.not_mem_nil, or_false] at he
  rcases he with rfl | rfl | rfl
  · exact ⟨0, by decide, rfl⟩
  · exact ⟨1, by decide, rfl⟩
  · exact ⟨2, by decide, rfl⟩

end
end PsV
