import PsV.Proofs.NnlsSolve
set_option linter.unusedSectionVars false
set_option linter.unusedVariables false
set_option linter.unusedSimpArgs false
/-!
# Existence of the constrained minimiser (a KKT point) for an SPD system, and completeness of `refNnls`

Existence is proved on the trailing blocks `[c,k)` of an augmented entry function by induction on the block size,
with the same Schur-complement step as the elimination (`elim`): solve the problem with `x_c = 0`; if the multiplier of
`x_c` is negative, solve the problem of the Schur complement and recover `x_c` from row `c`; monotonicity of the
positive-definite form excludes `x_c < 0`.
-/
namespace PsV.Nnls
open Finset

/-- gradient of the block problem: `Σ_{j∈[c,k)} F i j x_j − F i k` -/
def gradOn (c k : ℕ) (F : FM) (x : ℕ → ℚ) (i : ℕ) : ℚ := ∑ j ∈ Ico c k, F i j * x j - F i k

/-- exact KKT conditions of the block problem -/
def KKTOn (c k : ℕ) (F : FM) (x : ℕ → ℚ) : Prop :=
  ∀ i, c ≤ i → i < k → 0 ≤ x i ∧ 0 ≤ gradOn c k F x i ∧ x i * gradOn c k F x i = 0

theorem pdOn_tail {c k : ℕ} {F : FM} (hc : c < k) (hS : SymOn c k F) (h : PDOn c k F) : PDOn (c+1) k F := by
  intro y hy
  let x : ℕ → ℚ := fun i => if i = c then 0 else y i
  have hxy : ∀ i, c + 1 ≤ i → i < k → x i = y i := by
    intro i hi _; show (if i = c then _ else _) = _; rw [if_neg (by omega)]
  have hxc : x c = 0 := by show (if c = c then _ else _) = _; rw [if_pos rfl]
  obtain ⟨i, hi, hik, hne⟩ := hy
  have := h x ⟨i, by omega, hik, by rw [hxy i hi hik]; exact hne⟩
  rw [Qf_split x hc hS, hxc, Qf_congr (fun _ _ _ _ _ _ => rfl) hxy] at this
  simpa using this

theorem symOn_tail {c k : ℕ} {F : FM} (hS : SymOn c k F) : SymOn (c+1) k F :=
  fun i j hi hik hj hjk => hS i j (by omega) hik (by omega) hjk

theorem gradOn_split {c k : ℕ} (hc : c < k) (F : FM) (x : ℕ → ℚ) (i : ℕ) :
    gradOn c k F x i = F i c * x c + gradOn (c+1) k F x i := by
  unfold gradOn
  rw [sum_eq_sum_Ico_succ_bot hc]; ring

theorem gradOn_congr {c k : ℕ} {F : FM} {x y : ℕ → ℚ} (h : ∀ j, c ≤ j → j < k → x j = y j) (i : ℕ) :
    gradOn c k F x i = gradOn c k F y i := by
  unfold gradOn
  congr 1
  apply sum_congr rfl; intro j hj
  rw [mem_Ico] at hj
  rw [h j hj.1 hj.2]

/-- gradient of the Schur-complement problem = gradient of the full problem at the point completed by row `c` -/
theorem gradOn_elim {c k : ℕ} {F : FM} (hc : c < k) (hp : F c c ≠ 0) (x : ℕ → ℚ) (i : ℕ) (hi : c + 1 ≤ i)
    (hxc : x c = (F c k - ∑ j ∈ Ico (c+1) k, F c j * x j) / F c c) :
    gradOn (c+1) k (elim F c) x i = gradOn c k F x i := by
  rw [gradOn_split hc, hxc]
  unfold gradOn elim
  rw [if_neg (by omega)]
  have e : ∑ j ∈ Ico (c+1) k, (if i = c then F c j / F c c else F i j - F i c * (F c j / F c c)) * x j
      = ∑ j ∈ Ico (c+1) k, F i j * x j - F i c * ((∑ j ∈ Ico (c+1) k, F c j * x j) / F c c) := by
    rw [Finset.sum_div, Finset.mul_sum, ← sum_sub_distrib]
    apply sum_congr rfl; intro j _
    rw [if_neg (by omega)]; ring
  rw [e]
  field_simp
  ring

theorem Qf_eq_grad_diff {c k : ℕ} (F : FM) (u w : ℕ → ℚ) :
    Qf c k F (fun i => u i - w i) = ∑ i ∈ Ico c k, (u i - w i) * (gradOn c k F u i - gradOn c k F w i) := by
  unfold Qf gradOn
  apply sum_congr rfl; intro i _
  have e : ∑ j ∈ Ico c k, F i j * u j - F i k - (∑ j ∈ Ico c k, F i j * w j - F i k)
      = ∑ j ∈ Ico c k, F i j * (u j - w j) := by
    rw [sub_sub_sub_cancel_right, ← sum_sub_distrib]
    apply sum_congr rfl; intros; ring
  rw [e, Finset.mul_sum]
  apply sum_congr rfl; intros; ring

/-- **Existence of a KKT point** of `min ½xᵀAx − bᵀx, x ≥ 0` on every symmetric positive-definite block. -/
theorem kktOn_exists {k : ℕ} : ∀ (m c : ℕ) (F : FM), c + m = k → SymOn c k F → PDOn c k F →
    ∃ x, KKTOn c k F x := by
  intro m
  induction m with
  | zero => intro c F hk _ _; exact ⟨fun _ => 0, fun i hi hik => by omega⟩
  | succ m ih =>
    intro c F hk hS hP
    have hc : c < k := by omega
    have hp := pd_pivot_pos hc hP
    obtain ⟨x1, h1⟩ := ih (c+1) F (by omega) (symOn_tail hS) (pdOn_tail hc hS hP)
    let u : ℕ → ℚ := fun i => if i = c then 0 else x1 i
    have hu1 : ∀ i, c + 1 ≤ i → i < k → u i = x1 i := by
      intro i hi _; show (if i = c then _ else _) = _; rw [if_neg (by omega)]
    have huc : u c = 0 := by show (if c = c then _ else _) = _; rw [if_pos rfl]
    have hgu : ∀ i, gradOn c k F u i = gradOn (c+1) k F x1 i := by
      intro i; rw [gradOn_split hc, huc, mul_zero, zero_add]; exact gradOn_congr hu1 i
    have hutail : ∀ i, c + 1 ≤ i → i < k → 0 ≤ u i ∧ 0 ≤ gradOn c k F u i ∧ u i * gradOn c k F u i = 0 := by
      intro i hi hik
      rw [hgu, hu1 i hi hik]; exact h1 i hi hik
    by_cases hg : 0 ≤ gradOn c k F u c
    · refine ⟨u, fun i hi hik => ?_⟩
      rcases Nat.eq_or_lt_of_le hi with h | h
      · rw [← h]; exact ⟨by rw [huc], hg, by rw [huc, zero_mul]⟩
      · exact hutail i h hik
    · have hg' : gradOn c k F u c < 0 := not_le.mp hg
      obtain ⟨x2, h2⟩ := ih (c+1) (elim F c) (by omega) (sym_step hS hc) (pd_step hc hS hP)
      let wc : ℚ := (F c k - ∑ j ∈ Ico (c+1) k, F c j * x2 j) / F c c
      let w : ℕ → ℚ := fun i => if i = c then wc else x2 i
      have hw2 : ∀ i, c + 1 ≤ i → i < k → w i = x2 i := by
        intro i hi _; show (if i = c then _ else _) = _; rw [if_neg (by omega)]
      have hwc : w c = wc := by show (if c = c then _ else _) = _; rw [if_pos rfl]
      have hwc' : w c = (F c k - ∑ j ∈ Ico (c+1) k, F c j * w j) / F c c := by
        rw [hwc]; show (F c k - ∑ j ∈ Ico (c+1) k, F c j * x2 j) / F c c = _
        congr 2
        apply sum_congr rfl; intro j hj
        rw [mem_Ico] at hj
        rw [hw2 j hj.1 hj.2]
      have hgw : ∀ i, c + 1 ≤ i → gradOn c k F w i = gradOn (c+1) k (elim F c) x2 i := by
        intro i hi
        rw [← gradOn_elim hc (ne_of_gt hp) w i hi hwc']
        exact gradOn_congr hw2 i
      have hgwc : gradOn c k F w c = 0 := by
        rw [gradOn_split hc, hwc']
        unfold gradOn
        field_simp
        ring
      have hwtail : ∀ i, c + 1 ≤ i → i < k → 0 ≤ w i ∧ 0 ≤ gradOn c k F w i ∧ w i * gradOn c k F w i = 0 := by
        intro i hi hik
        rw [hgw i hi, hw2 i hi hik]; exact h2 i hi hik
      have hwc0 : 0 ≤ w c := by
        by_contra hneg
        have hneg' : w c < 0 := not_le.mp hneg
        have hq : 0 < Qf c k F (fun i => u i - w i) :=
          hP _ ⟨c, le_refl _, hc, by show u c - w c ≠ 0; rw [huc]; linarith⟩
        rw [Qf_eq_grad_diff, sum_eq_sum_Ico_succ_bot hc, huc, hgwc] at hq
        have hhead : (0 - w c) * (gradOn c k F u c - 0) < 0 := by nlinarith
        have htail : ∑ i ∈ Ico (c+1) k, (u i - w i) * (gradOn c k F u i - gradOn c k F w i) ≤ 0 := by
          apply sum_nonpos
          intro i hi
          rw [mem_Ico] at hi
          obtain ⟨a1, a2, a3⟩ := hutail i hi.1 hi.2
          obtain ⟨b1, b2, b3⟩ := hwtail i hi.1 hi.2
          have : (u i - w i) * (gradOn c k F u i - gradOn c k F w i)
              = u i * gradOn c k F u i + w i * gradOn c k F w i - u i * gradOn c k F w i - w i * gradOn c k F u i := by
            ring
          rw [this, a3, b3]
          have := mul_nonneg a1 b2
          have := mul_nonneg b1 a2
          linarith
        linarith
      refine ⟨w, fun i hi hik => ?_⟩
      rcases Nat.eq_or_lt_of_le hi with h | h
      · rw [← h]; exact ⟨hwc0, by rw [hgwc], by rw [hgwc, mul_zero]⟩
      · exact hwtail i h hik

/-! ## back to the executable checker -/
open Matrix

/-- the augmented entries `[A | b]` on `[0,n)` -/
def augF (n : ℕ) (A : Mat) (b : Vec) : FM := fun i j => if j < n then A i j else b i

theorem gradOn_aug (n : ℕ) (A : Mat) (b : Vec) (x : ℕ → ℚ) (i : ℕ) :
    gradOn 0 n (augF n A b) x i = grad n A b x i := by
  unfold gradOn augF grad Nnls.mulVec
  rw [sumTo_range, Nat.Ico_zero_eq_range, if_neg (lt_irrefl n)]
  congr 1
  apply sum_congr rfl; intro j hj
  rw [if_pos (mem_range.mp hj)]

/-- **The constrained minimiser exists**: every SPD system has a point the checker accepts with tolerance 0. -/
theorem kkt_point_exists (n : ℕ) (A : Mat) (b : Vec) (hA : SPD (toMat n A)) :
    ∃ x : ℕ → ℚ, kktCheck n A b x (fun _ => 0) = true := by
  obtain ⟨hsym, hpd⟩ := (spd_iff n A).mp hA
  have hS : SymOn 0 n (augF n A b) := by
    intro i j _ hi _ hj; unfold augF; rw [if_pos hi, if_pos hj]; exact hsym i j (Nat.zero_le _) hi (Nat.zero_le _) hj
  have hP : PDOn 0 n (augF n A b) :=
    pdOn_congr (fun i j _ _ _ hj => by unfold augF; rw [if_pos hj]) hpd
  obtain ⟨x, hx⟩ := kktOn_exists (k := n) n 0 (augF n A b) (by omega) hS hP
  refine ⟨x, ?_⟩
  unfold kktCheck
  rw [List.all_eq_true]
  intro i hi
  obtain ⟨h1, h2, h3⟩ := hx i (Nat.zero_le _) (List.mem_range.mp hi)
  rw [gradOn_aug] at h2 h3
  simp only [Bool.and_eq_true, Bool.or_eq_true, decide_eq_true_eq, neg_zero]
  refine ⟨⟨h1, h2⟩, ?_⟩
  rcases mul_eq_zero.mp h3 with h | h
  · left; rw [h]
  · right; rw [h]

theorem kktCheck_congr {n : ℕ} {A : Mat} {b x x' tol : Vec} (h : ∀ i, i < n → x i = x' i)
    (hk : kktCheck n A b x tol = true) : kktCheck n A b x' tol = true := by
  unfold kktCheck at hk ⊢
  rw [List.all_eq_true] at hk ⊢
  intro i hi
  have := hk i hi
  rwa [h i (List.mem_range.mp hi), grad_congr n A b x x' h i] at this

/-! ## support masks -/

def maskOf (p : ℕ → Bool) : ℕ → ℕ
  | 0 => 0
  | n+1 => (if p n then 2^n else 0) + maskOf p n

theorem maskOf_lt (p : ℕ → Bool) : ∀ n, maskOf p n < 2^n := by
  intro n
  induction n with
  | zero => simp [maskOf]
  | succ n ih =>
    unfold maskOf
    rw [pow_succ]
    split <;> omega

theorem testBit_maskOf (p : ℕ → Bool) : ∀ n i, i < n → (maskOf p n).testBit i = p i := by
  intro n
  induction n with
  | zero => intro i hi; omega
  | succ n ih =>
    intro i hi
    unfold maskOf
    rcases Nat.lt_succ_iff_lt_or_eq.mp hi with h | h
    · by_cases hp : p n = true
      · rw [if_pos hp, Nat.testBit_two_pow_add_gt h]; exact ih i h
      · rw [if_neg hp, Nat.zero_add]; exact ih i h
    · subst h
      by_cases hp : p i = true
      · rw [if_pos hp, Nat.testBit_two_pow_add_eq, Nat.testBit_lt_two_pow (maskOf_lt p i), hp]; rfl
      · rw [if_neg hp, Nat.zero_add, Nat.testBit_lt_two_pow (maskOf_lt p i)]
        simpa using hp

theorem maskSet_maskOf (p : ℕ → Bool) (n : ℕ) : maskSet n (maskOf p n) = (List.range n).filter p := by
  unfold maskSet
  apply List.filter_congr
  intro i hi
  exact testBit_maskOf p n i (List.mem_range.mp hi)

theorem refSearch_complete (n : ℕ) (A : Mat) (b : Vec) : ∀ (fuel m0 m : ℕ), m0 ≤ m → m < m0 + fuel →
    (tryMask n A b m).isSome = true → (refSearch n A b fuel m0).isSome = true := by
  intro fuel
  induction fuel with
  | zero => intro m0 m h1 h2 _; omega
  | succ f ih =>
    intro m0 m h1 h2 hs
    unfold refSearch
    cases ht : tryMask n A b m0 with
    | some y => rfl
    | none =>
      simp only
      have hne : m ≠ m0 := by
        intro h; rw [h, ht] at hs; simp at hs
      exact ih (m0+1) m (by omega) (by omega) hs

/-! ## uniqueness of the solution on a passive set, and completeness of `refNnls` -/

theorem solve_unique {n : ℕ} {A : Mat} {b : Vec} (hA : SPD (toMat n A)) (S : List ℕ) (u v : ℕ → ℚ)
    (hu0 : ∀ i, i < n → i ∉ S → u i = 0) (hv0 : ∀ i, i < n → i ∉ S → v i = 0)
    (hu : ∀ i, i < n → i ∈ S → grad n A b u i = 0) (hv : ∀ i, i < n → i ∈ S → grad n A b v i = 0) :
    ∀ i, i < n → u i = v i := by
  by_contra hne
  have hd : toVec n u - toVec n v ≠ 0 := by
    intro h0
    apply hne
    intro i hi
    have := congrFun h0 ⟨i, hi⟩
    simp only [Pi.sub_apply, toVec, Pi.zero_apply] at this
    linarith
  have hpos := hA.2 _ hd
  have hz : (toVec n u - toVec n v) ⬝ᵥ (toMat n A) *ᵥ (toVec n u - toVec n v) = 0 := by
    apply Finset.sum_eq_zero
    intro i _
    by_cases hi : (i : ℕ) ∈ S
    · have e : ((toMat n A) *ᵥ (toVec n u - toVec n v)) i
          = gradM (toMat n A) (toVec n b) (toVec n u) i - gradM (toMat n A) (toVec n b) (toVec n v) i := by
        unfold gradM
        rw [Matrix.mulVec_sub]; simp only [Pi.sub_apply]; ring
      rw [e, ← grad_eq, ← grad_eq, hu i i.2 hi, hv i i.2 hi]; ring
    · simp only [Pi.sub_apply, toVec]
      rw [hu0 i i.2 hi, hv0 i i.2 hi]; ring
  linarith

/-- **Completeness of the reference solver**: on an SPD system `refNnls` always returns (the support of the KKT
point is one of the `2ⁿ` candidates, the solve on it succeeds and reproduces the point). -/
theorem refNnls_complete (n : ℕ) (A : Mat) (b : Vec) (hA : SPD (toMat n A)) : ∃ xa, refNnls n A b = some xa := by
  obtain ⟨x, hx⟩ := kkt_point_exists n A b hA
  have hK := hx
  unfold kktCheck at hK
  rw [List.all_eq_true] at hK
  have key : ∀ i, i < n → 0 ≤ x i ∧ 0 ≤ grad n A b x i ∧ (x i ≤ 0 ∨ grad n A b x i ≤ 0) := by
    intro i hi
    have := hK i (List.mem_range.mpr hi)
    simp only [Bool.and_eq_true, Bool.or_eq_true, decide_eq_true_eq, neg_zero] at this
    exact ⟨this.1.1, this.1.2, this.2⟩
  let p : ℕ → Bool := fun i => decide (0 < x i)
  let S := (List.range n).filter p
  have hS : S.Nodup := List.Nodup.filter _ List.nodup_range
  have hn : ∀ i ∈ S, i < n := fun j hj => List.mem_range.mp (List.mem_filter.mp hj).1
  have hmemS : ∀ i, i < n → (i ∈ S ↔ 0 < x i) := by
    intro i hi
    show i ∈ (List.range n).filter p ↔ _
    rw [List.mem_filter, List.mem_range]
    simp [p, hi]
  obtain ⟨y, hy⟩ := solveOn_spd b hA hS hn
  obtain ⟨hoff, hon⟩ := solveOn_correct hS hn hy
  have hxy : ∀ i, i < n → x i = at0 y i := by
    apply solve_unique hA S x (at0 y)
    · intro i hi hiS
      have := (key i hi).1
      have h2 : ¬ 0 < x i := fun h => hiS ((hmemS i hi).mpr h)
      linarith [not_lt.mp h2]
    · intro i _ hiS; exact hoff i hiS
    · intro i hi hiS
      have hpos := (hmemS i hi).mp hiS
      rcases (key i hi).2.2 with h | h
      · linarith
      · exact le_antisymm h (key i hi).2.1
    · intro i _ hiS; exact hon i hiS
  have hynn : ∀ i, 0 ≤ at0 y i := by
    intro i
    by_cases hi : i < n
    · rw [← hxy i hi]; exact (key i hi).1
    · rw [hoff i (fun h => hi (hn i h))]
  have htry : (tryMask n A b (maskOf p n)).isSome = true := by
    unfold tryMask
    rw [maskSet_maskOf]
    show (match solveOn n A b S with
      | none => none
      | some x => if x.all (fun v => decide (0 ≤ v)) && kktCheck n A b (at0 x) (fun _ => 0) then some x else none).isSome
        = true
    rw [hy]
    simp only
    have h1 : y.all (fun v => decide (0 ≤ v)) = true := by
      rw [Array.all_eq_true]
      intro i hi
      have := hynn i
      unfold at0 at this
      rw [Array.getD_eq_getD_getElem?, Array.getElem?_eq_getElem hi] at this
      simpa using this
    have h2 : kktCheck n A b (at0 y) (fun _ => 0) = true := kktCheck_congr hxy hx
    rw [h1, h2]; rfl
  have := refSearch_complete n A b (2^n) 0 (maskOf p n) (Nat.zero_le _) (by have := maskOf_lt p n; omega) htry
  unfold refNnls
  exact Option.isSome_iff_exists.mp this

end PsV.Nnls
