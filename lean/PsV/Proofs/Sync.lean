import PsV.Model.Sync
/-! Helper lemmas for C12: arithmetic of blocks, the result scan, the invariant and its preservation. -/
namespace PsV.Sync

/-! ## blocks -/
theorem lt_blocks_iff (c : Cfg) (hn : 0 < c.n) (i : Nat) : i < c.blocks ↔ i * c.n < c.m := by
  unfold Cfg.blocks
  rw [show i < (c.m + c.n - 1) / c.n ↔ i + 1 ≤ (c.m + c.n - 1) / c.n from Iff.rfl,
      Nat.le_div_iff_mul_le hn, Nat.succ_mul]
  generalize i * c.n = a
  omega

theorem active_le (c : Cfg) (i : Nat) : c.active i ≤ c.n := Nat.min_le_left _ _

/-! ## scan -/
theorem selStep_some (less : Nat → Nat → Bool) (m : Nat) (acc : Acc) (k : Nat) (v : Option Nat)
    (h : acc.2.isSome = true) : selStep less m acc k v = acc := by
  unfold selStep
  cases h2 : acc.2 with
  | none => simp [h2] at h
  | some x => rfl

theorem flat_succ (less : Nat → Nat → Bool) (m K : Nat) :
    flat less m (K+1) = selStep less m (flat less m K) K (some K) := by
  unfold flat
  rw [List.range_succ, List.foldl_append]
  rfl

theorem flat_stable (less : Nat → Nat → Bool) (m K : Nat) (h : (flat less m K).2.isSome = true) :
    ∀ d, flat less m (K + d) = flat less m K := by
  intro d
  induction d with
  | zero => rfl
  | succ d ih =>
    rw [← Nat.add_assoc, flat_succ, ih, selStep_some _ _ _ _ _ h]

theorem scan_flat_aux (less : Nat → Nat → Bool) (m K : Nat) (val : Nat → Option Nat) :
    ∀ a, (∀ j, j < a → val j = some (K + j)) →
      (List.range a).foldl (fun acc j => selStep less m acc (K + j) (val j)) (flat less m K)
        = flat less m (K + a) := by
  intro a
  induction a with
  | zero => intro _; rfl
  | succ a ih =>
    intro h
    rw [List.range_succ, List.foldl_append, ih (fun j hj => h j (Nat.lt_succ_of_lt hj))]
    simp only [List.foldl_cons, List.foldl_nil]
    rw [h a (Nat.lt_succ_self a), ← Nat.add_assoc, flat_succ]

theorem scan_flat (c : Cfg) (val : Nat → Option Nat) (i : Nat)
    (h : ∀ j, j < c.active i → val j = some (i * c.n + j)) :
    scan c val i (flat c.less c.m (i * c.n)) = flat c.less c.m (i * c.n + c.active i) :=
  scan_flat_aux c.less c.m (i * c.n) val (c.active i) h


/-! ## the invariant -/
def cHolds : CPc → Bool
  | .bcastA | .unlockA | .condWait | .unlockB | .bcastT | .unlockT => true
  | _ => false
def wHolds : WPc → Bool
  | .hold | .bcast | .unlock2 => true
  | _ => false
def inBlock : CPc → Bool
  | .bcastA | .unlockA | .lockB | .condWait | .waiting | .woken | .unlockB => true
  | _ => false
def termPhase : CPc → Bool
  | .bcastT | .unlockT | .join _ | .final => true
  | _ => false
def isCreate : CPc → Bool
  | .create _ => true
  | _ => false
def isBcast : CPc → Bool
  | .bcastA | .bcastT => true
  | _ => false

structure Inv (c : Cfg) (s : State) : Prop where
  own0 : s.owner = some 0 ↔ cHolds s.cpc = true
  ownW : ∀ w, s.owner = some (w+1) ↔ wHolds (s.wpc w) = true
  idleOut : ∀ w, c.n ≤ w → s.wpc w = .idle
  created : ∀ k, s.cpc = .create k → k < c.n ∧ (∀ w, w < k → s.wpc w ≠ .idle) ∧ (∀ w, k ≤ w → s.wpc w = .idle)
  createdAll : isCreate s.cpc = false → ∀ w, w < c.n → s.wpc w ≠ .idle
  joinLt : ∀ k, s.cpc = .join k → k < c.n
  waitSt : ∀ w, s.wpc w = .waiting → s.st w = .wait ∨ isBcast s.cpc = true
  noTerm : termPhase s.cpc = false → ∀ w, s.st w ≠ .term
  allTerm : termPhase s.cpc = true → ∀ w, w < c.n → s.st w = .term
  termPcs : termPhase s.cpc = true → ∀ w, s.wpc w ≠ .lock2 ∧ s.wpc w ≠ .bcast ∧ s.wpc w ≠ .unlock2
  exitTerm : ∀ w, (s.wpc w = .exit ∨ s.wpc w = .done) → termPhase s.cpc = true
  runBlock : ∀ w, s.st w = .run → inBlock s.cpc = true ∧ w < c.active s.blk
  lock2Run : ∀ w, s.wpc w = .lock2 → s.st w = .run
  blockVals : inBlock s.cpc = true → ∀ j, j < c.active s.blk →
      s.aidx j = s.blk * c.n + j ∧ (s.st j = .run ∨ s.val j = some (s.blk * c.n + j))
  unlockBAll : s.cpc = .unlockB → ∀ j, j < c.active s.blk → s.st j = .wait
  condRun : c.repaired = true → s.cpc = .condWait → ∃ j, j < c.active s.blk ∧ s.st j = .run
  waitRun : c.repaired = true → s.cpc = .waiting →
      (∃ j, j < c.active s.blk ∧ s.st j = .run) ∨ (∃ w, s.wpc w = .bcast)
  accCreate : isCreate s.cpc = true → s.base = none ∧ s.chosen = none ∧ s.blk = 0
  accLoop : (s.cpc = .lockA ∨ inBlock s.cpc = true) →
      (s.base, s.chosen) = flat c.less c.m (s.blk * c.n) ∧ s.chosen = none ∧ s.blk * c.n < c.m
  accDone : (s.cpc = .lockT ∨ termPhase s.cpc = true) → (s.base, s.chosen) = flat c.less c.m c.m

theorem allWait_iff (c : Cfg) (s : State) : allWait c s = true ↔ ∀ j, j < c.active s.blk → s.st j = .wait := by
  simp [allWait, List.all_eq_true]




@[simp high] theorem cHolds_wakeC (p : CPc) : cHolds (wakeC p) = cHolds p := by cases p <;> rfl
@[simp high] theorem inBlock_wakeC (p : CPc) : inBlock (wakeC p) = inBlock p := by cases p <;> rfl
@[simp high] theorem termPhase_wakeC (p : CPc) : termPhase (wakeC p) = termPhase p := by cases p <;> rfl
@[simp high] theorem isCreate_wakeC (p : CPc) : isCreate (wakeC p) = isCreate p := by cases p <;> rfl
@[simp high] theorem isBcast_wakeC (p : CPc) : isBcast (wakeC p) = isBcast p := by cases p <;> rfl
@[simp] theorem wakeC_create (p : CPc) (k : Nat) : wakeC p = .create k ↔ p = .create k := by cases p <;> simp [wakeC]
@[simp] theorem wakeC_join (p : CPc) (k : Nat) : wakeC p = .join k ↔ p = .join k := by cases p <;> simp [wakeC]
@[simp] theorem wakeC_unlockB (p : CPc) : wakeC p = .unlockB ↔ p = .unlockB := by cases p <;> simp [wakeC]
@[simp] theorem wakeC_condWait (p : CPc) : wakeC p = .condWait ↔ p = .condWait := by cases p <;> simp [wakeC]
@[simp] theorem wakeC_lockA (p : CPc) : wakeC p = .lockA ↔ p = .lockA := by cases p <;> simp [wakeC]
@[simp] theorem wakeC_lockT (p : CPc) : wakeC p = .lockT ↔ p = .lockT := by cases p <;> simp [wakeC]
@[simp] theorem wakeC_waiting (p : CPc) : wakeC p ≠ .waiting := by cases p <;> simp [wakeC]

attribute [local simp] upd wakeAll cHolds wHolds inBlock termPhase isCreate isBcast

theorem own0_stepC (c : Cfg) (hn : 0 < c.n) (s s' : State) (h : Inv c s) (hs : stepC c s = some s') :
    s'.owner = some 0 ↔ cHolds s'.cpc = true := by
  have h_own0 := h.own0
  unfold stepC at hs
  split at hs <;> (try split at hs) <;> simp at hs <;> subst hs <;> simp only [loopHead] <;> (repeat' split) <;> simp_all [allWait_iff] <;> grind

theorem ownW_stepC (c : Cfg) (hn : 0 < c.n) (s s' : State) (h : Inv c s) (hs : stepC c s = some s') :
    ∀ w, s'.owner = some (w+1) ↔ wHolds (s'.wpc w) = true := by
  have h_own0 := h.own0
  have h_ownW := h.ownW
  have h_created := h.created
  unfold stepC at hs
  split at hs <;> (try split at hs) <;> simp at hs <;> subst hs <;> simp only [loopHead] <;> (repeat' split) <;> simp_all [allWait_iff] <;> grind

theorem idleOut_stepC (c : Cfg) (hn : 0 < c.n) (s s' : State) (h : Inv c s) (hs : stepC c s = some s') :
    ∀ w, c.n ≤ w → s'.wpc w = .idle := by
  have h_idleOut := h.idleOut
  have h_created := h.created
  unfold stepC at hs
  split at hs <;> (try split at hs) <;> simp at hs <;> subst hs <;> simp only [loopHead] <;> (repeat' split) <;> simp_all [allWait_iff] <;> grind

theorem created_stepC (c : Cfg) (hn : 0 < c.n) (s s' : State) (h : Inv c s) (hs : stepC c s = some s') :
    ∀ k, s'.cpc = .create k → k < c.n ∧ (∀ w, w < k → s'.wpc w ≠ .idle) ∧ (∀ w, k ≤ w → s'.wpc w = .idle) := by
  have h_created := h.created
  unfold stepC at hs
  split at hs <;> (try split at hs) <;> simp at hs <;> subst hs <;> simp only [loopHead] <;> (repeat' split) <;> simp_all [allWait_iff] <;> grind

theorem createdAll_stepC (c : Cfg) (hn : 0 < c.n) (s s' : State) (h : Inv c s) (hs : stepC c s = some s') :
    isCreate s'.cpc = false → ∀ w, w < c.n → s'.wpc w ≠ .idle := by
  have h_created := h.created
  have h_createdAll := h.createdAll
  unfold stepC at hs
  split at hs <;> (try split at hs) <;> simp at hs <;> subst hs <;> simp only [loopHead] <;> (repeat' split) <;> simp_all [allWait_iff] <;> grind

theorem joinLt_stepC (c : Cfg) (hn : 0 < c.n) (s s' : State) (h : Inv c s) (hs : stepC c s = some s') :
    ∀ k, s'.cpc = .join k → k < c.n := by
  have h_joinLt := h.joinLt
  unfold stepC at hs
  split at hs <;> (try split at hs) <;> simp at hs <;> subst hs <;> simp only [loopHead] <;> (repeat' split) <;> simp_all [allWait_iff] <;> grind

theorem waitSt_stepC (c : Cfg) (hn : 0 < c.n) (s s' : State) (h : Inv c s) (hs : stepC c s = some s') :
    ∀ w, s'.wpc w = .waiting → s'.st w = .wait ∨ isBcast s'.cpc = true := by
  have h_waitSt := h.waitSt
  have h_created := h.created
  unfold stepC at hs
  split at hs <;> (try split at hs) <;> simp at hs <;> subst hs <;> simp only [loopHead] <;> (repeat' split) <;> simp_all [allWait_iff] <;> grind

theorem noTerm_stepC (c : Cfg) (hn : 0 < c.n) (s s' : State) (h : Inv c s) (hs : stepC c s = some s') :
    termPhase s'.cpc = false → ∀ w, s'.st w ≠ .term := by
  have h_noTerm := h.noTerm
  unfold stepC at hs
  split at hs <;> (try split at hs) <;> simp at hs <;> subst hs <;> simp only [loopHead] <;> (repeat' split) <;> simp_all [allWait_iff] <;> grind

theorem allTerm_stepC (c : Cfg) (hn : 0 < c.n) (s s' : State) (h : Inv c s) (hs : stepC c s = some s') :
    termPhase s'.cpc = true → ∀ w, w < c.n → s'.st w = .term := by
  have h_allTerm := h.allTerm
  unfold stepC at hs
  split at hs <;> (try split at hs) <;> simp at hs <;> subst hs <;> simp only [loopHead] <;> (repeat' split) <;> simp_all [allWait_iff] <;> grind

theorem termPcs_stepC (c : Cfg) (hn : 0 < c.n) (s s' : State) (h : Inv c s) (hs : stepC c s = some s') :
    termPhase s'.cpc = true → ∀ w, s'.wpc w ≠ .lock2 ∧ s'.wpc w ≠ .bcast ∧ s'.wpc w ≠ .unlock2 := by
  have h_termPcs := h.termPcs
  have h_ownW := h.ownW
  have h_runBlock := h.runBlock
  have h_lock2Run := h.lock2Run
  unfold stepC at hs
  split at hs <;> (try split at hs) <;> simp at hs <;> subst hs <;> simp only [loopHead] <;> (repeat' split) <;> simp_all [allWait_iff] <;> grind

theorem exitTerm_stepC (c : Cfg) (hn : 0 < c.n) (s s' : State) (h : Inv c s) (hs : stepC c s = some s') :
    ∀ w, (s'.wpc w = .exit ∨ s'.wpc w = .done) → termPhase s'.cpc = true := by
  have h_exitTerm := h.exitTerm
  have h_created := h.created
  unfold stepC at hs
  split at hs <;> (try split at hs) <;> simp at hs <;> subst hs <;> simp only [loopHead] <;> (repeat' split) <;> simp_all [allWait_iff] <;> grind

theorem runBlock_stepC (c : Cfg) (hn : 0 < c.n) (s s' : State) (h : Inv c s) (hs : stepC c s = some s') :
    ∀ w, s'.st w = .run → inBlock s'.cpc = true ∧ w < c.active s'.blk := by
  have h_runBlock := h.runBlock
  have h_unlockBAll := h.unlockBAll
  unfold stepC at hs
  split at hs <;> (try split at hs) <;> simp at hs <;> subst hs <;> simp only [loopHead] <;> (repeat' split) <;> simp_all [allWait_iff] <;> grind

theorem lock2Run_stepC (c : Cfg) (hn : 0 < c.n) (s s' : State) (h : Inv c s) (hs : stepC c s = some s') :
    ∀ w, s'.wpc w = .lock2 → s'.st w = .run := by
  have h_lock2Run := h.lock2Run
  have h_runBlock := h.runBlock
  have h_created := h.created
  unfold stepC at hs
  split at hs <;> (try split at hs) <;> simp at hs <;> subst hs <;> simp only [loopHead] <;> (repeat' split) <;> simp_all [allWait_iff] <;> grind

theorem blockVals_stepC (c : Cfg) (hn : 0 < c.n) (s s' : State) (h : Inv c s) (hs : stepC c s = some s') :
    inBlock s'.cpc = true → ∀ j, j < c.active s'.blk → s'.aidx j = s'.blk * c.n + j ∧ (s'.st j = .run ∨ s'.val j = some (s'.blk * c.n + j)) := by
  have h_blockVals := h.blockVals
  unfold stepC at hs
  split at hs <;> (try split at hs) <;> simp at hs <;> subst hs <;> simp only [loopHead] <;> (repeat' split) <;> simp_all [allWait_iff] <;> grind

theorem unlockBAll_stepC (c : Cfg) (hn : 0 < c.n) (s s' : State) (h : Inv c s) (hs : stepC c s = some s') :
    s'.cpc = .unlockB → ∀ j, j < c.active s'.blk → s'.st j = .wait := by
  have h_unlockBAll := h.unlockBAll
  unfold stepC at hs
  split at hs <;> (try split at hs) <;> simp at hs <;> subst hs <;> simp only [loopHead] <;> (repeat' split) <;> simp_all [allWait_iff] <;> grind

theorem accCreate_stepC (c : Cfg) (hn : 0 < c.n) (s s' : State) (h : Inv c s) (hs : stepC c s = some s') :
    isCreate s'.cpc = true → s'.base = none ∧ s'.chosen = none ∧ s'.blk = 0 := by
  have h_accCreate := h.accCreate
  unfold stepC at hs
  split at hs <;> (try split at hs) <;> simp at hs <;> subst hs <;> simp only [loopHead] <;> (repeat' split) <;> simp_all [allWait_iff] <;> grind

theorem own0_stepW (c : Cfg) (s s' : State) (w0 : Nat) (hw0 : w0 < c.n) (h : Inv c s) (hs : stepW s w0 = some s') :
    s'.owner = some 0 ↔ cHolds s'.cpc = true := by
  have h_own0 := h.own0
  have h_ownW := h.ownW
  unfold stepW at hs
  split at hs <;> (try split at hs) <;> simp at hs <;> subst hs <;> dsimp only <;> (try simp only [cHolds_wakeC, inBlock_wakeC, termPhase_wakeC, isCreate_wakeC, isBcast_wakeC, wakeC_create, wakeC_join, wakeC_unlockB, wakeC_condWait, wakeC_lockA, wakeC_lockT]) <;> simp_all <;> grind

theorem ownW_stepW (c : Cfg) (s s' : State) (w0 : Nat) (hw0 : w0 < c.n) (h : Inv c s) (hs : stepW s w0 = some s') :
    ∀ w, s'.owner = some (w+1) ↔ wHolds (s'.wpc w) = true := by
  have h_own0 := h.own0
  have h_ownW := h.ownW
  unfold stepW at hs
  split at hs <;> (try split at hs) <;> simp at hs <;> subst hs <;> dsimp only <;> (try simp only [cHolds_wakeC, inBlock_wakeC, termPhase_wakeC, isCreate_wakeC, isBcast_wakeC, wakeC_create, wakeC_join, wakeC_unlockB, wakeC_condWait, wakeC_lockA, wakeC_lockT]) <;> simp_all <;> grind

theorem idleOut_stepW (c : Cfg) (s s' : State) (w0 : Nat) (hw0 : w0 < c.n) (h : Inv c s) (hs : stepW s w0 = some s') :
    ∀ w, c.n ≤ w → s'.wpc w = .idle := by
  have h_idleOut := h.idleOut
  unfold stepW at hs
  split at hs <;> (try split at hs) <;> simp at hs <;> subst hs <;> dsimp only <;> (try simp only [cHolds_wakeC, inBlock_wakeC, termPhase_wakeC, isCreate_wakeC, isBcast_wakeC, wakeC_create, wakeC_join, wakeC_unlockB, wakeC_condWait, wakeC_lockA, wakeC_lockT]) <;> simp_all <;> grind

theorem created_stepW (c : Cfg) (s s' : State) (w0 : Nat) (hw0 : w0 < c.n) (h : Inv c s) (hs : stepW s w0 = some s') :
    ∀ k, s'.cpc = .create k → k < c.n ∧ (∀ w, w < k → s'.wpc w ≠ .idle) ∧ (∀ w, k ≤ w → s'.wpc w = .idle) := by
  have h_created := h.created
  unfold stepW at hs
  split at hs <;> (try split at hs) <;> simp at hs <;> subst hs <;> dsimp only <;> (try simp only [cHolds_wakeC, inBlock_wakeC, termPhase_wakeC, isCreate_wakeC, isBcast_wakeC, wakeC_create, wakeC_join, wakeC_unlockB, wakeC_condWait, wakeC_lockA, wakeC_lockT]) <;> simp_all <;> grind

theorem createdAll_stepW (c : Cfg) (s s' : State) (w0 : Nat) (hw0 : w0 < c.n) (h : Inv c s) (hs : stepW s w0 = some s') :
    isCreate s'.cpc = false → ∀ w, w < c.n → s'.wpc w ≠ .idle := by
  have h_createdAll := h.createdAll
  unfold stepW at hs
  split at hs <;> (try split at hs) <;> simp at hs <;> subst hs <;> dsimp only <;> (try simp only [cHolds_wakeC, inBlock_wakeC, termPhase_wakeC, isCreate_wakeC, isBcast_wakeC, wakeC_create, wakeC_join, wakeC_unlockB, wakeC_condWait, wakeC_lockA, wakeC_lockT]) <;> simp_all <;> grind

theorem joinLt_stepW (c : Cfg) (s s' : State) (w0 : Nat) (hw0 : w0 < c.n) (h : Inv c s) (hs : stepW s w0 = some s') :
    ∀ k, s'.cpc = .join k → k < c.n := by
  have h_joinLt := h.joinLt
  unfold stepW at hs
  split at hs <;> (try split at hs) <;> simp at hs <;> subst hs <;> dsimp only <;> (try simp only [cHolds_wakeC, inBlock_wakeC, termPhase_wakeC, isCreate_wakeC, isBcast_wakeC, wakeC_create, wakeC_join, wakeC_unlockB, wakeC_condWait, wakeC_lockA, wakeC_lockT]) <;> simp_all <;> grind

theorem waitSt_stepW (c : Cfg) (s s' : State) (w0 : Nat) (hw0 : w0 < c.n) (h : Inv c s) (hs : stepW s w0 = some s') :
    ∀ w, s'.wpc w = .waiting → s'.st w = .wait ∨ isBcast s'.cpc = true := by
  have h_waitSt := h.waitSt
  have h_own0 := h.own0
  have h_ownW := h.ownW
  unfold stepW at hs
  split at hs <;> (try split at hs) <;> simp at hs <;> subst hs <;> dsimp only <;> (try simp only [cHolds_wakeC, inBlock_wakeC, termPhase_wakeC, isCreate_wakeC, isBcast_wakeC, wakeC_create, wakeC_join, wakeC_unlockB, wakeC_condWait, wakeC_lockA, wakeC_lockT]) <;> simp_all <;> grind

theorem noTerm_stepW (c : Cfg) (s s' : State) (w0 : Nat) (hw0 : w0 < c.n) (h : Inv c s) (hs : stepW s w0 = some s') :
    termPhase s'.cpc = false → ∀ w, s'.st w ≠ .term := by
  have h_noTerm := h.noTerm
  unfold stepW at hs
  split at hs <;> (try split at hs) <;> simp at hs <;> subst hs <;> dsimp only <;> (try simp only [cHolds_wakeC, inBlock_wakeC, termPhase_wakeC, isCreate_wakeC, isBcast_wakeC, wakeC_create, wakeC_join, wakeC_unlockB, wakeC_condWait, wakeC_lockA, wakeC_lockT]) <;> simp_all <;> grind

theorem allTerm_stepW (c : Cfg) (s s' : State) (w0 : Nat) (hw0 : w0 < c.n) (h : Inv c s) (hs : stepW s w0 = some s') :
    termPhase s'.cpc = true → ∀ w, w < c.n → s'.st w = .term := by
  have h_allTerm := h.allTerm
  have h_termPcs := h.termPcs
  unfold stepW at hs
  split at hs <;> (try split at hs) <;> simp at hs <;> subst hs <;> dsimp only <;> (try simp only [cHolds_wakeC, inBlock_wakeC, termPhase_wakeC, isCreate_wakeC, isBcast_wakeC, wakeC_create, wakeC_join, wakeC_unlockB, wakeC_condWait, wakeC_lockA, wakeC_lockT]) <;> simp_all <;> grind

theorem termPcs_stepW (c : Cfg) (s s' : State) (w0 : Nat) (hw0 : w0 < c.n) (h : Inv c s) (hs : stepW s w0 = some s') :
    termPhase s'.cpc = true → ∀ w, s'.wpc w ≠ .lock2 ∧ s'.wpc w ≠ .bcast ∧ s'.wpc w ≠ .unlock2 := by
  have h_termPcs := h.termPcs
  have h_allTerm := h.allTerm
  have h_idleOut := h.idleOut
  unfold stepW at hs
  split at hs <;> (try split at hs) <;> simp at hs <;> subst hs <;> dsimp only <;> (try simp only [cHolds_wakeC, inBlock_wakeC, termPhase_wakeC, isCreate_wakeC, isBcast_wakeC, wakeC_create, wakeC_join, wakeC_unlockB, wakeC_condWait, wakeC_lockA, wakeC_lockT]) <;> simp_all <;> grind

theorem exitTerm_stepW (c : Cfg) (s s' : State) (w0 : Nat) (hw0 : w0 < c.n) (h : Inv c s) (hs : stepW s w0 = some s') :
    ∀ w, (s'.wpc w = .exit ∨ s'.wpc w = .done) → termPhase s'.cpc = true := by
  have h_exitTerm := h.exitTerm
  have h_noTerm := h.noTerm
  unfold stepW at hs
  split at hs <;> (try split at hs) <;> simp at hs <;> subst hs <;> dsimp only <;> (try simp only [cHolds_wakeC, inBlock_wakeC, termPhase_wakeC, isCreate_wakeC, isBcast_wakeC, wakeC_create, wakeC_join, wakeC_unlockB, wakeC_condWait, wakeC_lockA, wakeC_lockT]) <;> simp_all <;> grind

theorem runBlock_stepW (c : Cfg) (s s' : State) (w0 : Nat) (hw0 : w0 < c.n) (h : Inv c s) (hs : stepW s w0 = some s') :
    ∀ w, s'.st w = .run → inBlock s'.cpc = true ∧ w < c.active s'.blk := by
  have h_runBlock := h.runBlock
  unfold stepW at hs
  split at hs <;> (try split at hs) <;> simp at hs <;> subst hs <;> dsimp only <;> (try simp only [cHolds_wakeC, inBlock_wakeC, termPhase_wakeC, isCreate_wakeC, isBcast_wakeC, wakeC_create, wakeC_join, wakeC_unlockB, wakeC_condWait, wakeC_lockA, wakeC_lockT]) <;> simp_all <;> grind

theorem lock2Run_stepW (c : Cfg) (s s' : State) (w0 : Nat) (hw0 : w0 < c.n) (h : Inv c s) (hs : stepW s w0 = some s') :
    ∀ w, s'.wpc w = .lock2 → s'.st w = .run := by
  have h_lock2Run := h.lock2Run
  unfold stepW at hs
  split at hs <;> (try split at hs) <;> simp at hs <;> subst hs <;> dsimp only <;> (try simp only [cHolds_wakeC, inBlock_wakeC, termPhase_wakeC, isCreate_wakeC, isBcast_wakeC, wakeC_create, wakeC_join, wakeC_unlockB, wakeC_condWait, wakeC_lockA, wakeC_lockT]) <;> simp_all <;> grind

theorem blockVals_stepW (c : Cfg) (s s' : State) (w0 : Nat) (hw0 : w0 < c.n) (h : Inv c s) (hs : stepW s w0 = some s') :
    inBlock s'.cpc = true → ∀ j, j < c.active s'.blk → s'.aidx j = s'.blk * c.n + j ∧ (s'.st j = .run ∨ s'.val j = some (s'.blk * c.n + j)) := by
  have h_blockVals := h.blockVals
  have h_lock2Run := h.lock2Run
  have h_runBlock := h.runBlock
  unfold stepW at hs
  split at hs <;> (try split at hs) <;> simp at hs <;> subst hs <;> dsimp only <;> (try simp only [cHolds_wakeC, inBlock_wakeC, termPhase_wakeC, isCreate_wakeC, isBcast_wakeC, wakeC_create, wakeC_join, wakeC_unlockB, wakeC_condWait, wakeC_lockA, wakeC_lockT]) <;> simp_all <;> grind

theorem unlockBAll_stepW (c : Cfg) (s s' : State) (w0 : Nat) (hw0 : w0 < c.n) (h : Inv c s) (hs : stepW s w0 = some s') :
    s'.cpc = .unlockB → ∀ j, j < c.active s'.blk → s'.st j = .wait := by
  have h_unlockBAll := h.unlockBAll
  have h_own0 := h.own0
  have h_ownW := h.ownW
  unfold stepW at hs
  split at hs <;> (try split at hs) <;> simp at hs <;> subst hs <;> dsimp only <;> (try simp only [cHolds_wakeC, inBlock_wakeC, termPhase_wakeC, isCreate_wakeC, isBcast_wakeC, wakeC_create, wakeC_join, wakeC_unlockB, wakeC_condWait, wakeC_lockA, wakeC_lockT]) <;> simp_all <;> grind

theorem accCreate_stepW (c : Cfg) (s s' : State) (w0 : Nat) (hw0 : w0 < c.n) (h : Inv c s) (hs : stepW s w0 = some s') :
    isCreate s'.cpc = true → s'.base = none ∧ s'.chosen = none ∧ s'.blk = 0 := by
  have h_accCreate := h.accCreate
  unfold stepW at hs
  split at hs <;> (try split at hs) <;> simp at hs <;> subst hs <;> dsimp only <;> (try simp only [cHolds_wakeC, inBlock_wakeC, termPhase_wakeC, isCreate_wakeC, isBcast_wakeC, wakeC_create, wakeC_join, wakeC_unlockB, wakeC_condWait, wakeC_lockA, wakeC_lockT]) <;> simp_all <;> grind

theorem condRun_stepW (c : Cfg) (s s' : State) (w0 : Nat) (hw0 : w0 < c.n) (h : Inv c s) (hs : stepW s w0 = some s') :
    c.repaired = true → s'.cpc = .condWait → ∃ j, j < c.active s'.blk ∧ s'.st j = .run := by
  have h_condRun := h.condRun
  have h_own0 := h.own0
  have h_ownW := h.ownW
  unfold stepW at hs
  split at hs <;> (try split at hs) <;> simp at hs <;> subst hs <;> dsimp only <;> (try simp only [cHolds_wakeC, inBlock_wakeC, termPhase_wakeC, isCreate_wakeC, isBcast_wakeC, wakeC_create, wakeC_join, wakeC_unlockB, wakeC_condWait, wakeC_lockA, wakeC_lockT]) <;> simp_all <;> grind

theorem waitRun_stepW (c : Cfg) (s s' : State) (w0 : Nat) (hw0 : w0 < c.n) (h : Inv c s) (hs : stepW s w0 = some s') :
    c.repaired = true → s'.cpc = .waiting → (∃ j, j < c.active s'.blk ∧ s'.st j = .run) ∨ (∃ w, s'.wpc w = .bcast) := by
  have h_waitRun := h.waitRun
  unfold stepW at hs
  split at hs <;> (try split at hs) <;> simp at hs <;> subst hs <;> dsimp only <;> (try simp only [cHolds_wakeC, inBlock_wakeC, termPhase_wakeC, isCreate_wakeC, isBcast_wakeC, wakeC_create, wakeC_join, wakeC_unlockB, wakeC_condWait, wakeC_lockA, wakeC_lockT]) <;> simp_all <;> grind

theorem accLoop_stepW (c : Cfg) (s s' : State) (w0 : Nat) (hw0 : w0 < c.n) (h : Inv c s) (hs : stepW s w0 = some s') :
    (s'.cpc = .lockA ∨ inBlock s'.cpc = true) → (s'.base, s'.chosen) = flat c.less c.m (s'.blk * c.n) ∧ s'.chosen = none ∧ s'.blk * c.n < c.m := by
  have h_accLoop := h.accLoop
  unfold stepW at hs
  split at hs <;> (try split at hs) <;> simp at hs <;> subst hs <;> dsimp only <;> (try simp only [cHolds_wakeC, inBlock_wakeC, termPhase_wakeC, isCreate_wakeC, isBcast_wakeC, wakeC_create, wakeC_join, wakeC_unlockB, wakeC_condWait, wakeC_lockA, wakeC_lockT]) <;> simp_all <;> grind

theorem accDone_stepW (c : Cfg) (s s' : State) (w0 : Nat) (hw0 : w0 < c.n) (h : Inv c s) (hs : stepW s w0 = some s') :
    (s'.cpc = .lockT ∨ termPhase s'.cpc = true) → (s'.base, s'.chosen) = flat c.less c.m c.m := by
  have h_accDone := h.accDone
  unfold stepW at hs
  split at hs <;> (try split at hs) <;> simp at hs <;> subst hs <;> dsimp only <;> (try simp only [cHolds_wakeC, inBlock_wakeC, termPhase_wakeC, isCreate_wakeC, isBcast_wakeC, wakeC_create, wakeC_join, wakeC_unlockB, wakeC_condWait, wakeC_lockA, wakeC_lockT]) <;> simp_all <;> grind


theorem wst_run_of (x : WSt) (h1 : ¬ x = .wait) (h2 : ¬ x = .term) : x = .run := by
  cases x <;> simp_all

theorem condRun_stepC (c : Cfg) (s s' : State) (h : Inv c s) (hs : stepC c s = some s') :
    c.repaired = true → s'.cpc = .condWait → ∃ j, j < c.active s'.blk ∧ s'.st j = .run := by
  have h_noTerm := h.noTerm
  intro hr
  unfold stepC at hs
  split at hs <;> (try split at hs) <;> simp at hs <;> subst hs <;> simp only [loopHead] <;> (repeat' split) <;>
    simp_all [allWait_iff]
  all_goals
    rename_i hex
    obtain ⟨j, hj1, hj2⟩ := hex
    exact ⟨j, hj1, wst_run_of _ hj2 (h_noTerm j)⟩

theorem waitRun_stepC (c : Cfg) (s s' : State) (h : Inv c s) (hs : stepC c s = some s') :
    c.repaired = true → s'.cpc = .waiting →
      (∃ j, j < c.active s'.blk ∧ s'.st j = .run) ∨ (∃ w, s'.wpc w = .bcast) := by
  have h_condRun := h.condRun
  intro hr
  unfold stepC at hs
  split at hs <;> (try split at hs) <;> simp at hs <;> subst hs <;> simp only [loopHead] <;> (repeat' split) <;>
    simp_all [allWait_iff]

theorem flat_zero (less : Nat → Nat → Bool) (m : Nat) : flat less m 0 = (none, none) := rfl

theorem accLoop_stepC (c : Cfg) (hn : 0 < c.n) (s s' : State) (h : Inv c s) (hs : stepC c s = some s') :
    (s'.cpc = .lockA ∨ inBlock s'.cpc = true) →
      (s'.base, s'.chosen) = flat c.less c.m (s'.blk * c.n) ∧ s'.chosen = none ∧ s'.blk * c.n < c.m := by
  have h_accLoop := h.accLoop
  have h_accCreate := h.accCreate
  have h_vals := h.blockVals
  have h_all := h.unlockBAll
  have hb := lt_blocks_iff c hn
  unfold stepC at hs
  split at hs <;> (try split at hs) <;> simp at hs <;> subst hs <;> simp only [loopHead] <;> (repeat' split) <;>
    simp_all [allWait_iff, flat_zero]
  all_goals (try (obtain ⟨h1, h2, h3⟩ := h_accLoop; rw [h2] at h1; exact h1))
  obtain ⟨h1, h2, h3⟩ := h_accLoop
  rename_i hh
  obtain ⟨hlt, hnone⟩ := hh
  rw [h2] at h1
  have hact : c.active s.blk = c.n := by
    unfold Cfg.active; rw [Nat.succ_mul] at hlt; omega
  have hsc := scan_flat c s.val s.blk (fun j hj => (h_vals j hj).2)
  rw [← h1, hact] at hsc
  rw [Nat.succ_mul, ← hsc]
  exact Prod.ext rfl hnone.symm

theorem accDone_stepC (c : Cfg) (hn : 0 < c.n) (s s' : State) (h : Inv c s) (hs : stepC c s = some s') :
    (s'.cpc = .lockT ∨ termPhase s'.cpc = true) → (s'.base, s'.chosen) = flat c.less c.m c.m := by
  have h_accLoop := h.accLoop
  have h_accDone := h.accDone
  have h_accCreate := h.accCreate
  have h_vals := h.blockVals
  have h_all := h.unlockBAll
  have hb := lt_blocks_iff c hn
  unfold stepC at hs
  split at hs <;> (try split at hs) <;> simp at hs <;> subst hs <;> simp only [loopHead] <;> (repeat' split) <;>
    simp_all [allWait_iff, flat_zero]
  obtain ⟨h1, h2, h3⟩ := h_accLoop
  rename_i hh
  rw [h2] at h1
  have hsc := scan_flat c s.val s.blk (fun j hj => (h_vals j hj).2)
  rw [← h1] at hsc
  show scan c s.val s.blk (s.base, none) = _
  by_cases hlt : (s.blk + 1) * c.n < c.m
  · have hsome := hh hlt
    rw [hsc] at hsome ⊢
    have hle : s.blk * c.n + c.active s.blk ≤ c.m := by unfold Cfg.active; omega
    have hst := flat_stable c.less c.m (s.blk * c.n + c.active s.blk)
      (by cases hx : (flat c.less c.m (s.blk * c.n + c.active s.blk)).2 <;> simp_all)
      (c.m - (s.blk * c.n + c.active s.blk))
    rw [Nat.add_sub_cancel' hle] at hst
    exact hst.symm
  · rw [hsc]
    have : s.blk * c.n + c.active s.blk = c.m := by
      unfold Cfg.active; rw [Nat.succ_mul] at hlt; omega
    rw [this]
theorem own0_spur (c : Cfg) (s s' : State) (t : Nat) (h : Inv c s) (hs : spur? c s t = some s') :
    s'.owner = some 0 ↔ cHolds s'.cpc = true := by
  have h_own0 := h.own0
  unfold spur? at hs
  split at hs <;> split at hs <;> simp at hs <;> subst hs <;> simp_all <;> grind

theorem ownW_spur (c : Cfg) (s s' : State) (t : Nat) (h : Inv c s) (hs : spur? c s t = some s') :
    ∀ w, s'.owner = some (w+1) ↔ wHolds (s'.wpc w) = true := by
  have h_ownW := h.ownW
  unfold spur? at hs
  split at hs <;> split at hs <;> simp at hs <;> subst hs <;> simp_all <;> grind

theorem idleOut_spur (c : Cfg) (s s' : State) (t : Nat) (h : Inv c s) (hs : spur? c s t = some s') :
    ∀ w, c.n ≤ w → s'.wpc w = .idle := by
  have h_idleOut := h.idleOut
  unfold spur? at hs
  split at hs <;> split at hs <;> simp at hs <;> subst hs <;> simp_all <;> grind

theorem created_spur (c : Cfg) (s s' : State) (t : Nat) (h : Inv c s) (hs : spur? c s t = some s') :
    ∀ k, s'.cpc = .create k → k < c.n ∧ (∀ w, w < k → s'.wpc w ≠ .idle) ∧ (∀ w, k ≤ w → s'.wpc w = .idle) := by
  have h_created := h.created
  unfold spur? at hs
  split at hs <;> split at hs <;> simp at hs <;> subst hs <;> simp_all <;> grind

theorem createdAll_spur (c : Cfg) (s s' : State) (t : Nat) (h : Inv c s) (hs : spur? c s t = some s') :
    isCreate s'.cpc = false → ∀ w, w < c.n → s'.wpc w ≠ .idle := by
  have h_createdAll := h.createdAll
  unfold spur? at hs
  split at hs <;> split at hs <;> simp at hs <;> subst hs <;> simp_all <;> grind

theorem joinLt_spur (c : Cfg) (s s' : State) (t : Nat) (h : Inv c s) (hs : spur? c s t = some s') :
    ∀ k, s'.cpc = .join k → k < c.n := by
  have h_joinLt := h.joinLt
  unfold spur? at hs
  split at hs <;> split at hs <;> simp at hs <;> subst hs <;> simp_all <;> grind

theorem waitSt_spur (c : Cfg) (s s' : State) (t : Nat) (h : Inv c s) (hs : spur? c s t = some s') :
    ∀ w, s'.wpc w = .waiting → s'.st w = .wait ∨ isBcast s'.cpc = true := by
  have h_waitSt := h.waitSt
  unfold spur? at hs
  split at hs <;> split at hs <;> simp at hs <;> subst hs <;> simp_all <;> grind

theorem noTerm_spur (c : Cfg) (s s' : State) (t : Nat) (h : Inv c s) (hs : spur? c s t = some s') :
    termPhase s'.cpc = false → ∀ w, s'.st w ≠ .term := by
  have h_noTerm := h.noTerm
  unfold spur? at hs
  split at hs <;> split at hs <;> simp at hs <;> subst hs <;> simp_all <;> grind

theorem allTerm_spur (c : Cfg) (s s' : State) (t : Nat) (h : Inv c s) (hs : spur? c s t = some s') :
    termPhase s'.cpc = true → ∀ w, w < c.n → s'.st w = .term := by
  have h_allTerm := h.allTerm
  unfold spur? at hs
  split at hs <;> split at hs <;> simp at hs <;> subst hs <;> simp_all <;> grind

theorem termPcs_spur (c : Cfg) (s s' : State) (t : Nat) (h : Inv c s) (hs : spur? c s t = some s') :
    termPhase s'.cpc = true → ∀ w, s'.wpc w ≠ .lock2 ∧ s'.wpc w ≠ .bcast ∧ s'.wpc w ≠ .unlock2 := by
  have h_termPcs := h.termPcs
  unfold spur? at hs
  split at hs <;> split at hs <;> simp at hs <;> subst hs <;> simp_all <;> grind

theorem exitTerm_spur (c : Cfg) (s s' : State) (t : Nat) (h : Inv c s) (hs : spur? c s t = some s') :
    ∀ w, (s'.wpc w = .exit ∨ s'.wpc w = .done) → termPhase s'.cpc = true := by
  have h_exitTerm := h.exitTerm
  unfold spur? at hs
  split at hs <;> split at hs <;> simp at hs <;> subst hs <;> simp_all <;> grind

theorem runBlock_spur (c : Cfg) (s s' : State) (t : Nat) (h : Inv c s) (hs : spur? c s t = some s') :
    ∀ w, s'.st w = .run → inBlock s'.cpc = true ∧ w < c.active s'.blk := by
  have h_runBlock := h.runBlock
  unfold spur? at hs
  split at hs <;> split at hs <;> simp at hs <;> subst hs <;> simp_all <;> grind

theorem lock2Run_spur (c : Cfg) (s s' : State) (t : Nat) (h : Inv c s) (hs : spur? c s t = some s') :
    ∀ w, s'.wpc w = .lock2 → s'.st w = .run := by
  have h_lock2Run := h.lock2Run
  unfold spur? at hs
  split at hs <;> split at hs <;> simp at hs <;> subst hs <;> simp_all <;> grind

theorem blockVals_spur (c : Cfg) (s s' : State) (t : Nat) (h : Inv c s) (hs : spur? c s t = some s') :
    inBlock s'.cpc = true → ∀ j, j < c.active s'.blk → s'.aidx j = s'.blk * c.n + j ∧ (s'.st j = .run ∨ s'.val j = some (s'.blk * c.n + j)) := by
  have h_blockVals := h.blockVals
  unfold spur? at hs
  split at hs <;> split at hs <;> simp at hs <;> subst hs <;> simp_all <;> grind

theorem unlockBAll_spur (c : Cfg) (s s' : State) (t : Nat) (h : Inv c s) (hs : spur? c s t = some s') :
    s'.cpc = .unlockB → ∀ j, j < c.active s'.blk → s'.st j = .wait := by
  have h_unlockBAll := h.unlockBAll
  unfold spur? at hs
  split at hs <;> split at hs <;> simp at hs <;> subst hs <;> simp_all <;> grind

theorem condRun_spur (c : Cfg) (s s' : State) (t : Nat) (h : Inv c s) (hs : spur? c s t = some s') :
    c.repaired = true → s'.cpc = .condWait → ∃ j, j < c.active s'.blk ∧ s'.st j = .run := by
  have h_condRun := h.condRun
  unfold spur? at hs
  split at hs <;> split at hs <;> simp at hs <;> subst hs <;> simp_all <;> grind

theorem waitRun_spur (c : Cfg) (s s' : State) (t : Nat) (h : Inv c s) (hs : spur? c s t = some s') :
    c.repaired = true → s'.cpc = .waiting → (∃ j, j < c.active s'.blk ∧ s'.st j = .run) ∨ (∃ w, s'.wpc w = .bcast) := by
  have h_waitRun := h.waitRun
  unfold spur? at hs
  split at hs <;> split at hs <;> simp at hs <;> subst hs <;> simp_all <;> grind

theorem accCreate_spur (c : Cfg) (s s' : State) (t : Nat) (h : Inv c s) (hs : spur? c s t = some s') :
    isCreate s'.cpc = true → s'.base = none ∧ s'.chosen = none ∧ s'.blk = 0 := by
  have h_accCreate := h.accCreate
  unfold spur? at hs
  split at hs <;> split at hs <;> simp at hs <;> subst hs <;> simp_all <;> grind

theorem accLoop_spur (c : Cfg) (s s' : State) (t : Nat) (h : Inv c s) (hs : spur? c s t = some s') :
    (s'.cpc = .lockA ∨ inBlock s'.cpc = true) → (s'.base, s'.chosen) = flat c.less c.m (s'.blk * c.n) ∧ s'.chosen = none ∧ s'.blk * c.n < c.m := by
  have h_accLoop := h.accLoop
  unfold spur? at hs
  split at hs <;> split at hs <;> simp at hs <;> subst hs <;> simp_all <;> grind

theorem accDone_spur (c : Cfg) (s s' : State) (t : Nat) (h : Inv c s) (hs : spur? c s t = some s') :
    (s'.cpc = .lockT ∨ termPhase s'.cpc = true) → (s'.base, s'.chosen) = flat c.less c.m c.m := by
  have h_accDone := h.accDone
  unfold spur? at hs
  split at hs <;> split at hs <;> simp at hs <;> subst hs <;> simp_all <;> grind

theorem inv_init (c : Cfg) (hn : 0 < c.n) : Inv c (init c) := by
  constructor <;> simp [init, cHolds, wHolds, inBlock, termPhase, isCreate, isBcast, hn]

theorem inv_stepC (c : Cfg) (hn : 0 < c.n) (s s' : State) (h : Inv c s) (hs : stepC c s = some s') : Inv c s' :=
  ⟨own0_stepC c hn s s' h hs, ownW_stepC c hn s s' h hs, idleOut_stepC c hn s s' h hs, created_stepC c hn s s' h hs, createdAll_stepC c hn s s' h hs, joinLt_stepC c hn s s' h hs, waitSt_stepC c hn s s' h hs, noTerm_stepC c hn s s' h hs, allTerm_stepC c hn s s' h hs, termPcs_stepC c hn s s' h hs, exitTerm_stepC c hn s s' h hs, runBlock_stepC c hn s s' h hs, lock2Run_stepC c hn s s' h hs, blockVals_stepC c hn s s' h hs, unlockBAll_stepC c hn s s' h hs, condRun_stepC c s s' h hs, waitRun_stepC c s s' h hs, accCreate_stepC c hn s s' h hs, accLoop_stepC c hn s s' h hs, accDone_stepC c hn s s' h hs⟩

theorem inv_stepW (c : Cfg) (s s' : State) (w : Nat) (hw : w < c.n) (h : Inv c s) (hs : stepW s w = some s') : Inv c s' :=
  ⟨own0_stepW c s s' w hw h hs, ownW_stepW c s s' w hw h hs, idleOut_stepW c s s' w hw h hs, created_stepW c s s' w hw h hs, createdAll_stepW c s s' w hw h hs, joinLt_stepW c s s' w hw h hs, waitSt_stepW c s s' w hw h hs, noTerm_stepW c s s' w hw h hs, allTerm_stepW c s s' w hw h hs, termPcs_stepW c s s' w hw h hs, exitTerm_stepW c s s' w hw h hs, runBlock_stepW c s s' w hw h hs, lock2Run_stepW c s s' w hw h hs, blockVals_stepW c s s' w hw h hs, unlockBAll_stepW c s s' w hw h hs, condRun_stepW c s s' w hw h hs, waitRun_stepW c s s' w hw h hs, accCreate_stepW c s s' w hw h hs, accLoop_stepW c s s' w hw h hs, accDone_stepW c s s' w hw h hs⟩

theorem inv_spur (c : Cfg) (s s' : State) (t : Nat) (h : Inv c s) (hs : spur? c s t = some s') : Inv c s' :=
  ⟨own0_spur c s s' t h hs, ownW_spur c s s' t h hs, idleOut_spur c s s' t h hs, created_spur c s s' t h hs, createdAll_spur c s s' t h hs, joinLt_spur c s s' t h hs, waitSt_spur c s s' t h hs, noTerm_spur c s s' t h hs, allTerm_spur c s s' t h hs, termPcs_spur c s s' t h hs, exitTerm_spur c s s' t h hs, runBlock_spur c s s' t h hs, lock2Run_spur c s s' t h hs, blockVals_spur c s s' t h hs, unlockBAll_spur c s s' t h hs, condRun_spur c s s' t h hs, waitRun_spur c s s' t h hs, accCreate_spur c s s' t h hs, accLoop_spur c s s' t h hs, accDone_spur c s s' t h hs⟩

theorem inv_step (c : Cfg) (hn : 0 < c.n) (s s' : State) (t : Nat) (h : Inv c s) (hs : step? c s t = some s') : Inv c s' := by
  cases t with
  | zero => exact inv_stepC c hn s s' h hs
  | succ w =>
    simp only [step?] at hs
    split at hs
    · exact inv_stepW c s s' w (by assumption) h hs
    · cases hs


/-! ## reachability and deadlock freedom -/
/-- states reachable from `init` by pthread-call transitions and spurious wake-ups -/
inductive Reach (c : Cfg) : State → Prop
  | init : Reach c (init c)
  | step {s s' : State} (t : Nat) : Reach c s → step? c s t = some s' → Reach c s'
  | spur {s s' : State} (t : Nat) : Reach c s → spur? c s t = some s' → Reach c s'

theorem reach_inv (c : Cfg) (hn : 0 < c.n) {s : State} (h : Reach c s) : Inv c s := by
  induction h with
  | init => exact inv_init c hn
  | step t _ hs ih => exact inv_step c hn _ _ t ih hs
  | spur t _ hs ih => exact inv_spur c _ _ t ih hs

def Enabled (c : Cfg) (s : State) : Prop := ∃ t, t ≤ c.n ∧ (step? c s t).isSome = true

theorem enabled_holder (c : Cfg) (s : State) (h : Inv c s) (ho : s.owner ≠ none) : Enabled c s := by
  cases hown : s.owner with
  | none => exact absurd hown ho
  | some t =>
    cases t with
    | zero =>
      have hc := h.own0.mp hown
      refine ⟨0, Nat.zero_le _, ?_⟩
      simp only [step?, stepC]
      cases hp : s.cpc <;> simp_all
    | succ w =>
      have hwh := (h.ownW w).mp hown
      have hw : w < c.n := by
        rcases Nat.lt_or_ge w c.n with h1 | h1
        · exact h1
        · have := h.idleOut w h1; simp_all
      refine ⟨w+1, by omega, ?_⟩
      simp only [step?, hw, if_true, stepW]
      cases hp : s.wpc w <;> simp_all
      cases s.st w <;> rfl

theorem enabled_worker_free (c : Cfg) (s : State) (w : Nat) (hw : w < c.n) (ho : s.owner = none)
    (hp : s.wpc w = .lock1 ∨ s.wpc w = .woken ∨ s.wpc w = .lock2 ∨ s.wpc w = .exit) : Enabled c s := by
  refine ⟨w+1, by omega, ?_⟩
  simp only [step?, hw, if_true, stepW]
  rcases hp with hp | hp | hp | hp <;> simp [hp, ho]

theorem enabled_of_inv (c : Cfg) (s : State) (h : Inv c s) (hr : c.repaired = true)
    (hf : s.cpc ≠ .final) : Enabled c s := by
  by_cases ho : s.owner = none
  case neg => exact enabled_holder c s h ho
  have hC : (stepC c s).isSome = true → Enabled c s := fun hh => ⟨0, Nat.zero_le _, hh⟩
  cases hp : s.cpc with
  | final => exact absurd hp hf
  | waiting =>
    rcases h.waitRun hr hp with ⟨j, hj, hrun⟩ | ⟨w, hw⟩
    · have hjn : j < c.n := Nat.lt_of_lt_of_le hj (active_le c _)
      have h1 := h.createdAll (by simp [hp]) j hjn
      have h2 := h.waitSt j
      have h3 := h.exitTerm j
      have h4 := (h.ownW j)
      apply enabled_worker_free c s j hjn ho
      cases hq : s.wpc j <;> simp_all
    · have := (h.ownW w).mpr (by simp [hw]); simp_all
  | join k =>
    have hk := h.joinLt k hp
    by_cases hd : s.wpc k = .done
    · apply hC; simp [stepC, hp, hd]
    · have h1 := h.createdAll (by simp [hp]) k hk
      have h2 := h.waitSt k
      have h3 := h.allTerm (by simp [hp]) k hk
      have h4 := (h.ownW k)
      have h5 := h.termPcs (by simp [hp]) k
      apply enabled_worker_free c s k hk ho
      cases hq : s.wpc k <;> simp_all
  | _ => apply hC; simp [stepC, hp, ho]



/-! ## ranking function -/
theorem sumTo_le_add (n : Nat) (f g : Nat → Nat) (d : Nat) (h : ∀ k, k < n → g k ≤ f k + d) :
    sumTo n g ≤ sumTo n f + n * d := by
  induction n with
  | zero => simp [sumTo]
  | succ n ih =>
    have h1 := ih (fun k hk => h k (Nat.lt_succ_of_lt hk))
    have h2 := h n (Nat.lt_succ_self n)
    simp only [sumTo, Nat.succ_mul]
    omega

theorem sumTo_upd_bound (n : Nat) (f g : Nat → Nat) (w d e : Nat) (hw : w < n)
    (h : ∀ k, k < n → k ≠ w → g k ≤ f k + d) (hwe : g w + e ≤ f w) :
    sumTo n g + e ≤ sumTo n f + n * d := by
  induction n with
  | zero => omega
  | succ n ih =>
    simp only [sumTo, Nat.succ_mul]
    rcases Nat.lt_or_ge w n with h1 | h1
    · have := ih h1 (fun k hk hne => h k (Nat.lt_succ_of_lt hk) hne)
      have h2 := h n (Nat.lt_succ_self n) (by omega)
      omega
    · have hwn : w = n := by omega
      subst hwn
      have := sumTo_le_add w f g d (fun k hk => h k (Nat.lt_succ_of_lt hk) (by omega))
      omega

theorem lw_wake (n : Nat) (p : WPc) (st : WSt) : lw n (if p = .waiting then .woken else p) st ≤ lw n p st + 2 := by
  cases p <;> cases st <;> simp [lw] <;> omega
theorem lw_run (n : Nat) (p : WPc) (st : WSt) : lw n p .run ≤ lw n p st + G n := by
  cases p <;> cases st <;> simp [lw, G, BW] <;> omega
theorem lw_term (n : Nat) (p : WPc) (st : WSt) : lw n p .term ≤ lw n p st + 4 := by
  cases p <;> cases st <;> simp [lw, G, BW] <;> omega
theorem lw_lock1 (n : Nat) (st : WSt) : lw n .lock1 st + 1 ≤ G n := by
  cases st <;> simp [lw, G, BW] <;> omega
theorem lw_idle (n : Nat) (st : WSt) : lw n .idle st = 0 := by
  cases st <;> rfl

theorem rank_lt_of_worker (c : Cfg) (s s' : State) (w x d e : Nat) (hw : w < c.n)
    (hC : rankC c s'.cpc s'.blk ≤ rankC c s.cpc s.blk + x)
    (hother : ∀ k, k < c.n → k ≠ w → lw c.n (s'.wpc k) (s'.st k) ≤ lw c.n (s.wpc k) (s.st k) + d)
    (hself : lw c.n (s'.wpc w) (s'.st w) + e ≤ lw c.n (s.wpc w) (s.st w))
    (hnet : x + c.n * d < e) : rank c s' < rank c s := by
  have := sumTo_upd_bound c.n (fun k => lw c.n (s.wpc k) (s.st k)) (fun k => lw c.n (s'.wpc k) (s'.st k)) w d e hw
    hother hself
  simp only [rank]
  omega

theorem rankC_wakeC (c : Cfg) (p : CPc) (blk : Nat) : rankC c (wakeC p) blk ≤ rankC c p blk + 2 := by
  cases p <;> simp [wakeC, rankC] <;> omega

/-- worker steps decrease the rank -/
theorem rank_stepW (c : Cfg) (s s' : State) (w : Nat) (hw : w < c.n) (hs : stepW s w = some s') :
    rank c s' < rank c s := by
  unfold stepW at hs
  split at hs <;> (try split at hs) <;> simp at hs <;> subst hs
  case h_7 =>
    rename_i hp
    apply rank_lt_of_worker c _ _ w 2 2 (BW c.n + 1) hw
    · exact rankC_wakeC c _ _
    · intro k hk hne
      simp only [upd, hne, if_false]
      exact lw_wake c.n _ _
    · simp only [upd, if_true, hp]
      cases s.st w <;> simp [lw] <;> omega
    · simp [BW]; omega
  all_goals
    rename_i hp
    apply rank_lt_of_worker c _ _ w 0 0 1 hw
    · simp
    · intro k hk hne
      simp [upd, hne]
    · simp_all [upd, lw]
      all_goals (try omega)
      all_goals (try (cases s.st w <;> simp [lw] <;> omega))
    · omega


theorem sumTo_upd_incr (n : Nat) (f g : Nat → Nat) (w e : Nat)
    (h : ∀ k, k < n → k ≠ w → g k ≤ f k) (hwe : g w ≤ f w + e) :
    sumTo n g ≤ sumTo n f + e := by
  induction n with
  | zero => simp [sumTo]
  | succ n ih =>
    simp only [sumTo]
    have h0 := ih (fun k hk hne => h k (Nat.lt_succ_of_lt hk) hne)
    by_cases hwn : n = w
    · subst hwn
      have := sumTo_le_add n f g 0 (fun k hk => h k (Nat.lt_succ_of_lt hk) (by omega))
      omega
    · have := h n (Nat.lt_succ_self n) hwn
      omega

theorem rank_lt_of_coord (c : Cfg) (s s' : State) (d : Nat)
    (hsum : ∀ k, k < c.n → lw c.n (s'.wpc k) (s'.st k) ≤ lw c.n (s.wpc k) (s.st k) + d)
    (hC : rankC c s'.cpc s'.blk + c.n * d < rankC c s.cpc s.blk) : rank c s' < rank c s := by
  have := sumTo_le_add c.n (fun k => lw c.n (s.wpc k) (s.st k)) (fun k => lw c.n (s'.wpc k) (s'.st k)) d hsum
  simp only [rank]
  omega

theorem PB_mul_succ (n q : Nat) : PB n * (q + 1) = PB n * q + PB n := Nat.mul_succ _ _

theorem lw_wakeAll (n : Nat) (f : Nat → WPc) (k : Nat) (st : WSt) : lw n (wakeAll f k) st ≤ lw n (f k) st + 2 := by
  simp only [wakeAll]; exact lw_wake n _ _

/-- coordinator steps decrease the rank -/
theorem rank_stepC (c : Cfg) (s s' : State) (h : Inv c s) (hs : stepC c s = some s') :
    rank c s' < rank c s := by
  have hcr := h.accCreate
  have hG : 0 < G c.n := by simp [G]; omega
  cases hp : s.cpc with
  | create k =>
    simp only [stepC, hp] at hs; injection hs with hs; subst hs
    have hblk : s.blk = 0 := (hcr (by simp [hp, isCreate])).2.2
    have hsum := sumTo_upd_incr c.n (fun w => lw c.n (s.wpc w) (s.st w))
      (fun w => lw c.n (upd s.wpc k .lock1 w) (s.st w)) k (G c.n - 1)
      (fun w _ hne => by simp [upd, hne]) (by have := lw_lock1 c.n (s.st k); simp [upd]; omega)
    simp only [rank, hp]
    split
    · rename_i hk
      simp only [rankC]
      have : (c.n - k) * G c.n = (c.n - (k+1)) * G c.n + G c.n := by
        rw [← Nat.succ_mul]; congr 1; omega
      omega
    · simp only [loopHead]
      split
      · rename_i hb
        simp only [rankC, hblk]
        have hb' : 0 < c.blocks := by simp_all
        obtain ⟨q, hq⟩ : ∃ q, c.blocks = q + 1 := ⟨c.blocks - 1, by omega⟩
        rw [hq, PB_mul_succ]
        simp only [Nat.add_sub_cancel, Nat.sub_zero]
        omega
      · simp only [rankC]
        omega
  | lockA =>
    simp only [stepC, hp] at hs; split at hs
    · injection hs with hs; subst hs
      apply rank_lt_of_coord c _ _ (G c.n)
      · intro k hk; dsimp only; split
        · exact lw_run _ _ _
        · omega
      · simp only [hp, rankC, PB]; omega
    · cases hs
  | bcastA =>
    simp only [stepC, hp] at hs; injection hs with hs; subst hs
    apply rank_lt_of_coord c _ _ 2
    · intro k hk; exact lw_wakeAll _ _ _ _
    · simp only [hp, rankC]; omega
  | bcastT =>
    simp only [stepC, hp] at hs; injection hs with hs; subst hs
    apply rank_lt_of_coord c _ _ 2
    · intro k hk; exact lw_wakeAll _ _ _ _
    · simp only [hp, rankC]; omega
  | lockT =>
    simp only [stepC, hp] at hs; split at hs
    · injection hs with hs; subst hs
      apply rank_lt_of_coord c _ _ 4
      · intro k hk; dsimp only; simp only [hk, if_true]; exact lw_term _ _ _
      · simp only [hp, rankC, CT]; omega
    · cases hs
  | unlockB =>
    simp only [stepC, hp] at hs; injection hs with hs; subst hs
    apply rank_lt_of_coord c _ _ 0
    · intro k hk; simp
    · simp only [hp, loopHead]
      split
      · rename_i hb
        have hb' : s.blk + 1 < c.blocks := by simp_all
        simp only [rankC]
        obtain ⟨q, hq⟩ : ∃ q, c.blocks - s.blk - 1 = q + 1 := ⟨c.blocks - s.blk - 2, by omega⟩
        have hq' : c.blocks - (s.blk + 1) - 1 = q := by omega
        rw [hq, hq', PB_mul_succ]
        omega
      · simp only [rankC]; omega
  | final => simp [stepC, hp] at hs
  | waiting => simp [stepC, hp] at hs
  | unlockA =>
    simp only [stepC, hp] at hs; injection hs with hs; subst hs
    apply rank_lt_of_coord c _ _ 0 (fun k hk => by simp); simp only [hp, rankC]; omega
  | condWait =>
    simp only [stepC, hp] at hs; injection hs with hs; subst hs
    apply rank_lt_of_coord c _ _ 0 (fun k hk => by simp); simp only [hp, rankC]; omega
  | unlockT =>
    simp only [stepC, hp] at hs; injection hs with hs; subst hs
    apply rank_lt_of_coord c _ _ 0 (fun k hk => by simp); simp only [hp, rankC]; omega
  | lockB =>
    simp only [stepC, hp] at hs; split at hs
    · injection hs with hs; subst hs
      apply rank_lt_of_coord c _ _ 0 (fun k hk => by simp); simp only [hp]
      split <;> simp only [rankC] <;> omega
    · cases hs
  | woken =>
    simp only [stepC, hp] at hs; split at hs
    · injection hs with hs; subst hs
      apply rank_lt_of_coord c _ _ 0 (fun k hk => by simp); simp only [hp]
      split <;> simp only [rankC] <;> omega
    · cases hs
  | join k =>
    have hk := h.joinLt k hp
    simp only [stepC, hp] at hs; split at hs
    · injection hs with hs; subst hs
      apply rank_lt_of_coord c _ _ 0 (fun k hk => by simp); simp only [hp]
      split <;> simp only [rankC] <;> omega
    · cases hs


theorem rank_step (c : Cfg) (s s' : State) (t : Nat) (h : Inv c s) (hs : step? c s t = some s') :
    rank c s' < rank c s := by
  cases t with
  | zero => exact rank_stepC c s s' h hs
  | succ w =>
    simp only [step?] at hs
    split at hs
    · exact rank_stepW c s s' w (by assumption) hs
    · cases hs

theorem reach_runSched (c : Cfg) : ∀ (sched : List (Nat × Bool)) (s s' : State),
    Reach c s → runSched c s sched = some s' → Reach c s' := by
  intro sched
  induction sched with
  | nil => intro s s' h hs; simp [runSched] at hs; subst hs; exact h
  | cons a rest ih =>
    intro s s' h hs
    obtain ⟨t, sp⟩ := a
    simp only [runSched] at hs
    cases sp with
    | true =>
      simp only [if_true] at hs
      cases h1 : spur? c s t with
      | none => simp [h1] at hs
      | some s1 => simp only [h1] at hs; exact ih s1 s' (Reach.spur t h h1) hs
    | false =>
      simp only [Bool.false_eq_true, if_false] at hs
      cases h1 : step? c s t with
      | none => simp [h1] at hs
      | some s1 => simp only [h1] at hs; exact ih s1 s' (Reach.step t h h1) hs

theorem anyEnabled_iff (c : Cfg) (s : State) : anyEnabled c s = true ↔ Enabled c s := by
  simp only [anyEnabled, List.any_eq_true, List.mem_range, Enabled]
  constructor
  · rintro ⟨t, ht, h⟩; exact ⟨t, by omega, h⟩
  · rintro ⟨t, ht, h⟩; exact ⟨t, by omega, h⟩


/-! ## the sequential selection -/
/-- what the sequential scan has established after looking at trial indices `0..K-1` -/
def SelInv (less : Nat → Nat → Bool) (m K : Nat) (acc : Acc) : Prop :=
  (acc = (some 0, none) ∧ ∀ j, 1 ≤ j → j < K → less j 0 = false ∧ j ≠ m - 1) ∨
  (∃ k, 1 ≤ k ∧ k < K ∧ acc = (some 0, some (some k, less k 0)) ∧ (less k 0 = true ∨ k = m - 1) ∧
      ∀ j, 1 ≤ j → j < k → less j 0 = false)

theorem flat_selInv (less : Nat → Nat → Bool) (m : Nat) : ∀ K, 1 ≤ K → SelInv less m K (flat less m K) := by
  intro K hK
  induction K with
  | zero => omega
  | succ K ih =>
    rw [flat_succ]
    rcases Nat.eq_zero_or_pos K with h0 | hpos
    · subst h0
      left
      refine ⟨by simp [flat, selStep], ?_⟩
      intro j h1 h2; omega
    · rcases ih hpos with ⟨hacc, hall⟩ | ⟨k, hk1, hk2, hacc, hor, hall⟩
      · rw [hacc]
        have hK0 : K ≠ 0 := by omega
        by_cases hc : (less K 0 || K == m - 1) = true
        · right
          refine ⟨K, hpos, Nat.lt_succ_self K, ?_, ?_, ?_⟩
          · simp [selStep, hK0, hc]
          · simpa using hc
          · intro j h1 h2; exact (hall j h1 h2).1
        · left
          have hc' : less K 0 = false ∧ K ≠ m - 1 := by simpa using hc
          refine ⟨?_, ?_⟩
          · simp [selStep, hK0, hc'.1, hc'.2]
          · intro j h1 h2
            rcases Nat.lt_succ_iff_lt_or_eq.mp h2 with h3 | h3
            · exact hall j h1 h3
            · subst h3; exact hc'
      · right
        refine ⟨k, hk1, Nat.lt_succ_of_lt hk2, ?_, hor, hall⟩
        rw [hacc]; rfl

/-- what `selectSeq` chooses: the first index `k ≥ 1` whose residual is below that of index 0, or the last
    index `m-1` if there is none; `feasible` says which of the two happened. -/
theorem selectSeq_spec (less : Nat → Nat → Bool) (m : Nat) (hm : 2 ≤ m) :
    ∃ k, 1 ≤ k ∧ k < m ∧ selectSeq less m = (some 0, some (some k, less k 0)) ∧
      (less k 0 = true ∨ k = m - 1) ∧ ∀ j, 1 ≤ j → j < k → less j 0 = false ∧ j ≠ m - 1 := by
  rcases flat_selInv less m m (by omega) with ⟨_, hall⟩ | ⟨k, hk1, hk2, hacc, hor, hall⟩
  · exact absurd rfl (hall (m-1) (by omega) (by omega)).2
  · refine ⟨k, hk1, hk2, hacc, hor, fun j h1 h2 => ⟨hall j h1 h2, by omega⟩⟩


end PsV.Sync
