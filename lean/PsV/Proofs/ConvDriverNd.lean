import PsV.Proofs.ConvDriver
import PsV.Proofs.ConvNd
/-!
The exact comparison the C14 check performs on every generated case (`evalExact` of the table produced by the exact
model against `specConv`) holds for all inputs.
-/
namespace PsV
open PsV.Driver.C14

theorem convolve_dims_wf (T : CTable Rat) (dim : Nat) (ck : List Rat) (d : CDim Rat) (R : CTable Rat)
    (hd : T.dims[dim]? = some d) (hk : d.knots.length = d.nknots)
    (hwf : ∀ e ∈ T.dims, e.naxes = e.nknots - e.order - 1)
    (hR : convolve T dim ck = some R) :
    ∀ e' ∈ R.dims, e'.naxes = e'.nknots - e'.order - 1 := by
  obtain ⟨R2, hR2, hlen, ⟨d', hd', _, _, _, _, _, hna⟩, hother, _, _⟩ := convolve_shape T dim ck d hd hk
  have hRR : R2 = R := Option.some.inj (hR2.symm.trans hR)
  subst hRR
  intro e' he'
  obtain ⟨j, hj, hje⟩ := List.getElem_of_mem he'
  have hj' : R2.dims[j]? = some e' := by rw [List.getElem?_eq_getElem hj, hje]
  by_cases hjd : j = dim
  · subst hjd
    have : d' = e' := Option.some.inj (hd'.symm.trans hj')
    subst this
    exact hna
  · have hjT : j < T.dims.length := by omega
    have hTe : T.dims[j]? = some T.dims[j] := List.getElem?_eq_getElem hjT
    obtain ⟨e'', he'', ho, hn, hx, _⟩ := hother j T.dims[j] hjd hTe
    have : e'' = e' := Option.some.inj (he''.symm.trans hj')
    subst this
    rw [ho, hn, hx]
    exact hwf _ (List.getElem_mem hjT)

/-- the check's exact comparison, for all inputs -/
theorem evalExact_convolve (T : CTable Rat) (dim : Nat) (ck : List Rat) (d : CDim Rat) (xs : List Rat)
    (hd : T.dims[dim]? = some d)
    (hstr : ∀ j e, T.dims[j]? = some e → e.stride = ((T.dims.map (·.naxes)).drop (j+1)).prod)
    (hwf : ∀ e ∈ T.dims, e.naxes = e.nknots - e.order - 1)
    (hxs : xs.length = T.dims.length)
    (hk : d.knots.length = d.nknots) (hnax : d.naxes + d.order + 1 = d.nknots) (hn1 : 1 ≤ d.naxes)
    (hτ : d.knots.Pairwise (· < ·)) (hy : ck.Pairwise (· < ·)) (hq : 2 ≤ ck.length)
    (h12 : d.order + ck.length - 1 ≤ 12) :
    ∃ R d', convolve T dim ck = some R ∧ R.dims[dim]? = some d' ∧
      (getK d'.knots 0 ≤ xs.getD dim 0 → xs.getD dim 0 ≤ getK d'.knots (d'.nknots - 1) →
        evalExact R xs = ConvSpec.specConv T dim ck xs) := by
  obtain ⟨R, d', hR, hd', h⟩ := convolve_is_convolution T dim ck d xs hd hstr hxs hk hnax hn1 hτ hy hq h12
  refine ⟨R, d', hR, hd', fun h1 h2 => ?_⟩
  rw [evalExact_eq_evalTable R xs (convolve_dims_wf T dim ck d R hd hk hwf hR)]
  exact h h1 h2

end PsV
