import PsV.Proofs.ReadsCoef
/-! Assembly of the C05 memory-dependence theorem for `evalModes` (all of `ndsplineeval`,
`ndsplineeval_deriv`, `operator()` go through it). -/
namespace PsV
variable {α : Type} [A : Arith α]

/-- same shape, knots equal on the owned index range `[-order, nknots+order)` -/
def SameShape : List (Dim α) → List (Dim α) → Prop
  | [], [] => True
  | d :: ds, e :: es =>
    (e.order = d.order ∧ e.nknots = d.nknots ∧ e.naxes = d.naxes ∧ e.stride = d.stride ∧
      AgreeOn d.knots e.knots (-(d.order : Int)) ((d.nknots : Int) + d.order - 1)) ∧ SameShape ds es
  | _, _ => False

theorem rows_congr : ∀ (ds es : List (Dim α)) (xs : List α) (cs : List Nat) (ms : List BasisMode),
    SameShape ds es → CentersInRange ds cs → rows ds xs cs ms = rows es xs cs ms := by
  intro ds
  induction ds with
  | nil =>
    intro es xs cs ms h _
    cases es with
    | nil => rfl
    | cons _ _ => simp [SameShape] at h
  | cons d ds ih =>
    intro es xs cs ms h hc
    cases es with
    | nil => simp [SameShape] at h
    | cons e es =>
      obtain ⟨⟨h1, h2, h3, h4, h5⟩, hrest⟩ := h
      cases cs with
      | nil => simp [CentersInRange] at hc
      | cons c cs =>
        obtain ⟨⟨c1, c2, _⟩, hcrest⟩ := hc
        cases xs with
        | nil => simp [rows]
        | cons x xs =>
          cases ms with
          | nil => simp [rows]
          | cons m ms =>
            simp only [rows]
            rw [ih es xs cs ms hrest hcrest, h4, localRow_congr d e x c m h1 h2 c1 c2 h5]

theorem startPos_congr : ∀ (ds es : List (Dim α)) (cs : List Nat), SameShape ds es →
    startPos ds cs = startPos es cs := by
  intro ds
  induction ds with
  | nil =>
    intro es cs h
    cases es with
    | nil => rfl
    | cons _ _ => simp [SameShape] at h
  | cons d ds ih =>
    intro es cs h
    cases es with
    | nil => simp [SameShape] at h
    | cons e es =>
      obtain ⟨⟨h1, _, _, h4, _⟩, hrest⟩ := h
      cases cs with
      | nil => simp [startPos]
      | cons c cs => simp only [startPos]; rw [ih es cs hrest, h1, h4]

theorem rows_nonempty : ∀ (ds : List (Dim α)) (xs : List α) (cs : List Nat) (ms : List BasisMode),
    CentersInRange ds cs → ∀ r ∈ rows ds xs cs ms, r.2.length ≥ 1 := by
  intro ds
  induction ds with
  | nil => intro xs cs ms _ r hr; simp [rows] at hr
  | cons d ds ih =>
    intro xs cs ms hc r hr
    cases cs with
    | nil => simp [CentersInRange] at hc
    | cons c cs =>
      obtain ⟨⟨c1, c2, _⟩, hcrest⟩ := hc
      cases xs with
      | nil => simp [rows] at hr
      | cons x xs =>
        cases ms with
        | nil => simp [rows] at hr
        | cons m ms =>
          simp only [rows, List.mem_cons] at hr
          rcases hr with rfl | hr
          · simp only; rw [localRow_length d x c m c1 c2]; omega
          · exact ih xs cs ms hcrest r hr

theorem extent_rows : ∀ (ds : List (Dim α)) (xs : List α) (cs : List Nat) (ms : List BasisMode),
    RowMajor ds → CentersInRange ds cs → ds.length = xs.length → ds.length = ms.length →
    extent (rows ds xs cs ms) = ds.foldr (fun d acc => (d.order : Int) * d.stride + acc) 0 := by
  intro ds
  induction ds with
  | nil => intro xs cs ms _ _ _ _; simp [rows, extent]
  | cons d ds ih =>
    intro xs cs ms hrm hc hx hm
    cases cs with
    | nil => simp [CentersInRange] at hc
    | cons c cs =>
      obtain ⟨⟨c1, c2, _⟩, hcrest⟩ := hc
      cases xs with
      | nil => simp at hx
      | cons x xs =>
        cases ms with
        | nil => simp at hm
        | cons m ms =>
          have hl := localRow_length d x c m c1 c2
          cases ds with
          | nil =>
            have hs : d.stride = 1 := hrm
            simp only [rows, extent, List.foldr, hl, hs]
            push_cast; omega
          | cons e rest =>
            obtain ⟨_, hrm'⟩ := hrm
            have := ih xs cs ms hrm' hcrest (by simpa using hx) (by simpa using hm)
            match xs, cs, ms, hx, hm, this, hcrest with
            | x2 :: xs, c2 :: cs, m2 :: ms, _, _, this, _ =>
              simp only [rows, extent, List.foldr, hl] at this ⊢
              rw [this]
              have e1 : (((d.order + 1 : Nat) : Int) - 1) = (d.order : Int) := by push_cast; omega
              rw [e1]
            | [], _, _, hx, _, _, _ => simp at hx
            | _ :: _, [], _, _, _, _, hcr => simp [CentersInRange] at hcr
            | _ :: _, _ :: _, [], _, hm, _, _ => simp at hm

/-- `evalModes` depends only on knots in `[-order, nknots+order)` and coefficients in `[0, ncoef)`. -/
theorem evalModes_congr (T T' : Table α) (xs : List α) (cs : List Nat) (ms : List BasisMode)
    (hne : T.dims ≠ []) (hshape : SameShape T.dims T'.dims) (hrm : RowMajor T.dims)
    (hc : CentersInRange T.dims cs) (hx : T.dims.length = xs.length) (hm : T.dims.length = ms.length)
    (hcoef : AgreeOn T.coef T'.coef 0 ((ncoef T.dims : Int) - 1)) :
    evalModes T xs cs ms = evalModes T' xs cs ms := by
  unfold evalModes
  rw [← rows_congr T.dims T'.dims xs cs ms hshape hc, ← startPos_congr T.dims T'.dims cs hshape]
  apply walk_congr _ _ _ (rows_nonempty T.dims xs cs ms hc)
  rw [extent_rows T.dims xs cs ms hrm hc hx hm]
  obtain ⟨S, h1, h2, h3⟩ := sum_centres_lt T.dims cs hne hrm hc
  exact hcoef.mono h3 (by omega)

end PsV
