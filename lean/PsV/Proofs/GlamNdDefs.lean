import PsV.Model.FitGlam
import PsV.Proofs.Lawful
/-!
# C09, n dimensions: shared statement-level definitions for the GLAM identity and the polynomial reproduction

* `matProd bs js gs = Π_d bs_d[js_d, gs_d]` — the entry of the Kronecker product of the matrices `bs` addressed by
  index tuples,
* `pairIdx ns as bs = [a_d·n_d + b_d]` — the index tuple of the boxed tensor `F` that holds entry `(as, bs)`,
* `comps dims i = [(i / stride_d) % naxes_d]` — the index tuple of the coefficient at row-major position `i`,
* `greville t order k = (t_{k+1} + … + t_{k+order})/order` — the Greville abscissae.
-/
namespace PsV
open Arith

section
variable {α : Type} [Field α] [LinearOrder α] [A : Arith α]

/-- `Π_d b_d[j_d, g_d]` (0 when the three lists differ in length) -/
def matProd : List (Mat α) → List Nat → List Nat → α
  | b :: bs, j :: js, g :: gs => b.val j g * matProd bs js gs
  | [], [], [] => 1
  | _, _, _ => 0

/-- `[a_d·n_d + b_d]` -/
def pairIdx : List Nat → List Nat → List Nat → List Nat
  | n :: ns, a :: as, b :: bs => (a * n + b) :: pairIdx ns as bs
  | _, _, _ => []

/-- index tuple of the coefficient at position `i`: `(i / stride_d) % naxes_d` -/
def comps (dims : List (Dim α)) (i : Nat) : List Nat := dims.map fun d => (i / d.stride) % d.naxes

/-- Greville abscissa `ξ_k = (t_{k+1} + … + t_{k+order})/order` -/
def greville (t : Int → α) (order k : Nat) : α :=
  (∑ m ∈ Finset.range order, t ((k : Int) + 1 + m)) / (order : α)

end
end PsV
