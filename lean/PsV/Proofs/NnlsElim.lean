import PsV.Proofs.Nnls
import Mathlib.Algebra.BigOperators.Intervals
import Mathlib.Algebra.BigOperators.Ring.Finset
import Mathlib.Algebra.Order.BigOperators.Ring.Finset
import Mathlib.Tactic.FieldSimp
import Mathlib.Algebra.BigOperators.Field
import Mathlib.Tactic.Positivity
set_option linter.unusedSectionVars false
set_option linter.unusedVariables false
/-!
# Elimination theory for C11, on entry functions

`FM = ℕ → ℕ → ℚ` is a matrix given by its entries; only the box `[0,k) × [0,k]` (augmented system) matters.
`elim F c` is one Gauss–Jordan step with pivot `(c,c)` and no row exchange, `fgj cs F` the run over the pivot
columns `cs` (`none` at a zero pivot), returning the reduced entries and the pivots.  `PsV/Proofs/NnlsBridge.lean`
shows that the executable `gaussJordan` of `PsV/Model/Nnls.lean` (arrays of arrays) computes exactly `fgj`.

Proved here, for all sizes and all entries:
* `fgj_range_solves` — if the run over `0,…,k−1` succeeds, the last column of the result solves the original system;
* `fgj_pos_pd`   — symmetric trailing block + run succeeds with all pivots `> 0`  ⇒ the block is positive definite
  (`LDLᵀ`: `xᵀAx = p·(x_c + Σ_{j>c} A_cj x_j / p)² + xᵀ S x`, `S` the Schur complement the step leaves behind);
* `pd_fgj`       — conversely, on a symmetric positive-definite block the run never meets a zero pivot, and all
  pivots are `> 0`.
-/
namespace PsV.Nnls
open Finset

abbrev FM := ℕ → ℕ → ℚ

/-- one Gauss–Jordan step on the entries: row `c` is divided by the pivot, every other row `r` gets
`row_r − F r c · row_c'` -/
def elim (F : FM) (c : ℕ) : FM := fun r j =>
  if r = c then F c j / F c c else F r j - F r c * (F c j / F c c)

/-- the run over the pivot columns `cs` -/
def fgj : List ℕ → FM → Option (FM × List ℚ)
  | [], F => some (F, [])
  | c :: cs, F =>
    if F c c = 0 then none else
      match fgj cs (elim F c) with
      | none => none
      | some (R, ps) => some (R, F c c :: ps)

theorem fgj_cons_some {c : ℕ} {cs : List ℕ} {F R : FM} {ps : List ℚ} (h : fgj (c :: cs) F = some (R, ps)) :
    F c c ≠ 0 ∧ ∃ ps', fgj cs (elim F c) = some (R, ps') ∧ ps = F c c :: ps' := by
  unfold fgj at h
  split_ifs at h with h0
  cases hr : fgj cs (elim F c) with
  | none => rw [hr] at h; simp at h
  | some Rp =>
    rw [hr] at h
    obtain ⟨R', ps'⟩ := Rp
    simp only [Option.some.injEq, Prod.mk.injEq] at h
    refine ⟨h0, ps', ?_, h.2.symm⟩
    rw [h.1]

/-! ## the solve -/

/-- `x` solves the augmented `k × (k+1)` system `F` -/
def Solves (k : ℕ) (F : FM) (x : ℕ → ℚ) : Prop := ∀ r, r < k → ∑ j ∈ range k, F r j * x j = F r k

theorem elim_solves {k c : ℕ} {F : FM} {x : ℕ → ℚ} (hc : c < k) (hp : F c c ≠ 0)
    (h : Solves k (elim F c) x) : Solves k F x := by
  have hc' := h c hc
  simp only [elim, if_true] at hc'
  have e1 : ∑ j ∈ range k, F c j / F c c * x j = (∑ j ∈ range k, F c j * x j) / F c c := by
    rw [Finset.sum_div]; apply sum_congr rfl; intros; ring
  have hrowc : ∑ j ∈ range k, F c j * x j = F c k := by
    rw [e1] at hc'; exact (div_left_inj' hp).mp hc'
  intro r hr
  by_cases hrc : r = c
  · rw [hrc]; exact hrowc
  · have h2 := h r hr
    simp only [elim, if_neg hrc] at h2
    have e2 : ∑ j ∈ range k, (F r j - F r c * (F c j / F c c)) * x j
        = ∑ j ∈ range k, F r j * x j - F r c * ∑ j ∈ range k, F c j / F c c * x j := by
      rw [Finset.mul_sum, ← Finset.sum_sub_distrib]; apply sum_congr rfl; intros; ring
    rw [e2, hc'] at h2
    linarith

theorem fgj_solves {k : ℕ} {x : ℕ → ℚ} : ∀ (cs : List ℕ) (F R : FM) (ps : List ℚ), (∀ c ∈ cs, c < k) →
    fgj cs F = some (R, ps) → Solves k R x → Solves k F x := by
  intro cs
  induction cs with
  | nil => intro F R ps _ h hs; simp only [fgj, Option.some.injEq, Prod.mk.injEq] at h; rw [h.1]; exact hs
  | cons c cs ih =>
    intro F R ps hcs h hs
    obtain ⟨hp, ps', hr, _⟩ := fgj_cons_some h
    exact elim_solves (hcs c (List.mem_cons_self)) hp
      (ih _ _ _ (fun d hd => hcs d (List.mem_cons_of_mem _ hd)) hr hs)

/-- the columns `< c` are unit columns -/
def IdCols (k c : ℕ) (F : FM) : Prop := ∀ j, j < c → ∀ r, r < k → F r j = if r = j then 1 else 0

theorem elim_idcols {k c : ℕ} {F : FM} (hc : c < k) (hp : F c c ≠ 0) (h : IdCols k c F) :
    IdCols k (c+1) (elim F c) := by
  intro j hj r hr
  unfold elim
  rcases Nat.lt_succ_iff_lt_or_eq.mp hj with hjc | hjc
  · have hcj : F c j = 0 := by rw [h j hjc c hc, if_neg (by omega)]
    by_cases hrc : r = c
    · rw [if_pos hrc, hcj, zero_div, if_neg (by omega)]
    · rw [if_neg hrc, hcj, zero_div, mul_zero, sub_zero, h j hjc r hr]
  · subst hjc
    by_cases hrc : r = j
    · rw [if_pos hrc, if_pos hrc, div_self hp]
    · rw [if_neg hrc, if_neg hrc, div_self hp, mul_one, sub_self]

theorem fgj_range'_idcols {k : ℕ} : ∀ (m c : ℕ) (F R : FM) (ps : List ℚ), c + m ≤ k →
    fgj (List.range' c m) F = some (R, ps) → IdCols k c F → IdCols k (c+m) R := by
  intro m
  induction m with
  | zero =>
    intro c F R ps _ h hI
    simp only [List.range'_zero, fgj, Option.some.injEq, Prod.mk.injEq] at h
    rw [← h.1]; exact hI
  | succ m ih =>
    intro c F R ps hk h hI
    rw [List.range'_succ] at h
    obtain ⟨hp, ps', hr, _⟩ := fgj_cons_some h
    have := ih (c+1) _ R ps' (by omega) hr (elim_idcols (by omega) hp hI)
    rwa [show c + (m+1) = c + 1 + m by omega]

/-- **The Gauss–Jordan run solves the system**: if the run over the pivot columns `0,…,k−1` succeeds, the last column
of the reduced matrix solves the original augmented system. -/
theorem fgj_range_solves {k : ℕ} {F R : FM} {ps : List ℚ} (h : fgj (List.range k) F = some (R, ps)) :
    Solves k F (fun j => R j k) := by
  refine fgj_solves (List.range k) F R ps (fun c hc => List.mem_range.mp hc) h ?_
  rw [List.range_eq_range'] at h
  have hI := fgj_range'_idcols (k := k) k 0 F R ps (by omega) h (fun j hj => absurd hj (Nat.not_lt_zero j))
  intro r hr
  have : ∀ j ∈ range k, R r j * R j k = if r = j then R j k else 0 := by
    intro j hj
    rw [hI j (by simpa using mem_range.mp hj) r hr]
    split <;> simp
  rw [sum_congr rfl this, Finset.sum_ite_eq, if_pos (mem_range.mpr hr)]

/-! ## positive definiteness of the trailing block and the pivots (`LDLᵀ`) -/

/-- the quadratic form of the trailing block `[c,k) × [c,k)` -/
def Qf (c k : ℕ) (F : FM) (x : ℕ → ℚ) : ℚ := ∑ i ∈ Ico c k, ∑ j ∈ Ico c k, x i * F i j * x j

def SymOn (c k : ℕ) (F : FM) : Prop := ∀ i j, c ≤ i → i < k → c ≤ j → j < k → F i j = F j i

/-- the trailing block is positive definite -/
def PDOn (c k : ℕ) (F : FM) : Prop := ∀ x : ℕ → ℚ, (∃ i, c ≤ i ∧ i < k ∧ x i ≠ 0) → 0 < Qf c k F x

theorem Qf_congr {c k : ℕ} {F G : FM} {x y : ℕ → ℚ} (hF : ∀ i j, c ≤ i → i < k → c ≤ j → j < k → F i j = G i j)
    (hx : ∀ i, c ≤ i → i < k → x i = y i) : Qf c k F x = Qf c k G y := by
  unfold Qf
  apply sum_congr rfl; intro i hi
  apply sum_congr rfl; intro j hj
  rw [mem_Ico] at hi hj
  rw [hF i j hi.1 hi.2 hj.1 hj.2, hx i hi.1 hi.2, hx j hj.1 hj.2]

theorem sym_step {c k : ℕ} {F : FM} (h : SymOn c k F) (hc : c < k) : SymOn (c+1) k (elim F c) := by
  intro i j hi hik hj hjk
  unfold elim
  rw [if_neg (by omega), if_neg (by omega), h i j (by omega) hik (by omega) hjk,
    h i c (by omega) hik (le_refl _) hc, h c j (le_refl _) hc (by omega) hjk]
  ring

/-- the cross term `Σ_{j>c} F c j x_j` -/
def crossS (c k : ℕ) (F : FM) (x : ℕ → ℚ) : ℚ := ∑ j ∈ Ico (c+1) k, F c j * x j

theorem Qf_split {c k : ℕ} {F : FM} (x : ℕ → ℚ) (hc : c < k) (hS : SymOn c k F) :
    Qf c k F x = F c c * x c ^ 2 + 2 * x c * crossS c k F x + Qf (c+1) k F x := by
  unfold Qf crossS
  rw [sum_eq_sum_Ico_succ_bot hc, sum_eq_sum_Ico_succ_bot hc]
  have h1 : ∑ j ∈ Ico (c+1) k, x c * F c j * x j = x c * ∑ j ∈ Ico (c+1) k, F c j * x j := by
    rw [Finset.mul_sum]; apply sum_congr rfl; intros; ring
  have h2 : ∑ i ∈ Ico (c+1) k, ∑ j ∈ Ico c k, x i * F i j * x j
      = x c * ∑ j ∈ Ico (c+1) k, F c j * x j + ∑ i ∈ Ico (c+1) k, ∑ j ∈ Ico (c+1) k, x i * F i j * x j := by
    rw [Finset.mul_sum, ← sum_add_distrib]
    apply sum_congr rfl; intro i hi
    rw [mem_Ico] at hi
    rw [sum_eq_sum_Ico_succ_bot hc, hS i c (by omega) hi.2 (le_refl _) hc]
    ring
  rw [h1, h2]; ring

theorem Qf_elim {c k : ℕ} {F : FM} (x : ℕ → ℚ) (hc : c < k) (hS : SymOn c k F) :
    Qf (c+1) k (elim F c) x = Qf (c+1) k F x - crossS c k F x ^ 2 / F c c := by
  unfold Qf crossS
  have e : ∀ i ∈ Ico (c+1) k, ∑ j ∈ Ico (c+1) k, x i * elim F c i j * x j
      = ∑ j ∈ Ico (c+1) k, x i * F i j * x j - (F c i * x i) * (∑ j ∈ Ico (c+1) k, F c j * x j) / F c c := by
    intro i hi
    rw [mem_Ico] at hi
    rw [Finset.mul_sum, Finset.sum_div, ← sum_sub_distrib]
    apply sum_congr rfl; intro j hj
    unfold elim
    rw [if_neg (by omega), hS i c (by omega) hi.2 (le_refl _) hc]
    ring
  rw [sum_congr rfl e, sum_sub_distrib, ← Finset.sum_div, ← Finset.sum_mul, pow_two]

/-- the `LDLᵀ` step: `xᵀAx = p (x_c + s/p)² + xᵀSx` with `S` the Schur complement left by the elimination step -/
theorem Qf_decomp {c k : ℕ} {F : FM} (x : ℕ → ℚ) (hc : c < k) (hS : SymOn c k F) (hp : F c c ≠ 0) :
    Qf c k F x = F c c * (x c + crossS c k F x / F c c) ^ 2 + Qf (c+1) k (elim F c) x := by
  rw [Qf_split x hc hS, Qf_elim x hc hS]
  field_simp
  ring

theorem Qf_zero_tail {c k : ℕ} {F : FM} {x : ℕ → ℚ} (h : ∀ i, c ≤ i → i < k → x i = 0) : Qf c k F x = 0 := by
  unfold Qf
  apply sum_eq_zero; intro i hi
  apply sum_eq_zero; intro j hj
  rw [mem_Ico] at hi
  rw [h i hi.1 hi.2]; ring

theorem pd_of_step {c k : ℕ} {F : FM} (hc : c < k) (hS : SymOn c k F) (hp : 0 < F c c)
    (h : PDOn (c+1) k (elim F c)) : PDOn c k F := by
  intro x hx
  rw [Qf_decomp x hc hS (ne_of_gt hp)]
  by_cases htail : ∃ i, c + 1 ≤ i ∧ i < k ∧ x i ≠ 0
  · have := h x htail
    have h2 : 0 ≤ F c c * (x c + crossS c k F x / F c c) ^ 2 := by positivity
    linarith
  · have hz : ∀ i, c + 1 ≤ i → i < k → x i = 0 := by
      intro i hi hik
      by_contra hne
      exact htail ⟨i, hi, hik, hne⟩
    have hxc : x c ≠ 0 := by
      obtain ⟨i, hi, hik, hne⟩ := hx
      rcases Nat.eq_or_lt_of_le hi with h1 | h1
      · rw [h1]; exact hne
      · exact absurd (hz i h1 hik) hne
    have hs : crossS c k F x = 0 := by
      unfold crossS
      apply sum_eq_zero; intro j hj
      rw [mem_Ico] at hj
      rw [hz j hj.1 hj.2, mul_zero]
    rw [Qf_zero_tail hz, hs, zero_div, add_zero, add_zero]
    have : 0 < x c ^ 2 := by positivity
    positivity

theorem pd_pivot_pos {c k : ℕ} {F : FM} (hc : c < k) (h : PDOn c k F) : 0 < F c c := by
  have := h (fun i => if i = c then 1 else 0) ⟨c, le_refl _, hc, by simp⟩
  have e : Qf c k F (fun i => if i = c then 1 else 0) = F c c := by
    unfold Qf
    have hm : c ∈ Ico c k := mem_Ico.mpr ⟨le_refl _, hc⟩
    simp [Finset.sum_ite_eq', hm, ite_mul, mul_ite]
  rwa [e] at this

theorem pd_step {c k : ℕ} {F : FM} (hc : c < k) (hS : SymOn c k F) (h : PDOn c k F) :
    PDOn (c+1) k (elim F c) := by
  have hp := pd_pivot_pos hc h
  intro y hy
  let x : ℕ → ℚ := fun i => if i = c then -(crossS c k F y / F c c) else y i
  have hxy : ∀ i, c + 1 ≤ i → i < k → x i = y i := by
    intro i hi _; show (if i = c then _ else _) = _; rw [if_neg (by omega)]
  have hs : crossS c k F x = crossS c k F y := by
    unfold crossS
    apply sum_congr rfl; intro j hj
    rw [mem_Ico] at hj
    rw [hxy j hj.1 hj.2]
  have hxc : x c = -(crossS c k F y / F c c) := by show (if c = c then _ else _) = _; rw [if_pos rfl]
  have hx : ∃ i, c ≤ i ∧ i < k ∧ x i ≠ 0 := by
    obtain ⟨i, hi, hik, hne⟩ := hy
    exact ⟨i, by omega, hik, by rw [hxy i hi hik]; exact hne⟩
  have hq := h x hx
  rw [Qf_decomp x hc hS (ne_of_gt hp), hs, hxc, neg_add_cancel] at hq
  rw [Qf_congr (fun _ _ _ _ _ _ => rfl) hxy] at hq
  simpa using hq

/-- **Pivots positive ⇒ positive definite.**  If the trailing block is symmetric and the elimination run over its
pivot columns succeeds with all pivots `> 0`, the block is positive definite. -/
theorem fgj_pos_pd {k : ℕ} : ∀ (m c : ℕ) (F R : FM) (ps : List ℚ), c + m = k → SymOn c k F →
    fgj (List.range' c m) F = some (R, ps) → (∀ p ∈ ps, 0 < p) → PDOn c k F := by
  intro m
  induction m with
  | zero =>
    intro c F R ps hk _ _ _ x hx
    obtain ⟨i, hi, hik, _⟩ := hx
    omega
  | succ m ih =>
    intro c F R ps hk hS h hpos
    rw [List.range'_succ] at h
    obtain ⟨hp, ps', hr, hps⟩ := fgj_cons_some h
    have hc : c < k := by omega
    have hpc : 0 < F c c := hpos _ (by rw [hps]; exact List.mem_cons_self)
    refine pd_of_step hc hS hpc (ih (c+1) _ R ps' (by omega) (sym_step hS hc) hr ?_)
    intro p hp'
    exact hpos p (by rw [hps]; exact List.mem_cons_of_mem _ hp')

/-- **Positive definite ⇒ the run succeeds with positive pivots** (no zero pivot can occur). -/
theorem pd_fgj {k : ℕ} : ∀ (m c : ℕ) (F : FM), c + m = k → SymOn c k F → PDOn c k F →
    ∃ R ps, fgj (List.range' c m) F = some (R, ps) ∧ ∀ p ∈ ps, 0 < p := by
  intro m
  induction m with
  | zero => intro c F _ _ _; exact ⟨F, [], rfl, fun p hp => absurd hp (List.not_mem_nil)⟩
  | succ m ih =>
    intro c F hk hS hP
    have hc : c < k := by omega
    have hp := pd_pivot_pos hc hP
    obtain ⟨R, ps, hr, hpos⟩ := ih (c+1) (elim F c) (by omega) (sym_step hS hc) (pd_step hc hS hP)
    refine ⟨R, F c c :: ps, ?_, ?_⟩
    · rw [List.range'_succ, fgj, if_neg (ne_of_gt hp), hr]
    · intro p hp'
      rcases List.mem_cons.mp hp' with h | h
      · rw [h]; exact hp
      · exact hpos p h

end PsV.Nnls
