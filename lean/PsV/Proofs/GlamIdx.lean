import PsV.Proofs.Glam
import PsV.Model.GlamIdx
/-!
# C17: the `int` / `unsigned int` / `long` index arithmetic of `slicemultiply` cannot overflow below 2³¹ columns

`PsV/Model/GlamIdx.lean` models the index expressions of `slicemultiply` in the C types they are written
in.  Here: if the flattened section has fewer than 2³¹ columns (`colsOf ranges dim = Π_{k≠dim} ranges[k]`)
and the new range fits an `unsigned int`, every conversion is the identity, no divisor is zero, and
the C-typed routine is the natural-number model `sliceMultiply` that the other theorems are about.
-/
namespace PsV
open Arith

/-! ## conversions are the identity in range -/

theorem toU32_nat (n : Nat) (h : n < 4294967296) : toU32 (n : Int) = n := by
  unfold toU32; omega

theorem toI32_nat (n : Nat) (h : n < 2147483648) : toI32 (n : Int) = n := by
  unfold toI32
  apply Int.bmod_eq_of_le <;> omega

theorem toI64_nat (n : Nat) (h : n < 2147483648) : toI64 (n : Int) = n := by
  unfold toI64
  apply Int.bmod_eq_of_le <;> omega

theorem mulIU_nat (s r : Nat) (hs : 0 < s) (hr : 0 < r) (h : s * r < 2147483648) :
    mulIU (s : Int) r = ((s * r : Nat) : Int) := by
  have h1 : s ≤ s * r := Nat.le_mul_of_pos_right s hr
  have h2 : r ≤ s * r := Nat.le_mul_of_pos_left r hs
  unfold mulIU
  rw [toU32_nat s (by omega), toU32_nat r (by omega), ← Int.natCast_mul, toU32_nat _ (by omega),
    toI32_nat _ h]

/-! ## products -/

theorem mrProd_eq_prod (r : Nat → Nat) (ks : List Nat) : mrProd r ks = (ks.map r).prod := by
  induction ks with
  | nil => rfl
  | cons k ks ih => simp [mrProd, ih]

theorem mrProd_pos (r : Nat → Nat) (ks : List Nat) (h : ∀ k ∈ ks, 0 < r k) : 0 < mrProd r ks := by
  induction ks with
  | nil => simp [mrProd]
  | cons k ks ih =>
    simp only [mrProd]
    exact Nat.mul_pos (h k (by simp)) (ih fun a ha => h a (by simp [ha]))

theorem mrProd_reverse (r : Nat → Nat) (ks : List Nat) : mrProd r ks.reverse = mrProd r ks := by
  rw [mrProd_eq_prod, mrProd_eq_prod, List.map_reverse, List.prod_reverse]

theorem foldl_cols_eq (r : Nat → Nat) (dim : Nat) (is : List Nat) (c : Nat) :
    is.foldl (fun c i => if i = dim then c else c * r i) c
      = c * ((is.filter (fun i => decide (i ≠ dim))).map r).prod := by
  induction is generalizing c with
  | nil => simp
  | cons i is ih =>
    simp only [List.foldl_cons, ih]
    by_cases h : i = dim
    · simp [h]
    · simp [h, Nat.mul_assoc]

/-- `a % n = b % n` with `a ≤ b < a + n` forces `a = b` -/
theorem eq_of_mod_eq_of_lt {a b n : Nat} (hab : a ≤ b) (hlt : b < a + n) (h : a % n = b % n) : a = b := by
  have h1 : (b - a) % n = 0 := Nat.sub_mod_eq_zero_of_mod_eq h.symm
  have h2 : b - a = 0 := Nat.eq_zero_of_dvd_of_lt (Nat.dvd_of_mod_eq_zero h1) (by omega)
  omega

theorem loopDims_nodup (n dim : Nat) : (loopDims n dim).Nodup := by
  unfold loopDims
  apply List.Nodup.map_on
  · intro m1 h1 m2 h2 h
    simp only [List.mem_range] at h1 h2
    rcases Nat.lt_or_ge m1 m2 with hlt | hge
    · have := eq_of_mod_eq_of_lt (a := dim + n - 1 - m2) (b := dim + n - 1 - m1) (n := n) (by omega) (by omega) h.symm
      omega
    · have := eq_of_mod_eq_of_lt (a := dim + n - 1 - m1) (b := dim + n - 1 - m2) (n := n) (by omega) (by omega) h
      omega
  · exact List.nodup_range

/-- the visiting order of the flattening loop is a permutation of the other dimensions -/
theorem loopDims_perm (n dim : Nat) (hd : dim < n) :
    (loopDims n dim).Perm ((List.range n).filter (fun i => decide (i ≠ dim))) := by
  rw [List.perm_ext_iff_of_nodup (loopDims_nodup n dim) (List.nodup_range.filter _)]
  intro a
  rw [mem_loopDims hd]
  simp

/-- the number of columns of the flattened section is the product of the radices the loops use -/
theorem colsOf_eq_mrProd (ranges : List Nat) (dim : Nat) (hd : dim < ranges.length) :
    colsOf ranges dim = mrProd (fun k => ranges.getD k 0) (loopDims ranges.length dim) := by
  unfold colsOf
  rw [foldl_cols_eq, Nat.one_mul, mrProd_eq_prod]
  exact ((loopDims_perm ranges.length dim hd).map _).prod_eq.symm

/-! ## `cols` -/

theorem foldl_cols_ge (r : Nat → Nat) (dim : Nat) (is : List Nat) (c : Nat)
    (hpos : ∀ i ∈ is, i ≠ dim → 0 < r i) :
    c ≤ is.foldl (fun c i => if i = dim then c else c * r i) c := by
  induction is generalizing c with
  | nil => simp
  | cons i is ih =>
    simp only [List.foldl_cons]
    have hrest := ih (if i = dim then c else c * r i) (fun a ha => hpos a (by simp [ha]))
    by_cases h : i = dim
    · simpa [h] using hrest
    · rw [if_neg h] at hrest ⊢
      exact le_trans (Nat.le_mul_of_pos_right c (hpos i (by simp) h)) hrest

theorem foldl_colsC_eq (r : Nat → Nat) (dim : Nat) (is : List Nat) (c : Nat) (hc : 0 < c)
    (hpos : ∀ i ∈ is, i ≠ dim → 0 < r i)
    (hb : is.foldl (fun c i => if i = dim then c else c * r i) c < 2147483648) :
    is.foldl (fun (c : Int) i => if i = dim then c else mulIU c (r i)) (c : Int)
      = ((is.foldl (fun c i => if i = dim then c else c * r i) c : Nat) : Int) := by
  induction is generalizing c with
  | nil => simp
  | cons i is ih =>
    simp only [List.foldl_cons] at hb ⊢
    have hpos' : ∀ a ∈ is, a ≠ dim → 0 < r a := fun a ha => hpos a (by simp [ha])
    by_cases h : i = dim
    · simp only [if_pos h] at hb ⊢
      exact ih c hc hpos' hb
    · simp only [if_neg h] at hb ⊢
      have hri := hpos i (by simp) h
      have hge := foldl_cols_ge r dim is (c * r i) hpos'
      rw [mulIU_nat c (r i) hc hri (by omega)]
      exact ih (c * r i) (Nat.mul_pos hc hri) hpos' hb

/-- **`cols`**: the `int` product is the exact number of columns -/
theorem colsC_eq (ranges : List Nat) (dim : Nat)
    (hpos : ∀ i, i < ranges.length → i ≠ dim → 0 < ranges.getD i 0)
    (hb : colsOf ranges dim < 2147483648) : colsC ranges dim = colsOf ranges dim := by
  unfold colsC colsOf
  exact foldl_colsC_eq _ dim _ 1 (by omega) (fun i hi hne => hpos i (List.mem_range.mp hi) hne) hb

/-! ## flattening -/

theorem flat_step (stride col i r : Nat) (hs : 0 < stride) (hcol : col < stride) (hi : i < r)
    (hb : stride * r < 2147483648) :
    mulIU (stride : Int) r = ((stride * r : Nat) : Int) ∧
    toI64 ((col : Int) + toU32 (toU32 (stride : Int) * toU32 (i : Int))) = ((col + stride * i : Nat) : Int) ∧
    col + stride * i < stride * r := by
  have h2 : stride * i + stride ≤ stride * r := by
    calc stride * i + stride = stride * (i + 1) := by ring
      _ ≤ stride * r := Nat.mul_le_mul_left _ hi
  have h3 : stride ≤ stride * r := Nat.le_mul_of_pos_right _ (by omega)
  have h4 : r ≤ stride * r := Nat.le_mul_of_pos_left _ hs
  refine ⟨mulIU_nat stride r hs (by omega) hb, ?_, by omega⟩
  rw [toU32_nat stride (by omega), toU32_nat i (by omega), ← Int.natCast_mul, toU32_nat _ (by omega),
    ← Int.natCast_add, toI64_nat _ (by omega)]

/-- (stated with `Int` variables `S`, `C` so that unfolding the loop never makes the kernel evaluate a
conversion of a constructor term) -/
theorem flatLoopC_eq' (ranges idx : List Nat) (ks : List Nat) (S C : Int) (stride col : Nat)
    (hS : S = (stride : Int)) (hC : C = (col : Int)) (hs : 0 < stride)
    (hcol : col < stride) (hidx : ∀ k ∈ ks, idx.getD k 0 < ranges.getD k 0)
    (hb : stride * mrProd (fun k => ranges.getD k 0) ks < 2147483648) :
    flatLoopC ranges idx ks S C = ((flatLoop ranges idx ks stride col : Nat) : Int) := by
  induction ks generalizing S C stride col with
  | nil => simp only [flatLoopC, flatLoop]; exact hC
  | cons k ks ih =>
    have hk := hidx k (by simp)
    have hidx' : ∀ a ∈ ks, idx.getD a 0 < ranges.getD a 0 := fun a ha => hidx a (by simp [ha])
    have hP := mrProd_pos (fun k => ranges.getD k 0) ks (fun a ha => by have := hidx' a ha; omega)
    simp only [mrProd] at hb
    have h1 : stride * ranges.getD k 0 ≤ stride * (ranges.getD k 0 * mrProd (fun k => ranges.getD k 0) ks) :=
      Nat.mul_le_mul_left _ (Nat.le_mul_of_pos_right _ hP)
    obtain ⟨e1, e2, e3⟩ := flat_step stride col (idx.getD k 0) (ranges.getD k 0) hs hcol hk (by omega)
    simp only [flatLoopC, flatLoop]
    apply ih
    · rw [hS]; exact e1
    · rw [hS, hC]; exact e2
    · exact Nat.mul_pos hs (by omega)
    · exact e3
    · exact hidx'
    · rw [Nat.mul_assoc]; exact hb

theorem flatLoopC_eq (ranges idx : List Nat) (ks : List Nat) (stride col : Nat) (hs : 0 < stride)
    (hcol : col < stride) (hidx : ∀ k ∈ ks, idx.getD k 0 < ranges.getD k 0)
    (hb : stride * mrProd (fun k => ranges.getD k 0) ks < 2147483648) :
    flatLoopC ranges idx ks stride col = ((flatLoop ranges idx ks stride col : Nat) : Int) :=
  flatLoopC_eq' ranges idx ks _ _ stride col rfl rfl hs hcol hidx hb

/-- **flattened column**: the `long` the C code computes is the exact mixed-radix number, and it is
below the number of columns -/
theorem flattenColC_eq (ranges idx : List Nat) (dim : Nat) (hv : IdxIn idx ranges) (hd : dim < ranges.length)
    (hb : colsOf ranges dim < 2147483648) :
    flattenColC ranges idx dim = ((flattenCol ranges idx dim : Nat) : Int) ∧
      flattenCol ranges idx dim < colsOf ranges dim := by
  have hidx : ∀ k ∈ loopDims ranges.length dim, idx.getD k 0 < ranges.getD k 0 :=
    fun k hk => hv.2 k ((mem_loopDims hd).mp hk).1
  constructor
  · unfold flattenColC flattenCol
    apply flatLoopC_eq _ _ _ 1 0 (by omega) (by omega) hidx
    rw [Nat.one_mul, ← colsOf_eq_mrProd ranges dim hd]; exact hb
  · unfold flattenCol
    rw [flatLoop_eq, Nat.zero_add, Nat.one_mul, colsOf_eq_mrProd ranges dim hd, ← mrProd_reverse]
    exact mrNum_lt _ _ _ (fun k hk => hidx k (List.mem_reverse.mp hk))

/-! ## un-flattening -/

theorem foldl_mulIU_eq (r : Nat → Nat) (ks : List Nat) (s : Nat) (hs : 0 < s) (hpos : ∀ k ∈ ks, 0 < r k)
    (hb : s * mrProd r ks < 2147483648) :
    ks.foldl (fun (s : Int) k => mulIU s (r k)) (s : Int) = ((ks.foldl (fun s k => s * r k) s : Nat) : Int) := by
  induction ks generalizing s with
  | nil => simp
  | cons k ks ih =>
    have hk := hpos k (by simp)
    have hpos' : ∀ a ∈ ks, 0 < r a := fun a ha => hpos a (by simp [ha])
    have hP := mrProd_pos r ks hpos'
    simp only [mrProd] at hb
    have h1 : s * r k ≤ s * (r k * mrProd r ks) := Nat.mul_le_mul_left _ (Nat.le_mul_of_pos_right _ hP)
    simp only [List.foldl_cons]
    rw [mulIU_nat s (r k) hs hk (by omega)]
    exact ih (s * r k) (Nat.mul_pos hs hk) hpos' (by rw [Nat.mul_assoc]; exact hb)

theorem unflatLoopC_eq (R : List Nat) (ks : List Nat) (j : Nat) (idx : List Nat)
    (hpos : ∀ k ∈ ks, 0 < R.getD k 0) (hb : mrProd (fun k => R.getD k 0) ks < 2147483648)
    (hj : j < 2147483648) :
    unflatLoopC R ks (mrProd (fun k => R.getD k 0) ks : Nat) (j : Nat) idx
      = .ok (unflatLoop R ks (mrProd (fun k => R.getD k 0) ks) j idx) := by
  induction ks generalizing j idx with
  | nil => simp [unflatLoopC, unflatLoop]
  | cons k ks ih =>
    have hk := hpos k (by simp)
    have hpos' : ∀ a ∈ ks, 0 < R.getD a 0 := fun a ha => hpos a (by simp [ha])
    have hP := mrProd_pos (fun k => R.getD k 0) ks hpos'
    simp only [mrProd] at hb ⊢
    have h1 : R.getD k 0 ≤ R.getD k 0 * mrProd (fun k => R.getD k 0) ks := Nat.le_mul_of_pos_right _ hP
    have h2 : mrProd (fun k => R.getD k 0) ks ≤ R.getD k 0 * mrProd (fun k => R.getD k 0) ks :=
      Nat.le_mul_of_pos_left _ hk
    have hdiv : j / mrProd (fun k => R.getD k 0) ks ≤ j := Nat.div_le_self _ _
    have hmod : j % mrProd (fun k => R.getD k 0) ks ≤ j := Nat.mod_le _ _
    simp only [unflatLoopC, unflatLoop]
    rw [toU32_nat (R.getD k 0) (by omega), toU32_nat _ (by omega)]
    have hne : ¬ ((R.getD k 0 : Nat) : Int) = 0 := by omega
    rw [if_neg hne, ← Int.natCast_ediv, Nat.mul_div_cancel_left _ hk, toI32_nat _ (by omega)]
    have hne2 : ¬ ((mrProd (fun k => R.getD k 0) ks : Nat) : Int) = 0 := by omega
    rw [if_neg hne2, ← Int.ofNat_tdiv, ← Int.ofNat_tmod, toU32_nat _ (by omega), Int.toNat_natCast]
    exact ih _ _ hpos' (by omega) (by omega)

/-- **un-flattening**: below 2³¹ columns the C loop divides by no zero and returns the exact index tuple -/
theorem unflattenIdxC_eq (R : List Nat) (dim row col : Nat)
    (hpos : ∀ k ∈ loopDims R.length dim, 0 < R.getD k 0)
    (hb : mrProd (fun k => R.getD k 0) (loopDims R.length dim) < 2147483648)
    (hrow : row < 4294967296) (hcol : col < 2147483648) :
    unflattenIdxC R dim row col = .ok (unflattenIdx R dim row col) := by
  unfold unflattenIdxC unflattenIdx
  simp only
  have hf := foldl_mulIU_eq (fun k => R.getD k 0) (loopDims R.length dim) 1 (by omega) hpos (by omega)
  simp only [Nat.cast_one] at hf
  rw [hf, toI32_nat col hcol, toU32_nat row hrow, Int.toNat_natCast, foldl_mul_eq, Nat.one_mul]
  exact unflatLoopC_eq R _ col _ (fun k hk => hpos k (List.mem_reverse.mp hk))
    (by rw [mrProd_reverse]; exact hb) hcol

/-! ## `slicemultiply` -/
section
variable {α : Type} [A : Arith α]

theorem rowEntriesC_eq (ranges' : List Nat) (b : Mat α) (dim j col : Nat) (v : α) (gs : List Nat)
    (hpos : ∀ k ∈ loopDims ranges'.length dim, 0 < ranges'.getD k 0)
    (hb : mrProd (fun k => ranges'.getD k 0) (loopDims ranges'.length dim) < 2147483648)
    (hcol : col < 2147483648) (hg : ∀ g ∈ gs, g < 4294967296) :
    rowEntriesC ranges' b dim j (col : Nat) v gs
      = .ok (gs.filterMap fun g =>
          if isZero (b.val j g) then none
          else some (unflattenIdx ranges' dim g col, A.mul (b.val j g) v)) := by
  induction gs with
  | nil => simp [rowEntriesC]
  | cons g gs ih =>
    have ih' := ih (fun a ha => hg a (by simp [ha]))
    simp only [rowEntriesC, List.filterMap_cons]
    by_cases hz : isZero (b.val j g) = true
    · rw [if_pos hz, if_pos hz]; exact ih'
    · rw [if_neg hz, if_neg hz, ih', unflattenIdxC_eq ranges' dim g col hpos hb (hg g (by simp)) hcol]

theorem sliceEntriesC_eq (ranges ranges' : List Nat) (b : Mat α) (dim : Nat) (es : List (List Nat × α))
    (hd : dim < ranges.length) (hlen : ranges'.length = ranges.length)
    (hsame : ∀ k, k ≠ dim → ranges'.getD k 0 = ranges.getD k 0)
    (hv : ∀ e ∈ es, IdxIn e.1 ranges) (hb : colsOf ranges dim < 2147483648) (hn : b.ncol ≤ 4294967296) :
    sliceEntriesC ranges ranges' b dim es
      = .ok (es.flatMap fun e =>
          (List.range b.ncol).filterMap fun g =>
            if isZero (b.val (e.1.getD dim 0) g) then none
            else some (unflattenIdx ranges' dim g (flattenCol ranges e.1 dim),
              A.mul (b.val (e.1.getD dim 0) g) e.2)) := by
  induction es with
  | nil => simp [sliceEntriesC]
  | cons e es ih =>
    have ih' := ih (fun a ha => hv a (by simp [ha]))
    have he := hv e (by simp)
    obtain ⟨hc1, hc2⟩ := flattenColC_eq ranges e.1 dim he hd hb
    have hmem : ∀ k ∈ loopDims ranges'.length dim, k < ranges.length ∧ k ≠ dim := by
      intro k hk; rw [hlen] at hk; exact (mem_loopDims hd).mp hk
    have hpos : ∀ k ∈ loopDims ranges'.length dim, 0 < ranges'.getD k 0 := by
      intro k hk
      rw [hsame k (hmem k hk).2]
      have := he.2 k (hmem k hk).1
      omega
    have hb' : mrProd (fun k => ranges'.getD k 0) (loopDims ranges'.length dim) < 2147483648 := by
      rw [mrProd_congr (r' := fun k => ranges.getD k 0) (fun k hk => hsame k (hmem k hk).2), hlen,
        ← colsOf_eq_mrProd ranges dim hd]
      exact hb
    simp only [sliceEntriesC, List.flatMap_cons]
    rw [hc1, rowEntriesC_eq ranges' b dim _ _ e.2 _ hpos hb' (by omega)
      (fun g hg => by have := List.mem_range.mp hg; omega), ih']

/-- **No overflow in `slicemultiply`.**  For a tensor that lists valid indices only, if the flattened
section has fewer than 2³¹ columns (the product of the index ranges other than `dim`) and `b` has at most
2³² columns, the routine with all index arithmetic in `int` / `unsigned int` / `long` meets no undefined
behaviour and returns exactly what the natural-number model returns. -/
theorem sliceMultiplyC_eq (a : NdSparse α) (b : Mat α) (dim : Nat) (ha : a.WF) (hd : dim < a.ranges.length)
    (hsafe : sliceIdxSafe a.ranges dim b.ncol = true) :
    sliceMultiplyC a b dim = CRes.ofOption (sliceMultiply a b dim) := by
  unfold sliceIdxSafe at hsafe
  simp only [Bool.and_eq_true, decide_eq_true_eq] at hsafe
  obtain ⟨hb, hn⟩ := hsafe
  unfold sliceMultiplyC sliceMultiply
  by_cases hm : b.nrow ≠ a.ranges.getD dim 0
  · rw [if_pos hm, if_pos hm]; rfl
  · rw [if_neg hm, if_neg hm]
    simp only [toU32_nat b.ncol hn, Int.toNat_natCast]
    rw [sliceEntriesC_eq a.ranges (a.ranges.set dim b.ncol) b dim a.entries hd (by simp)
      (fun k hk => by rw [getD_set, if_neg (fun h => hk h.1.symm)]) ha hb (by omega)]
    rfl

end

/-! ## the loop of `grideval` -/
section
variable {α : Type} [Field α] [LinearOrder α] [A : Arith α] [L : LawfulArith α]

theorem gridLoopC_eq (ds : List (Dim α)) : ∀ (xss : List (List α)) (i : Nat) (nd : NdSparse α),
    nd.WF → i + ds.length ≤ nd.ranges.length → gridIdxSafe nd.ranges i (xss.map List.length) = true →
    gridLoopC ds xss i nd = CRes.ofOption (gridLoop ds xss i nd) := by
  induction ds with
  | nil =>
    intro xss i nd _ _ _
    cases xss <;> rfl
  | cons d ds ih =>
    intro xss i nd hwf hi hsafe
    cases xss with
    | nil => rfl
    | cons xs xss =>
      simp only [List.map_cons, gridIdxSafe, Bool.and_eq_true] at hsafe
      obtain ⟨⟨h1, h2⟩, h3⟩ := hsafe
      have hd : i < nd.ranges.length := by simp only [List.length_cons] at hi; omega
      have hs : sliceIdxSafe nd.ranges i (bsplineBasis d.knots d.nknots d.order xs).transpose.ncol = true := by
        unfold sliceIdxSafe
        rw [Bool.and_eq_true]
        exact ⟨h1, h2⟩
      simp only [gridLoopC, gridLoop]
      rw [sliceMultiplyC_eq nd _ i hwf hd hs]
      by_cases hb : (bsplineBasis d.knots d.nknots d.order xs).transpose.nrow = nd.ranges.getD i 0
      · obtain ⟨nd', e1, e2, e3, _⟩ := sliceMultiply_spec nd _ i hwf hd hb
        rw [e1]
        simp only [CRes.ofOption]
        apply ih xss (i+1) nd' e3
        · rw [e2, List.length_set]; simp only [List.length_cons] at hi; omega
        · rw [e2]; exact h3
      · have hnone : sliceMultiply nd (bsplineBasis d.knots d.nknots d.order xs).transpose i = none := by
          unfold sliceMultiply; rw [if_pos hb]
        rw [hnone]
        rfl

end
/-! ## a closed-form sufficient bound: `Π_d max(1, naxes_d, npts_d) < 2³¹` -/

theorem prod_filter_map (l : List Nat) (p : Nat → Bool) (f : Nat → Nat) :
    ((l.filter p).map f).prod = (l.map fun i => if p i then f i else 1).prod := by
  induction l with
  | nil => rfl
  | cons a l ih =>
    by_cases h : p a = true
    · simp [List.filter_cons, h, ih]
    · simp [List.filter_cons, h, ih]

theorem map_getD_range (l : List Nat) : (List.range l.length).map (fun i => l.getD i 0) = l := by
  apply List.ext_getElem (by simp)
  intro i h1 h2
  simp [List.getD_eq_getElem?_getD, h2]

/-- the number of columns is the product of the ranges with entry `dim` replaced by 1 -/
theorem colsOf_eq_set_prod (R : List Nat) (dim : Nat) (hd : dim < R.length) :
    colsOf R dim = (R.set dim 1).prod := by
  unfold colsOf
  rw [foldl_cols_eq, Nat.one_mul, prod_filter_map]
  conv_rhs => rw [← map_getD_range (R.set dim 1)]
  rw [List.length_set]
  congr 1
  apply List.map_congr_left
  intro i hi
  rw [getD_set]
  by_cases h : i = dim
  · subst h; simp [hd]
  · have : ¬ (dim = i ∧ dim < R.length) := fun hh => h hh.1.symm
    simp [h, this]

theorem colsOf_append (P Q : List Nat) (a : Nat) : colsOf (P ++ a :: Q) P.length = P.prod * Q.prod := by
  rw [colsOf_eq_set_prod _ _ (by simp)]
  simp

theorem prod_le_prod_max1 (P : List Nat) : P.prod ≤ (P.map (max 1)).prod := by
  induction P with
  | nil => simp
  | cons a P ih =>
    simp only [List.prod_cons, List.map_cons]
    exact Nat.mul_le_mul (Nat.le_max_right 1 a) ih

theorem prod_max1_pos (P : List Nat) : 0 < (P.map (max 1)).prod := by
  induction P with
  | nil => simp
  | cons a P ih =>
    simp only [List.prod_cons, List.map_cons]
    exact Nat.mul_pos (by omega) ih

theorem sizeBound_pos (ns ls : List Nat) : 0 < sizeBound ns ls := by
  induction ns generalizing ls with
  | nil => simp [sizeBound]
  | cons a ns ih =>
    cases ls with
    | nil => simp [sizeBound]
    | cons l ls =>
      simp only [sizeBound]
      exact Nat.mul_pos (by omega) (ih ls)

theorem prod_le_sizeBound (ns ls : List Nat) (h : ns.length = ls.length) : ns.prod ≤ sizeBound ns ls := by
  induction ns generalizing ls with
  | nil => simp [sizeBound]
  | cons a ns ih =>
    cases ls with
    | nil => simp at h
    | cons l ls =>
      simp only [List.prod_cons, sizeBound]
      exact Nat.mul_le_mul (by omega) (ih ls (by simpa using h))

theorem gridIdxSafe_of_bound_aux (Ls : List Nat) : ∀ (P N : List Nat) (B : Nat), N.length = Ls.length →
    (P.map (max 1)).prod * sizeBound N Ls ≤ B → B < 2147483648 →
    gridIdxSafe (P ++ N) P.length Ls = true := by
  induction Ls with
  | nil => intro P N B _ _ _; rfl
  | cons l Ls ih =>
    intro P N B hlen hB hlt
    cases N with
    | nil => simp at hlen
    | cons a N' =>
      have hlen' : N'.length = Ls.length := by simpa using hlen
      simp only [sizeBound] at hB
      have hP := prod_max1_pos P
      have hS := sizeBound_pos N' Ls
      have hm1 : 1 ≤ max 1 (max a l) := Nat.le_max_left _ _
      have hml : max 1 l ≤ max 1 (max a l) := by omega
      -- three monotonicity facts about the bound
      have k1 : (P.map (max 1)).prod * sizeBound N' Ls ≤ (P.map (max 1)).prod * (max 1 (max a l) * sizeBound N' Ls) :=
        Nat.mul_le_mul_left _ (Nat.le_mul_of_pos_left _ (by omega))
      have k2 : max 1 (max a l) ≤ (P.map (max 1)).prod * (max 1 (max a l) * sizeBound N' Ls) :=
        le_trans (Nat.le_mul_of_pos_right _ hS) (Nat.le_mul_of_pos_left _ hP)
      have k3 : (P.map (max 1)).prod * max 1 l * sizeBound N' Ls
          ≤ (P.map (max 1)).prod * (max 1 (max a l) * sizeBound N' Ls) := by
        rw [Nat.mul_assoc]
        exact Nat.mul_le_mul_left _ (Nat.mul_le_mul_right _ hml)
      simp only [gridIdxSafe, Bool.and_eq_true, decide_eq_true_eq]
      refine ⟨⟨?_, ?_⟩, ?_⟩
      · rw [colsOf_append]
        have := Nat.mul_le_mul (prod_le_prod_max1 P) (prod_le_sizeBound N' Ls hlen')
        omega
      · have : l ≤ max 1 (max a l) := by omega
        omega
      · have hset : (P ++ a :: N').set P.length l = (P ++ [l]) ++ N' := by simp
        have hl1 : P.length + 1 = (P ++ [l]).length := by simp
        rw [hset, hl1]
        apply ih (P ++ [l]) N' B hlen' _ hlt
        simp only [List.map_append, List.map_cons, List.map_nil, List.prod_append, List.prod_cons,
          List.prod_nil, Nat.mul_one]
        omega

/-- **closed form**: if `Π_d max(1, naxes_d, npts_d) < 2³¹`, every section `grideval` flattens is safe -/
theorem gridIdxSafe_of_sizeBound (naxes lens : List Nat) (hlen : naxes.length = lens.length)
    (h : sizeBound naxes lens < 2147483648) : gridIdxSafe naxes 0 lens = true := by
  have := gridIdxSafe_of_bound_aux lens [] naxes (sizeBound naxes lens) hlen (by simp) h
  simpa using this

end PsV
