import PsV.Driver.C14
import PsV.Proofs.ConvEval
/-!
The value `evalExact` that the C14 driver prints for the table produced by the exact model is
`ConvSpec.evalTable` (the memoised level-by-level Cox–de Boor table `basisAll` is the shared specification `Bsel`).
-/
namespace PsV
open PsV.Driver.C14

theorem basisAll_level (d : CDim Rat) (x : Rat) : ∀ r : Nat,
    loopN r (fun (r : Nat) (prev : List Rat) =>
        (List.range (d.nknots - r - 2)).map fun i =>
          (x - d.knots.getD i 0) / (d.knots.getD (i + r + 1) 0 - d.knots.getD i 0) * prev.getD i 0
          + (d.knots.getD (i + r + 2) 0 - x) / (d.knots.getD (i + r + 2) 0 - d.knots.getD (i + 1) 0) * prev.getD (i+1) 0)
      ((List.range (d.nknots - 1)).map fun (i : Nat) =>
        if selInd (ConvSpec.toDim d) x (Int.ofNat i) then (1 : Rat) else 0)
    = (List.range (d.nknots - r - 1)).map fun (i : Nat) =>
        Bind (selInd (ConvSpec.toDim d) x) (ConvSpec.toDim d).knots x r (i : Int)
  | 0 => by
    simp only [loopN, Nat.sub_zero]
    apply List.map_congr_left
    intro i _
    rfl
  | r+1 => by
    rw [loopN, basisAll_level d x r]
    have e : d.nknots - (r + 1) - 1 = d.nknots - r - 2 := by omega
    rw [e]
    apply List.map_congr_left
    intro i hi
    rw [List.mem_range] at hi
    have g0 : ((List.range (d.nknots - r - 1)).map fun (i : Nat) =>
        Bind (selInd (ConvSpec.toDim d) x) (ConvSpec.toDim d).knots x r (i : Int)).getD i 0 =
        Bind (selInd (ConvSpec.toDim d) x) (ConvSpec.toDim d).knots x r (i : Int) := by
      rw [List.getD_eq_getElem?_getD, List.getElem?_map, List.getElem?_range (by omega)]
      rfl
    have g1 : ((List.range (d.nknots - r - 1)).map fun (i : Nat) =>
        Bind (selInd (ConvSpec.toDim d) x) (ConvSpec.toDim d).knots x r (i : Int)).getD (i+1) 0 =
        Bind (selInd (ConvSpec.toDim d) x) (ConvSpec.toDim d).knots x r ((i : Int) + 1) := by
      rw [List.getD_eq_getElem?_getD, List.getElem?_map, List.getElem?_range (by omega)]
      rfl
    rw [g0, g1]
    have k0 := toDim_knots_nat d i
    have k1 := toDim_knots_nat d (i + r + 1)
    have k2 := toDim_knots_nat d (i + r + 2)
    have k3 := toDim_knots_nat d (i + 1)
    unfold getK at k0 k1 k2 k3
    show _ = Arith.add (Arith.mul (Arith.div (Arith.sub x _) (Arith.sub _ _)) _) (Arith.mul (Arith.div (Arith.sub _ x) (Arith.sub _ _)) _)
    have c1 : ((i : Int) + (r : Int) + 1) = ((i + r + 1 : Nat) : Int) := by push_cast; ring
    have c2 : ((i : Int) + (r : Int) + 2) = ((i + r + 2 : Nat) : Int) := by push_cast; ring
    have c3 : ((i : Int) + 1) = ((i + 1 : Nat) : Int) := by push_cast; ring
    rw [c1, c2, k0, k1, k2]
    rw [show (ConvSpec.toDim d).knots ((i : Int) + 1) = d.knots.getD (i+1) 0 from by rw [c3]; exact k3]
    rfl

theorem basisAll_eq (d : CDim Rat) (x : Rat) (hn : d.naxes = d.nknots - d.order - 1) :
    basisAll d x = (List.range d.naxes).map (Bsel (ConvSpec.toDim d) x 0) := by
  unfold basisAll
  show loopN d.order _ _ = _
  rw [basisAll_level d x d.order, hn]
  apply List.map_congr_left
  intro i _
  rfl

/-- the driver's exact evaluation of a table is `ConvSpec.evalTable` -/
theorem evalExact_eq_evalTable (R : CTable Rat) (xs : List Rat)
    (hn : ∀ d ∈ R.dims, d.naxes = d.nknots - d.order - 1) :
    evalExact R xs = ConvSpec.evalTable R xs := by
  unfold evalExact ConvSpec.evalTable
  show ConvSpec.contract _ (List.map _ (R.dims.zip xs)) 0 0 = _
  congr 1
  apply List.map_congr_left
  intro ⟨d, x⟩ hmem
  have hd : d ∈ R.dims := (List.of_mem_zip hmem).1
  show (d.stride, some (basisAll d x)) = _
  rw [basisAll_eq d x (hn d hd)]

end PsV
