import PsV.Proofs.FitDiffs
import PsV.Proofs.FitQuad
import PsV.Model.KnotScale
/-!
# C10, knot-scale equivariance: helper lemmas

Multiplying the knot vector of a dimension by `h ≠ 0` divides the `p`-th derivative coefficients (`derivCoef`), the weights
`divided_diffs` returns and hence every entry of the finite-difference matrix of `calc_penalty` (with and without the
T-spline factor `tril`) by `h^p`; multiplying knots and abscissa by `h > 0` leaves every Cox–de Boor value unchanged; so the
objective of the problem on rescaled axes with smoothing `λ h^(2p)` is the objective of the original problem.
-/
set_option linter.unusedSectionVars false
namespace PsV
open Arith Finset

variable {α : Type} [Field α] [LinearOrder α] [IsStrictOrderedRing α] [A : Arith α] [L : LawfulArith α]

theorem scaleKnots_apply (h : α) (t : Int → α) (i : Int) : scaleKnots h t i = h * t i := by
  unfold scaleKnots; rw [L.mul_eq]

theorem powN_eq (h : α) (n : Nat) : powN h n = h ^ n := by
  induction n with
  | zero => simp [powN, L.one_eq]
  | succ n ih => rw [powN, L.mul_eq, ih, pow_succ, mul_comm]

/-! ## the derivative coefficients and the finite-difference weights -/

theorem scale_step (x y u v m h : α) (p : Nat) (hh : h ≠ 0) :
    m * (x / h ^ p - y / h ^ p) / (h * u - h * v) = m * (x - y) / (u - v) / h ^ (p + 1) := by
  rw [← sub_div, ← mul_sub]
  by_cases huv : u - v = 0
  · simp [huv]
  · have hp : h ^ p ≠ 0 := pow_ne_zero _ hh
    field_simp
    ring

/-- `p`-th derivative coefficients on knots `h·t` are those on `t` divided by `h^p` -/
theorem derivCoef_knot_scale' (h : α) (hh : h ≠ 0) (t : Int → α) (order p : Nat) (c : Nat → α) (j : Nat) :
    derivCoef (scaleKnots h t) order p c j = derivCoef t order p c j / h ^ p := by
  induction p generalizing j with
  | zero => simp [derivCoef]
  | succ p ih =>
    rw [derivCoef, derivCoef]
    simp only [L.sub_eq, L.div_eq, L.mul_eq, L.ofNat_eq, scaleKnots_apply]
    rw [ih, ih]
    exact scale_step _ _ _ _ _ h p hh

theorem scale_step_dd (x y u v m h : α) (p : Nat) (hh : h ≠ 0) :
    (x / h ^ p - y / h ^ p) / ((h * u - h * v) / m) = (x - y) / ((u - v) / m) / h ^ (p + 1) := by
  rw [← sub_div, ← mul_sub]
  by_cases huv : u - v = 0
  · simp [huv]
  by_cases hm : m = 0
  · simp [hm]
  · have hp : h ^ p ≠ 0 := pow_ne_zero _ hh
    field_simp
    ring

/-- every weight returned by `divided_diffs` on knots `h·t` is the weight on `t` divided by `h^p` -/
theorem dividedDiffs_knot_scale' (h : α) (hh : h ≠ 0) (t : Int → α) (order p j i : Nat) :
    (dividedDiffs (scaleKnots h t) order p j).getD i 0 = (dividedDiffs t order p j).getD i 0 / h ^ p := by
  induction p generalizing j i with
  | zero =>
    cases i with
    | zero => simp [dividedDiffs]
    | succ i => simp [dividedDiffs]
  | succ p ih =>
    rcases Nat.lt_or_ge (p + 1) i with hi | hi
    · rw [List.getD_eq_default _ _ (by rw [dividedDiffs_length]; omega),
        List.getD_eq_default _ _ (by rw [dividedDiffs_length]; omega), zero_div]
    · rw [dividedDiffs_succ_getD _ order p j i hi, dividedDiffs_succ_getD t order p j i hi]
      simp only [scaleKnots_apply]
      rw [ih j i]
      by_cases h0 : i = 0
      · simp only [h0, if_true]
        have := scale_step_dd 0 ((dividedDiffs t order p j).getD 0 0)
          (t ((j : Int) + order + 1)) (t ((j : Int) + p + 1)) ((order - p : Nat) : α) h p hh
        rw [zero_div] at this
        exact this
      · simp only [h0, if_false]
        rw [ih (j + 1) (i - 1)]
        exact scale_step_dd _ _ _ _ _ h p hh

/-- every entry of the finite-difference matrix of `calc_penalty` (row = `divided_diffs`) is divided by `h^p` -/
theorem finiteDiff_knot_scale' (h : α) (hh : h ≠ 0) (t : Int → α) (order p n r c : Nat) :
    (finiteDiff (scaleKnots h t) order p n).get r c = (finiteDiff t order p n).get r c / h ^ p := by
  by_cases hin : r < n - p ∧ c < n
  · unfold finiteDiff
    rw [tab2_get_ofFn _ hin.1 hin.2, tab2_get_ofFn _ hin.1 hin.2]
    split
    · have e := dividedDiffs_knot_scale' h hh t order p r (c - r)
      rw [L.zero_eq]
      exact e
    · rw [L.zero_eq, zero_div]
  · rw [tab2_get_out _ (by simpa [finiteDiff] using hin), tab2_get_out _ (by simpa [finiteDiff] using hin),
      L.zero_eq, zero_div]

/-- … and so is every entry of `finitediff · tril`, the matrix of the monotonic dimension -/
theorem finiteDiffMono_knot_scale' (h : α) (hh : h ≠ 0) (t : Int → α) (order p n r c : Nat) :
    (finiteDiffMono (scaleKnots h t) order p n).get r c = (finiteDiffMono t order p n).get r c / h ^ p := by
  by_cases hin : r < n - p ∧ c < n
  · unfold finiteDiffMono
    rw [tab2_get_ofFn _ hin.1 hin.2, tab2_get_ofFn _ hin.1 hin.2, sumTo_eq_sum, sumTo_eq_sum, Finset.sum_div]
    refine Finset.sum_congr rfl (fun k _ => ?_)
    split
    · exact finiteDiff_knot_scale' h hh t order p n r k
    · rw [L.zero_eq, zero_div]
  · rw [tab2_get_out _ (by simpa [finiteDiffMono] using hin), tab2_get_out _ (by simpa [finiteDiffMono] using hin),
      L.zero_eq, zero_div]

/-! ## the basis -/

theorem indR_knot_scale (h : α) (hpos : 0 < h) (t : Int → α) (x : α) (i : Int) :
    indR (scaleKnots h t) (h * x) i = indR t x i := by
  unfold indR
  simp only [scaleKnots_apply]
  have e1 : A.le (h * t i) (h * x) = A.le (t i) x := by
    rw [Bool.eq_iff_iff, L.le_iff, L.le_iff]
    exact mul_le_mul_iff_of_pos_left hpos
  have e2 : A.lt (h * x) (h * t (i + 1)) = A.lt x (t (i + 1)) := by
    rw [Bool.eq_iff_iff, L.lt_iff, L.lt_iff]
    exact mul_lt_mul_iff_of_pos_left hpos
  rw [e1, e2]

/-- Cox–de Boor values are invariant under simultaneous scaling of the knots and the abscissa (same order-0 indicator) -/
theorem Bind_knot_scale_ind (ind : Int → Bool) (h : α) (hh : h ≠ 0) (t : Int → α) (x : α) (n : Nat) (i : Int) :
    Bind ind (scaleKnots h t) (h * x) n i = Bind ind t x n i := by
  induction n generalizing i with
  | zero => rfl
  | succ n ih =>
    rw [Bind, Bind]
    simp only [L.add_eq, L.mul_eq, L.div_eq, L.sub_eq, scaleKnots_apply]
    rw [ih, ih, ← mul_sub, ← mul_sub, ← mul_sub, ← mul_sub, mul_div_mul_left _ _ hh, mul_div_mul_left _ _ hh]

/-- … with the right-continuous indicator of the specification, which is invariant for `h > 0` -/
theorem Bind_knot_scale' (h : α) (hpos : 0 < h) (t : Int → α) (x : α) (n : Nat) (i : Int) :
    Bind (indR (scaleKnots h t) (h * x)) (scaleKnots h t) (h * x) n i = Bind (indR t x) t x n i := by
  have e : indR (scaleKnots h t) (h * x) = indR t x := funext (indR_knot_scale h hpos t x)
  rw [e]
  exact Bind_knot_scale_ind _ h (ne_of_gt hpos) t x n i

/-! ## the design matrix of the problem on rescaled axes -/

/-- a point with coordinate `d` multiplied by `h_d` -/
def scalePoint : List α → List α → List α
  | h :: hs, x :: xs => h * x :: scalePoint hs xs
  | _, xs => xs

theorem scaleDims_nil (ds : List (Dim α)) : scaleDims ([] : List α) ds = ds := by cases ds <;> rfl
theorem scaleCoords_nil (cs : List (List α)) : scaleCoords ([] : List α) cs = cs := by cases cs <;> rfl
theorem scaleSmooth_nil (ls : List α) (ps : List Nat) : scaleSmooth ([] : List α) ls ps = ls := by
  cases ls <;> rfl
theorem scalePoint_nil (xs : List α) : scalePoint ([] : List α) xs = xs := by cases xs <;> rfl

theorem scaleDims_naxes (hs : List α) (ds : List (Dim α)) :
    (scaleDims hs ds).map (·.naxes) = ds.map (·.naxes) := by
  induction ds generalizing hs with
  | nil => cases hs <;> rfl
  | cons d ds ih =>
    cases hs with
    | nil => rfl
    | cons h hs => simp only [scaleDims, List.map_cons, ih]; rfl

theorem knotScale_ncoef (hs : List α) (P : FitProblem α) : (P.knotScale hs).ncoef = P.ncoef := by
  unfold FitProblem.ncoef FitProblem.knotScale
  simp only [scaleDims_naxes]

theorem gridPoint_scale (hs : List α) (cs : List (List α)) (g : List Nat) :
    gridPoint (scaleCoords hs cs) g = (gridPoint cs g).map (scalePoint hs) := by
  induction cs generalizing hs g with
  | nil =>
    have e : scaleCoords hs ([] : List (List α)) = [] := by cases hs <;> rfl
    rw [e]
    cases g with
    | nil => simp [gridPoint]; cases hs <;> rfl
    | cons g gs => simp [gridPoint]
  | cons c cs ih =>
    cases hs with
    | nil =>
      rw [scaleCoords_nil]
      have : scalePoint ([] : List α) = id := funext scalePoint_nil
      rw [this, Option.map_id]; rfl
    | cons h hs =>
      cases g with
      | nil => simp [scaleCoords, gridPoint]
      | cons g gs =>
        simp only [scaleCoords, gridPoint]
        rw [ih hs gs, List.getElem?_map]
        cases c[g]? with
        | none => simp
        | some x =>
          cases gridPoint cs gs with
          | none => simp
          | some xs => simp [scalePoint, L.mul_eq]

theorem basisProd_scale (hs : List α) (hpos : ∀ h ∈ hs, 0 < h) (ds : List (Dim α)) (xs : List α) (i : Nat) :
    basisProd (scaleDims hs ds) (scalePoint hs xs) i = basisProd ds xs i := by
  induction ds generalizing hs xs with
  | nil =>
    have e : scaleDims hs ([] : List (Dim α)) = [] := by cases hs <;> rfl
    rw [e]
    cases xs with
    | nil => have : scalePoint hs ([] : List α) = [] := by cases hs <;> rfl
             rw [this]
    | cons x xs =>
      cases hs with
      | nil => rfl
      | cons h hs => simp [scalePoint, basisProd]
  | cons d ds ih =>
    cases hs with
    | nil => rw [scaleDims_nil, scalePoint_nil]
    | cons h hs =>
      cases xs with
      | nil => simp [scalePoint, scaleDims, basisProd]
      | cons x xs =>
        have hh : 0 < h := hpos h (List.mem_cons_self)
        simp only [scaleDims, scalePoint, basisProd, Dim.knotScale]
        rw [Bind_knot_scale' h hh, ih hs (fun h' hm => hpos h' (List.mem_cons_of_mem _ hm))]

theorem knotScale_rows (hs : List α) (P : FitProblem α) : (P.knotScale hs).rows = P.rows := rfl
theorem knotScale_porder (hs : List α) (P : FitProblem α) : (P.knotScale hs).porder = P.porder := rfl

theorem designEntry_knotScale (hs : List α) (hpos : ∀ h ∈ hs, 0 < h) (P : FitProblem α) (r i : Nat) :
    designEntry (P.knotScale hs) r i = designEntry P r i := by
  unfold designEntry
  rw [knotScale_rows]
  cases P.rows[r]? with
  | none => rfl
  | some row =>
    show (match gridPoint (scaleCoords hs P.coords) row.idx with
          | none => A.zero | some xs => basisProd (scaleDims hs P.dims) xs i)
        = (match gridPoint P.coords row.idx with
          | none => A.zero | some xs => basisProd P.dims xs i)
    rw [gridPoint_scale]
    cases gridPoint P.coords row.idx with
    | none => rfl
    | some xs => exact basisProd_scale hs hpos P.dims xs i

/-! ## the penalty of the problem on rescaled axes -/

theorem penaltyTerm_knot_scale (h : α) (hh : h ≠ 0) (t : Int → α) (order p n s outer : Nat) (c : Nat → α) :
    penaltyTerm (scaleKnots h t) order p n s outer c = penaltyTerm t order p n s outer c / h ^ (2 * p) := by
  unfold penaltyTerm
  simp only [sumTo_eq_sum, L.mul_eq]
  rw [Finset.sum_div]
  refine sum_congr rfl (fun a _ => ?_)
  rw [Finset.sum_div]
  refine sum_congr rfl (fun k _ => ?_)
  rw [Finset.sum_div]
  refine sum_congr rfl (fun b _ => ?_)
  rw [derivCoef_knot_scale' h hh, div_mul_div_comm, ← pow_add, two_mul]

theorem penaltySum_knotScale (hs : List α) (hpos : ∀ h ∈ hs, 0 < h) (ds : List (Dim α)) (ls : List α) (ps : List Nat)
    (N : Nat) (c : Nat → α) :
    penaltySum (scaleDims hs ds) (scaleSmooth hs ls ps) ps N c = penaltySum ds ls ps N c := by
  induction ds generalizing hs ls ps with
  | nil =>
    have e : scaleDims hs ([] : List (Dim α)) = [] := by cases hs <;> rfl
    rw [e]; simp [penaltySum]
  | cons d ds ih =>
    cases hs with
    | nil => rw [scaleDims_nil, scaleSmooth_nil]
    | cons h hs =>
      cases ls with
      | nil => simp [scaleSmooth, penaltySum]
      | cons l ls =>
        cases ps with
        | nil => simp [scaleSmooth, penaltySum]
        | cons p ps =>
          have hh : h ≠ 0 := ne_of_gt (hpos h (List.mem_cons_self))
          simp only [scaleDims, scaleSmooth, penaltySum, Dim.knotScale]
          rw [ih hs (fun h' hm => hpos h' (List.mem_cons_of_mem _ hm)), penaltyTerm_knot_scale h hh]
          simp only [L.add_eq, L.mul_eq, powN_eq]
          congr 1
          have hp : h ^ (2 * p) ≠ 0 := pow_ne_zero _ hh
          field_simp

/-- **the objective of the problem on rescaled axes is the objective of the original problem**, for every coefficient vector -/
theorem objective_knotScale (hs : List α) (hpos : ∀ h ∈ hs, 0 < h) (P : FitProblem α) (c : Nat → α) :
    objective (P.knotScale hs) c = objective P c := by
  have hd : designEntry (P.knotScale hs) = designEntry P :=
    funext fun r => funext fun i => designEntry_knotScale hs hpos P r i
  unfold objective
  rw [knotScale_ncoef, hd, knotScale_rows, knotScale_porder]
  have hw : rowW (P.knotScale hs) = rowW P := rfl
  have hz : rowZ (P.knotScale hs) = rowZ P := rfl
  rw [hw, hz]
  congr 1
  exact penaltySum_knotScale hs hpos P.dims P.smooth P.porder P.ncoef c


/-! ## `DtD` of `calc_penalty` times the rescaled smoothing -/

/-- if every entry of `D'` is the entry of `D` divided by `h^p`, every entry of `D'ᵀD'` is that of `DᵀD` divided by `h^(2p)` -/
theorem dtd_scale (h : α) (p : Nat) (D D' : Tab2 α) (hn : D'.n = D.n) (hm : D'.m = D.m)
    (he : ∀ r c, D'.get r c = D.get r c / h ^ p) (i j : Nat) :
    (dtd D').get i j = (dtd D).get i j / h ^ (2 * p) := by
  by_cases hin : i < D.m ∧ j < D.m
  · unfold dtd
    rw [hm, hn, tab2_get_ofFn _ hin.1 hin.2, tab2_get_ofFn _ hin.1 hin.2, sumTo_eq_sum, sumTo_eq_sum, Finset.sum_div]
    refine sum_congr rfl (fun q _ => ?_)
    rw [L.mul_eq, L.mul_eq, he, he, div_mul_div_comm, ← pow_add, two_mul]
  · rw [tab2_get_out _ (by simpa [dtd, hm] using hin), tab2_get_out _ (by simpa [dtd] using hin), L.zero_eq, zero_div]

/-- what `add_penalty_term` adds for a dimension on a rescaled axis with smoothing `λ h^(2p)` is what it adds at scale 1
with smoothing `λ` — both for the plain (`mono = 0`) and the T-spline (`mono = 1`) finite-difference matrix -/
theorem penalty_chunk_knot_scale (h : α) (hh : h ≠ 0) (lam : α) (t : Int → α) (order p n i j : Nat) :
    lam * h ^ (2 * p) * (dtd (finiteDiff (scaleKnots h t) order p n)).get i j = lam * (dtd (finiteDiff t order p n)).get i j
    ∧ lam * h ^ (2 * p) * (dtd (finiteDiffMono (scaleKnots h t) order p n)).get i j
        = lam * (dtd (finiteDiffMono t order p n)).get i j := by
  have hp : h ^ (2 * p) ≠ 0 := pow_ne_zero _ hh
  constructor
  · rw [dtd_scale h p (finiteDiff t order p n) (finiteDiff (scaleKnots h t) order p n) rfl rfl
      (finiteDiff_knot_scale' h hh t order p n)]
    field_simp
  · rw [dtd_scale h p (finiteDiffMono t order p n) (finiteDiffMono (scaleKnots h t) order p n) rfl rfl
      (finiteDiffMono_knot_scale' h hh t order p n)]
    field_simp

end PsV
