import PsV.Proofs.FitsCards
import PsV.Proofs.FitsNum
import PsV.Proofs.FitsHdu
/-! The encoder/reader round trip of C08, for every well-formed table: `readCoreBytes (encode t) = some t.core`. -/
namespace PsV.C08

/-! ## indexed keys (`NAXISn`, `ORDERn`) and names (`KNOTSn`) -/

def isDig (d : Nat) : Prop := 48 ≤ d ∧ d ≤ 57

/-- a run of digits followed by something that does not start with a digit determines the run -/
theorem digits_prefix_unique : ∀ (l₁ l₂ t₁ t₂ : Bytes), (∀ d ∈ l₁, isDig d) → (∀ d ∈ l₂, isDig d) →
    (∀ x, t₁.head? = some x → ¬ isDig x) → (∀ x, t₂.head? = some x → ¬ isDig x) →
    l₁ ++ t₁ = l₂ ++ t₂ → l₁ = l₂
  | [], [], _, _, _, _, _, _, _ => rfl
  | [], d :: l₂, t₁, t₂, _, h2, h3, _, h => by
    rw [List.nil_append, List.cons_append] at h
    exact absurd (h2 d (List.mem_cons_self ..)) (h3 d (by rw [h]; rfl))
  | d :: l₁, [], t₁, t₂, h1, _, _, h4, h => by
    rw [List.nil_append, List.cons_append] at h
    exact absurd (h1 d (List.mem_cons_self ..)) (h4 d (by rw [← h]; rfl))
  | d :: l₁, e :: l₂, t₁, t₂, h1, h2, h3, h4, h => by
    rw [List.cons_append, List.cons_append, List.cons.injEq] at h
    rw [h.1, digits_prefix_unique l₁ l₂ t₁ t₂ (fun x hx => h1 x (List.mem_cons_of_mem _ hx))
      (fun x hx => h2 x (List.mem_cons_of_mem _ hx)) h3 h4 h.2]

theorem replicate32_head (a : Nat) (t : Bytes) (ht : ∀ x, t.head? = some x → ¬ isDig x) :
    ∀ x, (List.replicate a 32 ++ t).head? = some x → ¬ isDig x := by
  intro x hx
  cases a with
  | zero => exact ht x (by simpa using hx)
  | succ k =>
    rw [List.replicate_succ, List.cons_append, List.head?_cons, Option.some.injEq] at hx
    subst hx; unfold isDig; omega

theorem keyIdx_eq (pfx : String) (i : Nat) :
    keyIdx pfx i = str pfx ++ (decimal i ++ List.replicate (8 - (str pfx ++ decimal i).length) 32) := by
  unfold keyIdx padRight; rw [List.append_assoc]

theorem keyIdx_length (pfx : String) (i : Nat) (hp : (str pfx).length = 5) (hi : i < 1000) : (keyIdx pfx i).length = 8 := by
  unfold keyIdx
  apply padRight_length
  have := decimal_length_le (n := i) (k := 3) (by omega) (by omega)
  rw [List.length_append, hp]; omega

theorem keyIdx_inj (pfx : String) {i j : Nat} (h : keyIdx pfx i = keyIdx pfx j) : i = j := by
  rw [keyIdx_eq, keyIdx_eq] at h
  have h' := List.append_cancel_left h
  exact decimal_inj (digits_prefix_unique _ _ _ _ (decimal_digits i) (decimal_digits j)
    (by simpa using replicate32_head _ [] (by simp)) (by simpa using replicate32_head _ [] (by simp)) h')

/-- first byte of a key -/
def first (b : Bytes) : Nat := b.headD 0

theorem keyIdx_first (pfx : String) (i c : Nat) (t : Bytes) (hp : str pfx = c :: t) : first (keyIdx pfx i) = c := by
  rw [keyIdx_eq, hp]; rfl

theorem ne_of_first_ne {a b : Bytes} (h : first a ≠ first b) : a ≠ b := fun e => h (by rw [e])

/-- a key with an index differs from the bare 5-letter key: its sixth byte is a digit, not a blank -/
theorem keyIdx_ne_keyOf (pfx : String) (i : Nat) (hp : (str pfx).length = 5) : keyIdx pfx i ≠ keyOf pfx := by
  intro h
  rw [keyIdx_eq] at h
  unfold keyOf padRight at h
  have h' := List.append_cancel_left h
  rw [hp] at h'
  have hpos := decimal_length_pos i
  cases hd : decimal i with
  | nil => rw [hd] at hpos; exact absurd hpos (by simp)
  | cons d r =>
    rw [hd] at h'
    have hdig := decimal_digits i d (by rw [hd]; exact List.mem_cons_self ..)
    have : d = 32 := by
      have := congrArg List.head? h'
      simpa using this
    omega

theorem str_NAXIS : str "NAXIS" = [78, 65, 88, 73, 83] := by decide
theorem str_ORDER : str "ORDER" = [79, 82, 68, 69, 82] := by decide
theorem str_KNOTS : str "KNOTS" = [75, 78, 79, 84, 83] := by decide

theorem first_NAXISn (i : Nat) : first (keyIdx "NAXIS" i) = 78 := keyIdx_first _ _ _ _ str_NAXIS
theorem first_ORDERn (i : Nat) : first (keyIdx "ORDER" i) = 79 := keyIdx_first _ _ _ _ str_ORDER

/-! ### `KNOTSn` names -/

theorem strField_eq (s : Bytes) (hs : s.length ≤ 8) :
    padRight 20 32 ([39] ++ padRight 8 32 s ++ [39]) = [39] ++ (s ++ (List.replicate (8 - s.length) 32 ++ ([39] ++ List.replicate 10 32))) := by
  unfold padRight
  have e : 20 - ([39] ++ (s ++ List.replicate (8 - s.length) 32) ++ [39]).length = 10 := by
    simp only [List.length_append, List.length_cons, List.length_nil, List.length_replicate]; omega
  rw [e]
  simp only [List.append_assoc, List.cons_append, List.nil_append]

theorem str_quote : str "'" = [39] := by decide

theorem knotsName_eq (i : Nat) (hi : i < 1000) :
    knotsName i = [39] ++ ([75, 78, 79, 84, 83] ++ (decimal i ++ (List.replicate (8 - (5 + (decimal i).length)) 32 ++ ([39] ++ List.replicate 10 32)))) := by
  unfold knotsName strField
  have hl := decimal_length_le (n := i) (k := 3) (by omega) (by omega)
  rw [str_quote, str_append, str_KNOTS]
  show padRight 20 32 ([39] ++ padRight 8 32 ([75, 78, 79, 84, 83] ++ decimal i) ++ [39]) = _
  rw [strField_eq _ (by simp; omega)]
  simp only [List.append_assoc, List.length_append, List.length_cons, List.length_nil]

theorem knotsName_inj {i j : Nat} (hi : i < 1000) (hj : j < 1000) (h : knotsName i = knotsName j) : i = j := by
  rw [knotsName_eq i hi, knotsName_eq j hj] at h
  have h' := List.append_cancel_left (List.append_cancel_left h)
  exact decimal_inj (digits_prefix_unique _ _ _ _ (decimal_digits i) (decimal_digits j)
    (replicate32_head _ _ (by intro x hx; simp at hx; subst hx; unfold isDig; omega))
    (replicate32_head _ _ (by intro x hx; simp at hx; subst hx; unfold isDig; omega)) h')

theorem knotsName_length (i : Nat) (hi : i < 1000) : (knotsName i).length = 20 := by
  have hl := decimal_length_le (n := i) (k := 3) (by omega) (by omega)
  rw [knotsName_eq i hi]
  simp only [List.length_append, List.length_cons, List.length_nil, List.length_replicate]
  omega

/-! ## literal keys and fields -/

theorem key_SIMPLE : keyOf "SIMPLE" = [83, 73, 77, 80, 76, 69, 32, 32] := by decide
theorem key_BITPIX : keyOf "BITPIX" = [66, 73, 84, 80, 73, 88, 32, 32] := by decide
theorem key_NAXIS : keyOf "NAXIS" = [78, 65, 88, 73, 83, 32, 32, 32] := by decide
theorem key_EXTEND : keyOf "EXTEND" = [69, 88, 84, 69, 78, 68, 32, 32] := by decide
theorem key_XTENSION : keyOf "XTENSION" = [88, 84, 69, 78, 83, 73, 79, 78] := by decide
theorem key_PCOUNT : keyOf "PCOUNT" = [80, 67, 79, 85, 78, 84, 32, 32] := by decide
theorem key_GCOUNT : keyOf "GCOUNT" = [71, 67, 79, 85, 78, 84, 32, 32] := by decide
theorem key_EXTNAME : keyOf "EXTNAME" = [69, 88, 84, 78, 65, 77, 69, 32] := by decide
theorem key_END : keyOf "END" = [69, 78, 68, 32, 32, 32, 32, 32] := by decide
theorem key_ORDER : keyOf "ORDER" = [79, 82, 68, 69, 82, 32, 32, 32] := by decide
theorem key_NAXIS1 : keyIdx "NAXIS" 1 = [78, 65, 88, 73, 83, 49, 32, 32] := by decide
theorem fieldOf_m32_length : (fieldOf "-32").length = 20 := by decide
theorem fieldOf_m64_length : (fieldOf "-64").length = 20 := by decide
theorem fieldOf_T_length : (fieldOf "T").length = 20 := by decide
theorem fieldOf_m32_ne_m64 : (fieldOf "-64" == fieldOf "-32") = false := by decide
theorem strField_IMAGE_length : (strField "IMAGE").length = 20 := by decide
theorem strField_EXTENTS_length : (strField "EXTENTS").length = 20 := by decide

theorem card_key_cardOf8 (a b c d e f g h : Nat) (field : Bytes) (comment : String) :
    card_key (cardOf [a, b, c, d, e, f, g, h] field comment) = [a, b, c, d, e, f, g, h] :=
  card_key_cardOf _ _ _ rfl

theorem card_field_cardOf8 (a b c d e f g h : Nat) (field : Bytes) (comment : String) (hf : field.length = 20) :
    card_field (cardOf [a, b, c, d, e, f, g, h] field comment) = field :=
  card_field_cardOf _ _ _ rfl hf

theorem findCard_cons (c : Bytes) (cs : List Bytes) (key : Bytes) :
    findCard (c :: cs) key = if card_key c = key then some c else findCard cs key := by
  by_cases h : card_key c = key
  · rw [if_pos h, findCard_cons_eq h]
  · rw [if_neg h, findCard_cons_ne h]

theorem isEnd_iff (c : Bytes) : isEnd c = true ↔ card_key c = [69, 78, 68, 32, 32, 32, 32, 32] := by
  unfold isEnd; rw [key_END]; simp

/-! ## an extension HDU (`KNOTSn`, `EXTENTS`) -/

/-- `extCards` with its keys written out -/
theorem extCards_eq (name : String) (n : Nat) : extCards name n =
    [cardOf [88, 84, 69, 78, 83, 73, 79, 78] (strField "IMAGE") "IMAGE extension",
     cardOf [66, 73, 84, 80, 73, 88, 32, 32] (fieldOf "-64") "number of bits per data pixel",
     cardOf [78, 65, 88, 73, 83, 32, 32, 32] (fmtNat20 1) "number of data axes",
     cardOf [78, 65, 88, 73, 83, 49, 32, 32] (fmtNat20 n) "length of data axis 1",
     cardOf [80, 67, 79, 85, 78, 84, 32, 32] (fmtNat20 0) "required keyword; must = 0",
     cardOf [71, 67, 79, 85, 78, 84, 32, 32] (fmtNat20 1) "required keyword; must = 1",
     cardOf [69, 88, 84, 78, 65, 77, 69, 32] (strField name) ""] := by
  unfold extCards cardNat
  rw [key_XTENSION, key_BITPIX, key_NAXIS, key_NAXIS1, key_PCOUNT, key_GCOUNT, key_EXTNAME]

theorem extCards_extName (name : String) (n : Nat) (hn : (strField name).length = 20) :
    extName (extCards name n) = some (strField name) := by
  unfold extName
  rw [key_EXTNAME, extCards_eq]
  simp [findCard_cons, card_key_cardOf8, card_field_cardOf8, hn]

theorem extCards_bytesPerPix (name : String) (n : Nat) : bytesPerPix (extCards name n) = some 8 := by
  unfold bytesPerPix
  rw [key_BITPIX, extCards_eq]
  simp [findCard_cons, card_key_cardOf8, card_field_cardOf8, fieldOf_m64_length, fieldOf_m32_ne_m64]

theorem extCards_axes (name : String) (n : Nat) (hn : n < 10 ^ 20) : axes (extCards name n) = some [n] := by
  unfold axes intKey
  rw [key_NAXIS, extCards_eq]
  simp [findCard_cons, card_key_cardOf8, card_field_cardOf8, fmtNat20_length, parseField_fmtNat20, hn, key_NAXIS1,
    List.range_succ, optAll]

theorem extCards_dataLen (name : String) (n : Nat) (hn : n < 10 ^ 20) : dataLen (extCards name n) = some (8 * n) := by
  unfold dataLen
  rw [extCards_bytesPerPix, extCards_axes name n hn]
  simp [prod]

theorem extCards_knotHdrOkFor (name : String) (n order naxis : Nat) (hn : n < 10 ^ 20) (h0 : 0 < n)
    (hc : countsOk order naxis n = true) : knotHdrOkFor order naxis (extCards name n) = true := by
  unfold knotHdrOkFor knotHdrOk
  rw [extCards_bytesPerPix, extCards_axes name n hn]
  simp [h0, hc]

theorem cardOf8_length (a b c d e f g h : Nat) (field : Bytes) (comment : String) (hf : field.length = 20)
    (hc : (if comment = "" then [] else str (" / " ++ comment)).length ≤ 50) :
    (cardOf [a, b, c, d, e, f, g, h] field comment).length = 80 := cardOf_length _ _ _ rfl hf hc

theorem extCards_length (name : String) (n : Nat) (hn : (strField name).length = 20) :
    ∀ c ∈ extCards name n, c.length = 80 := by
  intro c hc
  rw [extCards_eq] at hc
  simp only [List.mem_cons, List.not_mem_nil, or_false] at hc
  rcases hc with rfl | rfl | rfl | rfl | rfl | rfl | rfl
  · exact cardOf8_length _ _ _ _ _ _ _ _ _ _ strField_IMAGE_length (by decide)
  · exact cardOf8_length _ _ _ _ _ _ _ _ _ _ fieldOf_m64_length (by decide)
  · exact cardOf8_length _ _ _ _ _ _ _ _ _ _ (fmtNat20_length _) (by decide)
  · exact cardOf8_length _ _ _ _ _ _ _ _ _ _ (fmtNat20_length _) (by decide)
  · exact cardOf8_length _ _ _ _ _ _ _ _ _ _ (fmtNat20_length _) (by decide)
  · exact cardOf8_length _ _ _ _ _ _ _ _ _ _ (fmtNat20_length _) (by decide)
  · exact cardOf8_length _ _ _ _ _ _ _ _ _ _ hn (by decide)

theorem extCards_noEnd (name : String) (n : Nat) : ∀ c ∈ extCards name n, isEnd c = false := by
  intro c hc
  rw [extCards_eq] at hc
  simp only [List.mem_cons, List.not_mem_nil, or_false] at hc
  rw [Bool.eq_false_iff, Ne, isEnd_iff]
  rcases hc with rfl | rfl | rfl | rfl | rfl | rfl | rfl <;> rw [card_key_cardOf8] <;> decide

/-! ## `optAll` -/

theorem optAll_map_some {α : Type} : ∀ (l : List α), optAll (l.map some) = some l
  | [] => rfl
  | x :: l => by rw [List.map_cons, optAll, optAll_map_some l]

theorem optAll_range {α : Type} (d : α) (f : Nat → Option α) (l : List α) (h : ∀ i, i < l.length → f i = some (l.getD i d)) :
    optAll ((List.range l.length).map f) = some l := by
  have : (List.range l.length).map f = l.map some := by
    apply List.ext_getElem
    · simp
    · intro i h1 h2
      have hi : i < l.length := by simpa using h1
      rw [List.getElem_map, List.getElem_map, List.getElem_range, h i hi, List.getD_eq_getElem?_getD, List.getElem?_eq_getElem hi]; rfl
  rw [this, optAll_map_some]

/-! ## the primary header -/

theorem key_COMMENT1 : card_key (cardRaw "COMMENT   FITS (Flexible Image Transport System) format is defined in 'Astronomy")
    = [67, 79, 77, 77, 69, 78, 84, 32] := by decide
theorem key_COMMENT2 : card_key (cardRaw "COMMENT   and Astrophysics', volume 376, page 359; bibcode: 2001A&A...376..359H")
    = [67, 79, 77, 77, 69, 78, 84, 32] := by decide
theorem key_TYPE : card_key (cardRaw "TYPE    = 'Spline Coefficient Table'") = [84, 89, 80, 69, 32, 32, 32, 32] := by decide
set_option maxRecDepth 10000 in
theorem len_COMMENT1 : (cardRaw "COMMENT   FITS (Flexible Image Transport System) format is defined in 'Astronomy").length = 80 := by decide
set_option maxRecDepth 10000 in
theorem len_COMMENT2 : (cardRaw "COMMENT   and Astrophysics', volume 376, page 359; bibcode: 2001A&A...376..359H").length = 80 := by decide
set_option maxRecDepth 10000 in
theorem len_TYPE : (cardRaw "TYPE    = 'Spline Coefficient Table'").length = 80 := by decide

def naxisCard (ax : List Nat) (i : Nat) : Bytes :=
  cardNat (keyIdx "NAXIS" (i+1)) (ax.getD i 0) ("length of data axis " ++ toString (i+1))
def orderCard (os : List Nat) (i : Nat) : Bytes := cardNat (keyIdx "ORDER" i) (os.getD i 0) "B-Spline Order"

theorem primaryCards_eq (t : Table) : primaryCards t =
    cardOf [83, 73, 77, 80, 76, 69, 32, 32] (fieldOf "T") "file does conform to FITS standard" ::
    cardOf [66, 73, 84, 80, 73, 88, 32, 32] (fieldOf "-32") "number of bits per data pixel" ::
    cardOf [78, 65, 88, 73, 83, 32, 32, 32] (fmtNat20 t.naxes.length) "number of data axes" ::
    ((List.range t.naxes.reverse.length).map (naxisCard t.naxes.reverse) ++
    (cardOf [69, 88, 84, 69, 78, 68, 32, 32] (fieldOf "T") "FITS dataset may contain extensions" ::
     cardRaw "COMMENT   FITS (Flexible Image Transport System) format is defined in 'Astronomy" ::
     cardRaw "COMMENT   and Astrophysics', volume 376, page 359; bibcode: 2001A&A...376..359H" ::
     cardRaw "TYPE    = 'Spline Coefficient Table'" ::
     ((List.range t.orders.length).map (orderCard t.orders) ++ t.extraCards))) := by
  unfold primaryCards naxisCards cardNat
  rw [key_SIMPLE, key_BITPIX, key_NAXIS, key_EXTEND]
  simp only [List.cons_append, List.nil_append, List.append_assoc]
  rfl

theorem naxisCard_key (ax : List Nat) (i : Nat) (hi : i + 1 < 1000) : card_key (naxisCard ax i) = keyIdx "NAXIS" (i+1) :=
  card_key_cardOf _ _ _ (keyIdx_length _ _ (by rw [str_NAXIS]; rfl) hi)

theorem orderCard_key (os : List Nat) (i : Nat) (hi : i < 1000) : card_key (orderCard os i) = keyIdx "ORDER" i :=
  card_key_cardOf _ _ _ (keyIdx_length _ _ (by rw [str_ORDER]; rfl) hi)

theorem naxisCard_field (ax : List Nat) (i : Nat) (hi : i + 1 < 1000) : card_field (naxisCard ax i) = fmtNat20 (ax.getD i 0) :=
  card_field_cardOf _ _ _ (keyIdx_length _ _ (by rw [str_NAXIS]; rfl) hi) (fmtNat20_length _)

theorem orderCard_field (os : List Nat) (i : Nat) (hi : i < 1000) : card_field (orderCard os i) = fmtNat20 (os.getD i 0) :=
  card_field_cardOf _ _ _ (keyIdx_length _ _ (by rw [str_ORDER]; rfl) hi) (fmtNat20_length _)

theorem first8 (a b c d e f g h : Nat) : first [a, b, c, d, e, f, g, h] = a := rfl

/-- what the keys of the primary header can be -/
theorem primary_keys (t : Table) (hn : t.naxes.length ≤ 999) (ho : t.orders.length ≤ 999) :
    ∀ c ∈ primaryCards t,
      card_key c ∈ [[83, 73, 77, 80, 76, 69, 32, 32], [66, 73, 84, 80, 73, 88, 32, 32], [78, 65, 88, 73, 83, 32, 32, 32],
                    [69, 88, 84, 69, 78, 68, 32, 32], [67, 79, 77, 77, 69, 78, 84, 32], [84, 89, 80, 69, 32, 32, 32, 32]]
      ∨ (∃ i, card_key c = keyIdx "NAXIS" i) ∨ (∃ i, card_key c = keyIdx "ORDER" i) ∨ c ∈ t.extraCards := by
  intro c hc
  rw [primaryCards_eq] at hc
  simp only [List.mem_cons, List.mem_append, List.mem_map, List.mem_range, List.length_reverse] at hc
  rcases hc with rfl | rfl | rfl | ⟨i, hi, rfl⟩ | rfl | rfl | rfl | rfl | ⟨i, hi, rfl⟩ | hx
  · left; rw [card_key_cardOf8]; simp
  · left; rw [card_key_cardOf8]; simp
  · left; rw [card_key_cardOf8]; simp
  · right; left; exact ⟨i+1, naxisCard_key _ _ (by omega)⟩
  · left; rw [card_key_cardOf8]; simp
  · left; rw [key_COMMENT1]; simp
  · left; rw [key_COMMENT2]; simp
  · left; rw [key_TYPE]; simp
  · right; right; left; exact ⟨i, orderCard_key _ _ (by omega)⟩
  · right; right; right; exact hx

/-! ## well-formedness, unpacked -/

structure WF (t : Table) : Prop where
  ndim_pos : 0 < t.orders.length
  ndim_le : t.orders.length ≤ 999
  naxes_len : t.naxes.length = t.orders.length
  knots_len : t.knots.length = t.orders.length
  orders_lt : ∀ o ∈ t.orders, o < 2 ^ 31
  naxes_lt : ∀ a ∈ t.naxes, a < 2 ^ 63
  coeffs_len : t.coeffs.length = prod t.naxes
  coeffs_lt : ∀ c ∈ t.coeffs, c < 2 ^ 32
  counts : ∀ i, i < t.orders.length → countsOk (t.orders.getD i 0) (t.naxes.getD i 0) (t.knots.getD i []).length = true
  knots_ok : ∀ k ∈ t.knots, (∀ w ∈ k, w < 2 ^ 64) ∧ k.length < 2 ^ 63 ∧ knotsValid k = true
  extents_len : ∀ e, t.extents = some e → e.length = 2 * t.orders.length
  extra : ∀ c ∈ t.extraCards, c.length = 80 ∧ card_key c ≠ keyOf "END" ∧ card_key c ≠ keyOf "ORDER" ∧ card_key c ≠ keyOf "EXTNAME"

theorem wf_spec {t : Table} (h : t.wf = true) : WF t := by
  unfold Table.wf at h
  simp only [Bool.and_eq_true, decide_eq_true_eq, List.all_eq_true, beq_iff_eq, bne_iff_ne, List.mem_range] at h
  obtain ⟨⟨⟨⟨⟨⟨⟨⟨⟨⟨⟨h1, h2⟩, h3⟩, h4⟩, h5⟩, h6⟩, h7⟩, h8⟩, h9⟩, h10⟩, h11⟩, h12⟩ := h
  refine ⟨h1, h2, h3, h4, h5, h6, h7, h8, h9, ?_, ?_, ?_⟩
  · intro k hk; obtain ⟨⟨a, b⟩, c⟩ := h10 k hk; exact ⟨a, b, c⟩
  · intro e he; rw [he] at h11; simpa using h11
  · intro c hc; obtain ⟨⟨⟨a, b⟩, c'⟩, d⟩ := h12 c hc; exact ⟨a, b, c', d⟩

/-! ## look-ups in the primary header of a well-formed table -/

/-- no card of the primary header carries a key of first byte `E` (69) other than `EXTEND` -/
theorem primary_key_ne (t : Table) (w : WF t) (key : Bytes) (hfirst : first key = 69)
    (hfixed : key ∉ [[83, 73, 77, 80, 76, 69, 32, 32], [66, 73, 84, 80, 73, 88, 32, 32], [78, 65, 88, 73, 83, 32, 32, 32],
                    [69, 88, 84, 69, 78, 68, 32, 32], [67, 79, 77, 77, 69, 78, 84, 32], [84, 89, 80, 69, 32, 32, 32, 32]])
    (hextra : ∀ c ∈ t.extraCards, card_key c ≠ key) : ∀ c ∈ primaryCards t, card_key c ≠ key := by
  intro c hc
  rcases primary_keys t (by rw [w.naxes_len]; exact w.ndim_le) w.ndim_le c hc with h | ⟨i, h⟩ | ⟨i, h⟩ | h
  · intro e; rw [e] at h; exact hfixed h
  · rw [h]; apply ne_of_first_ne; rw [first_NAXISn, hfirst]; omega
  · rw [h]; apply ne_of_first_ne; rw [first_ORDERn, hfirst]; omega
  · exact hextra c h

theorem primary_noEnd (t : Table) (w : WF t) : ∀ c ∈ primaryCards t, isEnd c = false := by
  intro c hc
  rw [Bool.eq_false_iff, Ne, isEnd_iff]
  exact primary_key_ne t w _ rfl (by decide) (fun c hc => by rw [← key_END]; exact (w.extra c hc).2.1) c hc

theorem primary_extName (t : Table) (w : WF t) : extName (primaryCards t) = none := by
  unfold extName
  rw [findCard_none]
  rw [key_EXTNAME]
  exact primary_key_ne t w _ rfl (by decide) (fun c hc => by rw [← key_EXTNAME]; exact (w.extra c hc).2.2.2)

theorem primary_no_ORDER (t : Table) (w : WF t) : intKey (primaryCards t) (keyOf "ORDER") = none := by
  unfold intKey
  rw [findCard_none]
  intro c hc
  rcases primary_keys t (by rw [w.naxes_len]; exact w.ndim_le) w.ndim_le c hc with h | ⟨i, h⟩ | ⟨i, h⟩ | h
  · intro e; rw [e, key_ORDER] at h; revert h; decide
  · rw [h]; apply ne_of_first_ne; rw [first_NAXISn, key_ORDER]; decide
  · rw [h]; exact keyIdx_ne_keyOf _ _ (by rw [str_ORDER]; rfl)
  · exact (w.extra c h).2.2.1

theorem comment_len (s : String) (i : Nat) (hi : i < 1000) (hs : (str (" / " ++ s)).length ≤ 47) :
    (if s ++ toString i = "" then [] else str (" / " ++ (s ++ toString i))).length ≤ 50 := by
  have hl := decimal_length_le (n := i) (k := 3) (by omega) (by omega)
  split
  · simp
  · rw [← String.append_assoc, str_append]
    show (str (" / " ++ s) ++ decimal i).length ≤ 50
    rw [List.length_append]; omega

theorem primary_length (t : Table) (w : WF t) : ∀ c ∈ primaryCards t, c.length = 80 := by
  intro c hc
  rw [primaryCards_eq] at hc
  simp only [List.mem_cons, List.mem_append, List.mem_map, List.mem_range, List.length_reverse] at hc
  have hn := w.naxes_len; have hle := w.ndim_le
  rcases hc with rfl | rfl | rfl | ⟨i, hi, rfl⟩ | rfl | rfl | rfl | rfl | ⟨i, hi, rfl⟩ | hx
  · exact cardOf8_length _ _ _ _ _ _ _ _ _ _ fieldOf_T_length (by decide)
  · exact cardOf8_length _ _ _ _ _ _ _ _ _ _ fieldOf_m32_length (by decide)
  · exact cardOf8_length _ _ _ _ _ _ _ _ _ _ (fmtNat20_length _) (by decide)
  · exact cardOf_length _ _ _ (keyIdx_length _ _ (by rw [str_NAXIS]; rfl) (by omega)) (fmtNat20_length _)
      (comment_len _ _ (by omega) (by decide))
  · exact cardOf8_length _ _ _ _ _ _ _ _ _ _ fieldOf_T_length (by decide)
  · exact len_COMMENT1
  · exact len_COMMENT2
  · exact len_TYPE
  · exact cardOf_length _ _ _ (keyIdx_length _ _ (by rw [str_ORDER]; rfl) (by omega)) (fmtNat20_length _) (by decide)
  · exact (w.extra c hx).1

theorem getD_lt {l : List Nat} {B : Nat} (h : ∀ a ∈ l, a < B) (hB : 0 < B) (i : Nat) : l.getD i 0 < B := by
  rw [List.getD_eq_getElem?_getD]
  cases hi : l[i]? with
  | none => exact hB
  | some a => exact h a (List.mem_of_getElem? hi)

theorem primary_bytesPerPix (t : Table) : bytesPerPix (primaryCards t) = some 4 := by
  unfold bytesPerPix
  rw [key_BITPIX, primaryCards_eq]
  simp [findCard_cons, card_key_cardOf8, card_field_cardOf8, fieldOf_m32_length]

theorem primary_simple (t : Table) : (findCard (primaryCards t) (keyOf "SIMPLE")).isSome = true := by
  rw [key_SIMPLE, primaryCards_eq]
  simp [findCard_cons, card_key_cardOf8]

theorem primary_naxis (t : Table) (w : WF t) : intKey (primaryCards t) (keyOf "NAXIS") = some t.naxes.length := by
  unfold intKey
  have : t.naxes.length < 10 ^ 20 := by have := w.naxes_len; have := w.ndim_le; omega
  rw [key_NAXIS, primaryCards_eq]
  simp [findCard_cons, card_key_cardOf8, card_field_cardOf8, fmtNat20_length, parseField_fmtNat20, this]

theorem primary_naxis_i (t : Table) (w : WF t) (i : Nat) (hi : i < t.naxes.reverse.length) :
    intKey (primaryCards t) (keyIdx "NAXIS" (i+1)) = some (t.naxes.reverse.getD i 0) := by
  have hn := w.naxes_len; have hle := w.ndim_le
  have hi' : i < t.naxes.length := by simpa using hi
  unfold intKey
  rw [primaryCards_eq,
    findCard_cons_ne (by rw [card_key_cardOf8]; apply ne_of_first_ne; rw [first_NAXISn]; decide),
    findCard_cons_ne (by rw [card_key_cardOf8]; apply ne_of_first_ne; rw [first_NAXISn]; decide),
    findCard_cons_ne (by rw [card_key_cardOf8, ← key_NAXIS]; exact (keyIdx_ne_keyOf _ _ (by rw [str_NAXIS]; rfl)).symm),
    findCard_map_range (naxisCard t.naxes.reverse) (fun j => keyIdx "NAXIS" (j+1)) _ i _ hi
      (fun j hj => naxisCard_key _ _ (by rw [List.length_reverse] at hj; omega))
      (fun j hj e => by have := keyIdx_inj _ e; omega)]
  show parseField (card_field (naxisCard t.naxes.reverse i)) = _
  rw [naxisCard_field _ _ (by omega), parseField_fmtNat20]
  exact Nat.lt_trans (getD_lt (fun a ha => w.naxes_lt a (List.mem_reverse.1 ha)) (by decide) i) (by decide)

theorem primary_order_i (t : Table) (w : WF t) (i : Nat) (hi : i < t.orders.length) :
    intKey (primaryCards t) (keyIdx "ORDER" i) = some (t.orders.getD i 0) := by
  have hn := w.naxes_len; have hle := w.ndim_le
  unfold intKey
  rw [primaryCards_eq,
    findCard_cons_ne (by rw [card_key_cardOf8]; apply ne_of_first_ne; rw [first_ORDERn]; decide),
    findCard_cons_ne (by rw [card_key_cardOf8]; apply ne_of_first_ne; rw [first_ORDERn]; decide),
    findCard_cons_ne (by rw [card_key_cardOf8]; apply ne_of_first_ne; rw [first_ORDERn]; decide),
    findCard_append_skip (by
      intro c hc
      obtain ⟨j, hj, rfl⟩ := List.mem_map.1 hc
      have hj' := List.mem_range.1 hj
      rw [List.length_reverse] at hj'
      rw [naxisCard_key _ _ (by omega)]
      apply ne_of_first_ne; rw [first_ORDERn, first_NAXISn]; decide),
    findCard_cons_ne (by rw [card_key_cardOf8]; apply ne_of_first_ne; rw [first_ORDERn]; decide),
    findCard_cons_ne (by rw [key_COMMENT1]; apply ne_of_first_ne; rw [first_ORDERn]; decide),
    findCard_cons_ne (by rw [key_COMMENT2]; apply ne_of_first_ne; rw [first_ORDERn]; decide),
    findCard_cons_ne (by rw [key_TYPE]; apply ne_of_first_ne; rw [first_ORDERn]; decide),
    findCard_map_range (orderCard t.orders) (fun j => keyIdx "ORDER" j) _ i _ hi
      (fun j hj => orderCard_key _ _ (by omega))
      (fun j hj e => by have := keyIdx_inj _ e; omega)]
  show parseField (card_field (orderCard t.orders i)) = _
  rw [orderCard_field _ _ (by omega), parseField_fmtNat20]
  exact Nat.lt_trans (getD_lt w.orders_lt (by decide) i) (by decide)

theorem primary_axes (t : Table) (w : WF t) : axes (primaryCards t) = some t.naxes.reverse := by
  have hn := w.naxes_len; have hle := w.ndim_le
  unfold axes
  rw [primary_naxis t w]
  simp only
  rw [if_neg (by omega)]
  have := optAll_range 0 (fun i => intKey (primaryCards t) (keyIdx "NAXIS" (i+1))) t.naxes.reverse
    (fun i hi => primary_naxis_i t w i hi)
  rw [List.length_reverse] at this
  exact this

theorem primary_headerInfo (t : Table) (w : WF t) : headerInfo (primaryCards t) = some (t.naxes.reverse, t.orders) := by
  have hn := w.naxes_len; have hpos := w.ndim_pos
  unfold headerInfo
  rw [primary_simple, primary_bytesPerPix, primary_axes t w]
  have hne : t.naxes.reverse.isEmpty = false := by
    cases h : t.naxes.reverse with
    | nil => have := congrArg List.length h; rw [List.length_reverse, List.length_nil] at this; omega
    | cons a l => rfl
  simp only [Bool.not_true, Bool.false_eq_true, if_false, hne]
  rw [primary_no_ORDER t w]
  simp only
  have := optAll_range 0 (fun i => intKey (primaryCards t) (keyIdx "ORDER" i)) t.orders
    (fun i hi => primary_order_i t w i hi)
  rw [List.length_reverse, hn, this]

theorem primary_dataLen (t : Table) (w : WF t) : dataLen (primaryCards t) = some (4 * prod t.naxes) := by
  have hn := w.naxes_len; have hpos := w.ndim_pos
  unfold dataLen
  rw [primary_bytesPerPix, primary_axes t w]
  have hne : t.naxes.reverse.isEmpty = false := by
    cases h : t.naxes.reverse with
    | nil => have := congrArg List.length h; rw [List.length_reverse, List.length_nil] at this; omega
    | cons a l => rfl
  simp only [hne, Bool.false_eq_true, if_false, prod_reverse]

/-! ## the file as a list of HDUs -/

def knotHdu (t : Table) (i : Nat) : List Bytes × Bytes :=
  (extCards ("KNOTS" ++ toString i) (t.knots.getD i []).length, (t.knots.getD i []).flatMap (beBytes 8))

def hduList (t : Table) : List (List Bytes × Bytes) :=
  (primaryCards t, t.coeffs.flatMap (beBytes 4)) :: ((List.range t.knots.length).map (knotHdu t) ++
    (match t.extents with
     | none => []
     | some e => [(extCards "EXTENTS" e.length, e.flatMap (beBytes 8))]))

theorem encode_eq (t : Table) : encode t = ((hduList t).map fun p => encHdu p.1 p.2).flatten := by
  unfold encode hduList
  cases t.extents with
  | none => simp [knotHdu, List.map_map, Function.comp_def]
  | some e => simp [knotHdu, List.map_map, Function.comp_def]

theorem mem_getD_of_lt {α : Type} (l : List α) (d : α) (i : Nat) (hi : i < l.length) : l.getD i d ∈ l := by
  rw [List.getD_eq_getElem?_getD, List.getElem?_eq_getElem hi]
  exact List.getElem_mem hi

theorem two63_lt : (2 : Nat) ^ 63 < 10 ^ 20 := by decide

theorem hduList_ok (t : Table) (w : WF t) : ∀ p ∈ hduList t,
    (∀ c ∈ p.1, c.length = 80) ∧ (∀ c ∈ p.1, isEnd c = false) ∧ dataLen p.1 = some p.2.length := by
  intro p hp
  unfold hduList at hp
  rw [List.mem_cons, List.mem_append] at hp
  rcases hp with rfl | hp | hp
  · refine ⟨primary_length t w, primary_noEnd t w, ?_⟩
    rw [primary_dataLen t w, flatMap_beBytes_length, w.coeffs_len]
  · obtain ⟨i, hi, rfl⟩ := List.mem_map.1 hp
    have hi' := List.mem_range.1 hi
    have h1000 : i < 1000 := by have := w.knots_len; have := w.ndim_le; omega
    have hk := w.knots_ok _ (mem_getD_of_lt t.knots [] i hi')
    refine ⟨extCards_length _ _ (knotsName_length i h1000), extCards_noEnd _ _, ?_⟩
    show dataLen (extCards _ _) = some (List.length (List.flatMap _ _))
    rw [extCards_dataLen _ _ (Nat.lt_trans hk.2.1 two63_lt), flatMap_beBytes_length]
  · cases he : t.extents with
    | none => rw [he] at hp; exact absurd hp (by simp)
    | some e =>
      rw [he] at hp
      have := List.mem_singleton.1 hp
      subst this
      have hl := w.extents_len e he
      have := w.ndim_le
      refine ⟨extCards_length _ _ strField_EXTENTS_length, extCards_noEnd _ _, ?_⟩
      show dataLen (extCards _ _) = some (List.length (List.flatMap _ _))
      rw [extCards_dataLen _ _ (by rw [hl]; omega), flatMap_beBytes_length]

theorem hdusOf_encode (t : Table) (w : WF t) :
    hdusOf (encode t) = (hduList t).map fun p => (⟨p.1, some p.2⟩ : Hdu) := by
  rw [encode_eq]; exact hdusOf_encHdus _ (hduList_ok t w)

/-! ## finding `KNOTSi` -/

theorem extData_map_range' (name : Nat → Bytes) (K : Nat → Hdu) (ok : List Bytes → Bool) (i : Nat) (rest : List Hdu)
    (hne : ∀ j, j < i → name j ≠ name i) (hok : ok (K i).cards = true) : ∀ (m s : Nat), s ≤ i → i < s + m →
    (∀ j, s ≤ j → j < s + m → extName (K j).cards = some (name j)) →
    extData (name i) ok ((List.range' s m).map K ++ rest) = (K i).data
  | 0, s, h1, h2, _ => absurd h2 (by omega)
  | m+1, s, h1, h2, hk => by
    rw [List.range'_succ, List.map_cons, List.cons_append]
    unfold extData
    rw [hk s (Nat.le_refl _) (by omega)]
    by_cases hs : s = i
    · subst hs
      simp [hok]
    · have hlt : s < i := by omega
      have : (some (name s) == some (name i)) = false := by simpa using hne s hlt
      rw [this]
      simp only [Bool.false_eq_true, if_false]
      exact extData_map_range' name K ok i rest hne hok m (s+1) (by omega) (by omega)
        (fun j h3 h4 => hk j (by omega) (by omega))

def knotHduH (t : Table) (i : Nat) : Hdu :=
  ⟨extCards ("KNOTS" ++ toString i) (t.knots.getD i []).length, some ((t.knots.getD i []).flatMap (beBytes 8))⟩

theorem knotHduH_cards (t : Table) (i : Nat) :
    (knotHduH t i).cards = extCards ("KNOTS" ++ toString i) (t.knots.getD i []).length := rfl
theorem knotHduH_data (t : Table) (i : Nat) :
    (knotHduH t i).data = some ((t.knots.getD i []).flatMap (beBytes 8)) := rfl

def extentsH (t : Table) : List Hdu :=
  match t.extents with
  | none => []
  | some e => [⟨extCards "EXTENTS" e.length, some (e.flatMap (beBytes 8))⟩]

theorem hduList_map (t : Table) : ((hduList t).map fun p => (⟨p.1, some p.2⟩ : Hdu)) =
    ⟨primaryCards t, some (t.coeffs.flatMap (beBytes 4))⟩ :: ((List.range' 0 t.knots.length).map (knotHduH t) ++ extentsH t) := by
  unfold hduList extentsH
  rw [List.map_cons, List.map_append, List.map_map, List.range_eq_range']
  congr 2
  cases t.extents <;> rfl

theorem readKnots_encode (t : Table) (w : WF t) (i : Nat) (hi : i < t.orders.length) :
    readKnots ((hduList t).map fun p => (⟨p.1, some p.2⟩ : Hdu)) t.orders t.naxes i = some (t.knots.getD i []) := by
  have hkl := w.knots_len; have hle := w.ndim_le
  have hk := w.knots_ok _ (mem_getD_of_lt t.knots [] i (by omega))
  have hc := w.counts i hi
  have hpos : 0 < (t.knots.getD i []).length := by
    unfold countsOk at hc
    simp only [Bool.not_eq_true', Bool.or_eq_false_iff, decide_eq_false_iff_not] at hc
    omega
  have h20 : (t.knots.getD i []).length < 10 ^ 20 := Nat.lt_trans hk.2.1 two63_lt
  have hok : knotHdrOkFor (t.orders.getD i 0) (t.naxes.getD i 0) (knotHduH t i).cards = true := by
    rw [knotHduH_cards]; exact extCards_knotHdrOkFor _ _ _ _ h20 hpos hc
  have hwords := words_flatMap_beBytes 8 (by omega) (t.knots.getD i [])
    (fun x hx => Nat.lt_of_lt_of_le (hk.1 x hx) (by decide))
  have hnames : ∀ j, 0 ≤ j → j < 0 + t.knots.length → extName (knotHduH t j).cards = some (knotsName j) := by
    intro j _ hj
    rw [knotHduH_cards]
    exact extCards_extName _ _ (knotsName_length j (by omega))
  have hinj : ∀ j, j < i → knotsName j ≠ knotsName i := by
    intro j hj e
    have := knotsName_inj (by omega) (by omega) e
    omega
  have hfind := extData_map_range' knotsName (knotHduH t) (knotHdrOkFor (t.orders.getD i 0) (t.naxes.getD i 0)) i
    (extentsH t) hinj hok t.knots.length 0 (Nat.zero_le _) (by omega) hnames
  unfold readKnots
  rw [hduList_map]
  unfold extData
  simp only
  rw [primary_extName t w]
  have : ((none : Option Bytes) == some (knotsName i)) = false := rfl
  rw [this]
  simp only [Bool.false_eq_true, if_false]
  rw [hfind, knotHduH_data]
  simp only
  rw [hwords, hk.2.2]
  rfl

/-- **The round trip**: the reader extracts from the file of a well-formed table exactly the table's orders, axes,
    coefficients and knots. -/
theorem roundtrip (t : Table) (h : t.wf = true) : readCoreBytes (encode t) = some t.core := by
  have w := wf_spec h
  unfold readCoreBytes
  rw [hdusOf_encode t w]
  have hkn := readKnots_encode t w
  unfold readCore
  generalize hhs : (List.map (fun p => (⟨p.1, some p.2⟩ : Hdu)) (hduList t)) = hs at hkn ⊢
  have hcons : hs = ⟨primaryCards t, some (t.coeffs.flatMap (beBytes 4))⟩ :: hs.tail := by
    rw [← hhs]; unfold hduList; rfl
  rw [hcons]
  simp only
  rw [primary_headerInfo t w]
  simp only
  rw [← hcons, List.reverse_reverse, List.length_reverse, w.naxes_len]
  have hk : optAll ((List.range t.orders.length).map fun i => readKnots hs t.orders t.naxes i) = some t.knots := by
    have := optAll_range ([] : List Nat) (fun i => readKnots hs t.orders t.naxes i) t.knots
      (fun i hi => hkn i (by rw [← w.knots_len]; exact hi))
    rw [w.knots_len] at this
    exact this
  rw [hk]
  simp only
  rw [words_flatMap_beBytes 4 (by omega) _ (fun x hx => by have := w.coeffs_lt x hx; exact Nat.lt_of_lt_of_le this (by decide))]
  rfl

theorem findExtHdu_mem (name : Bytes) : ∀ (hs : List Hdu) (h : Hdu), findExtHdu name hs = some h → h ∈ hs
  | [], _, e => by unfold findExtHdu at e; exact absurd e (by simp)
  | x :: hs, h, e => by
    unfold findExtHdu at e
    by_cases hn : (extName x.cards == some name) = true
    · rw [if_pos hn] at e
      rw [← Option.some.inj e]; exact List.mem_cons_self ..
    · rw [if_neg hn] at e
      exact List.mem_cons_of_mem _ (findExtHdu_mem name hs h e)

/-- … and the complete reader (`read_fits_core` including the extents) accepts that file -/
theorem readBytes_encode (t : Table) (h : t.wf = true) : ∃ v, readBytes (encode t) = some v ∧ v.core = t.core := by
  have hc : readCore (hdusOf (encode t)) = some t.core := roundtrip t h
  have hdata : ∀ x ∈ hdusOf (encode t), ∃ d, x.data = some d := by
    rw [hdusOf_encode t (wf_spec h)]
    intro x hx
    obtain ⟨p, _, rfl⟩ := List.mem_map.1 hx
    exact ⟨p.2, rfl⟩
  unfold readBytes readTable
  rw [hc]
  simp only
  unfold readExtents
  cases hf : findExtHdu extentsName (hdusOf (encode t)) with
  | none => exact ⟨_, rfl, rfl⟩
  | some x =>
    obtain ⟨d, hd⟩ := hdata x (findExtHdu_mem _ _ _ hf)
    simp only
    by_cases hcond : (bytesPerPix x.cards == some 8 && axes x.cards == some [2 * t.core.orders.length]) = true
    · rw [if_pos hcond, hd]; exact ⟨⟨t.core, _⟩, rfl, rfl⟩
    · rw [if_neg hcond]; exact ⟨⟨t.core, _⟩, rfl, rfl⟩

end PsV.C08
