import PsV.Proofs.Walk
import PsV.Proofs.DerivSpec
import PsV.Proofs.DerivK
/-! Assembly: `ndsplineeval` (value mode) = `specEval`, for any number of dimensions. -/
namespace PsV
variable {α : Type} [Field α] [LinearOrder α]
attribute [local instance] Arith.ofField

structure Dim.WF (d : Dim α) : Prop where
  len : 2 * d.order + 2 ≤ d.nknots
  naxes_eq : d.naxes = d.nknots - d.order - 1
  mono : ∀ i j : Int, 0 ≤ i → i ≤ j → j < d.nknots → d.knots i ≤ d.knots j

/-- the upper end of the fully supported range is not the right end of an empty interval, or `x`
is not exactly there (see DESIGN: known finding C01-degenerate-upper-end) -/
def NonDegenerate (d : Dim α) (x : α) : Prop :=
  d.knots ((d.nknots:Int) - d.order - 2) < d.knots ((d.nknots:Int) - d.order - 1) ∨
    x ≠ d.knots ((d.nknots:Int) - d.order - 1)

def PointOK (d : Dim α) (x : α) (c : Nat) : Prop :=
  CenterOK d.knots d.nknots d.order x c ∧ NonDegenerate d x

def AllOK : List (Dim α) → List α → List Nat → Prop
  | [], [], [] => True
  | d :: ds, x :: xs, c :: cs => (d.WF ∧ PointOK d x c) ∧ AllOK ds xs cs
  | _, _, _ => False

/-- the coordinate is not a knot of the dimension -/
def KnotFree (d : Dim α) (x : α) : Prop := ∀ j : Int, 0 ≤ j → j < d.nknots → x ≠ d.knots j

/-- modes covered by the theorem: value, single derivative, and arbitrary-order derivatives (the
recursive routine, right-continuous) below `knots[naxes]` or away from the knots -/
def ModeOK (d : Dim α) (x : α) : BasisMode → Prop
  | .value => True
  | .deriv1 => True
  | .derivK k => 1 ≤ k ∧ (x < d.knots ((d.nknots:Int) - d.order - 1) ∨ KnotFree d x)

def AllModesOK : List (Dim α) → List α → List BasisMode → Prop
  | [], [], [] => True
  | d :: ds, x :: xs, m :: ms => ModeOK d x m ∧ AllModesOK ds xs ms
  | _, _, _ => False

def dimW (d : Dim α) (x : α) (c : Nat) (m : BasisMode) : DimW α :=
  ⟨d.stride, d.naxes, c - d.order, d.order + 1, fun i => Bsel d x (derivOrder m) i⟩

def dimWs : List (Dim α) → List α → List Nat → List BasisMode → List (DimW α)
  | d :: ds, x :: xs, c :: cs, m :: ms => dimW d x c m :: dimWs ds xs cs ms
  | _, _, _, _ => []

theorem Bsel_value (d : Dim α) (x : α) (hwf : d.WF) (i : Nat) :
    Bsel d x 0 i = Bind (if x < d.knots ((d.nknots:Int) - d.order - 1) then indR d.knots x else indL d.knots x)
      d.knots x d.order i := by
  have hn : ((d.naxes : Nat) : Int) = (d.nknots:Int) - d.order - 1 := by
    have := hwf.len; rw [hwf.naxes_eq]; omega
  simp only [Bsel, Dind, selInd, of_lt, hn, decide_eq_true_eq]

theorem Bsel_deriv1 (d : Dim α) (x : α) (hwf : d.WF) (i : Nat) :
    Bsel d x 1 i = Dind (if x < d.knots ((d.nknots:Int) - d.order - 1) then indR d.knots x else indL d.knots x)
      d.knots x 1 d.order i := by
  have hn : ((d.naxes : Nat) : Int) = (d.nknots:Int) - d.order - 1 := by
    have := hwf.len; rw [hwf.naxes_eq]; omega
  simp only [Bsel, selInd, of_lt, hn, decide_eq_true_eq]

theorem Bsel_any (d : Dim α) (x : α) (hwf : d.WF) (k : Nat) (i : Nat) :
    Bsel d x k i = Dind (if x < d.knots ((d.nknots:Int) - d.order - 1) then indR d.knots x else indL d.knots x)
      d.knots x k d.order i := by
  have hn : ((d.naxes : Nat) : Int) = (d.nknots:Int) - d.order - 1 := by
    have := hwf.len; rw [hwf.naxes_eq]; omega
  simp only [Bsel, selInd, of_lt, hn, decide_eq_true_eq]

/-- both indicators single out the interval the margin loops settled on -/
theorem shift_indicators (d : Dim α) (x : α) (c : Nat) (hc : CenterOK d.knots d.nknots d.order x c)
    (hs : ShiftOK d.knots d.nknots d.order x c (marginShift d.knots d.nknots x c d.order)) :
    (∀ j : Int, 0 ≤ j → j ≤ (d.nknots:Int) - 2 →
      ((if x < d.knots ((d.nknots:Int) - d.order - 1) then indR d.knots x else indL d.knots x) j = true ↔
        j = marginShift d.knots d.nknots x c d.order)) ∧
    ((x < d.knots ((d.nknots:Int) - d.order - 1) ∨ KnotFree d x) →
      ∀ j : Int, 0 ≤ j → j ≤ (d.nknots:Int) - 2 →
        (indR d.knots x j = true ↔ j = marginShift d.knots d.nknots x c d.order)) := by
  obtain ⟨hl0, hl1, hb, _, _⟩ := hs
  constructor
  · rcases hb with ⟨hx, b1, b2⟩ | ⟨hx, b1, b2⟩
    · rw [if_pos hx]; exact indR_iff d.knots x d.nknots _ hc.mono hl0 hl1 b1 b2
    · rw [if_neg (not_lt.mpr hx)]; exact indL_iff d.knots x d.nknots _ hc.mono hl0 hl1 b1 b2
  · intro hcond
    rcases hb with ⟨hx, b1, b2⟩ | ⟨hx, b1, b2⟩
    · exact indR_iff d.knots x d.nknots _ hc.mono hl0 hl1 b1 b2
    · rcases hcond with h | h
      · exact absurd (lt_of_lt_of_le h hx) (lt_irrefl _)
      · have hne : x ≠ d.knots (marginShift d.knots d.nknots x c d.order + 1) := h _ (by omega) (by omega)
        exact indR_iff d.knots x d.nknots _ hc.mono hl0 hl1 (le_of_lt b1) (lt_of_le_of_ne b2 hne)

theorem localRow_spec (d : Dim α) (x : α) (c : Nat) (m : BasisMode) (hwf : d.WF) (h : PointOK d x c)
    (hm : ModeOK d x m) :
    localRow d x c m = (List.range' (c - d.order) (d.order + 1)).map (fun i => Bsel d x (derivOrder m) i) := by
  obtain ⟨hc, hnd⟩ := h
  apply List.ext_getElem?
  intro j
  cases m with
  | derivK k =>
    obtain ⟨hk, hcond⟩ := hm
    have hs := marginShift_spec d.knots d.nknots d.order x c hc hnd
    obtain ⟨hsel, hR⟩ := shift_indicators d x c hc hs
    have hlo := hc.lo; have hhi := hc.hi
    simp only [localRow, derivOrder, List.getElem?_map]
    by_cases hj : j < d.order + 1
    · rw [List.getElem?_range hj, List.getElem?_range' (by omega)]
      simp only [Option.map_some, of_rnd]
      rw [bsplineDerivRec_eq_Dind _ _ _ _ _ hk, Bsel_any d x hwf]
      have e : (((c - d.order + 1 * j : Nat)) : Int) = (c:Int) - d.order + j := by push_cast [Nat.cast_sub hlo]; ring
      rw [e]
      rw [Dind_eq_DkBp d.knots x d.nknots _ _ (hR hcond) k d.order _ (by omega) (by omega),
        Dind_eq_DkBp d.knots x d.nknots _ _ hsel k d.order _ (by omega) (by omega)]
    · rw [List.getElem?_eq_none (by simp; omega), List.getElem?_eq_none (by simp; omega)]
      rfl
  | value =>
    by_cases hj : j ≤ d.order
    · simp only [localRow, derivOrder]
      rw [bsplvbSimple_spec d.knots d.nknots d.order x c hc hnd j hj]
      rw [List.getElem?_map, List.getElem?_range' (by omega)]
      simp only [Option.map_some]
      rw [Bsel_value d x hwf]
      congr 2
      have := hc.lo
      push_cast [Nat.cast_sub this]
      ring
    · have l1 : (localRow d x c .value).length = d.order + 1 := bsplvbSimple_length d.knots d.nknots d.order x c hc hnd
      rw [List.getElem?_eq_none (by omega), List.getElem?_eq_none (by simp; omega)]
  | deriv1 =>
    obtain ⟨l1, hv⟩ := bsplineDerivNonzero_spec d.knots d.nknots d.order x c hc hnd
    by_cases hj : j ≤ d.order
    · simp only [localRow, derivOrder]
      rw [hv j hj, List.getElem?_map, List.getElem?_range' (by omega)]
      simp only [Option.map_some]
      rw [Bsel_deriv1 d x hwf]
      congr 2
      have := hc.lo
      push_cast [Nat.cast_sub this]
      ring
    · simp only [localRow]
      rw [List.getElem?_eq_none (by omega), List.getElem?_eq_none (by simp; omega)]

theorem dimW_OK (d : Dim α) (x : α) (c : Nat) (m : BasisMode) (hwf : d.WF) (h : PointOK d x c)
    (_hm : ModeOK d x m) : (dimW d x c m).OK := by
  obtain ⟨hc, hnd⟩ := h
  have hlo := hc.lo; have hhi := hc.hi; have hlen := hwf.len
  have hN : d.naxes = d.nknots - d.order - 1 := hwf.naxes_eq
  refine ⟨by simp only [dimW]; omega, ?_⟩
  intro i hi hout
  simp only [dimW] at hi hout ⊢
  have hs := marginShift_spec d.knots d.nknots d.order x c hc hnd
  obtain ⟨hl0, hl1, hb, hdown, hup⟩ := hs
  have hidx0 : (0:Int) ≤ (i:Int) := by omega
  have hidx1 : (i:Int) + d.order + 1 ≤ (d.nknots:Int) - 1 := by omega
  have hnot : marginShift d.knots d.nknots x c d.order < (i:Int) ∨ (i:Int) + d.order < marginShift d.knots d.nknots x c d.order := by
    rcases hout with h | h
    · right
      by_cases hlc : marginShift d.knots d.nknots x c d.order < c
      · have := hdown hlc; omega
      · omega
    · left
      by_cases hlc : (c:Int) < marginShift d.knots d.nknots x c d.order
      · have := hup hlc; omega
      · omega
  have hind : ∀ j : Int, 0 ≤ j → j ≤ (d.nknots:Int) - 2 →
      ((if x < d.knots ((d.nknots:Int) - d.order - 1) then indR d.knots x else indL d.knots x) j = true ↔
        j = marginShift d.knots d.nknots x c d.order) := by
    rcases hb with ⟨hx, b1, b2⟩ | ⟨hx, b1, b2⟩
    · rw [if_pos hx]; exact indR_iff d.knots x d.nknots _ hc.mono hl0 hl1 b1 b2
    · rw [if_neg (not_lt.mpr hx)]; exact indL_iff d.knots x d.nknots _ hc.mono hl0 hl1 b1 b2
  rw [Bsel_any d x hwf, Dind_eq_DkBp d.knots x d.nknots _ _ hind (derivOrder m) d.order _ hidx0 hidx1]
  exact DkBp_zero_of_not_mem _ _ _ _ _ _ hnot

theorem rows_eq_winRows : ∀ (ds : List (Dim α)) (xs : List α) (cs : List Nat) (ms : List BasisMode),
    AllOK ds xs cs → AllModesOK ds xs ms →
    rows ds xs cs ms = winRows (dimWs ds xs cs ms) ∧
    specRows ds xs ms = fullRows (dimWs ds xs cs ms) ∧
    startPos ds cs = winOff (dimWs ds xs cs ms) ∧
    (∀ e ∈ dimWs ds xs cs ms, e.OK) := by
  intro ds
  induction ds with
  | nil =>
    intro xs cs ms h hm
    cases xs <;> cases cs <;> simp [AllOK] at h
    cases ms <;> simp [AllModesOK] at hm
    simp [rows, specRows, startPos, dimWs, winRows, fullRows, winOff]
  | cons d ds ih =>
    intro xs cs ms h hm
    cases xs with
    | nil => simp [AllOK] at h
    | cons x xs =>
      cases cs with
      | nil => simp [AllOK] at h
      | cons c cs =>
        cases ms with
        | nil => simp [AllModesOK] at hm
        | cons m ms =>
          obtain ⟨⟨hwf, hp⟩, hrest⟩ := h
          obtain ⟨hm1, hmrest⟩ := hm
          obtain ⟨i1, i2, i3, i4⟩ := ih xs cs ms hrest hmrest
          refine ⟨?_, ?_, ?_, ?_⟩
          · simp only [rows, dimWs, winRows, List.map_cons]
            rw [i1, localRow_spec d x c m hwf hp hm1]
            rfl
          · simp only [specRows, dimWs, fullRows, List.map_cons]
            rw [i2]
            rfl
          · simp only [startPos, dimWs, winOff, i3, dimW]
            have := hp.1.lo
            push_cast [Nat.cast_sub this]
            ring
          · intro e he
            simp only [dimWs, List.mem_cons] at he
            rcases he with rfl | he
            · exact dimW_OK d x c m hwf hp hm1
            · exact i4 e he

theorem maskModes_zero (n : Nat) : maskModes n 0 = List.replicate n .value := by
  simp only [maskModes, Nat.zero_testBit, Bool.false_eq_true, if_false]
  induction n with
  | zero => rfl
  | succ n ih => rw [List.range_succ, List.map_append, ih, List.replicate_succ']; rfl

def lastStrideOne : List (Dim α) → Prop
  | [] => False
  | [d] => d.stride = 1
  | _ :: e :: rest => lastStrideOne (e :: rest)

theorem rows_lastStride : ∀ (ds : List (Dim α)) (xs : List α) (cs : List Nat) (ms : List BasisMode),
    ds.length = xs.length → ds.length = cs.length → ds.length = ms.length →
    lastStrideOne ds → LastStrideOne (rows ds xs cs ms) := by
  intro ds
  induction ds with
  | nil => intro _ _ _ _ _ _ h; exact absurd h (by simp [lastStrideOne])
  | cons d ds ih =>
    intro xs cs ms h1 h2 h3 h
    match xs, cs, ms, h1, h2, h3 with
    | x :: xs, c :: cs, m :: ms, h1, h2, h3 =>
      cases ds with
      | nil =>
        simp only [rows, LastStrideOne]
        exact h
      | cons e rest =>
        match xs, cs, ms, h1, h2, h3 with
        | x2 :: xs, c2 :: cs, m2 :: ms, h1, h2, h3 =>
          have := ih (x2 :: xs) (c2 :: cs) (m2 :: ms) (by simpa using h1) (by simpa using h2) (by simpa using h3) h
          simpa [rows, LastStrideOne] using this

theorem AllOK_lengths : ∀ (ds : List (Dim α)) (xs : List α) (cs : List Nat), AllOK ds xs cs →
    ds.length = xs.length ∧ ds.length = cs.length := by
  intro ds
  induction ds with
  | nil => intro xs cs h; cases xs <;> cases cs <;> simp [AllOK] at h ⊢
  | cons d ds ih =>
    intro xs cs h
    cases xs with
    | nil => simp [AllOK] at h
    | cons x xs =>
      cases cs with
      | nil => simp [AllOK] at h
      | cons c cs =>
        obtain ⟨_, hrest⟩ := h
        obtain ⟨a, b⟩ := ih xs cs hrest
        simp only [List.length_cons]
        omega

theorem AllModesOK_length : ∀ (ds : List (Dim α)) (xs : List α) (ms : List BasisMode), AllModesOK ds xs ms → ds.length = ms.length := by
  intro ds
  induction ds with
  | nil => intro xs ms h; cases xs <;> cases ms <;> simp [AllModesOK] at h ⊢
  | cons d ds ih =>
    intro xs ms h
    cases xs with
    | nil => simp [AllModesOK] at h
    | cons x xs =>
      cases ms with
      | nil => simp [AllModesOK] at h
      | cons m ms => simp only [List.length_cons]; rw [ih xs ms h.2]

/-- evaluation with any supported mode list = specification sum -/
theorem evalModes_eq_specEval (T : Table α) (xs : List α) (cs : List Nat) (ms : List BasisMode)
    (hok : AllOK T.dims xs cs) (hms : AllModesOK T.dims xs ms) (hstride : lastStrideOne T.dims) :
    evalModes T xs cs ms = specEval T xs ms := by
  obtain ⟨r1, r2, r3, r4⟩ := rows_eq_winRows T.dims xs cs ms hok hms
  obtain ⟨l1, l2⟩ := AllOK_lengths T.dims xs cs hok
  unfold evalModes specEval
  have hl := rows_lastStride T.dims xs cs ms l1 l2 (AllModesOK_length _ _ _ hms) hstride
  rw [walk_eq T.coef _ hl, r1, r2, r3, specSum_window T.coef _ r4]
  simp

theorem allModesOK_replicate_value : ∀ (ds : List (Dim α)) (xs : List α), ds.length = xs.length →
    AllModesOK ds xs (List.replicate ds.length .value) := by
  intro ds
  induction ds with
  | nil => intro xs h; cases xs <;> simp at h; trivial
  | cons d ds ih =>
    intro xs h
    cases xs with
    | nil => simp at h
    | cons x xs => exact ⟨trivial, ih xs (by simpa using h)⟩

theorem allModesOK_maskModes (ds : List (Dim α)) (xs : List α) (hl : ds.length = xs.length) (mask : Nat) :
    AllModesOK ds xs (maskModes ds.length mask) := by
  unfold maskModes
  suffices h : ∀ (ds : List (Dim α)) (xs : List α) (k : Nat), ds.length = xs.length →
      AllModesOK ds xs ((List.range' k ds.length).map fun n => if mask.testBit n then BasisMode.deriv1 else BasisMode.value) by
    have := h ds xs 0 hl
    rwa [← List.range_eq_range'] at this
  intro ds
  induction ds with
  | nil => intro xs k h; cases xs <;> simp at h; trivial
  | cons d ds ih =>
    intro xs k h
    cases xs with
    | nil => simp at h
    | cons x xs =>
      simp only [List.length_cons, List.range'_succ, List.map_cons]
      refine ⟨?_, ih xs (k+1) (by simpa using h)⟩
      by_cases hb : mask.testBit k = true
      · simp [hb, ModeOK]
      · simp [hb, ModeOK]

/-- value evaluation = specification sum, given per-dimension facts about the centres -/
theorem ndsplineeval_eq_specEval (T : Table α) (xs : List α) (cs : List Nat)
    (hok : AllOK T.dims xs cs) (hstride : lastStrideOne T.dims) :
    ndsplineeval T xs cs 0 = specEval T xs (List.replicate T.dims.length .value) := by
  unfold ndsplineeval
  rw [maskModes_zero]
  exact evalModes_eq_specEval T xs cs _ hok (allModesOK_replicate_value _ _ (AllOK_lengths _ _ _ hok).1) hstride

/-- bitmask-derivative evaluation = specification sum with the knot-difference derivative formula in
the selected dimensions -/
theorem ndsplineeval_mask_eq_specEval (T : Table α) (xs : List α) (cs : List Nat) (mask : Nat)
    (hok : AllOK T.dims xs cs) (hstride : lastStrideOne T.dims) :
    ndsplineeval T xs cs mask = specEval T xs (maskModes T.dims.length mask) :=
  evalModes_eq_specEval T xs cs _ hok (allModesOK_maskModes _ _ (AllOK_lengths _ _ _ hok).1 _) hstride

end PsV
