import PsV.Proofs.Walk
/-! Assembly: `ndsplineeval` (value mode) = `specEval`, for any number of dimensions. -/
namespace PsV
variable {α : Type} [Field α] [LinearOrder α]
attribute [local instance] Arith.ofField

structure Dim.WF (d : Dim α) : Prop where
  len : 2 * d.order + 2 ≤ d.nknots
  naxes_eq : d.naxes = d.nknots - d.order - 1
  mono : ∀ i j : Int, 0 ≤ i → i ≤ j → j < d.nknots → d.knots i ≤ d.knots j

/-- the upper end of the fully supported range is not the right end of an empty interval, or `x`
is not exactly there (see DESIGN: known finding C01-degenerate-upper-end) -/
def NonDegenerate (d : Dim α) (x : α) : Prop :=
  d.knots ((d.nknots:Int) - d.order - 2) < d.knots ((d.nknots:Int) - d.order - 1) ∨
    x ≠ d.knots ((d.nknots:Int) - d.order - 1)

def PointOK (d : Dim α) (x : α) (c : Nat) : Prop :=
  CenterOK d.knots d.nknots d.order x c ∧ NonDegenerate d x

def AllOK : List (Dim α) → List α → List Nat → Prop
  | [], [], [] => True
  | d :: ds, x :: xs, c :: cs => (d.WF ∧ PointOK d x c) ∧ AllOK ds xs cs
  | _, _, _ => False

def dimW (d : Dim α) (x : α) (c : Nat) : DimW α :=
  ⟨d.stride, d.naxes, c - d.order, d.order + 1, fun i => Bsel d x 0 i⟩

def dimWs : List (Dim α) → List α → List Nat → List (DimW α)
  | d :: ds, x :: xs, c :: cs => dimW d x c :: dimWs ds xs cs
  | _, _, _ => []

theorem Bsel_value (d : Dim α) (x : α) (hwf : d.WF) (i : Nat) :
    Bsel d x 0 i = Bind (if x < d.knots ((d.nknots:Int) - d.order - 1) then indR d.knots x else indL d.knots x)
      d.knots x d.order i := by
  have hn : ((d.naxes : Nat) : Int) = (d.nknots:Int) - d.order - 1 := by
    have := hwf.len; rw [hwf.naxes_eq]; omega
  simp only [Bsel, Dind, selInd, of_lt, hn, decide_eq_true_eq]

theorem localRow_value (d : Dim α) (x : α) (c : Nat) (hwf : d.WF) (h : PointOK d x c) :
    localRow d x c .value = (List.range' (c - d.order) (d.order + 1)).map (fun i => Bsel d x 0 i) := by
  obtain ⟨hc, hnd⟩ := h
  apply List.ext_getElem?
  intro j
  by_cases hj : j ≤ d.order
  · simp only [localRow]
    rw [bsplvbSimple_spec d.knots d.nknots d.order x c hc hnd j hj]
    rw [List.getElem?_map, List.getElem?_range' (by omega)]
    simp only [Option.map_some]
    rw [Bsel_value d x hwf]
    congr 2
    have := hc.lo
    push_cast [Nat.cast_sub this]
    ring
  · have l1 : (localRow d x c .value).length = d.order + 1 := bsplvbSimple_length d.knots d.nknots d.order x c hc hnd
    rw [List.getElem?_eq_none (by omega), List.getElem?_eq_none (by simp; omega)]

theorem dimW_OK (d : Dim α) (x : α) (c : Nat) (hwf : d.WF) (h : PointOK d x c) : (dimW d x c).OK := by
  obtain ⟨hc, hnd⟩ := h
  have hlo := hc.lo; have hhi := hc.hi; have hlen := hwf.len
  have hN : d.naxes = d.nknots - d.order - 1 := hwf.naxes_eq
  refine ⟨by simp only [dimW]; omega, ?_⟩
  intro i hi hout
  simp only [dimW] at hi hout ⊢
  rw [Bsel_value d x hwf]
  have hs := marginShift_spec d.knots d.nknots d.order x c hc hnd
  obtain ⟨hl0, hl1, hb, hdown, hup⟩ := hs
  have hidx0 : (0:Int) ≤ (i:Int) := by omega
  have hidx1 : (i:Int) + d.order + 1 ≤ (d.nknots:Int) - 1 := by omega
  have key : Bp d.knots x (marginShift d.knots d.nknots x c d.order) d.order i = 0 := by
    apply Bp_zero_of_not_mem
    rcases hout with h | h
    · -- i + order < c
      right
      by_cases hlc : marginShift d.knots d.nknots x c d.order < c
      · have := hdown hlc; omega
      · omega
    · -- c < i
      left
      by_cases hlc : (c:Int) < marginShift d.knots d.nknots x c d.order
      · have := hup hlc; omega
      · omega
  rcases hb with ⟨hx, b1, b2⟩ | ⟨hx, b1, b2⟩
  · rw [if_pos hx, Bind_eq_Bp d.knots x d.nknots _ _ (indR_iff d.knots x d.nknots _ hc.mono hl0 hl1 b1 b2) d.order _ hidx0 hidx1]
    exact key
  · rw [if_neg (not_lt.mpr hx), Bind_eq_Bp d.knots x d.nknots _ _ (indL_iff d.knots x d.nknots _ hc.mono hl0 hl1 b1 b2) d.order _ hidx0 hidx1]
    exact key

theorem rows_eq_winRows : ∀ (ds : List (Dim α)) (xs : List α) (cs : List Nat), AllOK ds xs cs →
    rows ds xs cs (List.replicate ds.length .value) = winRows (dimWs ds xs cs) ∧
    specRows ds xs (List.replicate ds.length .value) = fullRows (dimWs ds xs cs) ∧
    startPos ds cs = winOff (dimWs ds xs cs) ∧
    (∀ e ∈ dimWs ds xs cs, e.OK) := by
  intro ds
  induction ds with
  | nil =>
    intro xs cs h
    cases xs <;> cases cs <;> simp [AllOK] at h
    simp [rows, specRows, startPos, dimWs, winRows, fullRows, winOff]
  | cons d ds ih =>
    intro xs cs h
    cases xs with
    | nil => simp [AllOK] at h
    | cons x xs =>
      cases cs with
      | nil => simp [AllOK] at h
      | cons c cs =>
        obtain ⟨⟨hwf, hp⟩, hrest⟩ := h
        obtain ⟨i1, i2, i3, i4⟩ := ih xs cs hrest
        refine ⟨?_, ?_, ?_, ?_⟩
        · simp only [List.length_cons, List.replicate_succ, rows, dimWs, winRows, List.map_cons]
          rw [i1, localRow_value d x c hwf hp]
          rfl
        · simp only [List.length_cons, List.replicate_succ, specRows, dimWs, fullRows, List.map_cons]
          rw [i2]
          rfl
        · simp only [startPos, dimWs, winOff, i3, dimW]
          have := hp.1.lo
          push_cast [Nat.cast_sub this]
          ring
        · intro e he
          simp only [dimWs, List.mem_cons] at he
          rcases he with rfl | he
          · exact dimW_OK d x c hwf hp
          · exact i4 e he

theorem maskModes_zero (n : Nat) : maskModes n 0 = List.replicate n .value := by
  simp only [maskModes, Nat.zero_testBit, Bool.false_eq_true, if_false]
  induction n with
  | zero => rfl
  | succ n ih => rw [List.range_succ, List.map_append, ih, List.replicate_succ']; rfl

def lastStrideOne : List (Dim α) → Prop
  | [] => False
  | [d] => d.stride = 1
  | _ :: e :: rest => lastStrideOne (e :: rest)

theorem rows_lastStride : ∀ (ds : List (Dim α)) (xs : List α) (cs : List Nat) (ms : List BasisMode),
    ds.length = xs.length → ds.length = cs.length → ds.length = ms.length →
    lastStrideOne ds → LastStrideOne (rows ds xs cs ms) := by
  intro ds
  induction ds with
  | nil => intro _ _ _ _ _ _ h; exact absurd h (by simp [lastStrideOne])
  | cons d ds ih =>
    intro xs cs ms h1 h2 h3 h
    match xs, cs, ms, h1, h2, h3 with
    | x :: xs, c :: cs, m :: ms, h1, h2, h3 =>
      cases ds with
      | nil =>
        simp only [rows, LastStrideOne]
        exact h
      | cons e rest =>
        match xs, cs, ms, h1, h2, h3 with
        | x2 :: xs, c2 :: cs, m2 :: ms, h1, h2, h3 =>
          have := ih (x2 :: xs) (c2 :: cs) (m2 :: ms) (by simpa using h1) (by simpa using h2) (by simpa using h3) h
          simpa [rows, LastStrideOne] using this

theorem AllOK_lengths : ∀ (ds : List (Dim α)) (xs : List α) (cs : List Nat), AllOK ds xs cs →
    ds.length = xs.length ∧ ds.length = cs.length := by
  intro ds
  induction ds with
  | nil => intro xs cs h; cases xs <;> cases cs <;> simp [AllOK] at h ⊢
  | cons d ds ih =>
    intro xs cs h
    cases xs with
    | nil => simp [AllOK] at h
    | cons x xs =>
      cases cs with
      | nil => simp [AllOK] at h
      | cons c cs =>
        obtain ⟨_, hrest⟩ := h
        obtain ⟨a, b⟩ := ih xs cs hrest
        simp only [List.length_cons]
        omega

/-- value evaluation = specification sum, given per-dimension facts about the centres -/
theorem ndsplineeval_eq_specEval (T : Table α) (xs : List α) (cs : List Nat)
    (hok : AllOK T.dims xs cs) (hstride : lastStrideOne T.dims) :
    ndsplineeval T xs cs 0 = specEval T xs (List.replicate T.dims.length .value) := by
  obtain ⟨r1, r2, r3, r4⟩ := rows_eq_winRows T.dims xs cs hok
  obtain ⟨l1, l2⟩ := AllOK_lengths T.dims xs cs hok
  unfold ndsplineeval evalModes specEval
  rw [maskModes_zero]
  have hl := rows_lastStride T.dims xs cs (List.replicate T.dims.length .value) l1 l2 (by simp) hstride
  rw [walk_eq T.coef _ hl, r1, r2, r3, specSum_window T.coef _ r4]
  simp

end PsV
