import PsV.Model.Fits
/-!
# Helper lemmas for C06: `readCore (writeGen …)` computed symbolically

Mathlib-free.  (`rowMajor` and `pad8`, used in the statements of `PsV/Props/C06.lean`, live in `PsV/Model/Fits.lean`.)
-/
namespace PsV.Fits

/-! ## generic list lemmas -/

theorem find_append_of_none {α} (p : α → Bool) (A B : List α) (h : ∀ a ∈ A, p a = false) :
    (A ++ B).find? p = B.find? p := by
  have : A.find? p = none := by
    rw [List.find?_eq_none]; intro a ha; simp [h a ha]
  rw [List.find?_append, this]; rfl

theorem find_append_of_some {α} (p : α → Bool) (A B : List α) (b : α) (h : A.find? p = some b) :
    (A ++ B).find? p = some b := by
  rw [List.find?_append, h]; rfl

/-- lookup in `f 0, …, f (n-1)` when exactly the `i`-th element satisfies the predicate -/
theorem find_range_map {α} (f : Nat → α) (p : α → Bool) (i : Nat) :
    ∀ n, i < n → (∀ j, j < n → (p (f j) = true ↔ j = i)) → ((List.range n).map f).find? p = some (f i)
  | 0, hi, _ => by omega
  | n+1, hi, h => by
    rw [List.range_succ, List.map_append]
    by_cases hin : i < n
    · exact find_append_of_some _ _ _ _ (find_range_map f p i n hin fun j hj => h j (by omega))
    · have hi' : i = n := by omega
      subst hi'
      rw [find_append_of_none]
      · have : p (f i) = true := (h i (by omega)).2 rfl
        simp [this]
      · intro a ha
        rw [List.mem_map] at ha
        obtain ⟨j, hj, rfl⟩ := ha
        rw [List.mem_range] at hj
        have := h j (by omega)
        cases hp : p (f j) with
        | false => rfl
        | true => exact absurd (this.1 hp) (by omega)

theorem map_getD_range {α} (l : List α) (d : α) (n : Nat) (h : l.length = n) :
    (List.range n).map (fun i => l.getD i d) = l := by
  apply List.ext_getElem
  · simp [h]
  · intro i h1 h2
    simp [List.getD_eq_getElem?_getD, h2]

theorem map_getD_range_rev {α} (l : List α) (d : α) (n : Nat) (h : l.length = n) :
    (List.range n).map (fun i => l.getD (n - i - 1) d) = l.reverse := by
  apply List.ext_getElem
  · simp [h]
  · intro i h1 h2
    have h3 : i < l.length := by simpa using h2
    have h4 : n - i - 1 < l.length := by omega
    simp [List.getD_eq_getElem?_getD, h4]
    congr 1; omega

theorem map_const_range {α} (a : α) (n : Nat) : (List.range n).map (fun _ => a) = List.replicate n a := by
  apply List.ext_getElem <;> simp

/-! ## decimal text -/

def digits : List Char := ['0', '1', '2', '3', '4', '5', '6', '7', '8', '9']

theorem digitChar_mem (d : Nat) : digitChar d ∈ digits := by
  unfold digitChar; split <;> decide

theorem digitVal_digitChar : ∀ d, d < 10 → digitVal (digitChar d) = some d := by decide

theorem natStrF_mem (fuel n : Nat) : ∀ c ∈ natStrF fuel n, c ∈ digits := by
  induction fuel generalizing n with
  | zero => intro c hc; simp [natStrF] at hc
  | succ f ih =>
    intro c hc
    unfold natStrF at hc
    split at hc
    · rw [List.mem_singleton] at hc; subst hc; exact digitChar_mem _
    · rw [List.mem_append, List.mem_singleton] at hc
      rcases hc with hc | hc
      · exact ih _ c hc
      · subst hc; exact digitChar_mem _

theorem natStrF_ne_nil (fuel n : Nat) : natStrF (fuel+1) n ≠ [] := by
  unfold natStrF; split <;> simp

def pstep (acc : Nat) (c : Char) : Option Nat := (digitVal c).map (acc * 10 + ·)

theorem parseNat_eq (s : Str) : parseNat s = if s = [] then none else s.foldlM pstep 0 := rfl

theorem natStrF_fold (fuel n : Nat) (h : n < 10 ^ fuel) : (natStrF fuel n).foldlM pstep 0 = some n := by
  induction fuel generalizing n with
  | zero => simp at h; subst h; rfl
  | succ f ih =>
    unfold natStrF
    split
    · rename_i h10
      simp [pstep, digitVal_digitChar n h10]
    · rename_i h10
      have h1 : n / 10 < 10 ^ f := by
        rw [Nat.pow_succ] at h; omega
      rw [List.foldlM_append, ih _ h1]
      simp [pstep, digitVal_digitChar (n % 10) (by omega)]
      omega

theorem lt_ten_pow (n : Nat) : n < 10 ^ (n+1) :=
  Nat.lt_trans (Nat.lt_succ_self n) (Nat.lt_pow_self (by decide))

theorem natStr_ne_nil (n : Nat) : natStr n ≠ [] := natStrF_ne_nil _ _

theorem natStr_mem (n : Nat) : ∀ c ∈ natStr n, c ∈ digits := natStrF_mem _ _

theorem parseNat_natStr (n : Nat) : parseNat (natStr n) = some n := by
  rw [parseNat_eq, if_neg (natStr_ne_nil n)]
  exact natStrF_fold _ _ (lt_ten_pow n)

theorem natStr_inj {i j : Nat} (h : natStr i = natStr j) : i = j := by
  have := parseNat_natStr i
  rw [h, parseNat_natStr] at this
  exact (Option.some.inj this).symm

theorem natStrF_length (fuel n k : Nat) (hk : 1 ≤ k) (h : n < 10 ^ k) : (natStrF fuel n).length ≤ k := by
  induction fuel generalizing n k with
  | zero => simp [natStrF]
  | succ f ih =>
    unfold natStrF
    split
    · simpa using hk
    · rename_i h10
      have hk2 : 2 ≤ k := by
        rcases Nat.lt_or_ge k 2 with h2 | h2
        · have : k = 1 := by omega
          subst this; simp at h; omega
        · exact h2
      have h1 : n / 10 < 10 ^ (k - 1) := by
        have : k = (k - 1) + 1 := by omega
        rw [this, Nat.pow_succ] at h; omega
      have := ih (n / 10) (k - 1) (by omega) h1
      simp; omega

theorem natStr_length_le3 (n : Nat) (h : n < 1000) : (natStr n).length ≤ 3 :=
  natStrF_length _ _ 3 (by decide) h

theorem natStr_head (n : Nat) : ∃ c r, natStr n = c :: r ∧ c ∈ digits := by
  cases h : natStr n with
  | nil => exact absurd h (natStr_ne_nil n)
  | cons c r => exact ⟨c, r, rfl, natStr_mem n c (by simp [h])⟩

theorem parseInt_natStr (n : Nat) : parseInt (natStr n) = some (n : Int) := by
  obtain ⟨c, r, hcr, hc⟩ := natStr_head n
  have hp := parseNat_natStr n
  rw [hcr] at hp ⊢
  have h1 : c ≠ '-' := by rintro rfl; revert hc; decide
  have h2 : c ≠ '+' := by rintro rfl; revert hc; decide
  unfold parseInt
  split
  · rename_i heq; exact absurd (List.cons.inj heq).1 h1
  · rename_i heq; exact absurd (List.cons.inj heq).1 h2
  · rw [hp]; rfl

theorem upper_digits (s : Str) (h : ∀ c ∈ s, c ∈ digits) : upper s = s := by
  unfold upper
  induction s with
  | nil => rfl
  | cons c r ih =>
    have hc : c.toUpper = c := by
      have h0 : ∀ d ∈ digits, d.toUpper = d := by decide
      exact h0 c (h c (by simp))
    simp only [List.map_cons, hc]
    rw [ih fun d hd => h d (by simp [hd])]

theorem upper_natStr (n : Nat) : upper (natStr n) = natStr n := upper_digits _ (natStr_mem n)

theorem upper_append (a b : Str) : upper (a ++ b) = upper a ++ upper b := by simp [upper]

/-! ## integer cards -/

theorem cardInt_val (key : Str) (v : Nat) (com : Str) (h : v < 2147483648) :
    (cardInt key v com).val = natStr v := by
  have h1 : v % 4294967296 = v := Nat.mod_eq_of_lt (by omega)
  simp only [cardInt, h1, if_pos h]
  simp [intStr]

theorem cardInt_key (key : Str) (v : Nat) (com : Str) : (cardInt key v com).key = key := rfl

theorem readKeyInt_tuint (cs : List Card) (name : Str) (c : Card) (v : Nat) (hv : v < 2147483648)
    (hf : findCard cs name = some c) (hc : c.val = natStr v) : readKeyInt cs .tuint name = some v := by
  simp only [readKeyInt, hf, hc, parseInt_natStr]
  rw [if_pos (by omega)]; rfl

theorem readKeyInt_tint (cs : List Card) (name : Str) (c : Card) (v : Nat) (hv : v < 2147483648)
    (hf : findCard cs name = some c) (hc : c.val = natStr v) : readKeyInt cs .tint name = some v := by
  simp only [readKeyInt, hf, hc, parseInt_natStr]
  rw [if_pos (by omega)]
  congr 1; omega

theorem readKeyInt_none (cs : List Card) (kt : KeyType) (name : Str) (hf : findCard cs name = none) :
    readKeyInt cs kt name = none := by
  simp only [readKeyInt, hf]

/-! ## string values: `ffs2c`, the quote stripping, `ffc2s` -/

theorem s2cLoop_plain (v : Str) : ∀ jj, '\'' ∉ v → jj + v.length ≤ 69 → s2cLoop v jj = (v, jj + v.length) := by
  induction v with
  | nil => intro jj _ _; rfl
  | cons c r ih =>
    intro jj hq hl
    have hc : c ≠ '\'' := fun h => hq (by simp [h])
    have hr : '\'' ∉ r := fun h => hq (by simp [h])
    simp only [List.length_cons] at hl
    have hj : jj < 69 := by omega
    simp only [s2cLoop, if_pos hj, if_neg hc, ih (jj+1) hr (by omega)]
    simp only [List.length_cons]
    congr 1; omega

theorem s2c_plain (v : Str) (hq : '\'' ∉ v) (hl : v.length ≤ 68) : s2c v = '\'' :: (pad8 v ++ ['\'']) := by
  have h1 : v.take 68 = v := List.take_of_length_le hl
  have h2 := s2cLoop_plain v 1 hq (by omega)
  simp only [s2c, h1, h2]
  have h3 : ¬ (1 + v.length + (9 - (1 + v.length)) = 70) := by omega
  rw [if_neg h3]
  have h4 : 9 - (1 + v.length) = 8 - v.length := by omega
  rw [h4]; rfl

theorem undouble_plain : ∀ (w : Str), '\'' ∉ w → undouble w = w
  | [], _ => rfl
  | c :: r, h => by
    have hc : c ≠ '\'' := fun e => h (by simp [e])
    have hr : '\'' ∉ r := fun e => h (by simp [e])
    have : undouble (c :: r) = c :: undouble r := undouble.eq_3 c r (fun r' hc' _ => hc hc')
    rw [this, undouble_plain r hr]

theorem stripQuotes_quoted (w : Str) (hq : '\'' ∉ w) : stripQuotes ('\'' :: (w ++ ['\''])) = w := by
  have h1 : ('\'' :: (w ++ ['\''])).getLast? = some '\'' := by
    rw [List.getLast?_cons_of_ne_nil (by simp)]; simp
  unfold stripQuotes
  rw [if_pos (by rfl), if_pos ⟨by simp, h1⟩]
  simp only [List.drop_succ_cons, List.drop_zero, List.dropLast_concat]
  exact undouble_plain w hq

theorem pad8_noquote (v : Str) (hq : '\'' ∉ v) : '\'' ∉ pad8 v := by
  unfold pad8
  intro h
  rcases List.mem_append.mp h with h | h
  · exact hq h
  · have := List.eq_of_mem_replicate h; exact absurd this (by decide)

theorem stripQuotes_s2c (v : Str) (hq : '\'' ∉ v) (hl : v.length ≤ 68) : stripQuotes (s2c v) = pad8 v := by
  rw [s2c_plain v hq hl, stripQuotes_quoted _ (pad8_noquote v hq)]

/-! ### values with apostrophes: `ffs2c` doubles them, the reader's copy loop halves every run again -/

/-- the stored form of a value: every apostrophe doubled -/
def dbl : Str → Str
  | [] => []
  | c :: r => if c = '\'' then '\'' :: '\'' :: dbl r else c :: dbl r

theorem storedLen_nil : storedLen [] = 0 := rfl

theorem storedLen_cons_quote (r : Str) : storedLen ('\'' :: r) = storedLen r + 2 := by
  simp only [storedLen, List.length_cons, List.count_cons_self]; omega

theorem storedLen_cons_other (c : Char) (r : Str) (hc : c ≠ '\'') : storedLen (c :: r) = storedLen r + 1 := by
  simp only [storedLen, List.length_cons, List.count_cons_of_ne hc]; omega

theorem storedLen_plain (v : Str) (hq : '\'' ∉ v) : storedLen v = v.length := by
  simp only [storedLen, List.count_eq_zero_of_not_mem hq, Nat.add_zero]

theorem length_le_storedLen (v : Str) : v.length ≤ storedLen v := by
  unfold storedLen; omega

theorem padFits_plain (v : Str) (hq : '\'' ∉ v) : padFits v = pad8 v := by
  unfold padFits pad8; rw [storedLen_plain v hq]

theorem dbl_length (v : Str) : (dbl v).length = storedLen v := by
  induction v with
  | nil => rfl
  | cons c r ih =>
    by_cases hc : c = '\''
    · subst hc; simp only [dbl, if_true, List.length_cons, ih, storedLen_cons_quote]
    · simp only [dbl, if_neg hc, List.length_cons, ih, storedLen_cons_other c r hc]

theorem s2cLoop_dbl (v : Str) : ∀ jj, jj + storedLen v ≤ 69 → s2cLoop v jj = (dbl v, jj + storedLen v) := by
  induction v with
  | nil => intro jj _; rfl
  | cons c r ih =>
    intro jj hl
    by_cases hc : c = '\''
    · subst hc
      rw [storedLen_cons_quote] at hl ⊢
      have hj : jj < 69 := by omega
      simp only [s2cLoop, if_pos hj, if_true, ih (jj+2) (by omega), dbl]
      congr 1; omega
    · rw [storedLen_cons_other c r hc] at hl ⊢
      have hj : jj < 69 := by omega
      simp only [s2cLoop, if_pos hj, if_neg hc, ih (jj+1) (by omega), dbl]
      congr 1; omega

/-- `ffs2c` of any value that fits: opening quote, the doubled text, blanks up to 8 stored characters, closing quote -/
theorem s2c_dbl (v : Str) (hl : storedLen v ≤ 68) :
    s2c v = '\'' :: (dbl v ++ List.replicate (8 - storedLen v) ' ' ++ ['\'']) := by
  have h1 : v.take 68 = v := List.take_of_length_le (Nat.le_trans (length_le_storedLen v) hl)
  have h2 := s2cLoop_dbl v 1 (by omega)
  simp only [s2c, h1, h2]
  have h3 : ¬ (1 + storedLen v + (9 - (1 + storedLen v)) = 70) := by omega
  rw [if_neg h3]
  have h4 : 9 - (1 + storedLen v) = 8 - storedLen v := by omega
  rw [h4]

theorem undouble_quote2 (r : Str) : undouble ('\'' :: '\'' :: r) = '\'' :: undouble r := by
  rw [undouble]

theorem undouble_other (c : Char) (r : Str) (hc : c ≠ '\'') : undouble (c :: r) = c :: undouble r :=
  undouble.eq_3 c r (fun _ hc' _ => hc hc')

/-- the reader's copy loop inverts the doubling, whatever follows -/
theorem undouble_dbl_append (v w : Str) : undouble (dbl v ++ w) = v ++ undouble w := by
  induction v with
  | nil => rfl
  | cons c r ih =>
    by_cases hc : c = '\''
    · subst hc
      simp only [dbl, if_true, List.cons_append, undouble_quote2, ih]
    · simp only [dbl, if_neg hc, List.cons_append, undouble_other c _ hc, ih]

theorem stripQuotes_quoted_any (w : Str) : stripQuotes ('\'' :: (w ++ ['\''])) = undouble w := by
  have h1 : ('\'' :: (w ++ ['\''])).getLast? = some '\'' := by
    rw [List.getLast?_cons_of_ne_nil (by simp)]; simp
  unfold stripQuotes
  rw [if_pos (by rfl), if_pos ⟨by simp, h1⟩]
  simp only [List.drop_succ_cons, List.drop_zero, List.dropLast_concat]

/-- **write → read of one auxiliary value, apostrophes included**: the value comes back followed by the blanks FITS
    added, nothing else (single, leading, trailing apostrophes, adjacent runs, values made of apostrophes only, values
    whose stored form fills the card). -/
theorem stripQuotes_s2c_any (v : Str) (hl : storedLen v ≤ 68) : stripQuotes (s2c v) = padFits v := by
  have hb : '\'' ∉ List.replicate (8 - storedLen v) ' ' := by
    intro h; have := List.eq_of_mem_replicate h; exact absurd this (by decide)
  rw [s2c_dbl v hl, stripQuotes_quoted_any, undouble_dbl_append, undouble_plain _ hb]
  rfl

theorem c2sLoop_plain (w : Str) (hq : '\'' ∉ w) : c2sLoop (w ++ ['\'']) = w := by
  induction w with
  | nil => rfl
  | cons c r ih =>
    have hc : c ≠ '\'' := fun h => hq (by simp [h])
    have hr : '\'' ∉ r := fun h => hq (by simp [h])
    rw [List.cons_append, c2sLoop.eq_4]
    · rw [ih hr]
    · intro r' h _; exact hc h
    · intro h; exact hc h

theorem dropWhile_replicate_append (k : Nat) (l : Str) :
    (List.replicate k ' ' ++ l).dropWhile (· = ' ') = l.dropWhile (· = ' ') := by
  induction k with
  | zero => rfl
  | succ k ih => simp [List.replicate_succ, ih]

theorem trimRight_pad (w : Str) (c : Char) (hc : c ≠ ' ') (k : Nat) :
    trimRight (w ++ [c] ++ List.replicate k ' ') = w ++ [c] := by
  unfold trimRight
  rw [List.reverse_append, List.reverse_replicate, dropWhile_replicate_append]
  simp [hc]

theorem c2s_s2c (w : Str) (c : Char) (hc : c ≠ ' ') (hq : '\'' ∉ w ++ [c]) (hl : (w ++ [c]).length ≤ 68) :
    c2s (s2c (w ++ [c])) = some (w ++ [c]) := by
  rw [s2c_plain _ hq hl]
  have hq' : '\'' ∉ pad8 (w ++ [c]) := by
    intro h
    unfold pad8 at h
    rw [List.mem_append] at h
    rcases h with h | h
    · exact hq h
    · have := List.eq_of_mem_replicate h
      revert this; decide
  simp only [c2s, c2sLoop_plain _ hq']
  unfold pad8
  rw [trimRight_pad w c hc]

/-- names that end in a decimal number or are literal: no quote, last character not blank -/
theorem c2s_s2c_of_last (v : Str) (c : Char) (hlast : v.getLast? = some c) (hc : c ≠ ' ') (hq : '\'' ∉ v)
    (hl : v.length ≤ 68) : c2s (s2c v) = some v := by
  rcases List.eq_nil_or_concat v with h | ⟨w, b, h⟩
  · subst h; simp at hlast
  · rw [List.concat_eq_append] at h
    subst h
    have : b = c := by simpa using hlast
    subst this
    exact c2s_s2c w b hc hq hl

/-! ## keys -/

theorem keyN_inj (b : String) {i j : Nat} (h : keyN b i = keyN b j) : i = j :=
  natStr_inj (List.append_cancel_left h)

theorem keyN_ne_base (b : String) (i : Nat) : keyN b i ≠ b.toList := by
  intro h
  have : b.toList ++ natStr i = b.toList ++ [] := by simpa [keyN] using h
  exact natStr_ne_nil i (List.append_cancel_left this)

theorem reserved_order (i : Nat) : reserved (keyN "ORDER" i) = true := by
  simp [reserved, reservedPrefixes, keyN]

theorem reserved_period (i : Nat) : reserved (keyN "PERIOD" i) = true := by
  simp [reserved, reservedPrefixes, keyN]

theorem head_order (i : Nat) : (keyN "ORDER" i).head? = some 'O' := rfl
theorem head_period (i : Nat) : (keyN "PERIOD" i).head? = some 'P' := rfl
theorem head_knots (i : Nat) : (keyN "KNOTS" i).head? = some 'K' := rfl

theorem upper_keyN_knots (i : Nat) : upper (keyN "KNOTS" i) = keyN "KNOTS" i := by
  unfold keyN
  rw [upper_append, upper_natStr]
  rfl

theorem keyN_knots_ok (i : Nat) (hi : i < 1000) :
    c2s (s2c (keyN "KNOTS" i)) = some (keyN "KNOTS" i) := by
  have hd : ∀ d ∈ digits, d ≠ ' ' ∧ d ≠ '\'' := by decide
  obtain ⟨c, hc⟩ : ∃ c, (natStr i).getLast? = some c := by
    cases h : (natStr i).getLast? with
    | none => exact absurd (List.getLast?_eq_none_iff.1 h) (natStr_ne_nil i)
    | some c => exact ⟨c, rfl⟩
  have hcm : c ∈ natStr i := List.mem_of_getLast? hc
  apply c2s_s2c_of_last _ c
  · unfold keyN; rw [List.getLast?_append, hc]; rfl
  · exact (hd c (natStr_mem i c hcm)).1
  · unfold keyN
    rw [List.mem_append]
    rintro (h | h)
    · revert h; decide
    · exact (hd _ (natStr_mem i _ h)).2 rfl
  · have := natStr_length_le3 i hi
    unfold keyN
    rw [List.length_append]
    have : "KNOTS".toList.length = 5 := rfl
    omega

theorem extents_name_ok : c2s (s2c "EXTENTS".toList) = some "EXTENTS".toList := by
  apply c2s_s2c_of_last _ 'S' <;> decide

/-! ## the primary header written by `writeGen` -/

def wAxes (t : Table) : List Nat := (List.range t.ndim).map fun i => t.naxes.getD (t.ndim - i - 1) 0

def typeCard : Card := cardStr "TYPE".toList "Spline Coefficient Table".toList []

def ordCards (single : Bool) (t : Table) : List Card :=
  if single then [cardInt "ORDER".toList (t.order.headD 0) "B-Spline Order".toList] else orderCards t

def primHdu (E : Ext) (single : Bool) (t : Table) : Hdu :=
  ⟨wAxes t, primaryBoiler ++ [typeCard] ++ ordCards single t ++ periodCards E t ++ auxCards t,
   .f32 (t.coef.take (prod (wAxes t)))⟩

def restHdus (t : Table) : List Hdu := (List.range t.ndim).map (knotHdu t) ++ extentsHdus t

theorem writeGen_eq (E : Ext) (single : Bool) (t : Table) :
    writeGen E single t = primHdu E single t :: restHdus t := rfl

/-- the cards in front of the order cards -/
def preCards (t : Table) : List Card :=
  structCards true ⟨wAxes t, [], .f32 []⟩ ++ primaryBoiler ++ [typeCard]

theorem hdr_prim (E : Ext) (s : Bool) (t : Table) :
    hdrCards true (primHdu E s t) = preCards t ++ (ordCards s t ++ (periodCards E t ++ auxCards t)) := by
  simp [hdrCards, primHdu, preCards, structCards, Pix.bitpix, List.append_assoc]

theorem mem_axisCards {c : Card} {axes : List Nat} (h : c ∈ axisCards axes) :
    ∃ i, c.key = "NAXIS".toList ++ natStr (i+1) := by
  unfold axisCards at h
  rw [List.mem_map] at h
  obtain ⟨i, _, rfl⟩ := h
  exact ⟨i, rfl⟩

/-- keys of the mandatory cards of any HDU -/
theorem structCards_key (p : Bool) (h : Hdu) (c : Card) (hc : c ∈ structCards p h) :
    c.key.head? ≠ some 'O' ∧ c.key.head? ≠ some 'E' ∧ c.key.head? ≠ some 'H' ∧
    (p = true → reserved c.key = true ∧ c.key.head? ≠ some 'P') := by
  unfold structCards at hc
  simp only [List.mem_append] at hc
  rcases hc with ((hc | hc) | hc) | hc
  · cases p <;> simp at hc <;> subst hc <;> simp [reserved, reservedPrefixes]
  · simp at hc; rcases hc with rfl | rfl <;> simp [reserved, reservedPrefixes]
  · obtain ⟨i, hi⟩ := mem_axisCards hc
    rw [hi]; simp [reserved, reservedPrefixes]
  · cases p <;> simp at hc
    rcases hc with rfl | rfl <;> simp

theorem preCards_key (t : Table) (c : Card) (hc : c ∈ preCards t) :
    reserved c.key = true ∧ c.key.head? ≠ some 'O' ∧ c.key.head? ≠ some 'P' := by
  unfold preCards at hc
  simp only [List.mem_append] at hc
  rcases hc with (hc | hc) | hc
  · have := structCards_key true _ c hc
    exact ⟨(this.2.2.2 rfl).1, this.1, (this.2.2.2 rfl).2⟩
  · simp [primaryBoiler] at hc
    rcases hc with rfl | rfl | rfl <;> simp [reserved, reservedPrefixes]
  · simp [typeCard, cardStr] at hc
    subst hc; simp [reserved, reservedPrefixes]

theorem mem_orderCards {c : Card} {t : Table} (h : c ∈ orderCards t) : ∃ i, c.key = keyN "ORDER" i := by
  unfold orderCards at h
  rw [List.mem_map] at h
  obtain ⟨i, _, rfl⟩ := h
  exact ⟨i, rfl⟩

theorem ordCards_key (s : Bool) (t : Table) (c : Card) (hc : c ∈ ordCards s t) :
    reserved c.key = true ∧ c.key.head? = some 'O' ∧ (s = false → c.key ≠ "ORDER".toList) := by
  cases s
  · obtain ⟨i, hi⟩ := mem_orderCards (by simpa [ordCards] using hc)
    rw [hi]
    exact ⟨reserved_order i, head_order i, fun _ => keyN_ne_base _ i⟩
  · simp [ordCards] at hc
    subst hc
    simp [cardInt_key, reserved, reservedPrefixes]

theorem mem_periodCards {E : Ext} {c : Card} {t : Table} (h : c ∈ periodCards E t) :
    ∃ i, c.key = keyN "PERIOD" i := by
  unfold periodCards at h
  split at h
  · simp at h
  · rw [List.mem_map] at h
    obtain ⟨i, _, rfl⟩ := h
    exact ⟨i, rfl⟩

theorem periodCards_key (E : Ext) (t : Table) (c : Card) (hc : c ∈ periodCards E t) :
    reserved c.key = true ∧ c.key.head? = some 'P' := by
  obtain ⟨i, hi⟩ := mem_periodCards hc
  rw [hi]; exact ⟨reserved_period i, head_period i⟩

theorem mem_auxCards {c : Card} {t : Table} (h : c ∈ auxCards t) : ∃ kv ∈ t.aux, c.key = kv.1 := by
  unfold auxCards at h
  rw [List.mem_map] at h
  obtain ⟨kv, hkv, rfl⟩ := h
  exact ⟨kv, hkv, rfl⟩

/-- every key of the primary header is reserved or an aux key -/
theorem prim_key (E : Ext) (s : Bool) (t : Table) (c : Card) (hc : c ∈ hdrCards true (primHdu E s t)) :
    reserved c.key = true ∨ ∃ kv ∈ t.aux, c.key = kv.1 := by
  rw [hdr_prim] at hc
  simp only [List.mem_append] at hc
  rcases hc with hc | hc | hc | hc
  · exact .inl (preCards_key t c hc).1
  · exact .inl (ordCards_key s t c hc).1
  · exact .inl (periodCards_key E t c hc).1
  · exact .inr (mem_auxCards hc)

/-- lookup of a reserved name that is not used by any card -/
theorem findCard_prim_none (E : Ext) (s : Bool) (t : Table) (name : Str)
    (haux : ∀ kv ∈ t.aux, kv.1 ≠ name)
    (hres : ∀ c ∈ preCards t ++ (ordCards s t ++ periodCards E t), c.key ≠ name) :
    findCard (hdrCards true (primHdu E s t)) name = none := by
  unfold findCard
  rw [List.find?_eq_none]
  intro c hc
  rw [hdr_prim] at hc
  simp only [List.mem_append] at hc hres
  have : c.key ≠ name := by
    rcases hc with hc | hc | hc | hc
    · exact hres c (.inl hc)
    · exact hres c (.inr (.inl hc))
    · exact hres c (.inr (.inr hc))
    · obtain ⟨kv, hkv, h⟩ := mem_auxCards hc
      rw [h]; exact haux kv hkv
  simpa using this


/-! ## key lookups in the primary header -/

theorem findCard_skip (A B : List Card) (name : Str) (h : ∀ c ∈ A, c.key ≠ name) :
    findCard (A ++ B) name = findCard B name := by
  unfold findCard
  exact find_append_of_none _ A B fun c hc => by simpa using h c hc

theorem findCard_hit (A B : List Card) (name : Str) (c : Card) (h : findCard A name = some c) :
    findCard (A ++ B) name = some c := find_append_of_some _ A B c h

theorem findCard_single_hit (c : Card) (name : Str) (h : c.key = name) : findCard [c] name = some c := by
  simp [findCard, h]

theorem findCard_single_miss (c : Card) (name : Str) (h : c.key ≠ name) : findCard [c] name = none := by
  simp [findCard, h]

theorem ne_of_head {a b : Str} {x : Char} (ha : a.head? ≠ some x) (hb : b.head? = some x) : a ≠ b := by
  rintro rfl; exact ha hb

theorem ne_of_head' {a b : Str} {x y : Char} (ha : a.head? = some x) (hb : b.head? = some y) (hxy : x ≠ y) :
    a ≠ b := by
  rintro rfl; rw [ha] at hb; exact hxy (Option.some.inj hb)

theorem find_order_i (E : Ext) (t : Table) (i : Nat) (hi : i < t.ndim) :
    findCard (hdrCards true (primHdu E false t)) (keyN "ORDER" i)
      = some (cardInt (keyN "ORDER" i) (t.order.getD i 0) "B-Spline Order".toList) := by
  rw [hdr_prim, findCard_skip _ _ _ fun c hc => ne_of_head (preCards_key t c hc).2.1 (head_order i)]
  apply findCard_hit
  show List.find? _ (orderCards t) = _
  unfold orderCards
  apply find_range_map (fun j => cardInt (keyN "ORDER" j) (t.order.getD j 0) "B-Spline Order".toList) _ i _ hi
  intro j _
  simp only [cardInt_key]
  exact ⟨fun h => keyN_inj _ (of_decide_eq_true h), fun h => by subst h; exact decide_eq_true rfl⟩

theorem order_not_reserved_aux (t : Table) (haux : ∀ kv ∈ t.aux, reserved kv.1 = false) (name : Str)
    (hn : reserved name = true) : ∀ kv ∈ t.aux, kv.1 ≠ name := by
  intro kv hkv h
  have := haux kv hkv
  rw [h, hn] at this
  exact Bool.noConfusion this

theorem find_ORDER_false (E : Ext) (t : Table) (haux : ∀ kv ∈ t.aux, reserved kv.1 = false) :
    findCard (hdrCards true (primHdu E false t)) "ORDER".toList = none := by
  apply findCard_prim_none
  · exact order_not_reserved_aux t haux _ (by decide)
  · intro c hc
    simp only [List.mem_append] at hc
    rcases hc with hc | hc | hc
    · exact ne_of_head (preCards_key t c hc).2.1 rfl
    · exact (ordCards_key false t c hc).2.2 rfl
    · exact ne_of_head' (periodCards_key E t c hc).2 (y := 'O') rfl (by decide)

theorem find_ORDER_true (E : Ext) (t : Table) :
    findCard (hdrCards true (primHdu E true t)) "ORDER".toList
      = some (cardInt "ORDER".toList (t.order.headD 0) "B-Spline Order".toList) := by
  rw [hdr_prim, findCard_skip _ _ _ fun c hc => ne_of_head (preCards_key t c hc).2.1 rfl]
  apply findCard_hit
  simp [ordCards, findCard, cardInt_key]

theorem find_period_some (E : Ext) (s : Bool) (t : Table) (p : List UInt64) (hp : t.periods = some p)
    (i : Nat) (hi : i < t.ndim) :
    findCard (hdrCards true (primHdu E s t)) (keyN "PERIOD" i) = some (cardDbl E (keyN "PERIOD" i) (p.getD i 0)) := by
  rw [hdr_prim, findCard_skip _ _ _ fun c hc => ne_of_head (preCards_key t c hc).2.2 (head_period i),
    findCard_skip _ _ _ fun c hc => ne_of_head' (ordCards_key s t c hc).2.1 (head_period i) (by decide)]
  apply findCard_hit
  show List.find? _ (periodCards E t) = _
  unfold periodCards
  rw [hp]
  apply find_range_map (fun j => cardDbl E (keyN "PERIOD" j) (p.getD j 0)) _ i _ hi
  intro j _
  simp only [cardDbl]
  exact ⟨fun h => keyN_inj _ (of_decide_eq_true h), fun h => by subst h; exact decide_eq_true rfl⟩

theorem find_period_none (E : Ext) (s : Bool) (t : Table) (hp : t.periods = none)
    (haux : ∀ kv ∈ t.aux, reserved kv.1 = false) (i : Nat) :
    findCard (hdrCards true (primHdu E s t)) (keyN "PERIOD" i) = none := by
  apply findCard_prim_none
  · exact order_not_reserved_aux t haux _ (reserved_period i)
  · intro c hc
    simp only [List.mem_append] at hc
    rcases hc with hc | hc | hc
    · exact ne_of_head (preCards_key t c hc).2.2 (head_period i)
    · exact ne_of_head' (ordCards_key s t c hc).2.1 (head_period i) (by decide)
    · simp [periodCards, hp] at hc

/-- what the reader makes of the `PERIODn` keys -/
def rdPeriods (E : Ext) (t : Table) : List UInt64 :=
  match t.periods with
  | none => List.replicate t.ndim 0
  | some p => (List.range t.ndim).map fun i => (E.parseD (E.fmtD (p.getD i 0))).getD 0

theorem periods_read (E : Ext) (s : Bool) (t : Table) (haux : ∀ kv ∈ t.aux, reserved kv.1 = false) :
    ((List.range t.ndim).map fun i => (readKeyDbl E (hdrCards true (primHdu E s t)) (keyN "PERIOD" i)).getD 0)
      = rdPeriods E t := by
  unfold rdPeriods
  cases hp : t.periods with
  | none =>
    simp only
    rw [← map_const_range]
    apply List.map_congr_left
    intro i _
    simp only [readKeyDbl, find_period_none E s t hp haux i]
    rfl
  | some p =>
    simp only
    apply List.map_congr_left
    intro i hi
    rw [List.mem_range] at hi
    simp only [readKeyDbl, find_period_some E s t p hp i hi, cardDbl]

theorem rdPeriods_exact (E : Ext) (t : Table) (p : List UInt64) (hp : t.periods = some p)
    (hlen : p.length = t.ndim) (hx : ∀ x ∈ p, E.parseD (E.fmtD x) = some x) : rdPeriods E t = p := by
  unfold rdPeriods
  rw [hp]
  simp only
  rw [← map_getD_range p 0 t.ndim hlen]
  apply List.map_congr_left
  intro i hi
  rw [List.mem_range] at hi
  rw [map_getD_range p 0 t.ndim hlen]
  have : p.getD i 0 ∈ p := by
    rw [List.getD_eq_getElem?_getD, List.getElem?_eq_getElem (by omega)]
    exact List.getElem_mem _
  rw [hx _ this]; rfl

/-! ## orders -/

theorem readOrders_eq (cs : List Card) (g : Nat → Nat) :
    ∀ n i, (∀ j, i ≤ j → j < i + n → readKeyInt cs .tuint (keyN "ORDER" j) = some (g j)) →
      readOrders cs i n = .ok ((List.range' i n).map g)
  | 0, _, _ => rfl
  | n+1, i, h => by
    rw [readOrders, h i (Nat.le_refl _) (by omega), readOrders_eq cs g n (i+1) fun j h1 h2 => h j (by omega) (by omega),
      List.range'_succ]
    rfl

theorem orders_false (E : Ext) (t : Table) (hlt : ∀ o ∈ t.order, o < 2147483648) :
    readOrders (hdrCards true (primHdu E false t)) 0 t.ndim = .ok t.order := by
  rw [readOrders_eq _ (fun i => t.order.getD i 0), ← List.range_eq_range', map_getD_range t.order 0 t.ndim rfl]
  intro j _ hj
  have hj' : j < t.order.length := by simpa [Table.ndim] using hj
  have hv : t.order.getD j 0 < 2147483648 := by
    rw [List.getD_eq_getElem?_getD, List.getElem?_eq_getElem hj']
    exact hlt _ (List.getElem_mem _)
  exact readKeyInt_tuint _ _ _ _ hv (find_order_i E t j (by simpa using hj)) (cardInt_val _ _ _ hv)

theorem orders_true (E : Ext) (t : Table) (hpos : 1 ≤ t.ndim) (hlt : ∀ o ∈ t.order, o < 2147483648) :
    readKeyInt (hdrCards true (primHdu E true t)) .tint "ORDER".toList = some (t.order.headD 0) := by
  have hv : t.order.headD 0 < 2147483648 := by
    unfold Table.ndim at hpos
    cases h : t.order with
    | nil => simp [h] at hpos
    | cons a r => exact hlt a (by simp [h])
  exact readKeyInt_tint _ _ _ _ hv (find_ORDER_true E t) (cardInt_val _ _ _ hv)

theorem replicate_of_all_eq (l : List Nat) (o : Nat) (h : ∀ x ∈ l, x = o) : List.replicate l.length o = l := by
  induction l with
  | nil => rfl
  | cons a r ih =>
    rw [List.length_cons, List.replicate_succ, ih fun x hx => h x (by simp [hx]), h a (by simp)]

/-! ## aux keywords -/

theorem readAux_append (A B : List Card) : readAux (A ++ B) = readAux A ++ readAux B := by
  unfold readAux; exact List.filterMap_append

theorem readAux_reserved (A : List Card) (h : ∀ c ∈ A, reserved c.key = true) : readAux A = [] := by
  unfold readAux
  rw [List.filterMap_eq_nil_iff]
  intro c hc
  rw [if_pos (h c hc)]

theorem readAux_cons_keep (c : Card) (cs : List Card) (h : reserved c.key = false) :
    readAux (c :: cs) = (c.key, stripQuotes c.val) :: readAux cs := by
  simp [readAux, h]

theorem readAux_auxCards (aux : List (Str × Str))
    (h : ∀ kv ∈ aux, reserved kv.1 = false ∧ storedLen kv.2 ≤ 68) :
    readAux (aux.map fun kv => cardStr kv.1 kv.2 []) = aux.map fun kv => (kv.1, padFits kv.2) := by
  induction aux with
  | nil => rfl
  | cons kv r ih =>
    obtain ⟨h1, h2⟩ := h kv (by simp)
    have ih' := ih fun x hx => h x (by simp [hx])
    rw [List.map_cons, List.map_cons, readAux_cons_keep _ _ h1, ih']
    simp only [cardStr, stripQuotes_s2c_any _ h2]

theorem aux_read (E : Ext) (s : Bool) (t : Table)
    (h : ∀ kv ∈ t.aux, reserved kv.1 = false ∧ storedLen kv.2 ≤ 68) :
    readAux (hdrCards true (primHdu E s t)) = t.aux.map fun kv => (kv.1, padFits kv.2) := by
  rw [hdr_prim, readAux_append, readAux_append, readAux_append,
    readAux_reserved _ fun c hc => (preCards_key t c hc).1,
    readAux_reserved _ fun c hc => (ordCards_key s t c hc).1,
    readAux_reserved _ fun c hc => (periodCards_key E t c hc).1]
  exact readAux_auxCards t.aux h


/-! ## finding the extensions -/

theorem nameMatches_none (p : Bool) (h : Hdu) (name : Str)
    (h1 : findCard (hdrCards p h) "EXTNAME".toList = none)
    (h2 : findCard (hdrCards p h) "HDUNAME".toList = none) : nameMatches p h name = false := by
  simp only [nameMatches, h1, h2, Option.bind_none, Bool.or_false]

theorem nameMatches_ext (p : Bool) (h : Hdu) (name nm : Str) (c : Card)
    (h1 : findCard (hdrCards p h) "EXTNAME".toList = some c) (hc : c2s c.val = some nm)
    (h2 : findCard (hdrCards p h) "HDUNAME".toList = none) :
    nameMatches p h name = (upper nm == upper name) := by
  simp only [nameMatches, h1, h2, hc, Option.bind_none, Option.bind_some, Bool.or_false]

/-- an image extension as photospline writes it: data plus an `EXTNAME` -/
def extHdu (axes : List Nat) (pix : Pix) (nm : Str) : Hdu := ⟨axes, [cardStr "EXTNAME".toList nm []], pix⟩

theorem updateKey_createImg (axes : List Nat) (pix : Pix) (nm : Str) :
    (createImg false axes pix).updateKey (cardStr "EXTNAME".toList nm []) = extHdu axes pix nm := rfl

theorem knotHdu_eq (t : Table) (i : Nat) :
    knotHdu t i = extHdu [(t.knots.getD i []).length] (.f64 (t.knots.getD i [])) (keyN "KNOTS" i) := rfl

theorem nameMatches_extHdu (axes : List Nat) (pix : Pix) (nm name : Str) (hnm : c2s (s2c nm) = some nm) :
    nameMatches false (extHdu axes pix nm) name = (upper nm == upper name) := by
  have hE : findCard (hdrCards false (extHdu axes pix nm)) "EXTNAME".toList
      = some (cardStr "EXTNAME".toList nm []) := by
    unfold hdrCards
    rw [findCard_skip _ _ _ fun c hc => ne_of_head (structCards_key false _ c hc).2.1 rfl]
    exact findCard_single_hit _ _ rfl
  have hH : findCard (hdrCards false (extHdu axes pix nm)) "HDUNAME".toList = none := by
    unfold hdrCards
    rw [findCard_skip _ _ _ fun c hc => ne_of_head (structCards_key false _ c hc).2.2.1 rfl]
    exact findCard_single_miss _ _ (by show "EXTNAME".toList ≠ "HDUNAME".toList; decide)
  exact nameMatches_ext _ _ _ nm _ hE hnm hH

theorem movnamAux_eq_find (name : Str) (L : List Hdu) :
    movnamAux name false L = L.find? fun h => nameMatches false h name := by
  induction L with
  | nil => rfl
  | cons h r ih =>
    rw [movnamAux, List.find?_cons, ih]
    cases nameMatches false h name <;> rfl

theorem findCard_none_of (cs : List Card) (name : Str) (h : ∀ c ∈ cs, c.key ≠ name) : findCard cs name = none := by
  unfold findCard
  rw [List.find?_eq_none]
  intro c hc hd
  exact h c hc (of_decide_eq_true hd)

theorem nameMatches_prim (E : Ext) (s : Bool) (t : Table) (name : Str)
    (haux : ∀ kv ∈ t.aux, kv.1 ≠ "EXTNAME".toList ∧ kv.1 ≠ "HDUNAME".toList) :
    nameMatches true (primHdu E s t) name = false := by
  have hE : reserved "EXTNAME".toList = false := by decide
  have hH : reserved "HDUNAME".toList = false := by decide
  apply nameMatches_none
  · apply findCard_none_of
    intro c hc
    rcases prim_key E s t c hc with h | ⟨kv, hkv, h⟩
    · intro h'; rw [h', hE] at h; exact Bool.noConfusion h
    · rw [h]; exact (haux kv hkv).1
  · apply findCard_none_of
    intro c hc
    rcases prim_key E s t c hc with h | ⟨kv, hkv, h⟩
    · intro h'; rw [h', hH] at h; exact Bool.noConfusion h
    · rw [h]; exact (haux kv hkv).2

theorem movnam_written (E : Ext) (s : Bool) (t : Table) (name : Str)
    (haux : ∀ kv ∈ t.aux, kv.1 ≠ "EXTNAME".toList ∧ kv.1 ≠ "HDUNAME".toList) :
    movnamHdu (primHdu E s t :: restHdus t) name = (restHdus t).find? fun h => nameMatches false h name := by
  rw [movnamHdu, movnamAux, nameMatches_prim E s t name haux, ← movnamAux_eq_find]
  rfl

theorem nameMatches_knotHdu (t : Table) (j : Nat) (hj : j < 1000) (name : Str) :
    nameMatches false (knotHdu t j) name = (keyN "KNOTS" j == upper name) := by
  rw [knotHdu_eq, nameMatches_extHdu _ _ _ _ (keyN_knots_ok j hj), upper_keyN_knots]

theorem movnam_knots (E : Ext) (s : Bool) (t : Table)
    (haux : ∀ kv ∈ t.aux, kv.1 ≠ "EXTNAME".toList ∧ kv.1 ≠ "HDUNAME".toList)
    (hn : t.ndim ≤ 999) (i : Nat) (hi : i < t.ndim) :
    movnamHdu (primHdu E s t :: restHdus t) (keyN "KNOTS" i) = some (knotHdu t i) := by
  rw [movnam_written E s t _ haux]
  unfold restHdus
  apply find_append_of_some
  apply find_range_map (knotHdu t) _ i _ hi
  intro j hj
  rw [nameMatches_knotHdu t j (by omega), upper_keyN_knots, beq_iff_eq]
  exact ⟨fun h => keyN_inj _ h, fun h => by rw [h]⟩

theorem movnam_extents (E : Ext) (s : Bool) (t : Table)
    (haux : ∀ kv ∈ t.aux, kv.1 ≠ "EXTNAME".toList ∧ kv.1 ≠ "HDUNAME".toList)
    (hn : t.ndim ≤ 999) :
    movnamHdu (primHdu E s t :: restHdus t) "EXTENTS".toList =
      t.extents.map fun e => extHdu [2 * t.ndim] (.f64 (e.take (2 * t.ndim))) "EXTENTS".toList := by
  rw [movnam_written E s t _ haux]
  unfold restHdus
  rw [find_append_of_none]
  · unfold extentsHdus
    cases t.extents with
    | none => rfl
    | some e =>
      simp only [updateKey_createImg, Option.map_some]
      rw [List.find?_cons, nameMatches_extHdu _ _ _ _ extents_name_ok]
      simp
  · intro h hh
    rw [List.mem_map] at hh
    obtain ⟨j, hj, rfl⟩ := hh
    rw [List.mem_range] at hj
    rw [nameMatches_knotHdu t j (by omega)]
    have h1 : upper "EXTENTS".toList = "EXTENTS".toList := by decide
    rw [h1]
    have := ne_of_head' (head_knots j) (b := "EXTENTS".toList) (y := 'E') rfl (by decide)
    simpa using this

/-! ## knots -/

theorem readPixD_f64 (E : Ext) (axes : List Nat) (cards : List Card) (k : List UInt64) (n : Nat)
    (hn : k.length = n) : readPixD E ⟨axes, cards, .f64 k⟩ n = some k := by
  unfold readPixD
  have h1 : ¬ ((Hdu.mk axes cards (.f64 k)).pix.length < n) := by
    show ¬ (k.length < n); omega
  rw [if_neg h1]
  show some (k.take n) = some k
  rw [List.take_of_length_le (by omega)]

theorem readKnots_eq (E : Ext) (f : Fits) (g : Nat → List UInt64) (cards : Nat → List Card) :
    ∀ n i, (∀ j, i ≤ j → j < i + n → g j ≠ [] ∧
        movnamHdu f (keyN "KNOTS" j) = some ⟨[(g j).length], cards j, .f64 (g j)⟩) →
      readKnots E f i n = .ok ((List.range' i n).map g)
  | 0, _, _ => rfl
  | n+1, i, h => by
    obtain ⟨h1, h2⟩ := h i (Nat.le_refl _) (by omega)
    have h3 : (g i).length ≠ 0 := fun h0 => h1 (List.length_eq_zero_iff.1 h0)
    rw [readKnots, h2]
    simp only [List.headD_cons, if_neg h3, readPixD_f64 E _ _ (g i) _ rfl]
    rw [readKnots_eq E f g cards n (i+1) fun j h1 h2 => h j (by omega) (by omega), List.range'_succ]
    rfl

theorem knots_read (E : Ext) (s : Bool) (t : Table)
    (haux : ∀ kv ∈ t.aux, kv.1 ≠ "EXTNAME".toList ∧ kv.1 ≠ "HDUNAME".toList)
    (hn : t.ndim ≤ 999) (hlen : t.knots.length = t.ndim) (hne : ∀ k ∈ t.knots, k ≠ []) :
    readKnots E (primHdu E s t :: restHdus t) 0 t.ndim = .ok t.knots := by
  rw [readKnots_eq E _ (fun i => t.knots.getD i []) (fun i => [cardStr "EXTNAME".toList (keyN "KNOTS" i) []]),
    ← List.range_eq_range', map_getD_range t.knots [] t.ndim hlen]
  intro j _ hj
  have hj' : j < t.ndim := by omega
  constructor
  · rw [List.getD_eq_getElem?_getD, List.getElem?_eq_getElem (by omega)]
    exact hne _ (List.getElem_mem _)
  · rw [movnam_knots E s t haux hn j hj']; rfl

/-! ## axes, strides, coefficients -/

theorem prod_cons (a : Nat) (l : List Nat) : prod (a :: l) = a * prod l := rfl

theorem prod_append_single (l : List Nat) (x : Nat) : prod (l ++ [x]) = prod l * x := by
  induction l with
  | nil => simp [prod]
  | cons a r ih => rw [List.cons_append, prod_cons, prod_cons, ih, Nat.mul_assoc]

theorem prod_reverse (l : List Nat) : prod l.reverse = prod l := by
  induction l with
  | nil => rfl
  | cons a r ih => rw [List.reverse_cons, prod_append_single, ih, prod_cons, Nat.mul_comm]

theorem partialProds_append_single (l : List Nat) (x : Nat) :
    ∀ a, partialProds a (l ++ [x]) = partialProds a l ++ [a * prod l] := by
  induction l with
  | nil => intro a; simp [partialProds, prod]
  | cons b r ih =>
    intro a
    rw [List.cons_append, partialProds, partialProds, ih, prod_cons, Nat.mul_assoc]
    rfl

theorem partialProds_reverse (l : List Nat) : (partialProds 1 l.reverse).reverse = rowMajor l := by
  induction l with
  | nil => rfl
  | cons a r ih =>
    rw [List.reverse_cons, partialProds_append_single, List.reverse_append, ih, prod_reverse, Nat.one_mul]
    rfl

theorem strides_of_axes (axes : List Nat) : (partialProds 1 axes).reverse = rowMajor axes.reverse := by
  rw [← partialProds_reverse, List.reverse_reverse]

theorem rowMajor_head (l : List Nat) (h : l ≠ []) : (rowMajor l).headD 0 * l.headD 0 = prod l := by
  cases l with
  | nil => exact absurd rfl h
  | cons a r => simp [rowMajor, prod_cons, Nat.mul_comm]

theorem wAxes_eq (t : Table) (h : t.naxes.length = t.ndim) : wAxes t = t.naxes.reverse :=
  map_getD_range_rev _ _ _ h

theorem coef_read (E : Ext) (s : Bool) (t : Table) (hpos : 1 ≤ t.ndim) (hnx : t.naxes.length = t.ndim)
    (hc : t.coef.length = prod t.naxes) :
    readPixF E (primHdu E s t)
      (((partialProds 1 (primHdu E s t).axes).reverse).headD 0 * ((primHdu E s t).axes.reverse).headD 0)
      = some t.coef := by
  have hax : (primHdu E s t).axes = t.naxes.reverse := wAxes_eq t hnx
  have hne : t.naxes ≠ [] := by
    intro h0; rw [h0] at hnx; simp at hnx; omega
  rw [hax, strides_of_axes, List.reverse_reverse, rowMajor_head _ hne]
  have hpix : (primHdu E s t).pix = .f32 t.coef := by
    show Pix.f32 (t.coef.take (prod (wAxes t))) = _
    rw [wAxes_eq t hnx, prod_reverse, List.take_of_length_le (by omega)]
  unfold readPixF
  rw [hpix]
  have h1 : ¬ ((Pix.f32 t.coef).length < prod t.naxes) := by
    show ¬ (t.coef.length < _); omega
  rw [if_neg h1]
  show some (t.coef.take _) = some t.coef
  rw [List.take_of_length_le (by omega)]

/-! ## the whole reader on what the writer wrote -/

/-- the order-reading step of `readCore` -/
def ordersOf (cs : List Card) (ndim : Nat) : Except RErr (List Nat) :=
  match readKeyInt cs .tint "ORDER".toList with
  | some o => .ok (List.replicate ndim o)
  | none => readOrders cs 0 ndim

/-- the extents-reading step of `readCore` -/
def extentsOf (E : Ext) (f : Fits) (ndim : Nat) (order : List Nat) (knots : List (List UInt64)) :
    Except RErr (List UInt64) :=
  match movnamHdu f "EXTENTS".toList with
  | none => .ok (defaultExtents order knots)
  | some h =>
    let n := h.axes.headD 0
    if n ≠ 2 * ndim then .ok (defaultExtents order knots) else
    match readPixD E h n with
    | none => .error .extData
    | some e => .ok e

/-- `readCore` on a non-empty file, with the two inner steps named -/
theorem readCore_cons (E : Ext) (h0 : Hdu) (rest : List Hdu) :
    readCore E (h0 :: rest) =
      if h0.axes.length < 1 then .error .badDim else
      match ordersOf (hdrCards true h0) h0.axes.length with
      | .error e => .error e
      | .ok order =>
        match readPixF E h0 (((partialProds 1 h0.axes).reverse).headD 0 * (h0.axes.reverse).headD 0) with
        | none => .error .readPix
        | some coef =>
          match readKnots E (h0 :: rest) 0 h0.axes.length with
          | .error e => .error e
          | .ok knots =>
            match extentsOf E (h0 :: rest) h0.axes.length order knots with
            | .error e => .error e
            | .ok extents =>
              .ok ⟨order, knots, h0.axes.reverse, (partialProds 1 h0.axes).reverse, coef, some extents,
                some ((List.range h0.axes.length).map fun i =>
                  (readKeyDbl E (hdrCards true h0) (keyN "PERIOD" i)).getD 0),
                readAux (hdrCards true h0)⟩ := rfl

/-- Whatever is read, the axes are the reversed image axes and the strides their row-major strides. -/
theorem readCore_strides (E : Ext) (h0 : Hdu) (rest : List Hdu) (t : Table)
    (h : readCore E (h0 :: rest) = .ok t) :
    t.naxes = h0.axes.reverse ∧ t.strides = rowMajor h0.axes.reverse := by
  rw [readCore_cons] at h
  split at h
  · cases h
  · split at h
    · cases h
    · split at h
      · cases h
      · split at h
        · cases h
        · split at h
          · cases h
          · have := Except.ok.inj h
            subst this
            exact ⟨rfl, strides_of_axes _⟩

/-- the table `readCore` returns for `writeGen E s t` -/
def rereadTable (E : Ext) (t : Table) : Table :=
  ⟨t.order, t.knots, t.naxes, t.strides, t.coef, some (t.extents.getD (defaultExtents t.order t.knots)),
   some (rdPeriods E t), t.aux.map fun kv => (kv.1, padFits kv.2)⟩

theorem readCore_writeGen (E : Ext) (t : Table) (s : Bool)
    (ndim_pos : 1 ≤ t.ndim) (ndim_le : t.ndim ≤ 999)
    (knots_len : t.knots.length = t.ndim) (naxes_len : t.naxes.length = t.ndim)
    (knots_ne : ∀ k ∈ t.knots, k ≠ [])
    (strides_rm : t.strides = rowMajor t.naxes)
    (coef_len : t.coef.length = prod t.naxes)
    (order_lt : ∀ o ∈ t.order, o < 2147483648)
    (extents_len : ∀ e, t.extents = some e → e.length = 2 * t.ndim)
    (aux_ok : ∀ kv ∈ t.aux, reserved kv.1 = false ∧ kv.1 ≠ "EXTNAME".toList ∧ kv.1 ≠ "HDUNAME".toList
            ∧ storedLen kv.2 ≤ 68)
    (hs : s = true → ∀ x ∈ t.order, x = t.order.headD 0) :
    readCore E (writeGen E s t) = .ok (rereadTable E t) := by
  have haux1 : ∀ kv ∈ t.aux, reserved kv.1 = false := fun kv h => (aux_ok kv h).1
  have haux2 : ∀ kv ∈ t.aux, kv.1 ≠ "EXTNAME".toList ∧ kv.1 ≠ "HDUNAME".toList :=
    fun kv h => ⟨(aux_ok kv h).2.1, (aux_ok kv h).2.2.1⟩
  have haux3 : ∀ kv ∈ t.aux, reserved kv.1 = false ∧ storedLen kv.2 ≤ 68 :=
    fun kv h => ⟨(aux_ok kv h).1, (aux_ok kv h).2.2.2⟩
  have hax : (primHdu E s t).axes = t.naxes.reverse := wAxes_eq t naxes_len
  have hlen : (primHdu E s t).axes.length = t.ndim := by rw [hax, List.length_reverse, naxes_len]
  -- orders
  have hord : ordersOf (hdrCards true (primHdu E s t)) t.ndim = .ok t.order := by
    unfold ordersOf
    cases s with
    | false => rw [readKeyInt_none _ _ _ (find_ORDER_false E t haux1)]; exact orders_false E t order_lt
    | true =>
      rw [orders_true E t ndim_pos order_lt]
      show Except.ok (List.replicate t.order.length _) = _
      rw [replicate_of_all_eq _ _ (hs rfl)]
  -- extents
  have hext : extentsOf E (primHdu E s t :: restHdus t) t.ndim t.order t.knots
      = .ok (t.extents.getD (defaultExtents t.order t.knots)) := by
    unfold extentsOf
    rw [movnam_extents E s t haux2 ndim_le]
    cases he : t.extents with
    | none => rfl
    | some e =>
      have := extents_len e he
      simp only [Option.map_some, extHdu, List.headD_cons, ne_eq, not_true_eq_false, if_false]
      rw [readPixD_f64 E _ _ _ _ (by rw [List.length_take]; omega), List.take_of_length_le (by omega)]
      rfl
  rw [writeGen_eq, readCore_cons, if_neg (by omega)]
  simp only [hlen, hord, periods_read E s t haux1, coef_read E s t ndim_pos naxes_len coef_len,
    knots_read E s t haux2 ndim_le knots_len knots_ne, hext, aux_read E s t haux3]
  rw [hax, strides_of_axes, List.reverse_reverse, ← strides_rm]
  rfl

/-! ## concrete tables used as witnesses that the hypotheses of the C06 theorems are satisfiable -/

/-- 2-dimensional, 2 × 3 coefficients, orders 2 and 3, extents and periods present, three aux keys
    (one with blanks inside, one with an empty value, one with a single apostrophe and a run of two) -/
def exTable : Table :=
  { order := [2, 3]
    knots := [[0, 1, 2, 3, 4], [10, 11, 12, 13, 14, 15, 16]]
    naxes := [2, 3]
    strides := [3, 1]
    coef := [1, 2, 3, 4, 5, 6]
    extents := some [2, 2, 13, 13]
    periods := some [0, 7]
    aux := [("AUTHOR".toList, "J. Doe".toList), ("NOTE".toList, []), ("REMARK".toList, "it's ''".toList)] }

/-- the same with equal orders and neither extents nor periods -/
def exTableLegacy : Table :=
  { exTable with order := [2, 2], extents := none, periods := none }

end PsV.Fits
