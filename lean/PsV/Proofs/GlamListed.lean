import PsV.Proofs.GlamFlat
import Mathlib.Data.List.Dedup
/-!
# C17: which index tuples `slicemultiply` / `grideval` list

The model lists a result entry for every (section entry, stored entry of `bᵀ`) pair — the symbolic
pattern of CHOLMOD's `ssmult`.  Here that pattern is characterised by its meaning: `grideval` lists the grid
index `g` exactly when some non-zero coefficient has a non-zero basis product at the grid point, i.e.
when the tensor-product sum has at least one non-zero term.
-/
namespace PsV
open Arith

/-- the tensor lists the index tuple (with some value, possibly several times) -/
def NdSparse.Lists {α : Type} (s : NdSparse α) (idx : List Nat) : Prop := ∃ v, (idx, v) ∈ s.entries

section
variable {α : Type} [Field α] [LinearOrder α] [A : Arith α] [L : LawfulArith α]

/-- the pattern of `slicemultiply`: `idx` is listed in the result iff a listed entry `e` of `a` agrees
with it off `dim` and `b[e_dim, idx_dim]` is a stored (non-zero) entry -/
theorem slice_lists_iff' (a : NdSparse α) (b : Mat α) (dim : Nat) (ha : a.WF) (hd : dim < a.ranges.length)
    (a' : NdSparse α) (h : sliceMultiply a b dim = some a') (idx : List Nat) :
    a'.Lists idx ↔ ∃ e, a.Lists e ∧ ∃ g, g < b.ncol ∧ b.val (e.getD dim 0) g ≠ 0 ∧ idx = e.set dim g := by
  have hb : b.nrow = a.ranges.getD dim 0 := by
    by_contra hne
    unfold sliceMultiply at h
    rw [if_pos hne] at h
    exact absurd h (by simp)
  rw [sliceMultiply_eq_some a b dim hb] at h
  have h' := (Option.some.inj h).symm
  subst h'
  unfold NdSparse.Lists
  simp only [List.mem_flatMap, List.mem_filterMap, List.mem_range]
  constructor
  · rintro ⟨v, e, he, g, hg, hif⟩
    by_cases hz : isZero (b.val (e.1.getD dim 0) g) = true
    · rw [if_pos hz] at hif; exact absurd hif (by simp)
    · rw [if_neg hz] at hif
      have hinj := Option.some.inj hif
      have h1 : unflattenIdx (a.ranges.set dim b.ncol) dim g (flattenCol a.ranges e.1 dim) = idx :=
        congrArg Prod.fst hinj
      rw [unflatten_flatten' a.ranges e.1 dim g b.ncol (ha e he) hd] at h1
      refine ⟨e.1, ⟨e.2, he⟩, g, hg, ?_, h1.symm⟩
      intro h0
      exact hz ((isZero_iff _).mpr h0)
  · rintro ⟨e, ⟨w, he⟩, g, hg, hnz, rfl⟩
    refine ⟨A.mul (b.val (e.getD dim 0) g) w, (e, w), he, g, hg, ?_⟩
    have hz : ¬ isZero (b.val (e.getD dim 0) g) = true := fun hz => hnz ((isZero_iff _).mp hz)
    simp only
    rw [if_neg hz, unflatten_flatten' a.ranges e dim g b.ncol (ha (e, w) he) hd]

/-- what the tensor lists after `k` mode products -/
structure GridListedInv (dims : List (Dim α)) (coef : Int → α) (coords : List (List α)) (k : Nat)
    (nd : NdSparse α) : Prop where
  iff : ∀ idx, nd.Lists idx ↔ ∃ c, IdxIn c (dims.map (·.naxes)) ∧ coef (posL dims c : Nat) ≠ 0 ∧
    idx.length = dims.length ∧
    (∀ d, k ≤ d → d < dims.length → idx.getD d 0 = c.getD d 0) ∧
    (∀ d, d < k → idx.getD d 0 < (coords.getD d []).length ∧
      Bind (indR (dimAt dims d).knots (xAt coords idx d)) (dimAt dims d).knots (xAt coords idx d)
        (dimAt dims d).order (c.getD d 0) ≠ 0)

theorem gridListed_init (dims : List (Dim α)) (coef : Int → α) (coords : List (List α))
    (hs : StridesRowMajor dims) (hne : dims ≠ []) :
    GridListedInv dims coef coords 0 (coefTensor dims coef) := by
  constructor
  intro idx
  rw [coefTensor_eq]
  unfold NdSparse.Lists
  simp only [List.mem_filterMap, List.mem_range]
  constructor
  · rintro ⟨v, i, hi, hif⟩
    by_cases hz : isZero (coef (Int.ofNat i)) = true
    · rw [if_pos hz] at hif; exact absurd hif (by simp)
    · rw [if_neg hz] at hif
      have h1 : decodeStrides (dims.map (·.stride)) i = idx := congrArg Prod.fst (Option.some.inj hif)
      obtain ⟨p1, p2⟩ := pos_decode dims hs hne i hi
      rw [h1] at p1 p2
      refine ⟨idx, p1, ?_, by simpa using p1.1, fun _ _ _ => rfl, fun d hd => absurd hd (by omega)⟩
      rw [p2]
      intro h0
      exact hz ((isZero_iff _).mpr h0)
  · rintro ⟨c, hc, hnz, hlen, hge, _⟩
    have hidx : idx = c := by
      apply list_ext_getD (by rw [hlen, hc.1]; simp)
      intro p hp
      exact hge p (by omega) (by omega)
    subst hidx
    obtain ⟨p1, p2⟩ := decode_pos dims hs hne idx hc
    have hz : ¬ isZero (coef (Int.ofNat (posL dims idx))) = true := fun hz => hnz ((isZero_iff _).mp hz)
    exact ⟨coef (Int.ofNat (posL dims idx)), posL dims idx, p1, by rw [if_neg hz, p2]⟩

theorem gridListed_step (dims : List (Dim α)) (coef : Int → α) (coords : List (List α)) (k : Nat)
    (nd nd' : NdSparse α) (hk : k < dims.length) (hinv : GridInv dims coef coords k nd)
    (hl : GridListedInv dims coef coords k nd)
    (h : sliceMultiply nd (bsplineBasis (dimAt dims k).knots (dimAt dims k).nknots
        (dimAt dims k).order (coords.getD k [])).transpose k = some nd') :
    GridListedInv dims coef coords (k+1) nd' := by
  have hlen : nd.ranges.length = dims.length := by rw [hinv.ranges]; simp
  constructor
  intro idx
  rw [slice_lists_iff' nd _ k hinv.wf (by rw [hlen]; exact hk) nd' h idx]
  have hncol : (bsplineBasis (dimAt dims k).knots (dimAt dims k).nknots (dimAt dims k).order
      (coords.getD k [])).transpose.ncol = (coords.getD k []).length := rfl
  constructor
  · rintro ⟨e, he, g, hg, hnz, rfl⟩
    obtain ⟨c, hc, hcoef, helen, hge, hlt⟩ := (hl.iff e).mp he
    rw [hncol] at hg
    rw [basisT_val _ _ _ _ _ _ hg] at hnz
    have hke : k < e.length := by omega
    refine ⟨c, hc, hcoef, by simpa using helen, ?_, ?_⟩
    · intro d hd1 hd2
      rw [getD_set, if_neg (fun hh => by omega)]
      exact hge d (by omega) hd2
    · intro d hd
      by_cases hdk : d = k
      · subst hdk
        have hx : xAt coords (e.set d g) d = (coords.getD d []).getD g 0 := by
          simp only [xAt]; rw [getD_set_self_idx _ _ _ hke]
        rw [getD_set_self_idx _ _ _ hke, hx, ← hge d (le_refl _) hk]
        exact ⟨hg, hnz⟩
      · have hx : xAt coords (e.set k g) d = xAt coords e d := by
          simp only [xAt]; rw [getD_set, if_neg (fun hh => hdk hh.1.symm)]
        rw [getD_set, if_neg (fun hh => hdk hh.1.symm), hx]
        exact hlt d (by omega)
  · rintro ⟨c, hc, hcoef, hilen, hge, hlt⟩
    have hki : k < idx.length := by omega
    refine ⟨idx.set k (c.getD k 0), (hl.iff _).mpr ⟨c, hc, hcoef, by simpa using hilen, ?_, ?_⟩,
      idx.getD k 0, ?_, ?_, ?_⟩
    · intro d hd1 hd2
      by_cases hdk : d = k
      · subst hdk; rw [getD_set_self_idx _ _ _ hki]
      · rw [getD_set, if_neg (fun hh => hdk hh.1.symm)]
        exact hge d (by omega) hd2
    · intro d hd
      have hdk : ¬ (k = d ∧ k < idx.length) := fun hh => by omega
      have hx : xAt coords (idx.set k (c.getD k 0)) d = xAt coords idx d := by
        simp only [xAt]; rw [getD_set, if_neg hdk]
      rw [getD_set, if_neg hdk, hx]
      exact hlt d (by omega)
    · rw [hncol]; exact (hlt k (by omega)).1
    · rw [getD_set_self_idx _ _ _ hki, basisT_val _ _ _ _ _ _ (hlt k (by omega)).1]
      exact (hlt k (by omega)).2
    · rw [List.set_set, set_getD_self]

theorem gridLoop_listed (dims : List (Dim α)) (coef : Int → α) (coords : List (List α))
    (hlen : coords.length = dims.length)
    (hna : ∀ d ∈ dims, d.naxes = d.nknots - d.order - 1) :
    ∀ m k nd, k + m = dims.length → GridInv dims coef coords k nd → GridListedInv dims coef coords k nd →
      ∃ nd', gridLoop (dims.drop k) (coords.drop k) k nd = some nd' ∧
        GridInv dims coef coords dims.length nd' ∧ GridListedInv dims coef coords dims.length nd' := by
  intro m
  induction m with
  | zero =>
    intro k nd hk h hl
    have : k = dims.length := by omega
    subst this
    refine ⟨nd, ?_, h, hl⟩
    rw [List.drop_length, List.drop_eq_nil_of_le (by omega)]
    rfl
  | succ m ih =>
    intro k nd hk h hl
    have hkd : k < dims.length := by omega
    have hkc : k < coords.length := by omega
    have e1 : dims[k] = dimAt dims k := by simp [dimAt, List.getD_eq_getElem?_getD, hkd]
    have e2 : coords[k] = coords.getD k [] := by simp [List.getD_eq_getElem?_getD, hkc]
    rw [List.drop_eq_getElem_cons hkd, List.drop_eq_getElem_cons hkc, e1, e2]
    obtain ⟨nd', h1, h2⟩ := gridInv_step dims coef coords k nd hkd
      (by rw [← e1]; exact hna _ (List.getElem_mem hkd)) h
    simp only [gridLoop, h1]
    exact ih (k+1) nd' (by omega) h2 (gridListed_step dims coef coords k nd nd' hkd h hl h1)

/-- every factor non-zero ⇔ the product is non-zero, in the shape of the loop invariant -/
theorem basisProd_ne_zero_iff (dims : List (Dim α)) (coords : List (List α)) (g : List Nat)
    (xs : List α) (c : List Nat) (hlen : coords.length = dims.length) (hc : c.length = dims.length)
    (h : gridPoint coords g = some xs) :
    (∀ d, d < dims.length →
      Bind (indR (dimAt dims d).knots (xAt coords g d)) (dimAt dims d).knots (xAt coords g d)
        (dimAt dims d).order (c.getD d 0) ≠ 0) ↔ gridBasisProd dims xs c ≠ 0 := by
  induction dims generalizing coords g xs c with
  | nil => simp [gridBasisProd]
  | cons d ds ih =>
    cases coords with
    | nil => simp at hlen
    | cons co cs =>
      cases g with
      | nil => simp [gridPoint] at h
      | cons g0 gs =>
        cases c with
        | nil => simp at hc
        | cons c0 c' =>
          cases hco : co[g0]? with
          | none => simp [gridPoint, hco] at h
          | some x =>
            cases hr : gridPoint cs gs with
            | none => simp [gridPoint, hco, hr] at h
            | some xs' =>
              simp only [gridPoint, hco, hr, Option.some.injEq] at h
              subst h
              have ih' := ih cs gs xs' c' (by simpa using hlen) (by simpa using hc) hr
              have hx : co.getD g0 0 = x := by simp [List.getD_eq_getElem?_getD, hco]
              simp only [gridBasisProd, mul_ne_zero_iff, ← ih', List.length_cons]
              constructor
              · intro hall
                refine ⟨?_, fun d' hd' => ?_⟩
                · have := hall 0 (by omega)
                  simpa [dimAt, xAt, hco] using this
                · have := hall (d'+1) (by omega)
                  simpa [dimAt, xAt] using this
              · rintro ⟨h0, hrest⟩ d' hd'
                cases d' with
                | zero => simpa [dimAt, xAt, hco] using h0
                | succ d'' =>
                  have := hrest d'' (by omega)
                  simpa [dimAt, xAt] using this

/-- **what `grideval` lists**: the grid index `g` is listed exactly when some stored coefficient is
non-zero and has a non-zero basis product at the grid point (a non-zero term of the tensor-product sum) -/
theorem gridEval_lists (dims : List (Dim α)) (coef : Int → α) (coords : List (List α))
    (hwf : GridTableWF dims) (hlen : coords.length = dims.length) :
    ∃ nd, gridEval dims coef coords = some nd ∧
      ∀ g xs, gridPoint coords g = some xs →
        (nd.Lists g ↔ ∃ c, IdxIn c (dims.map (·.naxes)) ∧
          coef (posL dims c : Nat) * gridBasisProd dims xs c ≠ 0) := by
  obtain ⟨nd, h1, _, h3⟩ := gridLoop_listed dims coef coords hlen hwf.naxes_eq dims.length 0
    (coefTensor dims coef) (by omega) (gridInv_init dims coef coords hwf.strides hwf.ne)
    (gridListed_init dims coef coords hwf.strides hwf.ne)
  rw [List.drop_zero, List.drop_zero] at h1
  refine ⟨nd, ?_, ?_⟩
  · unfold gridEval
    rw [if_neg (fun hh => hh hlen)]
    exact h1
  · intro g xs hg
    have hv := gridPoint_idxIn coords g xs hg
    rw [h3.iff g]
    constructor
    · rintro ⟨c, hc, hcoef, _, _, hlt⟩
      refine ⟨c, hc, mul_ne_zero hcoef ?_⟩
      rw [← basisProd_ne_zero_iff dims coords g xs c hlen (by simpa using hc.1) hg]
      exact fun d hd => (hlt d hd).2
    · rintro ⟨c, hc, hne⟩
      obtain ⟨hcoef, hprod⟩ := mul_ne_zero_iff.mp hne
      rw [← basisProd_ne_zero_iff dims coords g xs c hlen (by simpa using hc.1) hg] at hprod
      refine ⟨c, hc, hcoef, by simpa [hlen] using hv.1, fun d hd1 hd2 => absurd hd2 (by omega), ?_⟩
      intro d hd
      refine ⟨?_, hprod d hd⟩
      have := hv.2 d (by simpa [hlen] using hd)
      simpa [List.getD_eq_getElem?_getD, hd, hlen] using this

end
/-! ## how many distinct index tuples a tensor can list -/

/-- a duplicate-free list of valid index tuples is no longer than the dense size `Π ranges` -/
theorem nodup_idx_length_le (R : List Nat) (l : List (List Nat)) (hn : l.Nodup)
    (hv : ∀ idx ∈ l, IdxIn idx R) : l.length ≤ PsV.Permute.prodL R := by
  have hinj : ∀ x ∈ l, ∀ y ∈ l, PsV.Permute.flat R x = PsV.Permute.flat R y → x = y := by
    intro x hx y hy h
    rw [← PsV.Permute.digits_flat x R (hv x hx), ← PsV.Permute.digits_flat y R (hv y hy), h]
  have hn' : (l.map (PsV.Permute.flat R)).Nodup := List.Nodup.map_on hinj hn
  have hsub : (l.map (PsV.Permute.flat R)).toFinset ⊆ Finset.range (PsV.Permute.prodL R) := by
    intro q hq
    simp only [List.mem_toFinset, List.mem_map] at hq
    obtain ⟨x, hx, rfl⟩ := hq
    exact Finset.mem_range.mpr (PsV.Permute.flat_lt x R (hv x hx))
  have := Finset.card_le_card hsub
  rwa [List.toFinset_card_of_nodup hn', List.length_map, Finset.card_range] at this

/-- the number of distinct index tuples a well-formed tensor lists (= the number of rows of the n-tuple
after CHOLMOD has merged duplicates) is at most the dense size -/
theorem listed_count_le {α : Type} (s : NdSparse α) (hs : s.WF) :
    (s.entries.map (·.1)).dedup.length ≤ PsV.Permute.prodL s.ranges := by
  apply nodup_idx_length_le _ _ (List.nodup_dedup _)
  intro idx hidx
  rw [List.mem_dedup, List.mem_map] at hidx
  obtain ⟨e, he, rfl⟩ := hidx
  exact hs e he

end PsV
