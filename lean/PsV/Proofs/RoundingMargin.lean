import PsV.Proofs.Rounding
import PsV.Proofs.BSpline
import Mathlib.Data.List.Forall2
/-!
# Forward error of `bsplvb_simple` everywhere the lookup accepts (margins included)

In the margins the recurrences of `bsplvb` also compute entries that belong to *absent* basis functions
(they read the padding around the knot array and are thrown away by the re-indexing step).  Those entries
carry no error bound — in IEEE they may even be NaN — but the entries that are kept never depend on them.
Positions are tracked explicitly: at level `j` of `bsplvb` on the interval `l`, position `p` holds
`B_{l-j+p, j}`, which is a genuine basis function iff `j - l ≤ p ≤ nknots - 2 - l`.
-/
namespace PsV
variable {F : Type} [Field F] [LinearOrder F] [IsStrictOrderedRing F]
variable {ε : F} {fl st : F → F}

/-- the entries at absolute positions `lo ≤ off+p ≤ hi` are related by `k` roundings and non-negative -/
def RelOn (ε : F) (k : Nat) (off : Nat) (lo hi : Int) (bsE bsR : List F) : Prop :=
  bsE.length = bsR.length ∧
    ∀ (p : Nat) (a b : F), bsE[p]? = some a → bsR[p]? = some b → lo ≤ ((off + p : Nat) : Int) →
      ((off + p : Nat) : Int) ≤ hi → RelErr ε k a b ∧ 0 ≤ a

theorem RelOn.nil (k off : Nat) (lo hi : Int) : RelOn ε k off lo hi [] [] := ⟨rfl, by simp⟩

theorem relOn_cons {k off : Nat} {lo hi : Int} {a b : F} {as bs : List F} :
    RelOn ε k off lo hi (a :: as) (b :: bs) ↔
      ((lo ≤ (off : Int) → (off : Int) ≤ hi → RelErr ε k a b ∧ 0 ≤ a) ∧ RelOn ε k (off + 1) lo hi as bs) := by
  constructor
  · intro ⟨hl, h⟩
    refine ⟨fun h1 h2 => h 0 a b rfl rfl (by simpa using h1) (by simpa using h2), by simpa using hl, ?_⟩
    intro p a' b' ha hb h1 h2
    have e : off + 1 + p = off + (p + 1) := by omega
    rw [e] at h1 h2
    exact h (p + 1) a' b' (by simpa using ha) (by simpa using hb) h1 h2
  · intro ⟨h0, hl, h⟩
    refine ⟨by simp [hl], ?_⟩
    intro p a' b' ha hb h1 h2
    cases p with
    | zero =>
      simp only [List.getElem?_cons_zero, Option.some.injEq] at ha hb
      subst ha; subst hb
      exact h0 (by simpa using h1) (by simpa using h2)
    | succ p =>
      have e : off + (p + 1) = off + 1 + p := by omega
      rw [e] at h1 h2
      exact h p a' b' (by simpa using ha) (by simpa using hb) h1 h2

theorem RelOn.mono (hε : 0 ≤ ε) {k k' off : Nat} {lo hi lo' hi' : Int} {as bs : List F}
    (h : RelOn ε k off lo hi as bs) (hk : k ≤ k') (hlo : lo ≤ lo') (hhi : hi' ≤ hi) : RelOn ε k' off lo' hi' as bs :=
  ⟨h.1, fun p a b ha hb h1 h2 => by
    obtain ⟨r, n⟩ := h.2 p a b ha hb (by omega) (by omega)
    exact ⟨r.mono hε hk, n⟩⟩

/-- one level of `bsplvb` with absent entries: new positions `L ≤ p ≤ U` are genuine when the old positions
`L-1 ≤ p ≤ U` are -/
theorem vbStep_relOn (hε : 0 ≤ ε) (hfl : ∀ a, RelErr ε 1 a (fl a)) (hst : ∀ a, RelErr ε 1 a (st a))
    (t : Int → F) (x : F) (left : Int) (j : Nat) (k : Nat) (L U : Int) :
    ∀ (bsE bsR : List F) (i : Nat) (sE sR : F),
      RelOn ε k i (L - 1) U bsE bsR →
      (L ≤ (i : Int) → (i : Int) ≤ U + 1 → RelErr ε (k + 5) sE sR ∧ 0 ≤ sE) →
      (∀ m : Nat, i ≤ m → m < i + bsE.length → L - 1 ≤ (m : Int) → (m : Int) ≤ U →
        x ≤ t (left + m + 1) ∧ t (left - ((j - m : Nat) : Int)) ≤ x) →
      RelOn ε (k + 7) i L U (@vbStep F (Arith.ofField F) t x left j i sE bsE)
        (@vbStep F (Arith.rounded fl st) t x left j i sR bsR) := by
  intro bsE
  induction bsE with
  | nil =>
    intro bsR i sE sR hb hs _
    have : bsR = [] := by have := hb.1; simpa [eq_comm] using this
    subst this
    simp only [vbStep, of_rnd, rd_rnd]
    rw [relOn_cons]
    refine ⟨fun h1 h2 => ?_, RelOn.nil _ _ _ _⟩
    obtain ⟨r, n⟩ := hs h1 (by omega)
    exact ⟨(RelErr.round hε hst r).mono hε (by omega), n⟩
  | cons b bs ih =>
    intro bsR i sE sR hb hs hk
    cases bsR with
    | nil => have := hb.1; simp at this
    | cons bR bsR' =>
      rw [relOn_cons] at hb
      obtain ⟨hb0, hbs⟩ := hb
      simp only [vbStep, of_rnd, rd_rnd, of_add, of_sub, of_mul, of_div, rd_add, rd_sub, rd_mul, rd_div]
      rw [relOn_cons]
      -- facts available whenever old position `i` is genuine
      have old : L - 1 ≤ (i : Int) → (i : Int) ≤ U →
          RelErr ε (k + 5) ((x - t (left - ((j - i : Nat) : Int))) * (b / (t (left + i + 1) - x + (x - t (left - ((j - i : Nat) : Int))))))
            (fl (fl (x - t (left - ((j - i : Nat) : Int))) * fl (bR / fl (fl (t (left + i + 1) - x) + fl (x - t (left - ((j - i : Nat) : Int))))))) ∧
          0 ≤ (x - t (left - ((j - i : Nat) : Int))) * (b / (t (left + i + 1) - x + (x - t (left - ((j - i : Nat) : Int))))) ∧
          RelErr ε (k + 5) ((t (left + i + 1) - x) * (b / (t (left + i + 1) - x + (x - t (left - ((j - i : Nat) : Int))))))
            (fl (fl (t (left + i + 1) - x) * fl (bR / fl (fl (t (left + i + 1) - x) + fl (x - t (left - ((j - i : Nat) : Int))))))) ∧
          0 ≤ (t (left + i + 1) - x) * (b / (t (left + i + 1) - x + (x - t (left - ((j - i : Nat) : Int))))) := by
        intro h1 h2
        obtain ⟨hb1, hb0'⟩ := hb0 h1 h2
        obtain ⟨hx1, hx2⟩ := hk i (le_refl _) (by simp) h1 h2
        have hdr0 : 0 ≤ t (left + i + 1) - x := by linarith
        have hdl0 : 0 ≤ x - t (left - ((j - i : Nat) : Int)) := by linarith
        have hdr : RelErr ε 1 (t (left + i + 1) - x) (fl (t (left + i + 1) - x)) := hfl _
        have hdl : RelErr ε 1 (x - t (left - ((j - i : Nat) : Int))) (fl (x - t (left - ((j - i : Nat) : Int)))) := hfl _
        have hsum := RelErr.round hε hfl (RelErr.add_nonneg hε hdr hdl hdr0 hdl0)
        have hterm := RelErr.round hε hfl (RelErr.div hε hb1 hsum)
        have hterm0 : 0 ≤ b / (t (left + i + 1) - x + (x - t (left - ((j - i : Nat) : Int)))) :=
          div_nonneg hb0' (add_nonneg hdr0 hdl0)
        exact ⟨(RelErr.round hε hfl (RelErr.mul hε hdl hterm)).mono hε (by omega), mul_nonneg hdl0 hterm0,
          (RelErr.round hε hfl (RelErr.mul hε hdr hterm)).mono hε (by omega), mul_nonneg hdr0 hterm0⟩
      refine ⟨fun h1 h2 => ?_, ?_⟩
      · obtain ⟨hsr, hs0⟩ := hs h1 (by omega)
        obtain ⟨_, _, hdrt, hdrt0⟩ := old (by omega) h2
        have hnew := RelErr.round hε hst (RelErr.round hε hfl (RelErr.add_nonneg hε hsr hdrt hs0 hdrt0))
        exact ⟨hnew.mono hε (by omega), add_nonneg hs0 hdrt0⟩
      · apply ih bsR' (i + 1) _ _ hbs
        · intro h1 h2
          obtain ⟨hdlt, hdlt0, _, _⟩ := old (by push_cast at h1; omega) (by push_cast at h2; omega)
          exact ⟨hdlt, hdlt0⟩
        · intro m h1 h2 h3 h4
          exact hk m (by omega) (by simp only [List.length_cons]; omega) h3 h4

theorem vbStep_length' (A : Arith F) (t : Int → F) (x : F) (left : Int) (j : Nat) :
    ∀ (bs : List F) (i : Nat) (sv : F), (@vbStep F A t x left j i sv bs).length = bs.length + 1 := by
  intro bs; induction bs with
  | nil => intros; simp [vbStep]
  | cons b bs ihb => intros; simp [vbStep, ihb]

/-- hypotheses on the interval `l` the margin loops settle on -/
structure IntervalOK (t : Int → F) (nknots : Nat) (x : F) (l : Int) : Prop where
  nonneg : 0 ≤ l
  le : l ≤ (nknots : Int) - 2
  left : t l ≤ x
  right : x ≤ t (l + 1)
  mono : ∀ i j : Int, 0 ≤ i → i ≤ j → j < nknots → t i ≤ t j

theorem vbLevels_relOn (hε : 0 ≤ ε) (hfl : ∀ a, RelErr ε 1 a (fl a)) (hst : ∀ a, RelErr ε 1 a (st a))
    (t : Int → F) (nknots : Nat) (x : F) (l : Int) (hl : IntervalOK t nknots x l) :
    ∀ (count j : Nat) (rowE rowR : List F) (k : Nat), rowE.length = j + 1 →
      RelOn ε k 0 ((j : Int) - l) ((nknots : Int) - 2 - l) rowE rowR →
      RelOn ε (k + 7 * count) 0 (((j + count : Nat) : Int) - l) ((nknots : Int) - 2 - l)
        (@vbLevels F (Arith.ofField F) t x l count j rowE) (@vbLevels F (Arith.rounded fl st) t x l count j rowR) ∧
      (@vbLevels F (Arith.ofField F) t x l count j rowE).length = j + count + 1 := by
  intro count
  induction count with
  | zero => intro j rowE rowR k hlen h; simpa [vbLevels] using ⟨h, hlen⟩
  | succ c ih =>
    intro j rowE rowR k hlen h
    simp only [vbLevels]
    have hstep := vbStep_relOn hε hfl hst t x l j k ((j : Int) + 1 - l) ((nknots : Int) - 2 - l) rowE rowR 0 0 0
      (by have e : (j : Int) + 1 - l - 1 = (j : Int) - l := by ring
          rw [e]; exact h)
      (fun _ _ => ⟨RelErr.of_zero hε _, le_refl _⟩)
      (by
        intro m _ hm h1 h2
        rw [hlen] at hm
        constructor
        · exact le_trans hl.right (hl.mono _ _ (by have := hl.nonneg; omega) (by omega) (by omega))
        · exact le_trans (hl.mono _ _ (by push_cast [Nat.cast_sub (by omega : m ≤ j)]; omega)
            (by push_cast [Nat.cast_sub (by omega : m ≤ j)]; omega) (by have := hl.le; omega)) hl.left)
    have hlen' : (@vbStep F (Arith.ofField F) t x l j 0 0 rowE).length = (j + 1) + 1 := by
      rw [vbStep_length', hlen]
    obtain ⟨r1, r2⟩ := ih (j + 1) _ _ (k + 7) hlen' (by push_cast; exact hstep)
    refine ⟨?_, by simp only [of_zero, r2]; omega⟩
    have e1 : k + 7 + 7 * c = k + 7 * (c + 1) := by ring
    have e2 : j + 1 + c = j + (c + 1) := by omega
    rw [e1, e2] at r1
    exact r1

theorem relOn_to_forall₂ {k : Nat} {lo hi : Int} {as bs : List F} (h : RelOn ε k 0 lo hi as bs)
    (hall : ∀ p : Nat, p < as.length → lo ≤ (p : Int) ∧ (p : Int) ≤ hi) :
    List.Forall₂ (RelErr ε k) as bs ∧ ∀ a ∈ as, 0 ≤ a := by
  constructor
  · rw [List.forall₂_iff_get]
    refine ⟨h.1, fun i h1 h2 => ?_⟩
    obtain ⟨c1, c2⟩ := hall i h1
    exact (h.2 i _ _ (List.getElem?_eq_getElem h1) (List.getElem?_eq_getElem h2) (by simpa using c1) (by simpa using c2)).1
  · intro a ha
    obtain ⟨i, hi', rfl⟩ := List.getElem_of_mem ha
    obtain ⟨c1, c2⟩ := hall i hi'
    have hi2 : i < bs.length := by rw [← h.1]; exact hi'
    exact (h.2 i _ _ (List.getElem?_eq_getElem hi') (List.getElem?_eq_getElem hi2) (by simpa using c1) (by simpa using c2)).2


theorem relOn_drop {k : Nat} {lo hi : Int} {as bs : List F} (h : RelOn ε k 0 lo hi as bs) (d : Nat) :
    RelOn ε k 0 (lo - d) (hi - d) (as.drop d) (bs.drop d) := by
  refine ⟨by simp [h.1], fun p a b ha hb h1 h2 => ?_⟩
  rw [List.getElem?_drop] at ha hb
  exact h.2 (d + p) a b ha hb (by push_cast at h1 ⊢; omega) (by push_cast at h2 ⊢; omega)

theorem relOn_take {k : Nat} {lo hi : Int} {as bs : List F} (h : RelOn ε k 0 lo hi as bs) (m : Nat) :
    RelOn ε k 0 lo hi (as.take m) (bs.take m) := by
  refine ⟨by simp [h.1], fun p a b ha hb h1 h2 => ?_⟩
  rw [List.getElem?_take] at ha hb
  split at ha
  · rename_i hp
    rw [if_pos hp] at hb
    exact h.2 p a b ha hb h1 h2
  · simp at ha

theorem forall₂_append' {R : F → F → Prop} : ∀ {a1 b1 a2 b2 : List F}, List.Forall₂ R a1 b1 → List.Forall₂ R a2 b2 →
    List.Forall₂ R (a1 ++ a2) (b1 ++ b2) := by
  intro a1 b1 a2 b2 h1 h2
  induction h1 with
  | nil => simpa using h2
  | cons h _ ih => exact List.Forall₂.cons h ih

theorem forall₂_zeros (hε : 0 ≤ ε) (k m : Nat) : List.Forall₂ (RelErr ε k) (List.replicate m (0 : F)) (List.replicate m 0) := by
  induction m with
  | zero => exact List.Forall₂.nil
  | succ m ih => exact List.Forall₂.cons (RelErr.of_zero hε k) ih

/-- the re-indexing step keeps exactly the genuine entries and fills up with exact zeros -/
theorem rearrange_relerr (hε : 0 ≤ ε) (nknots : Nat) (l : Int) (n K : Nat) (rowE rowR : List F)
    (hlen : rowE.length = n + 1) (h : RelOn ε K 0 ((n : Int) - l) ((nknots : Int) - 2 - l) rowE rowR)
    (hl0 : 0 ≤ l) (hl1 : l ≤ (nknots : Int) - 2) (hnk : 2 * n + 2 ≤ nknots) :
    List.Forall₂ (RelErr ε K) (@rearrange F (Arith.ofField F) nknots l n rowE)
        (@rearrange F (Arith.rounded fl st) nknots l n rowR) ∧
      ∀ a ∈ @rearrange F (Arith.ofField F) nknots l n rowE, 0 ≤ a := by
  unfold rearrange
  simp only [of_zero, rd_zero]
  by_cases h1 : (n : Int) - l > 0
  · rw [if_pos h1, if_pos h1]
    have hd := relOn_drop h ((n : Int) - l).toNat
    have hdn : (((n : Int) - l).toNat : Int) = (n : Int) - l := Int.toNat_of_nonneg (by omega)
    obtain ⟨f1, f2⟩ := relOn_to_forall₂ hd (by
      intro p hp
      rw [List.length_drop, hlen] at hp
      rw [hdn]
      constructor
      · omega
      · have : (p : Int) + ((n : Int) - l) ≤ n := by omega
        omega)
    refine ⟨forall₂_append' f1 (forall₂_zeros hε K _), ?_⟩
    intro a ha
    rw [List.mem_append] at ha
    rcases ha with ha | ha
    · exact f2 a ha
    · rw [List.eq_of_mem_replicate ha]
  · rw [if_neg h1, if_neg h1]
    by_cases h2 : l + (n : Int) + 2 - (nknots : Int) > 0
    · rw [if_pos h2, if_pos h2]
      have ht := relOn_take h (n + 1 - (l + (n : Int) + 2 - (nknots : Int)).toNat)
      have hdn : (((l + (n : Int) + 2 - (nknots : Int)).toNat : Nat) : Int) = l + (n : Int) + 2 - (nknots : Int) :=
        Int.toNat_of_nonneg (by omega)
      obtain ⟨f1, f2⟩ := relOn_to_forall₂ ht (by
        intro p hp
        rw [List.length_take, hlen] at hp
        constructor
        · omega
        · have : (p : Int) < ((n + 1 - (l + (n : Int) + 2 - (nknots : Int)).toNat : Nat) : Int) := by
            exact_mod_cast (lt_of_lt_of_le hp (min_le_left _ _))
          omega)
      refine ⟨forall₂_append' (forall₂_zeros hε K _) f1, ?_⟩
      intro a ha
      rw [List.mem_append] at ha
      rcases ha with ha | ha
      · rw [List.eq_of_mem_replicate ha]
      · exact f2 a ha
    · rw [if_neg h2, if_neg h2]
      exact relOn_to_forall₂ h (by
        intro p hp
        rw [hlen] at hp
        constructor <;> omega)

theorem shiftDown_inst (t : Int → F) (x : F) : ∀ (fuel : Nat) (left : Int),
    @shiftDown F (Arith.rounded fl st) t x fuel left = @shiftDown F (Arith.ofField F) t x fuel left := by
  intro fuel
  induction fuel with
  | zero => intro left; rfl
  | succ f ih => intro left; simp only [shiftDown, rd_lt, of_lt, ih]

theorem shiftUp_inst (t : Int → F) (nknots : Nat) (x : F) : ∀ (fuel : Nat) (left : Int),
    @shiftUp F (Arith.rounded fl st) t nknots x fuel left = @shiftUp F (Arith.ofField F) t nknots x fuel left := by
  intro fuel
  induction fuel with
  | zero => intro left; rfl
  | succ f ih => intro left; simp only [shiftUp, rd_lt, of_lt, ih]

theorem marginShift_inst (t : Int → F) (nknots : Nat) (x : F) (left : Int) (n : Nat) :
    @marginShift F (Arith.rounded fl st) t nknots x left n = @marginShift F (Arith.ofField F) t nknots x left n := by
  unfold marginShift
  simp only [shiftDown_inst, shiftUp_inst]

section
attribute [local instance] Arith.ofField

/-- **`bsplvb_simple` everywhere the lookup accepts**: interior, both margins, on knots -/
theorem bsplvbSimple_relerr_all (hε : 0 ≤ ε) (hfl : ∀ a, RelErr ε 1 a (fl a)) (hst : ∀ a, RelErr ε 1 a (st a))
    (t : Int → F) (nknots : Nat) (x : F) (c : Nat) (n : Nat) (hc : CenterOK t nknots n x c)
    (hnd : t ((nknots:Int) - n - 2) < t ((nknots:Int) - n - 1) ∨ x ≠ t ((nknots:Int) - n - 1)) :
    List.Forall₂ (RelErr ε (1 + 7 * n)) (@bsplvbSimple F (Arith.ofField F) t nknots x c n)
        (@bsplvbSimple F (Arith.rounded fl st) t nknots x c n) ∧
      ∀ b ∈ @bsplvbSimple F (Arith.ofField F) t nknots x c n, 0 ≤ b := by
  have hs := marginShift_spec t nknots n x c hc hnd
  unfold bsplvbSimple
  simp only
  rw [marginShift_inst]
  generalize @marginShift F (Arith.ofField F) t nknots x c n = l at hs ⊢
  obtain ⟨hl0, hl1, hb, _, _⟩ := hs
  have hint : IntervalOK t nknots x l := by
    rcases hb with ⟨_, b1, b2⟩ | ⟨_, b1, b2⟩
    · exact ⟨hl0, hl1, b1, le_of_lt b2, hc.mono⟩
    · exact ⟨hl0, hl1, le_of_lt b1, b2, hc.mono⟩
  unfold bsplvb
  simp only [of_rnd, of_one, rd_rnd, rd_one, Nat.add_sub_cancel]
  have h0 : RelOn ε 1 0 (((0 : Nat) : Int) - l) ((nknots : Int) - 2 - l) [1] [st 1] := by
    rw [relOn_cons]
    exact ⟨fun _ _ => ⟨by simpa using RelErr.round hε hst (RelErr.refl hε (1 : F)), zero_le_one⟩, RelOn.nil _ _ _ _⟩
  obtain ⟨r1, r2⟩ := vbLevels_relOn hε hfl hst t nknots x l hint n 0 [1] [st 1] 1 rfl h0
  have r1' : RelOn ε (1 + 7 * n) 0 ((n : Int) - l) ((nknots : Int) - 2 - l)
      (@vbLevels F (Arith.ofField F) t x l n 0 [1]) (@vbLevels F (Arith.rounded fl st) t x l n 0 [st 1]) := by
    simpa using r1
  exact rearrange_relerr hε nknots l n _ _ _ (by rw [r2]; omega) r1' hl0 hl1 hc.len

end
end PsV
