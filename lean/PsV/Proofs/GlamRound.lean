import PsV.Proofs.Rounding
import PsV.Proofs.Glam
import PsV.Proofs.GlamCont
import PsV.Proofs.GlamFlat
/-!
# Forward error of grid evaluation under rounding

The model definitions of `Model/Glam.lean` (`bsplineG`, `bsplineBasis`, `sliceMultiply`, `coefTensor`,
`gridLoop`, `gridEval`, `NdSparse.get`) are run at two instances of the arithmetic bundle on one ordered
field `F` (as in `Proofs/Rounding.lean` for the pointwise routine):

* `Arith.ofField F` — exact;
* `Arith.rounded fl st` — every `+ − × ÷` is followed by the rounding `fl`, comparisons exact
  (the array kernels never store into a `Float`-typed variable, so `st` does not occur).

Three tensors are carried through the chain of slice multiplications, entry by entry: the exact one, the
rounded one and the **majorant** (exact arithmetic, coefficients replaced by their magnitudes; the basis
values are non-negative, so the basis matrices are their own majorants).  `EntsRel ε k` says that the
three entry lists list the same index tuples in the same order and that every rounded value is within
`gfac ε k · majorant` of the exact one.
-/
namespace PsV
set_option linter.unusedSectionVars false
variable {F : Type} [Field F] [LinearOrder F] [IsStrictOrderedRing F]
variable {ε : F} {fl st : F → F}

/-! ## accumulator calculus -/

theorem Acc.zero (K : Nat) : Acc ε K (0 : F) 0 0 := by
  refine ⟨?_, ?_⟩ <;> simp

/-- `fl(b + w)`: both summands carry at most `K` roundings → the sum carries `K + 1` -/
theorem Acc.add_round (hε : 0 ≤ ε) (hfl : ∀ a, RelErr ε 1 a (fl a)) {K : Nat} {S a b m v w : F}
    (h : Acc ε K S a b) (h' : Acc ε K m v w) : Acc ε (K + 1) (S + m) (a + v) (fl (b + w)) := by
  obtain ⟨ρ, e, p1, p2⟩ := hfl (b + w)
  have hρ0 : 0 < ρ := RelErr.factor_pos hε p1
  have hρ : |ρ - 1| ≤ gfac ε 1 := RelErr.abs_factor hε p1 p2
  have hS : 0 ≤ S := le_trans (abs_nonneg _) h.2
  have hm : 0 ≤ m := le_trans (abs_nonneg _) h'.2
  have hg : gfac ε K * (1 + ε) ^ 1 + gfac ε 1 = gfac ε (K + 1) := by unfold gfac; ring
  constructor
  · rw [e]
    have key : (b + w) * ρ - (a + v) = ((b - a) + (w - v)) * ρ + (a + v) * (ρ - 1) := by ring
    rw [key]
    have t1 : |((b - a) + (w - v)) * ρ| ≤ gfac ε K * (S + m) * (1 + ε) ^ 1 := by
      rw [abs_mul, abs_of_pos hρ0]
      refine mul_le_mul ?_ p2 (le_of_lt hρ0) (mul_nonneg (gfac_nonneg hε K) (by linarith))
      calc |(b - a) + (w - v)| ≤ |b - a| + |w - v| := abs_add_le _ _
        _ ≤ gfac ε K * S + gfac ε K * m := add_le_add h.1 h'.1
        _ = gfac ε K * (S + m) := by ring
    have t2 : |(a + v) * (ρ - 1)| ≤ (S + m) * gfac ε 1 := by
      rw [abs_mul]
      exact mul_le_mul (le_trans (abs_add_le _ _) (add_le_add h.2 h'.2)) hρ (abs_nonneg _) (by linarith)
    calc |((b - a) + (w - v)) * ρ + (a + v) * (ρ - 1)|
        ≤ |((b - a) + (w - v)) * ρ| + |(a + v) * (ρ - 1)| := abs_add_le _ _
      _ ≤ gfac ε K * (S + m) * (1 + ε) ^ 1 + (S + m) * gfac ε 1 := add_le_add t1 t2
      _ = gfac ε (K + 1) * (S + m) := by rw [← hg]; ring
  · exact le_trans (abs_add_le _ _) (add_le_add h.2 h'.2)

/-- `fl(βR · w)` with a non-negative factor `β` known up to `kb` roundings -/
theorem Acc.mul_round (hε : 0 ≤ ε) (hfl : ∀ a, RelErr ε 1 a (fl a)) {K kb : Nat} {m v w β βR : F}
    (h : Acc ε K m v w) (hb : RelErr ε kb β βR) (hβ : 0 ≤ β) :
    Acc ε (K + kb + 1) (β * m) (β * v) (fl (βR * w)) := by
  obtain ⟨q, e, q1, q2⟩ := RelErr.round hε hfl (RelErr.mul hε hb (RelErr.refl hε w))
  -- fl (βR * w) = β * w * q with q a factor of kb + 0 + 1 roundings
  have hq0 : 0 < q := RelErr.factor_pos hε q1
  have hq : |q - 1| ≤ gfac ε (kb + 0 + 1) := RelErr.abs_factor hε q1 q2
  have hm : 0 ≤ m := le_trans (abs_nonneg _) h.2
  have hg : gfac ε K * (1 + ε) ^ (kb + 0 + 1) + gfac ε (kb + 0 + 1) = gfac ε (K + kb + 1) := by
    unfold gfac; ring
  constructor
  · rw [e]
    have key : β * w * q - β * v = β * ((w - v) * q + v * (q - 1)) := by ring
    rw [key, abs_mul, abs_of_nonneg hβ]
    have t1 : |(w - v) * q| ≤ gfac ε K * m * (1 + ε) ^ (kb + 0 + 1) := by
      rw [abs_mul, abs_of_pos hq0]
      exact mul_le_mul h.1 q2 (le_of_lt hq0) (mul_nonneg (gfac_nonneg hε K) hm)
    have t2 : |v * (q - 1)| ≤ m * gfac ε (kb + 0 + 1) := by
      rw [abs_mul]; exact mul_le_mul h.2 hq (abs_nonneg _) hm
    have : |(w - v) * q + v * (q - 1)| ≤ gfac ε (K + kb + 1) * m := by
      calc |(w - v) * q + v * (q - 1)| ≤ |(w - v) * q| + |v * (q - 1)| := abs_add_le _ _
        _ ≤ gfac ε K * m * (1 + ε) ^ (kb + 0 + 1) + m * gfac ε (kb + 0 + 1) := add_le_add t1 t2
        _ = gfac ε (K + kb + 1) * m := by rw [← hg]; ring
    calc β * |(w - v) * q + v * (q - 1)| ≤ β * (gfac ε (K + kb + 1) * m) :=
          mul_le_mul_of_nonneg_left this hβ
      _ = gfac ε (K + kb + 1) * (β * m) := by ring
  · rw [abs_mul, abs_of_nonneg hβ]
    exact mul_le_mul_of_nonneg_left h.2 hβ

/-! ## `isZero` at the two instances -/

theorem isZero_of (a : F) : @isZero F (Arith.ofField F) a = decide (a = 0) := by
  unfold isZero
  simp only [of_lt, of_zero]
  rcases lt_trichotomy a 0 with h | h | h
  · simp [h, ne_of_lt h]
  · simp [h]
  · simp [h, ne_of_gt h, not_lt_of_gt h]

theorem isZero_rd (a : F) : @isZero F (Arith.rounded fl st) a = decide (a = 0) := by
  unfold isZero
  simp only [rd_lt, rd_zero]
  rcases lt_trichotomy a 0 with h | h | h
  · simp [h, ne_of_lt h]
  · simp [h]
  · simp [h, ne_of_gt h, not_lt_of_gt h]

theorem RelErr.eq_zero_iff (hε : 0 ≤ ε) {k : Nat} {a b : F} (h : RelErr ε k a b) : b = 0 ↔ a = 0 := by
  obtain ⟨r, rfl, h1, _⟩ := h
  have := RelErr.factor_pos hε h1
  constructor
  · intro h0
    rcases mul_eq_zero.mp h0 with h0 | h0
    · exact h0
    · exact absurd h0 (ne_of_gt this)
  · intro h0; rw [h0, zero_mul]

/-! ## the recursive basis value -/

/-- **`bspline(knots, x, i, n)` under rounding**: on a non-decreasing knot window the value carries at most
`5n` roundings (per level: one subtraction `x − t_i` resp. `t_{i+n+1} − x`, one product, one knot
difference, one quotient, one sum), is non-negative, and vanishes outside `[t_i, t_{i+n+1})`. -/
theorem bsplineG_relerr (hε : 0 ≤ ε) (hfl : ∀ a, RelErr ε 1 a (fl a)) (t : Int → F) (x : F) (n : Nat) :
    ∀ i : Int, MonoOn t i (i + n + 1) →
      RelErr ε (5 * n) (@bsplineG F (Arith.ofField F) t x n i) (@bsplineG F (Arith.rounded fl st) t x n i) ∧
      0 ≤ @bsplineG F (Arith.ofField F) t x n i ∧
      (@bsplineG F (Arith.ofField F) t x n i ≠ 0 → t i ≤ x ∧ x < t (i + n + 1)) := by
  induction n with
  | zero =>
    intro i _
    simp only [bsplineG, of_le, of_lt, of_one, of_zero, rd_le, rd_lt, rd_one, rd_zero]
    by_cases h : (decide (t i ≤ x) && decide (x < t (i + 1))) = true
    · rw [if_pos h]
      simp only [Bool.and_eq_true, decide_eq_true_eq] at h
      exact ⟨RelErr.refl hε _, zero_le_one, fun _ => by simpa using h⟩
    · rw [if_neg h]
      exact ⟨RelErr.refl hε _, le_refl _, fun h0 => absurd rfl h0⟩
  | succ n ih =>
    intro i hm
    obtain ⟨r1, p1, s1⟩ := ih i (fun a b h1 h2 h3 => hm a b h1 h2 (by push_cast at h3 ⊢; omega))
    obtain ⟨r2, p2, s2⟩ := ih (i + 1) (fun a b h1 h2 h3 => hm a b (by omega) h2 (by push_cast at h3 ⊢; omega))
    have hd1 : 0 ≤ t (i + n + 1) - t i := sub_nonneg.2 (hm _ _ (le_refl _) (by omega) (by push_cast; omega))
    have hd2 : 0 ≤ t (i + n + 2) - t (i + 1) :=
      sub_nonneg.2 (hm _ _ (by omega) (by omega) (by push_cast; omega))
    have e2 : i + 1 + (n : Int) + 1 = i + n + 2 := by ring
    rw [e2] at s2
    -- first term
    have T1 : RelErr ε (5 * n + 4) ((x - t i) * @bsplineG F (Arith.ofField F) t x n i / (t (i + n + 1) - t i))
        (fl (fl (fl (x - t i) * @bsplineG F (Arith.rounded fl st) t x n i) / fl (t (i + n + 1) - t i))) := by
      have := RelErr.round hε hfl (RelErr.div hε (RelErr.round hε hfl (RelErr.mul hε (hfl (x - t i)) r1))
        (hfl (t (i + n + 1) - t i)))
      exact this.mono hε (by omega)
    have N1 : 0 ≤ (x - t i) * @bsplineG F (Arith.ofField F) t x n i / (t (i + n + 1) - t i) := by
      by_cases h0 : @bsplineG F (Arith.ofField F) t x n i = 0
      · rw [h0]; simp
      · exact div_nonneg (mul_nonneg (sub_nonneg.2 (s1 h0).1) p1) hd1
    have T2 : RelErr ε (5 * n + 4)
        ((t (i + n + 2) - x) * @bsplineG F (Arith.ofField F) t x n (i + 1) / (t (i + n + 2) - t (i + 1)))
        (fl (fl (fl (t (i + n + 2) - x) * @bsplineG F (Arith.rounded fl st) t x n (i + 1)) /
          fl (t (i + n + 2) - t (i + 1)))) := by
      have := RelErr.round hε hfl (RelErr.div hε (RelErr.round hε hfl (RelErr.mul hε (hfl (t (i + n + 2) - x)) r2))
        (hfl (t (i + n + 2) - t (i + 1))))
      exact this.mono hε (by omega)
    have N2 : 0 ≤ (t (i + n + 2) - x) * @bsplineG F (Arith.ofField F) t x n (i + 1) / (t (i + n + 2) - t (i + 1)) := by
      by_cases h0 : @bsplineG F (Arith.ofField F) t x n (i + 1) = 0
      · rw [h0]; simp
      · exact div_nonneg (mul_nonneg (sub_nonneg.2 (le_of_lt (s2 h0).2)) p2) hd2
    have z1 : (fl (t (i + n + 1) - t i) = 0) ↔ (t (i + n + 1) - t i = 0) := (hfl _).eq_zero_iff hε
    have z2 : (fl (t (i + n + 2) - t (i + 1)) = 0) ↔ (t (i + n + 2) - t (i + 1) = 0) := (hfl _).eq_zero_iff hε
    -- the two guarded terms
    have G1 : RelErr ε (5 * n + 4)
        (if t (i + n + 1) - t i = 0 then 0 else
          (x - t i) * @bsplineG F (Arith.ofField F) t x n i / (t (i + n + 1) - t i))
        (if t (i + n + 1) - t i = 0 then 0 else
          fl (fl (fl (x - t i) * @bsplineG F (Arith.rounded fl st) t x n i) / fl (t (i + n + 1) - t i))) ∧
        0 ≤ (if t (i + n + 1) - t i = 0 then 0 else
          (x - t i) * @bsplineG F (Arith.ofField F) t x n i / (t (i + n + 1) - t i)) := by
      by_cases h : t (i + n + 1) - t i = 0
      · rw [if_pos h, if_pos h]; exact ⟨RelErr.of_zero hε _, le_refl _⟩
      · rw [if_neg h, if_neg h]; exact ⟨T1, N1⟩
    have hcast : ((n + 1 : Nat) : Int) = (n : Int) + 1 := by push_cast; ring
    have e3 : i + ((n + 1 : Nat) : Int) + 1 = i + n + 2 := by rw [hcast]; ring
    rw [e3]
    simp only [bsplineG, isZero_of, isZero_rd, of_sub, of_mul, of_div, of_add, of_zero, rd_sub, rd_mul, rd_div,
      rd_add, rd_zero, decide_eq_true_eq, z1, z2]
    have e5 : 5 * (n + 1) = 5 * n + 4 + 1 := by ring
    rw [e5]
    by_cases h2 : t (i + n + 2) - t (i + 1) = 0
    · rw [if_pos h2, if_pos h2]
      refine ⟨G1.1.mono hε (by omega), G1.2, fun h0 => ?_⟩
      by_cases h : t (i + n + 1) - t i = 0
      · rw [if_pos h] at h0; exact absurd rfl h0
      · rw [if_neg h] at h0
        have hb : @bsplineG F (Arith.ofField F) t x n i ≠ 0 := by
          intro hb; apply h0; rw [hb]; simp
        exact ⟨(s1 hb).1, lt_of_lt_of_le (s1 hb).2 (hm _ _ (by omega) (by omega) (by push_cast; omega))⟩
    · rw [if_neg h2, if_neg h2]
      refine ⟨RelErr.round hε hfl (RelErr.add_nonneg hε G1.1 T2 G1.2 N2), add_nonneg G1.2 N2, fun h0 => ?_⟩
      by_cases hb1 : @bsplineG F (Arith.ofField F) t x n i = 0
      · have hb2 : @bsplineG F (Arith.ofField F) t x n (i + 1) ≠ 0 := by
          intro hb2; apply h0; rw [hb1, hb2]; simp
        exact ⟨le_trans (hm _ _ (le_refl _) (by omega) (by push_cast; omega)) (s2 hb2).1, (s2 hb2).2⟩
      · exact ⟨(s1 hb1).1, lt_of_lt_of_le (s1 hb1).2 (hm _ _ (by omega) (by omega) (by push_cast; omega))⟩

/-! ## aligned entry lists: exact / rounded / majorant -/

/-- the three lists list the same index tuples in the same order; every rounded value `w` is within
`gfac ε k · m` of the exact value `v`, and `|v| ≤ m` -/
inductive EntsRel (ε : F) (k : Nat) :
    List (List Nat × F) → List (List Nat × F) → List (List Nat × F) → Prop
  | nil : EntsRel ε k [] [] []
  | cons {i : List Nat} {v w m : F} {lE lR lM : List (List Nat × F)} :
      Acc ε k m v w → EntsRel ε k lE lR lM → EntsRel ε k ((i, v) :: lE) ((i, w) :: lR) ((i, m) :: lM)

theorem EntsRel.append {k : Nat} {a1 a2 a3 b1 b2 b3 : List (List Nat × F)}
    (h : EntsRel ε k a1 a2 a3) (h' : EntsRel ε k b1 b2 b3) :
    EntsRel ε k (a1 ++ b1) (a2 ++ b2) (a3 ++ b3) := by
  induction h with
  | nil => simpa using h'
  | cons hacc _ ih => exact EntsRel.cons hacc ih

theorem EntsRel.mono (hε : 0 ≤ ε) {k k' : Nat} {a b c : List (List Nat × F)} (hk : k ≤ k')
    (h : EntsRel ε k a b c) : EntsRel ε k' a b c := by
  induction h with
  | nil => exact .nil
  | cons hacc _ ih => exact .cons (hacc.mono hε hk) ih

/-- the three tensors have the same index ranges and aligned entries -/
structure TRel (ε : F) (k : Nat) (E R M : NdSparse F) : Prop where
  rR : R.ranges = E.ranges
  rM : M.ranges = E.ranges
  ents : EntsRel ε k E.entries R.entries M.entries

/-- **reading a cell**: `get` adds the `N` listed values up (`fl` after every addition), so the cell
carries `N` more roundings than its entries -/
theorem TRel.get (hε : 0 ≤ ε) (hfl : ∀ a, RelErr ε 1 a (fl a)) {k : Nat} {E R M : NdSparse F}
    (h : TRel ε k E R M) (idx : List Nat) :
    Acc ε (k + E.nlisted idx) (@NdSparse.get F (Arith.ofField F) M idx)
      (@NdSparse.get F (Arith.ofField F) E idx) (@NdSparse.get F (Arith.rounded fl st) R idx) := by
  obtain ⟨rE, lE⟩ := E
  obtain ⟨rR, lR⟩ := R
  obtain ⟨rM, lM⟩ := M
  have he := h.ents
  simp only at he
  unfold NdSparse.get NdSparse.nlisted
  simp only [of_add, of_zero, rd_add, rd_zero]
  clear h
  induction he with
  | nil => simpa using Acc.zero (ε := ε) k
  | @cons i v w m lE lR lM hacc _ ih =>
    simp only [List.foldr_cons]
    by_cases hi : i = idx
    · simp only [if_pos hi]
      have := Acc.add_round hε hfl (hacc.mono hε (Nat.le_add_right k _)) ih
      simpa [Nat.add_assoc] using this
    · simp only [if_neg hi]
      exact ih

/-- the majorant lists the indices of the exact tensor, so it is well-formed when that one is -/
theorem TRel.wfM {k : Nat} {E R M : NdSparse F} (h : TRel ε k E R M) (hwf : E.WF) : M.WF := by
  obtain ⟨rE, lE⟩ := E
  obtain ⟨rR, lR⟩ := R
  obtain ⟨rM, lM⟩ := M
  have he := h.ents
  have hr : rM = rE := h.rM
  subst hr
  simp only at he
  unfold NdSparse.WF at hwf ⊢
  simp only at hwf ⊢
  clear h
  induction he with
  | nil => intro e he; simp at he
  | @cons i v w m lE lR lM _ _ ih =>
    intro e he
    rcases List.mem_cons.mp he with rfl | he'
    · exact hwf (i, v) (by simp)
    · exact ih (fun e' he'' => hwf e' (by simp [he''])) e he'

/-- an exactly known tensor: the rounded run starts from the same values, the majorant from their magnitudes -/
theorem TRel.ofExact (a : NdSparse F) : TRel ε 0 a a ⟨a.ranges, a.entries.map fun e => (e.1, |e.2|)⟩ := by
  refine ⟨rfl, rfl, ?_⟩
  simp only
  induction a.entries with
  | nil => exact .nil
  | cons e es ih => exact .cons ⟨by simp [gfac], le_refl _⟩ ih

/-! ## one slice multiplication -/

theorem sliceMultiply_eq_some' {α : Type} [A : Arith α] (a : NdSparse α) (b : Mat α) (dim : Nat)
    (hb : b.nrow = a.ranges.getD dim 0) :
    sliceMultiply a b dim = some ⟨a.ranges.set dim b.ncol,
      a.entries.flatMap fun e =>
        (List.range b.ncol).filterMap fun g =>
          if isZero (b.val (e.1.getD dim 0) g) then none
          else some (unflattenIdx (a.ranges.set dim b.ncol) dim g (flattenCol a.ranges e.1 dim),
                     A.mul (b.val (e.1.getD dim 0) g) e.2)⟩ := by
  unfold sliceMultiply
  rw [if_neg (fun h => h hb)]

/-- the products of one source entry with the stored entries of its basis row -/
theorem slice_entry_rel (hε : 0 ≤ ε) (hfl : ∀ a, RelErr ε 1 a (fl a)) {k kb : Nat} {m v w : F}
    (hacc : Acc ε k m v w) (I : Nat → List Nat) (βE βR : Nat → F) (gs : List Nat)
    (hb : ∀ g ∈ gs, RelErr ε kb (βE g) (βR g) ∧ 0 ≤ βE g) :
    EntsRel ε (k + kb + 1)
      (gs.filterMap fun g => if @isZero F (Arith.ofField F) (βE g) then none
        else some (I g, @Arith.mul F (Arith.ofField F) (βE g) v))
      (gs.filterMap fun g => if @isZero F (Arith.rounded fl st) (βR g) then none
        else some (I g, @Arith.mul F (Arith.rounded fl st) (βR g) w))
      (gs.filterMap fun g => if @isZero F (Arith.ofField F) (βE g) then none
        else some (I g, @Arith.mul F (Arith.ofField F) (βE g) m)) := by
  induction gs with
  | nil => exact .nil
  | cons g gs ih =>
    have ih' := ih (fun g' hg' => hb g' (by simp [hg']))
    obtain ⟨hr, h0⟩ := hb g (by simp)
    simp only [List.filterMap_cons]
    simp only [isZero_of, isZero_rd, decide_eq_true_eq, of_mul, rd_mul] at ih' ⊢
    by_cases hz : βE g = 0
    · have hzR : βR g = 0 := (hr.eq_zero_iff hε).2 hz
      simp only [hz, hzR, if_true]
      exact ih'
    · have hzR : ¬ βR g = 0 := fun h => hz ((hr.eq_zero_iff hε).1 h)
      simp only [hz, hzR, if_false]
      exact .cons (Acc.mul_round hε hfl hacc hr h0) ih'

theorem slice_entries_rel (hε : 0 ≤ ε) (hfl : ∀ a, RelErr ε 1 a (fl a)) (ranges ranges' : List Nat)
    (dim ncol : Nat) (bE bR : Nat → Nat → F) {k kb : Nat} {lE lR lM : List (List Nat × F)}
    (h : EntsRel ε k lE lR lM)
    (hb : ∀ e ∈ lE, ∀ g, g < ncol →
      RelErr ε kb (bE (e.1.getD dim 0) g) (bR (e.1.getD dim 0) g) ∧ 0 ≤ bE (e.1.getD dim 0) g) :
    EntsRel ε (k + kb + 1)
      (lE.flatMap fun e => (List.range ncol).filterMap fun g =>
        if @isZero F (Arith.ofField F) (bE (e.1.getD dim 0) g) then none
        else some (unflattenIdx ranges' dim g (flattenCol ranges e.1 dim),
          @Arith.mul F (Arith.ofField F) (bE (e.1.getD dim 0) g) e.2))
      (lR.flatMap fun e => (List.range ncol).filterMap fun g =>
        if @isZero F (Arith.rounded fl st) (bR (e.1.getD dim 0) g) then none
        else some (unflattenIdx ranges' dim g (flattenCol ranges e.1 dim),
          @Arith.mul F (Arith.rounded fl st) (bR (e.1.getD dim 0) g) e.2))
      (lM.flatMap fun e => (List.range ncol).filterMap fun g =>
        if @isZero F (Arith.ofField F) (bE (e.1.getD dim 0) g) then none
        else some (unflattenIdx ranges' dim g (flattenCol ranges e.1 dim),
          @Arith.mul F (Arith.ofField F) (bE (e.1.getD dim 0) g) e.2)) := by
  induction h with
  | nil => exact .nil
  | @cons i v w m lE lR lM hacc _ ih =>
    simp only [List.flatMap_cons]
    refine EntsRel.append ?_ (ih (fun e he g hg => hb e (by simp [he]) g hg))
    exact slice_entry_rel hε hfl hacc (fun g => unflattenIdx ranges' dim g (flattenCol ranges i dim))
      (fun g => bE (i.getD dim 0) g) (fun g => bR (i.getD dim 0) g) (List.range ncol)
      (fun g hg => hb (i, v) (by simp) g (List.mem_range.mp hg))

/-- **One slice multiplication under rounding.**  Basis matrix entries non-negative and known up to `kb`
roundings: every entry of the result carries `kb + 1` more roundings than the entries of the input. -/
theorem sliceMultiply_rel (hε : 0 ≤ ε) (hfl : ∀ a, RelErr ε 1 a (fl a)) {k kb : Nat} {aE aR aM : NdSparse F}
    (h : TRel ε k aE aR aM) (bE bR : Mat F) (dim : Nat) (hnr : bR.nrow = bE.nrow) (hnc : bR.ncol = bE.ncol)
    (hb : ∀ j g, j < bE.nrow → g < bE.ncol → RelErr ε kb (bE.val j g) (bR.val j g) ∧ 0 ≤ bE.val j g)
    (hwf : aE.WF) (hd : dim < aE.ranges.length) (hdim : bE.nrow = aE.ranges.getD dim 0) :
    ∃ cE cR cM, @sliceMultiply F (Arith.ofField F) aE bE dim = some cE ∧
      @sliceMultiply F (Arith.rounded fl st) aR bR dim = some cR ∧
      @sliceMultiply F (Arith.ofField F) aM bE dim = some cM ∧ TRel ε (k + kb + 1) cE cR cM := by
  refine ⟨_, _, _, sliceMultiply_eq_some' (A := Arith.ofField F) aE bE dim hdim,
    sliceMultiply_eq_some' (A := Arith.rounded fl st) aR bR dim (by rw [hnr, h.rR]; exact hdim),
    sliceMultiply_eq_some' (A := Arith.ofField F) aM bE dim (by rw [h.rM]; exact hdim), ?_⟩
  refine ⟨by simp only [h.rR, hnc], by simp only [h.rM], ?_⟩
  simp only [h.rR, h.rM, hnc]
  refine slice_entries_rel hε hfl aE.ranges (aE.ranges.set dim bE.ncol) dim bE.ncol bE.val bR.val h.ents ?_
  intro e he g hg
  exact hb _ g (by rw [hdim]; exact (hwf e he).2 dim hd) hg

/-! ## the basis matrix -/

theorem basisT_rel (hε : 0 ≤ ε) (hfl : ∀ a, RelErr ε 1 a (fl a)) (t : Int → F) (nknots order : Nat) (xs : List F)
    (hm : ∀ i j : Int, 0 ≤ i → i ≤ j → j < nknots → t i ≤ t j) (j g : Nat)
    (hj : j < nknots - order - 1) (hg : g < xs.length) :
    RelErr ε (5 * order) ((@bsplineBasis F (Arith.ofField F) t nknots order xs).transpose.val j g)
        ((@bsplineBasis F (Arith.rounded fl st) t nknots order xs).transpose.val j g) ∧
      0 ≤ (@bsplineBasis F (Arith.ofField F) t nknots order xs).transpose.val j g := by
  simp only [Mat.transpose, bsplineBasis, tabGet_tabOf]
  rw [List.getElem?_eq_getElem hg]
  simp only
  have := bsplineG_relerr (st := st) hε hfl t xs[g] order (j : Int)
    (fun a b h1 h2 h3 => hm a b (by omega) h2 (by omega))
  exact ⟨this.1, this.2.1⟩

/-! ## the coefficient tensor -/

theorem coefTensor_rel (dims : List (Dim F)) (coef : Int → F) :
    TRel ε 0 (@coefTensor F (Arith.ofField F) dims coef) (@coefTensor F (Arith.rounded fl st) dims coef)
      (@coefTensor F (Arith.ofField F) dims fun i => |coef i|) := by
  refine ⟨by cases dims <;> rfl, by cases dims <;> rfl, ?_⟩
  have key : ∀ (l : List Nat), EntsRel ε 0
      (l.filterMap fun (i : Nat) => if @isZero F (Arith.ofField F) (coef (Int.ofNat i)) then none
        else some (decodeStrides (dims.map (·.stride)) i, coef (Int.ofNat i)))
      (l.filterMap fun (i : Nat) => if @isZero F (Arith.rounded fl st) (coef (Int.ofNat i)) then none
        else some (decodeStrides (dims.map (·.stride)) i, coef (Int.ofNat i)))
      (l.filterMap fun (i : Nat) => if @isZero F (Arith.ofField F) |coef (Int.ofNat i)| then none
        else some (decodeStrides (dims.map (·.stride)) i, |coef (Int.ofNat i)|)) := by
    intro l
    induction l with
    | nil => exact .nil
    | cons i l ih =>
      simp only [List.filterMap_cons]
      simp only [isZero_of, isZero_rd, decide_eq_true_eq, abs_eq_zero] at ih ⊢
      by_cases hz : coef (Int.ofNat i) = 0
      · simp only [hz, if_true]; exact ih
      · simp only [hz, if_false]
        exact .cons ⟨by simp [gfac], le_refl _⟩ ih
  cases dims with
  | nil => exact key _
  | cons d ds => exact key _

/-! ## the chain of slice multiplications -/
section grid
attribute [local instance] Arith.ofField

theorem gridLoop_rel (hε : 0 ≤ ε) (hfl : ∀ a, RelErr ε 1 a (fl a)) (dims : List (Dim F)) (coef : Int → F)
    (coords : List (List F)) (hlen : coords.length = dims.length)
    (hna : ∀ d ∈ dims, d.naxes = d.nknots - d.order - 1) (hmono : ∀ d ∈ dims, d.KnotsMono) :
    ∀ (m k : Nat) (ndE ndR ndM : NdSparse F) (kk : Nat), k + m = dims.length →
      GridInv dims coef coords k ndE → TRel ε kk ndE ndR ndM →
      ∃ rE rR rM, gridLoop (dims.drop k) (coords.drop k) k ndE = some rE ∧
        gridLoop (A := Arith.rounded fl st) (dims.drop k) (coords.drop k) k ndR = some rR ∧
        gridLoop (dims.drop k) (coords.drop k) k ndM = some rM ∧
        TRel ε (kk + gridRoundCount (dims.drop k)) rE rR rM := by
  intro m
  induction m with
  | zero =>
    intro k ndE ndR ndM kk hk _ h
    have : k = dims.length := by omega
    subst this
    have e1 : List.drop dims.length dims = [] := List.drop_length
    have e2 : List.drop dims.length coords = [] := List.drop_eq_nil_of_le (by omega)
    rw [e1, e2]
    exact ⟨ndE, ndR, ndM, rfl, rfl, rfl, by simpa [gridRoundCount] using h⟩
  | succ m ih =>
    intro k ndE ndR ndM kk hk hinv h
    have hkd : k < dims.length := by omega
    have hkc : k < coords.length := by omega
    have e1 : dims[k] = dimAt dims k := by simp [dimAt, List.getD_eq_getElem?_getD, hkd]
    have e2 : coords[k] = coords.getD k [] := by simp [List.getD_eq_getElem?_getD, hkc]
    rw [List.drop_eq_getElem_cons hkd, List.drop_eq_getElem_cons hkc, e1, e2]
    have hnak : (dimAt dims k).naxes = (dimAt dims k).nknots - (dimAt dims k).order - 1 := by
      rw [← e1]; exact hna _ (List.getElem_mem hkd)
    have hmk : (dimAt dims k).KnotsMono := by rw [← e1]; exact hmono _ (List.getElem_mem hkd)
    obtain ⟨ndE', h1, h2⟩ := gridInv_step dims coef coords k ndE hkd hnak hinv
    have hrk : ndE.ranges.getD k 0 = (dimAt dims k).naxes := by
      rw [hinv.ranges, getD_map_range _ _ _ hkd]; simp
    have hlenr : ndE.ranges.length = dims.length := by rw [hinv.ranges]; simp
    obtain ⟨cE, cR, cM, s1, s2, s3, s4⟩ := sliceMultiply_rel (st := st) hε hfl h
      (bsplineBasis (dimAt dims k).knots (dimAt dims k).nknots (dimAt dims k).order (coords.getD k [])).transpose
      (bsplineBasis (A := Arith.rounded fl st) (dimAt dims k).knots (dimAt dims k).nknots (dimAt dims k).order
        (coords.getD k [])).transpose k rfl rfl
      (fun j g hj hg => basisT_rel hε hfl _ _ _ _ hmk j g hj hg) hinv.wf (by rw [hlenr]; exact hkd)
      (by rw [hrk, hnak]; rfl)
    have hc : cE = ndE' := Option.some.inj (s1.symm.trans h1)
    subst hc
    obtain ⟨rE, rR, rM, g1, g2, g3, g4⟩ := ih (k + 1) cE cR cM _ (by omega) h2 s4
    refine ⟨rE, rR, rM, ?_, ?_, ?_, ?_⟩
    · simp only [gridLoop, s1]; exact g1
    · simp only [gridLoop, s2]; exact g2
    · simp only [gridLoop, s3]; exact g3
    · have e : kk + 5 * (dimAt dims k).order + 1 + gridRoundCount (List.drop (k + 1) dims)
          = kk + gridRoundCount (dimAt dims k :: List.drop (k + 1) dims) := by
        simp only [gridRoundCount]; omega
      rw [← e]; exact g4

/-- `grideval` under rounding: the three runs succeed together and every entry of the result carries
`gridRoundCount dims = Σ_d (5·order_d + 1)` roundings -/
theorem gridEval_rel (hε : 0 ≤ ε) (hfl : ∀ a, RelErr ε 1 a (fl a)) (dims : List (Dim F)) (coef : Int → F)
    (coords : List (List F)) (hwf : GridTableWF dims) (hmono : ∀ d ∈ dims, d.KnotsMono)
    (hlen : coords.length = dims.length) :
    ∃ rE rR rM, gridEval dims coef coords = some rE ∧
      gridEval (A := Arith.rounded fl st) dims coef coords = some rR ∧
      gridEval dims (fun i => |coef i|) coords = some rM ∧ TRel ε (gridRoundCount dims) rE rR rM := by
  obtain ⟨rE, rR, rM, g1, g2, g3, g4⟩ := gridLoop_rel (st := st) hε hfl dims coef coords hlen hwf.naxes_eq hmono
    dims.length 0 _ _ _ 0 (by omega) (gridInv_init dims coef coords hwf.strides hwf.ne)
    (coefTensor_rel (ε := ε) (fl := fl) (st := st) dims coef)
  rw [List.drop_zero, List.drop_zero] at g1 g2 g3
  refine ⟨rE, rR, rM, ?_, ?_, ?_, by simpa using g4⟩
  · unfold gridEval; rw [if_neg (fun hh => hh hlen)]; exact g1
  · unfold gridEval; rw [if_neg (fun hh => hh hlen)]; exact g2
  · unfold gridEval; rw [if_neg (fun hh => hh hlen)]; exact g3

end grid

end PsV
