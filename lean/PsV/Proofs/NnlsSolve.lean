import PsV.Proofs.NnlsBridge
set_option linter.unusedSectionVars false
set_option linter.unusedVariables false
set_option linter.unusedSimpArgs false
/-!
# `solveOn` is correct, `spdCert` is sound, and on an SPD matrix every passive-set solve succeeds
-/
namespace PsV.Nnls
open Finset Matrix

theorem solveOn_eq (n : ℕ) (A : Mat) (b : Vec) (S : List ℕ) :
    solveOn n A b S = match gaussJordan S.length (sysMat A b S) with
      | none => none
      | some (R, _) => some (scatter n S (R.map fun row => row.getD S.length 0)) := rfl

/-- what a successful `solveOn` hands back, in terms of the entry-level run -/
theorem solveOn_some {n : ℕ} {A : Mat} {b : Vec} {S : List ℕ} {x : Array ℚ} (h : solveOn n A b S = some x) :
    ∃ (xs : Array ℚ) (R' : FM) (ps : List ℚ), x = scatter n S xs ∧ xs.size = S.length ∧
      fgj (List.range S.length) (sysF A b S) = some (R', ps) ∧ ∀ t, t < S.length → xs.getD t 0 = R' t S.length := by
  rw [solveOn_eq, gaussJordan_eq] at h
  rcases gj_bridge (List.range S.length) _ _ [] (sysMat_rel A b S) (fun c hc => List.mem_range.mp hc) with
    ⟨h1, _⟩ | ⟨R, R', ps, h1, h2, h3⟩
  · rw [h1] at h; simp at h
  · rw [h1] at h
    simp only [Option.some.injEq] at h
    refine ⟨_, R', ps, h.symm, ?_, h2, fun t ht => ?_⟩
    · rw [Array.size_map]; exact h3.1.1
    · rw [getD_map_arr _ _ _ _ (by rw [h3.1.1]; exact ht)]
      exact h3.2 t S.length ht (le_refl _)

/-- **Correctness of the exact solve** (`solveOn`, i.e. Gauss–Jordan on `[A_SS | b_S]` + scatter): whatever it returns
vanishes off `S` and satisfies row `i` of `A x = b` for every `i ∈ S`. -/
theorem solveOn_correct {n : ℕ} {A : Mat} {b : Vec} {S : List ℕ} {x : Array ℚ} (hS : S.Nodup)
    (hn : ∀ i ∈ S, i < n) (h : solveOn n A b S = some x) :
    (∀ i, i ∉ S → at0 x i = 0) ∧ ∀ i, i ∈ S → grad n A b (at0 x) i = 0 := by
  obtain ⟨xs, R', ps, hx, hlen, hrun, hxs⟩ := solveOn_some h
  subst hx
  have hsol := fgj_range_solves hrun
  refine ⟨fun i hi => scatter_off n S xs hlen i hi, fun i hi => ?_⟩
  obtain ⟨r, hr, hri⟩ := List.mem_iff_getElem.mp hi
  have hri' : S.getD r 0 = i := by simp [List.getD_eq_getElem?_getD, hr, hri]
  unfold grad Nnls.mulVec
  rw [sumTo_range, sum_reindex S hS hn (fun j => A i j * at0 (scatter n S xs) j)
    (fun j _ hj => by show A i j * _ = 0; rw [scatter_off n S xs hlen j hj, mul_zero])]
  have := hsol r hr
  unfold sysF at this
  rw [if_neg (lt_irrefl _), hri'] at this
  rw [← this, sub_eq_zero]
  apply sum_congr rfl
  intro t ht
  have ht' := mem_range.mp ht
  show A i (S.getD t 0) * at0 (scatter n S xs) (S.getD t 0) = _
  rw [if_pos ht', scatter_on n S xs hS hn hlen t ht', hxs t ht']

/-! ## `SPD` of the `Fin n` matrix ⇔ `SymOn` + `PDOn` of the entries -/

theorem Qf_eq_dot (n : ℕ) (A : Mat) (x : ℕ → ℚ) :
    Qf 0 n A x = toVec n x ⬝ᵥ (toMat n A) *ᵥ (toVec n x) := by
  unfold Qf
  simp only [Nat.Ico_zero_eq_range, Finset.sum_range, dotProduct, Matrix.mulVec, toVec, toMat, Finset.mul_sum]
  apply sum_congr rfl; intro i _
  apply sum_congr rfl; intro j _
  ring

theorem pdOn_congr {c k : ℕ} {F G : FM} (hFG : ∀ i j, c ≤ i → i < k → c ≤ j → j < k → F i j = G i j)
    (h : PDOn c k F) : PDOn c k G := by
  intro x hx
  rw [← Qf_congr hFG (fun _ _ _ => rfl)]
  exact h x hx

theorem spd_iff (n : ℕ) (A : Mat) : SPD (toMat n A) ↔ SymOn 0 n A ∧ PDOn 0 n A := by
  constructor
  · rintro ⟨hs, hp⟩
    refine ⟨fun i j _ hi _ hj => ?_, fun x hx => ?_⟩
    · have := congrFun (congrFun hs.eq ⟨j, hj⟩) ⟨i, hi⟩
      simpa [toMat, Matrix.transpose] using this
    · rw [Qf_eq_dot]
      obtain ⟨i, _, hi, hne⟩ := hx
      apply hp
      intro h0
      exact hne (by have := congrFun h0 ⟨i, hi⟩; simpa [toVec] using this)
  · rintro ⟨hs, hp⟩
    refine ⟨?_, fun v hv => ?_⟩
    · ext i j
      simp only [Matrix.transpose_apply, toMat]
      exact hs j i (Nat.zero_le _) j.2 (Nat.zero_le _) i.2
    · let x : ℕ → ℚ := fun i => if h : i < n then v ⟨i, h⟩ else 0
      have hxv : toVec n x = v := by
        funext i; show (if h : i.1 < n then v ⟨i.1, h⟩ else 0) = v i; rw [dif_pos i.2]
      rw [← hxv, ← Qf_eq_dot]
      apply hp
      have : ∃ i, v i ≠ 0 := by
        by_contra hall
        exact hv (funext fun i => by simpa using (not_exists.mp hall i))
      obtain ⟨i, hi⟩ := this
      exact ⟨i.1, Nat.zero_le _, i.2, by show (if h : i.1 < n then v ⟨i.1, h⟩ else 0) ≠ 0; rw [dif_pos i.2]; exact hi⟩

theorem getD_range (n r : ℕ) (h : r < n) : (List.range n).getD r 0 = r := by
  simp [List.getD_eq_getElem?_getD, h]

/-- **Soundness of the exact SPD certificate**: `spdCert n A = true` (symmetric, and the elimination without row
exchanges meets only pivots `> 0`) implies that `A` is symmetric positive definite: `vᵀAv > 0` for every `v ≠ 0`. -/
theorem spdCert_spd (n : ℕ) (A : Mat) (h : spdCert n A = true) : SPD (toMat n A) := by
  unfold spdCert at h
  rw [Bool.and_eq_true] at h
  obtain ⟨hsym, hgj⟩ := h
  have hS : SymOn 0 n A := by
    intro i j _ hi _ hj
    unfold isSymm at hsym
    rw [List.all_eq_true] at hsym
    have := hsym i (List.mem_range.mpr hi)
    rw [List.all_eq_true] at this
    simpa using this j (List.mem_range.mpr hj)
  rw [spd_iff]
  refine ⟨hS, ?_⟩
  have hM : (((List.range n).map fun r => (((List.range n).map fun c => A r c) ++ [0]).toArray).toArray)
      = sysMat A (fun _ => 0) (List.range n) := rfl
  rw [hM, gaussJordan_eq] at hgj
  have hrel := sysMat_rel A (fun _ => 0) (List.range n)
  rw [List.length_range] at hrel
  rcases gj_bridge (List.range n) _ _ [] hrel (fun c hc => List.mem_range.mp hc) with
    ⟨h1, _⟩ | ⟨R, R', ps, h1, h2, _⟩
  · rw [h1] at hgj; simp at hgj
  · rw [h1] at hgj
    simp only [List.nil_append, List.all_eq_true, decide_eq_true_eq] at hgj
    have hSF : SymOn 0 n (sysF A (fun _ => 0) (List.range n)) := by
      intro i j _ hi _ hj
      unfold sysF
      rw [List.length_range, if_pos hi, if_pos hj, getD_range n i hi, getD_range n j hj]
      exact hS i j (Nat.zero_le _) hi (Nat.zero_le _) hj
    have h2' : fgj (List.range' 0 n) (sysF A (fun _ => 0) (List.range n)) = some (R', ps) := by
      rw [← List.range_eq_range']; exact h2
    have hpd := fgj_pos_pd (k := n) n 0 _ R' ps (by omega) hSF h2' hgj
    refine pdOn_congr ?_ hpd
    intro i j _ hi _ hj
    unfold sysF
    rw [List.length_range, if_pos hj, getD_range n i hi, getD_range n j hj]

/-! ## principal submatrices of an SPD matrix: every passive-set solve succeeds -/

theorem pdOn_sub {n : ℕ} {A : Mat} (b : Vec) {S : List ℕ} (hS : S.Nodup) (hn : ∀ i ∈ S, i < n)
    (hP : PDOn 0 n A) : PDOn 0 S.length (sysF A b S) := by
  intro x hx
  obtain ⟨t0, _, ht0, hne⟩ := hx
  let z : ℕ → ℚ := fun i => if i ∈ S then x (S.idxOf i) else 0
  have hz : ∀ t, t < S.length → z (S.getD t 0) = x t := by
    intro t ht
    have hg : S.getD t 0 = S[t] := by simp [List.getD_eq_getElem?_getD, ht]
    show (if S.getD t 0 ∈ S then x (S.idxOf (S.getD t 0)) else 0) = x t
    rw [hg, if_pos (List.getElem_mem ht), List.Nodup.idxOf_getElem hS]
  have hz0 : ∀ i, i ∉ S → z i = 0 := fun i hi => by show (if i ∈ S then _ else 0) = 0; rw [if_neg hi]
  have hmem : ∀ t, t < S.length → S.getD t 0 < n := by
    intro t ht
    apply hn
    have hg : S.getD t 0 = S[t] := by simp [List.getD_eq_getElem?_getD, ht]
    rw [hg]; exact List.getElem_mem ht
  have hq := hP z ⟨S.getD t0 0, Nat.zero_le _, hmem t0 ht0, by rw [hz t0 ht0]; exact hne⟩
  have e : Qf 0 n A z = Qf 0 S.length (sysF A b S) x := by
    unfold Qf
    simp only [Nat.Ico_zero_eq_range]
    rw [sum_reindex S hS hn (fun i => ∑ j ∈ range n, z i * A i j * z j)
      (fun i _ hi => by
        apply sum_eq_zero; intro j _; show z i * A i j * z j = 0; rw [hz0 i hi]; ring)]
    apply sum_congr rfl; intro s hs
    have hs' := mem_range.mp hs
    show ∑ j ∈ range n, z (S.getD s 0) * A (S.getD s 0) j * z j = _
    rw [sum_reindex S hS hn (fun j => z (S.getD s 0) * A (S.getD s 0) j * z j)
      (fun j _ hj => by show _ * z j = 0; rw [hz0 j hj]; ring)]
    apply sum_congr rfl; intro t ht
    have ht' := mem_range.mp ht
    show z (S.getD s 0) * A (S.getD s 0) (S.getD t 0) * z (S.getD t 0) = x s * sysF A b S s t * x t
    unfold sysF
    rw [hz s hs', hz t ht', if_pos ht']
  rwa [e] at hq

theorem symOn_sub {n : ℕ} {A : Mat} (b : Vec) {S : List ℕ} (hn : ∀ i ∈ S, i < n) (hA : SymOn 0 n A) :
    SymOn 0 S.length (sysF A b S) := by
  intro i j _ hi _ hj
  have hmem : ∀ t, t < S.length → S.getD t 0 < n := by
    intro t ht
    apply hn
    have hg : S.getD t 0 = S[t] := by simp [List.getD_eq_getElem?_getD, ht]
    rw [hg]; exact List.getElem_mem ht
  unfold sysF
  rw [if_pos hi, if_pos hj]
  exact hA _ _ (Nat.zero_le _) (hmem i hi) (Nat.zero_le _) (hmem j hj)

/-- **On an SPD matrix the exact solve never fails**: for every duplicate-free index list `S ⊆ [0,n)` the
elimination on `[A_SS | b_S]` meets no zero pivot. -/
theorem solveOn_spd {n : ℕ} {A : Mat} (b : Vec) {S : List ℕ} (hA : SPD (toMat n A)) (hS : S.Nodup)
    (hn : ∀ i ∈ S, i < n) : ∃ x, solveOn n A b S = some x := by
  obtain ⟨hsym, hpd⟩ := (spd_iff n A).mp hA
  obtain ⟨R', ps, hrun, _⟩ := pd_fgj (k := S.length) S.length 0 (sysF A b S) (by omega) (symOn_sub b hn hsym)
    (pdOn_sub b hS hn hpd)
  rw [← List.range_eq_range'] at hrun
  rw [solveOn_eq, gaussJordan_eq]
  rcases gj_bridge (List.range S.length) _ _ [] (sysMat_rel A b S) (fun c hc => List.mem_range.mp hc) with
    ⟨_, h2⟩ | ⟨R, R'', ps', h1, _, _⟩
  · rw [hrun] at h2; simp at h2
  · rw [h1]; exact ⟨_, rfl⟩

/-- **The hypothesis `ExactEnv` is discharged for the executable exact environment**: for an SPD matrix, `exactEnv`'s
Gauss–Jordan solve on every passive set returns, and returns a vector whose gradient vanishes on that set; the dual
update is the gradient. -/
theorem exactEnv_exact (n : ℕ) (A : Mat) (b : Vec) (tol : ℚ) (mi fu : ℕ) (hA : SPD (toMat n A)) (htol : 0 ≤ tol) :
    ExactEnv (exactEnv n A b tol mi fu) A b := by
  refine ⟨htol, ?_, ?_⟩
  · intro inF i hi hF
    have hS : ((List.range n).filter inF).Nodup := List.Nodup.filter _ List.nodup_range
    have hn : ∀ j ∈ (List.range n).filter inF, j < n := fun j hj => List.mem_range.mp (List.mem_filter.mp hj).1
    obtain ⟨x, hx⟩ := solveOn_spd b hA hS hn
    obtain ⟨hoff, hon⟩ := solveOn_correct hS hn hx
    have hsolve : (exactEnv n A b tol mi fu).solve inF = x := by
      show (match solveOn n A b ((List.range n).filter inF) with | some x => x | none => #[]) = x
      rw [hx]
    show grad n A b (fun j => if inF j then at0 ((exactEnv n A b tol mi fu).solve inF) j else 0) i = 0
    rw [hsolve]
    refine Eq.trans (grad_congr n A b _ (at0 x) (fun j hj => ?_) i)
      (hon i (List.mem_filter.mpr ⟨List.mem_range.mpr hi, hF⟩))
    by_cases hj' : inF j = true
    · rw [if_pos hj']
    · rw [if_neg hj']
      exact (hoff j (fun hm => hj' (List.mem_filter.mp hm).2)).symm
  · intro inF x i _
    show (sumTo n fun j => if inF j then A i j * x j else 0) - b i = grad n A b (fun j => if inF j then x j else 0) i
    unfold grad Nnls.mulVec
    congr 1
    apply sumTo_congr
    intro j _
    by_cases hj : inF j = true <;> simp [hj]

/-- **Completeness of the certificate**: every symmetric positive-definite matrix is certified. -/
theorem spd_spdCert (n : ℕ) (A : Mat) (hA : SPD (toMat n A)) : spdCert n A = true := by
  obtain ⟨hsym, hpd⟩ := (spd_iff n A).mp hA
  have hS : (List.range n).Nodup := List.nodup_range
  have hn : ∀ i ∈ List.range n, i < n := fun i hi => List.mem_range.mp hi
  obtain ⟨R', ps, hrun, hpos⟩ := pd_fgj (k := (List.range n).length) (List.range n).length 0
    (sysF A (fun _ => 0) (List.range n)) (by omega) (symOn_sub _ hn hsym) (pdOn_sub _ hS hn hpd)
  rw [← List.range_eq_range'] at hrun
  unfold spdCert
  rw [Bool.and_eq_true]
  constructor
  · unfold isSymm
    rw [List.all_eq_true]; intro i hi
    rw [List.all_eq_true]; intro j hj
    simpa using hsym i j (Nat.zero_le _) (List.mem_range.mp hi) (Nat.zero_le _) (List.mem_range.mp hj)
  · have hM : (((List.range n).map fun r => (((List.range n).map fun c => A r c) ++ [0]).toArray).toArray)
        = sysMat A (fun _ => 0) (List.range n) := rfl
    rw [hM, gaussJordan_eq]
    have hrel := sysMat_rel A (fun _ => 0) (List.range n)
    rcases gj_bridge (List.range (List.range n).length) _ _ [] hrel (fun c hc => List.mem_range.mp hc) with
      ⟨_, h2⟩ | ⟨R, R'', ps', h1, h2, _⟩
    · rw [hrun] at h2; simp at h2
    · rw [List.length_range] at h1
      rw [h1]
      rw [hrun] at h2
      simp only [Option.some.injEq, Prod.mk.injEq] at h2
      simp only [List.nil_append, List.all_eq_true, decide_eq_true_eq]
      rw [← h2.2]; exact hpos

end PsV.Nnls
