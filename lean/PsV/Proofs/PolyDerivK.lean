import PsV.Proofs.PolyDeriv
import PsV.Proofs.DerivK
import Mathlib.Algebra.Polynomial.Derivative
import Mathlib.Algebra.Polynomial.Eval.Defs
/-!
The knot-difference formula as an identity of **polynomials**, hence for iterated derivatives:
`Polynomial.derivative^[k]` of the piece `Pp` evaluates to the iterated formula `DkBp`.
-/
namespace PsV
open Polynomial
variable {α : Type} [Field α] [LinearOrder α]

theorem core_identity {R : Type} [CommRing R] (x ti ti1 tn2 tn3 Q0 Q1 Q2 a b a' b' b'' N : R)
    (hk : b' * (b * (tn3 - ti1) - a * (tn2 - ti)) = 0) :
    a * (a' * (x - ti) * Q0 + b' * (tn2 - x) * Q1) + a * (x - ti) * (N * (a' * Q0 - b' * Q1))
      + (-b) * (b' * (x - ti1) * Q1 + b'' * (tn3 - x) * Q2) + b * (tn3 - x) * (N * (b' * Q1 - b'' * Q2))
      = (N + 1) * (a * (a' * (x - ti) * Q0 + b' * (tn2 - x) * Q1) - b * (b' * (x - ti1) * Q1 + b'' * (tn3 - x) * Q2)) := by
  linear_combination (N * Q1) * hk

/-- the scalar fact behind the identity: for sorted knots the two top-level weights are both one, or the
middle inverse difference vanishes -/
theorem weights_key (t : Int → α) (i : Int) (n : Nat)
    (hmono : ∀ a b : Int, i ≤ a → a ≤ b → b ≤ i + n + 3 → t a ≤ t b) :
    (1 / (t (i+n+2) - t (i+1))) * ((1 / (t (i+n+3) - t (i+1))) * (t (i+n+3) - t (i+1)) - (1 / (t (i+n+2) - t i)) * (t (i+n+2) - t i)) = 0 := by
  by_cases hz : t (i+n+2) - t (i+1) = 0
  · rw [hz]; simp
  · have h1 : t (i+1) ≤ t (i+n+2) := hmono _ _ (by omega) (by omega) (by omega)
    have hlt : t (i+1) < t (i+n+2) := lt_of_le_of_ne h1 (fun h => hz (by rw [h]; ring))
    have h2 : t i ≤ t (i+1) := hmono _ _ (le_refl _) (by omega) (by omega)
    have h3 : t (i+n+2) ≤ t (i+n+3) := hmono _ _ (by omega) (by omega) (by omega)
    have n1 : t (i+n+3) - t (i+1) ≠ 0 := sub_ne_zero.mpr (ne_of_gt (lt_of_lt_of_le hlt h3))
    have n2 : t (i+n+2) - t i ≠ 0 := sub_ne_zero.mpr (ne_of_gt (lt_of_le_of_lt h2 hlt))
    rw [one_div_mul_cancel n1, one_div_mul_cancel n2]; ring

/-- **Polynomial identity.** -/
theorem derivative_Pp (t : Int → α) (left : Int) :
    ∀ (n : Nat) (i : Int), (∀ a b : Int, i ≤ a → a ≤ b → b ≤ i + n + 2 → t a ≤ t b) →
      derivative (Pp t left (n+1) i) =
        C ((n + 1 : Nat) : α) * (C (1 / (t (i+n+1) - t i)) * Pp t left n i - C (1 / (t (i+n+2) - t (i+1))) * Pp t left n (i+1)) := by
  intro n
  induction n with
  | zero =>
    intro i _
    simp only [Pp]
    split_ifs <;> simp <;> ring
  | succ n ih =>
    intro i hmono
    have ih1 := ih i (fun a b h1 h2 h3 => hmono a b h1 h2 (by push_cast; omega))
    have ih2 := ih (i+1) (fun a b h1 h2 h3 => hmono a b (by omega) h2 (by push_cast; omega))
    have e1 : i + 1 + (n:Int) + 1 = i + n + 2 := by ring
    have e2 : i + 1 + (n:Int) + 2 = i + n + 3 := by ring
    have e3 : i + ((n + 1 : Nat) : Int) + 1 = i + n + 2 := by push_cast; ring
    have e4 : i + ((n + 1 : Nat) : Int) + 2 = i + n + 3 := by push_cast; ring
    have e5 : i + 1 + 1 = i + 2 := by ring
    rw [e1, e2, e5] at ih2
    have key := weights_key t i n (fun a b h1 h2 h3 => hmono a b h1 h2 (by push_cast; omega))
    have keyP : C (1 / (t (i+n+2) - t (i+1))) * (C (1 / (t (i+n+3) - t (i+1))) * (C (t (i+n+3)) - C (t (i+1)))
        - C (1 / (t (i+n+2) - t i)) * (C (t (i+n+2)) - C (t i))) = 0 := by
      rw [← C_sub, ← C_sub, ← C_mul, ← C_mul, ← C_sub, ← C_mul, key, C_0]
    have hN : (C (((n + 1 + 1 : Nat)) : α) : Polynomial α) = C ((n + 1 : Nat) : α) + 1 := by
      rw [← C_1, ← C_add]; congr 1; push_cast; ring
    conv_lhs => rw [Pp]
    simp only [e3, e4, derivative_add, derivative_mul, derivative_sub, derivative_C, derivative_X, ih1, ih2]
    rw [hN]
    have expand1 : Pp t left (n+1) i = C (1 / (t (i+n+1) - t i)) * (X - C (t i)) * Pp t left n i
        + C (1 / (t (i+n+2) - t (i+1))) * (C (t (i+n+2)) - X) * Pp t left n (i+1) := by rw [Pp]
    have expand2 : Pp t left (n+1) (i+1) = C (1 / (t (i+n+2) - t (i+1))) * (X - C (t (i+1))) * Pp t left n (i+1)
        + C (1 / (t (i+n+3) - t (i+2))) * (C (t (i+n+3)) - X) * Pp t left n (i+2) := by
      rw [Pp]; simp only [e1, e2, e5]
    rw [expand1, expand2]
    have := core_identity (X : Polynomial α) (C (t i)) (C (t (i+1))) (C (t (i+n+2))) (C (t (i+n+3)))
      (Pp t left n i) (Pp t left n (i+1)) (Pp t left n (i+2))
      (C (1 / (t (i+n+2) - t i))) (C (1 / (t (i+n+3) - t (i+1)))) (C (1 / (t (i+n+1) - t i)))
      (C (1 / (t (i+n+2) - t (i+1)))) (C (1 / (t (i+n+3) - t (i+2)))) (C ((n + 1 : Nat) : α)) keyP
    linear_combination this

end PsV

namespace PsV
open Polynomial
variable {α : Type} [Field α] [LinearOrder α]

/-- **Iterated derivatives.**  The `k`-th `Polynomial.derivative` of the piece evaluates to the `k`-fold
knot-difference formula (the specification of arbitrary-order derivative evaluation). -/
theorem iterate_derivative_Pp (t : Int → α) (x : α) (left : Int) :
    ∀ (k n : Nat) (i : Int), (∀ a b : Int, i ≤ a → a ≤ b → b ≤ i + n + 1 → t a ≤ t b) →
      (derivative^[k] (Pp t left n i)).eval x = DkBp t x left k n i := by
  intro k
  induction k with
  | zero => intro n i _; simp only [Function.iterate_zero, id, DkBp]; exact eval_Pp t x left n i
  | succ k ih =>
    intro n i hmono
    cases n with
    | zero =>
      have : derivative (Pp t left 0 i) = 0 := by simp only [Pp]; split <;> simp
      rw [Function.iterate_succ_apply, this, iterate_derivative_zero]
      simp [DkBp]
    | succ m =>
      rw [Function.iterate_succ_apply, derivative_Pp t left m i (fun a b h1 h2 h3 => hmono a b h1 h2 (by push_cast; omega))]
      rw [iterate_derivative_C_mul, iterate_derivative_sub, iterate_derivative_C_mul, iterate_derivative_C_mul]
      simp only [eval_mul, eval_sub, eval_C, DkBp]
      rw [ih m i (fun a b h1 h2 h3 => hmono a b h1 h2 (by push_cast; omega)),
        ih m (i+1) (fun a b h1 h2 h3 => hmono a b (by omega) h2 (by push_cast; omega))]
      ring

end PsV
