import PsV.Model.Permute
import Mathlib.Data.List.Perm.Subperm
import Mathlib.Algebra.BigOperators.Group.Finset.Basic
import Mathlib.Algebra.Ring.Defs
/-! Helper lemmas for C15 (permuteDimensions): validation, inverse permutation, mixed-radix index
arithmetic, scatter loop. -/
namespace PsV.Permute

/-- `p` lists every index `0..n-1` exactly once -/
def IsPerm (n : Nat) (p : List Nat) : Prop := p.Perm (List.range n)

/-- `r` undoes `p`: `r[p[k]] = k` -/
def Inv (n : Nat) (p r : List Nat) : Prop := ∀ k < n, r.getD (p.getD k 0) 0 = k

theorem IsPerm.length {n p} (h : IsPerm n p) : p.length = n := by
  have := h.length_eq; simpa using this

theorem IsPerm.lt {n p} (h : IsPerm n p) {j} (hj : j ∈ p) : j < n := by
  have := (h.mem_iff (a := j)).1 hj; simpa using this

theorem IsPerm.mem {n p} (h : IsPerm n p) {j} (hj : j < n) : j ∈ p :=
  (h.mem_iff (a := j)).2 (by simpa using hj)

theorem IsPerm.nodup {n p} (h : IsPerm n p) : p.Nodup :=
  (h.nodup_iff).2 List.nodup_range

theorem isPerm_iff {n p} : IsPerm n p ↔ p.length = n ∧ (∀ j ∈ p, j < n) ∧ p.Nodup := by
  constructor
  · intro h; exact ⟨h.length, fun j hj => h.lt hj, h.nodup⟩
  · rintro ⟨hl, hlt, hnd⟩
    refine (List.subperm_of_subset hnd ?_).perm_of_length_le (by simp [hl])
    intro j hj; simpa using hlt j hj

theorem IsPerm.getD_lt {n p} (h : IsPerm n p) {k} (hk : k < n) : p.getD k 0 < n := by
  have hl := h.length
  have : p.getD k 0 = p[k]'(by omega) := by simp [List.getD_eq_getElem?_getD, hl, hk]
  rw [this]; exact h.lt (List.getElem_mem _)

theorem IsPerm.surj {n p} (h : IsPerm n p) {j} (hj : j < n) : ∃ k < n, p.getD k 0 = j := by
  obtain ⟨k, hk, hkj⟩ := List.getElem_of_mem (h.mem hj)
  refine ⟨k, by rw [← h.length]; exact hk, ?_⟩
  simp [List.getD_eq_getElem?_getD, hk, hkj]

theorem IsPerm.inj {n p} (h : IsPerm n p) {a b} (ha : a < n) (hb : b < n)
    (hab : p.getD a 0 = p.getD b 0) : a = b := by
  have hl := h.length
  have ha' : a < p.length := by omega
  have hb' : b < p.length := by omega
  simp only [List.getD_eq_getElem?_getD, List.getElem?_eq_getElem ha', List.getElem?_eq_getElem hb',
    Option.getD_some] at hab
  exact (List.Nodup.getElem_inj_iff h.nodup).1 hab

/-- a left inverse of a permutation is a right inverse -/
theorem Inv.symm {n p r} (hp : IsPerm n p) (h : Inv n p r) : Inv n r p := by
  intro i hi
  obtain ⟨k, hk, hki⟩ := hp.surj hi
  rw [← hki, h k hk]

theorem Inv.isPerm {n p r} (hp : IsPerm n p) (hr : r.length = n) (h : Inv n p r) : IsPerm n r := by
  have hs := h.symm hp
  rw [isPerm_iff]
  refine ⟨hr, ?_, ?_⟩
  · intro j hj
    obtain ⟨i, hi, hij⟩ := List.getElem_of_mem hj
    have hi' : i < n := by omega
    obtain ⟨k, hk, hki⟩ := hp.surj hi'
    have := h k hk
    rw [hki] at this
    simp only [List.getD_eq_getElem?_getD, List.getElem?_eq_getElem hi, Option.getD_some, hij] at this
    omega
  · rw [List.nodup_iff_injective_getElem]
    intro ⟨a, ha⟩ ⟨b, hb⟩ hab
    simp only at hab
    have ha' : a < n := by omega
    have hb' : b < n := by omega
    have h1 := hs a ha'
    have h2 := hs b hb'
    simp only [List.getD_eq_getElem?_getD (l := r), List.getElem?_eq_getElem ha, List.getElem?_eq_getElem hb,
      Option.getD_some] at h1 h2
    rw [hab] at h1
    exact Fin.ext (by simp only; omega)

/-! ## validation block -/

theorem validateLoop_ok_of (n : Nat) : ∀ (perm : List Nat) (test : List Bool), test.length = n →
    (∀ j ∈ perm, j < n) → perm.Nodup → (∀ j ∈ perm, test.getD j false = false) →
    ∃ test', validateLoop n perm test = .ok test' ∧ test'.length = n ∧
      ∀ j, test'.getD j false = (test.getD j false || (decide (j ∈ perm) && decide (j < n)))
  | [], test, hl, _, _, _ => ⟨test, rfl, hl, by simp⟩
  | j :: rest, test, hl, hlt, hnd, hf => by
    have hj : j < n := hlt j (by simp)
    have hjf : test.getD j false = false := hf j (by simp)
    obtain ⟨hjr, hnd'⟩ := List.nodup_cons.1 hnd
    obtain ⟨t', ht', hl', hg⟩ := validateLoop_ok_of n rest (test.set j true) (by simp [hl])
      (fun i hi => hlt i (by simp [hi])) hnd'
      (fun i hi => by
        have hne : j ≠ i := fun e => hjr (e ▸ hi)
        have := hf i (by simp [hi])
        simp only [List.getD_eq_getElem?_getD, List.getElem?_set, hne, if_false] at this ⊢
        exact this)
    refine ⟨t', ?_, hl', ?_⟩
    · simp only [validateLoop, ge_iff_le, Nat.not_le.2 hj, if_false, hjf, Bool.false_eq_true]
      exact ht'
    · intro i
      rw [hg i]
      simp only [List.getD_eq_getElem?_getD, List.getElem?_set, List.mem_cons]
      by_cases hji : j = i
      · subst hji
        simp [hl, hj]
      · have : ¬ i = j := fun e => hji e.symm
        simp [hji, this]

theorem validateLoop_ok_imp (n : Nat) : ∀ (perm : List Nat) (test test' : List Bool), test.length = n →
    validateLoop n perm test = .ok test' →
    (∀ j ∈ perm, j < n) ∧ perm.Nodup ∧ (∀ j ∈ perm, test.getD j false = false)
  | [], _, _, _, _ => by simp
  | j :: rest, test, test', hl, h => by
    simp only [validateLoop, ge_iff_le, List.getD_eq_getElem?_getD] at h
    by_cases hj : n ≤ j
    · simp [hj] at h
    · simp only [hj, if_false] at h
      by_cases hd : test[j]?.getD false = true
      · simp [hd] at h
      · simp only [hd, if_false] at h
        have hdf : test.getD j false = false := by simpa [List.getD_eq_getElem?_getD] using hd
        obtain ⟨h1, h2, h3⟩ := validateLoop_ok_imp n rest _ _ (by simp [hl]) h
        have hjn : j < n := Nat.lt_of_not_le hj
        have hjr : j ∉ rest := by
          intro hmem
          have := h3 j hmem
          simp [List.getD_eq_getElem?_getD, List.getElem?_set, hl, hjn] at this
        refine ⟨?_, List.nodup_cons.2 ⟨hjr, h2⟩, ?_⟩
        · intro i hi
          rcases List.mem_cons.1 hi with e | e
          · exact e ▸ hjn
          · exact h1 i e
        · intro i hi
          rcases List.mem_cons.1 hi with e | e
          · exact e ▸ hdf
          · have hne : j ≠ i := fun e' => hjr (e' ▸ e)
            have := h3 i e
            simpa [List.getD_eq_getElem?_getD, List.getElem?_set, hne] using this

theorem validateLoop_not_missing (n : Nat) : ∀ (perm : List Nat) (test : List Bool),
    validateLoop n perm test ≠ .error .missing ∧ validateLoop n perm test ≠ .error .wrongNumber
  | [], _ => by simp [validateLoop]
  | j :: rest, test => by
    simp only [validateLoop]
    split
    · simp
    · split
      · simp
      · exact validateLoop_not_missing n rest _

theorem validate_eq_none_iff (n : Nat) (perm : List Nat) : validate n perm = none ↔ IsPerm n perm := by
  rw [isPerm_iff]
  unfold validate
  constructor
  · intro h
    by_cases hl : perm.length = n
    · simp only [hl, ne_eq, not_true_eq_false, if_false] at h
      cases hv : validateLoop n perm (List.replicate n false) with
      | error e => simp [hv] at h
      | ok t =>
        obtain ⟨h1, h2, _⟩ := validateLoop_ok_imp n perm _ _ (by simp) hv
        exact ⟨hl, h1, h2⟩
    · simp [hl] at h
  · rintro ⟨hl, hlt, hnd⟩
    obtain ⟨t, ht, htl, hg⟩ := validateLoop_ok_of n perm (List.replicate n false) (by simp) hlt hnd
      (by intro j _; simp only [List.getD_eq_getElem?_getD, List.getElem?_replicate]; split <;> simp)
    have hp : IsPerm n perm := isPerm_iff.2 ⟨hl, hlt, hnd⟩
    simp only [hl, ne_eq, not_true_eq_false, if_false, ht]
    have : t.all id = true := by
      rw [List.all_eq_true]
      intro x hx
      obtain ⟨i, hi, hix⟩ := List.getElem_of_mem hx
      have := hg i
      simp only [List.getD_eq_getElem?_getD, List.getElem?_eq_getElem hi, Option.getD_some, hix] at this
      have hin : i < n := by omega
      simp [this, hp.mem hin, hin]
    simp [this]

/-- the fourth `throw` ("Missing index") is dead code: a vector of `ndim` indices below `ndim`
without a repetition already contains every index -/
theorem validate_ne_missing (n : Nat) (perm : List Nat) : validate n perm ≠ some .missing := by
  intro h
  unfold validate at h
  by_cases hl : perm.length = n
  · simp only [hl, ne_eq, not_true_eq_false, if_false] at h
    cases hv : validateLoop n perm (List.replicate n false) with
    | error e =>
      simp only [hv, Option.some.injEq] at h
      exact (validateLoop_not_missing n perm _).1 (h ▸ hv)
    | ok t =>
      obtain ⟨h1, h2, _⟩ := validateLoop_ok_imp n perm _ _ (by simp) hv
      have := (validate_eq_none_iff n perm).2 (isPerm_iff.2 ⟨hl, h1, h2⟩)
      unfold validate at this
      simp only [hl, ne_eq, not_true_eq_false, if_false, hv] at this h
      rw [this] at h; cases h
  · simp [hl] at h

/-! ## inverse permutation loop -/

theorem ipermLoop_length : ∀ (rest : List Nat) (i : Nat) (acc : List Nat),
    (ipermLoop rest i acc).length = acc.length
  | [], _, _ => rfl
  | j :: rest, i, acc => by simp [ipermLoop, ipermLoop_length rest]

theorem ipermLoop_not_mem : ∀ (rest : List Nat) (i : Nat) (acc : List Nat) (j : Nat), j ∉ rest →
    (ipermLoop rest i acc)[j]? = acc[j]?
  | [], _, _, _, _ => rfl
  | a :: rest, i, acc, j, h => by
    have h1 : a ≠ j := fun e => h (by simp [e])
    have h2 : j ∉ rest := fun e => h (by simp [e])
    simp [ipermLoop, ipermLoop_not_mem rest _ _ j h2, List.getElem?_set, h1]

theorem ipermLoop_spec : ∀ (rest : List Nat) (i : Nat) (acc : List Nat), rest.Nodup →
    (∀ j ∈ rest, j < acc.length) → ∀ k (hk : k < rest.length), (ipermLoop rest i acc)[rest[k]]? = some (i + k)
  | [], _, _, _, _, k, hk => by simp at hk
  | a :: rest, i, acc, hnd, hlt, k, hk => by
    obtain ⟨har, hnd'⟩ := List.nodup_cons.1 hnd
    cases k with
    | zero =>
      simp only [ipermLoop, List.getElem_cons_zero, Nat.add_zero]
      rw [ipermLoop_not_mem rest _ _ a har]
      simp [List.getElem?_set, hlt a (by simp)]
    | succ k =>
      simp only [ipermLoop, List.getElem_cons_succ]
      have := ipermLoop_spec rest (i+1) (acc.set a i) hnd' (by intro j hj; simpa using hlt j (by simp [hj])) k
        (by simpa using hk)
      rw [this]; congr 1; omega

theorem iperm_length (n : Nat) (p : List Nat) : (iperm n p).length = n := by
  simp [iperm, ipermLoop_length]

/-- the loop `iperm[permutation[i]] = i` computes the inverse permutation -/
theorem iperm_inv {n p} (h : IsPerm n p) : Inv n p (iperm n p) := by
  intro k hk
  have hl := h.length
  have hk' : k < p.length := by omega
  have := ipermLoop_spec p 0 (List.replicate n 0) h.nodup (by intro j hj; simpa using h.lt hj) k hk'
  simp only [iperm, List.getD_eq_getElem?_getD, List.getElem?_eq_getElem hk', Option.getD_some, this]
  omega

theorem iperm_isPerm {n p} (h : IsPerm n p) : IsPerm n (iperm n p) :=
  (iperm_inv h).isPerm h (iperm_length n p)

/-! ## gather / copyN -/

theorem gather_length {α} (d : α) (a : List α) (p : List Nat) : (gather d a p).length = p.length := by
  simp [gather]

theorem gather_getElem? {α} (d : α) (a : List α) (p : List Nat) (k : Nat) :
    (gather d a p)[k]? = p[k]?.map fun j => a.getD j d := by
  simp [gather]

theorem gather_getD {α} (d : α) (a : List α) {n} {p : List Nat} (hp : IsPerm n p) (ha : a.length = n)
    {k} (hk : k < n) : (gather d a p).getD k d = a.getD (p.getD k 0) d := by
  have hl := hp.length
  have hk' : k < p.length := by omega
  simp [List.getD_eq_getElem?_getD, gather_getElem?, List.getElem?_eq_getElem hk']

theorem copyN_eq {α} (a b : List α) (n : Nat) (ha : a.length = n) (hb : b.length = n) : copyN a n b = a := by
  subst ha
  unfold copyN
  rw [List.take_length, List.drop_eq_nil_of_le (by omega), List.append_nil]

theorem gather_range {α} (d : α) (a : List α) : gather d a (List.range a.length) = a := by
  apply List.ext_getElem?
  intro i
  simp only [gather_getElem?, List.getElem?_range]
  by_cases hi : i < a.length
  · simp [hi, List.getD_eq_getElem?_getD]
  · simp [hi]

theorem gather_perm {α} (d : α) (a : List α) {n p} (hp : IsPerm n p) (ha : a.length = n) :
    (gather d a p).Perm a := by
  have : (gather d a p).Perm (gather d a (List.range n)) := by
    unfold gather; exact List.Perm.map _ hp
  rw [← ha, gather_range] at this; exact this

/-- `gather` with `p` then with `q` is the identity when `p[q[k]] = k` -/
theorem gather_gather {α} (d : α) (a : List α) {n p q} (hp : IsPerm n p) (hq : IsPerm n q) (ha : a.length = n)
    (hinv : Inv n q p) : gather d (gather d a p) q = a := by
  apply List.ext_getElem?
  intro i
  have hql := hq.length
  have hpl := hp.length
  by_cases hi : i < n
  · have hi' : i < q.length := by omega
    have hqi : q[i] < n := hq.lt (List.getElem_mem _)
    have hqi' : q[i] < p.length := by omega
    have := hinv i hi
    simp only [List.getD_eq_getElem?_getD, List.getElem?_eq_getElem hi', Option.getD_some,
      List.getElem?_eq_getElem hqi'] at this
    simp only [gather_getElem?, List.getElem?_eq_getElem hi', Option.map_some, List.getD_eq_getElem?_getD,
      List.getElem?_eq_getElem hqi', this]
    have hia : i < a.length := by omega
    simp [List.getElem?_eq_getElem hia]
  · have h1 : q.length ≤ i := by omega
    have h2 : a.length ≤ i := by omega
    simp [gather_getElem?, List.getElem?_eq_none h1, List.getElem?_eq_none h2]

/-! ## products and row-major strides -/

theorem prodL_perm {a b : List Nat} (h : a.Perm b) : prodL a = prodL b := by
  induction h with
  | nil => rfl
  | cons x _ ih => simp [prodL, ih]
  | swap x y l => simp only [prodL]; rw [← Nat.mul_assoc, ← Nat.mul_assoc, Nat.mul_comm y x]
  | trans _ _ ih1 ih2 => exact ih1.trans ih2

theorem prodL_append (a b : List Nat) : prodL (a ++ b) = prodL a * prodL b := by
  induction a with
  | nil => simp [prodL]
  | cons x a ih => simp [prodL, ih, Nat.mul_assoc]

theorem prodL_reverse (a : List Nat) : prodL a.reverse = prodL a :=
  prodL_perm (List.reverse_perm a)

/-- row-major (C order) strides: the stride of an axis is the product of the later axis lengths -/
def rowMajor : List Nat → List Nat
  | [] => []
  | _ :: ns => prodL ns :: rowMajor ns

theorem rowMajor_length (ns : List Nat) : (rowMajor ns).length = ns.length := by
  induction ns with
  | nil => rfl
  | cons _ ns ih => simp [rowMajor, ih]

theorem partialProducts_append (l : List Nat) (x acc : Nat) :
    partialProducts (l ++ [x]) acc = partialProducts l acc ++ [acc * prodL l * x] := by
  induction l generalizing acc with
  | nil => simp [partialProducts, prodL]
  | cons y l ih => simp [partialProducts, prodL, ih, Nat.mul_assoc]

theorem rowMajor_reverse (a : Nat) (ns : List Nat) :
    (rowMajor (a :: ns)).reverse = 1 :: partialProducts ns.reverse 1 := by
  induction ns generalizing a with
  | nil => simp [rowMajor, partialProducts, prodL]
  | cons b ns ih =>
    have := ih b
    rw [rowMajor, List.reverse_cons, this, List.reverse_cons, partialProducts_append, prodL_reverse]
    simp [prodL, Nat.mul_comm]

/-- the `partial_sum`/`reverse` computation of the new strides gives the row-major strides -/
theorem newStrides_eq (ns : List Nat) (h : ns ≠ []) : newStrides ns = rowMajor ns := by
  cases ns with
  | nil => exact absurd rfl h
  | cons a ns =>
    unfold newStrides
    rw [List.drop_one, List.tail_cons, ← rowMajor_reverse a ns, List.reverse_reverse]

theorem rowMajor_head_mul (a : Nat) (ns : List Nat) :
    (rowMajor (a :: ns)).getD 0 0 * (a :: ns).getD 0 0 = prodL (a :: ns) := by
  simp [rowMajor, prodL, Nat.mul_comm]

/-! ## mixed-radix digits -/

/-- `pos / stride_k % n_k` for every axis, strides row-major -/
def digits : List Nat → Nat → List Nat
  | [], _ => []
  | n :: ns, pos => (pos / prodL ns % n) :: digits ns pos

/-- `Σ idx_k * stride_k`, strides row-major -/
def flat : List Nat → List Nat → Nat
  | _ :: ns, i :: is => i * prodL ns + flat ns is
  | _, _ => 0

/-- a multi-index inside the coefficient grid -/
def InBox (idx ns : List Nat) : Prop := idx.length = ns.length ∧ ∀ k < ns.length, idx.getD k 0 < ns.getD k 0

theorem inBox_cons {i n : Nat} {is ns : List Nat} : InBox (i :: is) (n :: ns) ↔ i < n ∧ InBox is ns := by
  constructor
  · rintro ⟨hl, h⟩
    refine ⟨by simpa using h 0 (by simp), by simpa using hl, ?_⟩
    intro k hk
    simpa using h (k+1) (by simpa using hk)
  · rintro ⟨hi, hl, h⟩
    refine ⟨by simp [hl], ?_⟩
    intro k hk
    cases k with
    | zero => simpa using hi
    | succ k => simpa using h k (by simpa using hk)

theorem digits_length (ns : List Nat) (pos : Nat) : (digits ns pos).length = ns.length := by
  induction ns with
  | nil => rfl
  | cons _ ns ih => simp [digits, ih]

theorem digit_shift (s n M i r : Nat) (h : s * n ∣ M) : (M * i + r) / s % n = r / s % n := by
  obtain ⟨q, rfl⟩ := h
  rcases Nat.eq_zero_or_pos s with rfl | hs
  · simp
  · have : s * n * q * i + r = s * (n * (q * i)) + r := by
      simp only [Nat.mul_assoc]
    rw [this, Nat.mul_add_div hs, Nat.mul_add_mod]

theorem digits_shift (ns : List Nat) (M i r : Nat) (h : prodL ns ∣ M) :
    digits ns (M * i + r) = digits ns r := by
  induction ns with
  | nil => rfl
  | cons n ns ih =>
    simp only [digits, prodL] at h ⊢
    rw [digit_shift _ _ _ _ _ (by rwa [Nat.mul_comm] at h), ih (Dvd.dvd.trans (Dvd.intro_left _ rfl) h)]

theorem flat_lt : ∀ (idx ns : List Nat), InBox idx ns → flat ns idx < prodL ns
  | [], [], _ => by simp [flat, prodL]
  | [], _ :: _, h => by simp [InBox] at h
  | _ :: _, [], h => by simp [InBox] at h
  | i :: is, n :: ns, h => by
    obtain ⟨hi, hr⟩ := inBox_cons.1 h
    have ih := flat_lt is ns hr
    simp only [flat, prodL]
    calc i * prodL ns + flat ns is < i * prodL ns + prodL ns := by omega
      _ = (i + 1) * prodL ns := by rw [Nat.add_mul, Nat.one_mul]
      _ ≤ n * prodL ns := Nat.mul_le_mul_right _ hi

theorem digits_flat : ∀ (idx ns : List Nat), InBox idx ns → digits ns (flat ns idx) = idx
  | [], [], _ => rfl
  | [], _ :: _, h => by simp [InBox] at h
  | _ :: _, [], h => by simp [InBox] at h
  | i :: is, n :: ns, h => by
    obtain ⟨hi, hr⟩ := inBox_cons.1 h
    have hlt := flat_lt is ns hr
    have ih := digits_flat is ns hr
    simp only [flat, digits]
    have hP : 0 < prodL ns := by omega
    congr 1
    · rw [Nat.mul_comm, Nat.mul_add_div hP, Nat.div_eq_of_lt hlt, Nat.add_zero, Nat.mod_eq_of_lt hi]
    · rw [Nat.mul_comm, digits_shift ns _ _ _ (Nat.dvd_refl _), ih]

theorem flat_digits : ∀ (ns : List Nat) (pos : Nat), pos < prodL ns → flat ns (digits ns pos) = pos
  | [], pos, h => by simp only [prodL] at h; simp only [flat]; omega
  | n :: ns, pos, h => by
    simp only [prodL] at h
    simp only [flat, digits]
    have hP : 0 < prodL ns := by
      rcases Nat.eq_zero_or_pos (prodL ns) with h0 | h0
      · rw [h0] at h; omega
      · exact h0
    have h1 : pos / prodL ns < n := by
      rw [Nat.div_lt_iff_lt_mul hP]; exact h
    have h2 : digits ns pos = digits ns (pos % prodL ns) := by
      conv_lhs => rw [← Nat.div_add_mod pos (prodL ns)]
      exact digits_shift ns _ _ _ (Nat.dvd_refl _)
    rw [Nat.mod_eq_of_lt h1, h2, flat_digits ns _ (Nat.mod_lt _ hP)]
    rw [Nat.mul_comm]; exact Nat.div_add_mod _ _

theorem digits_inBox : ∀ (ns : List Nat) (pos : Nat), 0 < prodL ns → InBox (digits ns pos) ns
  | [], _, _ => by simp [InBox, digits]
  | n :: ns, pos, h => by
    simp only [prodL] at h
    have hn : 0 < n := Nat.pos_of_mul_pos_right h
    have hP : 0 < prodL ns := Nat.pos_of_mul_pos_left h
    simp only [digits]
    exact inBox_cons.2 ⟨Nat.mod_lt _ hn, digits_inBox ns pos hP⟩

/-! ## the position formula of the relocation loop -/

/-- `Σ d_i * w_i` -/
def wsum : List Nat → List Nat → Nat
  | a :: as, b :: bs => a * b + wsum as bs
  | _, _ => 0

theorem flat_eq_wsum : ∀ (ns idx : List Nat), flat ns idx = wsum idx (rowMajor ns)
  | [], [] => rfl
  | [], _ :: _ => rfl
  | _ :: _, [] => rfl
  | _ :: ns, i :: is => by simp [flat, wsum, rowMajor, flat_eq_wsum ns is]

theorem npos_eq_wsum (ts : List Nat) (pos : Nat) : ∀ (ns ks : List Nat), ks.length = ns.length →
    npos ts (rowMajor ns) ns ks pos = wsum (digits ns pos) (ks.map fun k => ts.getD k 0)
  | [], [], _ => rfl
  | [], _ :: _, h => by simp at h
  | _ :: _, [], h => by simp at h
  | n :: ns, k :: ks, h => by
    simp only [rowMajor, npos, digits, List.map_cons, wsum]
    rw [npos_eq_wsum ts pos ns ks (by simpa using h)]

theorem wsum_eq_sum : ∀ (n : Nat) (d w : List Nat), d.length = n → w.length = n →
    wsum d w = ((List.range n).map fun i => d.getD i 0 * w.getD i 0).sum
  | 0, [], [], _, _ => rfl
  | n+1, a :: d, b :: w, hd, hw => by
    rw [List.range_succ_eq_map, List.map_cons, List.map_map, List.sum_cons, wsum,
      wsum_eq_sum n d w (by simpa using hd) (by simpa using hw)]
    rfl
  | 0, _ :: _, _, h, _ => by simp at h
  | 0, [], _ :: _, _, h => by simp at h
  | _+1, [], _, h, _ => by simp at h
  | _+1, _ :: _, [], _, h => by simp at h

theorem map_range_getD {α} (g : Nat → α) (p : List Nat) :
    (List.range p.length).map (fun k => g (p.getD k 0)) = p.map g := by
  apply List.ext_getElem?
  intro i
  by_cases hi : i < p.length
  · simp [List.getElem?_range, hi, List.getD_eq_getElem?_getD]
  · simp [hi, List.getElem?_eq_none (Nat.le_of_not_lt hi)]

/-- re-indexing `Σ_i d_i·w[ip_i] = Σ_k d[p_k]·w_k` along the permutation -/
theorem wsum_reindex {n : Nat} {p ip : List Nat} (hp : IsPerm n p) (hipl : ip.length = n) (hinv : Inv n p ip)
    (d w : List Nat) (hd : d.length = n) (hw : w.length = n) :
    wsum d (ip.map fun k => w.getD k 0) = wsum (gather 0 d p) w := by
  have hpl := hp.length
  rw [wsum_eq_sum n _ _ hd (by simpa using hipl), wsum_eq_sum n _ _ (by simp [gather_length, hpl]) hw]
  let g : Nat → Nat := fun i => d.getD i 0 * w.getD (ip.getD i 0) 0
  have h1 : ((List.range n).map fun i => d.getD i 0 * (ip.map fun k => w.getD k 0).getD i 0)
      = (List.range n).map g := by
    apply List.map_congr_left
    intro i hi
    have hi' : i < ip.length := by simpa [hipl] using hi
    simp [g, List.getD_eq_getElem?_getD, List.getElem?_eq_getElem hi']
  have h2 : ((List.range n).map fun k => (gather 0 d p).getD k 0 * w.getD k 0)
      = (List.range n).map (fun k => g (p.getD k 0)) := by
    apply List.map_congr_left
    intro k hk
    have hk' : k < n := by simpa using hk
    simp only [g]
    rw [gather_getD 0 d hp hd hk', hinv k hk']
  rw [h1, h2, ← hpl, map_range_getD g p, hpl]
  exact (List.Perm.map g hp).sum_nat.symm

/-- position formula in terms of digits: relabel the digits, flatten with the new axis lengths -/
theorem npos_eq_flat {n : Nat} {p ip : List Nat} (hp : IsPerm n p) (hipl : ip.length = n) (hinv : Inv n p ip)
    (ns : List Nat) (hns : ns.length = n) (pos : Nat) :
    npos (rowMajor (gather 0 ns p)) (rowMajor ns) ns ip pos
      = flat (gather 0 ns p) (gather 0 (digits ns pos) p) := by
  rw [npos_eq_wsum _ _ _ _ (by omega), flat_eq_wsum]
  exact wsum_reindex hp hipl hinv _ _ (by simp [digits_length, hns])
    (by simp [rowMajor_length, gather_length, hp.length])

theorem inBox_gather {n : Nat} {p : List Nat} (hp : IsPerm n p) {idx ns : List Nat} (hns : ns.length = n)
    (h : InBox idx ns) : InBox (gather 0 idx p) (gather 0 ns p) := by
  obtain ⟨hl, hb⟩ := h
  refine ⟨by simp [gather_length], ?_⟩
  intro k hk
  have hk' : k < n := by simpa [gather_length, hp.length] using hk
  rw [gather_getD 0 idx hp (by omega) hk', gather_getD 0 ns hp hns hk']
  exact hb _ (by rw [hns]; exact hp.getD_lt hk')

theorem prodL_gather {n : Nat} {p : List Nat} (hp : IsPerm n p) {ns : List Nat} (hns : ns.length = n) :
    prodL (gather 0 ns p) = prodL ns := prodL_perm (gather_perm 0 ns hp hns)

/-- the map `pos ↦ npos` the routine computes for (row-major) axis lengths `ns` and argument `p` -/
def nposOf (ns p : List Nat) (pos : Nat) : Nat :=
  npos (rowMajor (gather 0 ns p)) (rowMajor ns) ns (iperm ns.length p) pos

theorem nposOf_eq {n : Nat} {p : List Nat} (hp : IsPerm n p) {ns : List Nat} (hns : ns.length = n) (pos : Nat) :
    nposOf ns p pos = flat (gather 0 ns p) (gather 0 (digits ns pos) p) := by
  unfold nposOf
  rw [hns]
  exact npos_eq_flat hp (iperm_length n p) (iperm_inv hp) ns hns pos

theorem nposOf_lt {n : Nat} {p : List Nat} (hp : IsPerm n p) {ns : List Nat} (hns : ns.length = n) {pos : Nat}
    (h : pos < prodL ns) : nposOf ns p pos < prodL ns := by
  rw [nposOf_eq hp hns, ← prodL_gather hp hns]
  exact flat_lt _ _ (inBox_gather hp hns (digits_inBox ns pos (by omega)))

theorem digits_nposOf {n : Nat} {p : List Nat} (hp : IsPerm n p) {ns : List Nat} (hns : ns.length = n) {pos : Nat}
    (h : pos < prodL ns) : digits (gather 0 ns p) (nposOf ns p pos) = gather 0 (digits ns pos) p := by
  rw [nposOf_eq hp hns]
  exact digits_flat _ _ (inBox_gather hp hns (digits_inBox ns pos (by omega)))

/-- relocating with `p` and then with a `q` such that `p[q[k]] = k` brings every position back -/
theorem nposOf_roundtrip {n : Nat} {p q : List Nat} (hp : IsPerm n p) (hq : IsPerm n q) (hinv : Inv n q p)
    {ns : List Nat} (hns : ns.length = n) {pos : Nat} (h : pos < prodL ns) :
    nposOf (gather 0 ns p) q (nposOf ns p pos) = pos := by
  have htn : (gather 0 ns p).length = n := by simp [gather_length, hp.length]
  rw [nposOf_eq hq htn, digits_nposOf hp hns h, gather_gather 0 ns hp hq hns hinv,
    gather_gather 0 _ hp hq (by simp [digits_length, hns]) hinv]
  exact flat_digits ns pos h

/-! ## scatter loop -/

theorem scatterLoop_length {C} (f : Nat → Nat) : ∀ (cs : List C) (pos : Nat) (acc : List C),
    (scatterLoop f cs pos acc).length = acc.length
  | [], _, _ => rfl
  | c :: cs, pos, acc => by simp [scatterLoop, scatterLoop_length f cs]

theorem scatterLoop_not_hit {C} (f : Nat → Nat) (j : Nat) : ∀ (cs : List C) (pos : Nat) (acc : List C),
    (∀ k < cs.length, f (pos + k) ≠ j) → (scatterLoop f cs pos acc)[j]? = acc[j]?
  | [], _, _, _ => rfl
  | c :: cs, pos, acc, h => by
    have h0 : f pos ≠ j := by simpa using h 0 (by simp)
    have ih := scatterLoop_not_hit f j cs (pos+1) (acc.set (f pos) c) (by
      intro k hk
      have := h (k+1) (by simpa using hk)
      rwa [show pos + (k + 1) = pos + 1 + k by omega] at this)
    simp [scatterLoop, ih, List.getElem?_set, h0]

theorem scatterLoop_hit {C} (f : Nat → Nat) : ∀ (cs : List C) (pos : Nat) (acc : List C),
    (∀ a b, a < cs.length → b < cs.length → f (pos + a) = f (pos + b) → a = b) →
    (∀ k < cs.length, f (pos + k) < acc.length) →
    ∀ k (hk : k < cs.length), (scatterLoop f cs pos acc)[f (pos + k)]? = some cs[k]
  | [], _, _, _, _, k, hk => by simp at hk
  | c :: cs, pos, acc, hinj, hlt, k, hk => by
    cases k with
    | zero =>
      simp only [scatterLoop, Nat.add_zero, List.getElem_cons_zero]
      rw [scatterLoop_not_hit f (f pos) cs (pos+1) _ (by
        intro k hk' e
        have := hinj (k+1) 0 (by simpa using hk') (by simp) (by
          rw [show pos + (k + 1) = pos + 1 + k by omega]; simpa using e)
        omega)]
      have := hlt 0 (by simp)
      simp only [Nat.add_zero] at this
      simp [List.getElem?_set, this]
    | succ k =>
      simp only [scatterLoop, List.getElem_cons_succ]
      have := scatterLoop_hit f cs (pos+1) (acc.set (f pos) c) (by
          intro a b ha hb e
          have := hinj (a+1) (b+1) (by simpa using ha) (by simpa using hb) (by
            rw [show pos + (a + 1) = pos + 1 + a by omega, show pos + (b + 1) = pos + 1 + b by omega]; exact e)
          omega)
        (by
          intro j hj
          have := hlt (j+1) (by simpa using hj)
          rw [show pos + (j + 1) = pos + 1 + j by omega] at this
          simpa using this)
        k (by simpa using hk)
      rw [show pos + (k + 1) = pos + 1 + k by omega]
      exact this

/-! ## the routine on a well-formed table -/

variable {K E C : Type}

/-- the invariants of a table in memory that the routine relies on -/
structure PTable.WF (T : PTable K E C) : Prop where
  pos : 0 < T.ndim
  order : T.order.length = T.ndim
  naxes : T.naxes.length = T.ndim
  nknots : T.nknots.length = T.ndim
  knots : T.knots.length = T.ndim
  extents : T.extents.length = T.ndim
  periods : ∀ p, T.periods = some p → p.length = T.ndim
  strides : T.strides = rowMajor T.naxes
  coef : T.coef.length = prodL T.naxes

theorem permuteBody_eq [Inhabited K] [Inhabited E] (junk : C) {T : PTable K E C} (hT : T.WF) {p : List Nat}
    (hp : IsPerm T.ndim p) :
    permuteBody junk T p =
      { ndim := T.ndim
        order := gather 0 T.order p
        naxes := gather 0 T.naxes p
        strides := rowMajor (gather 0 T.naxes p)
        nknots := gather 0 T.nknots p
        knots := gather default T.knots p
        extents := gather default T.extents p
        periods := T.periods.map fun a => gather default a p
        coef := scatterLoop (nposOf T.naxes p) T.coef 0 (List.replicate (prodL T.naxes) junk) } := by
  have hpl := hp.length
  have hg : ∀ {α} (d : α) (a : List α), (gather d a p).length = T.ndim := by
    intro α d a; simp [gather_length, hpl]
  have hne : gather 0 T.naxes p ≠ [] := by
    intro e; have := hg 0 T.naxes; rw [e] at this; have := hT.pos; simp at *; omega
  have hnc : (rowMajor (gather 0 T.naxes p)).getD 0 0 * (gather 0 T.naxes p).getD 0 0 = prodL T.naxes := by
    rw [← prodL_gather hp hT.naxes]
    cases hc : gather 0 T.naxes p with
    | nil => exact absurd hc hne
    | cons a l => exact rowMajor_head_mul a l
  have hper : (T.periods.map fun a => copyN (gather default a p) T.ndim a)
      = T.periods.map fun a => gather default a p := by
    cases hpp : T.periods with
    | none => rfl
    | some a => simp [copyN_eq _ _ _ (hg default a) (hT.periods a hpp)]
  have hsl : (scatterLoop (nposOf T.naxes p) T.coef 0 (List.replicate (prodL T.naxes) junk)).length
      = prodL T.naxes := by simp [scatterLoop_length]
  unfold permuteBody
  simp only [newStrides_eq _ hne, hnc, hper]
  rw [copyN_eq _ _ _ (hg 0 T.order) hT.order, copyN_eq _ _ _ (hg 0 T.naxes) hT.naxes,
    copyN_eq _ _ _ (hg 0 T.nknots) hT.nknots, copyN_eq _ _ _ (hg default T.knots) hT.knots,
    copyN_eq _ _ _ (hg default T.extents) hT.extents,
    copyN_eq _ _ _ (by simp [rowMajor_length, hg]) (by rw [hT.strides, rowMajor_length, hT.naxes])]
  have htake : T.coef.take (prodL T.naxes) = T.coef := by rw [← hT.coef, List.take_length]
  have hnp : npos (rowMajor (gather 0 T.naxes p)) T.strides T.naxes (iperm T.ndim p) = nposOf T.naxes p := by
    funext pos; unfold nposOf; rw [hT.strides, hT.naxes]
  rw [htake, hnp, copyN_eq _ _ _ hsl hT.coef]

theorem permuteBody_WF [Inhabited K] [Inhabited E] (junk : C) {T : PTable K E C} (hT : T.WF) {p : List Nat}
    (hp : IsPerm T.ndim p) : (permuteBody junk T p).WF := by
  rw [permuteBody_eq junk hT hp]
  have hpl := hp.length
  refine ⟨hT.pos, ?_, ?_, ?_, ?_, ?_, ?_, rfl, ?_⟩
  · simp [gather_length, hpl]
  · simp [gather_length, hpl]
  · simp [gather_length, hpl]
  · simp [gather_length, hpl]
  · simp [gather_length, hpl]
  · intro a ha
    simp only [Option.map_eq_some_iff] at ha
    obtain ⟨b, _, rfl⟩ := ha
    simp [gather_length, hpl]
  · simp [scatterLoop_length, prodL_gather hp hT.naxes]

/-- injectivity of the position map on `[0, ncoeffs)` -/
theorem nposOf_inj {n : Nat} {p : List Nat} (hp : IsPerm n p) {ns : List Nat} (hns : ns.length = n) {a b : Nat}
    (ha : a < prodL ns) (hb : b < prodL ns) (h : nposOf ns p a = nposOf ns p b) : a = b := by
  have hq := iperm_isPerm hp
  have hinv : Inv n (iperm n p) p := (iperm_inv hp).symm hp
  rw [← nposOf_roundtrip hp hq hinv hns ha, ← nposOf_roundtrip hp hq hinv hns hb, h]

theorem coef_relocated_aux [Inhabited K] [Inhabited E] (junk : C) {T : PTable K E C} (hT : T.WF) {p : List Nat}
    (hp : IsPerm T.ndim p) {pos : Nat} (h : pos < prodL T.naxes) :
    (permuteBody junk T p).coef[nposOf T.naxes p pos]? = T.coef[pos]? := by
  rw [permuteBody_eq junk hT hp]
  have hk : pos < T.coef.length := by rw [hT.coef]; exact h
  have := scatterLoop_hit (nposOf T.naxes p) T.coef 0 (List.replicate (prodL T.naxes) junk)
    (by
      intro a b ha hb e
      simp only [Nat.zero_add] at e
      exact nposOf_inj hp hT.naxes (by rw [← hT.coef]; exact ha) (by rw [← hT.coef]; exact hb) e)
    (by
      intro k hk
      simp only [Nat.zero_add, List.length_replicate]
      exact nposOf_lt hp hT.naxes (by rw [← hT.coef]; exact hk))
    pos hk
  simp only [Nat.zero_add] at this
  simp only [this, List.getElem?_eq_getElem hk]

/-! ## evaluation as a sum over all coefficients -/

theorem digit_eq_digits : ∀ (ns : List Nat) (pos k : Nat), k < ns.length →
    pos / (rowMajor ns).getD k 0 % ns.getD k 0 = (digits ns pos).getD k 0
  | [], _, _, h => by simp at h
  | n :: ns, pos, 0, _ => by simp [rowMajor, digits]
  | n :: ns, pos, k+1, h => by
    have := digit_eq_digits ns pos k (by simpa using h)
    simpa [rowMajor, digits] using this

theorem prod_range_list {M} [CommMonoid M] (n : Nat) (G : Nat → M) :
    ∏ k ∈ Finset.range n, G k = ((List.range n).map G).prod := by
  induction n with
  | zero => simp
  | succ n ih => rw [Finset.prod_range_succ, ih, List.range_succ, List.map_append, List.prod_append]; simp

/-- a product over all axes does not depend on the order in which the axes are visited -/
theorem prod_range_perm {M} [CommMonoid M] {n : Nat} {p : List Nat} (hp : IsPerm n p) (G : Nat → M) :
    ∏ k ∈ Finset.range n, G (p.getD k 0) = ∏ k ∈ Finset.range n, G k := by
  rw [prod_range_list, prod_range_list]
  have := map_range_getD G p
  rw [hp.length] at this
  rw [this]
  exact (List.Perm.map G hp).prod_eq

/-- everything the table knows about one axis -/
structure AxisAttr (K E : Type) where
  order : Nat
  nknots : Nat
  naxes : Nat
  knots : K
  extent : E × E
  period : Option E

def PTable.axis [Inhabited K] [Inhabited E] (T : PTable K E C) (k : Nat) : AxisAttr K E :=
  ⟨T.order.getD k 0, T.nknots.getD k 0, T.naxes.getD k 0, T.knots.getD k default, T.extents.getD k default,
   T.periods.map fun a => a.getD k default⟩

theorem permuteBody_axis [Inhabited K] [Inhabited E] (junk : C) {T : PTable K E C} (hT : T.WF) {p : List Nat}
    (hp : IsPerm T.ndim p) {k : Nat} (hk : k < T.ndim) :
    (permuteBody junk T p).axis k = T.axis (p.getD k 0) := by
  rw [permuteBody_eq junk hT hp]
  unfold PTable.axis
  simp only
  rw [gather_getD 0 _ hp hT.order hk, gather_getD 0 _ hp hT.nknots hk, gather_getD 0 _ hp hT.naxes hk,
    gather_getD default _ hp hT.knots hk, gather_getD default _ hp hT.extents hk]
  cases hpp : T.periods with
  | none => rfl
  | some a => simp only [Option.map_some]; rw [gather_getD default a hp (hT.periods a hpp) hk]

/-- the spline as a sum over every stored coefficient of coefficient × product over the axes of a
per-axis basis value; `basis` may depend on everything the table stores about the axis (order, knot
vector, number of coefficients, extent, period), on the coordinate, and on the coefficient index
along the axis.  With `basis a x i` = the `i`-th B-spline of order `a.order` on `a.knots` at `x`
this is the meaning of evaluation (`PsV.specEval`). -/
def tensorEval {R X : Type} [CommSemiring R] [Inhabited K] [Inhabited E] (val : C → R)
    (basis : AxisAttr K E → X → Nat → R) (dc : C) (dx : X) (T : PTable K E C) (x : List X) : R :=
  ∑ pos ∈ Finset.range (prodL T.naxes), val (T.coef.getD pos dc) *
    ∏ k ∈ Finset.range T.ndim, basis (T.axis k) (x.getD k dx) (pos / T.strides.getD k 0 % T.naxes.getD k 0)

theorem tensorEval_permuteBody {R X : Type} [CommSemiring R] [Inhabited K] [Inhabited E] (val : C → R)
    (basis : AxisAttr K E → X → Nat → R) (dc : C) (dx : X) (junk : C) {T : PTable K E C} (hT : T.WF)
    {p : List Nat} (hp : IsPerm T.ndim p) (x : List X) (hx : x.length = T.ndim) :
    tensorEval val basis dc dx (permuteBody junk T p) (gather dx x p) = tensorEval val basis dc dx T x := by
  have hT' := permuteBody_WF junk hT hp
  have hq := iperm_isPerm hp
  have hinv1 : Inv T.ndim p (iperm T.ndim p) := iperm_inv hp
  have hinv2 : Inv T.ndim (iperm T.ndim p) p := hinv1.symm hp
  have hb : permuteBody junk T p = permuteBody junk T p := rfl
  have hna : (permuteBody junk T p).naxes = gather 0 T.naxes p := by rw [permuteBody_eq junk hT hp]
  have hnd : (permuteBody junk T p).ndim = T.ndim := by rw [permuteBody_eq junk hT hp]
  have hst : (permuteBody junk T p).strides = rowMajor (gather 0 T.naxes p) := by rw [permuteBody_eq junk hT hp]
  have htn : (gather 0 T.naxes p).length = T.ndim := by simp [gather_length, hp.length]
  symm
  unfold tensorEval
  rw [hna, hnd, hst, hT.strides]
  refine Finset.sum_nbij' (nposOf T.naxes p) (nposOf (gather 0 T.naxes p) (iperm T.ndim p)) ?_ ?_ ?_ ?_ ?_
  · intro a ha
    rw [Finset.mem_range] at ha ⊢
    rw [prodL_gather hp hT.naxes]; exact nposOf_lt hp hT.naxes ha
  · intro a ha
    rw [Finset.mem_range] at ha ⊢
    have := nposOf_lt hq htn ha
    rwa [prodL_gather hp hT.naxes] at this
  · intro a ha
    rw [Finset.mem_range] at ha
    exact nposOf_roundtrip hp hq hinv2 hT.naxes ha
  · intro a ha
    rw [Finset.mem_range] at ha
    have := nposOf_roundtrip hq hp hinv1 htn ha
    rwa [gather_gather 0 T.naxes hp hq hT.naxes hinv2] at this
  · intro a ha
    rw [Finset.mem_range] at ha
    have hc := coef_relocated_aux junk hT hp ha
    have hc' : (permuteBody junk T p).coef.getD (nposOf T.naxes p a) dc = T.coef.getD a dc := by
      simp only [List.getD_eq_getElem?_getD, hc]
    rw [hc']
    congr 1
    rw [← prod_range_perm hp]
    apply Finset.prod_congr rfl
    intro k hk
    rw [Finset.mem_range] at hk
    rw [permuteBody_axis junk hT hp hk, gather_getD dx x hp hx hk,
      digit_eq_digits (gather 0 T.naxes p) (nposOf T.naxes p a) k (by rw [htn]; exact hk),
      digits_nposOf hp hT.naxes ha,
      gather_getD 0 _ hp (by rw [digits_length, hT.naxes]) hk,
      digit_eq_digits T.naxes a (p.getD k 0) (by rw [hT.naxes]; exact hp.getD_lt hk)]

/-! ## field projections of the result, inverse, independence of the uninitialised buffer -/

section fields
variable [Inhabited K] [Inhabited E] (junk : C) {T : PTable K E C} (hT : T.WF) {p : List Nat}
  (hp : IsPerm T.ndim p)
include hT hp

theorem permuteBody_ndim : (permuteBody junk T p).ndim = T.ndim := by rw [permuteBody_eq junk hT hp]
theorem permuteBody_order : (permuteBody junk T p).order = gather 0 T.order p := by rw [permuteBody_eq junk hT hp]
theorem permuteBody_naxes : (permuteBody junk T p).naxes = gather 0 T.naxes p := by rw [permuteBody_eq junk hT hp]
theorem permuteBody_strides : (permuteBody junk T p).strides = rowMajor (gather 0 T.naxes p) := by
  rw [permuteBody_eq junk hT hp]
theorem permuteBody_nknots : (permuteBody junk T p).nknots = gather 0 T.nknots p := by rw [permuteBody_eq junk hT hp]
theorem permuteBody_knots : (permuteBody junk T p).knots = gather default T.knots p := by
  rw [permuteBody_eq junk hT hp]
theorem permuteBody_extents : (permuteBody junk T p).extents = gather default T.extents p := by
  rw [permuteBody_eq junk hT hp]
theorem permuteBody_periods : (permuteBody junk T p).periods = T.periods.map fun a => gather default a p := by
  rw [permuteBody_eq junk hT hp]
end fields

theorem PTable.ext' {A B : PTable K E C} (h1 : A.ndim = B.ndim) (h2 : A.order = B.order) (h3 : A.naxes = B.naxes)
    (h4 : A.strides = B.strides) (h5 : A.nknots = B.nknots) (h6 : A.knots = B.knots)
    (h7 : A.extents = B.extents) (h8 : A.periods = B.periods) (h9 : A.coef = B.coef) : A = B := by
  cases A; cases B; simp only [PTable.mk.injEq]; exact ⟨h1, h2, h3, h4, h5, h6, h7, h8, h9⟩

theorem permuteBody_inverse [Inhabited K] [Inhabited E] (junk : C) {T : PTable K E C} (hT : T.WF) {p q : List Nat}
    (hp : IsPerm T.ndim p) (hq : IsPerm T.ndim q) (hinv : Inv T.ndim q p) :
    permuteBody junk (permuteBody junk T p) q = T := by
  have hT' := permuteBody_WF junk hT hp
  have hnd := permuteBody_ndim junk hT hp
  have hq' : IsPerm (permuteBody junk T p).ndim q := by rw [hnd]; exact hq
  have hT'' := permuteBody_WF junk hT' hq'
  have hnax : (permuteBody junk (permuteBody junk T p) q).naxes = T.naxes := by
    rw [permuteBody_naxes junk hT' hq', permuteBody_naxes junk hT hp, gather_gather 0 _ hp hq hT.naxes hinv]
  apply PTable.ext'
  · rw [permuteBody_ndim junk hT' hq', hnd]
  · rw [permuteBody_order junk hT' hq', permuteBody_order junk hT hp, gather_gather 0 _ hp hq hT.order hinv]
  · exact hnax
  · rw [hT''.strides, hnax, hT.strides]
  · rw [permuteBody_nknots junk hT' hq', permuteBody_nknots junk hT hp, gather_gather 0 _ hp hq hT.nknots hinv]
  · rw [permuteBody_knots junk hT' hq', permuteBody_knots junk hT hp, gather_gather default _ hp hq hT.knots hinv]
  · rw [permuteBody_extents junk hT' hq', permuteBody_extents junk hT hp,
      gather_gather default _ hp hq hT.extents hinv]
  · rw [permuteBody_periods junk hT' hq', permuteBody_periods junk hT hp]
    cases hpp : T.periods with
    | none => rfl
    | some a => simp only [Option.map_some]; rw [gather_gather default _ hp hq (hT.periods a hpp) hinv]
  · apply List.ext_getElem?
    intro i
    by_cases hi : i < prodL T.naxes
    · have h1 := coef_relocated_aux junk hT hp hi
      have hlt : nposOf T.naxes p i < prodL (permuteBody junk T p).naxes := by
        rw [permuteBody_naxes junk hT hp, prodL_gather hp hT.naxes]; exact nposOf_lt hp hT.naxes hi
      have h2 := coef_relocated_aux junk hT' hq' hlt
      rw [permuteBody_naxes junk hT hp, nposOf_roundtrip hp hq hinv hT.naxes hi] at h2
      rw [h2, h1]
    · have l1 : (permuteBody junk (permuteBody junk T p) q).coef.length ≤ i := by
        rw [hT''.coef, hnax]; omega
      have l2 : T.coef.length ≤ i := by rw [hT.coef]; omega
      rw [List.getElem?_eq_none l1, List.getElem?_eq_none l2]

/-- no content of the uninitialised buffer `t_coefficients` reaches the table -/
theorem permuteBody_junk_irrelevant [Inhabited K] [Inhabited E] (j1 j2 : C) {T : PTable K E C} (hT : T.WF)
    {p : List Nat} (hp : IsPerm T.ndim p) : permuteBody j1 T p = permuteBody j2 T p := by
  have hq := iperm_isPerm hp
  have hinv1 : Inv T.ndim p (iperm T.ndim p) := iperm_inv hp
  have hinv2 : Inv T.ndim (iperm T.ndim p) p := hinv1.symm hp
  have htn : (gather 0 T.naxes p).length = T.ndim := by simp [gather_length, hp.length]
  apply PTable.ext'
  · rw [permuteBody_ndim j1 hT hp, permuteBody_ndim j2 hT hp]
  · rw [permuteBody_order j1 hT hp, permuteBody_order j2 hT hp]
  · rw [permuteBody_naxes j1 hT hp, permuteBody_naxes j2 hT hp]
  · rw [permuteBody_strides j1 hT hp, permuteBody_strides j2 hT hp]
  · rw [permuteBody_nknots j1 hT hp, permuteBody_nknots j2 hT hp]
  · rw [permuteBody_knots j1 hT hp, permuteBody_knots j2 hT hp]
  · rw [permuteBody_extents j1 hT hp, permuteBody_extents j2 hT hp]
  · rw [permuteBody_periods j1 hT hp, permuteBody_periods j2 hT hp]
  · apply List.ext_getElem?
    intro i
    by_cases hi : i < prodL T.naxes
    · -- `i` is the image of some position
      have hi' : i < prodL (gather 0 T.naxes p) := by rw [prodL_gather hp hT.naxes]; exact hi
      have hpre := nposOf_lt hq htn hi'
      rw [prodL_gather hp hT.naxes] at hpre
      have hrt := nposOf_roundtrip hq hp hinv1 htn hi'
      rw [gather_gather 0 T.naxes hp hq hT.naxes hinv2] at hrt
      have h1 := coef_relocated_aux j1 hT hp hpre
      have h2 := coef_relocated_aux j2 hT hp hpre
      rw [hrt] at h1 h2
      rw [h1, h2]
    · have l1 : (permuteBody j1 T p).coef.length ≤ i := by
        rw [(permuteBody_WF j1 hT hp).coef, permuteBody_naxes j1 hT hp, prodL_gather hp hT.naxes]; omega
      have l2 : (permuteBody j2 T p).coef.length ≤ i := by
        rw [(permuteBody_WF j2 hT hp).coef, permuteBody_naxes j2 hT hp, prodL_gather hp hT.naxes]; omega
      rw [List.getElem?_eq_none l1, List.getElem?_eq_none l2]

end PsV.Permute
