import PsV.Model.FitsCodec
/-!
# Round-trip theorems for the FITS byte codec (`PsV/Model/FitsBytes.lean`)

* big-endian words: `rd32_be32`, `rd64_be64`, `dec32_enc32`, `dec64_enc64`, `enc32_length`, `enc64_length`
* decimal text: `parseNat_natStr`, `parseInt_intStr`
* cards: `fmtCard_length`, `parseCard_fmtCard_plain` (fixed-format non-string values), the mandatory cards
  `structCards_RT`, and the classes the library writes: `cardRT_int`, `cardRT_string`, `cardRT_commentary`
* headers: `splitHeader_cards`, `parseStruct_structCards`
* file level: `decodeHdu_encodeHdu`, `decode_encode` under `HduOK` (pixel count = product of the axes, at most 999
  axes, axis lengths < 10^20, every *user* card satisfies `CardRT`); `exampleFits_ok` shows the hypotheses are
  satisfiable.

No definition of the model was changed.
-/
namespace PsV.Fits.Codec

/-! ## 1. big-endian words -/

theorem rd32_be32' (x : UInt32) :
    rd32 (UInt8.ofNat (x.toNat / 16777216)) (UInt8.ofNat (x.toNat / 65536 % 256))
      (UInt8.ofNat (x.toNat / 256 % 256)) (UInt8.ofNat (x.toNat % 256)) = x := by
  simp only [rd32]; have h := x.toNat_lt; apply UInt32.toNat_inj.mp
  simp only [UInt8.toNat_ofNat', UInt32.toNat_ofNat']; omega

theorem rd32_be32 (x : UInt32) : ∃ a b c d, be32 x = [a, b, c, d] ∧ rd32 a b c d = x :=
  ⟨_, _, _, _, rfl, rd32_be32' x⟩

theorem rd64_be64' (x : UInt64) :
    rd64 (UInt8.ofNat (x.toNat / 72057594037927936)) (UInt8.ofNat (x.toNat / 281474976710656 % 256))
      (UInt8.ofNat (x.toNat / 1099511627776 % 256)) (UInt8.ofNat (x.toNat / 4294967296 % 256))
      (UInt8.ofNat (x.toNat / 16777216 % 256)) (UInt8.ofNat (x.toNat / 65536 % 256))
      (UInt8.ofNat (x.toNat / 256 % 256)) (UInt8.ofNat (x.toNat % 256)) = x := by
  simp only [rd64]; have h := x.toNat_lt; apply UInt64.toNat_inj.mp
  simp only [UInt8.toNat_ofNat', UInt64.toNat_ofNat']
  generalize x.toNat = n at *
  -- nested divisions by 256 keep `omega` away from the large literals
  have e2 : n / 65536 = n / 256 / 256 := by simp only [Nat.div_div_eq_div_mul]
  have e3 : n / 16777216 = n / 256 / 256 / 256 := by simp only [Nat.div_div_eq_div_mul]
  have e4 : n / 4294967296 = n / 256 / 256 / 256 / 256 := by simp only [Nat.div_div_eq_div_mul]
  have e5 : n / 1099511627776 = n / 256 / 256 / 256 / 256 / 256 := by simp only [Nat.div_div_eq_div_mul]
  have e6 : n / 281474976710656 = n / 256 / 256 / 256 / 256 / 256 / 256 := by
    simp only [Nat.div_div_eq_div_mul]
  have e7 : n / 72057594037927936 = n / 256 / 256 / 256 / 256 / 256 / 256 / 256 := by
    simp only [Nat.div_div_eq_div_mul]
  rw [e2, e3, e4, e5, e6, e7]
  omega

theorem rd64_be64 (x : UInt64) :
    ∃ a b c d e f g h, be64 x = [a, b, c, d, e, f, g, h] ∧ rd64 a b c d e f g h = x :=
  ⟨_, _, _, _, _, _, _, _, rfl, rd64_be64' x⟩

theorem be32_length (x : UInt32) : (be32 x).length = 4 := rfl
theorem be64_length (x : UInt64) : (be64 x).length = 8 := rfl

theorem enc32_length (l : List UInt32) : (enc32 l).length = 4 * l.length := by
  induction l with
  | nil => rfl
  | cons x xs ih => simp only [enc32, List.length_append, be32_length, ih, List.length_cons]; omega

theorem enc64_length (l : List UInt64) : (enc64 l).length = 8 * l.length := by
  induction l with
  | nil => rfl
  | cons x xs ih => simp only [enc64, List.length_append, be64_length, ih, List.length_cons]; omega

theorem dec32_enc32 (l : List UInt32) (rest : Bytes) : dec32 l.length (enc32 l ++ rest) = some l := by
  induction l with
  | nil => rfl
  | cons x xs ih =>
    simp only [enc32, be32, List.length_cons, List.cons_append, List.nil_append, dec32, ih, rd32_be32',
      Option.map_some]

theorem dec64_enc64 (l : List UInt64) (rest : Bytes) : dec64 l.length (enc64 l ++ rest) = some l := by
  induction l with
  | nil => rfl
  | cons x xs ih =>
    simp only [enc64, be64, List.length_cons, List.cons_append, List.nil_append, dec64, ih, rd64_be64',
      Option.map_some]

/-! ## 2. decimal text -/

def digits : Str := ['0', '1', '2', '3', '4', '5', '6', '7', '8', '9']

theorem digitChar_mem (n : Nat) : digitChar n ∈ digits := by
  unfold digitChar; split <;> simp [digits]

theorem digitVal_digitChar : ∀ n, n < 10 → digitVal (digitChar n) = some n := by decide

theorem natStrF_digits : ∀ fuel n, ∀ c ∈ natStrF fuel n, c ∈ digits := by
  intro fuel
  induction fuel with
  | zero => intro n c h; simp [natStrF] at h
  | succ fuel ih =>
    intro n c h
    unfold natStrF at h
    split at h
    · simp only [List.mem_singleton] at h; subst h; exact digitChar_mem _
    · rcases List.mem_append.mp h with h | h
      · exact ih _ _ h
      · simp only [List.mem_singleton] at h; subst h; exact digitChar_mem _

theorem natStr_digits (n : Nat) : ∀ c ∈ natStr n, c ∈ digits := natStrF_digits _ _

theorem natStr_ne_nil (n : Nat) : natStr n ≠ [] := by
  unfold natStr natStrF; split <;> simp

theorem natStrF_length : ∀ fuel n k, 1 ≤ k → n < 10 ^ k → (natStrF fuel n).length ≤ k := by
  intro fuel
  induction fuel with
  | zero => intro n k _ _; simp [natStrF]
  | succ fuel ih =>
    intro n k hk hn
    unfold natStrF
    split
    · simpa using hk
    · rename_i h10
      match k, hk with
      | 1, _ => omega
      | k+2, _ =>
        have : n / 10 < 10 ^ (k+1) := by
          rw [Nat.div_lt_iff_lt_mul (by omega)]; rw [Nat.pow_succ] at hn; exact hn
        have := ih (n / 10) (k+1) (by omega) this
        simp only [List.length_append, List.length_cons, List.length_nil]; omega

theorem natStr_length (n k : Nat) (hk : 1 ≤ k) (hn : n < 10 ^ k) : (natStr n).length ≤ k :=
  natStrF_length _ _ _ hk hn

/-- the fold `parseNat` runs -/
def digitsVal (s : Str) : Option Nat := s.foldlM (fun acc c => (digitVal c).map (acc * 10 + ·)) 0

theorem digitsVal_natStrF : ∀ fuel n, n < 10 ^ fuel → digitsVal (natStrF fuel n) = some n := by
  intro fuel
  induction fuel with
  | zero => intro n h; simp at h; subst h; rfl
  | succ fuel ih =>
    intro n hn
    unfold natStrF
    split
    · rename_i h10
      simp [digitsVal, digitVal_digitChar n h10]
    · rename_i h10
      have h1 : n / 10 < 10 ^ fuel := by
        rw [Nat.div_lt_iff_lt_mul (by omega)]; rw [Nat.pow_succ] at hn; exact hn
      have := ih _ h1
      unfold digitsVal at this ⊢
      rw [List.foldlM_append, this]
      simp [digitVal_digitChar (n % 10) (Nat.mod_lt _ (by omega))]
      omega

theorem parseNat_natStr (n : Nat) : parseNat (natStr n) = some n := by
  unfold parseNat
  rw [if_neg (natStr_ne_nil n)]
  have h : n < 10 ^ (n+1) := Nat.lt_of_lt_of_le (Nat.lt_pow_self (by omega)) (Nat.pow_le_pow_right (by omega) (by omega))
  exact digitsVal_natStrF _ _ h

theorem parseInt_intStr (v : Int) : parseInt (intStr v) = some v := by
  unfold intStr
  split
  · simp only [parseInt, parseNat_natStr]
    simp only [bind, Option.bind_some, pure, Option.map_some]
    congr 1; omega
  · rename_i h
    have hd := natStr_digits v.natAbs
    have hne := natStr_ne_nil v.natAbs
    have hp := parseNat_natStr v.natAbs
    generalize natStr v.natAbs = s at *
    match s, hne with
    | c :: r, _ =>
      have hc : c ∈ digits := hd c (by simp)
      have h1 : c ≠ '-' := by intro h; subst h; revert hc; decide
      have h2 : c ≠ '+' := by intro h; subst h; revert hc; decide
      unfold parseInt
      split
      · rename_i heq; injection heq with a b; exact absurd a h1
      · rename_i heq; injection heq with a b; exact absurd a h2
      · rw [hp]
        simp only [bind, Option.bind_some, pure, Option.map_some]
        congr 1; omega

/-! ## 3. string helpers -/

theorem dropWhile_replicate_append (p : Char → Bool) (hp : p ' ' = true) (k : Nat) (l : Str) :
    (List.replicate k ' ' ++ l).dropWhile p = l.dropWhile p := by
  induction k with
  | zero => simp
  | succ k ih => simp only [List.replicate_succ, List.cons_append, List.dropWhile_cons, hp, if_true, ih]

theorem trimRight_nil : trimRight [] = [] := rfl

theorem trimRight_append_blanks (s : Str) (k : Nat) : trimRight (s ++ List.replicate k ' ') = trimRight s := by
  unfold trimRight
  rw [List.reverse_append, List.reverse_replicate, dropWhile_replicate_append _ (by simp)]

theorem trimRight_concat (p : Str) (c : Char) (hc : c ≠ ' ') : trimRight (p ++ [c]) = p ++ [c] := by
  simp [trimRight, hc]

theorem trimRight_of_noBlank (s : Str) (h : ∀ c ∈ s, c ≠ ' ') : trimRight s = s := by
  rcases List.eq_nil_or_concat s with rfl | ⟨p, c, rfl⟩
  · rfl
  · rw [List.concat_eq_append] at h ⊢
    exact trimRight_concat p c (h c (by simp))

theorem trimRight_append_noBlank (p s : Str) (hne : s ≠ []) (h : ∀ c ∈ s, c ≠ ' ') :
    trimRight (p ++ s) = p ++ s := by
  rcases List.eq_nil_or_concat s with rfl | ⟨q, c, rfl⟩
  · exact absurd rfl hne
  · rw [List.concat_eq_append] at h ⊢
    rw [← List.append_assoc]; exact trimRight_concat _ c (h c (by simp))

theorem padTo_length (n : Nat) (s : Str) (h : s.length ≤ n) : (padTo n s).length = n := by
  simp only [padTo, List.length_append, List.length_replicate]; omega

theorem padTo_take (n : Nat) (s : Str) (h : s.length ≤ n) : (padTo n s).take n = padTo n s :=
  List.take_of_length_le (by rw [padTo_length n s h]; exact Nat.le_refl _)

theorem fmtCard_length (c : Card) : (fmtCard c).length = 80 := by
  unfold fmtCard
  split <;> (simp only [List.length_take, padTo, List.length_append, List.length_replicate]; omega)

/-- all characters are single bytes -/
def Lat (s : Str) : Prop := ∀ c ∈ s, c.toNat < 256

theorem chr_byt (c : Char) (h : c.toNat < 256) : chr (byt c) = c := by
  simp only [chr, byt, UInt8.toNat_ofNat']
  rw [Nat.mod_eq_of_lt (by simpa using h)]
  exact Char.ofNat_toNat c

theorem map_chr_map_byt (s : Str) (h : Lat s) : (s.map byt).map chr = s := by
  induction s with
  | nil => rfl
  | cons c r ih =>
    simp only [List.map_cons, chr_byt c (h c (by simp)), ih (fun d hd => h d (by simp [hd]))]

theorem Lat.append {a b : Str} (ha : Lat a) (hb : Lat b) : Lat (a ++ b) := by
  intro c hc; rcases List.mem_append.mp hc with h | h
  · exact ha c h
  · exact hb c h

theorem Lat.blanks (k : Nat) : Lat (List.replicate k ' ') := by
  intro c hc; rw [List.mem_replicate] at hc; rw [hc.2]; decide

theorem Lat.take {a : Str} (ha : Lat a) (n : Nat) : Lat (a.take n) :=
  fun c hc => ha c (List.mem_of_mem_take hc)

theorem Lat.padTo {a : Str} (ha : Lat a) (n : Nat) : Lat (padTo n a) := ha.append (Lat.blanks _)

theorem Lat.ite {p : Prop} [Decidable p] {a b : Str} (ha : Lat a) (hb : Lat b) : Lat (if p then a else b) := by
  split
  · exact ha
  · exact hb

/-- `fmtCard` of single-byte text is single-byte text -/
theorem Lat.fmtCard {c : Card} (hk : Lat c.key) (hv : Lat c.val) (hc : Lat c.com) : Lat (fmtCard c) := by
  have hlit : ∀ l : Str, (∀ c ∈ l, c.toNat < 256) → Lat l := fun _ h => h
  unfold Fits.fmtCard
  split
  · exact ((hk.padTo 8).append hc).padTo 80 |>.take 80
  · have hv' : Lat (if c.val.head? = some '\'' then (if c.com = [] then c.val else Fits.padTo 20 c.val)
             else List.replicate (20 - c.val.length) ' ' ++ c.val) :=
      Lat.ite (Lat.ite hv (hv.padTo 20)) ((Lat.blanks _).append hv)
    have hb := ((hk.padTo 8).append (hlit ['=', ' '] (by decide))).append hv'
    exact (Lat.ite hb ((hb.append (hlit [' ', '/', ' '] (by decide))).append hc)).padTo 80 |>.take 80

/-! ## 4. cards with a plain (non-string) value -/

/-- a keyword that `parseCard` treats as an ordinary value keyword -/
structure KeyOK (key : Str) : Prop where
  len : key.length ≤ 8
  noBlank : ∀ c ∈ key, c ≠ ' '
  notCommentary : isCommentary key = false
  notHier : key ≠ "HIERARCH".toList
  notCont : key ≠ "CONTINUE".toList

theorem take8_padTo (key X : Str) (h : key.length ≤ 8) : (padTo 8 key ++ X).take 8 = padTo 8 key :=
  List.take_left' (padTo_length 8 key h)

theorem drop8_padTo (key X : Str) (h : key.length ≤ 8) : (padTo 8 key ++ X).drop 8 = X :=
  List.drop_left' (padTo_length 8 key h)

theorem trimRight_padTo (n : Nat) (key : Str) (h : ∀ c ∈ key, c ≠ ' ') : trimRight (padTo n key) = key := by
  unfold padTo; rw [trimRight_append_blanks]; exact trimRight_of_noBlank key h

theorem any_blank_false (key : Str) (h : ∀ c ∈ key, c ≠ ' ') : key.any (fun c => decide (c = ' ')) = false := by
  simp only [List.any_eq_false, decide_eq_true_eq]; exact h

theorem takeWhile_dropWhile_append (p : Char → Bool) (a b : Str) (ha : ∀ c ∈ a, p c = true)
    (hb : b = [] ∨ ∃ d t, b = d :: t ∧ p d = false) :
    (a ++ b).takeWhile p = a ∧ (a ++ b).dropWhile p = b := by
  induction a with
  | nil =>
    rcases hb with rfl | ⟨d, t, rfl, hd⟩
    · simp
    · simp [hd]
  | cons c r ih =>
    have hc := ha c (by simp)
    have := ih (fun d hd => ha d (by simp [hd]))
    simp only [List.cons_append, List.takeWhile_cons, List.dropWhile_cons, hc, if_true, this, and_self]

/-- `parseCard` on `KEY     = <blanks>value<tail>` -/
theorem parseCard_plain_shape (key val tail : Str) (k : Nat) (hk : KeyOK key)
    (hv : val ≠ []) (hvc : ∀ c ∈ val, c ≠ ' ' ∧ c ≠ '/') (hvq : val.head? ≠ some '\'')
    (ht : tail = [] ∨ ∃ t, tail = ' ' :: t) :
    parseCard (padTo 8 key ++ '=' :: ' ' :: (List.replicate k ' ' ++ val ++ tail))
      = some ⟨key, val, parseComment tail⟩ := by
  unfold parseCard
  simp only [take8_padTo _ _ hk.len, drop8_padTo _ _ hk.len, trimRight_padTo 8 key hk.noBlank]
  simp only [hk.notHier, hk.notCont, any_blank_false key hk.noBlank, hk.notCommentary]
  simp only [List.take_succ_cons, List.take_zero, bne_self_eq_false, Bool.or_self, List.drop_succ_cons, List.drop_zero,
    List.append_assoc, dropWhile_replicate_append (fun x => decide (x = ' ')) (by simp) k]
  match val, hv with
  | c0 :: vs, _ =>
    have h0 := hvc c0 (by simp)
    have hq : c0 ≠ '\'' := by intro h; subst h; simp at hvq
    have hp : ∀ c ∈ c0 :: vs, (c != ' ' && c != '/') = true := by
      intro c hc; have := hvc c hc; simp [this.1, this.2]
    have htl : tail = [] ∨ ∃ d t, tail = d :: t ∧ (d != ' ' && d != '/') = false := by
      rcases ht with h | ⟨t, h⟩
      · exact Or.inl h
      · exact Or.inr ⟨' ', t, h, by simp⟩
    have hsplit := takeWhile_dropWhile_append _ (c0 :: vs) tail hp htl
    have hbody : List.dropWhile (fun x => decide (x = ' ')) (c0 :: (vs ++ tail)) = c0 :: (vs ++ tail) := by
      simp [h0.1]
    rw [List.cons_append] at hsplit
    simp only [List.cons_append, hbody, Bool.false_eq_true, if_false, or_self]
    split
    · rename_i heq; cases heq
    · rename_i heq; injection heq with a b; exact absurd a hq
    · rename_i heq; injection heq with a b; exact absurd a h0.2
    · rw [hsplit.1, hsplit.2]

theorem parseComment_blanks (m : Nat) : parseComment (List.replicate m ' ') = [] := by
  have h := dropWhile_replicate_append (fun x => decide (x = ' ')) (by simp) m []
  rw [List.append_nil] at h
  unfold parseComment
  simp only [h, List.dropWhile_nil]
  rfl

theorem parseComment_slash (r : Str) : parseComment (' ' :: '/' :: ' ' :: r) = trimRight r := by
  simp [parseComment]

theorem blanks_shape (m : Nat) : List.replicate m ' ' = [] ∨ ∃ t, List.replicate m ' ' = ' ' :: t := by
  cases m with
  | zero => exact Or.inl rfl
  | succ m => exact Or.inr ⟨_, List.replicate_succ⟩

/-- a fixed-format card whose value is a plain token (integer, logical, ...) -/
structure PlainOK (c : Card) : Prop where
  key : KeyOK c.key
  valNe : c.val ≠ []
  valChars : ∀ ch ∈ c.val, ch ≠ ' ' ∧ ch ≠ '/'
  valNoQuote : c.val.head? ≠ some '\''
  comTrim : trimRight c.com = c.com
  fits : 10 + max 20 c.val.length + (if c.com = [] then 0 else 3 + c.com.length) ≤ 80

theorem parseCard_fmtCard_plain (c : Card) (h : PlainOK c) : parseCard (fmtCard c) = some c := by
  obtain ⟨key, val, com⟩ := c
  obtain ⟨hk, hne, hvc, hvq, hct, hfit⟩ := h
  simp only at hk hne hvc hvq hct hfit
  have hk8 := hk.len
  unfold fmtCard
  simp only [hk.notCommentary, Bool.false_eq_true, if_false, hvq]
  by_cases hcom : com = []
  · subst hcom
    simp only [if_true] at hfit ⊢
    rw [padTo_take 80 _ (by simp only [List.length_append, padTo_length 8 key hk8, List.length_replicate, List.length_cons, List.length_nil]; omega)]
    have : padTo 80 (padTo 8 key ++ ['=', ' '] ++ (List.replicate (20 - val.length) ' ' ++ val))
        = padTo 8 key ++ '=' :: ' ' :: (List.replicate (20 - val.length) ' ' ++ val ++ List.replicate (80 - (padTo 8 key ++ ['=', ' '] ++ (List.replicate (20 - val.length) ' ' ++ val)).length) ' ') := by
      simp [padTo]
    rw [this, parseCard_plain_shape key val _ _ hk hne hvc hvq (blanks_shape _), parseComment_blanks]
  · simp only [hcom, if_false] at hfit ⊢
    rw [padTo_take 80 _ (by simp only [List.length_append, padTo_length 8 key hk8, List.length_replicate, List.length_cons, List.length_nil]; omega)]
    have : padTo 80 (padTo 8 key ++ ['=', ' '] ++ (List.replicate (20 - val.length) ' ' ++ val) ++ [' ', '/', ' '] ++ com)
        = padTo 8 key ++ '=' :: ' ' :: (List.replicate (20 - val.length) ' ' ++ val ++ (' ' :: '/' :: ' ' :: (com ++ List.replicate (80 - (padTo 8 key ++ ['=', ' '] ++ (List.replicate (20 - val.length) ' ' ++ val) ++ [' ', '/', ' '] ++ com).length) ' '))) := by
      simp [padTo]
    rw [this, parseCard_plain_shape key val _ _ hk hne hvc hvq (Or.inr ⟨_, rfl⟩), parseComment_slash,
      trimRight_append_blanks, hct]

/-! ## 5. the structural cards -/

/-- the card as `encodeHeader` writes it: with the comment cfitsio attaches -/
def withCom (c : Card) : Card := { c with com := structComment c.key }

/-- what the file-level theorem needs from every card -/
structure CardRT (c : Card) : Prop where
  rt : parseCard (fmtCard c) = some c
  notEnd : c.key ≠ "END".toList
  lat : Lat (fmtCard c)

theorem digits_props : ∀ c ∈ digits, c ≠ ' ' ∧ c ≠ '/' ∧ c ≠ '\'' ∧ c ≠ '-' ∧ c.toNat < 256 := by decide

theorem Lat.of_digits {s : Str} (h : ∀ c ∈ s, c ∈ digits) : Lat s :=
  fun c hc => (digits_props c (h c hc)).2.2.2.2

/-- integer-like value text: optional minus sign, digits, at most 20 columns -/
theorem plainOK_of_digits (key val com : Str) (hk : KeyOK key)
    (hne : val ≠ []) (hd : ∀ c ∈ val, c ∈ '-' :: digits) (hlen : val.length ≤ 20)
    (hc : trimRight com = com) (hcl : com.length ≤ 47) : PlainOK ⟨key, val, com⟩ := by
  have hprops : ∀ c ∈ '-' :: digits, c ≠ ' ' ∧ c ≠ '/' ∧ c ≠ '\'' := by decide
  refine ⟨hk, hne, fun ch h => ⟨(hprops ch (hd ch h)).1, (hprops ch (hd ch h)).2.1⟩, ?_, hc, ?_⟩
  · match val, hne with
    | c :: r, _ =>
      simp only [List.head?_cons, ne_eq, Option.some.injEq]
      exact (hprops c (hd c (by simp))).2.2
  · simp only
    split <;> omega

theorem keyOK_naxis (i : Nat) (hi : i ≤ 999) : KeyOK ("NAXIS".toList ++ natStr i) := by
  have hl := natStr_length i 3 (by omega) (by omega)
  refine ⟨?_, ?_, ?_, ?_, ?_⟩
  · simp; omega
  · intro c hc
    rcases List.mem_append.mp hc with h | h
    · have : ∀ c ∈ "NAXIS".toList, c ≠ ' ' := by decide
      exact this c h
    · exact (digits_props c (natStr_digits i c h)).1
  · simp [isCommentary]
  · simp
  · simp

theorem cardRT_plain (c : Card) (h : PlainOK c) (hend : c.key ≠ "END".toList)
    (hk : Lat c.key) (hv : Lat c.val) (hc : Lat c.com) : CardRT c :=
  ⟨parseCard_fmtCard_plain c h, hend, Lat.fmtCard hk hv hc⟩

theorem mem_digits_cons {s : Str} (h : ∀ c ∈ s, c ∈ digits) : ∀ c ∈ s, c ∈ '-' :: digits :=
  fun c hc => List.mem_cons_of_mem _ (h c hc)

theorem cardRT_naxis (n : Nat) (hn : n ≤ 999) : CardRT (withCom ⟨"NAXIS".toList, natStr n, []⟩) := by
  have hcom : structComment "NAXIS".toList = "number of data axes".toList := by decide
  have hl := natStr_length n 3 (by omega) (by omega)
  simp only [withCom, hcom]
  apply cardRT_plain
  · apply plainOK_of_digits
    · exact ⟨by decide, by decide, by decide, by decide, by decide⟩
    · exact natStr_ne_nil n
    · exact mem_digits_cons (natStr_digits n)
    · omega
    · decide
    · decide
  · show "NAXIS".toList ≠ _; decide
  · simp only [Lat]; decide
  · exact Lat.of_digits (natStr_digits n)
  · simp only [Lat]; decide

theorem structComment_naxisN (i : Nat) :
    structComment ("NAXIS".toList ++ natStr i) = "length of data axis ".toList ++ natStr i := by
  have := natStr_ne_nil i
  simp [structComment, this]

theorem cardRT_naxisN (i a : Nat) (hi : i ≤ 999) (ha : a < 10 ^ 20) :
    CardRT (withCom ⟨"NAXIS".toList ++ natStr i, natStr a, []⟩) := by
  have hl := natStr_length i 3 (by omega) (by omega)
  have hla := natStr_length a 20 (by omega) ha
  simp only [withCom, structComment_naxisN]
  apply cardRT_plain
  · apply plainOK_of_digits
    · exact keyOK_naxis i hi
    · exact natStr_ne_nil a
    · exact mem_digits_cons (natStr_digits a)
    · exact hla
    · exact trimRight_append_noBlank _ _ (natStr_ne_nil i)
        (fun c hc => (digits_props c (natStr_digits i c hc)).1)
    · simp; omega
  · simp
  · exact Lat.append (by simp only [Lat]; decide) (Lat.of_digits (natStr_digits i))
  · exact Lat.of_digits (natStr_digits a)
  · exact Lat.append (by simp only [Lat]; decide) (Lat.of_digits (natStr_digits i))

theorem cardRT_concrete (c : Card) (h1 : parseCard (fmtCard c) = some c) (h2 : c.key ≠ "END".toList)
    (h3 : ∀ ch ∈ fmtCard c, ch.toNat < 256) : CardRT c := ⟨h1, h2, h3⟩

theorem cardRT_bitpix32 : CardRT (withCom ⟨"BITPIX".toList, intStr (-32), []⟩) :=
  cardRT_concrete _ (by decide) (by decide) (by decide)

theorem cardRT_bitpix64 : CardRT (withCom ⟨"BITPIX".toList, intStr (-64), []⟩) :=
  cardRT_concrete _ (by decide) (by decide) (by decide)

theorem mem_axisCards {axes : List Nat} {c : Card} (h : c ∈ axisCards axes) :
    ∃ i, i < axes.length ∧ c = ⟨"NAXIS".toList ++ natStr (i+1), natStr (axes.getD i 0), []⟩ := by
  simp only [axisCards, List.mem_map, List.mem_range] at h
  obtain ⟨i, hi, rfl⟩ := h
  exact ⟨i, hi, rfl⟩

/-- every mandatory card, as written (with its standard comment), survives the 80-column text form -/
theorem structCards_RT (primary : Bool) (h : Hdu) (hax : h.axes.length ≤ 999) (hlen : ∀ a ∈ h.axes, a < 10 ^ 20) :
    ∀ c ∈ structCards primary h, CardRT (withCom c) := by
  intro c hc
  simp only [structCards, List.mem_append] at hc
  rcases hc with ((hc | hc) | hc) | hc
  · cases primary
    · simp only [Bool.false_eq_true, if_false, List.mem_singleton] at hc; subst hc
      exact cardRT_concrete _ (by decide) (by decide) (by decide)
    · simp only [if_true, List.mem_singleton] at hc; subst hc
      exact cardRT_concrete _ (by decide) (by decide) (by decide)
  · simp only [List.mem_cons, List.not_mem_nil, or_false] at hc
    rcases hc with rfl | rfl
    · cases h.pix
      · exact cardRT_bitpix32
      · exact cardRT_bitpix64
    · exact cardRT_naxis _ hax
  · obtain ⟨i, hi, rfl⟩ := mem_axisCards hc
    refine cardRT_naxisN _ _ (by omega) (hlen _ ?_)
    simp only [List.getD_eq_getElem?_getD, List.getElem?_eq_getElem hi, Option.getD_some]
    exact List.getElem_mem hi
  · cases primary
    · simp only [Bool.false_eq_true, if_false, List.mem_cons, List.not_mem_nil, or_false] at hc
      rcases hc with rfl | rfl
      · exact cardRT_concrete _ (by decide) (by decide) (by decide)
      · exact cardRT_concrete _ (by decide) (by decide) (by decide)
    · simp at hc

/-! ## 6. headers -/

theorem endCard_length : endCard.length = 80 := by decide
theorem endCard_lat : Lat endCard := by simp only [Lat]; decide
theorem parseCard_endCard : parseCard endCard = some ⟨"END".toList, [], []⟩ := by decide

theorem CardRT.ne_end {c : Card} (h : CardRT c) : fmtCard c ≠ endCard := by
  intro he
  have h1 := h.rt
  rw [he, parseCard_endCard] at h1
  injection h1 with h1
  exact h.notEnd (by rw [← h1])

/-- `splitHeader` finds the cards, `END`, and skips the blank fill up to the block boundary -/
theorem splitHeader_cards (p : UInt8) (rest : Bytes) :
    ∀ (cs : List Str) (n fuel : Nat), (∀ s ∈ cs, s.length = 80 ∧ Lat s ∧ s ≠ endCard) → cs.length < fuel →
      splitHeader fuel n ((cs.flatMap id).map byt ++ (endCard.map byt ++
        (List.replicate (blockPad ((n + cs.length + 1) * 80)) p ++ rest))) = some (cs, rest) := by
  intro cs
  induction cs with
  | nil =>
    intro n fuel _ hf
    match fuel, hf with
    | fuel+1, _ =>
      have hl : (endCard.map byt).length = 80 := by rw [List.length_map, endCard_length]
      unfold splitHeader
      simp only [List.flatMap_nil, List.map_nil, List.nil_append, List.length_nil, Nat.add_zero]
      rw [if_neg (by simp only [List.length_append, hl]; omega)]
      simp only [List.take_left' hl, List.drop_left' hl, map_chr_map_byt _ endCard_lat, if_true]
      rw [if_neg (by simp only [List.length_append, List.length_replicate]; omega)]
      rw [List.drop_left' (List.length_replicate ..)]
  | cons s cs ih =>
    intro n fuel hcs hf
    match fuel, hf with
    | fuel+1, hf =>
      obtain ⟨h80, hlat, hne⟩ := hcs s (by simp)
      have hl : (s.map byt).length = 80 := by rw [List.length_map, h80]
      have hn : n + (s :: cs).length + 1 = (n + 1) + cs.length + 1 := by simp only [List.length_cons]; omega
      unfold splitHeader
      simp only [List.flatMap_cons, id, List.map_append, List.append_assoc]
      rw [if_neg (by simp only [List.length_append, hl]; omega)]
      simp only [List.take_left' hl, List.drop_left' hl, map_chr_map_byt _ hlat, if_neg hne]
      rw [hn, ih (n+1) fuel (fun t ht => hcs t (by simp [ht])) (by simpa using hf)]
      rfl

theorem mapM'_map {α β} (f : α → Option β) (g : β → α) (l : List β) (h : ∀ b ∈ l, f (g b) = some b) :
    mapM' f (l.map g) = some l := by
  induction l with
  | nil => rfl
  | cons b r ih =>
    simp only [List.map_cons, mapM', h b (by simp), ih (fun c hc => h c (by simp [hc])), Option.map_some]

@[simp] theorem withCom_key (c : Card) : (withCom c).key = c.key := rfl
@[simp] theorem withCom_val (c : Card) : (withCom c).val = c.val := rfl

theorem takeAxes_axis (r : List Card) : ∀ (suf pre : List Nat),
    takeAxes (pre.length + 1) suf.length
      ((List.range' pre.length suf.length).map
        (fun i => withCom ⟨"NAXIS".toList ++ natStr (i+1), natStr ((pre ++ suf).getD i 0), []⟩) ++ r)
      = some (suf, r) := by
  intro suf
  induction suf with
  | nil => intro pre; simp [takeAxes]
  | cons a as ih =>
    intro pre
    have h := ih (pre ++ [a])
    simp only [List.length_append, List.length_cons, List.length_nil, List.append_assoc, List.singleton_append,
      Nat.zero_add] at h
    simp only [List.length_cons, List.range'_succ, List.map_cons, List.cons_append, takeAxes, cardNat,
      withCom_key, withCom_val, if_true, parseNat_natStr, h, Option.map_some]
    simp

theorem takeAxes_axisCards (axes : List Nat) (r : List Card) :
    takeAxes 1 axes.length ((axisCards axes).map withCom ++ r) = some (axes, r) := by
  have h := takeAxes_axis r axes []
  simp only [List.length_nil, Nat.zero_add, List.nil_append] at h
  rw [← h, axisCards, List.range_eq_range', List.map_map]
  rfl

theorem parseStruct_primary (c0 c1 c2 : Card) (r r2 : List Card) (bp : Int) (n : Nat) (axes : List Nat)
    (h0 : c0.key = "SIMPLE".toList) (h0' : c0.val = ['T'])
    (h1 : c1.key = "BITPIX".toList) (h2 : parseInt c1.val = some bp) (h3 : cardNat c2 "NAXIS".toList = some n)
    (h4 : takeAxes 1 n r = some (axes, r2)) :
    parseStruct true (c0 :: c1 :: c2 :: r) = some (bp, axes, r2) := by
  unfold parseStruct
  simp only [h0, h0', h1, h2, h3, h4, if_true, and_self, not_true_eq_false, ne_eq, or_self, if_false]

theorem parseStruct_ext (c0 c1 c2 p g : Card) (r r2 : List Card) (bp : Int) (n : Nat) (axes : List Nat)
    (h0 : c0.key = "XTENSION".toList) (h0' : c0.val = "'IMAGE   '".toList)
    (h1 : c1.key = "BITPIX".toList) (h2 : parseInt c1.val = some bp) (h3 : cardNat c2 "NAXIS".toList = some n)
    (h4 : takeAxes 1 n r = some (axes, p :: g :: r2))
    (h5 : p.key = "PCOUNT".toList) (h5' : p.val = ['0']) (h6 : g.key = "GCOUNT".toList) (h6' : g.val = ['1']) :
    parseStruct false (c0 :: c1 :: c2 :: r) = some (bp, axes, r2) := by
  unfold parseStruct
  simp only [h0, h0', h1, h2, h3, h4, h5, h5', h6, h6', if_true, and_self, not_true_eq_false, ne_eq, or_self,
    if_false, Bool.false_eq_true]

theorem parseStruct_structCards (primary : Bool) (h : Hdu) (user : List Card) :
    parseStruct primary ((structCards primary h).map withCom ++ user) = some (h.pix.bitpix, h.axes, user) := by
  cases primary
  · simp only [structCards, Bool.false_eq_true, if_false, List.map_append, List.map_cons, List.map_nil,
      List.append_assoc, List.cons_append, List.nil_append]
    exact parseStruct_ext _ _ _ _ _ _ _ _ _ _ rfl rfl rfl (parseInt_intStr _)
      (by simp only [cardNat, withCom_key, withCom_val, if_true, parseNat_natStr])
      (takeAxes_axisCards _ _) rfl rfl rfl rfl
  · simp only [structCards, if_true, List.map_cons, List.cons_append, List.nil_append, List.append_nil]
    exact parseStruct_primary _ _ _ _ _ _ _ _ rfl rfl rfl (parseInt_intStr _)
      (by simp only [cardNat, withCom_key, withCom_val, if_true, parseNat_natStr])
      (takeAxes_axisCards _ _)

/-! ## 7. HDUs and files -/

/-- the hypotheses of the file-level theorem, per HDU -/
structure HduOK (h : Hdu) : Prop where
  /-- as many pixels as the axes say -/
  pixLen : h.pix.length = npix h.axes
  /-- `NAXISnnn` must fit the 8-column keyword field -/
  naxis : h.axes.length ≤ 999
  /-- the axis lengths fit the 20-column value field -/
  axisLen : ∀ a ∈ h.axes, a < 10 ^ 20
  /-- every non-structural card survives the 80-column text form -/
  cards : ∀ c ∈ h.cards, CardRT c

/-- all cards of the header as written -/
def allCards (primary : Bool) (h : Hdu) : List Card := (structCards primary h).map withCom ++ h.cards

theorem allCards_RT (primary : Bool) (h : Hdu) (ok : HduOK h) : ∀ c ∈ allCards primary h, CardRT c := by
  intro c hc
  rcases List.mem_append.mp hc with hc | hc
  · obtain ⟨d, hd, rfl⟩ := List.mem_map.mp hc
    exact structCards_RT primary h ok.naxis ok.axisLen d hd
  · exact ok.cards c hc

theorem length_flatMap_80 (l : List Str) (h : ∀ s ∈ l, s.length = 80) : (l.flatMap id).length = l.length * 80 := by
  induction l with
  | nil => rfl
  | cons s r ih =>
    simp only [List.flatMap_cons, id, List.length_append, List.length_cons, h s (by simp),
      ih (fun t ht => h t (by simp [ht]))]
    omega

theorem encodeHeader_eq (primary : Bool) (h : Hdu) :
    encodeHeader primary h =
      (((allCards primary h).map fmtCard).flatMap id).map byt ++ (endCard.map byt ++
        List.replicate (blockPad ((0 + ((allCards primary h).map fmtCard).length + 1) * 80)) (byt ' ')) := by
  have hl := length_flatMap_80 ((allCards primary h).map fmtCard)
    (fun s hs => by obtain ⟨c, _, rfl⟩ := List.mem_map.mp hs; exact fmtCard_length c)
  have hcs : (structCards primary h).map (fun c => fmtCard { c with com := structComment c.key })
      ++ h.cards.map fmtCard = (allCards primary h).map fmtCard := by
    simp only [allCards, List.map_append, List.map_map]; rfl
  unfold encodeHeader
  simp only [hcs, List.flatMap_append, List.flatMap_cons, List.flatMap_nil, id, List.append_nil, List.map_append,
    List.append_assoc, List.length_append, List.length_map, hl, endCard_length]
  congr 4
  omega

theorem encodeHeader_length_ge (primary : Bool) (h : Hdu) : 2880 ≤ (encodeHeader primary h).length := by
  rw [encodeHeader_eq]
  simp only [List.length_append, List.length_map, endCard_length, List.length_replicate, blockPad]
  have hl := length_flatMap_80 ((allCards primary h).map fmtCard)
    (fun s hs => by obtain ⟨c, _, rfl⟩ := List.mem_map.mp hs; exact fmtCard_length c)
  rw [hl]
  simp only [List.length_map]
  omega

theorem encodeData_length (p : Pix) :
    (encodeData p).length = (if p.bitpix = -32 then 4 else 8) * p.length
      + blockPad ((if p.bitpix = -32 then 4 else 8) * p.length) := by
  cases p <;> simp [encodeData, enc32_length, enc64_length, Pix.bitpix, Pix.length]

theorem decodeHdu_f32 (primary : Bool) (b rest : Bytes) (raw : List Str) (cs cards : List Card)
    (axes : List Nat) (d : List UInt32)
    (h1 : splitHeader (b.length / 80 + 1) 0 b = some (raw, rest)) (h2 : mapM' parseCard raw = some cs)
    (h3 : parseStruct primary cs = some (-32, axes, cards)) (h4 : dec32 (npix axes) rest = some d)
    (h5 : ¬ rest.length < 4 * npix axes + blockPad (4 * npix axes)) :
    decodeHdu primary b
      = some (⟨axes, cards, .f32 d⟩, rest.drop (4 * npix axes + blockPad (4 * npix axes))) := by
  unfold decodeHdu
  simp only [h1, h2, h3, h4, if_true, if_neg h5]

theorem decodeHdu_f64 (primary : Bool) (b rest : Bytes) (raw : List Str) (cs cards : List Card)
    (axes : List Nat) (d : List UInt64)
    (h1 : splitHeader (b.length / 80 + 1) 0 b = some (raw, rest)) (h2 : mapM' parseCard raw = some cs)
    (h3 : parseStruct primary cs = some (-64, axes, cards)) (h4 : dec64 (npix axes) rest = some d)
    (h5 : ¬ rest.length < 8 * npix axes + blockPad (8 * npix axes)) :
    decodeHdu primary b
      = some (⟨axes, cards, .f64 d⟩, rest.drop (8 * npix axes + blockPad (8 * npix axes))) := by
  unfold decodeHdu
  have : ¬ ((-64 : Int) = -32) := by decide
  simp only [h1, h2, h3, h4, if_true, if_neg h5, if_neg this]

/-- one HDU: decoding the encoding gives the HDU back and leaves exactly the bytes that followed -/
theorem decodeHdu_encodeHdu (primary : Bool) (h : Hdu) (rest : Bytes) (ok : HduOK h) :
    decodeHdu primary (encodeHdu primary h ++ rest) = some (h, rest) := by
  have hrt := allCards_RT primary h ok
  have hsplit : splitHeader ((encodeHdu primary h ++ rest).length / 80 + 1) 0 (encodeHdu primary h ++ rest)
      = some ((allCards primary h).map fmtCard, encodeData h.pix ++ rest) := by
    have hlen : (encodeHdu primary h ++ rest).length
        = (((allCards primary h).map fmtCard).length + 1) * 80
          + blockPad ((0 + ((allCards primary h).map fmtCard).length + 1) * 80) + (encodeData h.pix ++ rest).length := by
      have hl := length_flatMap_80 ((allCards primary h).map fmtCard)
        (fun s hs => by obtain ⟨c, _, rfl⟩ := List.mem_map.mp hs; exact fmtCard_length c)
      simp only [encodeHdu, encodeHeader_eq, List.length_append, List.length_map, hl, endCard_length,
        List.length_replicate]
      omega
    have := splitHeader_cards (byt ' ') (encodeData h.pix ++ rest) ((allCards primary h).map fmtCard) 0
      ((encodeHdu primary h ++ rest).length / 80 + 1)
      (fun s hs => by
        obtain ⟨c, hc, rfl⟩ := List.mem_map.mp hs
        exact ⟨fmtCard_length c, (hrt c hc).lat, (hrt c hc).ne_end⟩)
      (by rw [hlen]; omega)
    rw [← this, encodeHdu, encodeHeader_eq]
    simp only [List.append_assoc]
  have hmap : mapM' parseCard ((allCards primary h).map fmtCard) = some (allCards primary h) :=
    mapM'_map parseCard fmtCard _ (fun c hc => (hrt c hc).rt)
  have hstruct := parseStruct_structCards primary h h.cards
  obtain ⟨axes, cards, pix⟩ := h
  have hpix := ok.pixLen
  simp only at hpix hstruct
  cases pix with
  | f32 d =>
    simp only [Pix.length] at hpix
    have hdata : encodeData (.f32 d) ++ rest
        = enc32 d ++ (List.replicate (blockPad (4 * npix axes)) 0 ++ rest) := by
      simp only [encodeData, enc32_length, hpix, List.append_assoc]
    have hlen : (encodeData (.f32 d) ++ rest).length
        = (4 * npix axes + blockPad (4 * npix axes)) + rest.length := by
      rw [hdata]; simp only [List.length_append, enc32_length, List.length_replicate, hpix]; omega
    rw [decodeHdu_f32 primary _ _ _ _ cards axes d hsplit hmap hstruct
      (by rw [hdata, ← hpix]; exact dec32_enc32 d _) (by rw [hlen]; omega)]
    congr 2
    rw [hdata, ← List.append_assoc]
    exact List.drop_left' (by simp only [List.length_append, enc32_length, List.length_replicate, hpix])
  | f64 d =>
    simp only [Pix.length] at hpix
    have hdata : encodeData (.f64 d) ++ rest
        = enc64 d ++ (List.replicate (blockPad (8 * npix axes)) 0 ++ rest) := by
      simp only [encodeData, enc64_length, hpix, List.append_assoc]
    have hlen : (encodeData (.f64 d) ++ rest).length
        = (8 * npix axes + blockPad (8 * npix axes)) + rest.length := by
      rw [hdata]; simp only [List.length_append, enc64_length, List.length_replicate, hpix]; omega
    rw [decodeHdu_f64 primary _ _ _ _ cards axes d hsplit hmap hstruct
      (by rw [hdata, ← hpix]; exact dec64_enc64 d _) (by rw [hlen]; omega)]
    congr 2
    rw [hdata, ← List.append_assoc]
    exact List.drop_left' (by simp only [List.length_append, enc64_length, List.length_replicate, hpix])

theorem encodeHdu_length_ge (p : Bool) (h : Hdu) : 2880 ≤ (encodeHdu p h).length := by
  have := encodeHeader_length_ge p h
  simp only [encodeHdu, List.length_append]; omega

theorem encodeAux_length_ge : ∀ (hs : List Hdu) (p : Bool), 2880 * hs.length ≤ (encodeAux p hs).length := by
  intro hs
  induction hs with
  | nil => intro p; simp [encodeAux]
  | cons h hs ih =>
    intro p
    have h1 := encodeHdu_length_ge p h
    have h2 := ih false
    simp only [encodeAux, List.length_append, List.length_cons]; omega

theorem decodeAux_encodeAux : ∀ (hs : List Hdu) (p : Bool) (fuel : Nat), (∀ h ∈ hs, HduOK h) → hs.length < fuel →
    (p = true → hs ≠ []) → decodeAux fuel p (encodeAux p hs) = some hs := by
  intro hs
  induction hs with
  | nil =>
    intro p fuel _ hf hp
    match fuel, hf with
    | fuel+1, _ =>
      cases p
      · simp [decodeAux, encodeAux]
      · exact absurd rfl (hp rfl)
  | cons h hs ih =>
    intro p fuel hok hf _
    match fuel, hf with
    | fuel+1, hf =>
      have hne : encodeHdu p h ++ encodeAux false hs ≠ [] := by
        intro he
        have h1 := encodeHdu_length_ge p h
        have h2 := congrArg List.length he
        simp only [List.length_append, List.length_nil] at h2
        omega
      unfold decodeAux
      simp only [encodeAux, if_neg hne, decodeHdu_encodeHdu p h _ (hok h (by simp)),
        ih false fuel (fun k hk => hok k (by simp [hk])) (by simpa using hf) (by simp), Option.map_some]

/-- **File-level round trip.**  A non-empty FITS store whose HDUs satisfy `HduOK` is recovered exactly from its
    byte encoding. -/
theorem decode_encode (f : Fits) (hne : f ≠ []) (h : ∀ hdu ∈ f, HduOK hdu) : decodeFits (encodeFits f) = some f := by
  unfold decodeFits encodeFits
  apply decodeAux_encodeAux f true _ h _ (fun _ => hne)
  have := encodeAux_length_ge f true
  omega

/-- `CardRT` from three decidable facts (for concrete cards: `CardRT.of_decide c (by decide) (by decide) (by decide)`) -/
theorem CardRT.of_decide (c : Card) (h1 : parseCard (fmtCard c) = some c) (h2 : c.key ≠ "END".toList)
    (h3 : ∀ ch ∈ fmtCard c, ch.toNat < 256) : CardRT c := ⟨h1, h2, h3⟩

/-! ### the hypotheses are satisfiable: a two-HDU file with integer, string, logical and commentary cards -/

def exampleFits : Fits :=
  [ { axes := [2, 3]
      cards := primaryBoiler ++
        [cardStr "TYPE".toList "Spline Coefficient Table".toList [],
         cardInt "ORDER0".toList 2 "B-Spline Order".toList,
         cardInt "ORDER1".toList 4294967295 "B-Spline Order".toList,
         ⟨"PERIOD0".toList, "0.".toList, []⟩,
         cardStr "NAME".toList "it's".toList []]
      pix := .f32 [1, 2, 3, 4, 5, 4290772992] },
    { axes := [3]
      cards := [cardStr "EXTNAME".toList "KNOTS0".toList []]
      pix := .f64 [0, 4607182418800017408, 18442240474082181120] } ]

theorem exampleFits_ok : ∀ hdu ∈ exampleFits, HduOK hdu := by
  have hc : ∀ hdu ∈ exampleFits, ∀ c ∈ hdu.cards,
      parseCard (fmtCard c) = some c ∧ c.key ≠ "END".toList ∧ ∀ ch ∈ fmtCard c, ch.toNat < 256 := by decide
  intro hdu hm
  refine ⟨?_, ?_, ?_, fun c hcm => ⟨(hc hdu hm c hcm).1, (hc hdu hm c hcm).2.1, (hc hdu hm c hcm).2.2⟩⟩
  · revert hdu; decide
  · revert hdu; decide
  · revert hdu; decide

example : decodeFits (encodeFits exampleFits) = some exampleFits :=
  decode_encode exampleFits (by decide) exampleFits_ok

/-! ## 8. the card classes the library writes -/

theorem intStr_props (v : Int) (hv : v.natAbs < 10 ^ 19) :
    intStr v ≠ [] ∧ (∀ c ∈ intStr v, c ∈ '-' :: digits) ∧ (intStr v).length ≤ 20 := by
  have h1 := natStr_ne_nil v.natAbs
  have h2 := natStr_digits v.natAbs
  have h3 := natStr_length v.natAbs 19 (by omega) hv
  unfold intStr
  split
  · refine ⟨by simp, ?_, by simp only [List.length_cons]; omega⟩
    intro c hc
    rcases List.mem_cons.mp hc with rfl | hc
    · simp
    · exact List.mem_cons_of_mem _ (h2 c hc)
  · exact ⟨h1, mem_digits_cons h2, by omega⟩

/-- integer cards (`fits_write_key(TINT/TLONGLONG)`): value `intStr v`, any comment without trailing blank that
    fits the card -/
theorem cardRT_int (key com : Str) (v : Int) (hk : KeyOK key) (hend : key ≠ "END".toList) (hkl : Lat key)
    (hv : v.natAbs < 10 ^ 19) (hc : trimRight com = com) (hcl : com.length ≤ 47) (hclat : Lat com) :
    CardRT ⟨key, intStr v, com⟩ := by
  obtain ⟨h1, h2, h3⟩ := intStr_props v hv
  refine cardRT_plain _ (plainOK_of_digits key _ com hk h1 h2 h3 hc hcl) hend hkl ?_ hclat
  intro c hcm
  have : ∀ c ∈ '-' :: digits, c.toNat < 256 := by decide
  exact this c (h2 c hcm)

/-- every apostrophe of a quoted-string body is doubled (what `ffs2c` produces) -/
def quotesDoubled : Str → Bool
  | [] => true
  | '\'' :: '\'' :: r => quotesDoubled r
  | '\'' :: _ => false
  | _ :: r => quotesDoubled r

theorem scanQuoted_doubled (tail : Str) (ht : tail = [] ∨ ∃ t, tail = ' ' :: t) (body : Str) :
    quotesDoubled body = true → scanQuoted (body ++ '\'' :: tail) = some (body ++ ['\''], tail) := by
  fun_induction quotesDoubled body with
  | case1 =>
    intro _
    rcases ht with rfl | ⟨t, rfl⟩ <;> rfl
  | case2 r ih =>
    intro h
    simp only [List.cons_append, scanQuoted, ih h, Option.map_some]
  | case3 r hr =>
    intro h; cases h
  | case4 c r h1 h2 ih =>
    intro h
    have := ih h
    rw [List.cons_append]
    unfold scanQuoted
    split
    · rename_i heq; cases heq
    · rename_i heq; injection heq with a b; exact absurd a h2
    · rename_i heq; injection heq with a b; exact absurd a h2
    · rename_i heq; injection heq with a b; subst a; subst b
      rw [this]; rfl

theorem quotesDoubled_of_noQuote (body : Str) (h : ∀ c ∈ body, c ≠ '\'') : quotesDoubled body = true := by
  induction body with
  | nil => rfl
  | cons c r ih =>
    have hc : c ≠ '\'' := h c (by simp)
    have := ih (fun d hd => h d (by simp [hd]))
    unfold quotesDoubled
    split
    · rename_i heq; cases heq
    · rename_i heq; injection heq with a b; exact absurd a hc
    · rename_i heq; injection heq with a b; exact absurd a hc
    · rename_i heq; injection heq with a b; subst b; exact this

/-- `parseCard` on `KEY     = 'body'<tail>` -/
theorem parseCard_string_shape (key body tail : Str) (hk : KeyOK key) (hb : quotesDoubled body = true)
    (ht : tail = [] ∨ ∃ t, tail = ' ' :: t) :
    parseCard (padTo 8 key ++ '=' :: ' ' :: '\'' :: (body ++ '\'' :: tail))
      = some ⟨key, '\'' :: (body ++ ['\'']), parseComment tail⟩ := by
  unfold parseCard
  simp only [take8_padTo _ _ hk.len, drop8_padTo _ _ hk.len, trimRight_padTo 8 key hk.noBlank]
  simp only [hk.notHier, hk.notCont, any_blank_false key hk.noBlank, hk.notCommentary]
  have hbody : List.dropWhile (fun x => decide (x = ' ')) ('\'' :: (body ++ '\'' :: tail))
      = '\'' :: (body ++ '\'' :: tail) := by simp
  simp only [List.take_succ_cons, List.take_zero, bne_self_eq_false, Bool.or_self, List.drop_succ_cons,
    List.drop_zero, hbody, Bool.false_eq_true, if_false, or_self, scanQuoted_doubled tail ht body hb]

/-- a fixed-format string card: quoted value whose apostrophes are all doubled (`quotesDoubled_of_noQuote` for
    a body without apostrophes), optional comment -/
structure StringOK (c : Card) (body : Str) : Prop where
  key : KeyOK c.key
  val : c.val = '\'' :: (body ++ ['\''])
  doubled : quotesDoubled body = true
  comTrim : trimRight c.com = c.com
  fits : if c.com = [] then 10 + c.val.length ≤ 80 else 10 + max 20 c.val.length + 3 + c.com.length ≤ 80

theorem parseCard_fmtCard_string (c : Card) (body : Str) (h : StringOK c body) : parseCard (fmtCard c) = some c := by
  obtain ⟨key, val, com⟩ := c
  obtain ⟨hk, hval, hb, hct, hfit⟩ := h
  simp only at hk hval hb hct hfit
  subst hval
  have hk8 := hk.len
  unfold fmtCard
  simp only [hk.notCommentary, Bool.false_eq_true, if_false, List.head?_cons, if_true]
  by_cases hcom : com = []
  · subst hcom
    simp only [if_true] at hfit ⊢
    rw [padTo_take 80 _ (by simp only [List.length_append, padTo_length 8 key hk8, List.length_cons, List.length_nil] at hfit ⊢; omega)]
    have : padTo 80 (padTo 8 key ++ ['=', ' '] ++ '\'' :: (body ++ ['\'']))
        = padTo 8 key ++ '=' :: ' ' :: '\'' :: (body ++ '\'' :: List.replicate (80 - (padTo 8 key ++ ['=', ' '] ++ '\'' :: (body ++ ['\''])).length) ' ') := by
      simp [padTo]
    rw [this, parseCard_string_shape key body _ hk hb (blanks_shape _), parseComment_blanks]
  · simp only [hcom, if_false] at hfit ⊢
    rw [padTo_take 80 _ (by simp only [List.length_append, padTo, List.length_replicate, List.length_cons, List.length_nil] at hfit ⊢; omega)]
    have : padTo 80 (padTo 8 key ++ ['=', ' '] ++ padTo 20 ('\'' :: (body ++ ['\''])) ++ [' ', '/', ' '] ++ com)
        = padTo 8 key ++ '=' :: ' ' :: '\'' :: (body ++ '\'' :: (List.replicate (20 - ('\'' :: (body ++ ['\''])).length) ' ' ++ ' ' :: '/' :: ' ' :: (com ++ List.replicate (80 - (padTo 8 key ++ ['=', ' '] ++ padTo 20 ('\'' :: (body ++ ['\''])) ++ [' ', '/', ' '] ++ com).length) ' '))) := by
      simp [padTo]
    have hshape : ∀ (k : Nat) (t : Str), (List.replicate k ' ' ++ ' ' :: t = [] ∨ ∃ u, List.replicate k ' ' ++ ' ' :: t = ' ' :: u) := by
      intro k t
      cases k with
      | zero => exact Or.inr ⟨t, rfl⟩
      | succ k => exact Or.inr ⟨_, by rw [List.replicate_succ, List.cons_append]⟩
    have hpc : ∀ (k : Nat) (r : Str), parseComment (List.replicate k ' ' ++ ' ' :: '/' :: ' ' :: r) = trimRight r := by
      intro k r
      unfold parseComment
      rw [dropWhile_replicate_append _ (by simp)]
      simp
    rw [this, parseCard_string_shape key body _ hk hb (hshape _ _), hpc, trimRight_append_blanks, hct]

theorem cardRT_string (c : Card) (body : Str) (h : StringOK c body) (hend : c.key ≠ "END".toList)
    (hk : Lat c.key) (hv : Lat c.val) (hc : Lat c.com) : CardRT c :=
  ⟨parseCard_fmtCard_string c body h, hend, Lat.fmtCard hk hv hc⟩

/-- commentary cards (`COMMENT`, `HISTORY`, blank keyword): free text in columns 9-80 -/
theorem cardRT_commentary (key com : Str) (hk : isCommentary key = true) (hc : trimRight com = com)
    (hcl : com.length ≤ 72) (hclat : Lat com) : CardRT ⟨key, [], com⟩ := by
  have hkeys : key = "COMMENT".toList ∨ key = "HISTORY".toList ∨ key = [] := by
    simpa [isCommentary, or_assoc] using hk
  have hfacts : key.length ≤ 8 ∧ trimRight (padTo 8 key) = key ∧ key ≠ "HIERARCH".toList ∧ key ≠ "CONTINUE".toList
      ∧ key.any (· = ' ') = false ∧ key ≠ "END".toList ∧ Lat key := by
    rcases hkeys with rfl | rfl | rfl <;> (simp only [Lat]; decide)
  obtain ⟨h8, htr, hh, hcn, hany, hend, hlat⟩ := hfacts
  refine ⟨?_, hend, Lat.fmtCard hlat (fun _ h => by simp at h) hclat⟩
  unfold fmtCard
  simp only [hk, if_true]
  rw [padTo_take 80 _ (by simp only [List.length_append, padTo_length 8 key h8]; omega)]
  have : padTo 80 (padTo 8 key ++ com) = padTo 8 key ++ (com ++ List.replicate (80 - (padTo 8 key ++ com).length) ' ') := by
    simp [padTo]
  rw [this]
  unfold parseCard
  simp only [take8_padTo _ _ h8, drop8_padTo _ _ h8, htr, hh, hcn, hany, hk, Bool.true_or, if_true,
    trimRight_append_blanks, hc]
  simp

/-! ### instances: what `write_fits_core` puts into a header -/

example : CardRT (cardInt "ORDER0".toList 4294967295 "B-Spline Order".toList) :=
  cardRT_int _ _ _ ⟨by decide, by decide, by decide, by decide, by decide⟩ (by decide) (by simp only [Lat]; decide)
    (by decide) (by decide) (by decide) (by simp only [Lat]; decide)

example : CardRT (cardStr "NAME".toList "it's".toList []) :=
  cardRT_string _ "it''s   ".toList
    ⟨⟨by decide, by decide, by decide, by decide, by decide⟩, by decide, by decide, by decide, by decide⟩
    (by decide) (by simp only [Lat]; decide) (by simp only [Lat]; decide) (by simp only [Lat]; decide)

example : ∀ c ∈ primaryBoiler, CardRT c := by
  have : ∀ c ∈ primaryBoiler,
      parseCard (fmtCard c) = some c ∧ c.key ≠ "END".toList ∧ ∀ ch ∈ fmtCard c, ch.toNat < 256 := by decide
  exact fun c hc => ⟨(this c hc).1, (this c hc).2.1, (this c hc).2.2⟩

end PsV.Fits.Codec
