import PsV.Proofs.NnlsSolve
set_option linter.unusedSectionVars false
set_option linter.unusedVariables false
set_option linter.unusedSimpArgs false
/-!
# Termination of the `while (!feasible)` loop of BLOCK3 with exact solves on an SPD system

Measure: the size of the passive set `F` that the next `modify_factor` produces.  Every pass of the loop that does not
leave it removes at least one coefficient from `F`:
* "descent at boundary": the negative coefficients of the solve (there is at least one) are bound;
* `walk_descents` returned `feasible = false`: the accepted distance `α ∈ (0,1]` did not reduce the residual.  Were no
  coefficient clamped at `α`, the trial point would be the unprojected `x + α (x_F − x)`, and on an SPD system the
  objective strictly decreases along the segment from `x ≥ 0` towards the (different) minimiser `x_F` on `F`:
  `f(x + α d) − f(x) = −α (1 − α/2) dᵀAd < 0`.  So something was clamped, and it leaves `F`.
-/
namespace PsV.Nnls
open Finset Matrix

/-! ## counting -/

theorem countB_succ (n : ℕ) (p : ℕ → Bool) : countB (n+1) p = countB n p + (if p n then 1 else 0) := by
  unfold countB
  rw [List.range_succ, List.filter_append, List.length_append]
  by_cases h : p n = true <;> simp [h]

theorem countB_le_of_imp {n : ℕ} {p q : ℕ → Bool} (h : ∀ i, i < n → q i = true → p i = true) :
    countB n q ≤ countB n p := by
  induction n with
  | zero => simp [countB]
  | succ n ih =>
    rw [countB_succ, countB_succ]
    have := ih (fun i hi => h i (by omega))
    by_cases hq : q n = true
    · rw [if_pos hq, if_pos (h n (by omega) hq)]; omega
    · rw [if_neg hq]; split <;> omega

theorem countB_lt_of_imp {n : ℕ} {p q : ℕ → Bool} (h : ∀ i, i < n → q i = true → p i = true)
    (hw : ∃ i, i < n ∧ p i = true ∧ q i = false) : countB n q < countB n p := by
  induction n with
  | zero => obtain ⟨i, hi, _⟩ := hw; omega
  | succ n ih =>
    rw [countB_succ, countB_succ]
    obtain ⟨i, hi, hp, hq⟩ := hw
    rcases Nat.lt_succ_iff_lt_or_eq.mp hi with h1 | h1
    · have := ih (fun i hi => h i (by omega)) ⟨i, h1, hp, hq⟩
      by_cases hqn : q n = true
      · rw [if_pos hqn, if_pos (h n (by omega) hqn)]; omega
      · rw [if_neg hqn]; split <;> omega
    · subst h1
      have := countB_le_of_imp (n := i) (fun j hj => h j (by omega))
      rw [if_pos hp, if_neg (by rw [hq]; simp)]; omega

theorem countB_le (n : ℕ) (p : ℕ → Bool) : countB n p ≤ n := by
  unfold countB
  exact (List.length_filter_le _ _).trans (by simp)

theorem countB_exists {n : ℕ} {p : ℕ → Bool} (h : countB n p ≠ 0) : ∃ i, i < n ∧ p i = true := by
  by_contra hne
  apply h
  unfold countB
  rw [List.length_eq_zero_iff, List.filter_eq_nil_iff]
  intro i hi hp
  exact hne ⟨i, List.mem_range.mp hi, hp⟩

/-! ## strict decrease of the objective along the segment towards the minimiser on `F` -/

theorem seg_decrease {n : ℕ} (A : Matrix (Fin n) (Fin n) ℚ) (b u v : Fin n → ℚ) (hA : SPD A) (α : ℚ)
    (h0 : 0 < α) (h1 : α ≤ 1) (huv : v - u ≠ 0) (hopt : (v - u) ⬝ᵥ gradM A b v = 0) :
    qf A b (u + α • (v - u)) < qf A b u := by
  have hD := hA.2 _ huv
  have hg : gradM A b u = gradM A b v - A *ᵥ (v - u) := by
    unfold gradM
    rw [Matrix.mulVec_sub]; funext i; simp only [Pi.sub_apply]; ring
  rw [qf_expand hA.1, hg, smul_dotProduct, dotProduct_sub, hopt, Matrix.mulVec_smul, dotProduct_smul,
    smul_dotProduct]
  simp only [smul_eq_mul]
  have : α * ((v - u) ⬝ᵥ A *ᵥ (v - u)) > 0 := mul_pos h0 hD
  nlinarith

/-! ## the residual of the exact environment is twice the objective of the point restricted to `F` -/

/-- `xc` on `F`, zero elsewhere, as a vector of `Fin n → ℚ` -/
def restr (n : ℕ) (inF : ℕ → Bool) (xc : ℕ → ℚ) : Fin n → ℚ := fun i => if inF i then xc i else 0

/-- `calc_residual` is exact: `xᵀ(A x − 2b)` of the point restricted to `F` -/
def ExactResid (E : B3Env) (A : Mat) (b : Vec) : Prop :=
  ∀ (inF : ℕ → Bool) (xc : ℕ → ℚ), E.resid inF xc = 2 * qf (toMat E.n A) (toVec E.n b) (restr E.n inF xc)

theorem exactEnv_resid (n : ℕ) (A : Mat) (b : Vec) (tol : ℚ) (mi fu : ℕ) :
    ExactResid (exactEnv n A b tol mi fu) A b := by
  intro inF xc
  show (sumTo n fun i => if inF i then xc i * ((sumTo n fun j => if inF j then A i j * xc j else 0) - 2 * b i) else 0)
    = 2 * qf (toMat n A) (toVec n b) (restr n inF xc)
  rw [sumTo_eq]
  unfold qf
  simp only [dotProduct, Matrix.mulVec]
  rw [mul_sub, ← mul_assoc, show (2 : ℚ) * (1/2) = 1 by norm_num, one_mul, Finset.mul_sum, ← Finset.sum_sub_distrib]
  apply sum_congr rfl
  intro i _
  rw [sumTo_eq]
  have hin : ∑ j : Fin n, (if inF j then A i j * xc j else 0) = ∑ j : Fin n, toMat n A i j * restr n inF xc j := by
    apply sum_congr rfl; intro j _
    unfold restr toMat
    by_cases hj : inF j = true <;> simp [hj]
  rw [hin]
  unfold restr toVec
  by_cases hi : inF i = true
  · simp only [hi, if_true]; ring
  · simp only [hi]; simp

/-! ## `walk_descents` -/

theorem mem_insDesc (a y : ℚ) : ∀ l : List ℚ, y ∈ insDesc a l ↔ y = a ∨ y ∈ l := by
  intro l
  induction l with
  | nil => simp [insDesc]
  | cons b bs ih =>
    unfold insDesc
    split
    · simp
    · simp only [List.mem_cons, ih]; tauto

theorem mem_sortDesc (y : ℚ) : ∀ l : List ℚ, y ∈ sortDesc l ↔ y ∈ l := by
  intro l
  induction l with
  | nil => simp [sortDesc]
  | cons b bs ih =>
    show y ∈ insDesc b (sortDesc bs) ↔ _
    rw [mem_insDesc, ih]; simp

theorem walkAlphas_range {n : ℕ} {inF : ℕ → Bool} {x xF : ℕ → ℚ} {a : ℚ} (h : a ∈ walkAlphas n inF x xF) :
    0 < a ∧ a ≤ 1 := by
  unfold walkAlphas at h
  rcases List.mem_cons.mp h with h | h
  · rw [h]; exact ⟨one_pos, le_refl _⟩
  · rw [mem_sortDesc, List.mem_filterMap] at h
    obtain ⟨i, _, hi⟩ := h
    dsimp only at hi
    split_ifs at hi with hc
    simp only [Option.some.injEq] at hi
    rw [← hi]; exact ⟨hc.2, le_of_lt hc.1⟩

theorem walkScan_spec (E : B3Env) (inF : ℕ → Bool) (x xF : ℕ → ℚ) (res0 : ℚ) : ∀ l : List ℚ, l ≠ [] →
    (walkScan E inF x xF res0 l).1 ∈ l ∧
    ((walkScan E inF x xF res0 l).2 = false →
      ¬ (E.resid inF (trialVal inF x xF (walkScan E inF x xF res0 l).1) < res0)) := by
  intro l
  induction l with
  | nil => intro h; exact absurd rfl h
  | cons a t ih =>
    intro _
    cases t with
    | nil =>
      simp only [walkScan, List.mem_singleton, decide_eq_false_iff_not, true_and]
      exact fun h => h
    | cons b rest =>
      rw [walkScan]
      split_ifs with hc
      · exact ⟨List.mem_cons_self, fun h => by simp at h⟩
      · obtain ⟨h1, h2⟩ := ih (List.cons_ne_nil _ _)
        exact ⟨List.mem_cons_of_mem _ h1, h2⟩

theorem walkDescents_spec (E : B3Env) (inF : ℕ → Bool) (x xF : ℕ → ℚ) :
    (0 < (walkDescents E inF x xF).1 ∧ (walkDescents E inF x xF).1 ≤ 1) ∧
    ((walkDescents E inF x xF).2 = false →
      ¬ (E.resid inF (trialVal inF x xF (walkDescents E inF x xF).1) < E.resid inF (trialVal inF x xF 0))) := by
  unfold walkDescents
  obtain ⟨h1, h2⟩ := walkScan_spec E inF x xF (E.resid inF (trialVal inF x xF 0)) (walkAlphas E.n inF x xF)
    (by unfold walkAlphas; exact List.cons_ne_nil _ _)
  exact ⟨walkAlphas_range h1, h2⟩

/-- **an infeasible return of `walk_descents` clamps a coefficient** (exact solves, SPD system, `x ≥ 0`, and the
solve on `F` has a negative entry) -/
theorem walk_infeasible_clamps (E : B3Env) (A : Mat) (b : Vec) (hA : SPD (toMat E.n A)) (hE : ExactEnv E A b)
    (hR : ExactResid E A b) (inF : ℕ → Bool) (x : ℕ → ℚ) (hx : ∀ i, 0 ≤ x i)
    (hneg : ∃ i, i < E.n ∧ inF i = true ∧ at0 (E.solve inF) i < 0)
    (hw : (walkDescents E inF x (at0 (E.solve inF))).2 = false) :
    ∃ i, i < E.n ∧ trialClamp inF x (at0 (E.solve inF)) (walkDescents E inF x (at0 (E.solve inF))).1 i = true := by
  by_contra hno
  obtain ⟨⟨ha0, ha1⟩, hres⟩ := walkDescents_spec E inF x (at0 (E.solve inF))
  have hres := hres hw
  set α := (walkDescents E inF x (at0 (E.solve inF))).1 with hα
  set xF := at0 (E.solve inF) with hxF
  apply hres
  rw [hR, hR]
  have hnc : ∀ i : Fin E.n, inF i = true → ¬ ((1 - α) * x i + α * xF i < 0) := by
    intro i hi hlt
    apply hno
    refine ⟨i, i.2, ?_⟩
    unfold trialClamp
    rw [hi, Bool.true_and, decide_eq_true_eq]
    exact hlt
  have e0 : restr E.n inF (trialVal inF x xF 0) = restr E.n inF x := by
    funext i
    unfold restr trialVal
    by_cases hi : inF i = true
    · simp only [hi, if_true]
      have : ¬ ((1 - 0) * x i + 0 * xF i < 0) := by
        have := hx i; simp only [sub_zero, one_mul, zero_mul, add_zero, not_lt]; exact this
      rw [if_neg this]; ring
    · simp only [hi]; simp
  have e1 : restr E.n inF (trialVal inF x xF α)
      = restr E.n inF x + α • (restr E.n inF xF - restr E.n inF x) := by
    funext i
    unfold restr trialVal
    by_cases hi : inF i = true
    · simp only [hi, if_true, Pi.add_apply, Pi.smul_apply, Pi.sub_apply, smul_eq_mul]
      rw [if_neg (hnc i hi)]; ring
    · simp only [hi, Pi.add_apply, Pi.smul_apply, Pi.sub_apply, smul_eq_mul]; simp
  rw [e0, e1]
  have hgrad : ∀ i : Fin E.n, inF i = true → gradM (toMat E.n A) (toVec E.n b) (restr E.n inF xF) i = 0 := by
    intro i hi
    have := hE.solve_exact inF i i.2 hi
    rw [grad_eq] at this
    exact this
  have hopt : (restr E.n inF xF - restr E.n inF x) ⬝ᵥ gradM (toMat E.n A) (toVec E.n b) (restr E.n inF xF) = 0 := by
    apply Finset.sum_eq_zero
    intro i _
    by_cases hi : inF i = true
    · rw [hgrad i hi, mul_zero]
    · simp only [Pi.sub_apply, restr, hi]; simp
  have hne : restr E.n inF xF - restr E.n inF x ≠ 0 := by
    obtain ⟨i, hi, hFi, hlt⟩ := hneg
    intro h0
    have := congrFun h0 ⟨i, hi⟩
    simp only [Pi.sub_apply, restr, hFi, if_true, Pi.zero_apply] at this
    have := hx i
    linarith
  have := seg_decrease (toMat E.n A) (toVec E.n b) _ _ hA α ha0 ha1 hne hopt
  linarith

theorem walkScan_true (E : B3Env) (inF : ℕ → Bool) (x xF : ℕ → ℚ) (res0 : ℚ) : ∀ l : List ℚ,
    (walkScan E inF x xF res0 l).2 = true →
      E.resid inF (trialVal inF x xF (walkScan E inF x xF res0 l).1) < res0 := by
  intro l
  induction l with
  | nil => intro h; simp [walkScan] at h
  | cons a t ih =>
    cases t with
    | nil =>
      simp only [walkScan, decide_eq_true_eq]
      exact fun h => h
    | cons b rest =>
      rw [walkScan]
      split_ifs with hc
      · exact fun _ => hc
      · exact ih

/-- **an accepted projected step strictly decreases the objective on `F`**: when `walk_descents` returns
`feasible = true`, the objective of the new point (restricted to `F`) is strictly below that of the old one -/
theorem walk_feasible_decreases (E : B3Env) (A : Mat) (b : Vec) (hR : ExactResid E A b) (inF : ℕ → Bool)
    (x xF : ℕ → ℚ) (hx : ∀ i, 0 ≤ x i) (hw : (walkDescents E inF x xF).2 = true) :
    qf (toMat E.n A) (toVec E.n b) (restr E.n inF (trialVal inF x xF (walkDescents E inF x xF).1))
      < qf (toMat E.n A) (toVec E.n b) (restr E.n inF x) := by
  have h := walkScan_true E inF x xF (E.resid inF (trialVal inF x xF 0)) (walkAlphas E.n inF x xF) hw
  have e0 : restr E.n inF (trialVal inF x xF 0) = restr E.n inF x := by
    funext i
    unfold restr trialVal
    by_cases hi : inF i = true
    · simp only [hi, if_true]
      have : ¬ ((1 - 0) * x i + 0 * xF i < 0) := by
        have := hx i; simp only [sub_zero, one_mul, zero_mul, add_zero, not_lt]; exact this
      rw [if_neg this]; ring
    · simp only [hi]; simp
  change E.resid inF (trialVal inF x xF (walkDescents E inF x xF).1) < _ at h
  rw [hR, hR, e0] at h
  linarith

/-- **an accepted unconstrained solve strictly decreases the objective**: if `x` is supported on `F` and its gradient
does not vanish on `F` (e.g. `F` has just received a coefficient with a negative multiplier), the solve on `F` has a
strictly smaller objective -/
theorem full_step_decreases (E : B3Env) (A : Mat) (b : Vec) (hA : SPD (toMat E.n A)) (hE : ExactEnv E A b)
    (inF : ℕ → Bool) (x : ℕ → ℚ) (hsup : ∀ i, i < E.n → inF i = false → x i = 0)
    (hg : ∃ i, i < E.n ∧ inF i = true ∧ grad E.n A b x i ≠ 0) :
    qf (toMat E.n A) (toVec E.n b) (restr E.n inF (at0 (E.solve inF))) < qf (toMat E.n A) (toVec E.n b) (toVec E.n x) := by
  set v := restr E.n inF (at0 (E.solve inF)) with hv
  have hgrad : ∀ i : Fin E.n, inF i = true → gradM (toMat E.n A) (toVec E.n b) v i = 0 := by
    intro i hi
    have := hE.solve_exact inF i i.2 hi
    rw [grad_eq] at this
    exact this
  have hopt : (v - toVec E.n x) ⬝ᵥ gradM (toMat E.n A) (toVec E.n b) v = 0 := by
    apply Finset.sum_eq_zero
    intro i _
    by_cases hi : inF i = true
    · rw [hgrad i hi, mul_zero]
    · have hi' : inF i = false := by simpa using hi
      simp only [Pi.sub_apply, hv, restr, hi, toVec, hsup i i.2 hi']; simp
  have hne : v - toVec E.n x ≠ 0 := by
    obtain ⟨i, hi, hFi, hgi⟩ := hg
    intro h0
    have hvx : v = toVec E.n x := sub_eq_zero.mp h0
    apply hgi
    rw [grad_eq E.n A b x ⟨i, hi⟩, ← hvx]
    exact hgrad ⟨i, hi⟩ hFi
  have := seg_decrease (toMat E.n A) (toVec E.n b) (toVec E.n x) v hA 1 one_pos (le_refl _) hne hopt
  rwa [one_smul, add_sub_cancel] at this

/-! ## the `while (!feasible)` loop terminates -/

/-- the passive set after the next `modify_factor` -/
def nextF (s : B3State) (h2 : Array Bool) : ℕ → Bool := fun i => (atF s.inF i && !atF s.h1 i) || atF h2 i

theorem innerLoop_terminates (E : B3Env) (A : Mat) (b : Vec) (hA : SPD (toMat E.n A)) (hE : ExactEnv E A b)
    (hR : ExactResid E A b) : ∀ (fuel : ℕ) (s : B3State) (h2 : Array Bool), NN s →
    countB E.n (nextF s h2) < fuel → ∃ s', innerLoop E fuel s h2 = some s' := by
  intro fuel
  induction fuel with
  | zero => intro s h2 _ h; omega
  | succ f ih =>
    intro s h2 hs hm
    have hP : ∀ i, i < E.n →
        atF (tab E.n fun i => (atF s.inF i && !atF s.h1 i) || atF h2 i) i = nextF s h2 i := by
      intro i hi; rw [atF_tab, if_pos hi]; rfl
    rw [innerLoop]
    dsimp only
    split_ifs with c1 c2 c3
    · exact ⟨_, rfl⟩
    · -- descent at boundary
      obtain ⟨i, hi, hneg⟩ := countB_exists c1
      rw [Bool.and_eq_true, decide_eq_true_eq] at hneg
      apply ih
      · intro j
        show 0 ≤ at0 (tab E.n _) j
        rw [at0_tab]
        split
        · split
          · exact le_refl _
          · exact hs j
        · exact le_refl _
      · refine lt_of_lt_of_le (countB_lt_of_imp (p := nextF s h2) ?_ ⟨i, hi, ?_, ?_⟩) (Nat.lt_succ_iff.mp hm)
        · intro j hj hq
          unfold nextF at hq
          simp only [atF_empty, Bool.or_false, Bool.and_eq_true] at hq
          rw [← hP j hj]; exact hq.1
        · rw [← hP i hi]; exact hneg.1
        · unfold nextF
          simp only [atF_empty, Bool.or_false]
          have hH : atF (tab E.n fun i =>
              atF (tab E.n fun i => atF s.inF i && !atF s.h1 i || atF h2 i) i &&
                decide (at0 (E.solve (atF (tab E.n fun i => atF s.inF i && !atF s.h1 i || atF h2 i))) i < 0)) i
              = true := by
            rw [atF_tab, if_pos hi, hneg.1, decide_eq_true hneg.2]; rfl
          rw [hH]; simp
    · exact ⟨_, rfl⟩
    · -- walk, not feasible
      have hnn : ∀ j, 0 ≤ at0 (tab E.n (trialVal
          (atF (tab E.n fun i => (atF s.inF i && !atF s.h1 i) || atF h2 i)) (at0 s.x)
          (at0 (E.solve (atF (tab E.n fun i => (atF s.inF i && !atF s.h1 i) || atF h2 i))))
          (walkDescents E (atF (tab E.n fun i => (atF s.inF i && !atF s.h1 i) || atF h2 i)) (at0 s.x)
            (at0 (E.solve (atF (tab E.n fun i => (atF s.inF i && !atF s.h1 i) || atF h2 i))))).1)) j := by
        intro j
        rw [at0_tab]
        split
        · exact trialVal_nonneg _ _ _ _ _ (hs j)
        · exact le_refl _
      obtain ⟨i0, hi0, hneg0⟩ := countB_exists c1
      rw [Bool.and_eq_true, decide_eq_true_eq] at hneg0
      obtain ⟨i, hi, hcl⟩ := walk_infeasible_clamps E A b hA hE hR
        (atF (tab E.n fun i => (atF s.inF i && !atF s.h1 i) || atF h2 i)) (at0 s.x) hs
        ⟨i0, hi0, hneg0.1, hneg0.2⟩ (by simpa using c3)
      have hcl' := hcl
      unfold trialClamp at hcl'
      rw [Bool.and_eq_true] at hcl'
      apply ih
      · exact hnn
      · refine lt_of_lt_of_le (countB_lt_of_imp (p := nextF s h2) ?_ ⟨i, hi, ?_, ?_⟩) (Nat.lt_succ_iff.mp hm)
        · intro j hj hq
          unfold nextF at hq
          simp only [atF_empty, Bool.or_false, Bool.and_eq_true] at hq
          rw [← hP j hj]; exact hq.1
        · rw [← hP i hi]; exact hcl'.1
        · unfold nextF
          simp only [atF_empty, Bool.or_false]
          rw [atF_tab (f := trialClamp _ _ _ _), if_pos hi, hcl]; simp

/-- with `innerFuel > n` the model-only exit `innerFuel` is unreachable -/
theorem outerLoop_no_innerFuel (E : B3Env) (A : Mat) (b : Vec) (hA : SPD (toMat E.n A)) (hE : ExactEnv E A b)
    (hR : ExactResid E A b) (hfu : E.n < E.innerFuel) :
    ∀ (fuel : ℕ) (s : B3State), NN s → (outerLoop E fuel s).2 ≠ B3Exit.innerFuel := by
  intro fuel
  induction fuel with
  | zero => intro s _; simp [outerLoop]
  | succ f ih =>
    intro s hs
    rw [outerLoop]
    dsimp only
    split_ifs with c1
    · simp
    · have hs' : NN { s with h1 := tab E.n fun i => atF s.h1 i && !(!(atF s.inF i && !atF s.h1 i) && decide (at0 s.y i < -E.tol)) } :=
        fun i => hs i
      obtain ⟨s1, h1⟩ := innerLoop_terminates E A b hA hE hR E.innerFuel _
        (tab E.n fun i => (!(atF s.inF i && !atF s.h1 i) && decide (at0 s.y i < -E.tol)) && !atF s.h1 i) hs'
        (lt_of_le_of_lt (countB_le _ _) hfu)
      rw [h1]
      simp only
      apply ih
      have hnn1 : NN s1 := innerLoop_nn E _ _ _ _ hs' h1
      intro i
      show 0 ≤ at0 (tab E.n _) i
      rw [at0_tab]
      split
      · split
        · exact hnn1 i
        · exact le_refl _
      · exact le_refl _

end PsV.Nnls
