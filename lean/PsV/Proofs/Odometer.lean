import PsV.Model.Walk
import Mathlib.Tactic.Ring
/-!
# The odometer loops compute the nested block walk

For **every** arithmetic (no algebraic law is used: both sides perform the same operations on the same
operands in the same order, so the results are bit-identical under any deterministic arithmetic):

* `coreGeneric_eq_walk`   — the `while(true){…break…}` loop of `ndsplineeval_core` equals `PsV.walk`
  (the nested recursion the evaluation theorems C01/C02/C05 are stated about);
* `coreTemplated_eq_walk` — the `for (n < nchunks-1) {…} chunk;` loop of the templated cores equals it
  too whenever the chunk count taken from the template arguments is the table's.
-/
namespace PsV
open Arith
variable {α : Type} [A : Arith α]

/-- `basis_tree[ndim-1]` for given digits -/
def top (ds : List (ODim α)) (pos : List Nat) : α := (treeOf ds pos).headD A.zero

theorem top_cons (d : ODim α) (R : List (ODim α)) (a : Nat) (p : List Nat) :
    top (d :: R) (a :: p) = smul (top R p) (d.at a) := rfl

/-! ### abstract odometer: digits, tablepos, result; chunk function `C` -/

abbrev AState (α : Type) := List Nat × Int × α

def absSteps (C : α → Int → α → α) (ds : List (ODim α)) : Nat → AState α → AState α
  | 0, s => s
  | n + 1, (p, tp, res) =>
    let r := advance ds p tp
    absSteps C ds n (r.1, r.2.1, C (top ds p) tp res)

theorem absSteps_add (C : α → Int → α → α) (ds : List (ODim α)) :
    ∀ (a b : Nat) (s : AState α), absSteps C ds (a + b) s = absSteps C ds b (absSteps C ds a s) := by
  intro a
  induction a with
  | zero => intro b s; simp [absSteps]
  | succ a ih =>
    intro b s
    obtain ⟨p, tp, res⟩ := s
    have : a + 1 + b = (a + b) + 1 := by omega
    rw [this]
    simp only [absSteps]
    exact ih b _

/-- iterate the chunk over the remaining entries `a0 .. order` of the lowest digit -/
def rowFold (C : α → Int → α → α) (d : ODim α) (bt : α) : (m : Nat) → (a0 : Nat) → Int → α → α
  | 0, _, _, res => res
  | m + 1, a0, tp, res => rowFold C d bt m (a0 + 1) (tp + d.stride) (C (smul bt (d.at a0)) tp res)

/-- the chunk function of the odometer with the lowest digit `d` peeled off -/
def peel (C : α → Int → α → α) (d : ODim α) : α → Int → α → α :=
  fun bt tp res => rowFold C d bt (d.order + 1) 0 tp res

theorem advance_nocarry (d : ODim α) (R : List (ODim α)) (a : Nat) (p : List Nat) (tp : Int)
    (h : a + 1 ≤ d.order) : advance (d :: R) (a :: p) tp = ((a + 1) :: p, tp + d.stride, 0) := by
  simp only [advance, carry]
  have : ¬ (a + 1 > d.order) := by omega
  simp [this]

theorem advance_carry (d : ODim α) (R : List (ODim α)) (p : List Nat) (tp : Int) (hl : p.length = R.length) :
    advance (d :: R) (d.order :: p) (tp + (d.order : Int) * d.stride) =
      (0 :: (advance R p tp).1, (advance R p tp).2.1, (advance R p tp).2.2 + 1) := by
  simp only [advance, carry]
  have : d.order + 1 > d.order := by omega
  simp only [this, if_true]
  cases R with
  | nil =>
    cases p with
    | nil => simp [advance]; push_cast; ring
    | cons _ _ => simp at hl
  | cons e R' =>
    cases p with
    | nil => simp at hl
    | cons q qs =>
      simp only [advance]
      have e1 : tp + (d.order : Int) * d.stride + d.stride + e.stride - ((d.order + 1 : Nat) : Int) * d.stride = tp + e.stride := by
        push_cast; ring
      rw [e1]
      simp only [carry]

/-- **Block lemma.**  Running the lowest digit from `a0` to overflow performs the remaining row of chunks and
ends with one `advance` of the remaining odometer. -/
theorem absSteps_block (C : α → Int → α → α) (d : ODim α) (R : List (ODim α)) (p : List Nat)
    (hl : p.length = R.length) (tp : Int) :
    ∀ (m a0 : Nat) (res : α), a0 + m = d.order + 1 →
      absSteps C (d :: R) m (a0 :: p, tp + (a0 : Int) * d.stride, res) =
        (0 :: (advance R p tp).1, (advance R p tp).2.1,
          rowFold C d (top R p) m a0 (tp + (a0 : Int) * d.stride) res) ∨ m = 0 := by
  intro m
  induction m with
  | zero => intro a0 res _; exact Or.inr rfl
  | succ m ih =>
    intro a0 res h
    left
    simp only [absSteps, rowFold, top_cons]
    by_cases hm : m = 0
    · subst hm
      have ha : a0 = d.order := by omega
      subst ha
      rw [advance_carry d R p tp hl]
      simp [absSteps, rowFold]
    · rw [advance_nocarry d R a0 p _ (by omega)]
      have e : tp + (a0 : Int) * d.stride + d.stride = tp + ((a0 + 1 : Nat) : Int) * d.stride := by push_cast; ring
      simp only [e]
      rcases ih (a0 + 1) (C (smul (top R p) (d.at a0)) (tp + (a0 : Int) * d.stride) res) (by omega) with h' | h'
      · rw [h']
      · exact absurd h' hm

theorem absSteps_block' (C : α → Int → α → α) (d : ODim α) (R : List (ODim α)) (p : List Nat)
    (hl : p.length = R.length) (tp : Int) (res : α) :
    absSteps C (d :: R) (d.order + 1) (0 :: p, tp, res) =
      (0 :: (advance R p tp).1, (advance R p tp).2.1, peel C d (top R p) tp res) := by
  have := absSteps_block C d R p hl tp (d.order + 1) 0 res (by omega)
  simp only [Nat.cast_zero, Int.zero_mul, Int.add_zero] at this
  rcases this with h | h
  · exact h
  · omega

theorem advance_length : ∀ (ds : List (ODim α)) (p : List Nat) (tp : Int), p.length = ds.length →
    (advance ds p tp).1.length = ds.length := by
  intro ds
  induction ds with
  | nil => intro p tp h; simpa [advance] using h
  | cons d R ih =>
    intro p tp h
    cases p with
    | nil => simp at h
    | cons a ps =>
      simp only [advance, carry]
      split
      · cases R with
        | nil => cases ps <;> simp_all
        | cons e R' =>
          cases ps with
          | nil => simp at h
          | cons q qs =>
            have := ih (q :: qs) (tp + d.stride - ((a + 1 : Nat) : Int) * d.stride) (by simpa using h)
            simp only [advance] at this
            simp only [List.length_cons] at this ⊢
            have e : tp + d.stride - ((a + 1 : Nat) : Int) * d.stride + e.stride = tp + d.stride + e.stride - ((a + 1 : Nat) : Int) * d.stride := by ring
            rw [e] at this
            omega
      · simpa using h

/-- the odometer with its lowest digit at 0 simulates the odometer without that digit -/
theorem absSteps_lift (C : α → Int → α → α) (d : ODim α) (R : List (ODim α)) :
    ∀ (n : Nat) (p : List Nat) (tp : Int) (res : α), p.length = R.length →
      absSteps C (d :: R) ((d.order + 1) * n) (0 :: p, tp, res) =
        (0 :: (absSteps (peel C d) R n (p, tp, res)).1, (absSteps (peel C d) R n (p, tp, res)).2) := by
  intro n
  induction n with
  | zero => intro p tp res _; simp [absSteps]
  | succ n ih =>
    intro p tp res hl
    have : (d.order + 1) * (n + 1) = (d.order + 1) + (d.order + 1) * n := by ring
    rw [this, absSteps_add, absSteps_block' C d R p hl tp res]
    simp only [absSteps]
    exact ih _ _ _ (advance_length R p tp hl)

/-- nested evaluation, peeling the lowest digit first -/
def nestedR : List (ODim α) → (α → Int → α → α) → α → Int → α → α
  | [], C, bt, tp, res => C bt tp res
  | d :: R, C, bt, tp, res => nestedR R (peel C d) bt tp res

theorem absSteps_all : ∀ (ds : List (ODim α)) (C : α → Int → α → α) (tp : Int) (res : α),
    (absSteps C ds (nchunksOf ds) (ds.map fun _ => 0, tp, res)).2.2 = nestedR ds C (A.rnd A.one) tp res := by
  intro ds
  induction ds with
  | nil => intro C tp res; simp [absSteps, nchunksOf, nestedR, top, treeOf]
  | cons d R ih =>
    intro C tp res
    simp only [nchunksOf, List.map_cons, nestedR]
    rw [absSteps_lift C d R (nchunksOf R) (R.map fun _ => 0) tp res (by simp)]
    exact ih (peel C d) tp res

/-! ### `peel` of a nested walk is the nested walk with one more row -/

/-- chunk = the nested walk over already peeled rows `inner` followed by the last dimension -/
def G (coef : Int → α) (inner : List (Nat × List α)) (last : List α) : α → Int → α → α :=
  fun bt tp res => walk coef (inner ++ [(1, last)]) bt tp res

def rowOf (d : ODim α) : Nat × List α := (d.stride, (List.range (d.order + 1)).map d.at)

theorem walkRow_rowFold (coef : Int → α) (d : ODim α) (inner : List (Nat × List α)) (last : List α) (bt : α) :
    ∀ (m a0 : Nat) (tp : Int) (res : α),
      walkRow coef d.stride (inner ++ [(1, last)]) bt ((List.range' a0 m).map d.at) tp res =
        rowFold (G coef inner last) d bt m a0 tp res := by
  intro m
  induction m with
  | zero => intro a0 tp res; simp [walkRow, rowFold]
  | succ m ih =>
    intro a0 tp res
    simp only [List.range'_succ, List.map_cons, walkRow, rowFold, G]
    exact ih (a0 + 1) _ _

theorem peel_G (coef : Int → α) (d : ODim α) (inner : List (Nat × List α)) (last : List α) :
    peel (G coef inner last) d = G coef (rowOf d :: inner) last := by
  funext bt tp res
  simp only [peel, G, rowOf, List.cons_append]
  have hne : ∃ r rest, inner ++ [(1, last)] = r :: rest := by
    cases inner with
    | nil => exact ⟨_, _, rfl⟩
    | cons r rest => exact ⟨_, _, rfl⟩
  obtain ⟨r, rest, hr⟩ := hne
  rw [hr]
  simp only [walk]
  rw [← hr, List.range_eq_range', walkRow_rowFold]

theorem nestedR_G (coef : Int → α) (last : List α) : ∀ (ds : List (ODim α)) (inner : List (Nat × List α)) (bt : α) (tp : Int) (res : α),
    nestedR ds (G coef inner last) bt tp res = G coef (ds.reverse.map rowOf ++ inner) last bt tp res := by
  intro ds
  induction ds with
  | nil => intro inner bt tp res; simp [nestedR]
  | cons d R ih =>
    intro inner bt tp res
    simp only [nestedR, peel_G, ih, List.reverse_cons, List.map_append, List.map_cons, List.map_nil, List.append_assoc,
      List.cons_append, List.nil_append]

/-! ### the concrete loops follow the abstract odometer -/

theorem rebuild_treeOf : ∀ (m : Nat) (ds : List (ODim α)) (p p' : List Nat), p.length = ds.length → p'.length = ds.length →
    p'.drop m = p.drop m → rebuild m ds p' (treeOf ds p) = treeOf ds p' := by
  intro m
  induction m with
  | zero => intro ds p p' _ _ h; simp only [List.drop_zero] at h; subst h; cases ds <;> cases p' <;> rfl
  | succ m ih =>
    intro ds p p' h1 h2 h
    cases ds with
    | nil => cases p <;> cases p' <;> simp_all [rebuild, treeOf]
    | cons d R =>
      cases p with
      | nil => simp at h1
      | cons a ps =>
        cases p' with
        | nil => simp at h2
        | cons a' ps' =>
          simp only [List.drop_succ_cons] at h
          simp only [treeOf, rebuild]
          rw [ih R ps ps' (by simpa using h1) (by simpa using h2) h]

theorem advance_drop : ∀ (ds : List (ODim α)) (p : List Nat) (tp : Int), p.length = ds.length →
    (advance ds p tp).1.drop ((advance ds p tp).2.2 + 1) = p.drop ((advance ds p tp).2.2 + 1) := by
  intro ds
  induction ds with
  | nil => intro p tp h; cases p <;> simp_all [advance]
  | cons d R ih =>
    intro p tp h
    cases p with
    | nil => simp at h
    | cons a ps =>
      simp only [advance, carry]
      split
      · cases R with
        | nil => cases ps <;> simp_all
        | cons e R' =>
          cases ps with
          | nil => simp at h
          | cons q qs =>
            have := ih (q :: qs) (tp + d.stride - ((a + 1 : Nat) : Int) * d.stride) (by simpa using h)
            simp only [advance] at this
            have e' : tp + d.stride - ((a + 1 : Nat) : Int) * d.stride + e.stride = tp + d.stride + e.stride - ((a + 1 : Nat) : Int) * d.stride := by ring
            rw [e'] at this
            simp only [List.drop_succ_cons]
            exact this
      · simp

/-- invariant of the concrete state: the stored basis tree is the one of the stored digits -/
def TreeOK (ds : List (ODim α)) (s : OdoState α) : Prop := s.pos.length = ds.length ∧ s.tree = treeOf ds s.pos

theorem tick_ok (ds : List (ODim α)) (s : OdoState α) (h : TreeOK ds s) :
    TreeOK ds (tick ds s) ∧ (tick ds s).pos = (advance ds s.pos s.tablepos).1 ∧
      (tick ds s).tablepos = (advance ds s.pos s.tablepos).2.1 ∧ (tick ds s).result = s.result := by
  obtain ⟨hl, ht⟩ := h
  have hl' := advance_length ds s.pos s.tablepos hl
  refine ⟨⟨hl', ?_⟩, rfl, rfl, rfl⟩
  simp only [tick, ht]
  exact rebuild_treeOf _ ds s.pos _ hl hl' (advance_drop ds s.pos s.tablepos hl)

def Cl (coef : Int → α) (last : List α) : α → Int → α → α := G coef [] last

theorem Cl_eq (coef : Int → α) (last : List α) (bt : α) (tp : Int) (res : α) :
    Cl coef last bt tp res = walkLast coef bt last tp res := by
  simp [Cl, G, walk]

theorem chunk_abs (coef : Int → α) (ds : List (ODim α)) (last : List α) (s : OdoState α) (h : TreeOK ds s) :
    (chunk coef last s).result = Cl coef last (top ds s.pos) s.tablepos s.result ∧ TreeOK ds (chunk coef last s) ∧
      (chunk coef last s).pos = s.pos ∧ (chunk coef last s).tablepos = s.tablepos := by
  refine ⟨?_, h, rfl, rfl⟩
  simp only [chunk, Cl_eq, top, h.2]

theorem loopGeneric_abs (coef : Int → α) (ds : List (ODim α)) (last : List α) (N : Nat) :
    ∀ (fuel n : Nat) (s : OdoState α), TreeOK ds s → n + fuel = N → 1 ≤ fuel →
      loopGeneric coef ds last N fuel n s =
        (absSteps (Cl coef last) ds fuel (s.pos, s.tablepos, s.result)).2.2 := by
  intro fuel
  induction fuel with
  | zero => intro n s _ _ h; omega
  | succ f ih =>
    intro n s hs hn _
    obtain ⟨c1, c2, c3, c4⟩ := chunk_abs coef ds last s hs
    simp only [loopGeneric, absSteps]
    by_cases hlast : n + 1 = N
    · have hf : f = 0 := by omega
      subst hf
      simp only [hlast, if_true, absSteps, c1]
    · simp only [hlast, if_false]
      obtain ⟨t1, t2, t3, t4⟩ := tick_ok ds (chunk coef last s) c2
      rw [ih (n + 1) (tick ds (chunk coef last s)) t1 (by omega) (by omega), t2, t3, t4, c1, c3, c4]

theorem loopTemplated_abs (coef : Int → α) (ds : List (ODim α)) (last : List α) :
    ∀ (k : Nat) (s : OdoState α), TreeOK ds s →
      loopTemplated coef ds last k s = (absSteps (Cl coef last) ds (k + 1) (s.pos, s.tablepos, s.result)).2.2 := by
  intro k
  induction k with
  | zero =>
    intro s hs
    obtain ⟨c1, _, _, _⟩ := chunk_abs coef ds last s hs
    simp only [loopTemplated, absSteps, c1]
  | succ k ih =>
    intro s hs
    obtain ⟨c1, c2, c3, c4⟩ := chunk_abs coef ds last s hs
    obtain ⟨t1, t2, t3, t4⟩ := tick_ok ds (chunk coef last s) c2
    simp only [loopTemplated]
    rw [ih _ t1, t2, t3, t4, c1, c3, c4]
    rfl

theorem nchunksOf_pos : ∀ (ds : List (ODim α)), 1 ≤ nchunksOf ds := by
  intro ds
  induction ds with
  | nil => simp [nchunksOf]
  | cons d R ih => simp only [nchunksOf]; exact Nat.mul_pos (by omega) ih

theorem initState_ok (ds : List (ODim α)) (start : Int) : TreeOK ds (initState ds start) := by
  simp [TreeOK, initState]

/-- **The generic core's loop is the nested walk** (any arithmetic). -/
theorem coreGeneric_eq_walk (coef : Int → α) (ds : List (ODim α)) (last : List α) (start : Int) :
    coreGeneric coef ds last start =
      walk coef (ds.reverse.map rowOf ++ [(1, last)]) (A.rnd A.one) start (A.rnd A.zero) := by
  unfold coreGeneric
  rw [loopGeneric_abs coef ds last (nchunksOf ds) (nchunksOf ds) 0 _ (initState_ok ds start) (by omega) (nchunksOf_pos ds)]
  simp only [initState]
  rw [absSteps_all ds (Cl coef last) start (A.rnd A.zero)]
  simp only [Cl, nestedR_G, G, List.append_nil]

/-- **The templated cores' loop is the nested walk** whenever their compile-time chunk count is the
table's (which `C03_dispatch_sound_*` guarantees for the routine `get_evaluator` selects). -/
theorem coreTemplated_eq_walk (coef : Int → α) (ds : List (ODim α)) (last : List α) (start : Int) (nchunks : Nat)
    (h : nchunks = nchunksOf ds) :
    coreTemplated coef ds last start nchunks =
      walk coef (ds.reverse.map rowOf ++ [(1, last)]) (A.rnd A.one) start (A.rnd A.zero) := by
  unfold coreTemplated
  rw [loopTemplated_abs coef ds last _ _ (initState_ok ds start)]
  have hp := nchunksOf_pos ds
  have e : nchunks - 1 + 1 = nchunksOf ds := by omega
  simp only [initState, e]
  rw [absSteps_all ds (Cl coef last) start (A.rnd A.zero)]
  simp only [Cl, nestedR_G, G, List.append_nil]

theorem coreTemplated_eq_generic (coef : Int → α) (ds : List (ODim α)) (last : List α) (start : Int) (nchunks : Nat)
    (h : nchunks = nchunksOf ds) :
    coreTemplated coef ds last start nchunks = coreGeneric coef ds last start := by
  rw [coreTemplated_eq_walk coef ds last start nchunks h, coreGeneric_eq_walk]

end PsV
