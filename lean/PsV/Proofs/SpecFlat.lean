import PsV.Spec.BSpline
import PsV.Proofs.Field
import PsV.Proofs.Permute
import Mathlib.Algebra.BigOperators.Ring.Finset
/-!
The nested specification sum `specSum` (C01's meaning of an evaluation) over row-major strides is the
flat sum over all stored coefficients, `Σ_q coef[pos+q] · Π_k row_k[digit_k q]` — the form in which
C15 states invariance under permutation of the dimensions (`PsV.Permute.tensorEval`).
-/
namespace PsV
open PsV.Permute
variable {α : Type} [Field α] [LinearOrder α]
attribute [local instance] Arith.ofField

/-- product of one weight per row, selected by a multi-index -/
def rowProd : List (Nat × List α) → List Nat → α
  | (_, fs) :: rows, i :: is => fs.getD i 0 * rowProd rows is
  | _, _ => 1

theorem specSumRow_eq_sum (inner : α → Int → α) (s : Nat) (p : α) :
    ∀ (fs : List α) (pos : Int), specSumRow inner s p fs pos =
      ∑ i ∈ Finset.range fs.length, inner (p * fs.getD i 0) (pos + (i : Int) * s) := by
  intro fs
  induction fs with
  | nil => intro pos; simp [specSumRow]
  | cons f fs ih =>
    intro pos
    simp only [specSumRow, of_add, of_mul, ih, List.length_cons]
    rw [Finset.sum_range_succ']
    simp only [List.getD_cons_succ, List.getD_cons_zero, Nat.cast_zero, zero_mul, add_zero, Nat.cast_add, Nat.cast_one]
    rw [add_comm]
    congr 1
    apply Finset.sum_congr rfl
    intro i _
    congr 1
    ring

theorem sum_range_mul_split {M : Type} [AddCommMonoid M] (g : Nat → M) (m : Nat) :
    ∀ n : Nat, ∑ q ∈ Finset.range (n * m), g q = ∑ i ∈ Finset.range n, ∑ r ∈ Finset.range m, g (m * i + r) := by
  intro n
  induction n with
  | zero => simp
  | succ n ih =>
    rw [Finset.sum_range_succ, ← ih, Nat.succ_mul, Finset.sum_range_add]
    congr 1
    apply Finset.sum_congr rfl
    intro r _
    rw [Nat.mul_comm]

/-- **nested sum = flat sum over all coefficients** (strides row-major for the row lengths) -/
theorem specSum_flat (coef : Int → α) :
    ∀ (rows : List (Nat × List α)), rows.map Prod.fst = rowMajor (rows.map fun r => r.2.length) →
      ∀ (p : α) (pos : Int), specSum coef rows p pos =
        p * ∑ q ∈ Finset.range (prodL (rows.map fun r => r.2.length)),
          rowProd rows (digits (rows.map fun r => r.2.length) q) * coef (pos + (q : Int)) := by
  intro rows
  induction rows with
  | nil => intro _ p pos; simp [specSum, prodL, rowProd, digits]
  | cons r rest ih =>
    obtain ⟨s, fs⟩ := r
    intro hs p pos
    simp only [List.map_cons, rowMajor, List.cons.injEq] at hs
    obtain ⟨hs1, hs2⟩ := hs
    simp only [specSum, List.map_cons, prodL]
    rw [specSumRow_eq_sum, sum_range_mul_split, Finset.mul_sum]
    apply Finset.sum_congr rfl
    intro i hi
    rw [ih hs2, Finset.mul_sum, Finset.mul_sum]
    apply Finset.sum_congr rfl
    intro r hr
    have hi' : i < fs.length := Finset.mem_range.1 hi
    have hr' : r < prodL (rest.map fun r => r.2.length) := Finset.mem_range.1 hr
    simp only [digits, rowProd]
    rw [digits_shift _ _ _ _ (dvd_refl _)]
    have hd : (prodL (rest.map fun r => r.2.length) * i + r) / prodL (rest.map fun r => r.2.length) % fs.length = i := by
      rw [Nat.mul_add_div (by omega), Nat.div_eq_of_lt hr', Nat.add_zero, Nat.mod_eq_of_lt hi']
    rw [hd, hs1]
    have : pos + (i : Int) * ((prodL (rest.map fun r => r.2.length) : Nat) : Int) + (r : Int)
        = pos + ((prodL (rest.map fun r => r.2.length) * i + r : Nat) : Int) := by push_cast; ring
    rw [this]
    ring

end PsV
