import PsV.Proofs.RoundingMargin
import PsV.Proofs.RoundingEval
import PsV.Proofs.EvalSpec
/-!
Forward error of `ndsplineeval` at **every** point the lookup accepts (interior, margins, knots):
the hypotheses are those of the exact theorem `ndsplineeval_eq_specEval` (`AllOK`).
-/
namespace PsV
variable {F : Type} [Field F] [LinearOrder F] [IsStrictOrderedRing F]
variable {ε : F} {fl st : F → F}
attribute [local instance] Arith.ofField

section
variable (hε : 0 ≤ ε) (hfl : ∀ a, RelErr ε 1 a (fl a)) (hst : ∀ a, RelErr ε 1 a (st a))
include hε hfl hst

theorem rows_rel_all (n : Nat) : ∀ (ds : List (Dim F)) (xs : List F) (cs : List Nat),
    AllOK ds xs cs → (∀ d ∈ ds, d.order ≤ n) →
    RowsRel ε (1 + 7 * n)
      (@rows F (Arith.ofField F) ds xs cs (List.replicate ds.length .value))
      (@rows F (Arith.rounded fl st) ds xs cs (List.replicate ds.length .value)) ∧
    nterms (@rows F (Arith.ofField F) ds xs cs (List.replicate ds.length .value)) ≤ blockSize ds ∧
    (@rows F (Arith.ofField F) ds xs cs (List.replicate ds.length .value)).length = ds.length := by
  intro ds
  induction ds with
  | nil => intro xs cs _ _; simp [rows, RowsRel, nterms, blockSize]
  | cons d ds ih =>
    intro xs cs h hn
    match xs, cs, h with
    | x :: xs, c :: cs, ⟨⟨_, hc, hnd⟩, hrest⟩ =>
      obtain ⟨i1, i2, i3⟩ := ih xs cs hrest (fun e he => hn e (by simp [he]))
      have hrow := bsplvbSimple_relerr_all hε hfl hst d.knots d.nknots x c d.order hc hnd
      have hlen := bsplvbSimple_length d.knots d.nknots d.order x c hc hnd
      simp only [List.length_cons, List.replicate_succ, rows, localRow]
      refine ⟨List.Forall₂.cons ⟨rfl, ?_, hrow.2⟩ i1, ?_, by simp [i3]⟩
      · exact List.Forall₂.imp (fun a b hab => hab.mono hε (by have := hn d (by simp); omega)) hrow.1
      · cases hr : @rows F (Arith.ofField F) ds xs cs (List.replicate ds.length .value) with
        | nil =>
          simp only [nterms, blockSize, hlen]
          exact Nat.le_mul_of_pos_right _ (blockSize_pos ds)
        | cons r rest =>
          simp only [nterms, blockSize, hlen]
          rw [hr] at i2
          exact Nat.mul_le_mul_left _ i2

/-- **Forward error of value evaluation at every accepted point** (interior, margins, knots). -/
theorem ndsplineeval_rounding_all (T : Table F) (xs : List F) (cs : List Nat) (n : Nat)
    (hok : AllOK T.dims xs cs) (hn : ∀ d ∈ T.dims, d.order ≤ n) :
    |@ndsplineeval F (Arith.rounded fl st) T xs cs 0 - @ndsplineeval F (Arith.ofField F) T xs cs 0| ≤
      gfac ε (3 + T.dims.length * (7 * n + 3) + 2 * blockSize T.dims) *
        @ndsplineeval F (Arith.ofField F) ⟨T.dims, fun i => |T.coef i|⟩ xs cs 0 := by
  unfold ndsplineeval
  simp only [maskModes_zero']
  unfold evalModes
  simp only [of_rnd, of_one, of_zero, rd_rnd, rd_one, rd_zero]
  obtain ⟨hrel, hnt, hlen⟩ := rows_rel_all hε hfl hst n T.dims xs cs hok hn
  have hst0 : st 0 = 0 := (hst 0).zero_left hε
  rw [hst0]
  have hone : RelErr ε 1 (1 : F) (st 1) := hst 1
  have kt_ok : 1 + (@rows F (Arith.ofField F) T.dims xs cs (List.replicate T.dims.length .value)).length * (1 + 7 * n + 2) + 2
      ≤ 3 + T.dims.length * (7 * n + 3) := by rw [hlen]; ring_nf; omega
  have h := walk_err hε hfl hst T.coef (3 + T.dims.length * (7 * n + 3)) (1 + 7 * n) _ _ hrel 1 1 (st 1) hone
    zero_le_one kt_ok (startPos T.dims cs) 0 0 0 0 (by simp [Acc])
  have h' := h.mono hε (K' := 3 + T.dims.length * (7 * n + 3) + 2 * blockSize T.dims) (by omega)
  exact h'.1

end
end PsV
