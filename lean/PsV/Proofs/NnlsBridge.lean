import PsV.Proofs.NnlsElim
set_option linter.unusedSectionVars false
set_option linter.unusedVariables false
set_option linter.unusedSimpArgs false
/-!
# The executable `gaussJordan` (arrays of arrays) computes `fgj` (entry functions)
-/
namespace PsV.Nnls

/-- entry `(r, j)` of an array of rows, `0` outside -/
def ent (M : Array (Array ℚ)) : FM := fun r j => (M.getD r #[]).getD j 0

/-- `k` rows of length `k+1` -/
def Shape (k : ℕ) (M : Array (Array ℚ)) : Prop := M.size = k ∧ ∀ r, r < k → (M.getD r #[]).size = k + 1

/-- the array `M` has the right shape and its entries in the box are those of `F` -/
def Rel (k : ℕ) (M : Array (Array ℚ)) (F : FM) : Prop := Shape k M ∧ ∀ r j, r < k → j ≤ k → ent M r j = F r j

/-- the body of the `foldlM` in `gaussJordan` -/
def gjStep (st : Array (Array ℚ) × List ℚ) (c : ℕ) : Option (Array (Array ℚ) × List ℚ) :=
  let rowc := st.1.getD c #[]
  let p := rowc.getD c 0
  if p = 0 then none else
  let rowc' := rowc.map (· / p)
  some (st.1.mapIdx (fun r row =>
      if r = c then rowc' else
        let f := row.getD c 0
        if f = 0 then row else Array.zipWith (fun a b => a - f * b) row rowc'), st.2 ++ [p])

/-- the matrix after the step with pivot `p` at `(c,c)` -/
def gjNext (M : Array (Array ℚ)) (c : ℕ) (p : ℚ) : Array (Array ℚ) :=
  M.mapIdx (fun r row =>
      if r = c then (M.getD c #[]).map (· / p) else
        let f := row.getD c 0
        if f = 0 then row else Array.zipWith (fun a b => a - f * b) row ((M.getD c #[]).map (· / p)))

theorem gaussJordan_eq (k : ℕ) (M : Array (Array ℚ)) :
    gaussJordan k M = (List.range k).foldlM gjStep (M, []) := rfl

theorem getD_mapIdx' {α β : Type} (f : ℕ → α → β) (M : Array α) (r : ℕ) (d : α) (d' : β) (h : r < M.size) :
    (M.mapIdx f).getD r d' = f r (M.getD r d) := by
  simp [Array.getD_eq_getD_getElem?, h]

theorem getD_map' (f : ℚ → ℚ) (a : Array ℚ) (j : ℕ) (h : j < a.size) :
    (a.map f).getD j 0 = f (a.getD j 0) := by
  simp [Array.getD_eq_getD_getElem?, h]

theorem getD_map_arr {β : Type} (f : Array ℚ → β) (a : Array (Array ℚ)) (j : ℕ) (d : β) (h : j < a.size) :
    (a.map f).getD j d = f (a.getD j #[]) := by
  simp [Array.getD_eq_getD_getElem?, h]

theorem getD_zipWith' (f : ℚ → ℚ → ℚ) (a b : Array ℚ) (j : ℕ) (ha : j < a.size) (hb : j < b.size) :
    (Array.zipWith f a b).getD j 0 = f (a.getD j 0) (b.getD j 0) := by
  simp [Array.getD_eq_getD_getElem?, ha, hb]

theorem gjStep_rel {k c : ℕ} {M : Array (Array ℚ)} {F : FM} (acc : List ℚ) (h : Rel k M F) (hc : c < k) :
    (F c c = 0 → gjStep (M, acc) c = none) ∧
    (F c c ≠ 0 → ∃ M', gjStep (M, acc) c = some (M', acc ++ [F c c]) ∧ Rel k M' (elim F c)) := by
  obtain ⟨⟨hsz, hrow⟩, hent⟩ := h
  have hp : (M.getD c #[]).getD c 0 = F c c := hent c c hc (by omega)
  constructor
  · intro h0
    unfold gjStep
    simp only [hp, h0, if_true]
  · intro h0
    refine ⟨gjNext M c (F c c), ?_, ?_⟩
    · unfold gjStep gjNext
      simp only [hp, if_neg h0]
    · unfold gjNext
      have hrc_sz : (Array.map (fun x => x / F c c) (M.getD c #[])).size = k + 1 := by
        rw [Array.size_map]; exact hrow c hc
      refine ⟨⟨by rw [Array.size_mapIdx]; exact hsz, ?_⟩, ?_⟩
      · intro r hr
        rw [getD_mapIdx' _ M r #[] #[] (by omega)]
        dsimp only
        split_ifs with h1 h2
        · exact hrc_sz
        · exact hrow r hr
        · rw [Array.size_zipWith, hrc_sz, hrow r hr]; simp
      · intro r j hr hj
        unfold ent
        rw [getD_mapIdx' _ M r #[] #[] (by omega)]
        dsimp only
        have hcj : (Array.map (fun x => x / F c c) (M.getD c #[])).getD j 0 = F c j / F c c := by
          rw [getD_map' _ _ _ (by rw [hrow c hc]; omega)]
          show ent M c j / F c c = _
          rw [hent c j hc hj]
        have hrc' : (M.getD r #[]).getD c 0 = F r c := hent r c hr (by omega)
        have hrj : (M.getD r #[]).getD j 0 = F r j := hent r j hr hj
        unfold elim
        split_ifs with h1 h2
        · exact hcj
        · rw [hrj, ← hrc', h2]; ring
        · rw [getD_zipWith' _ _ _ _ (by rw [hrow r hr]; omega) (by rw [hrc_sz]; omega), hcj, hrj, hrc']

/-- **Bridge**: on related inputs the executable fold and `fgj` fail together or succeed with the same pivots and
related results. -/
theorem gj_bridge {k : ℕ} : ∀ (cs : List ℕ) (M : Array (Array ℚ)) (F : FM) (acc : List ℚ), Rel k M F →
    (∀ c ∈ cs, c < k) →
    (cs.foldlM gjStep (M, acc) = none ∧ fgj cs F = none) ∨
    (∃ R R' ps, cs.foldlM gjStep (M, acc) = some (R, acc ++ ps) ∧ fgj cs F = some (R', ps) ∧ Rel k R R') := by
  intro cs
  induction cs with
  | nil =>
    intro M F acc h _
    right
    exact ⟨M, F, [], by simp, rfl, h⟩
  | cons c cs ih =>
    intro M F acc h hcs
    have hc := hcs c List.mem_cons_self
    obtain ⟨hz, hnz⟩ := gjStep_rel acc h hc
    by_cases h0 : F c c = 0
    · left
      refine ⟨?_, ?_⟩
      · rw [List.foldlM_cons, hz h0]; rfl
      · rw [fgj, if_pos h0]
    · obtain ⟨M', hs, hrel⟩ := hnz h0
      rcases ih M' (elim F c) (acc ++ [F c c]) hrel (fun d hd => hcs d (List.mem_cons_of_mem _ hd)) with
        ⟨h1, h2⟩ | ⟨R, R', ps, h1, h2, h3⟩
      · left
        refine ⟨?_, ?_⟩
        · rw [List.foldlM_cons, hs]; exact h1
        · rw [fgj, if_neg h0, h2]
      · right
        refine ⟨R, R', F c c :: ps, ?_, ?_, h3⟩
        · rw [List.foldlM_cons, hs]
          rw [List.append_assoc] at h1
          exact h1
        · rw [fgj, if_neg h0, h2]

/-! ## the augmented system of `solveOn` / `spdCert` -/
open Finset

/-- the augmented matrix `[A_SS | b_S]` that `solveOn` (and, with `S = range n`, `b = 0`, `spdCert`) builds -/
def sysMat (A : Mat) (b : Vec) (S : List ℕ) : Array (Array ℚ) :=
  (S.map fun r => ((S.map fun c => A r c) ++ [b r]).toArray).toArray

/-- its entries -/
def sysF (A : Mat) (b : Vec) (S : List ℕ) : FM := fun r j =>
  if j < S.length then A (S.getD r 0) (S.getD j 0) else b (S.getD r 0)

theorem getD_map_list {α β : Type} (g : α → β) (S : List α) (r : ℕ) (d : α) (d' : β) (h : r < S.length) :
    (S.map g).getD r d' = g (S.getD r d) := by
  simp [List.getD_eq_getElem?_getD, h]

theorem sysMat_rel (A : Mat) (b : Vec) (S : List ℕ) : Rel S.length (sysMat A b S) (sysF A b S) := by
  have hrow : ∀ r, r < S.length → (sysMat A b S).getD r #[]
      = ((S.map fun c => A (S.getD r 0) c) ++ [b (S.getD r 0)]).toArray := by
    intro r hr
    unfold sysMat
    simp [Array.getD_eq_getD_getElem?, hr, List.getD_eq_getElem?_getD]
  refine ⟨⟨by simp [sysMat], fun r hr => ?_⟩, fun r j hr hj => ?_⟩
  · rw [hrow r hr]; simp
  · unfold ent sysF
    rw [hrow r hr]
    by_cases hjk : j < S.length
    · rw [if_pos hjk]
      simp [Array.getD_eq_getD_getElem?, List.getElem?_append, hjk, List.getD_eq_getElem?_getD]
    · have : j = S.length := by omega
      subst this
      rw [if_neg hjk]
      simp [Array.getD_eq_getD_getElem?, List.getElem?_append, List.getD_eq_getElem?_getD]

/-! ## scatter -/

def foldSet (L : List (ℕ × ℚ)) (a : Array ℚ) : Array ℚ := L.foldl (fun a p => a.setIfInBounds p.1 p.2) a

theorem foldSet_size : ∀ (L : List (ℕ × ℚ)) (a : Array ℚ), (foldSet L a).size = a.size := by
  intro L
  induction L with
  | nil => intro a; rfl
  | cons q L ih => intro a; unfold foldSet; rw [List.foldl_cons]; exact (ih _).trans (by simp)

theorem at0_set (a : Array ℚ) (i j : ℕ) (v : ℚ) :
    at0 (a.setIfInBounds i v) j = if i = j ∧ i < a.size then v else at0 a j := by
  unfold at0
  rw [Array.getD_eq_getD_getElem?, Array.getElem?_setIfInBounds, Array.getD_eq_getD_getElem?]
  by_cases h : i = j
  · subst h
    by_cases h2 : i < a.size
    · simp [h2]
    · simp [h2]
  · simp [h]

theorem foldSet_off : ∀ (L : List (ℕ × ℚ)) (a : Array ℚ) (i : ℕ), i ∉ L.map Prod.fst →
    at0 (foldSet L a) i = at0 a i := by
  intro L
  induction L with
  | nil => intro a i _; rfl
  | cons q L ih =>
    intro a i hi
    simp only [List.map_cons, List.mem_cons, not_or] at hi
    unfold foldSet; rw [List.foldl_cons]
    refine (ih _ i hi.2).trans ?_
    rw [at0_set, if_neg (fun h => hi.1 h.1.symm)]

theorem foldSet_on : ∀ (L : List (ℕ × ℚ)) (a : Array ℚ) (p : ℕ × ℚ), (L.map Prod.fst).Nodup → p ∈ L →
    p.1 < a.size → at0 (foldSet L a) p.1 = p.2 := by
  intro L
  induction L with
  | nil => intro a p _ hp; simp at hp
  | cons q L ih =>
    intro a p hnd hp hsz
    simp only [List.map_cons, List.nodup_cons] at hnd
    unfold foldSet; rw [List.foldl_cons]
    rcases List.mem_cons.mp hp with h | h
    · subst h
      refine (foldSet_off L _ p.1 hnd.1).trans ?_
      rw [at0_set, if_pos ⟨rfl, hsz⟩]
    · exact ih _ p hnd.2 h (by simpa using hsz)

theorem scatter_on (n : ℕ) (S : List ℕ) (xs : Array ℚ) (hS : S.Nodup) (hn : ∀ i ∈ S, i < n)
    (hlen : xs.size = S.length) (t : ℕ) (ht : t < S.length) :
    at0 (scatter n S xs) (S.getD t 0) = xs.getD t 0 := by
  have hfst : (S.zip xs.toList).map Prod.fst = S := by
    apply List.map_fst_zip; simp [hlen]
  have hmem : (S.getD t 0, xs.getD t 0) ∈ S.zip xs.toList := by
    rw [List.mem_iff_getElem]
    refine ⟨t, by simp [hlen, ht], ?_⟩
    simp [List.getD_eq_getElem?_getD, Array.getD_eq_getD_getElem?, ht, hlen]
  have := foldSet_on (S.zip xs.toList) (Array.replicate n 0) _ (by rw [hfst]; exact hS) hmem
    (by simpa using hn _ (by simp [List.getD_eq_getElem?_getD, ht]))
  exact this

theorem scatter_off (n : ℕ) (S : List ℕ) (xs : Array ℚ) (hlen : xs.size = S.length) (i : ℕ) (hi : i ∉ S) :
    at0 (scatter n S xs) i = 0 := by
  have hfst : (S.zip xs.toList).map Prod.fst = S := by
    apply List.map_fst_zip; simp [hlen]
  have := foldSet_off (S.zip xs.toList) (Array.replicate n 0) i (by rw [hfst]; exact hi)
  refine this.trans ?_
  unfold at0
  rw [Array.getD_eq_getD_getElem?, Array.getElem?_replicate]
  split <;> rfl

/-! ## re-indexing a sum over `[0,n)` whose summand vanishes off a duplicate-free list -/

theorem list_sum_getD (g : ℕ → ℚ) : ∀ S : List ℕ, (S.map g).sum = ∑ t ∈ range S.length, g (S.getD t 0) := by
  intro S
  induction S with
  | nil => simp
  | cons a S ih =>
    rw [List.map_cons, List.sum_cons, List.length_cons, Finset.sum_range_succ', ih]
    simp [add_comm]

theorem sum_reindex {n : ℕ} (S : List ℕ) (hS : S.Nodup) (hn : ∀ i ∈ S, i < n) (g : ℕ → ℚ)
    (h0 : ∀ i, i < n → i ∉ S → g i = 0) : ∑ i ∈ range n, g i = ∑ t ∈ range S.length, g (S.getD t 0) := by
  rw [← list_sum_getD, ← List.sum_toFinset g hS]
  symm
  apply Finset.sum_subset
  · intro i hi; exact mem_range.mpr (hn i (List.mem_toFinset.mp hi))
  · intro i hi hni
    exact h0 i (mem_range.mp hi) (fun h => hni (List.mem_toFinset.mpr h))

theorem sumTo_range (n : ℕ) (f : ℕ → ℚ) : sumTo n f = ∑ i ∈ range n, f i := by
  rw [sumTo_eq, Finset.sum_range]

end PsV.Nnls
