import PsV.Proofs.Glam1d
/-!
# C09, any number of dimensions: the penalty matrix assembled by fit.h / `calc_penalty` is the specification's
`Σ_d λ_d K_dᵀK_d`

* the left-associated Kronecker chain `I ⊗ … ⊗ core ⊗ … ⊗ I` entrywise (`kronChain_val`),
* the Gram sum of the rows of `K_d` entrywise (`gram_sum`),
* both are `[i/(n s) = j/(n s)]·[i % s = j % s]·(DᵀD)[(i/s)%n, (j/s)%n]` (`calcPenalty_eq_gram`),
* the fold of `add_penalty_term` over the dimensions (`penaltyFold`), and the theorem `penaltyMat_get_nd`.
-/
set_option linter.unusedSectionVars false
set_option linter.unusedSimpArgs false
set_option linter.unusedVariables false
namespace PsV
open Arith Finset

/-! ## arithmetic of the mixed-radix index -/

theorem mod_mul_eq_iff (i j n P : Nat) :
    i % (n * P) = j % (n * P) ↔ (i / P % n = j / P % n ∧ i % P = j % P) := by
  constructor
  · intro h
    refine ⟨?_, ?_⟩
    · rw [← Nat.mod_mul_left_div_self i P n, ← Nat.mod_mul_left_div_self j P n, h]
    · rw [← Nat.mod_mul_left_mod i n P, ← Nat.mod_mul_left_mod j n P, h]
  · rintro ⟨h1, h2⟩
    rw [Nat.mul_comm n P, Nat.mod_mul, Nat.mod_mul, h1, h2]

theorem eq_iff_div_mod (u v P : Nat) : u = v ↔ (u / P = v / P ∧ u % P = v % P) := by
  constructor
  · rintro rfl; exact ⟨rfl, rfl⟩
  · rintro ⟨h1, h2⟩
    rw [← Nat.div_add_mod' u P, ← Nat.div_add_mod' v P, h1, h2]

/-- position `a·n·s + m·s + b` (`m < n`, `b < s`) is `i` exactly when `(a, m, b)` are the digits of `i` -/
theorem line_eq_iff (a n s m b i : Nat) (hm : m < n) (hb : b < s) :
    a * n * s + m * s + b = i ↔ (a = i / (n * s) ∧ m = (i / s) % n ∧ b = i % s) := by
  have hre : a * n * s + m * s + b = (a * n + m) * s + b := by ring
  constructor
  · intro h
    obtain ⟨e1, e2, e3⟩ := decode3 a m b s n hb hm
    rw [← h, hre, Nat.mul_comm n s]
    exact ⟨e3.symm, e2.symm, e1.symm⟩
  · rintro ⟨h1, h2, h3⟩
    rw [hre, h1, h2, h3, Nat.mul_comm n s, ← Nat.div_div_eq_div_mul, Nat.div_add_mod', Nat.div_add_mod']

theorem natProd_cons (x : Nat) (xs : List Nat) : natProd (x :: xs) = x * natProd xs := rfl

theorem natProd_append (l₁ l₂ : List Nat) : natProd (l₁ ++ l₂) = natProd l₁ * natProd l₂ := by
  induction l₁ with
  | nil => simp [natProd]
  | cons x xs ih => simp [natProd, ih, Nat.mul_assoc]

section
variable {α : Type} [Field α] [LinearOrder α] [IsStrictOrderedRing α] [A : Arith α] [L : LawfulArith α]

/-! ## the Kronecker chain -/

theorem kron_val (a b : Mat α) (i j : Nat) :
    (kron a b).val i j = a.val (i / b.nrow) (j / b.ncol) * b.val (i % b.nrow) (j % b.ncol) := by
  unfold kron
  simp only [L.mul_eq]

theorem eye_val (n i j : Nat) : (eye n : Mat α).val i j = if i = j then 1 else 0 := by
  unfold eye
  simp only [L.one_eq, L.zero_eq]

theorem eye_nrow (n : Nat) : (eye n : Mat α).nrow = n := rfl
theorem eye_ncol (n : Nat) : (eye n : Mat α).ncol = n := rfl

/-- a left fold of `kron` over identity matrices: `m ⊗ I` -/
theorem foldl_kron_eye (ns : List Nat) (m : Mat α) (i j : Nat) :
    ((ns.map eye).foldl kron m).val i j
      = m.val (i / natProd ns) (j / natProd ns) * (if i % natProd ns = j % natProd ns then 1 else 0) := by
  induction ns generalizing m with
  | nil => simp [natProd, Nat.mod_one]
  | cons n ns ih =>
    rw [List.map_cons, List.foldl_cons, ih, kron_val, eye_val, eye_nrow, eye_ncol, natProd_cons]
    rw [Nat.div_div_eq_div_mul, Nat.div_div_eq_div_mul, Nat.mul_comm (natProd ns) n, mul_assoc]
    congr 1
    by_cases h : i % (n * natProd ns) = j % (n * natProd ns)
    · have h' := (mod_mul_eq_iff i j n (natProd ns)).mp h
      rw [if_pos h, if_pos h'.1, if_pos h'.2, mul_one]
    · rw [if_neg h]
      by_cases h1 : i / natProd ns % n = j / natProd ns % n
      · have h2 : ¬ i % natProd ns = j % natProd ns := fun h2 => h ((mod_mul_eq_iff i j n _).mpr ⟨h1, h2⟩)
        rw [if_neg h2, mul_zero]
      · rw [if_neg h1, zero_mul]

/-- a left fold of `kron` over identity matrices starting from an identity is an identity -/
theorem foldl_kron_eye_eye (ns : List Nat) (a u v : Nat) :
    ((ns.map eye).foldl kron (eye a : Mat α)).val u v = if u = v then 1 else 0 := by
  rw [foldl_kron_eye, eye_val]
  by_cases h : u = v
  · subst h; simp
  · rw [if_neg h]
    by_cases h1 : u / natProd ns = v / natProd ns
    · have h2 : ¬ u % natProd ns = v % natProd ns := fun h2 => h ((eq_iff_div_mod u v _).mpr ⟨h1, h2⟩)
      rw [if_neg h2, mul_zero]
    · rw [if_neg h1, zero_mul]

theorem mapIdx_all_eye (l : List Nat) (f : Nat → Nat → Mat α) (h : ∀ i, i < l.length → ∀ x, f i x = eye x) :
    l.mapIdx f = l.map eye := by
  induction l generalizing f with
  | nil => rfl
  | cons x xs ih =>
    rw [List.mapIdx_cons, List.map_cons, h 0 (by simp) x,
      ih (fun i => f (i + 1)) (fun i hi y => h (i + 1) (by simpa using hi) y)]

theorem mapIdx_chain (pre post : List Nat) (n : Nat) (core : Mat α) :
    (pre ++ n :: post).mapIdx (fun i x => if i = pre.length then core else eye x)
      = pre.map eye ++ core :: post.map eye := by
  rw [List.mapIdx_append, List.mapIdx_cons]
  rw [mapIdx_all_eye pre _ (fun i hi x => by rw [if_neg (by omega)])]
  rw [mapIdx_all_eye post _ (fun i hi x => by rw [if_neg (by omega)])]
  simp

/-- entry of the Kronecker chain `I ⊗ … ⊗ core ⊗ … ⊗ I` with `core` (an `n × n` matrix) at position `pre.length` -/
theorem kronChain_val (pre post : List Nat) (n : Nat) (core : Mat α) (hr : core.nrow = n) (hc : core.ncol = n)
    (i j : Nat) (hi : i < natProd pre * (n * natProd post)) (hj : j < natProd pre * (n * natProd post)) :
    (kronChain (pre ++ n :: post) pre.length core).val i j
      = if i / natProd post / n = j / natProd post / n ∧ i % natProd post = j % natProd post
        then core.val (i / natProd post % n) (j / natProd post % n) else 0 := by
  unfold kronChain
  simp only []
  rw [mapIdx_chain]
  cases pre with
  | nil =>
    simp only [List.map_nil, List.nil_append, natProd, Nat.one_mul] at hi hj ⊢
    rw [foldl_kron_eye]
    have hs : 0 < natProd post := by
      rcases Nat.eq_zero_or_pos (natProd post) with h | h
      · rw [h] at hi; simp at hi
      · exact h
    have hi' : i / natProd post < n := (Nat.div_lt_iff_lt_mul hs).mpr hi
    have hj' : j / natProd post < n := (Nat.div_lt_iff_lt_mul hs).mpr hj
    rw [Nat.div_eq_of_lt hi', Nat.div_eq_of_lt hj', Nat.mod_eq_of_lt hi', Nat.mod_eq_of_lt hj']
    by_cases h : i % natProd post = j % natProd post
    · rw [if_pos h, if_pos ⟨rfl, h⟩, mul_one]
    · rw [if_neg h, if_neg (fun hh => h hh.2), mul_zero]
  | cons a pre' =>
    simp only [List.map_cons, List.cons_append]
    rw [List.foldl_append, List.foldl_cons, foldl_kron_eye, kron_val, foldl_kron_eye_eye, hr, hc]
    by_cases h : i / natProd post / n = j / natProd post / n ∧ i % natProd post = j % natProd post
    · rw [if_pos h, if_pos h.1, if_pos h.2, one_mul, mul_one]
    · rw [if_neg h]
      by_cases h1 : i / natProd post / n = j / natProd post / n
      · have h2 : ¬ i % natProd post = j % natProd post := fun h2 => h ⟨h1, h2⟩
        rw [if_neg h2, mul_zero]
      · rw [if_neg h1, zero_mul, zero_mul]

/-! ## the rows of `K_d` and their Gram sum -/

theorem derivCoef_zero' (t : Int → α) (order p k : Nat) : derivCoef t order p (fun _ => (0 : α)) k = 0 := by
  induction p generalizing k with
  | zero => rfl
  | succ p ih =>
    simp only [derivCoef, L.div_eq, L.mul_eq, L.sub_eq]
    rw [ih, ih, sub_zero, mul_zero, zero_div]

/-- row `q = (a(n−p)+κ)s+b` of `K_d` at column `i`: row `κ` of the finite-difference matrix at the digit of `i`
along the dimension, if the other digits of `i` are `(a, b)`; zero otherwise -/
theorem penaltyRow_val (t : Int → α) (order p n s a κ b i : Nat) (hκ : κ < n - p) (hb : b < s) :
    penaltyRow t order p n s ((a * (n - p) + κ) * s + b) i
      = if a = i / (n * s) ∧ b = i % s then (finiteDiff t order p n).get κ ((i / s) % n) else 0 := by
  obtain ⟨e1, e2, e3⟩ := decode3 a κ b s (n - p) hb hκ
  have hn : 0 < n := by omega
  unfold penaltyRow
  simp only [e1, e2, e3]
  by_cases h : a = i / (n * s) ∧ b = i % s
  · rw [if_pos h, finiteDiff_get_eq_derivCoef t order p n κ _ hκ (Nat.mod_lt _ hn)]
    apply derivCoef_congr'
    intro m h1 h2
    have hm : m < n := by omega
    rw [L.one_eq, L.zero_eq]
    by_cases hm' : m = (i / s) % n
    · rw [if_pos hm', if_pos ((line_eq_iff a n s m b i hm hb).mpr ⟨h.1, hm', h.2⟩)]
    · rw [if_neg hm', if_neg (fun hh => hm' ((line_eq_iff a n s m b i hm hb).mp hh).2.1)]
  · rw [if_neg h, ← derivCoef_zero' t order p κ]
    apply derivCoef_congr'
    intro m h1 h2
    have hm : m < n := by omega
    rw [L.one_eq, L.zero_eq]
    have hne : ¬ a * n * s + m * s + b = i := fun hh =>
      h ⟨((line_eq_iff a n s m b i hm hb).mp hh).1, ((line_eq_iff a n s m b i hm hb).mp hh).2.2⟩
    rw [if_neg hne]

/-- `Σ_q K_d[q,i] K_d[q,j]` entrywise -/
theorem gram_sum (t : Int → α) (order p n s Ao i j : Nat) (hs : 0 < s) (hn : 0 < n) (hi : i < Ao * (n * s)) :
    ∑ q ∈ range (Ao * (n - p) * s), penaltyRow t order p n s q i * penaltyRow t order p n s q j
      = if i / (n * s) = j / (n * s) ∧ i % s = j % s
        then ∑ κ ∈ range (n - p), (finiteDiff t order p n).get κ ((i / s) % n) * (finiteDiff t order p n).get κ ((j / s) % n)
        else 0 := by
  have hai : i / (n * s) < Ao := (Nat.div_lt_iff_lt_mul (Nat.mul_pos hn hs)).mpr hi
  have hbi : i % s < s := Nat.mod_lt _ hs
  rw [sum_range_mul', sum_range_mul']
  rw [Finset.sum_eq_single (i / (n * s))]
  · -- the block `a = i / (n s)`
    have hinner : ∀ κ ∈ range (n - p),
        ∑ b ∈ range s, penaltyRow t order p n s ((i / (n * s) * (n - p) + κ) * s + b) i
            * penaltyRow t order p n s ((i / (n * s) * (n - p) + κ) * s + b) j
          = if i / (n * s) = j / (n * s) ∧ i % s = j % s
            then (finiteDiff t order p n).get κ ((i / s) % n) * (finiteDiff t order p n).get κ ((j / s) % n)
            else 0 := by
      intro κ hκ
      have hκ' := mem_range.mp hκ
      rw [Finset.sum_eq_single (i % s)]
      · rw [penaltyRow_val t order p n s _ κ _ i hκ' hbi, penaltyRow_val t order p n s _ κ _ j hκ' hbi,
          if_pos ⟨rfl, rfl⟩]
        by_cases h : i / (n * s) = j / (n * s) ∧ i % s = j % s
        · rw [if_pos h, if_pos h]
        · rw [if_neg h, if_neg h, mul_zero]
      · intro b hb hne
        rw [penaltyRow_val t order p n s _ κ b i hκ' (mem_range.mp hb), if_neg (fun hh => hne hh.2), zero_mul]
      · intro hh; exact absurd (mem_range.mpr hbi) hh
    rw [Finset.sum_congr rfl hinner]
    by_cases h : i / (n * s) = j / (n * s) ∧ i % s = j % s
    · simp only [if_pos h]
    · simp only [if_neg h, Finset.sum_const_zero]
  · intro a ha hne
    apply Finset.sum_eq_zero
    intro κ hκ
    apply Finset.sum_eq_zero
    intro b hb
    rw [penaltyRow_val t order p n s a κ b i (mem_range.mp hκ) (mem_range.mp hb), if_neg (fun hh => hne hh.1), zero_mul]
  · intro hh; exact absurd (mem_range.mpr hai) hh

theorem dtd_get (t : Int → α) (order p n x y : Nat) (hx : x < n) (hy : y < n) :
    (dtd (finiteDiff t order p n)).get x y
      = ∑ κ ∈ range (n - p), (finiteDiff t order p n).get κ x * (finiteDiff t order p n).get κ y := by
  have hm : (finiteDiff t order p n).m = n := rfl
  have hn : (finiteDiff t order p n).n = n - p := rfl
  unfold dtd
  rw [hm, hn, tab2_get_ofFn _ hx hy, sumTo_eq_sum]
  exact Finset.sum_congr rfl (fun q _ => by rw [L.mul_eq])

/-! ## one dimension of the chain = one Gram matrix -/

theorem strides_tail (d : Dim α) (l : List (Dim α)) (h : StridesRowMajor (d :: l)) : StridesRowMajor l := by
  cases l with
  | nil => trivial
  | cons d' ds => exact h.2

theorem strides_suffix (pre l : List (Dim α)) (h : StridesRowMajor (pre ++ l)) : StridesRowMajor l := by
  induction pre with
  | nil => exact h
  | cons a pre ih => exact ih (strides_tail a _ h)

theorem stride_head (d : Dim α) (post : List (Dim α)) (h : StridesRowMajor (d :: post)) :
    d.stride = natProd (post.map (·.naxes)) := by
  induction post generalizing d with
  | nil => exact h
  | cons d' ds ih =>
    obtain ⟨h1, h2⟩ := h
    rw [h1, ih d' h2, List.map_cons, natProd_cons, Nat.mul_comm]

theorem calcPenalty_eq_gram (pre post : List (Dim α)) (d : Dim α) (hs : StridesRowMajor (pre ++ d :: post))
    (p i j : Nat)
    (hi : i < natProd ((pre ++ d :: post).map (·.naxes))) (hj : j < natProd ((pre ++ d :: post).map (·.naxes))) :
    (calcPenalty ((pre ++ d :: post).map (·.naxes)) d.knots pre.length d.order p).val i j
      = ∑ q ∈ range (penaltyNK d p (natProd ((pre ++ d :: post).map (·.naxes)))),
          penaltyRow d.knots d.order p d.naxes d.stride q i * penaltyRow d.knots d.order p d.naxes d.stride q j := by
  have hst : d.stride = natProd (post.map (·.naxes)) := stride_head d post (strides_suffix pre _ hs)
  have hN : natProd ((pre ++ d :: post).map (·.naxes))
      = natProd (pre.map (·.naxes)) * (d.naxes * natProd (post.map (·.naxes))) := by
    rw [List.map_append, List.map_cons, natProd_append, natProd_cons]
  rw [hN] at hi hj ⊢
  have hpos : 0 < d.naxes * natProd (post.map (·.naxes)) := by
    rcases Nat.eq_zero_or_pos (d.naxes * natProd (post.map (·.naxes))) with h | h
    · rw [h] at hi; simp at hi
    · exact h
  have hn : 0 < d.naxes := Nat.pos_of_mul_pos_right hpos
  have hsp : 0 < natProd (post.map (·.naxes)) := Nat.pos_of_mul_pos_left hpos
  have hNK : penaltyNK d p (natProd (pre.map (·.naxes)) * (d.naxes * natProd (post.map (·.naxes))))
      = natProd (pre.map (·.naxes)) * (d.naxes - p) * natProd (post.map (·.naxes)) := by
    unfold penaltyNK
    rw [hst, Nat.mul_div_cancel _ hpos]
  rw [hNK, hst, gram_sum d.knots d.order p d.naxes _ _ i j hsp hn hi]
  -- the model side
  have hlen : pre.length = (pre.map (·.naxes)).length := by simp
  have hget : ((pre ++ d :: post).map (·.naxes)).getD pre.length 0 = d.naxes := by
    simp [List.getD_eq_getElem?_getD]
  unfold calcPenalty
  rw [hget, List.map_append, List.map_cons, hlen,
    kronChain_val (pre.map (·.naxes)) (post.map (·.naxes)) d.naxes _ rfl rfl i j hi hj]
  rw [Nat.div_div_eq_div_mul, Nat.div_div_eq_div_mul, Nat.mul_comm (natProd (post.map (·.naxes))) d.naxes]
  by_cases h : i / (d.naxes * natProd (post.map (·.naxes))) = j / (d.naxes * natProd (post.map (·.naxes)))
      ∧ i % natProd (post.map (·.naxes)) = j % natProd (post.map (·.naxes))
  · rw [if_pos h, if_pos h]
    exact dtd_get d.knots d.order p d.naxes _ _ (Nat.mod_lt _ hn) (Nat.mod_lt _ hn)
  · rw [if_neg h, if_neg h]

/-! ## the fold of `add_penalty_term` over the dimensions -/

theorem penaltyGram_cons' (d : Dim α) (ds : List (Dim α)) (l : α) (ls : List α) (p : Nat) (ps : List Nat)
    (N i j : Nat) :
    penaltyGram (d :: ds) (l :: ls) (p :: ps) N i j
      = l * (∑ q ∈ range (penaltyNK d p N),
              penaltyRow d.knots d.order p d.naxes d.stride q i * penaltyRow d.knots d.order p d.naxes d.stride q j)
        + penaltyGram ds ls ps N i j := rfl

theorem penaltyFold (smoothing : List α) (porders : List Nat) (c : Nat → Dim α → Mat α) (N i j : Nat)
    (post : List (Dim α)) (k : Nat) (acc : α)
    (h : ∀ m d, post[m]? = some d → (c (k + m) d).val i j
        = ∑ q ∈ range (penaltyNK d (pick porders (k + m) 0) N),
            penaltyRow d.knots d.order (pick porders (k + m) 0) d.naxes d.stride q i
              * penaltyRow d.knots d.order (pick porders (k + m) 0) d.naxes d.stride q j) :
    (((post.zipIdx k).map (fun x => match x with
        | (d, idx) => if isZero (pick smoothing idx A.zero) then none
                      else some (pick smoothing idx A.zero, c idx d))).filterMap id).foldl
        (fun acc sm => A.add acc (A.mul sm.1 (sm.2.val i j))) acc
      = acc + penaltyGram post ((List.range' k post.length).map fun k => pick smoothing k 0)
          ((List.range' k post.length).map fun k => pick porders k 0) N i j := by
  induction post generalizing k acc with
  | nil => simp [penaltyGram]
  | cons d ds ih =>
    have h0 := h 0 d (by simp)
    rw [Nat.add_zero] at h0
    have ih' := fun acc' => ih (k + 1) acc' (fun m d' hm => by
      have := h (m + 1) d' (by simpa using hm)
      rwa [show k + (m + 1) = k + 1 + m by omega] at this)
    rw [List.zipIdx_cons, List.map_cons, List.length_cons, List.range'_succ, List.map_cons, List.map_cons,
      penaltyGram_cons', ← h0]
    simp only []
    by_cases hz : isZero (pick smoothing k A.zero) = true
    · have hz0 : pick smoothing k 0 = 0 := by
        have := (isZero_iff _).mp hz
        rwa [L.zero_eq] at this
      rw [if_pos hz, List.filterMap_cons_none (by rfl), ih', hz0, zero_mul, zero_add]
    · rw [if_neg hz, List.filterMap_cons_some (by rfl), List.foldl_cons, ih', L.add_eq, L.mul_eq, L.zero_eq, add_assoc]

theorem split_at {β : Type} (l : List β) (m : Nat) (d : β) (h : l[m]? = some d) :
    ∃ pre post, l = pre ++ d :: post ∧ pre.length = m := by
  obtain ⟨hlt, hd⟩ := List.getElem?_eq_some_iff.mp h
  refine ⟨l.take m, l.drop (m + 1), ?_, ?_⟩
  · rw [← hd, ← List.drop_eq_getElem_cons hlt, List.take_append_drop]
  · rw [List.length_take]; omega

/-- the penalty matrix assembled by fit.h / calc_penalty (finite-difference matrix, DᵀD, Kronecker chain with identities,
scaled sum over the dimensions, zero scales skipped) is the specification's `Σ_d λ_d K_dᵀK_d`, in any number of dimensions -/
theorem penaltyMat_get_nd (dims : List (Dim α)) (smoothing : List α) (porders : List Nat)
    (hs : StridesRowMajor dims) (i j : Nat)
    (hi : i < natProd (dims.map (·.naxes))) (hj : j < natProd (dims.map (·.naxes))) :
    (penaltyMat dims smoothing porders).get i j
      = penaltyGram dims ((List.range dims.length).map fun k => pick smoothing k 0)
          ((List.range dims.length).map fun k => pick porders k 0) (natProd (dims.map (·.naxes))) i j := by
  unfold penaltyMat
  simp only []
  rw [tab2_get_ofFn _ hi hj, List.mapIdx_eq_zipIdx_map, List.range_eq_range']
  have key := penaltyFold smoothing porders
    (fun idx d => calcPenalty (dims.map (·.naxes)) d.knots idx d.order (pick porders idx 0))
    (natProd (dims.map (·.naxes))) i j dims 0 A.zero (by
      intro m d hm
      obtain ⟨pre, post, rfl, rfl⟩ := split_at dims m d hm
      rw [Nat.zero_add]
      exact calcPenalty_eq_gram pre post d hs _ i j hi hj)
  rw [L.zero_eq, zero_add] at key
  rw [L.zero_eq]
  exact key

end
end PsV
