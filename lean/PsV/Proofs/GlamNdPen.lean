import PsV.Proofs.Glam1d
/-!
# C09, any number of dimensions: the penalty matrix assembled by fit.h / `calc_penalty` is the specification's
`Σ_d λ_d K_dᵀK_d`

* the left-associated Kronecker chain `I ⊗ … ⊗ core ⊗ … ⊗ I` entrywise (`kronChain_val`),
* the Gram sum of the rows of `K_d` entrywise (`gram_sum`),
* both are `[i/(n s) = j/(n s)]·[i % s = j % s]·(DᵀD)[(i/s)%n, (j/s)%n]` (`calcPenalty_eq_gram`),
* the fold of `add_penalty_term` over the dimensions (`penaltyFold`), and the theorem `penaltyMat_get_nd`.
-/
set_option linter.unusedSectionVars false
set_option linter.unusedSimpArgs false
set_option linter.unusedVariables false
namespace PsV
open Arith Finset

/-! ## arithmetic of the mixed-radix index -/

theorem mod_mul_eq_iff (i j n P : Nat) :
    i % (n * P) = j % (n * P) ↔ (i / P % n = j / P % n ∧ i % P = j % P) := by
  constructor
  · intro h
    refine ⟨?_, ?_⟩
    · rw [← Nat.mod_mul_left_div_self i P n, ← Nat.mod_mul_left_div_self j P n, h]
    · rw [← Nat.mod_mul_left_mod i n P, ← Nat.mod_mul_left_mod j n P, h]
  · rintro ⟨h1, h2⟩
    rw [Nat.mul_comm n P, Nat.mod_mul, Nat.mod_mul, h1, h2]

theorem eq_iff_div_mod (u v P : Nat) : u = v ↔ (u / P = v / P ∧ u % P = v % P) := by
  constructor
  · rintro rfl; exact ⟨rfl, rfl⟩
  · rintro ⟨h1, h2⟩
    rw [← Nat.div_add_mod' u P, ← Nat.div_add_mod' v P, h1, h2]

/-- position `a·n·s + m·s + b` (`m < n`, `b < s`) is `i` exactly when `(a, m, b)` are the digits of `i` -/
theorem line_eq_iff (a n s m b i : Nat) (hm : m < n) (hb : b < s) :
    a * n * s + m * s + b = i ↔ (a = i / (n * s) ∧ m = (i / s) % n ∧ b = i % s) := by
  have hre : a * n * s + m * s + b = (a * n + m) * s + b := by ring
  constructor
  · intro h
    obtain ⟨e1, e2, e3⟩ := decode3 a m b s n hb hm
    rw [← h, hre, Nat.mul_comm n s]
    exact ⟨e3.symm, e2.symm, e1.symm⟩
  · rintro ⟨h1, h2, h3⟩
    rw [hre, h1, h2, h3, Nat.mul_comm n s, ← Nat.div_div_eq_div_mul, Nat.div_add_mod', Nat.div_add_mod']

theorem natProd_append (l₁ l₂ : List Nat) : natProd (l₁ ++ l₂) = natProd l₁ * natProd l₂ := by
  induction l₁ with
  | nil => simp [natProd]
  | cons x xs ih => simp [natProd, ih, Nat.mul_assoc]

section
variable {α : Type} [Field α] [LinearOrder α] [IsStrictOrderedRing α] [A : Arith α] [L : LawfulArith α]

/-! ## the Kronecker chain -/

theorem kron_val (a b : Mat α) (i j : Nat) :
    (kron a b).val i j = a.val (i / b.nrow) (j / b.ncol) * b.val (i % b.nrow) (j % b.ncol) := by
  unfold kron
  simp only [L.mul_eq]

theorem eye_val (n i j : Nat) : (eye n : Mat α).val i j = if i = j then 1 else 0 := by
  unfold eye
  simp only [L.one_eq, L.zero_eq]

theorem eye_nrow (n : Nat) : (eye n : Mat α).nrow = n := rfl
theorem eye_ncol (n : Nat) : (eye n : Mat α).ncol = n := rfl

/-- a left fold of `kron` over identity matrices: `m ⊗ I` -/
theorem foldl_kron_eye (ns : List Nat) (m : Mat α) (i j : Nat) :
    ((ns.map eye).foldl kron m).val i j
      = m.val (i / natProd ns) (j / natProd ns) * (if i % natProd ns = j % natProd ns then 1 else 0) := by
  induction ns generalizing m with
  | nil => simp [natProd, Nat.mod_one]
  | cons n ns ih =>
    rw [List.map_cons, List.foldl_cons, ih, kron_val, eye_val, eye_nrow, eye_ncol]
    simp only [natProd]
    rw [Nat.div_div_eq_div_mul, Nat.div_div_eq_div_mul, Nat.mul_comm (natProd ns) n, mul_assoc]
    congr 1
    by_cases h : i % (n * natProd ns) = j % (n * natProd ns)
    · have h' := (mod_mul_eq_iff i j n (natProd ns)).mp h
      rw [if_pos h, if_pos h'.1, if_pos h'.2, mul_one]
    · rw [if_neg h]
      by_cases h1 : i / natProd ns % n = j / natProd ns % n
      · have h2 : ¬ i % natProd ns = j % natProd ns := fun h2 => h ((mod_mul_eq_iff i j n _).mpr ⟨h1, h2⟩)
        rw [if_neg h2, mul_zero]
      · rw [if_neg h1, zero_mul]

/-- a left fold of `kron` over identity matrices starting from an identity is an identity -/
theorem foldl_kron_eye_eye (ns : List Nat) (a u v : Nat) :
    ((ns.map eye).foldl kron (eye a : Mat α)).val u v = if u = v then 1 else 0 := by
  rw [foldl_kron_eye, eye_val]
  by_cases h : u = v
  · subst h; simp
  · rw [if_neg h]
    by_cases h1 : u / natProd ns = v / natProd ns
    · have h2 : ¬ u % natProd ns = v % natProd ns := fun h2 => h ((eq_iff_div_mod u v _).mpr ⟨h1, h2⟩)
      rw [if_neg h2, mul_zero]
    · rw [if_neg h1, zero_mul]

theorem mapIdx_all_eye (l : List Nat) (f : Nat → Nat → Mat α) (h : ∀ i, i < l.length → ∀ x, f i x = eye x) :
    l.mapIdx f = l.map eye := by
  induction l generalizing f with
  | nil => rfl
  | cons x xs ih =>
    rw [List.mapIdx_cons, List.map_cons, h 0 (by simp) x,
      ih (fun i => f (i + 1)) (fun i hi y => h (i + 1) (by simpa using hi) y)]

theorem mapIdx_chain (pre post : List Nat) (n : Nat) (core : Mat α) :
    (pre ++ n :: post).mapIdx (fun i x => if i = pre.length then core else eye x)
      = pre.map eye ++ core :: post.map eye := by
  rw [List.mapIdx_append, List.mapIdx_cons]
  rw [mapIdx_all_eye pre _ (fun i hi x => by rw [if_neg (by omega)])]
  rw [mapIdx_all_eye post _ (fun i hi x => by rw [if_neg (by omega)])]
  simp

/-- entry of the Kronecker chain `I ⊗ … ⊗ core ⊗ … ⊗ I` with `core` (an `n × n` matrix) at position `pre.length` -/
theorem kronChain_val (pre post : List Nat) (n : Nat) (core : Mat α) (hr : core.nrow = n) (hc : core.ncol = n)
    (i j : Nat) (hi : i < natProd pre * (n * natProd post)) (hj : j < natProd pre * (n * natProd post)) :
    (kronChain (pre ++ n :: post) pre.length core).val i j
      = if i / natProd post / n = j / natProd post / n ∧ i % natProd post = j % natProd post
        then core.val (i / natProd post % n) (j / natProd post % n) else 0 := by
  unfold kronChain
  simp only []
  rw [mapIdx_chain]
  cases pre with
  | nil =>
    simp only [List.map_nil, List.nil_append, natProd, Nat.one_mul] at hi hj ⊢
    rw [foldl_kron_eye]
    have hs : 0 < natProd post := by
      rcases Nat.eq_zero_or_pos (natProd post) with h | h
      · rw [h] at hi; simp at hi
      · exact h
    have hi' : i / natProd post < n := (Nat.div_lt_iff_lt_mul hs).mpr hi
    have hj' : j / natProd post < n := (Nat.div_lt_iff_lt_mul hs).mpr hj
    rw [Nat.div_eq_of_lt hi', Nat.div_eq_of_lt hj', Nat.mod_eq_of_lt hi', Nat.mod_eq_of_lt hj']
    by_cases h : i % natProd post = j % natProd post
    · rw [if_pos h, if_pos ⟨rfl, h⟩, mul_one]
    · rw [if_neg h, if_neg (fun hh => h hh.2), mul_zero]
  | cons a pre' =>
    simp only [List.map_cons, List.cons_append]
    rw [List.foldl_append, List.foldl_cons, foldl_kron_eye, kron_val, foldl_kron_eye_eye, hr, hc]
    by_cases h1 : i / natProd post / n = j / natProd post / n
    · rw [if_pos h1, one_mul]
      by_cases h2 : i % natProd post = j % natProd post
      · rw [if_pos h2, if_pos ⟨h1, h2⟩, mul_one]
      · rw [if_neg h2, if_neg (fun hh => h2 hh.2), mul_zero]
    · rw [if_neg h1, if_neg (fun hh => h1 hh.1), zero_mul, zero_mul]

end
end PsV
