import PsV.Model.CApi
/-!
# Lemmas for C18 (C interface): soundness of the decidable per-wrapper check, and the ledger invariant.
Core Lean only.
-/
namespace PsV.CApi

/-! ## The per-call check is sound for *any* wrapper record -/

theorem callOk_sound {w : Wrapper} {c : Call} (h : callOk w c = true) (o : Outcome) (hp : possible c.op o = true) :
    wrapRet w c o ≠ .escapes ∧ wrapRet w c o = expected w.ret o := by
  unfold callOk at h
  simp only [List.all_cons, List.all_nil, Bool.and_true, Bool.and_eq_true, Bool.or_eq_true, Bool.not_eq_true',
    bne_iff_ne, ne_eq, beq_iff_eq] at h
  obtain ⟨h1, h2, h3⟩ := h
  cases o
  · rcases h1 with h1 | h1
    · rw [hp] at h1; cases h1
    · exact h1
  · rcases h2 with h2 | h2
    · rw [hp] at h2; cases h2
    · exact h2
  · rcases h3 with h3 | h3
    · rw [hp] at h3; cases h3
    · exact h3

theorem wrapperOk_sound {w : Wrapper} (h : wrapperOk w = true) :
    (∀ c ∈ w.calls, ∀ o, possible c.op o = true → wrapRet w c o ≠ .escapes ∧ wrapRet w c o = expected w.ret o)
    ∧ w.guardFails = true := by
  unfold wrapperOk at h
  simp only [Bool.and_eq_true, List.all_eq_true] at h
  exact ⟨fun c hc o hp => callOk_sound (h.1 c hc) o hp, h.2⟩

/-- an unguarded call of an operation that can throw is exactly what lets an exception escape -/
theorem escapes_iff (w : Wrapper) (c : Call) (o : Outcome) :
    wrapRet w c o = .escapes ↔ (o = .throws ∧ c.guarded = false) := by
  cases o <;> cases hd : c.disp <;> cases hr : w.ret <;> cases hg : c.guarded <;>
    simp [wrapRet, fallThrough, hd, hr, hg] <;> (try split) <;> simp

/-! ## Ledger invariant -/

/-- closes goals that are `x = x` or were already normalised to `True` -/
local macro "triv" : tactic => `(tactic| first | rfl | trivial)


/-- every life-cycle fact holds (what the repaired source gives) -/
def LifeFacts.Good (F : LifeFacts) : Prop :=
  F.initStoresNew = true ∧ F.freeDeletesTyped = true ∧ F.freeResetsHandle = true ∧ F.readFileFreesOccupied = true ∧
  F.readFileStoresNew = true ∧ F.readMemAllocsOnlyIfNull = true ∧ F.gridevalReleasesResult = true ∧
  F.destroyDeletesDerived = true ∧ F.writeMemHandsOverBuffer = true ∧ F.gridevalClearsResult = true

instance (F : LifeFacts) : Decidable F.Good := by unfold LifeFacts.Good; infer_instance

/-- The ledger counts exactly what the handles and result slots own, plus `kt` table objects and `kn` grid results
    that were orphaned by pointer overwrites (`orphanedBy`). -/
structure InvO (kt kn : Nat) (s : St) : Prop where
  noub : s.ub = false
  tables : s.led.tables = s.hs.count .live + kt
  nodangling : HState.dangling ∉ s.hs
  ndObjs : s.led.ndObjs = s.rs.count true + kn
  ndArrays : s.led.ndArrays = s.rs.count true + kn

/-- The ledger counts exactly what the handles and result slots own. -/
structure Inv (s : St) : Prop where
  noub : s.ub = false
  tables : s.led.tables = s.hs.count .live
  nodangling : HState.dangling ∉ s.hs
  ndObjs : s.led.ndObjs = s.rs.count true
  ndArrays : s.led.ndArrays = s.rs.count true

theorem Inv.toO {s : St} (h : Inv s) : InvO 0 0 s := ⟨h.noub, h.tables, h.nodangling, h.ndObjs, h.ndArrays⟩
theorem InvO.toInv {s : St} (h : InvO 0 0 s) : Inv s := ⟨h.noub, h.tables, h.nodangling, h.ndObjs, h.ndArrays⟩

theorem inv_init (nh nr : Nat) : Inv (St.init nh nr) := by
  constructor <;> simp [St.init, List.count_replicate]

private theorem getD_live_pos {l : List HState} {h : Nat} (hl : l.getD h .null = .live) : h < l.length ∧ l[h]? = some .live := by
  rw [List.getD_eq_getElem?_getD] at hl
  cases hh : l[h]? with
  | none => rw [hh] at hl; cases hl
  | some v =>
    rw [hh] at hl; simp at hl; subst hl
    exact ⟨(List.getElem?_eq_some_iff.mp hh).1, by triv⟩

private theorem count_set_of_live {l : List HState} {h : Nat} {v : HState} (hl : l.getD h .null = .live) :
    (l.set h v).count .live + 1 = l.count .live + (if v = .live then 1 else 0) := by
  obtain ⟨hlt, hs⟩ := getD_live_pos hl
  have hget : l[h] = .live := by
    have := List.getElem?_eq_some_iff.mp hs; exact this.2
  rw [List.count_set hlt, hget]
  have hpos : 0 < l.count .live := List.count_pos_iff.mpr (by rw [← hget]; exact List.getElem_mem hlt)
  cases v <;> simp <;> omega

private theorem count_set_of_null {l : List HState} {h : Nat} (hlt : h < l.length) (hl : l.getD h .null = .null) :
    (l.set h .live).count .live = l.count .live + 1 := by
  have hget : l[h] = .null := by
    rw [List.getD_eq_getElem?_getD, List.getElem?_eq_getElem hlt] at hl; simpa using hl
  rw [List.count_set hlt, hget]; simp

private theorem not_mem_set {l : List HState} {h : Nat} {v : HState} (hn : HState.dangling ∉ l) (hv : v ≠ .dangling) :
    HState.dangling ∉ l.set h v := by
  intro hm
  rcases List.mem_or_eq_of_mem_set hm with h1 | h1
  · exact hn h1
  · exact hv h1.symm

theorem getD_ne_dangling {l : List HState} (hn : HState.dangling ∉ l) (h : Nat) : l.getD h .null ≠ .dangling := by
  intro he
  rw [List.getD_eq_getElem?_getD] at he
  cases hh : l[h]? with
  | none => rw [hh] at he; cases he
  | some v =>
    rw [hh] at he; simp at he; subst he
    exact hn (List.mem_of_getElem? hh)

theorem freeStep_invO {F : LifeFacts} (hF : F.Good) {kt kn : Nat} {s : St} (hi : InvO kt kn s) (h : Nat) :
    InvO kt kn (freeStep F s h) ∧ (freeStep F s h).hs.length = s.hs.length ∧ (freeStep F s h).rs = s.rs ∧
    (freeStep F s h).led.buffers = s.led.buffers ∧
    hget (freeStep F s h) h = .null ∧ (∀ j, hget s j = .null → hget (freeStep F s h) j = .null) := by
  obtain ⟨_, hF2, hF3, _⟩ := hF
  unfold freeStep
  cases hh : hget s h with
  | null => exact ⟨hi, by triv, by triv, by triv, hh, fun j hj => hj⟩
  | dangling => exact absurd hh (getD_ne_dangling hi.nodangling h)
  | live =>
    simp only [hF2, hF3, if_true]
    have hc := count_set_of_live (v := .null) hh
    simp at hc
    refine ⟨⟨hi.noub, ?_, not_mem_set hi.nodangling (by simp), hi.ndObjs, hi.ndArrays⟩, by simp, by triv, by triv, ?_, ?_⟩
    · simp only; rw [hi.tables]; omega
    · simp only [hget]
      rw [List.getD_eq_getElem?_getD, List.getElem?_set]
      simp only [if_true]; split <;> rfl
    · intro j hj
      simp only [hget] at hj ⊢
      rw [List.getD_eq_getElem?_getD, List.getElem?_set]
      split
      · split <;> rfl
      · rw [← List.getD_eq_getElem?_getD]; exact hj

theorem freeStep_inv {F : LifeFacts} (hF : F.Good) {s : St} (hi : Inv s) (h : Nat) :
    Inv (freeStep F s h) ∧ (freeStep F s h).hs.length = s.hs.length ∧ (freeStep F s h).rs = s.rs ∧
    (freeStep F s h).led.buffers = s.led.buffers ∧
    hget (freeStep F s h) h = .null ∧ (∀ j, hget s j = .null → hget (freeStep F s h) j = .null) := by
  obtain ⟨h1, h2⟩ := freeStep_invO hF hi.toO h
  exact ⟨h1.toInv, h2⟩

private theorem rcount_set_true {l : List Bool} {r : Nat} (hlt : r < l.length) (hr : l.getD r false = false) :
    (l.set r true).count true = l.count true + 1 := by
  have hget : l[r] = false := by
    rw [List.getD_eq_getElem?_getD, List.getElem?_eq_getElem hlt] at hr; simpa using hr
  rw [List.count_set hlt, hget]; simp

private theorem rcount_set_false {l : List Bool} {r : Nat} (hr : l.getD r false = true) :
    (l.set r false).count true + 1 = l.count true := by
  rw [List.getD_eq_getElem?_getD] at hr
  cases hh : l[r]? with
  | none => rw [hh] at hr; cases hr
  | some v =>
    rw [hh] at hr; simp at hr; subst hr
    obtain ⟨hlt, hget⟩ := List.getElem?_eq_some_iff.mp hh
    rw [List.count_set hlt, hget]
    have hpos : 0 < l.count true := List.count_pos_iff.mpr (by rw [← hget]; exact List.getElem_mem hlt)
    simp; omega

theorem getD_set_self_false {l : List Bool} {r : Nat} : (l.set r false).getD r false = false := by
  rw [List.getD_eq_getElem?_getD, List.getElem?_set]
  simp only [if_true]; split <;> rfl

/-- the state after `*result = NULL`: the slot is empty, and if it held a result that result is now an orphan -/
private theorem clear_slot {kt kn : Nat} {s : St} (hi : InvO kt kn s) (slot : Nat) :
    let s0 : St := if (true && rget s slot) = true then { s with rs := s.rs.set slot false } else s
    InvO kt (kn + (if rget s slot then 1 else 0)) s0 ∧ s0.hs = s.hs ∧ s0.rs.length = s.rs.length ∧ rget s0 slot = false ∧
    s0.led = s.led := by
  cases hr : rget s slot with
  | false =>
    simp only [Bool.and_false, Bool.false_eq_true, if_false, Nat.add_zero]
    exact ⟨hi, by triv, by triv, hr, by triv⟩
  | true =>
    simp only [Bool.and_true, if_true]
    have hc := rcount_set_false hr
    refine ⟨⟨hi.noub, hi.tables, hi.nodangling, ?_, ?_⟩, by triv, by simp, getD_set_self_false, by triv⟩
    · simp only; rw [hi.ndObjs]; omega
    · simp only; rw [hi.ndArrays]; omega

/-- one step inside what the code defines keeps the (orphan-aware) invariant and the shape of the state -/
theorem step_invO {F : LifeFacts} (hF : F.Good) {kt kn : Nat} {s : St} (hi : InvO kt kn s) (op : Op) (hv : opDefined s op = true) :
    InvO (kt + (orphanedBy s op).1) (kn + (orphanedBy s op).2) (step F s op) ∧
    (step F s op).hs.length = s.hs.length ∧ (step F s op).rs.length = s.rs.length := by
  have hF' := hF
  obtain ⟨hF1, hF2, hF3, hF4, hF5, hF6, hF7, hF8, hF9, hF10⟩ := hF
  cases op with
  | init h o =>
    simp only [opDefined, decide_eq_true_eq] at hv
    cases o <;> simp only [step, hF1, if_true, orphanedBy, Nat.add_zero]
    · cases hh : hget s h with
      | null =>
        simp only [beq_iff_eq, reduceCtorEq, if_false, Nat.add_zero]
        refine ⟨⟨hi.noub, ?_, not_mem_set hi.nodangling (by simp), hi.ndObjs, hi.ndArrays⟩, by simp, by triv⟩
        simp only; rw [count_set_of_null hv hh, hi.tables]; omega
      | live =>
        simp only [beq_self_eq_true, if_true]
        have hc := count_set_of_live (v := .live) hh
        simp only [if_true] at hc
        refine ⟨⟨hi.noub, ?_, not_mem_set hi.nodangling (by simp), hi.ndObjs, hi.ndArrays⟩, by simp, by triv⟩
        simp only; rw [hi.tables]; omega
      | dangling => exact absurd hh (getD_ne_dangling hi.nodangling h)
    · exact ⟨hi, by triv, by triv⟩
    · exact ⟨hi, by triv, by triv⟩
  | free h =>
    obtain ⟨h1, h2, h3, _⟩ := freeStep_invO hF' hi h
    exact ⟨h1, h2, by simp only [step]; rw [h3]⟩
  | readFile h o =>
    simp only [opDefined, opValid, decide_eq_true_eq] at hv
    obtain ⟨h1, h2, h3, _, h5, _⟩ := freeStep_invO hF' hi h
    cases o <;> simp only [step, hF4, hF5, if_true, orphanedBy, Nat.add_zero]
    · refine ⟨⟨h1.noub, ?_, not_mem_set h1.nodangling (by simp), ?_, ?_⟩, by simp [h2], by rw [h3]⟩
      · simp only; rw [count_set_of_null (by rw [h2]; exact hv) h5, h1.tables]; omega
      · simp only; exact h1.ndObjs
      · simp only; exact h1.ndArrays
    · exact ⟨h1, h2, by rw [h3]⟩
    · exact ⟨h1, h2, by rw [h3]⟩
  | readMem h o =>
    simp only [opDefined, opValid, decide_eq_true_eq] at hv
    simp only [step, orphanedBy, Nat.add_zero]
    cases hh : hget s h with
    | null =>
      refine ⟨⟨hi.noub, ?_, not_mem_set hi.nodangling (by simp), hi.ndObjs, hi.ndArrays⟩, by simp, by triv⟩
      simp only; rw [count_set_of_null hv hh, hi.tables]; omega
    | live => simp only [hF6, if_true]; exact ⟨hi, by triv, by triv⟩
    | dangling => exact absurd hh (getD_ne_dangling hi.nodangling h)
  | readMemAllocFails h =>
    simp only [step, orphanedBy, Nat.add_zero]
    cases hh : hget s h with
    | dangling => exact absurd hh (getD_ne_dangling hi.nodangling h)
    | null => exact ⟨hi, by triv, by triv⟩
    | live => exact ⟨hi, by triv, by triv⟩
  | use h =>
    simp only [step, orphanedBy, Nat.add_zero]
    cases hh : hget s h with
    | dangling => exact absurd hh (getD_ne_dangling hi.nodangling h)
    | null => exact ⟨hi, by triv, by triv⟩
    | live => exact ⟨hi, by triv, by triv⟩
  | grideval h slot o =>
    simp only [opDefined, Bool.and_eq_true, decide_eq_true_eq] at hv
    obtain ⟨c1, c2, c3, c4, c5⟩ := clear_slot hi slot
    simp only [step, hF7, hF10, if_true, orphanedBy]
    generalize (if (true && rget s slot) = true then ({ s with rs := s.rs.set slot false } : St) else s) = s0 at c1 c2 c3 c4 c5
    cases o <;> simp only
    · have hc := rcount_set_true (by rw [c3]; exact hv.2) c4
      refine ⟨⟨c1.noub, ?_, ?_, ?_, ?_⟩, by simp [c2], by simp [c3]⟩
      · simp only; rw [c1.tables]; omega
      · simp only; exact c1.nodangling
      · simp only; rw [hc, c1.ndObjs]; omega
      · simp only; rw [hc, c1.ndArrays]; omega
    · exact ⟨c1, by rw [c2], c3⟩
    · exact ⟨c1, by rw [c2], c3⟩
  | destroy slot =>
    simp only [step, orphanedBy, Nat.add_zero]
    cases hr : rget s slot with
    | false => simp only [Bool.false_eq_true, if_false]; exact ⟨hi, by triv, by triv⟩
    | true =>
      simp only [if_true, hF8, Bool.not_true, Bool.or_false]
      have hc := rcount_set_false hr
      refine ⟨⟨hi.noub, hi.tables, hi.nodangling, ?_, ?_⟩, by triv, by simp⟩
      · simp only; rw [hi.ndObjs]; omega
      · simp only; rw [hi.ndArrays]; omega
  | writeMem h o =>
    cases o <;> simp only [step, hF9, if_true, orphanedBy, Nat.add_zero]
    · exact ⟨⟨hi.noub, hi.tables, hi.nodangling, hi.ndObjs, hi.ndArrays⟩, by triv, by triv⟩
    · exact ⟨hi, by triv, by triv⟩
    · exact ⟨hi, by triv, by triv⟩
  | freeBuffer =>
    simp only [step, orphanedBy, Nat.add_zero]
    exact ⟨⟨hi.noub, hi.tables, hi.nodangling, hi.ndObjs, hi.ndArrays⟩, by triv, by triv⟩

/-- the usage rule is inside what the code defines, and nothing is orphaned under it -/
theorem opValid_defined {s : St} {op : Op} (hv : opValid s op = true) : opDefined s op = true ∧ orphanedBy s op = (0, 0) := by
  cases op with
  | init h o =>
    simp only [opValid, Bool.and_eq_true, decide_eq_true_eq, beq_iff_eq] at hv
    refine ⟨by simp only [opDefined, decide_eq_true_eq]; exact hv.1, ?_⟩
    cases o <;> simp [orphanedBy, hv.2]
  | grideval h slot o =>
    simp only [opValid, Bool.and_eq_true, decide_eq_true_eq, Bool.not_eq_true'] at hv
    refine ⟨by simp only [opDefined, Bool.and_eq_true, decide_eq_true_eq]; exact hv.1, ?_⟩
    simp [orphanedBy, hv.2]
  | free h => exact ⟨hv, rfl⟩
  | readFile h o => exact ⟨hv, rfl⟩
  | readMem h o => exact ⟨hv, rfl⟩
  | readMemAllocFails h => exact ⟨hv, rfl⟩
  | use h => exact ⟨hv, rfl⟩
  | destroy slot => exact ⟨hv, rfl⟩
  | writeMem h o => exact ⟨hv, rfl⟩
  | freeBuffer => exact ⟨hv, rfl⟩

/-- one valid step keeps the invariant and the shape of the state -/
theorem step_inv {F : LifeFacts} (hF : F.Good) {s : St} (hi : Inv s) (op : Op) (hv : opValid s op = true) :
    Inv (step F s op) ∧ (step F s op).hs.length = s.hs.length ∧ (step F s op).rs.length = s.rs.length := by
  obtain ⟨hd, ho⟩ := opValid_defined hv
  obtain ⟨h1, h2⟩ := step_invO hF hi.toO op hd
  rw [ho] at h1
  exact ⟨h1.toInv, h2⟩

/-- unbounded, inside what the code defines: the ledger is the owned objects plus the orphans of the history -/
theorem run_invO {F : LifeFacts} (hF : F.Good) : ∀ (ops : List Op) (kt kn : Nat) (s : St), InvO kt kn s → definedRun F s ops = true →
    InvO (kt + (orphansOf F s ops).1) (kn + (orphansOf F s ops).2) (run F s ops) ∧
    (run F s ops).hs.length = s.hs.length ∧ (run F s ops).rs.length = s.rs.length
  | [], kt, kn, s, hi, _ => ⟨hi, rfl, rfl⟩
  | op :: ops, kt, kn, s, hi, hv => by
    simp only [definedRun, Bool.and_eq_true] at hv
    obtain ⟨h1, h2, h3⟩ := step_invO hF hi op hv.1
    obtain ⟨k1, k2, k3⟩ := run_invO hF ops _ _ (step F s op) h1 hv.2
    refine ⟨?_, by rw [← h2]; exact k2, by rw [← h3]; exact k3⟩
    simp only [orphansOf, run, List.foldl_cons]
    simp only [run, Nat.add_assoc] at k1
    exact k1

theorem validRun_defined {F : LifeFacts} : ∀ (ops : List Op) (s : St), validRun F s ops = true →
    definedRun F s ops = true ∧ orphansOf F s ops = (0, 0)
  | [], _, _ => ⟨rfl, rfl⟩
  | op :: ops, s, hv => by
    simp only [validRun, Bool.and_eq_true] at hv
    obtain ⟨hd, ho⟩ := opValid_defined hv.1
    obtain ⟨k1, k2⟩ := validRun_defined ops (step F s op) hv.2
    refine ⟨by simp only [definedRun, Bool.and_eq_true]; exact ⟨hd, k1⟩, ?_⟩
    simp only [orphansOf, ho, k2]

/-- unbounded: the invariant survives every valid op sequence -/
theorem run_inv {F : LifeFacts} (hF : F.Good) (ops : List Op) (s : St) (hi : Inv s) (hv : validRun F s ops = true) :
    Inv (run F s ops) ∧ (run F s ops).hs.length = s.hs.length ∧ (run F s ops).rs.length = s.rs.length := by
  obtain ⟨hd, ho⟩ := validRun_defined ops s hv
  obtain ⟨h1, h2⟩ := run_invO hF ops 0 0 s hi.toO hd
  rw [ho] at h1
  exact ⟨h1.toInv, h2⟩

/-! ## The clean-up -/

/-- freeing handles `0..k-1` leaves them NULL, keeps the invariant, the result slots and the buffer count -/
theorem free_range {F : LifeFacts} (hF : F.Good) {kt kn : Nat} (s : St) (hi : InvO kt kn s) : ∀ k,
    let t := run F s ((List.range k).map .free)
    InvO kt kn t ∧ t.hs.length = s.hs.length ∧ t.rs = s.rs ∧ t.led.buffers = s.led.buffers ∧ ∀ j < k, hget t j = .null
  | 0 => ⟨hi, by triv, by triv, by triv, fun _ hj => absurd hj (Nat.not_lt_zero _)⟩
  | k + 1 => by
    obtain ⟨h1, h2, h3, h4, h5⟩ := free_range hF s hi k
    simp only [List.range_succ, List.map_append, List.map_cons, List.map_nil, run, List.foldl_append, List.foldl_cons, List.foldl_nil]
    simp only [run] at h1 h2 h3 h4 h5
    obtain ⟨g1, g2, g3, g4, g5, g6⟩ := freeStep_invO hF h1 k
    refine ⟨g1, by rw [← h2]; exact g2, by rw [← h3]; exact g3, by rw [← h4]; exact g4, ?_⟩
    intro j hj
    rcases Nat.lt_succ_iff_lt_or_eq.mp hj with hlt | heq
    · exact g6 j (h5 j hlt)
    · subst heq; exact g5

theorem destroy_range {F : LifeFacts} (hF : F.Good) {kt kn : Nat} (s : St) (hi : InvO kt kn s) : ∀ k,
    let t := run F s ((List.range k).map .destroy)
    InvO kt kn t ∧ t.hs = s.hs ∧ t.rs.length = s.rs.length ∧ t.led.buffers = s.led.buffers ∧ ∀ j < k, rget t j = false
  | 0 => ⟨hi, by triv, by triv, by triv, fun _ hj => absurd hj (Nat.not_lt_zero _)⟩
  | k + 1 => by
    obtain ⟨h1, h2, h3, h4, h5⟩ := destroy_range hF s hi k
    simp only [List.range_succ, List.map_append, List.map_cons, List.map_nil, run, List.foldl_append, List.foldl_cons, List.foldl_nil]
    simp only [run] at h1 h2 h3 h4 h5
    generalize List.foldl (step F) s (List.map Op.destroy (List.range k)) = t at h1 h2 h3 h4 h5
    obtain ⟨_, _, _, _, _, _, _, hF8, _⟩ := hF
    simp only [step]
    cases hr : rget t k with
    | false =>
      simp only [Bool.false_eq_true, if_false]
      refine ⟨h1, h2, h3, h4, ?_⟩
      intro j hj
      rcases Nat.lt_succ_iff_lt_or_eq.mp hj with hlt | heq
      · exact h5 j hlt
      · subst heq; exact hr
    | true =>
      simp only [if_true, hF8, Bool.not_true, Bool.or_false]
      have hc := rcount_set_false hr
      refine ⟨⟨h1.noub, h1.tables, h1.nodangling, ?_, ?_⟩, h2, by simp [h3], h4, ?_⟩
      · simp only; rw [h1.ndObjs]; omega
      · simp only; rw [h1.ndArrays]; omega
      · intro j hj
        simp only [rget]
        rw [List.getD_eq_getElem?_getD, List.getElem?_set]
        split
        · split <;> rfl
        · rename_i hne
          rcases Nat.lt_succ_iff_lt_or_eq.mp hj with hlt | heq
          · have := h5 j hlt; simp only [rget] at this; rw [← List.getD_eq_getElem?_getD]; exact this
          · exact absurd heq.symm hne

theorem count_live_zero {l : List HState} (h : ∀ j < l.length, l.getD j .null = .null) : l.count .live = 0 := by
  rw [List.count_eq_zero]
  intro hm
  obtain ⟨i, hi, he⟩ := List.mem_iff_getElem.mp hm
  have := h i hi
  rw [List.getD_eq_getElem?_getD, List.getElem?_eq_getElem hi] at this
  simp [he] at this

theorem count_true_zero {l : List Bool} (h : ∀ j < l.length, l.getD j false = false) : l.count true = 0 := by
  rw [List.count_eq_zero]
  intro hm
  obtain ⟨i, hi, he⟩ := List.mem_iff_getElem.mp hm
  have := h i hi
  rw [List.getD_eq_getElem?_getD, List.getElem?_eq_getElem hi] at this
  simp [he] at this

theorem free_buffers {F : LifeFacts} (s : St) : ∀ n,
    let t := run F s (List.replicate n .freeBuffer)
    t.hs = s.hs ∧ t.rs = s.rs ∧ t.ub = s.ub ∧ t.led.tables = s.led.tables ∧ t.led.ndObjs = s.led.ndObjs ∧
    t.led.ndArrays = s.led.ndArrays ∧ t.led.buffers = s.led.buffers - n
  | 0 => ⟨by triv, by triv, by triv, by triv, by triv, by triv, by triv⟩
  | n + 1 => by
    obtain ⟨h1, h2, h3, h4, h5, h6, h7⟩ := free_buffers (F := F) s n
    simp only [List.replicate_succ', run, List.foldl_append, List.foldl_cons, List.foldl_nil]
    simp only [run] at h1 h2 h3 h4 h5 h6 h7
    simp only [step]
    exact ⟨h1, h2, h3, h4, h5, h6, by rw [h7]; omega⟩

/-- After any history inside what the code defines, the caller's clean-up leaves exactly the orphans of that history in
    the ledger (for every `F` whose facts all hold): nothing else is lost, nothing is deleted twice. -/
theorem balanced_of_goodO {F : LifeFacts} (hF : F.Good) (nh nr : Nat) (ops : List Op)
    (hv : definedRun F (St.init nh nr) ops = true) :
    let s := run F (St.init nh nr) ops
    let t := run F s (cleanupOps nh nr s.led.buffers)
    t.led = { tables := (orphansOf F (St.init nh nr) ops).1, ndObjs := (orphansOf F (St.init nh nr) ops).2,
              ndArrays := (orphansOf F (St.init nh nr) ops).2, buffers := 0 } ∧
    t.ub = false ∧ (∀ j, hget t j = .null) ∧ (∀ j, rget t j = false) := by
  intro s t
  obtain ⟨hi, hl, hr⟩ := run_invO hF ops 0 0 (St.init nh nr) (inv_init nh nr).toO hv
  simp only [Nat.zero_add] at hi
  have hl' : s.hs.length = nh := by rw [hl]; simp [St.init]
  have hr' : s.rs.length = nr := by rw [hr]; simp [St.init]
  obtain ⟨a1, a2, a3, a4, a5⟩ := free_range hF s hi nh
  obtain ⟨b1, b2, b3, b4, b5⟩ := destroy_range hF _ a1 nr
  obtain ⟨c1, c2, c3, c4, c5, c6, c7⟩ := free_buffers (F := F) (run F (run F s ((List.range nh).map .free)) ((List.range nr).map .destroy)) s.led.buffers
  have ht : t = run F (run F (run F s ((List.range nh).map .free)) ((List.range nr).map .destroy)) (List.replicate s.led.buffers .freeBuffer) := by
    simp only [t, cleanupOps, run, List.foldl_append]
  have hnull : ∀ j, hget t j = .null := by
    intro j
    rw [ht]; simp only [hget]; rw [c1, b2]
    by_cases hj : j < nh
    · exact a5 j hj
    · rw [List.getD_eq_getElem?_getD, List.getElem?_eq_none (by rw [a2, hl']; omega)]; rfl
  have hfalse : ∀ j, rget t j = false := by
    intro j
    rw [ht]; simp only [rget]; rw [c2]
    by_cases hj : j < nr
    · exact b5 j hj
    · rw [List.getD_eq_getElem?_getD, List.getElem?_eq_none (by rw [b3, a3, hr']; omega)]; rfl
  have hlive : (run F s ((List.range nh).map .free)).hs.count .live = 0 :=
    count_live_zero (fun j hj => a5 j (by rw [a2, hl'] at hj; exact hj))
  have htab : t.led.tables = (orphansOf F (St.init nh nr) ops).1 := by
    rw [ht, c4, b1.tables, b2, hlive]; omega
  have hcnt : (run F (run F s ((List.range nh).map .free)) ((List.range nr).map .destroy)).rs.count true = 0 :=
    count_true_zero (fun j hj => b5 j (by rw [b3, a3, hr'] at hj; exact hj))
  have hobj : t.led.ndObjs = (orphansOf F (St.init nh nr) ops).2 := by rw [ht, c5, b1.ndObjs, hcnt]; omega
  have harr : t.led.ndArrays = (orphansOf F (St.init nh nr) ops).2 := by rw [ht, c6, b1.ndArrays, hcnt]; omega
  have hbuf : t.led.buffers = 0 := by rw [ht, c7, b4, a4]; omega
  refine ⟨?_, by rw [ht, c3]; exact b1.noub, hnull, hfalse⟩
  cases hled : t.led with
  | mk a b c d =>
    rw [hled] at htab hobj harr hbuf
    simp only at htab hobj harr hbuf
    subst htab hobj harr hbuf
    rfl

/-- After any valid history, the caller's clean-up empties the ledger (for every `F` whose facts all hold). -/
theorem balanced_of_good {F : LifeFacts} (hF : F.Good) (nh nr : Nat) (ops : List Op)
    (hv : validRun F (St.init nh nr) ops = true) :
    let s := run F (St.init nh nr) ops
    let t := run F s (cleanupOps nh nr s.led.buffers)
    t.led = {} ∧ t.ub = false ∧ (∀ j, hget t j = .null) ∧ (∀ j, rget t j = false) := by
  obtain ⟨hd, ho⟩ := validRun_defined ops (St.init nh nr) hv
  have h := balanced_of_goodO hF nh nr ops hd
  rw [ho] at h
  exact h

end PsV.CApi
