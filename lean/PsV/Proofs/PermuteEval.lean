import PsV.Proofs.SpecFlat
/-!
Bridge between C15 and C01: a `PTable` whose knots are real knot arrays *is* an evaluation table
(`toTable`), its C01 meaning `specEval` is the flat tensor-product sum `tensorEval` with the
Cox–de Boor basis, and therefore `specEval` is invariant under `permuteDimensions`.
-/
namespace PsV.Permute
open PsV
variable {F E : Type} [Field F] [LinearOrder F] [Inhabited E]
attribute [local instance] Arith.ofField

instance : Inhabited (Int → F) := ⟨fun _ => 0⟩

/-- one axis of a permutable table as a dimension of an evaluation table -/
def dimOf (a : AxisAttr (Int → F) E) (stride : Nat) : Dim F := ⟨a.order, a.nknots, a.naxes, stride, a.knots⟩

/-- the evaluation table (`PsV.Table`, the object of C01–C05) held by a permutable table -/
def toTable (T : PTable (Int → F) E F) : Table F where
  dims := (List.range T.ndim).map fun k => dimOf (T.axis k) (T.strides.getD k 0)
  coef := fun i => T.coef.getD i.toNat 0

/-- the Cox–de Boor basis (value or derivative, C01's continuity convention) as a `tensorEval` basis -/
def coxBasis (a : AxisAttr (Int → F) E) (xm : F × BasisMode) (i : Nat) : F :=
  Bsel (dimOf a 0) xm.1 (derivOrder xm.2) i

theorem Bsel_stride (a : AxisAttr (Int → F) E) (s : Nat) (x : F) (k i : Nat) :
    Bsel (dimOf a s) x k i = Bsel (dimOf a 0) x k i := rfl

theorem rowProd_eq_prod : ∀ (rows : List (Nat × List F)) (idx : List Nat), idx.length = rows.length →
    rowProd rows idx = ∏ k ∈ Finset.range rows.length, (rows.getD k (0, [])).2.getD (idx.getD k 0) 0 := by
  intro rows
  induction rows with
  | nil => intro idx _; cases idx <;> simp [rowProd]
  | cons r rows ih =>
    intro idx h
    obtain ⟨s, fs⟩ := r
    cases idx with
    | nil => simp at h
    | cons i is =>
      simp only [rowProd, List.length_cons]
      rw [Finset.prod_range_succ', ih is (by simpa using h)]
      simp [mul_comm]

theorem specRows_getElem? : ∀ (ds : List (Dim F)) (xs : List F) (ms : List BasisMode) (k : Nat),
    (specRows ds xs ms)[k]? =
      (ds[k]?.bind fun d => xs[k]?.bind fun x => ms[k]?.map fun m =>
        (d.stride, (List.range d.naxes).map (Bsel d x (derivOrder m)))) := by
  intro ds
  induction ds with
  | nil => intro xs ms k; simp [specRows]
  | cons d ds ih =>
    intro xs ms k
    cases xs with
    | nil => simp [specRows]
    | cons x xs =>
      cases ms with
      | nil => cases k <;> simp [specRows]
      | cons m ms =>
        cases k with
        | zero => simp [specRows]
        | succ k => simp [specRows, ih]

theorem specRows_length : ∀ (ds : List (Dim F)) (xs : List F) (ms : List BasisMode),
    ds.length = xs.length → ds.length = ms.length → (specRows ds xs ms).length = ds.length := by
  intro ds
  induction ds with
  | nil => intros; simp [specRows]
  | cons d ds ih =>
    intro xs ms hx hm
    cases xs with
    | nil => simp at hx
    | cons x xs =>
      cases ms with
      | nil => simp at hm
      | cons m ms => simp [specRows, ih xs ms (by simpa using hx) (by simpa using hm)]

/-- **C01's meaning of an evaluation is C15's tensor-product sum** with the Cox–de Boor basis. -/
theorem specEval_eq_tensorEval (T : PTable (Int → F) E F) (hT : T.WF) (xs : List F) (ms : List BasisMode)
    (hx : xs.length = T.ndim) (hm : ms.length = T.ndim) :
    specEval (toTable T) xs ms = tensorEval id coxBasis 0 (0, .value) T (xs.zip ms) := by
  have hlen : (toTable T).dims.length = T.ndim := by simp [toTable]
  have hrl := specRows_length (toTable T).dims xs ms (by rw [hlen, hx]) (by rw [hlen, hm])
  have hrow : ∀ k < T.ndim, (specRows (toTable T).dims xs ms)[k]? =
      some (T.strides.getD k 0, (List.range (T.naxes.getD k 0)).map
        (Bsel (dimOf (T.axis k) 0) (xs.getD k 0) (derivOrder (ms.getD k .value)))) := by
    intro k hk
    rw [specRows_getElem?]
    have h1 : (toTable T).dims[k]? = some (dimOf (T.axis k) (T.strides.getD k 0)) := by
      simp [toTable, hk]
    have h2 : xs[k]? = some (xs.getD k 0) := by
      rw [List.getD_eq_getElem?_getD, List.getElem?_eq_getElem (by omega)]; simp
    have h3 : ms[k]? = some (ms.getD k .value) := by
      rw [List.getD_eq_getElem?_getD, List.getElem?_eq_getElem (by omega)]; simp
    rw [h1, h2, h3]
    simp [dimOf, PTable.axis, Bsel, selInd]
  have hfst : (specRows (toTable T).dims xs ms).map Prod.fst = T.strides := by
    apply List.ext_getElem?
    intro k
    by_cases hk : k < T.ndim
    · rw [List.getElem?_map, hrow k hk]
      have : k < T.strides.length := by rw [hT.strides, rowMajor_length, hT.naxes]; exact hk
      simp [List.getD_eq_getElem?_getD, List.getElem?_eq_getElem this]
    · have h1 : (specRows (toTable T).dims xs ms).length ≤ k := by rw [hrl, hlen]; omega
      have h2 : T.strides.length ≤ k := by rw [hT.strides, rowMajor_length, hT.naxes]; omega
      rw [List.getElem?_map, List.getElem?_eq_none h1, List.getElem?_eq_none h2]; rfl
  have hlens : (specRows (toTable T).dims xs ms).map (fun r => r.2.length) = T.naxes := by
    apply List.ext_getElem?
    intro k
    by_cases hk : k < T.ndim
    · rw [List.getElem?_map, hrow k hk]
      have : k < T.naxes.length := by rw [hT.naxes]; exact hk
      simp [List.getD_eq_getElem?_getD, List.getElem?_eq_getElem this]
    · have h1 : (specRows (toTable T).dims xs ms).length ≤ k := by rw [hrl, hlen]; omega
      have h2 : T.naxes.length ≤ k := by rw [hT.naxes]; omega
      rw [List.getElem?_map, List.getElem?_eq_none h1, List.getElem?_eq_none h2]; rfl
  unfold specEval
  rw [specSum_flat _ _ (by rw [hfst, hlens, hT.strides]), hlens]
  simp only [of_one, one_mul, tensorEval, id]
  apply Finset.sum_congr rfl
  intro q hq
  have hq' : q < prodL T.naxes := Finset.mem_range.1 hq
  have hbox := digits_inBox T.naxes q (by omega)
  rw [mul_comm]
  congr 1
  · simp [toTable]
  · rw [rowProd_eq_prod _ _ (by rw [digits_length, hrl, hlen, hT.naxes]), hrl, hlen]
    apply Finset.prod_congr rfl
    intro k hk
    have hk' : k < T.ndim := Finset.mem_range.1 hk
    have hkn : k < T.naxes.length := by rw [hT.naxes]; exact hk'
    have hdig := digit_eq_digits T.naxes q k hkn
    rw [← hT.strides] at hdig
    have hlt : (digits T.naxes q).getD k 0 < T.naxes.getD k 0 := hbox.2 k hkn
    rw [List.getD_eq_getElem?_getD (l := specRows _ _ _), hrow k hk']
    simp only [Option.getD_some, coxBasis]
    rw [hdig]
    have hz : (xs.zip ms).getD k ((0 : F), BasisMode.value) = (xs.getD k 0, ms.getD k .value) := by
      have e2 : xs[k]? = some (xs.getD k 0) := by
        rw [List.getD_eq_getElem?_getD, List.getElem?_eq_getElem (by omega)]; simp
      have e3 : ms[k]? = some (ms.getD k .value) := by
        rw [List.getD_eq_getElem?_getD, List.getElem?_eq_getElem (by omega)]; simp
      rw [List.getD_eq_getElem?_getD (l := xs.zip ms), List.zip, List.getElem?_zipWith, e2, e3]
      rfl
    rw [hz]
    rw [List.getD_eq_getElem?_getD, List.getElem?_map, List.getElem?_range hlt]
    simp [PTable.axis]

end PsV.Permute

namespace PsV.Permute
open PsV
variable {F E : Type} [Field F] [LinearOrder F] [Inhabited E]
attribute [local instance] Arith.ofField

theorem gather_zip {A B : Type} (da : A) (db : B) (xs : List A) (ms : List B) (h : xs.length = ms.length)
    (p : List Nat) : gather (da, db) (xs.zip ms) p = (gather da xs p).zip (gather db ms p) := by
  unfold gather
  rw [List.zip_map']
  apply List.map_congr_left
  intro j _
  simp only [List.getD_eq_getElem?_getD, List.zip, List.getElem?_zipWith]
  by_cases hj : j < xs.length
  · rw [List.getElem?_eq_getElem hj, List.getElem?_eq_getElem (by omega : j < ms.length)]; rfl
  · rw [List.getElem?_eq_none (by omega), List.getElem?_eq_none (by omega : ms.length ≤ j)]; rfl

/-- **`specEval` is invariant under `permuteDimensions`**: the C01 meaning of the permuted table at the
correspondingly permuted point (and derivative selection) equals that of the original, exactly. -/
theorem specEval_permuteBody (junk : F) (T : PTable (Int → F) E F) (hT : T.WF) {p : List Nat} (hp : IsPerm T.ndim p)
    (xs : List F) (ms : List BasisMode) (hx : xs.length = T.ndim) (hm : ms.length = T.ndim) :
    specEval (toTable (permuteBody junk T p)) (gather 0 xs p) (gather .value ms p) = specEval (toTable T) xs ms := by
  have hT' := permuteBody_WF junk hT hp
  have hnd := permuteBody_ndim junk hT hp
  rw [specEval_eq_tensorEval _ hT' _ _ (by rw [gather_length, hp.length, hnd]) (by rw [gather_length, hp.length, hnd]),
    specEval_eq_tensorEval _ hT _ _ hx hm, ← gather_zip _ _ _ _ (by rw [hx, hm])]
  exact tensorEval_permuteBody id coxBasis 0 (0, .value) junk hT hp (xs.zip ms) (by simp [hx, hm])

end PsV.Permute
