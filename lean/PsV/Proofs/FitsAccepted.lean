import PsV.Proofs.FitsBridge
import PsV.Proofs.FitsRead
/-!
# The tables `write_fits` accepts (C06): one source-anchored hypothesis

`Accepted E t` collects what is true of every table object the library can hold and write, in the terms of the
source: the shape invariants of `splinetable` (array lengths, row-major strides), the per-dimension validity the
repaired reader insists on (`DimsWF`), machine sizes (`uint64_t` counts, `uint32_t` orders that are written through an
`int*`), and — for the auxiliary keys — the tests of `splinetable::write_key` for a standard keyword
(`WriteKeyOK`, include/photospline/detail/aux.h).  From it follow all the technical hypotheses of the store-level and
byte-level theorems (`Storable`'s fields, `Encodable`).

Not derivable, hence listed in `Accepted` explicitly:
* `EXTNAME`, `HDUNAME` as auxiliary keys — `write_key` accepts them, the file is written, and the reader then takes
  the primary HDU for the extension of that name (`PsV.aux_extname_breaks_roundtrip` in `PsV/Props/C06.lean`:
  a finding); `HIERARCH` (8 characters, accepted by `write_key`) is outside the card parser model;
* the number text of `PERIODn` (`NumText (E.fmtD x)`), a parameter of the model;
* at most 100 dimensions when periods are written, 999 otherwise (the keywords stay 8 characters).
-/
namespace PsV.Fits.Codec
open PsV.Fits

/-- `splinetable::write_key(key, value)` does not throw for a standard (at most 8 character) keyword:
    `reservedFitsKeyword`, the empty / edge-blank test, `END` / `HISTORY` / `CONTINUE`, the character loop
    `!(isupper(c) || isdigit(c)) || c=='-' || c=='_'`, printable ASCII value, `storedlen ≤ 68`. -/
structure WriteKeyOK (key val : Str) : Prop where
  ne : key ≠ []
  len : key.length ≤ 8
  chars : ∀ c ∈ key, (c.isUpper || c.isDigit) = true
  notReserved : reserved key = false
  notEnd : key ≠ "END".toList
  notHistory : key ≠ "HISTORY".toList
  notContinue : key ≠ "CONTINUE".toList
  printable : ∀ c ∈ val, 32 ≤ c.toNat ∧ c.toNat ≤ 126
  fits : storedLen val ≤ 68

theorem upperDigit_props (c : Char) (h : (c.isUpper || c.isDigit) = true) : c ≠ ' ' ∧ c.toNat < 256 := by
  simp only [Char.isUpper, Char.isDigit, Bool.or_eq_true, Bool.and_eq_true, decide_eq_true_eq] at h
  have hv : c.toNat = c.val.toNat := rfl
  constructor
  · intro e; subst e; revert h; decide
  · rw [hv]
    rcases h with ⟨h1, h2⟩ | ⟨h1, h2⟩ <;>
      · have := UInt32.le_iff_toNat_le.mp h2
        simp at this
        omega

theorem WriteKeyOK.keyOK {key val : Str} (h : WriteKeyOK key val) (hh : key ≠ "HIERARCH".toList) : KeyOK key := by
  refine ⟨h.len, fun c hc => (upperDigit_props c (h.chars c hc)).1, ?_, hh, h.notContinue⟩
  have hc : key ≠ "COMMENT".toList := by
    intro e; have := h.notReserved; rw [e] at this; revert this; decide
  simp only [isCommentary, Bool.or_eq_false_iff, beq_eq_false_iff_ne, ne_eq]
  exact ⟨⟨hc, h.notHistory⟩, h.ne⟩

theorem WriteKeyOK.latKey {key val : Str} (h : WriteKeyOK key val) : Lat key :=
  fun c hc => (upperDigit_props c (h.chars c hc)).2

theorem WriteKeyOK.latVal {key val : Str} (h : WriteKeyOK key val) : Lat val :=
  fun c hc => by have := (h.printable c hc).2; omega

/-- Everything the library can hold and write (see the header of this file). -/
structure Accepted (E : Ext) (t : Table) : Prop where
  ndim_pos : 1 ≤ t.ndim
  ndim_le : t.ndim ≤ 999
  knots_len : t.knots.length = t.ndim
  naxes_len : t.naxes.length = t.ndim
  strides_rm : t.strides = rowMajor t.naxes
  coef_len : t.coef.length = prod t.naxes
  /-- per dimension `nknots ≥ 2·order+2`, `naxes = nknots-order-1`, knots finite and non-decreasing -/
  dims : DimsWF t
  /-- `order[i]` is a `uint32_t` handed to cfitsio as `int*` -/
  order_lt : ∀ o ∈ t.order, o < 2147483648
  /-- `nknots[i]` is a `uint64_t` -/
  sizes : ∀ k ∈ t.knots, k.length < 2 ^ 64
  extents_len : ∀ e, t.extents = some e → e.length = 2 * t.ndim
  periods_len : ∀ p, t.periods = some p → p.length = t.ndim
  periods_dim : t.periods ≠ none → t.ndim ≤ 100
  periods_text : ∀ p, t.periods = some p → ∀ x ∈ p, NumText (E.fmtD x)
  aux : ∀ kv ∈ t.aux, WriteKeyOK kv.1 kv.2 ∧ kv.1 ≠ "EXTNAME".toList ∧ kv.1 ≠ "HDUNAME".toList
          ∧ kv.1 ≠ "HIERARCH".toList

theorem Accepted.dimAt {E : Ext} {t : Table} (h : Accepted E t) (i : Nat) (hi : i < t.ndim) :
    2 * t.order.getD i 0 + 2 ≤ (t.knots.getD i []).length ∧
      t.naxes.getD i 0 = (t.knots.getD i []).length - t.order.getD i 0 - 1 :=
  ⟨(h.dims i hi).1, (h.dims i hi).2.1⟩

theorem Accepted.knots_ne {E : Ext} {t : Table} (h : Accepted E t) : ∀ k ∈ t.knots, k ≠ [] := by
  intro k hk
  obtain ⟨i, hi, rfl⟩ := List.getElem_of_mem hk
  have hi' : i < t.ndim := by rw [← h.knots_len]; exact hi
  have := (h.dimAt i hi').1
  simp only [List.getD_eq_getElem?_getD, List.getElem?_eq_getElem hi, Option.getD_some] at this
  intro e; rw [e] at this; simp at this

theorem Accepted.naxes_lt {E : Ext} {t : Table} (h : Accepted E t) : ∀ a ∈ t.naxes, a < 2 ^ 64 := by
  intro a ha
  obtain ⟨i, hi, rfl⟩ := List.getElem_of_mem ha
  have hi' : i < t.ndim := by rw [← h.naxes_len]; exact hi
  have hik : i < t.knots.length := by rw [h.knots_len]; exact hi'
  have h2 := (h.dimAt i hi').2
  simp only [List.getD_eq_getElem?_getD, List.getElem?_eq_getElem hi, List.getElem?_eq_getElem hik,
    Option.getD_some] at h2
  have := h.sizes _ (List.getElem_mem hik)
  omega

/-- the hypotheses of the byte-level theorems follow -/
theorem Accepted.encodable {E : Ext} {t : Table} (h : Accepted E t) : Encodable E t := by
  have h64 : (2 : Nat) ^ 64 < 10 ^ 20 := by decide
  refine ⟨h.ndim_pos, h.ndim_le, h.naxes_len, by rw [h.coef_len]; exact Nat.le_refl _,
    fun a ha => Nat.lt_trans (h.naxes_lt a ha) h64, fun k hk => Nat.lt_trans (h.sizes k hk) h64,
    fun e he => by rw [h.extents_len e he]; exact Nat.le_refl _, h.periods_dim,
    fun p hp => by rw [h.periods_len p hp]; exact Nat.le_refl _, h.periods_text, ?_⟩
  intro kv hkv
  obtain ⟨hw, _, _, hh⟩ := h.aux kv hkv
  exact ⟨hw.keyOK hh, hw.notEnd, hw.latKey, hw.latVal, hw.fits⟩

/-- the aux hypothesis of the store-level theorems follows -/
theorem Accepted.aux_storable {E : Ext} {t : Table} (h : Accepted E t) :
    ∀ kv ∈ t.aux, reserved kv.1 = false ∧ kv.1 ≠ "EXTNAME".toList ∧ kv.1 ≠ "HDUNAME".toList ∧ storedLen kv.2 ≤ 68 :=
  fun kv hkv => by
    obtain ⟨hw, h1, h2, _⟩ := h.aux kv hkv
    exact ⟨hw.notReserved, h1, h2, hw.fits⟩

/-! ### `Accepted` is satisfiable: a 1-d order-0 table with an aux key holding apostrophes and NaN / Inf / -0 /
denormal coefficient patterns; any number formatter (no periods) -/

def exAccepted : Table :=
  { order := [0]
    knots := [[0, 4607182418800017408, 4611686018427387904]]       -- 0.0, 1.0, 2.0
    naxes := [2]
    strides := [1]
    coef := [0xffc00001, 0x7fa00000]     -- a negative quiet NaN with payload 1, a signalling NaN
    extents := some [0, 4611686018427387904]
    periods := none
    aux := [("REMARK".toList, "it's ''".toList)] }

theorem exAccepted_ok (E : Ext) : Accepted E exAccepted := by
  refine ⟨by decide, by decide, by decide, by decide, by decide, by decide, ?_, by decide, by decide,
    (fun e he => by cases he; rfl), (fun p hp => nomatch hp), (fun h => absurd rfl h), (fun p hp => nomatch hp), ?_⟩
  · intro i hi
    have : i = 0 := by simp [Table.ndim, exAccepted] at hi; omega
    subst this; decide
  · intro kv hkv
    simp only [exAccepted, List.mem_singleton] at hkv
    subst hkv
    exact ⟨⟨by decide, by decide, by decide, by decide, by decide, by decide, by decide, by decide, by decide⟩,
      by decide, by decide, by decide⟩


/-! ### what becomes of the periods, for every number formatter / parser -/

/-- `PERIODn` text round trip, no assumption on `E`: every period `x` comes back as `parseD (fmtD x)`, or `0` when
    cfitsio cannot read the key back -/
theorem rdPeriods_map (E : Ext) (t : Table) (p : List UInt64) (hp : t.periods = some p) (hlen : p.length = t.ndim) :
    rdPeriods E t = p.map fun x => (E.parseD (E.fmtD x)).getD 0 := by
  unfold rdPeriods
  rw [hp]
  simp only
  conv => rhs; rw [← map_getD_range p 0 t.ndim hlen, List.map_map]
  rfl

theorem map_eq_self_iff {α} (g : α → α) : ∀ l : List α, l.map g = l ↔ ∀ x ∈ l, g x = x
  | [] => by simp
  | a :: r => by simp [map_eq_self_iff g r]

/-- the reader's result on a written file depends on `E` only through `parseD ∘ fmtD` on the periods: the
    float⇄double conversions `d2f`, `f2d` are never applied -/
theorem rdPeriods_congr (E E' : Ext) (t : Table) (h : ∀ x, E.parseD (E.fmtD x) = E'.parseD (E'.fmtD x)) :
    rdPeriods E t = rdPeriods E' t := by
  unfold rdPeriods
  cases t.periods with
  | none => rfl
  | some p => simp only [h]

end PsV.Fits.Codec
