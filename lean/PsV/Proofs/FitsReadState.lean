import PsV.Model.FitsReadState
import PsV.Proofs.FitsRead
/-!
# The step-by-step reader refines `readFixed` and `stateAt` (C07)

* `readBody_verdict`: the verdict of the reader that threads the object is the verdict of `readFixed`;
* `readBody_state`: at a throw of `e` the object is `stateAt true ndim (stopOf e)`; after a complete read it is
  `stateAt true ndim .done`;
* `readGuarded_error` / `readGuarded_ok`: hence a rejected read leaves `Obj.empty` (nothing of the half-built table
  is observable, the ledger is balanced), an accepted read leaves a completely populated object;
* `readSeq_rejected`: any sequence of rejected reads leaves the object empty, so the next read starts from the state
  of a fresh object.
Mathlib-free.
-/
namespace PsV.Fits

/-- the object with everything up to `coefficients` allocated and `knots[0..k)` assigned -/
def objK (nd k : Nat) : Obj :=
  { ndim := nd, aux := .block 0, order := .block 1, periods := .block 2, knots := .block 3,
    knotEntries := (List.range k).map (fun j => .block (10 + j)) ++ List.replicate (nd - k) .null,
    nknots := .block 4, extents := .block 5, extents0 := .block 6, naxes := .block 7, strides := .block 8,
    coefficients := .block 9, live := [0, 1, 2, 3, 4, 5, 6, 7, 8, 9] ++ (List.range k).map (10 + ·) }

theorem stateAt_readPix (nd : Nat) : stateAt true nd .readPix = objK nd 0 := rfl

theorem stateAt_knot (nd i : Nat) (a : Bool) : stateAt true nd (.knot i a) = objK nd (if a then i + 1 else i) := by
  cases a <;> rfl

theorem stateAt_done (nd : Nat) : stateAt true nd .done = objK nd nd := by
  simp [stateAt, objK]

theorem stateAt_extData (nd : Nat) : stateAt true nd .extData = objK nd nd := by
  simp [stateAt, objK]

/-- `knots[i] = allocate(..)` on the object with `i` knot vectors assigned -/
theorem objK_step (nd i : Nat) (hi : i < nd) :
    { objK nd i with knotEntries := (objK nd i).knotEntries.set i (.block (10 + i)),
                     live := (objK nd i).live ++ [10 + i] } = objK nd (i + 1) := by
  have hrep : List.replicate (nd - i) Ptr.null = Ptr.null :: List.replicate (nd - (i + 1)) Ptr.null := by
    rw [show nd - i = (nd - (i + 1)) + 1 by omega, List.replicate_succ]
  have hset : ((List.range i).map (fun j => Ptr.block (10 + j)) ++ List.replicate (nd - i) Ptr.null).set i (.block (10 + i))
      = (List.range (i + 1)).map (fun j => Ptr.block (10 + j)) ++ List.replicate (nd - (i + 1)) Ptr.null := by
    rw [List.set_append_right _ _ (by simp), hrep]
    simp [List.range_succ]
  simp only [objK, hset]
  simp [List.range_succ]

theorem map_fst {ε α β} (f : α → β) (x : Except ε α) (e : ε) : x.map f = .error e ↔ x = .error e := by
  cases x <;> simp [Except.map]

/-- the knot loop on the object: same verdict as `readKnotsV`; the object at a throw is the tabulated one,
    after the last iteration all `nd` knot vectors are assigned -/
theorem readKnotsObj_spec (E : Ext) (f : Fits) (order naxes : List Nat) (nd : Nat) :
    ∀ n i, i + n = nd →
      (readKnotsObj E f order naxes i n (objK nd i)).2 = readKnotsV E f order naxes i n ∧
      (∀ e, readKnotsV E f order naxes i n = .error e →
        (readKnotsObj E f order naxes i n (objK nd i)).1 = stateAt true nd (stopOf e)) ∧
      (∀ ks, readKnotsV E f order naxes i n = .ok ks →
        (readKnotsObj E f order naxes i n (objK nd i)).1 = objK nd nd)
  | 0, i, h => by
    have : i = nd := by omega
    subst this
    refine ⟨by first | rfl | trivial, ?_, fun _ _ => rfl⟩
    intro e he; simp [readKnotsV] at he
  | n+1, i, h => by
    have hi : i < nd := by omega
    unfold readKnotsObj readKnotsV
    cases hm : movnamHdu f (keyN "KNOTS" i) with
    | none =>
      simp only
      refine ⟨by first | rfl | trivial, ?_, fun ks hk => by cases hk⟩
      intro e he
      have := Except.error.inj he; subst this
      rw [stopOf, stateAt_knot]; rfl
    | some h =>
      simp only
      by_cases hnk : h.axes.headD 0 = 0
      · rw [if_pos hnk, if_pos hnk]
        refine ⟨by first | rfl | trivial, ?_, fun ks hk => by cases hk⟩
        intro e he
        have := Except.error.inj he; subst this
        rw [stopOf, stateAt_knot]; rfl
      · rw [if_neg hnk, if_neg hnk]
        by_cases hc : h.axes.headD 0 < 2 * order.getD i 0 + 2 ∨ naxes.getD i 0 ≠ h.axes.headD 0 - order.getD i 0 - 1
        · rw [if_pos hc, if_pos hc]
          refine ⟨by first | rfl | trivial, ?_, fun ks hk => by cases hk⟩
          intro e he
          have := Except.error.inj he; subst this
          rw [stopOf, stateAt_knot]; rfl
        · rw [if_neg hc, if_neg hc, objK_step nd i hi]
          cases hp : readPixD E h (h.axes.headD 0) with
          | none =>
            simp only
            refine ⟨by first | rfl | trivial, ?_, fun ks hk => by cases hk⟩
            intro e he
            have := Except.error.inj he; subst this
            rw [stopOf, stateAt_knot]; rfl
          | some k =>
            simp only
            by_cases hv : knotsValid k = true
            · rw [if_pos hv, if_pos hv]
              obtain ⟨ih1, ih2, ih3⟩ := readKnotsObj_spec E f order naxes nd n (i + 1) (by omega)
              simp only
              refine ⟨by rw [ih1], ?_, ?_⟩
              · intro e he
                rw [map_fst] at he
                exact ih2 e he
              · intro ks hk
                rw [map_eq_ok] at hk
                obtain ⟨a, ha, _⟩ := hk
                exact ih3 a ha
            · rw [if_neg hv, if_neg hv]
              refine ⟨by first | rfl | trivial, ?_, fun ks hk => by cases hk⟩
              intro e he
              have := Except.error.inj he; subst this
              rw [stopOf, stateAt_knot]; rfl

/-- `readBody` with the inner steps named and the intermediate objects identified (cf. `readFixed_cons`) -/
theorem readBody_eq (E : Ext) (h0 : Hdu) (f : Fits) :
    readBody E h0 f =
      match ordersOf (hdrCards true h0) h0.axes.length with
      | .error e => (stateAt true h0.axes.length .order, .error e)
      | .ok order =>
        match readPixF E h0 (((partialProds 1 h0.axes).reverse).headD 0 * (h0.axes.reverse).headD 0) with
        | none => (stateAt true h0.axes.length .readPix, .error .readPix)
        | some coef =>
          match readKnotsObj E f order h0.axes.reverse 0 h0.axes.length (objK h0.axes.length 0) with
          | (o, .error e) => (o, .error e)
          | (o, .ok knots) =>
            match extentsOf E f h0.axes.length order knots with
            | .error e => (o, .error e)
            | .ok extents =>
              (o, .ok ⟨order, knots, h0.axes.reverse, (partialProds 1 h0.axes).reverse, coef, some extents,
                some ((List.range h0.axes.length).map fun i =>
                  (readKeyDbl E (hdrCards true h0) (keyN "PERIOD" i)).getD 0),
                readAux (hdrCards true h0)⟩) := rfl

/-- verdict and object of the step-by-step reader, against the two tabulations -/
theorem readBody_spec (E : Ext) (h0 : Hdu) (rest : List Hdu) (hd : ¬ h0.axes.length < 1) :
    (readBody E h0 (h0 :: rest)).2 = readFixed E (h0 :: rest) ∧
    (∀ e, readFixed E (h0 :: rest) = .error e →
      (readBody E h0 (h0 :: rest)).1 = stateAt true h0.axes.length (stopOf e)) ∧
    (∀ t, readFixed E (h0 :: rest) = .ok t →
      (readBody E h0 (h0 :: rest)).1 = stateAt true h0.axes.length .done) := by
  rw [readBody_eq, readFixed_cons, if_neg hd]
  cases hord : ordersOf (hdrCards true h0) h0.axes.length with
  | error e =>
    simp only
    refine ⟨by first | rfl | trivial, ?_, fun t ht => by cases ht⟩
    intro e' he'
    have := Except.error.inj he'; subst this
    rw [ordersOf_err _ _ _ hord]
  | ok order =>
    simp only
    cases hpix : readPixF E h0 (((partialProds 1 h0.axes).reverse).headD 0 * (h0.axes.reverse).headD 0) with
    | none =>
      simp only
      refine ⟨by first | rfl | trivial, ?_, fun t ht => by cases ht⟩
      intro e' he'
      have := Except.error.inj he'; subst this
      rfl
    | some coef =>
      simp only
      obtain ⟨k1, k2, k3⟩ := readKnotsObj_spec E (h0 :: rest) order h0.axes.reverse h0.axes.length
        h0.axes.length 0 (by omega)
      generalize hrk : readKnotsObj E (h0 :: rest) order h0.axes.reverse 0 h0.axes.length (objK h0.axes.length 0) = rk at k1 k2 k3
      obtain ⟨o, r⟩ := rk
      simp only at k1 k2 k3
      cases hkv : readKnotsV E (h0 :: rest) order h0.axes.reverse 0 h0.axes.length with
      | error e =>
        rw [hkv] at k1; subst k1
        simp only
        refine ⟨by first | rfl | trivial, ?_, fun t ht => by cases ht⟩
        intro e' he'
        have := Except.error.inj he'; subst this
        exact k2 e hkv
      | ok knots =>
        rw [hkv] at k1; subst k1
        simp only
        have ho := k3 knots hkv
        cases hex : extentsOf E (h0 :: rest) h0.axes.length order knots with
        | error e =>
          simp only
          refine ⟨by first | rfl | trivial, ?_, fun t ht => by cases ht⟩
          intro e' he'
          have := Except.error.inj he'; subst this
          rw [extentsOf_err E _ _ _ _ _ hex, stateAt_extData]; exact ho
        | ok ext =>
          simp only
          refine ⟨by first | rfl | trivial, (fun e he => by cases he), ?_⟩
          intro t _
          rw [stateAt_done]; exact ho

/-- **a rejected read leaves the empty object**: whatever the store and whichever throw site is reached, after
    `read_fits_core` has returned to its caller the object is `Obj.empty` (no member set, ledger balanced) -/
theorem readGuarded_error (E : Ext) (f : Fits) (e : RErr) (h : readFixed E f = .error e) :
    readGuarded E f = .ok (Obj.empty, .error e) := by
  cases f with
  | nil =>
    simp only [readFixed] at h
    have := Except.error.inj h; subst this; rfl
  | cons h0 rest =>
    simp only [readGuarded]
    by_cases hd : h0.axes.length < 1
    · rw [readFixed_cons, if_pos hd] at h
      have := Except.error.inj h; subst this
      rw [if_pos hd]
    · rw [if_neg hd]
      obtain ⟨s1, s2, _⟩ := readBody_spec E h0 rest hd
      have hc := cleanup_after_readFixed E (h0 :: rest) e h
      simp only [List.headD_cons] at hc
      generalize hrb : readBody E h0 (h0 :: rest) = rb at s1 s2
      obtain ⟨o, r⟩ := rb
      simp only at s1 s2
      rw [h] at s1; subst s1
      simp only
      rw [s2 e h, hc]; rfl

/-- an accepted read leaves the completely populated object, which `~splinetable` releases without fault and
    without leak -/
theorem readGuarded_ok (E : Ext) (f : Fits) (t : Table) (h : readFixed E f = .ok t) :
    readGuarded E f = .ok (stateAt true t.ndim .done, .ok t) ∧ destroy (stateAt true t.ndim .done) = .ok [] := by
  have hwf := readFixed_wf E f t h
  cases f with
  | nil => simp [readFixed] at h
  | cons h0 rest =>
    have hd : ¬ h0.axes.length < 1 := by
      intro hd; rw [readFixed_cons, if_pos hd] at h; cases h
    have hnd : t.ndim = h0.axes.length := by
      have := hwf.2.2.1
      rw [← this]
      have hc := ((readFixed_ok_iff E _ t).mp h).1
      rw [readCore_cons, if_neg hd] at hc
      revert hc
      cases ordersOf (hdrCards true h0) h0.axes.length with
      | error e => intro hc; cases hc
      | ok order =>
        simp only
        cases readPixF E h0 (((partialProds 1 h0.axes).reverse).headD 0 * (h0.axes.reverse).headD 0) with
        | none => intro hc; cases hc
        | some coef =>
          simp only
          cases readKnots E (h0 :: rest) 0 h0.axes.length with
          | error e => intro hc; cases hc
          | ok knots =>
            simp only
            cases extentsOf E (h0 :: rest) h0.axes.length order knots with
            | error e => intro hc; cases hc
            | ok ext =>
              intro hc
              have := Except.ok.inj hc; subst this
              simp
    refine ⟨?_, destroy_done _ hwf.1⟩
    simp only [readGuarded]
    rw [if_neg hd]
    obtain ⟨s1, _, s3⟩ := readBody_spec E h0 rest hd
    generalize hrb : readBody E h0 (h0 :: rest) = rb at s1 s3
    obtain ⟨o, r⟩ := rb
    simp only at s1 s3
    rw [h] at s1; subst s1
    simp only
    rw [s3 t h, hnd]

/-- the reader always fills in extents and periods (`extents` from the `EXTENTS` image or made up, `periods` 0 when
    a key is missing) -/
theorem readFixed_some_arrays (E : Ext) (f : Fits) (t : Table) (h : readFixed E f = .ok t) :
    ∃ e p, t.extents = some e ∧ t.periods = some p := by
  cases f with
  | nil => simp [readFixed] at h
  | cons h0 rest =>
    rw [readFixed_cons] at h
    split at h
    · cases h
    · split at h
      · cases h
      · split at h
        · cases h
        · split at h
          · cases h
          · split at h
            · cases h
            · have := Except.ok.inj h; subst this
              exact ⟨_, _, rfl, rfl⟩

/-! ## reuse -/

theorem readFits_empty_error (E : Ext) (f : Fits) (e : RErr) (h : readFixed E f = .error e) :
    readFits E Obj.empty f = .ok (Obj.empty, .error e) := by
  unfold readFits
  rw [if_neg (by decide), readGuarded_error E f e h]
  rfl

/-- any sequence of rejected files leaves the object exactly as a fresh one, with one verdict per file -/
theorem readSeq_rejected (E : Ext) : ∀ (fs : List Fits), (∀ f ∈ fs, ∃ e, readFixed E f = .error e) →
    ∃ rs, readSeq E Obj.empty fs = .ok (Obj.empty, rs) ∧ rs = fs.map (readFixed E)
  | [], _ => ⟨[], rfl, rfl⟩
  | f :: fs, h => by
    obtain ⟨e, he⟩ := h f (by simp)
    obtain ⟨rs, h1, h2⟩ := readSeq_rejected E fs (fun g hg => h g (by simp [hg]))
    refine ⟨.error e :: rs, ?_, by simp [he, h2]⟩
    simp only [readSeq, readFits_empty_error E f e he, h1]

end PsV.Fits
