import PsV.Proofs.Lifecycle
/-! Helper lemmas for C20, part 2: histories over several objects, for every configuration `Cfg`. -/
namespace PsV.Lifecycle
open List

/-! ### the object table -/

theorem World.mem_put {w : World} {i : Nat} {o x : Option Tab} (h : x ∈ (w.put i o).objs) :
    x = o ∨ x ∈ w.objs ∨ x = none := by
  simp only [World.put] at h
  rcases List.mem_or_eq_of_mem_set h with h | h
  · rcases List.mem_append.mp h with h | h
    · exact Or.inr (Or.inl h)
    · exact Or.inr (Or.inr (List.eq_of_mem_replicate h))
  · exact Or.inl h

theorem World.get_mem {w : World} {i : Nat} {t : Tab} (h : w.get i = some t) : some t ∈ w.objs := by
  simp only [World.get, List.getD_eq_getElem?_getD] at h
  cases hi : w.objs[i]? with
  | none => simp [hi] at h
  | some x =>
    simp [hi] at h
    subst h
    exact List.mem_of_getElem? hi

theorem World.get_put_same (w : World) (i : Nat) (o : Option Tab) : (w.put i o).get i = o := by
  simp only [World.get, World.put, List.getD_eq_getElem?_getD]
  rw [List.getElem?_set_self (by simp; omega)]
  rfl

theorem World.get_put_ne (w : World) {i j : Nat} (o : Option Tab) (h : i ≠ j) : (w.put i o).get j = w.get j := by
  simp only [World.get, World.put, List.getD_eq_getElem?_getD]
  rw [List.getElem?_set_ne h]
  by_cases hj : j < w.objs.length
  · rw [List.getElem?_append_left hj]
  · rw [List.getElem?_append_right (by omega)]
    have : w.objs[j]? = none := List.getElem?_eq_none (by omega)
    rw [this]
    cases hh : (List.replicate (i + 1 - w.objs.length) (none : Option Tab))[j - w.objs.length]? with
    | none => rfl
    | some x =>
      have := List.mem_of_getElem? hh
      rw [List.eq_of_mem_replicate this]
      rfl

/-- every live object is destructible and leak-free; every object that died returned all memory exactly once -/
structure World.InvX (w : World) : Prop where
  live : ∀ t, some t ∈ w.objs → t.InvX
  dead : ∀ r, r ∈ w.retired → r = ([], 0)

/-- every live object satisfies the full invariant; every object that died returned all memory exactly once -/
structure World.Inv (w : World) : Prop where
  live : ∀ t, some t ∈ w.objs → t.Inv
  dead : ∀ r, r ∈ w.retired → r = ([], 0)

/-- every live table has its `extents` arrays -/
def World.AllExt (w : World) : Prop := ∀ t, some t ∈ w.objs → t.noExtents = false

theorem World.Inv.toInvX {w : World} (h : w.Inv) : w.InvX := ⟨fun t ht => (h.live t ht).toInvX, h.dead⟩
theorem World.Inv.allExt {w : World} (h : w.Inv) : w.AllExt := fun t ht => (h.live t ht).extents
theorem World.InvX.toInv {w : World} (h : w.InvX) (hx : w.AllExt) : w.Inv :=
  ⟨fun t ht => (h.live t ht).toInv (hx t ht), h.dead⟩

theorem World.InvX.put {w : World} (h : w.InvX) (i : Nat) {o : Option Tab} (ho : ∀ t, o = some t → t.InvX) :
    (w.put i o).InvX := by
  refine ⟨fun t ht => ?_, h.dead⟩
  rcases World.mem_put ht with e | e | e
  · exact ho t e.symm
  · exact h.live t e
  · cases e

theorem World.Inv.put {w : World} (h : w.Inv) (i : Nat) {o : Option Tab} (ho : ∀ t, o = some t → t.Inv) :
    (w.put i o).Inv := by
  refine ⟨fun t ht => ?_, h.dead⟩
  rcases World.mem_put ht with e | e | e
  · exact ho t e.symm
  · exact h.live t e
  · cases e

theorem World.AllExt.put {w : World} (h : w.AllExt) (i : Nat) {o : Option Tab} (ho : ∀ t, o = some t → t.noExtents = false) :
    (w.put i o).AllExt := by
  intro t ht
  rcases World.mem_put ht with e | e | e
  · exact ho t e.symm
  · exact h t e
  · cases e

/-- what one step has to deliver: invariant kept, no undefined behaviour, `extents` kept -/
structure StepOk (w : World) (o : StepOut) (extOk : Prop) : Prop where
  inv : o.w.InvX
  nocrash : o.res ≠ .crash
  ext : w.AllExt → extOk → o.w.AllExt

theorem StepOk.ofSkip {w : World} {p : Prop} (h : w.InvX) : StepOk w (Lifecycle.skip w) p :=
  ⟨h, by simp [Lifecycle.skip], fun hx _ => hx⟩

theorem onTab_ok {w : World} {i : Nat} {f : Tab → Option Nat → Out} {p : Prop} (h : w.InvX)
    (hf : ∀ t, w.get i = some t → Spec t (f t w.cd)) : StepOk w (onTab w i f) p := by
  unfold onTab
  cases hg : w.get i with
  | none => exact StepOk.ofSkip h
  | some t =>
    have hs := hf t hg
    have hm := World.get_mem hg
    have h1 := h.put i (o := some (f t w.cd).tab) (fun t' e => by cases e; exact hs.inv)
    refine ⟨⟨h1.live, h1.dead⟩, hs.nocrash, fun hx _ => ?_⟩
    exact hx.put i (o := some (f t w.cd).tab) (fun t' e => by cases e; exact hs.ext (hx t hm))

theorem read_res (c : Cfg) (t : Tab) (cd : Option Nat) (f : FileDesc) :
    (read c t cd f).res = .tt ∨ (read c t cd f).res = .threw := by
  unfold read
  split
  · exact Or.inr rfl
  · split
    · exact Or.inr rfl
    · simp only [build]
      split
      · left; simp
      · split <;> (right; simp)

/-- a read into the empty table which does not return `true` has thrown and left nothing behind -/
theorem read_empty_failed {c : Cfg} {cd : Option Nat} {f : FileDesc} (hs : Spec Tab.empty (read c Tab.empty cd f))
    (hr : (read c Tab.empty cd f).res ≠ .tt) :
    (read c Tab.empty cd f).res = .threw ∧
    ((read c Tab.empty cd f).tab.ledger, (read c Tab.empty cd f).tab.bad) = ([], 0) := by
  have hres : (read c Tab.empty cd f).res = .threw := (read_res c Tab.empty cd f).resolve_left hr
  have hnd : (read c Tab.empty cd f).tab.ndim = 0 := by
    rcases hs.threw hres with e | e
    · have := congrArg Prod.fst e; simpa [Tab.shape, Tab.empty] using this
    · simp [Tab.isEmpty] at e; exact e.1.1.1.1.1.1.1
  exact ⟨hres, by rw [hs.inv.ledger_nil hnd, hs.inv.bad]⟩

/-! ### the stacking constructor -/

theorem ledgerOf_run_release (cd : Option Nat) (steps : List Step) :
    ledgerOf ((runSteps cd steps []).1 ++ (runSteps cd steps []).2.1.map .d) = ([], 0) := by
  obtain ⟨hg, _⟩ := runSteps_good 0 steps cd [] []
  simp only [List.nil_append, List.append_nil] at hg
  have hf := Good.frees (b := 0) (R := []) (runSteps cd steps []).2.1
  simp only [List.append_nil] at hf
  obtain ⟨h1, h2⟩ := (Good.append hg hf) [] (Perm.refl _)
  unfold ledgerOf
  exact Prod.ext (by simpa using h2) h1

theorem ledgerOf_run (cd : Option Nat) (l : List Nat) (hok : (runSteps cd (l.map .a) []).2.2.2 = true) :
    (ledgerOf (runSteps cd (l.map .a) []).1).1.Perm l ∧ (ledgerOf (runSteps cd (l.map .a) []).1).2 = 0 := by
  obtain ⟨hg, hlive⟩ := runSteps_good 0 (l.map .a) cd [] []
  have hl := hlive hok
  simp only [List.nil_append, List.append_nil, net_map_a] at hg hl
  obtain ⟨h1, h2⟩ := hg [] (Perm.refl _)
  rw [hl] at h2
  unfold ledgerOf
  exact ⟨h2, h1⟩

/-- the three objects of the stacking constructor obtain everything they ask for -/
def StackCompletes (c : Cfg) (cd : Option Nat) (dims : List Dim) (k order : Nat) : Prop :=
  (runSteps cd ((padBlocks dims).map .a) []).2.2.2 = true ∧
  (runSteps (runSteps cd ((padBlocks dims).map .a) []).2.2.1 ((padBlocks dims).map .a) []).2.2.2 = true ∧
  (runSteps (runSteps (runSteps cd ((padBlocks dims).map .a) []).2.2.1 ((padBlocks dims).map .a) []).2.2.1
    ((stackMainBlocks c dims k order).map .a) []).2.2.2 = true

theorem StackCompletes.of_none (c : Cfg) (dims : List Dim) (k order : Nat) : StackCompletes c none dims k order := by
  have h1 := runSteps_none_ok ((padBlocks dims).map .a) [] (fail_not_mem_map_a _)
  unfold StackCompletes
  refine ⟨h1.1, ?_, ?_⟩
  · rw [h1.2]; exact h1.1
  · rw [h1.2, h1.2]; exact (runSteps_none_ok _ [] (fail_not_mem_map_a _)).1

/-- The stacking constructor keeps the invariant whatever the configuration when: C20-15 is in, or the
    arguments are usable; and for usable arguments: C20-14 is in, or no allocation fails; C20-12 is in,
    or an allocation fails. -/
def StackSafe (c : Cfg) (cd : Option Nat) (ts : List Tab) (order : Nat) : Prop :=
  (c.stackCheck = true ∨ stackValid ts = true) ∧
  (stackValid ts = true →
    (c.stackGuard = true ∨ StackCompletes c cd (ts.headD Tab.empty).dims ts.length order) ∧
    (c.stackDelete = true ∨ ¬ StackCompletes c cd (ts.headD Tab.empty).dims ts.length order))

theorem stackValid_head {ts : List Tab} (h : stackValid ts = true) : ∃ t0 rest, ts = t0 :: rest ∧ t0.ndim ≠ 0 := by
  unfold stackValid at h
  split at h
  · rename_i t0 t1 rest tl _
    refine ⟨t0, t1 :: rest, rfl, ?_⟩
    simp only [Bool.and_eq_true, bne_iff_ne, ne_eq] at h
    exact h.1.1.1
  · cases h

theorem padTab_invX {dims : List Dim} {led : Led} (hd : dims ≠ []) (hl : led.1.Perm (padBlocks dims)) (hb : led.2 = 0) :
    (padTab dims led).InvX := by
  refine { empty := fun e => absurd (List.length_eq_zero_iff.mp e) hd, full := fun _ => ⟨rfl, rfl⟩,
           auxArr := fun e => absurd rfl e, sound := rfl, ledger := ?_, bad := hb }
  refine hl.trans ?_
  simp only [padTab, Tab.blocks, padBlocks, fixedBlocks, auxBlocks, auxEntryBlocks, if_true, Bool.false_eq_true, if_false,
    List.flatMap_nil, List.append_nil]
  perm_count

theorem stackTarget_ownX (c : Cfg) (dims : List Dim) (k order : Nat) : (stackTarget c dims k order).OwnX :=
  { empty := fun e => by simp [stackTarget] at e, full := fun _ => ⟨rfl, by simp [stackTarget, stackDims]⟩,
    auxArr := fun e => absurd rfl e, sound := rfl }

theorem stackFail_ok {c : Cfg} {w : World} {cd : Option Nat} {parts : List Part} {p : Prop} (h : w.InvX)
    (hg : c.stackGuard = true) (hp : ∀ q ∈ parts, ledgerOf (q.1 ++ q.2.map .d) = ([], 0)) :
    StepOk w (stackFail c w cd parts) p := by
  unfold stackFail
  simp only [hg, if_true]
  refine ⟨⟨h.live, fun r hr => ?_⟩, by simp, fun hx _ => hx⟩
  rcases List.mem_append.mp hr with e | e
  · obtain ⟨q, hq, rfl⟩ := List.mem_map.mp e
    exact hp q hq
  · exact h.dead r e

theorem stack_ok (c : Cfg) {w : World} (h : w.InvX) (i : Nat) (ts : List Tab) (order : Nat)
    (hts : ∀ t ∈ ts, t.InvX) (hs : StackSafe c w.cd ts order) :
    StepOk w (stack c w i ts order) (c.stackExtents = true) := by
  obtain ⟨hs1, hs2⟩ := hs
  unfold stack
  by_cases hv : stackValid ts = true
  · obtain ⟨hguard, hdel⟩ := hs2 hv
    obtain ⟨t0, rest, rfl, hnd⟩ := stackValid_head hv
    have hd : t0.dims ≠ [] := by
      have := (hts t0 (List.mem_cons_self)).full hnd
      intro e; rw [e] at this; exact hnd this.2.symm
    simp only [hv, Bool.not_true, Bool.false_eq_true, if_false, List.headD_cons]
    simp only [List.headD_cons] at hguard hdel
    by_cases h1 : (runSteps w.cd ((padBlocks t0.dims).map .a) []).2.2.2 = true
    · simp only [h1, Bool.not_true, Bool.false_eq_true, if_false]
      by_cases h2 : (runSteps (runSteps w.cd ((padBlocks t0.dims).map .a) []).2.2.1 ((padBlocks t0.dims).map .a) []).2.2.2 = true
      · simp only [h2, Bool.not_true, Bool.false_eq_true, if_false]
        by_cases h3 : (runSteps (runSteps (runSteps w.cd ((padBlocks t0.dims).map .a) []).2.2.1 ((padBlocks t0.dims).map .a) []).2.2.1
            ((stackMainBlocks c t0.dims (t0 :: rest).length order).map .a) []).2.2.2 = true
        · simp only [h3, Bool.not_true, Bool.false_eq_true, if_false]
          have hcomp : StackCompletes c w.cd t0.dims (t0 :: rest).length order := ⟨h1, h2, h3⟩
          have hdelete : c.stackDelete = true := hdel.resolve_right (fun hn => hn hcomp)
          simp only [hdelete, if_true]
          -- the new table
          have hnew : ((stackTarget c t0.dims (t0 :: rest).length order).apply
              (runSteps (runSteps (runSteps w.cd ((padBlocks t0.dims).map .a) []).2.2.1 ((padBlocks t0.dims).map .a) []).2.2.1
                ((stackMainBlocks c t0.dims (t0 :: rest).length order).map .a) []).1).InvX := by
            obtain ⟨hg, hlive⟩ := runSteps_good 0 ((stackMainBlocks c t0.dims (t0 :: rest).length order).map .a)
              (runSteps (runSteps w.cd ((padBlocks t0.dims).map .a) []).2.2.1 ((padBlocks t0.dims).map .a) []).2.2.1 [] []
            have hl := hlive h3
            simp only [List.nil_append, List.append_nil, net_map_a] at hg hl
            refine invX_apply (L := []) (stackTarget_ownX c _ _ _) rfl (Perm.refl _) hg ?_
            rw [hl]
            simp only [stackTarget, stackMainBlocks, Tab.blocks, fixedBlocks, fixedBlocksNoExt, auxBlocks, auxEntryBlocks, if_true,
              Bool.false_eq_true, if_false, List.flatMap_nil, List.append_nil, stackDims, List.length_append, List.length_cons, List.length_nil]
            rcases Bool.eq_false_or_eq_true c.stackExtents with he | he <;>
              rcases Bool.eq_false_or_eq_true c.stackGuard with hgd | hgd <;>
              simp only [he, hgd, Bool.not_true, Bool.not_false, if_true, if_false, Bool.false_eq_true] <;> perm_count
          -- the two paddings die with empty ledgers
          have hp1 := ledgerOf_run w.cd (padBlocks t0.dims) h1
          have hp2 := ledgerOf_run (runSteps w.cd ((padBlocks t0.dims).map .a) []).2.2.1 (padBlocks t0.dims) h2
          obtain ⟨a1, b1⟩ := destroy_spec _ (padTab_invX hd hp1.1 hp1.2)
          obtain ⟨a2, b2⟩ := destroy_spec _ (padTab_invX hd hp2.1 hp2.2)
          have hput := h.put i (o := some ((stackTarget c t0.dims (t0 :: rest).length order).apply
              (runSteps (runSteps (runSteps w.cd ((padBlocks t0.dims).map .a) []).2.2.1 ((padBlocks t0.dims).map .a) []).2.2.1
                ((stackMainBlocks c t0.dims (t0 :: rest).length order).map .a) []).1)) (fun t' e => by cases e; exact hnew)
          refine ⟨⟨hput.live, fun r hr => ?_⟩, by simp, fun hx hext => ?_⟩
          · rcases List.mem_cons.mp hr with e | e
            · rw [e, a1, b1]
            · rcases List.mem_cons.mp e with e | e
              · rw [e, a2, b2]
              · exact h.dead r e
          · exact hx.put i (fun t' e => by cases e; simp [Tab.apply, stackTarget, hext])
        · simp only [h3, Bool.not_false, if_true]
          have hg : c.stackGuard = true := hguard.resolve_right (fun hc => h3 hc.2.2)
          refine stackFail_ok h hg (fun q hq => ?_)
          simp only [List.mem_cons, List.mem_nil_iff, or_false] at hq
          rcases hq with rfl | rfl | rfl <;> exact ledgerOf_run_release _ _
      · simp only [h2, Bool.not_false, if_true]
        have hg : c.stackGuard = true := hguard.resolve_right (fun hc => h2 hc.2.1)
        refine stackFail_ok h hg (fun q hq => ?_)
        simp only [List.mem_cons, List.mem_nil_iff, or_false] at hq
        rcases hq with rfl | rfl <;> exact ledgerOf_run_release _ _
    · simp only [h1, Bool.not_false, if_true]
      have hg : c.stackGuard = true := hguard.resolve_right (fun hc => h1 hc.1)
      refine stackFail_ok h hg (fun q hq => ?_)
      simp only [List.mem_cons, List.mem_nil_iff, or_false] at hq
      rcases hq with rfl; exact ledgerOf_run_release _ _
  · have hchk : c.stackCheck = true := hs1.resolve_right hv
    have hv' : stackValid ts = false := by simpa using hv
    simp only [hv', Bool.not_false, if_true, hchk]
    refine ⟨⟨h.live, fun r hr => ?_⟩, by simp, fun hx _ => hx⟩
    rcases List.mem_cons.mp hr with e | e
    · exact e
    · exact h.dead r e


theorem mapM_get_mem {w : World} : ∀ {srcs : List Nat} {ts : List Tab}, srcs.mapM w.get = some ts →
    ∀ t ∈ ts, some t ∈ w.objs := by
  intro srcs
  induction srcs with
  | nil => intro ts h t ht; simp at h; subst h; cases ht
  | cons a l ih =>
    intro ts h t ht
    rw [List.mapM_cons] at h
    cases ha : w.get a with
    | none => simp [ha] at h
    | some x =>
      cases hl : l.mapM w.get with
      | none => simp [ha, hl] at h
      | some xs =>
        simp [ha, hl] at h
        subst h
        rcases List.mem_cons.mp ht with e | e
        · subst e; exact World.get_mem ha
        · exact ih hl t e

/-! ### one step, any configuration -/

def Op.isStack : Op → Bool
  | .stack _ _ _ => true
  | _ => false

/-- The circumstances under which a call keeps the invariant and has defined behaviour **whatever
    the configuration**: for each repair, either it is in force or the call does not run into the
    defect it repairs.  For `Cfg.repaired` this is `True` of every call in a world whose tables have
    their `extents` (`safeCall_repaired`). -/
def SafeCall (c : Cfg) (w : World) : Op → Prop
  | .construct _ | .getKey _ _ | .writeFits _ _ | .destroy _ | .moveConstruct _ _ | .moveAssign _ _ => True
  | .constructFile i f => w.get i = none → ReadSafe c w.cd f
  | .read i f => ∀ t, w.get i = some t → t.ndim ≠ 0 ∨ ReadSafe c w.cd f
  | .fit i a => ∀ t, w.get i = some t → FitSafe c w.cd t a
  | .writeKey i a => ∀ t, w.get i = some t → WriteKeySafe c t a
  | .removeKey i id => ∀ t, w.get i = some t → RemoveKeySafe c w.cd t id
  | .convolve i dim nk => ∀ t, w.get i = some t → ConvSafe c w.cd t dim nk
  | .permute i p => ∀ t, w.get i = some t → PermSafe c t p
  | .compare i j => ∀ t s, w.get i = some t → w.get j = some s → c.eqEmpty = true ∨ t.ndim ≠ 0 ∨ s.ndim ≠ 0
  | .stack i srcs order => w.get i = none → ∀ ts, srcs.mapM w.get = some ts → StackSafe c w.cd ts order

theorem step_ok (c : Cfg) {w : World} (h : w.InvX) (op : Op) (hs : SafeCall c w op) :
    StepOk w (step c w op) (c.stackExtents = true ∨ op.isStack = false) := by
  cases op with
  | construct i =>
    simp only [step]
    cases hg : w.get i with
    | some _ => exact StepOk.ofSkip h
    | none =>
      exact ⟨h.put i (fun t e => by cases e; exact Tab.empty_invX), by simp,
        fun hx _ => hx.put i (fun t e => by cases e; rfl)⟩
  | constructFile i f =>
    simp only [step]
    cases hg : w.get i with
    | some _ => exact StepOk.ofSkip h
    | none =>
      have hsp := read_spec c Tab.empty w.cd f Tab.empty_invX (Or.inr (hs hg))
      dsimp only
      split
      · have h1 := h.put i (o := some (read c Tab.empty w.cd f).tab) (fun t e => by cases e; exact hsp.inv)
        exact ⟨⟨h1.live, h1.dead⟩, by simp, fun hx _ => hx.put i (fun t e => by cases e; exact hsp.ext rfl)⟩
      · rename_i hr
        obtain ⟨hres, hled⟩ := read_empty_failed hsp hr
        refine ⟨⟨h.live, fun r hr' => ?_⟩, by rw [hres]; simp, fun hx _ => hx⟩
        rcases List.mem_cons.mp hr' with e | e
        · rw [e]; exact hled
        · exact h.dead r e
  | read i f => exact onTab_ok (f := fun t cd => read c t cd f) h fun t ht => read_spec c t _ f (h.live t (World.get_mem ht)) (hs t ht)
  | fit i a => exact onTab_ok (f := fun t cd => fit c t cd a) h fun t ht => fit_spec c t _ a (h.live t (World.get_mem ht)) (hs t ht)
  | writeKey i a => exact onTab_ok (f := fun t cd => writeKey c t cd a) h fun t ht => writeKey_spec c t _ a (h.live t (World.get_mem ht)) (hs t ht)
  | removeKey i id => exact onTab_ok (f := fun t cd => removeKey c t cd id) h fun t ht => removeKey_spec c t _ id (h.live t (World.get_mem ht)) (hs t ht)
  | getKey i id => exact onTab_ok (f := fun t cd => getKey t cd id) h fun t ht => getKey_spec t _ id (h.live t (World.get_mem ht))
  | convolve i dim nk => exact onTab_ok (f := fun t cd => convolve c t cd dim nk) h fun t ht => convolve_spec c t _ dim nk (h.live t (World.get_mem ht)) (hs t ht)
  | permute i p => exact onTab_ok (f := fun t cd => permute c t cd p) h fun t ht => permute_spec c t _ p (h.live t (World.get_mem ht)) (hs t ht)
  | writeFits i ioOk => exact onTab_ok (f := fun t cd => writeFits t cd ioOk) h fun t ht => writeFits_spec t _ ioOk (h.live t (World.get_mem ht))
  | moveConstruct i j =>
    simp only [step]
    cases hi : w.get i with
    | some _ => cases w.get j <;> exact StepOk.ofSkip h
    | none =>
      cases hj : w.get j with
      | none => exact StepOk.ofSkip h
      | some s =>
        have hm := World.get_mem hj
        exact ⟨(h.put i (o := some s) (fun t e => by cases e; exact h.live s hm)).put j (fun t e => by cases e; exact Tab.empty_invX),
          by simp, fun hx _ => (hx.put i (o := some s) (fun t e => by cases e; exact hx s hm)).put j (fun t e => by cases e; rfl)⟩
  | moveAssign i j =>
    simp only [step]
    cases hi : w.get i with
    | none => cases w.get j <;> exact StepOk.ofSkip h
    | some t =>
      cases hj : w.get j with
      | none => exact StepOk.ofSkip h
      | some s =>
        have hmt := World.get_mem hi
        have hms := World.get_mem hj
        dsimp only
        split
        · exact ⟨h, by simp, fun hx _ => hx⟩
        · split
          · have h2 := (h.put i (o := some s) (fun t e => by cases e; exact h.live s hms)).put j (o := some Tab.empty)
              (fun t e => by cases e; exact Tab.empty_invX)
            refine ⟨⟨h2.live, fun r hr => ?_⟩, by simp,
              fun hx _ => (hx.put i (o := some s) (fun t e => by cases e; exact hx s hms)).put j (fun t e => by cases e; rfl)⟩
            rcases List.mem_cons.mp hr with e | e
            · subst e; obtain ⟨a, b⟩ := destroy_spec t (h.live t hmt); rw [a, b]
            · exact h.dead r e
          · exact ⟨(h.put i (o := some s) (fun t e => by cases e; exact h.live s hms)).put j (fun t' e => by cases e; exact h.live t hmt),
              by simp, fun hx _ => (hx.put i (o := some s) (fun t e => by cases e; exact hx s hms)).put j (fun t' e => by cases e; exact hx t hmt)⟩
  | compare i j =>
    simp only [step]
    cases hi : w.get i with
    | none => cases w.get j <;> exact StepOk.ofSkip h
    | some t =>
      cases hj : w.get j with
      | none => exact StepOk.ofSkip h
      | some s =>
        dsimp only
        split
        · exact ⟨h, by simp, fun hx _ => hx⟩
        · rename_i hne
          split
          · rename_i h0
            have : c.eqEmpty = true := by
              rcases hs t s hi hj with h1 | h1 | h1
              · exact h1
              · exact absurd h0 h1
              · exact absurd (by rw [h0] at hne; exact (Decidable.not_not.mp hne).symm : s.ndim = 0) h1
            exact ⟨h, by simp [this], fun hx _ => hx⟩
          · exact ⟨h, by simp, fun hx _ => hx⟩
  | destroy i =>
    simp only [step]
    cases hi : w.get i with
    | none => exact StepOk.ofSkip h
    | some t =>
      have ht := h.live t (World.get_mem hi)
      have h2 := h.put i (o := none) (fun t e => by cases e)
      refine ⟨⟨h2.live, fun r hr => ?_⟩, by simp, fun hx _ => hx.put i (fun t e => by cases e)⟩
      rcases List.mem_cons.mp hr with e | e
      · subst e; obtain ⟨a, b⟩ := destroy_spec t ht; rw [a, b]
      · exact h.dead r e
  | stack i srcs order =>
    simp only [step]
    cases hi : w.get i with
    | some _ => exact StepOk.ofSkip h
    | none =>
      cases hm : srcs.mapM w.get with
      | none => exact StepOk.ofSkip h
      | some ts =>
        have hok := stack_ok c h i ts order (fun t ht => h.live t (mapM_get_mem hm t ht)) (hs hi ts hm)
        exact ⟨hok.inv, hok.nocrash, fun hx he => hok.ext hx (he.resolve_right (by simp [Op.isStack]))⟩

/-! ### histories, any configuration -/

/-- every call of the history is issued in circumstances in which it is safe (see `SafeCall`) -/
def SafeHist (c : Cfg) : World → List Op → Prop
  | _, [] => True
  | w, op :: ops => SafeCall c w op ∧ SafeHist c (step c w op).w ops

theorem run_invX (c : Cfg) : ∀ {w : World} (ops : List Op), w.InvX → SafeHist c w ops → (run c w ops).InvX := by
  intro w ops
  induction ops generalizing w with
  | nil => intro h _; exact h
  | cons op ops ih => intro h hs; exact ih (step_ok c h op hs.1).inv hs.2

theorem run_inv_of (c : Cfg) : ∀ {w : World} (ops : List Op), w.Inv → SafeHist c w ops →
    (c.stackExtents = true ∨ ∀ op ∈ ops, op.isStack = false) → (run c w ops).Inv := by
  intro w ops
  induction ops generalizing w with
  | nil => intro h _ _; exact h
  | cons op ops ih =>
    intro h hs he
    have hk := step_ok c h.toInvX op hs.1
    have hx := hk.ext h.allExt (he.imp id fun h' => h' op (List.mem_cons_self))
    exact ih (hk.inv.toInv hx) hs.2 (he.imp id fun h' o ho => h' o (List.mem_cons_of_mem _ ho))

/-- destroying objects is always safe -/
theorem safeHist_destroys (c : Cfg) : ∀ (w : World) (l : List Nat), SafeHist c w (l.map Op.destroy) := by
  intro w l
  induction l generalizing w with
  | nil => trivial
  | cons a l ih => exact ⟨trivial, ih _⟩

/-- no step of a safe history has undefined behaviour -/
theorem run_nocrash (c : Cfg) : ∀ {w : World} (ops pre : List Op) (op : Op) (post : List Op), w.InvX → SafeHist c w ops →
    ops = pre ++ op :: post → (step c (run c w pre) op).res ≠ .crash := by
  intro w ops pre
  induction pre generalizing w ops with
  | nil => intro op post h hs e; subst e; exact (step_ok c h op hs.1).nocrash
  | cons p pre ih =>
    intro op post h hs e
    subst e
    exact ih (pre ++ op :: post) op post (step_ok c h p hs.1).inv hs.2 rfl

/-! ### the repaired configuration: every call is safe -/

theorem safeCall_repaired {w : World} (hx : w.AllExt) (op : Op) : SafeCall Cfg.repaired w op := by
  cases op <;> simp only [SafeCall]
  · intro _; exact ⟨Or.inl rfl, Or.inl rfl⟩
  · intro t _; exact Or.inr ⟨Or.inl rfl, Or.inl rfl⟩
  · intro t _; exact ⟨Or.inl rfl, Or.inl rfl⟩
  · intro t _; exact Or.inl rfl
  · intro t _; exact Or.inl rfl
  · intro t ht; exact ⟨Or.inl rfl, Or.inl (hx t (World.get_mem ht)), Or.inl rfl⟩
  · intro t ht; exact ⟨Or.inl rfl, Or.inl (hx t (World.get_mem ht))⟩
  · intro t s _ _; exact Or.inl rfl
  · intro _ ts _; exact ⟨Or.inl rfl, fun _ => ⟨Or.inl rfl, Or.inl rfl⟩⟩

theorem step_inv {w : World} (h : w.Inv) (op : Op) : (step Cfg.repaired w op).w.Inv := by
  have hk := step_ok Cfg.repaired h.toInvX op (safeCall_repaired h.allExt op)
  exact hk.inv.toInv (hk.ext h.allExt (Or.inl rfl))

theorem step_nocrash {w : World} (h : w.Inv) (op : Op) : (step Cfg.repaired w op).res ≠ .crash :=
  (step_ok Cfg.repaired h.toInvX op (safeCall_repaired h.allExt op)).nocrash

theorem World.init_inv (cd : Option Nat) : (World.init cd).Inv :=
  ⟨fun t h => by simp [World.init] at h, fun r h => by simp [World.init] at h⟩

theorem run_inv {w : World} (h : w.Inv) (ops : List Op) : (run Cfg.repaired w ops).Inv := by
  induction ops generalizing w with
  | nil => exact h
  | cons op ops ih => exact ih (step_inv h op)


/-! ### an executable (sufficient) test for `SafeCall`, to exhibit safe histories by `decide` -/

def completesB (cd : Option Nat) (steps : List Step) : Bool := (runSteps cd steps []).2.2.2

def readSafeB (c : Cfg) (cd : Option Nat) (f : FileDesc) : Bool :=
  (c.readGuard || completesB cd (readSteps c f)) && (c.readAuxExact || f.aux.all fun e => e.stored == e.raw)

def stackCompletesB (c : Cfg) (cd : Option Nat) (dims : List Dim) (k order : Nat) : Bool :=
  (runSteps cd ((padBlocks dims).map .a) []).2.2.2 &&
  (runSteps (runSteps cd ((padBlocks dims).map .a) []).2.2.1 ((padBlocks dims).map .a) []).2.2.2 &&
  (runSteps (runSteps (runSteps cd ((padBlocks dims).map .a) []).2.2.1 ((padBlocks dims).map .a) []).2.2.1
    ((stackMainBlocks c dims k order).map .a) []).2.2.2

def onGet (w : World) (i : Nat) (p : Tab → Bool) : Bool :=
  match w.get i with
  | none => true
  | some t => p t

def safeCallB (c : Cfg) (w : World) : Op → Bool
  | .construct _ | .getKey _ _ | .writeFits _ _ | .destroy _ | .moveConstruct _ _ | .moveAssign _ _ => true
  | .constructFile _ f => readSafeB c w.cd f
  | .read i f => onGet w i fun t => t.ndim != 0 || readSafeB c w.cd f
  | .fit i a => onGet w i fun t =>
      (c.fitRefuse || t.ndim == 0 || !a.valid || a.dims.isEmpty) && (c.fitGuard || completesB w.cd (fitSteps a))
  | .writeKey i a => onGet w i fun t => c.writeKeyRefuse || t.ndim != 0 || a.kind != 0
  | .removeKey i id => onGet w i fun t =>
      c.removeKeyFirst || (findIdx t.aux id).isNone || completesB w.cd [.a (8 * (t.aux.length - 1))]
  | .convolve i dim nk => onGet w i fun t =>
      (c.convCheck || (decide (dim < t.ndim) && nk != 0)) && (!t.noExtents || decide (t.ndim ≤ dim) || nk == 0) &&
      (c.convGuard || completesB w.cd (convSteps t dim nk))
  | .permute i p => onGet w i fun t =>
      (c.permuteEmpty || t.ndim != 0 || !p.isPerm (List.range t.ndim)) && (!t.noExtents || !p.isPerm (List.range t.ndim))
  | .compare i j => onGet w i fun t => onGet w j fun s => c.eqEmpty || t.ndim != 0 || s.ndim != 0
  | .stack _ srcs order => match srcs.mapM w.get with
    | none => true
    | some ts =>
      (c.stackCheck || stackValid ts) &&
      (!stackValid ts ||
        ((c.stackGuard || stackCompletesB c w.cd (ts.headD Tab.empty).dims ts.length order) &&
         (c.stackDelete || !stackCompletesB c w.cd (ts.headD Tab.empty).dims ts.length order)))

theorem onGet_sound {w : World} {i : Nat} {p : Tab → Bool} (h : onGet w i p = true) {t : Tab} (ht : w.get i = some t) :
    p t = true := by
  simpa [onGet, ht] using h

theorem readSafeB_sound {c : Cfg} {cd : Option Nat} {f : FileDesc} (h : readSafeB c cd f = true) : ReadSafe c cd f := by
  simp only [readSafeB, completesB, Bool.and_eq_true, Bool.or_eq_true, List.all_eq_true, beq_iff_eq] at h
  exact ⟨h.1, h.2⟩

theorem stackCompletesB_iff {c : Cfg} {cd : Option Nat} {dims : List Dim} {k order : Nat} :
    stackCompletesB c cd dims k order = true ↔ StackCompletes c cd dims k order := by
  simp only [stackCompletesB, StackCompletes, Bool.and_eq_true, and_assoc]

theorem safeCallB_sound {c : Cfg} {w : World} {op : Op} (h : safeCallB c w op = true) : SafeCall c w op := by
  cases op <;> simp only [safeCallB] at h <;> simp only [SafeCall]
  · intro _; exact readSafeB_sound h
  · intro t ht
    have := onGet_sound h ht
    simp only [Bool.or_eq_true, bne_iff_ne, ne_eq] at this
    exact this.imp id readSafeB_sound
  · intro t ht
    have := onGet_sound h ht
    simp only [completesB, Bool.and_eq_true, Bool.or_eq_true, beq_iff_eq, Bool.not_eq_true', List.isEmpty_iff] at this
    exact ⟨by rcases this.1 with ((h1 | h1) | h1) | h1 <;> simp [h1], this.2⟩
  · intro t ht
    have := onGet_sound h ht
    simp only [Bool.or_eq_true, bne_iff_ne, ne_eq] at this
    rcases this with (h1 | h1) | h1
    · exact Or.inl h1
    · exact Or.inr (Or.inl h1)
    · exact Or.inr (Or.inr h1)
  · intro t ht
    have := onGet_sound h ht
    simp only [completesB, Bool.or_eq_true, Option.isNone_iff_eq_none] at this
    rcases this with (h1 | h1) | h1
    · exact Or.inl h1
    · exact Or.inr (Or.inl h1)
    · exact Or.inr (Or.inr h1)
  · intro t ht
    have := onGet_sound h ht
    simp only [completesB, Bool.and_eq_true, Bool.or_eq_true, decide_eq_true_eq, bne_iff_ne, ne_eq, Bool.not_eq_true', beq_iff_eq] at this
    obtain ⟨⟨h1, h2⟩, h3⟩ := this
    refine ⟨h1, ?_, h3⟩
    rcases h2 with (h2 | h2) | h2
    · exact Or.inl h2
    · exact Or.inr (Or.inl h2)
    · exact Or.inr (Or.inr h2)
  · intro t ht
    have := onGet_sound h ht
    simp only [Bool.and_eq_true, Bool.or_eq_true, bne_iff_ne, ne_eq, Bool.not_eq_true'] at this
    obtain ⟨h1, h2⟩ := this
    refine ⟨?_, h2⟩
    rcases h1 with (h1 | h1) | h1
    · exact Or.inl h1
    · exact Or.inr (Or.inl h1)
    · exact Or.inr (Or.inr h1)
  · intro t s ht hs
    have := onGet_sound (onGet_sound h ht) hs
    simp only [Bool.or_eq_true, bne_iff_ne, ne_eq] at this
    rcases this with (h1 | h1) | h1
    · exact Or.inl h1
    · exact Or.inr (Or.inl h1)
    · exact Or.inr (Or.inr h1)
  · intro _ ts hm
    rw [hm] at h
    simp only [Bool.and_eq_true, Bool.or_eq_true, Bool.not_eq_true', stackCompletesB_iff] at h
    obtain ⟨h1, h2⟩ := h
    refine ⟨h1, fun hv => ?_⟩
    rcases h2 with h2 | h2
    · rw [hv] at h2; cases h2
    · refine ⟨h2.1, h2.2.imp id fun h3 hc => ?_⟩
      rw [← stackCompletesB_iff, h3] at hc; cases hc

def safeHistB (c : Cfg) : World → List Op → Bool
  | _, [] => true
  | w, op :: ops => safeCallB c w op && safeHistB c (step c w op).w ops

theorem safeHistB_sound {c : Cfg} : ∀ {w : World} {ops : List Op}, safeHistB c w ops = true → SafeHist c w ops := by
  intro w ops
  induction ops generalizing w with
  | nil => intro _; trivial
  | cons op ops ih =>
    intro h
    simp only [safeHistB, Bool.and_eq_true] at h
    exact ⟨safeCallB_sound h.1, ih h.2⟩

end PsV.Lifecycle
