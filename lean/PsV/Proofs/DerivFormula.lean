import PsV.Proofs.DerivSpec
import Mathlib.Tactic.LinearCombination
/-!
The knot-difference formula is the derivative of the polynomial piece.

`dBp` differentiates the Cox–de Boor recurrence by the product rule (the formal derivative in `x` of
the polynomial `x ↦ Bp t x left n i`; every coefficient of the recurrence is affine in `x`).
`dBp_eq_DBp`: for knots that are non-decreasing on the indices the basis function uses,
`d/dx B_{i,n+1} = (n+1) (B_{i,n}/(t_{i+n+1}-t_i) − B_{i+1,n}/(t_{i+n+2}-t_{i+1}))`, with the `a/0 = 0`
convention on both sides (repeated knots allowed).
-/
namespace PsV
variable {α : Type} [Field α] [LinearOrder α]

/-- product-rule derivative of `Bp` with respect to `x` -/
def dBp (t : Int → α) (x : α) (left : Int) : Nat → Int → α
  | 0, _ => 0
  | n+1, i =>
    (1 / (t (i+n+1) - t i)) * Bp t x left n i + (x - t i) / (t (i+n+1) - t i) * dBp t x left n i
    + (-(1 / (t (i+n+2) - t (i+1)))) * Bp t x left n (i+1)
    + (t (i+n+2) - x) / (t (i+n+2) - t (i+1)) * dBp t x left n (i+1)

theorem dBp_eq_DBp (t : Int → α) (x : α) (left : Int) :
    ∀ (n : Nat) (i : Int), (∀ a b : Int, i ≤ a → a ≤ b → b ≤ i + n + 2 → t a ≤ t b) →
      dBp t x left (n+1) i = DBp t x left n i := by
  intro n
  induction n with
  | zero =>
    intro i _
    simp only [dBp, DBp, Bp]
    push_cast
    ring
  | succ n ih =>
    intro i hmono
    have ih1 := ih i (fun a b h1 h2 h3 => hmono a b h1 h2 (by push_cast; omega))
    have ih2 := ih (i+1) (fun a b h1 h2 h3 => hmono a b (by omega) h2 (by push_cast; omega))
    rw [dBp, ih1, ih2]
    simp only [DBp, Bp]
    -- abbreviations for the inverse knot differences
    have e1 : i + 1 + (n:Int) + 1 = i + n + 2 := by ring
    have e2 : i + 1 + (n:Int) + 2 = i + n + 3 := by ring
    have e3 : i + ((n + 1 : Nat) : Int) + 1 = i + n + 2 := by push_cast; ring
    have e4 : i + ((n + 1 : Nat) : Int) + 2 = i + n + 3 := by push_cast; ring
    have e5 : i + 1 + 1 = i + 2 := by ring
    simp only [e1, e2, e3, e4, e5]
    -- the only non-polynomial fact: the two top-level weights are both 1 or the middle term vanishes
    have key : (1 / (t (i+n+2) - t (i+1))) * ((t (i+n+3) - t (i+1)) / (t (i+n+3) - t (i+1)) - (t (i+n+2) - t i) / (t (i+n+2) - t i)) = 0 := by
      by_cases hz : t (i+n+2) - t (i+1) = 0
      · rw [hz]; simp
      · have h1 : t (i+1) ≤ t (i+n+2) := hmono _ _ (by omega) (by omega) (by push_cast; omega)
        have hlt : t (i+1) < t (i+n+2) := lt_of_le_of_ne h1 (fun h => hz (by rw [h]; ring))
        have h2 : t i ≤ t (i+1) := hmono _ _ (le_refl _) (by omega) (by push_cast; omega)
        have h3 : t (i+n+2) ≤ t (i+n+3) := hmono _ _ (by omega) (by omega) (by push_cast; omega)
        have n1 : t (i+n+3) - t (i+1) ≠ 0 := by
          have : t (i+1) < t (i+n+3) := lt_of_lt_of_le hlt h3
          exact sub_ne_zero.mpr (ne_of_gt this)
        have n2 : t (i+n+2) - t i ≠ 0 := by
          have : t i < t (i+n+2) := lt_of_le_of_lt h2 hlt
          exact sub_ne_zero.mpr (ne_of_gt this)
        rw [div_self n1, div_self n2]; ring
    push_cast
    have : ∀ (A B C Q0 Q1 Q2 a b a' b' b'' : α),
        b' * (b * (t (i+n+3) - t (i+1)) - a * (t (i+n+2) - t i)) = 0 →
        a * (a' * (x - t i) * Q0 + b' * (t (i+n+2) - x) * Q1)
        + a * (x - t i) * (((n:α) + 1) * (a' * Q0 - b' * Q1))
        + (-b) * (b' * (x - t (i+1)) * Q1 + b'' * (t (i+n+3) - x) * Q2)
        + b * (t (i+n+3) - x) * (((n:α) + 1) * (b' * Q1 - b'' * Q2))
        = ((n:α) + 1 + 1) * (a * (a' * (x - t i) * Q0 + b' * (t (i+n+2) - x) * Q1)
            - b * (b' * (x - t (i+1)) * Q1 + b'' * (t (i+n+3) - x) * Q2)) := by
      intro A B C Q0 Q1 Q2 a b a' b' b'' hk
      have : ((n:α) + 1) * Q1 * (b' * (b * (t (i+n+3) - t (i+1)) - a * (t (i+n+2) - t i))) = 0 := by rw [hk]; ring
      linear_combination this
    have hk' : (1 / (t (i+n+2) - t (i+1))) * ((1 / (t (i+n+3) - t (i+1))) * (t (i+n+3) - t (i+1)) - (1 / (t (i+n+2) - t i)) * (t (i+n+2) - t i)) = 0 := by
      have := key
      simp only [div_eq_mul_inv, one_mul] at this ⊢
      linear_combination this
    have := this 0 0 0 (Bp t x left n i) (Bp t x left n (i+1)) (Bp t x left n (i+2))
      (1 / (t (i+n+2) - t i)) (1 / (t (i+n+3) - t (i+1))) (1 / (t (i+n+1) - t i)) (1 / (t (i+n+2) - t (i+1)))
      (1 / (t (i+n+3) - t (i+2))) hk'
    simp only [div_eq_mul_inv, one_mul] at this ⊢
    linear_combination this

end PsV
