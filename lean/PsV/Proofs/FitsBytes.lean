import PsV.Model.FitsBytes
/-! Helper lemmas for C08: the byte-level reader is monotone under extension of the file. -/
namespace PsV.C08

theorem takeBlock_prefix {p q b r : Bytes} (hpq : p <+: q) (h : takeBlock p = some (b, r)) :
    ∃ r', takeBlock q = some (b, r') ∧ r <+: r' := by
  obtain ⟨t, rfl⟩ := hpq
  unfold takeBlock at h ⊢
  split at h
  · rename_i hl
    simp only [Option.some.injEq, Prod.mk.injEq] at h
    obtain ⟨rfl, rfl⟩ := h
    have hlen : 2880 ≤ p.length := by
      rw [List.length_take] at hl; omega
    refine ⟨p.drop 2880 ++ t, ?_, List.prefix_append _ _⟩
    rw [List.take_append_of_le_length hlen, List.drop_append_of_le_length hlen]
    simp only [hl, if_true]
  · exact absurd h (by simp)

theorem takeBlock_nil : takeBlock [] = none := by
  unfold takeBlock; simp

theorem readHeader_prefix : ∀ (f g : Nat) (p q : Bytes) (cs : List Bytes) (r : Bytes), f ≤ g → p <+: q →
    readHeader f p = some (cs, r) → ∃ r', readHeader g q = some (cs, r') ∧ r <+: r'
  | 0, _, _, _, _, _, _, _, h => by unfold readHeader at h; exact absurd h (by simp)
  | f+1, 0, _, _, _, _, hfg, _, _ => absurd hfg (by omega)
  | f+1, g+1, p, q, cs, r, hfg, hpq, h => by
    unfold readHeader at h ⊢
    cases hb : takeBlock p with
    | none => rw [hb] at h; exact absurd h (by simp)
    | some br =>
      obtain ⟨b, r0⟩ := br
      obtain ⟨r0', hq, hr0⟩ := takeBlock_prefix hpq hb
      rw [hb] at h; rw [hq]
      simp only at h ⊢
      cases hs : splitAtEnd (cardsOf b) with
      | some cs0 =>
        rw [hs] at h
        simp only [Option.some.injEq, Prod.mk.injEq] at h
        obtain ⟨rfl, rfl⟩ := h
        exact ⟨r0', rfl, hr0⟩
      | none =>
        rw [hs] at h
        simp only at h ⊢
        cases hrec : readHeader f r0 with
        | none => rw [hrec] at h; exact absurd h (by simp)
        | some x =>
          obtain ⟨cs1, r1⟩ := x
          rw [hrec] at h
          simp only [Option.some.injEq, Prod.mk.injEq] at h
          obtain ⟨rfl, rfl⟩ := h
          obtain ⟨r1', h1, h2⟩ := readHeader_prefix f g r0 r0' cs1 r1 (by omega) hr0 hrec
          rw [h1]
          exact ⟨r1', rfl, h2⟩

theorem readHeader_nil (f : Nat) : readHeader f [] = none := by
  cases f with
  | zero => rfl
  | succ k => unfold readHeader; rw [takeBlock_nil]

theorem roundUp_ge (n : Nat) : n ≤ roundUp n := by unfold roundUp; omega

theorem readHdu_prefix {F G : Nat} {p q : Bytes} {h : Hdu} {r : Bytes} (hFG : F ≤ G) (hpq : p <+: q)
    (hh : readHdu F p = some (h, r)) :
    ∃ h' r', readHdu G q = some (h', r') ∧ h'.cards = h.cards ∧ ((h' = h ∧ r <+: r') ∨ (h.data = none ∧ r = [])) := by
  unfold readHdu at hh ⊢
  cases hhd : readHeader F p with
  | none => rw [hhd] at hh; exact absurd hh (by simp)
  | some x =>
    obtain ⟨cards, rest⟩ := x
    obtain ⟨rest', hq, hrest⟩ := readHeader_prefix F G p q cards rest hFG hpq hhd
    rw [hhd] at hh; rw [hq]
    simp only at hh ⊢
    cases hd : dataLen cards with
    | none => rw [hd] at hh; exact absurd hh (by simp)
    | some len =>
      rw [hd] at hh
      simp only at hh ⊢
      obtain ⟨t, rfl⟩ := hrest
      by_cases hl : (rest.take (roundUp len)).length = roundUp len
      · simp only [hl, if_true, Option.some.injEq, Prod.mk.injEq] at hh
        obtain ⟨rfl, rfl⟩ := hh
        have hlen : roundUp len ≤ rest.length := by
          rw [List.length_take] at hl; omega
        have hlen' : len ≤ rest.length := Nat.le_trans (roundUp_ge len) hlen
        have e1 : ((rest ++ t).take (roundUp len)).length = roundUp len := by
          rw [List.take_append_of_le_length hlen]; exact hl
        simp only [e1, if_true]
        refine ⟨_, _, rfl, rfl, Or.inl ⟨?_, ?_⟩⟩
        · rw [List.take_append_of_le_length hlen']
        · rw [List.drop_append_of_le_length hlen]; exact List.prefix_append _ _
      · rw [if_neg hl] at hh
        by_cases hd2 : (rest.take len).length = len
        · rw [if_pos hd2] at hh
          simp only [Option.some.injEq, Prod.mk.injEq] at hh
          obtain ⟨rfl, rfl⟩ := hh
          have hlen' : len ≤ rest.length := by
            rw [List.length_take] at hd2; omega
          have e2 : (rest ++ t).take len = rest.take len := List.take_append_of_le_length hlen'
          by_cases hl' : ((rest ++ t).take (roundUp len)).length = roundUp len
          · rw [if_pos hl', e2]
            exact ⟨_, _, rfl, rfl, Or.inl ⟨rfl, List.nil_prefix⟩⟩
          · rw [if_neg hl', e2, if_pos hd2]
            exact ⟨_, _, rfl, rfl, Or.inl ⟨rfl, List.nil_prefix⟩⟩
        · rw [if_neg hd2] at hh
          simp only [Option.some.injEq, Prod.mk.injEq] at hh
          obtain ⟨rfl, rfl⟩ := hh
          by_cases hl' : ((rest ++ t).take (roundUp len)).length = roundUp len
          · rw [if_pos hl']
            exact ⟨_, _, rfl, rfl, Or.inr ⟨rfl, rfl⟩⟩
          · rw [if_neg hl']
            by_cases hd3 : ((rest ++ t).take len).length = len
            · rw [if_pos hd3]
              exact ⟨_, _, rfl, rfl, Or.inr ⟨rfl, rfl⟩⟩
            · rw [if_neg hd3]
              exact ⟨_, _, rfl, rfl, Or.inr ⟨rfl, rfl⟩⟩

theorem readHdu_nil (F : Nat) : readHdu F [] = none := by
  unfold readHdu; rw [readHeader_nil]

theorem readHdus_nil (F f : Nat) : readHdus F f [] = [] := by
  cases f with
  | zero => rfl
  | succ k => unfold readHdus; rw [readHdu_nil]

/-- The HDU list of a truncated file: the same HDUs, cut off, the last one possibly without its data. -/
inductive HdusLe : List Hdu → List Hdu → Prop
  | nil (l : List Hdu) : HdusLe [] l
  | cons (h : Hdu) (t₁ t₂ : List Hdu) : HdusLe t₁ t₂ → HdusLe (h :: t₁) (h :: t₂)
  | trunc (h h' : Hdu) (t₂ : List Hdu) : h.cards = h'.cards → h.data = none → HdusLe [h] (h' :: t₂)

theorem readHdus_le {F G : Nat} (hFG : F ≤ G) : ∀ (f g : Nat) (p q : Bytes), f ≤ g → p <+: q →
    HdusLe (readHdus F f p) (readHdus G g q)
  | 0, _, _, _, _, _ => by unfold readHdus; exact HdusLe.nil _
  | f+1, 0, _, _, hfg, _ => absurd hfg (by omega)
  | f+1, g+1, p, q, hfg, hpq => by
    unfold readHdus
    cases hp : readHdu F p with
    | none => exact HdusLe.nil _
    | some x =>
      obtain ⟨h, r⟩ := x
      obtain ⟨h', r', hq, hc, hcase⟩ := readHdu_prefix hFG hpq hp
      rw [hq]
      simp only
      rcases hcase with ⟨rfl, hr⟩ | ⟨hd, rfl⟩
      · exact HdusLe.cons _ _ _ (readHdus_le hFG f g r r' (by omega) hr)
      · rw [readHdus_nil]
        exact HdusLe.trunc _ _ _ hc.symm hd

theorem extData_le (name : Bytes) (ok : List Bytes → Bool) {hs₁ hs₂ : List Hdu} (hle : HdusLe hs₁ hs₂) :
    ∀ d, extData name ok hs₁ = some d → extData name ok hs₂ = some d := by
  induction hle with
  | nil l => intro d h; unfold extData at h; exact absurd h (by simp)
  | cons h t₁ t₂ _ ih =>
    intro d hd
    unfold extData at hd ⊢
    by_cases hn : (extName h.cards == some name) = true
    · simp only [hn, if_true] at hd ⊢; exact hd
    · simp only [hn, if_false] at hd ⊢; exact ih d hd
  | trunc h h' t₂ hc hd0 =>
    intro d hd
    unfold extData at hd
    by_cases hn : (extName h.cards == some name) = true
    · simp only [hn, if_true, hd0] at hd
      by_cases hk : ok h.cards = true
      · simp only [hk, if_true] at hd; exact absurd hd (by simp)
      · simp only [hk, if_false] at hd; exact absurd hd (by simp)
    · simp only [hn, if_false] at hd
      unfold extData at hd; exact absurd hd (by simp)

theorem optAll_mono {α : Type} (f₁ f₂ : Nat → Option α) (hf : ∀ i d, f₁ i = some d → f₂ i = some d) :
    ∀ (l : List Nat) (ks : List α), optAll (l.map f₁) = some ks → optAll (l.map f₂) = some ks
  | [], ks, h => by simpa [optAll] using h
  | i :: l, ks, h => by
    simp only [List.map_cons] at h ⊢
    cases h1 : f₁ i with
    | none => rw [h1] at h; unfold optAll at h; exact absurd h (by simp)
    | some x =>
      rw [h1] at h; rw [hf i x h1]
      unfold optAll at h ⊢
      cases h2 : optAll (l.map f₁) with
      | none => rw [h2] at h; exact absurd h (by simp)
      | some xs =>
        rw [h2] at h
        rw [optAll_mono f₁ f₂ hf l xs h2]
        exact h

theorem readKnots_le {hs₁ hs₂ : List Hdu} (hle : HdusLe hs₁ hs₂) (orders naxes : List Nat) (i : Nat) (ks : List Nat)
    (h : readKnots hs₁ orders naxes i = some ks) : readKnots hs₂ orders naxes i = some ks := by
  unfold readKnots at h ⊢
  cases hd : extData (knotsName i) (knotHdrOkFor (orders.getD i 0) (naxes.getD i 0)) hs₁ with
  | none => rw [hd] at h; exact absurd h (by simp)
  | some d =>
    rw [hd] at h
    rw [extData_le _ _ hle d hd]
    exact h

theorem readCore_le {hs₁ hs₂ : List Hdu} (hle : HdusLe hs₁ hs₂) (c : Core) (h : readCore hs₁ = some c) :
    readCore hs₂ = some c := by
  cases hle with
  | nil l => unfold readCore at h; exact absurd h (by simp)
  | cons p t₁ t₂ ht =>
    have hle' : HdusLe (p :: t₁) (p :: t₂) := HdusLe.cons _ _ _ ht
    unfold readCore at h ⊢
    simp only at h ⊢
    cases hi : headerInfo p.cards with
    | none => rw [hi] at h; exact absurd h (by simp)
    | some ao =>
      obtain ⟨ax, orders⟩ := ao
      rw [hi] at h
      simp only at h ⊢
      cases hd : p.data with
      | none => rw [hd] at h; exact absurd h (by simp)
      | some d =>
        rw [hd] at h
        simp only at h ⊢
        cases hk : optAll ((List.range ax.length).map fun i => readKnots (p :: t₁) orders ax.reverse i) with
        | none => rw [hk] at h; exact absurd h (by simp)
        | some ks =>
          rw [hk] at h
          have := optAll_mono (fun i => readKnots (p :: t₁) orders ax.reverse i)
            (fun i => readKnots (p :: t₂) orders ax.reverse i)
            (fun i ks hks => readKnots_le hle' orders ax.reverse i ks hks) _ _ hk
          rw [this]
          exact h
  | trunc p p' t₂ hc hd =>
    unfold readCore at h
    simp only at h
    cases hi : headerInfo p.cards with
    | none => rw [hi] at h; exact absurd h (by simp)
    | some ao =>
      rw [hi] at h
      simp only [hd] at h
      exact absurd h (by simp)

theorem readCoreBytes_prefix {p q : Bytes} (hpq : p <+: q) (c : Core) (h : readCoreBytes p = some c) :
    readCoreBytes q = some c := by
  unfold readCoreBytes hdusOf at h ⊢
  have hl : p.length + 1 ≤ q.length + 1 := Nat.succ_le_succ hpq.length_le
  exact readCore_le (readHdus_le hl _ _ p q hl hpq) c h

theorem readTable_core {hs : List Hdu} {v : View} (h : readTable hs = some v) : readCore hs = some v.core := by
  unfold readTable at h
  cases hc : readCore hs with
  | none => rw [hc] at h; exact absurd h (by simp)
  | some c =>
    rw [hc] at h
    simp only at h
    cases he : readExtents hs c.orders.length with
    | none => rw [he] at h; exact absurd h (by simp)
    | some e =>
      rw [he] at h
      simp only [Option.some.injEq] at h
      rw [← h]

end PsV.C08
