import PsV.Model.Eval
/-!
Law-free identities between routines: they hold for *every* `Arith` instance (IEEE double, IEEE
float storage, exact rationals, free terms), i.e. the two sides perform the same operations on the
same operands and are therefore bit-identical under any deterministic arithmetic.
-/
namespace PsV
variable {α : Type} [A : Arith α]

theorem vbLevels_succ (t : Int → α) (x : α) (left : Int) :
    ∀ (k j : Nat) (row : List α),
      vbLevels t x left (k+1) j row = vbStep t x left (j+k) 0 A.zero (vbLevels t x left k j row) := by
  intro k
  induction k with
  | zero => intro j row; simp [vbLevels]
  | succ k ih =>
    intro j row
    rw [vbLevels, ih (j+1)]
    have : j + 1 + k = j + (k + 1) := by omega
    rw [this]
    rfl

/-- value lane: the values produced by `bspline_nonzero` are, operation for operation, those of
`bsplvb_simple` (order ≥ 1; for order 0 see `bsplineNonzero_values_order0`). -/
theorem bsplineNonzero_values (t : Int → α) (nknots : Nat) (x : α) (left : Int) (n : Nat) (hn : n ≠ 0) :
    (bsplineNonzero t nknots x left n).1 = bsplvbSimple t nknots x left n := by
  obtain ⟨m, rfl⟩ : ∃ m, n = m + 1 := ⟨n - 1, by omega⟩
  simp only [bsplineNonzero, bsplvbSimple, bsplvb, Nat.add_one_ne_zero, if_false, Nat.add_sub_cancel]
  rw [vbLevels_succ]
  simp

/-- derivative lane: the derivatives produced by `bspline_nonzero` are those of
`bspline_deriv_nonzero` (every order). -/
theorem bsplineNonzero_derivs (t : Int → α) (nknots : Nat) (x : α) (left : Int) (n : Nat) :
    (bsplineNonzero t nknots x left n).2 = bsplineDerivNonzero t nknots x left n := by
  by_cases hn : n = 0
  · simp [bsplineNonzero, bsplineDerivNonzero, hn]
  · simp [bsplineNonzero, bsplineDerivNonzero, hn]

/-- order 0: `bspline_nonzero` writes 1 without margin handling; `bsplvb_simple` does the same when
the centre is a valid interval index and the margin loops do not move (which the lookup guarantees). -/
theorem bsplineNonzero_values_order0 (t : Int → α) (nknots : Nat) (x : α) (left : Int)
    (h0 : 0 ≤ left) (h1 : left + 2 ≤ nknots)
    (hd : left = 0 → A.lt x (t 0) = false)
    (hu : left = (nknots : Int) - 2 → A.lt (t (left + 1)) x = false) :
    (bsplineNonzero t nknots x left 0).1 = bsplvbSimple t nknots x left 0 := by
  have hm : marginShift t nknots x left 0 = left := by
    unfold marginShift
    have e1 : (if left = ((0:Nat):Int) then shiftDown t x (nknots + 1) left else left) = left := by
      split
      · rename_i h
        have h' : left = 0 := by simpa using h
        unfold shiftDown
        simp [h', hd h']
      · rfl
    simp only [e1]
    split
    · rename_i h
      have h' : left = (nknots:Int) - 2 := by simpa using h
      unfold shiftUp
      simp [hu h']
    · rfl
  simp only [bsplineNonzero, if_true, bsplvbSimple, hm, bsplvb, vbLevels, rearrange]
  have e1 : ¬ (left < 0) := by omega
  have e2 : ¬ ((nknots:Int) < left + 2) := by omega
  simp [e1, e2, vbLevels]

end PsV
