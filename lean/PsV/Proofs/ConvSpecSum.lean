import PsV.Proofs.ConvTrunc
import PsV.Proofs.ConvPoly
import PsV.Proofs.ConvTile
/-!
# The specification's convolution integral as a sum of double divided differences of tile sums
-/
namespace PsV
open Finset Polynomial ConvSpec

/-! ## 1. folds are sums -/

theorem foldl_range_eq_sum (g : ℚ → Nat → ℚ) (f : Nat → ℚ) (hg : ∀ acc b, g acc b = acc + f b) :
    ∀ (n : Nat) (acc0 : ℚ), (List.range n).foldl g acc0 = acc0 + ∑ b ∈ range n, f b
  | 0, acc0 => by simp
  | n+1, acc0 => by
    rw [List.range_succ, List.foldl_append, foldl_range_eq_sum g f hg n acc0, Finset.sum_range_succ]
    simp only [List.foldl_cons, List.foldl_nil, hg]
    ring

theorem peval_foldl_range (s : ℚ) (g : Poly → Nat → Poly) (f : Nat → ℚ)
    (hg : ∀ acc r, peval (g acc r) s = peval acc s + f r) :
    ∀ (n : Nat) (acc0 : Poly),
      peval ((List.range n).foldl g acc0) s = peval acc0 s + ∑ r ∈ range n, f r
  | 0, acc0 => by simp
  | n+1, acc0 => by
    rw [List.range_succ, List.foldl_append, Finset.sum_range_succ]
    simp only [List.foldl_cons, List.foldl_nil, hg]
    rw [peval_foldl_range s g f hg n acc0]
    ring

/-- lower end of tile `(a, b)`, as `conv1` clips it -/
def cLo (τ y : Nat → ℚ) (x : ℚ) (a b : Nat) : ℚ := if x - τ (a+1) < y b then y b else x - τ (a+1)
/-- upper end of tile `(a, b)`, as `conv1` clips it -/
def cHi (τ y : Nat → ℚ) (x : ℚ) (a b : Nat) : ℚ := if y (b+1) < x - τ a then y (b+1) else x - τ a

/-- the contribution of tile `(a, b)` to `conv1` -/
def tileTerm (τ : Nat → ℚ) (p naxes : Nat) (c y : Nat → ℚ) (q : Nat) (x : ℚ) (a b : Nat) : ℚ :=
  if cLo τ y x a b < cHi τ y x a b then
    pintegral (pmul (pcompLin (fpiece τ p naxes c a) x (-1)) (kpiece y q b)) (cLo τ y x a b) (cHi τ y x a b)
  else 0

theorem tileInt_eq (F : ℚ → ℚ) (τ y : Nat → ℚ) (x : ℚ) (a b : Nat) :
    tileInt F (x - τ (a+1)) (x - τ a) (y b) (y (b+1)) =
      if cLo τ y x a b < cHi τ y x a b then F (cHi τ y x a b) - F (cLo τ y x a b) else 0 := rfl

theorem conv1_eq_sum_skip (τ : Nat → ℚ) (nknots p naxes : Nat) (c y : Nat → ℚ) (q : Nat) (x : ℚ) :
    conv1 τ nknots p naxes c y q x =
      ∑ a ∈ range (nknots - 1),
        (if (x - τ a ≤ y 0 ∨ y q ≤ x - τ (a+1) ∨ x - τ a ≤ x - τ (a+1)) then 0 else
          ∑ b ∈ range q, tileTerm τ p naxes c y q x a b) := by
  unfold conv1
  rw [foldl_range_eq_sum _ (fun a => (if (x - τ a ≤ y 0 ∨ y q ≤ x - τ (a+1) ∨ x - τ a ≤ x - τ (a+1)) then 0 else
          ∑ b ∈ range q, tileTerm τ p naxes c y q x a b)) _ _ 0, zero_add]
  intro acc a
  dsimp only
  split_ifs with h
  · simp
  · rw [foldl_range_eq_sum _ (fun b => tileTerm τ p naxes c y q x a b)]
    intro acc b
    unfold tileTerm cLo cHi
    split_ifs <;> simp

theorem y_mono {y : Nat → ℚ} {N : Nat} (hy : ∀ a b, a < b → b ≤ N → y a < y b) {a b : Nat}
    (hab : a ≤ b) (hb : b ≤ N) : y a ≤ y b := by
  rcases Nat.lt_or_eq_of_le hab with h | h
  · exact le_of_lt (hy a b h hb)
  · subst h; exact le_refl _

theorem tile_empty_of_skip (τ y : Nat → ℚ) (q : Nat) (x : ℚ)
    (hy : ∀ a b, a < b → b ≤ q → y a < y b) (a b : Nat) (hb : b < q)
    (h : x - τ a ≤ y 0 ∨ y q ≤ x - τ (a+1) ∨ x - τ a ≤ x - τ (a+1)) :
    ¬ cLo τ y x a b < cHi τ y x a b := by
  have h0 : y 0 ≤ y b := y_mono hy (Nat.zero_le _) (by omega)
  have h1 : y (b+1) ≤ y q := y_mono hy (by omega) (le_refl _)
  have l1 : x - τ (a+1) ≤ cLo τ y x a b := by unfold cLo; split_ifs <;> linarith
  have l2 : y b ≤ cLo τ y x a b := by unfold cLo; split_ifs <;> linarith
  have u1 : cHi τ y x a b ≤ x - τ a := by unfold cHi; split_ifs <;> linarith
  have u2 : cHi τ y x a b ≤ y (b+1) := by unfold cHi; split_ifs <;> linarith
  rcases h with h | h | h <;> linarith

theorem conv1_eq_sum (τ : Nat → ℚ) (nknots p naxes : Nat) (c y : Nat → ℚ) (q : Nat) (x : ℚ)
    (hy : ∀ a b, a < b → b ≤ q → y a < y b) :
    conv1 τ nknots p naxes c y q x =
      ∑ a ∈ range (nknots - 1), ∑ b ∈ range q, tileTerm τ p naxes c y q x a b := by
  rw [conv1_eq_sum_skip]
  apply Finset.sum_congr rfl
  intro a _
  split_ifs with h
  · symm
    apply Finset.sum_eq_zero
    intro b hb
    unfold tileTerm
    rw [if_neg (tile_empty_of_skip τ y q x hy a b (mem_range.mp hb) h)]
  · rfl

/-! ## 2. evaluation of the pieces -/

theorem bpiece_eval_zero (τ : Nat → ℚ) (a : Nat) (s : ℚ) : ∀ (p j : Nat), (a < j ∨ j + p < a) →
    peval (bpiece τ a p j) s = 0
  | 0, j, h => by
    have : j ≠ a := by omega
    simp [bpiece, this, peval_nil]
  | p+1, j, h => by
    unfold bpiece
    simp only [peval_padd, peval_pmulLin]
    rw [bpiece_eval_zero τ a s p j (by omega), bpiece_eval_zero τ a s p (j+1) (by omega)]
    ring

theorem peval_fpiece_r (τ : Nat → ℚ) (p naxes : Nat) (c : Nat → ℚ) (a : Nat) (s : ℚ) :
    peval (fpiece τ p naxes c a) s =
      ∑ r ∈ range (p+1), (if a + r < p then 0 else
        if a + r - p < naxes then c (a + r - p) * peval (bpiece τ a p (a + r - p)) s else 0) := by
  unfold fpiece
  rw [peval_foldl_range s _ (fun r => (if a + r < p then 0 else
        if a + r - p < naxes then c (a + r - p) * peval (bpiece τ a p (a + r - p)) s else 0))]
  · simp [peval_nil]
  · intro acc r
    dsimp only
    split_ifs <;> simp [peval_padd, peval_pscale]

theorem peval_fpiece (τ : Nat → ℚ) (p naxes : Nat) (c : Nat → ℚ) (a : Nat) (s : ℚ) :
    peval (fpiece τ p naxes c a) s = ∑ j ∈ range naxes, c j * peval (bpiece τ a p j) s := by
  rw [peval_fpiece_r]
  apply Finset.sum_bij_ne_zero (fun r _ _ => a + r - p)
  · intro r hr hne
    by_cases h1 : a + r < p
    · simp [h1] at hne
    · by_cases h2 : a + r - p < naxes
      · exact mem_range.mpr h2
      · simp [h1, h2] at hne
  · intro r1 h1 n1 r2 h2 n2 e
    have g1 : ¬ a + r1 < p := fun h => n1 (by simp [h])
    have g2 : ¬ a + r2 < p := fun h => n2 (by simp [h])
    omega
  · intro j hj hne
    have hj' := mem_range.mp hj
    have hz : ¬ (a < j ∨ j + p < a) := fun h => hne (by rw [bpiece_eval_zero τ a s p j h, mul_zero])
    have e : a + (j + p - a) - p = j := by omega
    refine ⟨j + p - a, mem_range.mpr (by omega), ?_, ?_⟩
    · have h1 : ¬ a + (j + p - a) < p := by omega
      rw [if_neg h1, e, if_pos hj']
      exact hne
    · exact e
  · intro r hr hne
    by_cases h1 : a + r < p
    · simp [h1] at hne
    · by_cases h2 : a + r - p < naxes
      · simp [h1, h2]
      · simp [h1, h2] at hne

theorem peval_bpiece_sum (τ : Nat → ℚ) (a : Nat) (s : ℚ) (p j N : Nat)
    (hd : DistinctOn τ j (p+2)) (hN : j + p + 2 ≤ N) :
    peval (bpiece τ a p j) s =
      (τ (j+p+1) - τ j) * ∑ m ∈ range N, ddW τ (p+2) j m * (if a < m then (τ m - s)^p else 0) := by
  rw [bpiece_eq_dd τ a s p j hd, dd_eq_sum τ _ (p+2) j N (by omega)]
  rfl

theorem peval_kpiece_sum (y : Nat → ℚ) (b : Nat) (t : ℚ) (q' : Nat) (hd : DistinctOn y 0 (q'+2)) :
    peval (kpiece y (q'+1) b) t =
      ((q':ℚ)+1) * ∑ r ∈ range (q'+2), ddW y (q'+2) 0 r * (if b < r then (y r - t)^q' else 0) := by
  have hne : y (q'+1) - y 0 ≠ 0 :=
    sub_ne_zero.mpr (Ne.symm (hd 0 (q'+1) (le_refl _) (by omega) (by omega)))
  unfold kpiece
  rw [peval_pscale]
  simp only [Nat.add_sub_cancel]
  rw [peval_bpiece_sum y b t q' 0 (q'+2) hd (by omega)]
  simp only [Nat.zero_add]
  push_cast
  field_simp

/-! ## 3. one tile through antiderivatives -/

theorem pintegral_eq_sum {ι : Type} (s : Finset ι) (P : Poly) (k : ι → ℚ) (G : ι → ℚ[X])
    (h : ∀ t, peval P t = ∑ i ∈ s, k i * (derivative (G i)).eval t) (lo hi : ℚ) :
    pintegral P lo hi = ∑ i ∈ s, k i * ((G i).eval hi - (G i).eval lo) := by
  rw [pintegral_eq_of_deriv P (∑ i ∈ s, C (k i) * G i)]
  · simp only [eval_finsetSum, eval_mul, eval_C]
    rw [← Finset.sum_sub_distrib]
    apply Finset.sum_congr rfl
    intro i _
    ring
  · intro t
    rw [h t, derivative_sum, eval_finsetSum]
    apply Finset.sum_congr rfl
    intro i _
    rw [derivative_C_mul, eval_C_mul]

/-- the weight of `(j, m, r)` -/
def convK (τ y c : Nat → ℚ) (p q' : Nat) (j m r : Nat) : ℚ :=
  c j * (τ (j+p+1) - τ j) * ((q':ℚ)+1) * ddW τ (p+2) j m * ddW y (q'+2) 0 r

theorem distinct_τ {τ : Nat → ℚ} {nknots p naxes : Nat} (hn : naxes + p + 1 = nknots)
    (hτ : ∀ a b, a < b → b < nknots → τ a < τ b) {j : Nat} (hj : j < naxes) : DistinctOn τ j (p+2) :=
  distinctOn_of_strictMono fun a b _ hab hb => hτ a b hab (by omega)

theorem distinct_y {y : Nat → ℚ} {q' : Nat} (hy : ∀ a b, a < b → b ≤ q' + 1 → y a < y b) :
    DistinctOn y 0 (q'+2) :=
  distinctOn_of_strictMono fun a b _ hab hb => hy a b hab (by omega)

theorem integrand_eq (τ : Nat → ℚ) (nknots p naxes : Nat) (c y : Nat → ℚ) (q' : Nat) (x : ℚ)
    (hn : naxes + p + 1 = nknots)
    (hτ : ∀ a b, a < b → b < nknots → τ a < τ b)
    (hy : ∀ a b, a < b → b ≤ q' + 1 → y a < y b) (a b : Nat) (t : ℚ) :
    peval (pmul (pcompLin (fpiece τ p naxes c a) x (-1)) (kpiece y (q'+1) b)) t =
      ∑ j ∈ range naxes, ∑ m ∈ range nknots, ∑ r ∈ range (q'+2),
        (if a < m ∧ b < r then convK τ y c p q' j m r else 0) * ((t - (x - τ m))^p * (y r - t)^q') := by
  rw [peval_pmul, peval_pcompLin, peval_fpiece, peval_kpiece_sum y b t q' (distinct_y hy), Finset.sum_mul]
  apply Finset.sum_congr rfl
  intro j hj
  rw [peval_bpiece_sum τ a _ p j nknots (distinct_τ hn hτ (mem_range.mp hj)) (by have := mem_range.mp hj; omega)]
  have e : ∀ (S1 S2 : ℚ), c j * ((τ (j+p+1) - τ j) * S1) * (((q':ℚ)+1) * S2) =
      (c j * (τ (j+p+1) - τ j) * ((q':ℚ)+1)) * (S1 * S2) := fun _ _ => by ring
  rw [e, Finset.sum_mul_sum, Finset.mul_sum]
  apply Finset.sum_congr rfl
  intro m _
  rw [Finset.mul_sum]
  apply Finset.sum_congr rfl
  intro r _
  unfold convK
  by_cases h : a < m ∧ b < r
  · rw [if_pos h, if_pos h.1, if_pos h.2]; ring
  · rw [if_neg h]
    rcases not_and_or.mp h with h1 | h2
    · rw [if_neg h1]; ring
    · rw [if_neg h2]; ring

theorem tileTerm_eq (τ : Nat → ℚ) (nknots p naxes : Nat) (c y : Nat → ℚ) (q' : Nat) (x : ℚ)
    (hn : naxes + p + 1 = nknots)
    (hτ : ∀ a b, a < b → b < nknots → τ a < τ b)
    (hy : ∀ a b, a < b → b ≤ q' + 1 → y a < y b)
    (F : Nat → Nat → ℚ[X])
    (hF : ∀ m r t, (derivative (F m r)).eval t = (t - (x - τ m))^p * (y r - t)^q') (a b : Nat) :
    tileTerm τ p naxes c y (q'+1) x a b =
      ∑ i ∈ range naxes ×ˢ (range nknots ×ˢ range (q'+2)),
        (if a < i.2.1 ∧ b < i.2.2 then convK τ y c p q' i.1 i.2.1 i.2.2 else 0) *
          tileInt (fun t => (F i.2.1 i.2.2).eval t) (x - τ (a+1)) (x - τ a) (y b) (y (b+1)) := by
  have h' : ∀ t, peval (pmul (pcompLin (fpiece τ p naxes c a) x (-1)) (kpiece y (q'+1) b)) t =
      ∑ i ∈ range naxes ×ˢ (range nknots ×ˢ range (q'+2)),
        (if a < i.2.1 ∧ b < i.2.2 then convK τ y c p q' i.1 i.2.1 i.2.2 else 0) *
          (derivative (F i.2.1 i.2.2)).eval t := by
    intro t
    rw [integrand_eq τ nknots p naxes c y q' x hn hτ hy a b t]
    simp only [Finset.sum_product, hF]
  unfold tileTerm
  simp only [tileInt_eq]
  split_ifs with h
  · rw [pintegral_eq_sum _ _ _ _ h']
  · simp

/-! ## 4. exchanging the sums -/

theorem sum_range_ite_lt (f : Nat → ℚ) {m A : Nat} (h : m ≤ A) :
    ∑ a ∈ range A, (if a < m then f a else 0) = ∑ a ∈ range m, f a := by
  rw [← Finset.sum_filter]
  apply Finset.sum_congr _ (fun _ _ => rfl)
  ext a
  simp only [mem_filter, mem_range]
  omega

theorem sum_tiles (K : ℚ) (T : Nat → Nat → ℚ) {m A r B : Nat} (hm : m ≤ A) (hr : r ≤ B) :
    ∑ a ∈ range A, ∑ b ∈ range B, (if a < m ∧ b < r then K else 0) * T a b =
      K * ∑ a ∈ range m, ∑ b ∈ range r, T a b := by
  rw [(sum_range_ite_lt (fun a => ∑ b ∈ range r, T a b) hm).symm, Finset.mul_sum]
  apply Finset.sum_congr rfl
  intro a _
  by_cases h : a < m
  · rw [if_pos h, (sum_range_ite_lt (fun b => T a b) hr).symm, Finset.mul_sum]
    apply Finset.sum_congr rfl
    intro b _
    by_cases h2 : b < r <;> simp [h, h2]
  · simp [h]

theorem sum_comm3 {ι : Type} (A B : Finset Nat) (s : Finset ι) (g : Nat → Nat → ι → ℚ) :
    ∑ a ∈ A, ∑ b ∈ B, ∑ i ∈ s, g a b i = ∑ i ∈ s, ∑ a ∈ A, ∑ b ∈ B, g a b i := by
  calc ∑ a ∈ A, ∑ b ∈ B, ∑ i ∈ s, g a b i
      = ∑ a ∈ A, ∑ i ∈ s, ∑ b ∈ B, g a b i := Finset.sum_congr rfl (fun a _ => Finset.sum_comm)
    _ = ∑ i ∈ s, ∑ a ∈ A, ∑ b ∈ B, g a b i := Finset.sum_comm

/-! ## 5. the theorem -/

theorem conv1_as_dd2 (τ : Nat → ℚ) (nknots p naxes : Nat) (c : Nat → ℚ) (y : Nat → ℚ) (q' : Nat) (x : ℚ)
    (hn : naxes + p + 1 = nknots)
    (hτ : ∀ a b, a < b → b < nknots → τ a < τ b)
    (hy : ∀ a b, a < b → b ≤ q' + 1 → y a < y b)
    (F : Nat → Nat → ℚ[X])
    (hF : ∀ m r t, (derivative (F m r)).eval t = (t - (x - τ m))^p * (y r - t)^q') :
    ConvSpec.conv1 τ nknots p naxes c y (q'+1) x =
      ∑ j ∈ range naxes, c j * ((τ (j+p+1) - τ j) * ((q':ℚ) + 1) *
        dd2 τ y (fun m r => tileSum (fun t => (F m r).eval t) (fun a => x - τ a) y m r) (p+2) j (q'+2) 0) := by
  rw [conv1_eq_sum τ nknots p naxes c y (q'+1) x hy]
  simp only [tileTerm_eq τ nknots p naxes c y q' x hn hτ hy F hF]
  rw [sum_comm3]
  have step : ∀ i ∈ range naxes ×ˢ (range nknots ×ˢ range (q'+2)),
      (∑ a ∈ range (nknots - 1), ∑ b ∈ range (q'+1),
        (if a < i.2.1 ∧ b < i.2.2 then convK τ y c p q' i.1 i.2.1 i.2.2 else 0) *
          tileInt (fun t => (F i.2.1 i.2.2).eval t) (x - τ (a+1)) (x - τ a) (y b) (y (b+1))) =
      convK τ y c p q' i.1 i.2.1 i.2.2 *
        tileSum (fun t => (F i.2.1 i.2.2).eval t) (fun a => x - τ a) y i.2.1 i.2.2 := by
    intro i hi
    simp only [mem_product, mem_range] at hi
    exact sum_tiles _ (fun a b => tileInt (fun t => (F i.2.1 i.2.2).eval t) (x - τ (a+1)) (x - τ a) (y b) (y (b+1)))
      (by omega) (by omega)
  rw [Finset.sum_congr rfl step, Finset.sum_product]
  apply Finset.sum_congr rfl
  intro j hj
  have hj' := mem_range.mp hj
  rw [Finset.sum_product]
  unfold dd2
  rw [dd_eq_sum τ _ (p+2) j nknots (by omega)]
  simp only [dd_eq_sum y _ (q'+2) 0 (q'+2) (by omega), Finset.mul_sum]
  apply Finset.sum_congr rfl
  intro m _
  apply Finset.sum_congr rfl
  intro r _
  unfold convK
  ring

end PsV
