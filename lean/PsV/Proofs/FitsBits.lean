import PsV.Proofs.FitsLayout
import PsV.Proofs.FitsRead
/-!
# Coefficients are copied bit for bit, in both directions (C06, NaN clause)

Writing: `Layout.layout_coef_bytes` (the four bytes at offset `4·j` of the primary data are the big-endian bit
pattern of `coef[j]`, whatever the pattern).  Reading, for *any* byte string the decoder accepts: the words of the
primary `BITPIX = -32` image, re-encoded big-endian, are exactly the bytes of the file after the header
(`decodeFits_f32_bits`), and `read_fits_core` hands them to the table without touching them
(`read_coef_verbatim`).  No statement here mentions the value a bit pattern stands for: NaNs (quiet, signalling,
either sign, any payload), infinities, denormals and -0 are words like any other.
-/
namespace PsV.Fits.Codec
open PsV.Fits

theorem be32_rd32_bytes (a b c d : UInt8) : be32 (rd32 a b c d) = [a, b, c, d] := by
  have ha := a.toNat_lt; have hb := b.toNat_lt; have hc := c.toNat_lt; have hd := d.toNat_lt
  have hn : (rd32 a b c d).toNat = a.toNat * 16777216 + b.toNat * 65536 + c.toNat * 256 + d.toNat := by
    simp only [rd32, UInt32.toNat_ofNat']; omega
  simp only [be32, hn]
  refine List.cons_eq_cons.mpr ⟨?_, List.cons_eq_cons.mpr ⟨?_, List.cons_eq_cons.mpr ⟨?_, List.cons_eq_cons.mpr ⟨?_, rfl⟩⟩⟩⟩
    <;> apply UInt8.toNat_inj.mp <;> simp only [UInt8.toNat_ofNat'] <;> omega

/-- what `dec32` returns is what the bytes say: re-encoding the words gives the bytes back -/
theorem dec32_bytes : ∀ (n : Nat) (r : Bytes) (d : List UInt32), dec32 n r = some d →
    d.length = n ∧ enc32 d = r.take (4 * n)
  | 0, r, d, h => by
    simp only [dec32, Option.some.injEq] at h; subst h; simp [enc32]
  | n+1, b0 :: b1 :: b2 :: b3 :: r, d, h => by
    simp only [dec32, Option.map_eq_some_iff] at h
    obtain ⟨d', hd', rfl⟩ := h
    obtain ⟨h1, h2⟩ := dec32_bytes n r d' hd'
    refine ⟨by simp [h1], ?_⟩
    rw [enc32, be32_rd32_bytes, h2, show 4 * (n+1) = 4 * n + 4 by omega]
    simp [List.take_succ_cons]
  | n+1, [], d, h => by simp [dec32] at h
  | n+1, [_], d, h => by simp [dec32] at h
  | n+1, [_, _], d, h => by simp [dec32] at h
  | n+1, [_, _, _], d, h => by simp [dec32] at h

/-- what `splitHeader` leaves is the input from a block boundary on -/
theorem splitHeader_suffix : ∀ (fuel n : Nat) (b : Bytes) (cs : List Str) (r : Bytes),
    splitHeader fuel n b = some (cs, r) → ∃ k, r = b.drop k ∧ (n * 80 + k) % 2880 = 0 ∧ k ≤ b.length
  | 0, _, _, _, _, h => by simp [splitHeader] at h
  | fuel+1, n, b, cs, r, h => by
    unfold splitHeader at h
    by_cases hl : b.length < 80
    · simp [hl] at h
    · simp only [hl, if_false] at h
      by_cases he : (b.take 80).map chr = endCard
      · simp only [he, if_true] at h
        by_cases hp : (b.drop 80).length < blockPad ((n + 1) * 80)
        · rw [if_pos hp] at h; cases h
        · simp only [hp, if_false, Option.some.injEq, Prod.mk.injEq] at h
          obtain ⟨_, rfl⟩ := h
          refine ⟨80 + blockPad ((n + 1) * 80), by rw [List.drop_drop], ?_, ?_⟩
          · unfold blockPad; omega
          · rw [List.length_drop] at hp; omega
      · simp only [he, if_false, Option.map_eq_some_iff, Prod.mk.injEq, Prod.exists] at h
        obtain ⟨cs', r', h', _, rfl⟩ := h
        obtain ⟨k, hk1, hk2, hk3⟩ := splitHeader_suffix fuel (n+1) (b.drop 80) cs' r' h'
        refine ⟨80 + k, by rw [hk1, List.drop_drop], by omega, ?_⟩
        rw [List.length_drop] at hk3; omega

/-- one HDU with a `BITPIX = -32` image: its words are the big-endian reading of the bytes that follow the header -/
theorem decodeHdu_f32_bits (p : Bool) (b r : Bytes) (h : Hdu) (d : List UInt32)
    (hd : decodeHdu p b = some (h, r)) (hp : h.pix = .f32 d) :
    ∃ off, off % 2880 = 0 ∧ d.length = npix h.axes ∧ enc32 d = (b.drop off).take (4 * d.length) := by
  unfold decodeHdu at hd
  split at hd
  · cases hd
  · rename_i raw rest hs
    split at hd
    · cases hd
    · split at hd
      · cases hd
      · rename_i bp axes cards _
        obtain ⟨k, hk1, hk2, _⟩ := splitHeader_suffix _ 0 b raw rest hs
        simp only at hd
        by_cases h32 : bp = -32
        · simp only [h32, if_true] at hd
          split at hd
          · cases hd
          · rename_i d' hd'
            split at hd
            · cases hd
            · simp only [Option.some.injEq, Prod.mk.injEq] at hd
              obtain ⟨rfl, _⟩ := hd
              simp only [Pix.f32.injEq] at hp
              subst hp
              obtain ⟨h1, h2⟩ := dec32_bytes _ _ _ hd'
              exact ⟨k, by omega, h1, by rw [h2, h1, hk1]⟩
        · simp only [h32, if_false] at hd
          split at hd
          · split at hd
            · cases hd
            · split at hd
              · cases hd
              · simp only [Option.some.injEq, Prod.mk.injEq] at hd
                obtain ⟨rfl, _⟩ := hd
                cases hp
          · cases hd

/-- **Reading is bit-exact**: whatever file the decoder accepts, the coefficient words of its primary image are the
    bytes of the file, big-endian, starting at a block boundary. -/
theorem decodeFits_f32_bits (b : Bytes) (h0 : Hdu) (rest : List Hdu) (d : List UInt32)
    (hd : decodeFits b = some (h0 :: rest)) (hp : h0.pix = .f32 d) :
    ∃ off, off % 2880 = 0 ∧ d.length = npix h0.axes ∧ enc32 d = (b.drop off).take (4 * d.length) := by
  unfold decodeFits decodeAux at hd
  split at hd
  · cases hd
  · split at hd
    · cases hd
    · rename_i h r hh
      simp only [Option.map_eq_some_iff, List.cons.injEq] at hd
      obtain ⟨_, _, rfl, _⟩ := hd
      exact decodeHdu_f32_bits true b r h d hh hp

end PsV.Fits.Codec

namespace PsV.Fits

/-- binary32 NaN: exponent field all ones, fraction not zero (quiet or signalling, either sign, any payload) -/
def isNaN32 (w : UInt32) : Bool := w.toNat / 8388608 % 256 == 255 && w.toNat % 8388608 != 0

theorem ncoeffs_eq (axes : List Nat) (h : axes ≠ []) :
    ((partialProds 1 axes).reverse).headD 0 * (axes.reverse).headD 0 = prod axes := by
  rw [strides_of_axes, rowMajor_head _ (by simpa using h), prod_reverse]

/-- **`read_fits_core` hands the coefficient words over untouched**: for any store with a `BITPIX = -32` primary
    image, the table's coefficients are the first `Π axes` words of the image — no conversion, so every bit pattern
    (NaN payloads included) arrives as it is.  Only a `BITPIX = -64` primary goes through `E.d2f`. -/
theorem read_coef_verbatim (E : Ext) (h0 : Hdu) (rest : List Hdu) (t : Table)
    (h : readFixed E (h0 :: rest) = .ok t ∨ readCore E (h0 :: rest) = .ok t) :
    prod h0.axes ≤ h0.pix.length ∧
    match h0.pix with
    | .f32 d => t.coef = d.take (prod h0.axes)
    | .f64 d => t.coef = (d.take (prod h0.axes)).map E.d2f := by
  have hc : readCore E (h0 :: rest) = .ok t := h.elim (fun h => ((readFixed_ok_iff E _ t).mp h).1) id
  rw [readCore_cons] at hc
  split at hc
  · cases hc
  · rename_i hnd
    have hne : h0.axes ≠ [] := by intro e; rw [e] at hnd; simp at hnd
    rw [ncoeffs_eq _ hne] at hc
    split at hc
    · cases hc
    · split at hc
      · cases hc
      · rename_i coef hpx
        split at hc
        · cases hc
        · split at hc
          · cases hc
          · have := Except.ok.inj hc
            subst this
            unfold readPixF at hpx
            split at hpx
            · cases hpx
            · rename_i hlen
              refine ⟨by omega, ?_⟩
              split at hpx <;> simp only [Option.some.injEq] at hpx <;> simp_all

end PsV.Fits
