import PsV.Proofs.ConvNd1
/-!
# The rows of `rowsFor` / `evalTable` of a row-major table as blocks

`rowsFor_flat` / `fullRows_flat`: for a table whose strides are row-major, the rows that the specification builds are
`blockRows (n_dim·s2) pre ++ (s2, none | some vs_dim) :: blockRows 1 post`, where `pre`/`post` are the basis value
lists of the dimensions before/after `dim`.
-/
namespace PsV
open Finset ConvSpec

/-- basis values of one dimension at its coordinate -/
def vsOf (p : CDim Rat × Rat) : List Rat := (List.range p.1.naxes).map (Bsel (toDim p.1) p.2 0)
/-- the `some` row of one dimension -/
def rowS (p : CDim Rat × Rat) : Nat × Option (List Rat) := (p.1.stride, some (vsOf p))
/-- basis value lists of all dimensions -/
def vssAll (ds : List (CDim Rat)) (xs : List Rat) : List (List Rat) := (ds.zip xs).map vsOf

theorem vsOf_length (p : CDim Rat × Rat) : (vsOf p).length = p.1.naxes := by simp [vsOf]

theorem vsOf_getD (p : CDim Rat × Rat) (l : Nat) (h : l < p.1.naxes) :
    (vsOf p).getD l 0 = Bsel (toDim p.1) p.2 0 l := by
  unfold vsOf
  rw [List.getD_eq_getElem?_getD, List.getElem?_map, List.getElem?_range h]
  rfl

theorem evalTable_eq (R : CTable Rat) (xs : List Rat) :
    evalTable R xs = contract (fun p => R.coef.getD p 0) ((R.dims.zip xs).map rowS) 0 0 := by
  unfold evalTable
  have : (fun (p : CDim Rat × Rat) => match p with
      | (d, x) => (d.stride, some ((List.range d.naxes).map (Bsel (toDim d) x 0)))) = rowS := by
    funext ⟨d, x⟩; rfl
  rw [this]

theorem map_zipIdx_const {β γ : Type} (F : β × Nat → γ) (G : β → γ) : ∀ (l : List β) (k : Nat),
    (∀ b i, k ≤ i → i < k + l.length → F (b, i) = G b) → (l.zipIdx k).map F = l.map G
  | [], _, _ => rfl
  | b :: l, k, h => by
    rw [List.zipIdx_cons, List.map_cons, List.map_cons, h b k (Nat.le_refl _) (by simp),
      map_zipIdx_const F G l (k+1) (fun b i h1 h2 => h b i (by omega) (by simp only [List.length_cons]; omega))]

theorem rowsFor_split (pre post : List (CDim Rat)) (d : CDim Rat) (xpre xpost : List Rat) (x : Rat)
    (hlen : pre.length = xpre.length) :
    rowsFor (pre ++ d :: post) pre.length (xpre ++ x :: xpost) =
      (pre.zip xpre).map rowS ++ (d.stride, none) :: (post.zip xpost).map rowS := by
  have hz : (pre.zip xpre).length = pre.length := by rw [List.length_zip]; omega
  unfold rowsFor
  rw [List.zip_append hlen, List.zip_cons_cons, List.zipIdx_append, List.zipIdx_cons, List.map_append, List.map_cons,
    hz, Nat.zero_add]
  congr 1
  · apply map_zipIdx_const
    rintro ⟨e, y⟩ i _ h2
    have : i ≠ pre.length := by omega
    show (if i = pre.length then _ else _) = _
    rw [if_neg this]; rfl
  · congr 1
    · show (if pre.length = pre.length then _ else _) = _
      rw [if_pos rfl]
    · apply map_zipIdx_const
      rintro ⟨e, y⟩ i h1 _
      have : i ≠ pre.length := by omega
      show (if i = pre.length then _ else _) = _
      rw [if_neg this]; rfl

theorem fullRows_split (pre post : List (CDim Rat)) (d : CDim Rat) (xpre xpost : List Rat) (x : Rat)
    (hlen : pre.length = xpre.length) :
    ((pre ++ d :: post).zip (xpre ++ x :: xpost)).map rowS =
      (pre.zip xpre).map rowS ++ rowS (d, x) :: (post.zip xpost).map rowS := by
  rw [List.zip_append hlen, List.zip_cons_cons, List.map_append, List.map_cons]

theorem vssAll_split (pre post : List (CDim Rat)) (d : CDim Rat) (xpre xpost : List Rat) (x : Rat)
    (hlen : pre.length = xpre.length) :
    vssAll (pre ++ d :: post) (xpre ++ x :: xpost) =
      (pre.zip xpre).map vsOf ++ vsOf (d, x) :: (post.zip xpost).map vsOf := by
  unfold vssAll
  rw [List.zip_append hlen, List.zip_cons_cons, List.map_append, List.map_cons]

/-- row-major strides, times `M`, recursively -/
def RowMajorFrom (M : Nat) : List (CDim Rat) → Prop
  | [] => True
  | e :: es => e.stride = (es.map (·.naxes)).prod * M ∧ RowMajorFrom M es

theorem rowMajorFrom_of_index : ∀ (ds : List (CDim Rat)),
    (∀ j e, ds[j]? = some e → e.stride = ((ds.map (·.naxes)).drop (j+1)).prod) → RowMajorFrom 1 ds
  | [], _ => trivial
  | e :: es, h => by
    refine ⟨?_, rowMajorFrom_of_index es (fun j e' he' => ?_)⟩
    · have := h 0 e (by simp)
      simpa using this
    · have := h (j+1) e' (by simpa using he')
      simpa using this

theorem rowMajorFrom_append (M : Nat) : ∀ (pre post : List (CDim Rat)), RowMajorFrom M (pre ++ post) →
    RowMajorFrom ((post.map (·.naxes)).prod * M) pre ∧ RowMajorFrom M post
  | [], post, h => ⟨trivial, h⟩
  | e :: pre, post, h => by
    have h1 : e.stride = ((pre ++ post).map (·.naxes)).prod * M := h.1
    have h2 : RowMajorFrom M (pre ++ post) := h.2
    obtain ⟨ih1, ih2⟩ := rowMajorFrom_append M pre post h2
    refine ⟨⟨?_, ih1⟩, ih2⟩
    rw [h1, List.map_append, List.prod_append, Nat.mul_assoc]

theorem rows_block (M : Nat) : ∀ (es : List (CDim Rat)) (xs : List Rat), es.length = xs.length → RowMajorFrom M es →
    (es.zip xs).map rowS = blockRows M ((es.zip xs).map vsOf) ∧
      ((es.zip xs).map vsOf).map List.length = es.map (·.naxes)
  | [], _, _, _ => by simp [blockRows]
  | e :: es, [], h, _ => by simp at h
  | e :: es, x :: xs, h, hr => by
    obtain ⟨h1, h2⟩ := hr
    obtain ⟨ih1, ih2⟩ := rows_block M es xs (by simpa using h) h2
    constructor
    · rw [List.zip_cons_cons, List.map_cons, List.map_cons, blockRows, ← ih1, ih2]
      show (e.stride, some (vsOf (e, x))) :: _ = _
      rw [h1]
    · rw [List.zip_cons_cons, List.map_cons, List.map_cons, List.map_cons, ih2, vsOf_length]

/-- a list split at an index -/
theorem split_at_index {β : Type} (l : List β) (i : Nat) (v : β) (h : l[i]? = some v) :
    ∃ pre post, l = pre ++ v :: post ∧ pre.length = i ∧ pre = l.take i ∧ post = l.drop (i+1) := by
  obtain ⟨hi, hv⟩ := List.getElem?_eq_some_iff.mp h
  refine ⟨l.take i, l.drop (i+1), ?_, ?_, rfl, rfl⟩
  · rw [← hv, ← List.drop_eq_getElem_cons hi, List.take_append_drop]
  · rw [List.length_take]; omega

/-- the rows of the specification for a row-major table, as blocks; `b = false`: `rowsFor` (row `dim` is `none`),
stated for both at once through the abstract middle row -/
theorem rows_flat (ds : List (CDim Rat)) (dim : Nat) (xs : List Rat) (d : CDim Rat)
    (hd : ds[dim]? = some d)
    (hstr : ∀ j e, ds[j]? = some e → e.stride = ((ds.map (·.naxes)).drop (j+1)).prod)
    (hxs : xs.length = ds.length) :
    rowsFor ds dim xs =
      blockRows (d.naxes * (((vssAll ds xs).drop (dim+1)).map List.length).prod) ((vssAll ds xs).take dim) ++
        ((((vssAll ds xs).drop (dim+1)).map List.length).prod, none) :: blockRows 1 ((vssAll ds xs).drop (dim+1)) ∧
    (ds.zip xs).map rowS =
      blockRows (d.naxes * (((vssAll ds xs).drop (dim+1)).map List.length).prod) ((vssAll ds xs).take dim) ++
        ((((vssAll ds xs).drop (dim+1)).map List.length).prod, some (vsOf (d, xs.getD dim 0))) ::
          blockRows 1 ((vssAll ds xs).drop (dim+1)) ∧
    (((vssAll ds xs).take dim).map List.length).prod = prodL ((ds.map (·.naxes)).take dim) ∧
    (((vssAll ds xs).drop (dim+1)).map List.length).prod = prodL ((ds.map (·.naxes)).drop (dim+1)) := by
  have hdim : dim < ds.length := (List.getElem?_eq_some_iff.mp hd).1
  have hx : xs[dim]? = some (xs.getD dim 0) := by
    rw [List.getD_eq_getElem?_getD, List.getElem?_eq_getElem (by omega)]; rfl
  have hrm := rowMajorFrom_of_index ds hstr
  obtain ⟨pre, post, rfl, hpl, -, -⟩ := split_at_index ds dim d hd
  obtain ⟨xpre, xpost, hxeq, hxl, -, -⟩ := split_at_index xs dim _ hx
  generalize xs.getD dim 0 = x at hxeq ⊢
  subst hxeq
  have hlen : pre.length = xpre.length := by omega
  have hlen2 : post.length = xpost.length := by
    simp only [List.length_append, List.length_cons] at hxs; omega
  obtain ⟨hr1, hr2⟩ := rowMajorFrom_append 1 pre (d :: post) hrm
  obtain ⟨hs, hr3⟩ := hr2
  obtain ⟨hb1, hl1⟩ := rows_block _ pre xpre hlen hr1
  obtain ⟨hb3, hl3⟩ := rows_block 1 post xpost hlen2 hr3
  have hzl : ((pre.zip xpre).map vsOf).length = dim := by
    rw [List.length_map, List.length_zip]; omega
  have htake : (vssAll (pre ++ d :: post) (xpre ++ x :: xpost)).take dim = (pre.zip xpre).map vsOf := by
    rw [vssAll_split _ _ _ _ _ _ hlen]
    exact List.take_left' hzl
  have hdrop : (vssAll (pre ++ d :: post) (xpre ++ x :: xpost)).drop (dim+1) = (post.zip xpost).map vsOf := by
    rw [vssAll_split _ _ _ _ _ _ hlen, List.append_cons]
    exact List.drop_left' (by rw [List.length_append, hzl]; rfl)
  have htk : (List.map (·.naxes) (pre ++ d :: post)).take dim = pre.map (·.naxes) := by
    rw [List.map_append]
    exact List.take_left' (by rw [List.length_map]; exact hpl)
  have hdr : (List.map (·.naxes) (pre ++ d :: post)).drop (dim+1) = post.map (·.naxes) := by
    rw [List.map_append, List.map_cons, List.append_cons]
    exact List.drop_left' (by rw [List.length_append, List.length_map, hpl]; rfl)
  rw [htake, hdrop, hl3, prodL_eq, prodL_eq, htk, hdr, hl1]
  have hM : (List.map (·.naxes) (d :: post)).prod * 1 = d.naxes * (post.map (·.naxes)).prod := by
    rw [List.map_cons, List.prod_cons, Nat.mul_one]
  rw [hM] at hb1
  rw [Nat.mul_one] at hs
  refine ⟨?_, ?_, rfl, rfl⟩
  · rw [← hpl, rowsFor_split _ _ _ _ _ _ hlen, hb1, hb3, hs]
  · rw [fullRows_split _ _ _ _ _ _ hlen, hb1, hb3]
    show _ ++ (d.stride, some (vsOf (d, x))) :: _ = _
    rw [hs]

end PsV
