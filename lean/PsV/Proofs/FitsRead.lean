import PsV.Proofs.Fits
import PsV.Model.FitsRead
/-!
# Helper lemmas for C07 (and for the C06 statements about the repaired reader)

`readFixed` (read_fits_core with the validation block of fixes/C07-1.diff) accepts exactly the files `readCore`
accepts whose table passes the per-dimension checks, and returns the same table; every table it returns is
well-formed; the storage guard (`release_storage`, commit 907b348) releases every block at every throw site.
-/
namespace PsV.Fits

/-! ## small facts about the API model -/

theorem map_eq_ok {ε α β} (f : α → β) (x : Except ε α) (b : β) :
    x.map f = .ok b ↔ ∃ a, x = .ok a ∧ b = f a := by
  cases x with
  | error e => simp [Except.map]
  | ok a => simp [Except.map]; constructor <;> (intro h; exact h.symm)

theorem readPixD_length (E : Ext) (h : Hdu) (n : Nat) (k : List UInt64) (hk : readPixD E h n = some k) :
    k.length = n := by
  unfold readPixD at hk
  split at hk
  · cases hk
  · rename_i hlen
    have hlen' : n ≤ h.pix.length := Nat.le_of_not_lt hlen
    cases hp : h.pix with
    | f32 d =>
      rw [hp] at hk hlen'; simp only [Option.some.injEq] at hk; subst hk
      simp only [Pix.length] at hlen'
      simp [List.length_take, Nat.min_eq_left hlen']
    | f64 d =>
      rw [hp] at hk hlen'; simp only [Option.some.injEq] at hk; subst hk
      simp only [Pix.length] at hlen'
      simp [List.length_take, Nat.min_eq_left hlen']

theorem readPixF_length (E : Ext) (h : Hdu) (n : Nat) (k : List UInt32) (hk : readPixF E h n = some k) :
    k.length = n := by
  unfold readPixF at hk
  split at hk
  · cases hk
  · rename_i hlen
    have hlen' : n ≤ h.pix.length := Nat.le_of_not_lt hlen
    cases hp : h.pix with
    | f32 d =>
      rw [hp] at hk hlen'; simp only [Option.some.injEq] at hk; subst hk
      simp only [Pix.length] at hlen'
      simp [List.length_take, Nat.min_eq_left hlen']
    | f64 d =>
      rw [hp] at hk hlen'; simp only [Option.some.injEq] at hk; subst hk
      simp only [Pix.length] at hlen'
      simp [List.length_take, Nat.min_eq_left hlen']

theorem readOrders_length (cs : List Card) : ∀ n i o, readOrders cs i n = .ok o → o.length = n
  | 0, i, o, h => by simp [readOrders] at h; subst h; rfl
  | n+1, i, o, h => by
    unfold readOrders at h
    split at h
    · cases h
    · rw [map_eq_ok] at h
      obtain ⟨a, ha, rfl⟩ := h
      simp [readOrders_length cs n (i+1) a ha]

theorem ordersOf_length (cs : List Card) (n : Nat) (o : List Nat) (h : ordersOf cs n = .ok o) : o.length = n := by
  unfold ordersOf at h
  split at h
  · have := Except.ok.inj h; subst this; simp
  · exact readOrders_length cs n 0 o h

theorem readKnots_length (E : Ext) (f : Fits) : ∀ n i ks, readKnots E f i n = .ok ks → ks.length = n
  | 0, i, ks, h => by simp [readKnots] at h; subst h; rfl
  | n+1, i, ks, h => by
    unfold readKnots at h
    split at h
    · cases h
    · simp only at h
      split at h
      · cases h
      · split at h
        · cases h
        · rw [map_eq_ok] at h
          obtain ⟨a, ha, rfl⟩ := h
          simp [readKnots_length E f n (i+1) a ha]

theorem defaultExtents_length (order : List Nat) (knots : List (List UInt64)) :
    (defaultExtents order knots).length = 2 * order.length := by
  unfold defaultExtents
  generalize order.length = n
  induction n with
  | zero => simp
  | succ n ih => rw [List.range_succ, List.flatMap_append, List.length_append, ih]; simp; omega

theorem extentsOf_length (E : Ext) (f : Fits) (ndim : Nat) (order : List Nat) (knots : List (List UInt64))
    (e : List UInt64) (ho : order.length = ndim) (h : extentsOf E f ndim order knots = .ok e) :
    e.length = 2 * ndim := by
  unfold extentsOf at h
  split at h
  · have := Except.ok.inj h; subst this; rw [defaultExtents_length, ho]
  · simp only at h
    split at h
    · have := Except.ok.inj h; subst this; rw [defaultExtents_length, ho]
    · rename_i hn
      split at h
      · cases h
      · rename_i e' he'
        have := Except.ok.inj h; subst this
        have := readPixD_length E _ _ _ he'
        omega

/-! ## the validated knot loop versus the original one -/

theorem readKnotsV_ok_iff (E : Ext) (f : Fits) (order naxes : List Nat) :
    ∀ n i ks, readKnotsV E f order naxes i n = .ok ks ↔
      (readKnots E f i n = .ok ks ∧
       ∀ j, j < n → DimWF (order.getD (i+j) 0) (naxes.getD (i+j) 0) (ks.getD j []))
  | 0, i, ks => by
    simp only [readKnotsV, readKnots]
    constructor
    · intro h; exact ⟨h, fun j hj => absurd hj (Nat.not_lt_zero j)⟩
    · intro h; exact h.1
  | n+1, i, ks => by
    unfold readKnotsV readKnots
    cases hm : movnamHdu f (keyN "KNOTS" i) with
    | none =>
      simp only
      constructor
      · intro h; cases h
      · intro h; cases h.1
    | some h =>
      simp only
      generalize h.axes.headD 0 = nk
      generalize ho : order.getD i 0 = o
      generalize hna : naxes.getD i 0 = na
      by_cases hnk : nk = 0
      · rw [if_pos hnk, if_pos hnk]
        constructor
        · intro h; cases h
        · intro h; cases h.1
      · rw [if_neg hnk, if_neg hnk]
        by_cases hc : nk < 2 * o + 2 ∨ na ≠ nk - o - 1
        · rw [if_pos hc]
          constructor
          · intro h'; cases h'
          · rintro ⟨h1, h2⟩
            exfalso
            cases hp : readPixD E h nk with
            | none => rw [hp] at h1; cases h1
            | some k =>
              rw [hp] at h1
              simp only at h1
              rw [map_eq_ok] at h1
              obtain ⟨a, _, rfl⟩ := h1
              have hlen := readPixD_length E h _ k hp
              have := h2 0 (Nat.succ_pos n)
              simp only [Nat.add_zero, List.getD_cons_zero, DimWF, ho, hna] at this
              rw [hlen] at this
              omega
        · rw [if_neg hc]
          cases hp : readPixD E h nk with
          | none =>
            simp only
            constructor
            · intro h'; cases h'
            · intro h'; cases h'.1
          | some k =>
            have hlen := readPixD_length E h _ k hp
            simp only
            by_cases hv : knotsValid k = true
            · rw [if_pos hv, map_eq_ok, map_eq_ok]
              constructor
              · rintro ⟨a, ha, rfl⟩
                have ih := (readKnotsV_ok_iff E f order naxes n (i+1) a).mp ha
                refine ⟨⟨a, ih.1, rfl⟩, ?_⟩
                intro j hj
                cases j with
                | zero =>
                  simp only [Nat.add_zero, List.getD_cons_zero, DimWF, ho, hna]
                  rw [hlen]
                  exact ⟨by omega, by omega, hv⟩
                | succ j =>
                  have := ih.2 j (by omega)
                  simp only [List.getD_cons_succ]
                  rw [show i + (j + 1) = i + 1 + j by omega]
                  exact this
              · rintro ⟨⟨a, ha, rfl⟩, h2⟩
                refine ⟨a, (readKnotsV_ok_iff E f order naxes n (i+1) a).mpr ⟨ha, ?_⟩, rfl⟩
                intro j hj
                have := h2 (j+1) (by omega)
                simp only [List.getD_cons_succ] at this
                rw [show i + (j + 1) = i + 1 + j by omega] at this
                exact this
            · rw [if_neg hv]
              constructor
              · intro h'; cases h'
              · rintro ⟨h1, h2⟩
                exfalso
                rw [map_eq_ok] at h1
                obtain ⟨a, _, rfl⟩ := h1
                have := h2 0 (Nat.succ_pos n)
                simp only [Nat.add_zero, List.getD_cons_zero, DimWF] at this
                exact hv this.2.2

/-- `readFixed` on a non-empty file, with the inner steps named (cf. `readCore_cons`) -/
theorem readFixed_cons (E : Ext) (h0 : Hdu) (rest : List Hdu) :
    readFixed E (h0 :: rest) =
      if h0.axes.length < 1 then .error .badDim else
      match ordersOf (hdrCards true h0) h0.axes.length with
      | .error e => .error e
      | .ok order =>
        match readPixF E h0 (((partialProds 1 h0.axes).reverse).headD 0 * (h0.axes.reverse).headD 0) with
        | none => .error .readPix
        | some coef =>
          match readKnotsV E (h0 :: rest) order h0.axes.reverse 0 h0.axes.length with
          | .error e => .error e
          | .ok knots =>
            match extentsOf E (h0 :: rest) h0.axes.length order knots with
            | .error e => .error e
            | .ok extents =>
              .ok ⟨order, knots, h0.axes.reverse, (partialProds 1 h0.axes).reverse, coef, some extents,
                some ((List.range h0.axes.length).map fun i =>
                  (readKeyDbl E (hdrCards true h0) (keyN "PERIOD" i)).getD 0),
                readAux (hdrCards true h0)⟩ := rfl

/-- per-dimension validity of a table, as checked by the validation block -/
def DimsWF (t : Table) : Prop :=
  ∀ i, i < t.ndim → DimWF (t.order.getD i 0) (t.naxes.getD i 0) (t.knots.getD i [])

/-- The repaired reader returns `t` exactly when the original reader returns `t` and `t` passes the checks. -/
theorem readFixed_ok_iff (E : Ext) (f : Fits) (t : Table) :
    readFixed E f = .ok t ↔ (readCore E f = .ok t ∧ DimsWF t) := by
  cases f with
  | nil => simp [readFixed, readCore]
  | cons h0 rest =>
    rw [readFixed_cons, readCore_cons]
    by_cases hd : h0.axes.length < 1
    · simp [hd]
    · simp only [hd, if_false]
      cases hord : ordersOf (hdrCards true h0) h0.axes.length with
      | error e => simp
      | ok order =>
        have hol := ordersOf_length _ _ _ hord
        simp only
        cases hpix : readPixF E h0 (((partialProds 1 h0.axes).reverse).headD 0 * (h0.axes.reverse).headD 0) with
        | none => simp
        | some coef =>
          simp only
          cases hkv : readKnotsV E (h0 :: rest) order h0.axes.reverse 0 h0.axes.length with
          | error e =>
            simp only
            constructor
            · intro h; cases h
            · rintro ⟨h1, h2⟩
              exfalso
              cases hk : readKnots E (h0 :: rest) 0 h0.axes.length with
              | error e' => rw [hk] at h1; cases h1
              | ok knots =>
                rw [hk] at h1
                simp only at h1
                cases hex : extentsOf E (h0 :: rest) h0.axes.length order knots with
                | error e' => rw [hex] at h1; cases h1
                | ok ext =>
                  rw [hex] at h1
                  have := Except.ok.inj h1; subst this
                  have : readKnotsV E (h0 :: rest) order h0.axes.reverse 0 h0.axes.length = .ok knots := by
                    rw [readKnotsV_ok_iff]
                    refine ⟨hk, fun j hj => ?_⟩
                    have := h2 j (by simp only [Table.ndim]; omega)
                    simpa using this
                  rw [hkv] at this; cases this
          | ok knots =>
            have hk := (readKnotsV_ok_iff E (h0 :: rest) order h0.axes.reverse _ 0 knots).mp hkv
            rw [hk.1]
            simp only
            cases hex : extentsOf E (h0 :: rest) h0.axes.length order knots with
            | error e => simp
            | ok ext =>
              simp only
              constructor
              · intro h
                have := Except.ok.inj h; subst this
                refine ⟨rfl, fun j hj => ?_⟩
                have := hk.2 j (by simp only [Table.ndim] at hj; omega)
                simpa using this
              · rintro ⟨h1, _⟩; exact h1

theorem readFixed_complete' (E : Ext) (f : Fits) (t : Table) (h : readCore E f = .ok t) (hw : DimsWF t) :
    readFixed E f = .ok t :=
  (readFixed_ok_iff E f t).mpr ⟨h, hw⟩

/-! ## every table the repaired reader returns is well-formed -/

theorem headD_rowMajor_mul (l : List Nat) (h : l ≠ []) : (rowMajor l).headD 0 * l.headD 0 = prod l := by
  cases l with
  | nil => exact absurd rfl h
  | cons a as => simp [rowMajor, prod, Nat.mul_comm]

theorem readFixed_wf (E : Ext) (f : Fits) (t : Table) (h : readFixed E f = .ok t) : t.WF := by
  have hcore := (readFixed_ok_iff E f t).mp h
  obtain ⟨hc, hdims⟩ := hcore
  cases f with
  | nil => simp [readCore] at hc
  | cons h0 rest =>
    rw [readCore_cons] at hc
    by_cases hd : h0.axes.length < 1
    · simp [hd] at hc
    · simp only [hd, if_false] at hc
      cases hord : ordersOf (hdrCards true h0) h0.axes.length with
      | error e => rw [hord] at hc; cases hc
      | ok order =>
        have hol := ordersOf_length _ _ _ hord
        rw [hord] at hc; simp only at hc
        cases hpix : readPixF E h0 (((partialProds 1 h0.axes).reverse).headD 0 * (h0.axes.reverse).headD 0) with
        | none => rw [hpix] at hc; cases hc
        | some coef =>
          rw [hpix] at hc; simp only at hc
          cases hk : readKnots E (h0 :: rest) 0 h0.axes.length with
          | error e => rw [hk] at hc; cases hc
          | ok knots =>
            rw [hk] at hc; simp only at hc
            cases hex : extentsOf E (h0 :: rest) h0.axes.length order knots with
            | error e => rw [hex] at hc; cases hc
            | ok ext =>
              rw [hex] at hc
              have := Except.ok.inj hc; subst this
              have hne : h0.axes.reverse ≠ [] := by
                intro h'
                have : h0.axes.length = 0 := by rw [← List.length_reverse, h']; rfl
                omega
              refine ⟨?_, ?_, ?_, ?_, ?_, hdims, ?_, ?_⟩
              · simp only [Table.ndim]; omega
              · simp only [Table.ndim]; rw [readKnots_length E _ _ _ _ hk, hol]
              · show h0.axes.reverse.length = order.length
                rw [List.length_reverse, hol]
              · exact strides_of_axes _
              · show coef.length = prod h0.axes.reverse
                rw [readPixF_length E _ _ _ hpix, strides_of_axes, headD_rowMajor_mul _ hne]
              · simp only [Option.map_some, Option.getD_some, Table.ndim]
                rw [extentsOf_length E _ _ _ _ _ hol hex, hol]
              · simp [Table.ndim, hol]

/-! ## the cleanup guard releases everything, at every throw site -/

theorem freeAll_append (a b : List Ptr) (live : List Nat) :
    freeAll (a ++ b) live = (freeAll a live).bind (freeAll b) := by
  induction a generalizing live with
  | nil => rfl
  | cons p ps ih =>
    simp only [List.cons_append, freeAll]
    cases free p live with
    | error e => rfl
    | ok l => exact ih l

theorem freeAll_nulls (m : Nat) (live : List Nat) : freeAll (List.replicate m .null) live = .ok live := by
  induction m with
  | zero => rfl
  | succ m ih => simp only [List.replicate_succ, freeAll, free]; exact ih

/-- releasing the blocks `s, s+1, …, s+k-1` from a ledger that ends with exactly those -/
theorem freeAll_blocks (base : List Nat) : ∀ k s, (∀ b ∈ base, b < s) →
    freeAll ((List.range' s k).map .block) (base ++ List.range' s k) = .ok base
  | 0, s, _ => by simp [freeAll]
  | k+1, s, hb => by
    have hs : s ∉ base := fun h => Nat.lt_irrefl s (hb s h)
    simp only [List.range'_succ, List.map_cons, freeAll, free]
    have hc : (base ++ s :: List.range' (s+1) k).contains s = true := by simp
    rw [if_pos hc]
    have he : (base ++ s :: List.range' (s+1) k).erase s = base ++ List.range' (s+1) k := by
      rw [List.erase_append_right _ hs]; simp
    show (Except.ok ((base ++ s :: List.range' (s+1) k).erase s)).bind _ = _
    rw [he]
    exact freeAll_blocks base k (s+1) (fun b h => Nat.lt_succ_of_lt (hb b h))

theorem range_map_add (k : Nat) : (List.range k).map (10 + ·) = List.range' 10 k := by
  rw [List.range'_eq_map_range]

theorem range_map_block (k : Nat) :
    (List.range k).map (fun j => Ptr.block (10 + j)) = (List.range' 10 k).map .block := by
  rw [List.range'_eq_map_range, List.map_map]; rfl


theorem cleanup_early (nd : Nat) : cleanup (stateAt true nd .early) = .ok Obj.empty := rfl

theorem cleanup_order (nd : Nat) : cleanup (stateAt true nd .order) = .ok Obj.empty := rfl

theorem take_nulls (nd : Nat) (live : List Nat) :
    freeAll ((List.replicate nd Ptr.null).take nd) live = .ok live := by
  rw [List.take_replicate]; exact freeAll_nulls _ _

theorem cleanup_imgSize (nd : Nat) : cleanup (stateAt true nd .imgSize) = .ok Obj.empty := by
  simp only [cleanup, stateAt, if_true]
  rw [if_neg (by decide), take_nulls]
  rfl

theorem cleanup_readPix (nd : Nat) : cleanup (stateAt true nd .readPix) = .ok Obj.empty := by
  simp only [cleanup, stateAt, if_true]
  rw [if_neg (by decide), take_nulls]
  rfl

/-- knot entries `0..k-1` allocated, the rest NULL: the guard releases exactly the allocated ones -/
theorem free_entries (nd k : Nat) (hk : k ≤ nd) :
    freeAll (((List.range k).map (fun j => Ptr.block (10 + j)) ++ List.replicate (nd - k) Ptr.null).take nd)
      ([0, 1, 2, 3, 4, 5, 6, 7, 8, 9] ++ (List.range k).map (10 + ·)) = .ok [0, 1, 2, 3, 4, 5, 6, 7, 8, 9] := by
  rw [List.take_of_length_le (by simp; omega), freeAll_append, range_map_block, range_map_add,
    freeAll_blocks _ k 10 (by decide)]
  exact freeAll_nulls _ _

theorem cleanup_knot (nd i : Nat) (a : Bool) (hi : i < nd) : cleanup (stateAt true nd (.knot i a)) = .ok Obj.empty := by
  simp only [cleanup, stateAt, if_true]
  rw [if_neg (by decide), free_entries nd _ (by cases a <;> simp <;> omega)]
  rfl

theorem cleanup_extData (nd : Nat) : cleanup (stateAt true nd .extData) = .ok Obj.empty := by
  simp only [cleanup, stateAt]
  have := free_entries nd nd (Nat.le_refl nd)
  rw [Nat.sub_self, List.replicate_zero, List.append_nil] at this
  simp only [reduceCtorEq, ↓reduceIte, this]
  rfl

theorem destroy_done (nd : Nat) (h : 0 < nd) : destroy (stateAt true nd .done) = .ok [] := by
  simp only [destroy, stateAt]
  have := free_entries nd nd (Nat.le_refl nd)
  rw [Nat.sub_self, List.replicate_zero, List.append_nil] at this
  have hnd : nd ≠ 0 := by omega
  simp only [reduceCtorEq, ↓reduceIte, this, hnd, or_self]
  rfl

/-! ### which throw sites the repaired reader can reach -/

theorem map_eq_error {ε α β} (f : α → β) (x : Except ε α) (e : ε) : x.map f = .error e ↔ x = .error e := by
  cases x <;> simp [Except.map]

theorem readOrders_err (cs : List Card) : ∀ n i e, readOrders cs i n = .error e → stopOf e = .order
  | 0, i, e, h => by simp [readOrders] at h
  | n+1, i, e, h => by
    unfold readOrders at h
    split at h
    · have := Except.error.inj h; subst this; rfl
    · rw [map_eq_error] at h; exact readOrders_err cs n (i+1) e h

theorem ordersOf_err (cs : List Card) (n : Nat) (e : RErr) (h : ordersOf cs n = .error e) : stopOf e = .order := by
  unfold ordersOf at h
  split at h
  · cases h
  · exact readOrders_err cs n 0 e h

theorem readKnotsV_err (E : Ext) (f : Fits) (o na : List Nat) :
    ∀ n i e, readKnotsV E f o na i n = .error e → ∃ j a, j < i + n ∧ stopOf e = .knot j a
  | 0, i, e, h => by simp [readKnotsV] at h
  | n+1, i, e, h => by
    unfold readKnotsV at h
    split at h
    · have := Except.error.inj h; subst this; exact ⟨i, false, by omega, rfl⟩
    · simp only at h
      split at h
      · have := Except.error.inj h; subst this; exact ⟨i, false, by omega, rfl⟩
      · split at h
        · have := Except.error.inj h; subst this; exact ⟨i, false, by omega, rfl⟩
        · split at h
          · have := Except.error.inj h; subst this; exact ⟨i, true, by omega, rfl⟩
          · split at h
            · rw [map_eq_error] at h
              obtain ⟨j, a, hj, hs⟩ := readKnotsV_err E f o na n (i+1) e h
              exact ⟨j, a, by omega, hs⟩
            · have := Except.error.inj h; subst this; exact ⟨i, true, by omega, rfl⟩

theorem extentsOf_err (E : Ext) (f : Fits) (n : Nat) (o : List Nat) (k : List (List UInt64)) (e : RErr)
    (h : extentsOf E f n o k = .error e) : stopOf e = .extData := by
  unfold extentsOf at h
  split at h
  · cases h
  · simp only at h
    split at h
    · cases h
    · split at h
      · have := Except.error.inj h; subst this; rfl
      · cases h

/-- at whatever throw site the repaired reader stops, the guard leaves the object empty and the ledger balanced -/
theorem cleanup_after_readFixed (E : Ext) (f : Fits) (e : RErr) (h : readFixed E f = .error e) :
    cleanup (stateAt true (f.headD default).axes.length (stopOf e)) = .ok Obj.empty := by
  cases f with
  | nil =>
    simp only [readFixed] at h
    have := Except.error.inj h; subst this
    exact cleanup_early _
  | cons h0 rest =>
    rw [readFixed_cons] at h
    simp only [List.headD_cons]
    split at h
    · have := Except.error.inj h; subst this; exact cleanup_early _
    · split at h
      · rename_i e' he'
        have := Except.error.inj h; subst this
        rw [ordersOf_err _ _ _ he']; exact cleanup_order _
      · split at h
        · have := Except.error.inj h; subst this; exact cleanup_readPix _
        · split at h
          · rename_i e' he'
            have := Except.error.inj h; subst this
            obtain ⟨j, a, hj, hs⟩ := readKnotsV_err E _ _ _ _ 0 _ he'
            rw [hs]; exact cleanup_knot _ j a (by omega)
          · split at h
            · rename_i e' he'
              have := Except.error.inj h; subst this
              rw [extentsOf_err E _ _ _ _ _ he']; exact cleanup_extData _
            · cases h

/-! ## sorted keys are monotone (glue to C04's `Axis.WF`) -/

theorem sortedKeys_head_le : ∀ (l : List Int) (a : Int), sortedKeys (a :: l) = true → ∀ x ∈ l, a ≤ x
  | [], _, _, x, hx => by cases hx
  | b :: r, a, h, x, hx => by
    simp only [sortedKeys, Bool.and_eq_true, decide_eq_true_eq] at h
    rcases List.mem_cons.mp hx with rfl | hx'
    · exact h.1
    · exact Int.le_trans h.1 (sortedKeys_head_le r b h.2 x hx')

theorem sortedKeys_tail : ∀ (l : List Int) (a : Int), sortedKeys (a :: l) = true → sortedKeys l = true
  | [], _, _ => rfl
  | b :: r, a, h => by
    simp only [sortedKeys, Bool.and_eq_true, decide_eq_true_eq] at h
    exact h.2

theorem sortedKeys_mono : ∀ (l : List Int), sortedKeys l = true →
    ∀ i j, i ≤ j → j < l.length → l.getD i 0 ≤ l.getD j 0
  | [], _, i, j, _, hj => by cases hj
  | a :: l, h, i, j, hij, hj => by
    cases j with
    | zero =>
      have : i = 0 := by omega
      subst this; exact Int.le_refl _
    | succ j =>
      cases i with
      | zero =>
        simp only [List.getD_cons_zero, List.getD_cons_succ]
        have hj' : j < l.length := by simpa using hj
        have hm : l.getD j 0 ∈ l := by
          rw [List.getD_eq_getElem?_getD, List.getElem?_eq_getElem hj']; exact List.getElem_mem hj'
        exact sortedKeys_head_le l a h _ hm
      | succ i =>
        simp only [List.getD_cons_succ]
        exact sortedKeys_mono l (sortedKeys_tail l a h) i j (by omega) (by simpa using hj)

/-! ## concrete stores (non-vacuity examples and counterexamples for the code before the repair) -/

instance {ε α} [DecidableEq ε] [DecidableEq α] : DecidableEq (Except ε α)
  | .ok a, .ok b => if h : a = b then isTrue (by rw [h]) else isFalse (fun h' => h (Except.ok.inj h'))
  | .error a, .error b => if h : a = b then isTrue (by rw [h]) else isFalse (fun h' => h (Except.error.inj h'))
  | .ok _, .error _ => isFalse (fun h => by cases h)
  | .error _, .ok _ => isFalse (fun h => by cases h)

def exExt : Ext := ⟨fun _ => ['0', '.'], fun _ => none, fun _ => 0, fun _ => 0⟩

def exKnotsHdu (i : Nat) (k : List UInt64) : Hdu :=
  ⟨[k.length], [cardStr "EXTNAME".toList (keyN "KNOTS" i) []], .f64 k⟩

def exOrd (i v : Nat) : Card := cardInt (keyN "ORDER" i) v []

/-- order 0, knots 0,1,2 (bit patterns of 0.0, 1.0, 2.0), two coefficients -/
def exValid : Fits :=
  [⟨[2], [exOrd 0 0], .f32 [1065353216, 1073741824]⟩, exKnotsHdu 0 [0, 4607182418800017408, 4611686018427387904]]

def exValidTable : Table :=
  ⟨[0], [[0, 4607182418800017408, 4611686018427387904]], [2], [1], [1065353216, 1073741824],
   some [0, 4611686018427387904], some [0], []⟩

theorem exValid_read : readFixed exExt exValid = .ok exValidTable := by decide

/-- the same file claiming order 5 -/
def exCounts : Fits :=
  [⟨[2], [exOrd 0 5], .f32 [1065353216, 1073741824]⟩, exKnotsHdu 0 [0, 4607182418800017408, 4611686018427387904]]

def exCountsTable : Table :=
  ⟨[5], [[0, 4607182418800017408, 4611686018427387904]], [2], [1], [1065353216, 1073741824],
   some [0, 0], some [0], []⟩

theorem exCounts_core : readCore exExt exCounts = .ok exCountsTable := by decide
theorem exCounts_not_wf : ¬ exCountsTable.WF := by decide
theorem exCounts_fixed : readFixed exExt exCounts = .error (.invalid 0 1) := by decide

/-- the valid file with a NaN in the middle of the knot vector -/
def exNaNKnots : Fits :=
  [⟨[2], [exOrd 0 0], .f32 [1065353216, 1073741824]⟩, exKnotsHdu 0 [0, 9221120237041090560, 4611686018427387904]]

def exNaNKnotsTable : Table :=
  ⟨[0], [[0, 9221120237041090560, 4611686018427387904]], [2], [1], [1065353216, 1073741824],
   some [0, 4611686018427387904], some [0], []⟩

theorem exNaNKnots_core : readCore exExt exNaNKnots = .ok exNaNKnotsTable := by decide
theorem exNaNKnots_not_wf : ¬ exNaNKnotsTable.WF := by decide

/-- two dimensions, `KNOTS1` missing -/
def exMissingKnots : Fits :=
  [⟨[2, 2], [exOrd 0 0, exOrd 1 0], .f32 [0, 0, 0, 0]⟩, exKnotsHdu 0 [0, 4607182418800017408, 4611686018427387904]]

theorem exMissingKnots_core : readCore exExt exMissingKnots = .error (.knotSize 1) := by decide

/-- one dimension, no `ORDER0` -/
def exMissingOrder : Fits :=
  [⟨[2], [], .f32 [0, 0]⟩, exKnotsHdu 0 [0, 4607182418800017408, 4611686018427387904]]

theorem exMissingOrder_core : readCore exExt exMissingOrder = .error (.order 0) := by decide

end PsV.Fits
