import PsV.Proofs.Reads
/-!
Coefficient reads of the block walk stay inside `[0, ncoef)` (row-major strides, centres in the
fully supported range), and the rows have `order+1` entries — for every arithmetic.
-/
namespace PsV
variable {α : Type} [A : Arith α]

/-- furthest offset (relative to the start position) the walk touches -/
def extent : List (Nat × List α) → Int
  | [] => 0
  | [(_, row)] => (row.length : Int) - 1
  | (s, row) :: r :: rest => ((row.length : Int) - 1) * s + extent (r :: rest)

theorem walkLast_congr (coef coef' : Int → α) (bt : α) :
    ∀ (row : List α) (pos : Int) (acc : α), AgreeOn coef coef' pos (pos + row.length - 1) →
      walkLast coef bt row pos acc = walkLast coef' bt row pos acc := by
  intro row
  induction row with
  | nil => intros; rfl
  | cons b bs ih =>
    intro pos acc h
    simp only [walkLast]
    simp only [List.length_cons] at h
    rw [h pos (Int.le_refl _) (by push_cast; omega), ih (pos + 1) _ (h.mono (by omega) (by push_cast; omega))]

theorem extent_nonneg_of_nonempty : ∀ (rows : List (Nat × List α)), (∀ r ∈ rows, r.2.length ≥ 1) → 0 ≤ extent rows := by
  intro rows
  induction rows with
  | nil => intro _; simp [extent]
  | cons r rest ih =>
    intro h
    obtain ⟨s, row⟩ := r
    have hr : row.length ≥ 1 := h (s, row) (by simp)
    cases rest with
    | nil => simp only [extent]; omega
    | cons r2 rest2 =>
      simp only [extent]
      have := ih (fun q hq => h q (by simp [hq]))
      have : (0:Int) ≤ ((row.length : Int) - 1) * s := Int.mul_nonneg (by omega) (by omega)
      omega

theorem walk_congr (coef coef' : Int → α) :
    ∀ (rows : List (Nat × List α)), (∀ r ∈ rows, r.2.length ≥ 1) →
      ∀ (bt : α) (pos : Int) (acc : α), AgreeOn coef coef' pos (pos + extent rows) →
        walk coef rows bt pos acc = walk coef' rows bt pos acc := by
  intro rows
  induction rows with
  | nil => intros; simp [walk]
  | cons r rest ih =>
    intro hne bt pos acc h
    obtain ⟨s, row⟩ := r
    cases rest with
    | nil =>
      simp only [walk]
      exact walkLast_congr coef coef' bt row pos acc (by simpa [extent, Int.add_sub_assoc] using h)
    | cons r2 rest2 =>
      simp only [walk]
      have ih' := ih (fun q hq => hne q (by simp [hq]))
      have hE : 0 ≤ extent (r2 :: rest2) := extent_nonneg_of_nonempty _ (fun q hq => hne q (by simp [hq]))
      simp only [extent] at h
      -- iterate over the row
      have key : ∀ (bs : List α) (p : Int) (a : α),
          AgreeOn coef coef' p (p + ((bs.length : Int) - 1) * s + extent (r2 :: rest2)) →
          walkRow coef s (r2 :: rest2) bt bs p a = walkRow coef' s (r2 :: rest2) bt bs p a := by
        intro bs
        induction bs with
        | nil => intros; simp [walkRow]
        | cons b bs ihb =>
          intro p a hp
          simp only [walkRow]
          simp only [List.length_cons] at hp
          have hs : (0:Int) ≤ (bs.length : Int) * s := Int.mul_nonneg (by omega) (by omega)
          have e1 : ((bs.length + 1 : Nat) : Int) - 1 = bs.length := by omega
          rw [e1] at hp
          rw [ih' (Arith.smul bt b) p a (hp.mono (Int.le_refl _) (by omega))]
          apply ihb
          apply hp.mono (by omega)
          have : ((bs.length : Int) - 1) * s = (bs.length : Int) * s - s := by
            rw [Int.sub_mul]; simp
          omega
      exact key row pos acc (by simpa [Int.add_assoc] using h)

/-! ### row lengths, for every arithmetic -/

theorem rearrange_length (nknots : Nat) (l : Int) (n : Nat) (row : List α) (hr : row.length = n + 1)
    (h1 : -1 ≤ l) (h2 : l ≤ (nknots : Int) - 1) : (rearrange (A := A) nknots l n row).length = n + 1 := by
  unfold rearrange
  simp only
  split
  · rw [List.length_append, List.length_drop, List.length_replicate, hr]; omega
  · split
    · rw [List.length_append, List.length_take, List.length_replicate, hr]; omega
    · exact hr

theorem derivMid_length (t : Int → α) (left : Int) (n : Nat) :
    ∀ (vs : List α) (i : Nat) (temp : α), (derivMid t left n i temp vs).length = vs.length + 1 := by
  intro vs
  induction vs with
  | nil => intros; simp [derivMid]
  | cons v vs ih => intros; simp [derivMid, ih]

theorem derivCombine_length (t : Int → α) (left : Int) (n : Nat) (vals : List α) (h : vals.length ≥ 1) :
    (derivCombine t left n vals).length = vals.length + 1 := by
  cases vals with
  | nil => simp at h
  | cons v vs => simp [derivCombine, derivMid_length]

theorem localRow_length (d : Dim α) (x : α) (c : Nat) (m : BasisMode)
    (hc1 : d.order ≤ c) (hc2 : c + d.order + 2 ≤ d.nknots) :
    (localRow d x c m).length = d.order + 1 := by
  have agree : AgreeOn d.knots d.knots (-(d.order : Int)) ((d.nknots : Int) + d.order - 1) := fun _ _ _ => rfl
  cases m with
  | value =>
    simp only [localRow, bsplvbSimple]
    obtain ⟨_, b1, b2⟩ := marginShift_congr d.knots d.knots d.nknots x c d.order (agree.mono (by omega) (by omega)) (by omega) (by omega)
    exact rearrange_length _ _ _ _ (by
      have := (bsplvb_congr d.knots d.knots x (marginShift d.knots d.nknots x c d.order) (d.order + 1) (by omega) (fun _ _ _ => rfl)).2
      simpa using this) b1 b2
  | deriv1 =>
    simp only [localRow, bsplineDerivNonzero]
    by_cases hn : d.order = 0
    · simp [hn]
    · simp only [hn, if_false]
      obtain ⟨_, b1, b2⟩ := marginShift_congr d.knots d.knots d.nknots x c d.order (agree.mono (by omega) (by omega)) (by omega) (by omega)
      apply rearrange_length _ _ _ _ _ b1 b2
      have len := (bsplvb_congr d.knots d.knots x (marginShift d.knots d.nknots x c d.order) d.order (by omega) (fun _ _ _ => rfl)).2
      rw [derivCombine_length _ _ _ _ (by rw [len]; omega), len]; omega
  | derivK k => simp [localRow]

/-! ### row-major strides -/

def RowMajor : List (Dim α) → Prop
  | [] => True
  | [d] => d.stride = 1
  | d :: e :: rest => d.stride = e.stride * e.naxes ∧ RowMajor (e :: rest)

/-- number of stored coefficients: `strides[0] * naxes[0]` -/
def ncoef : List (Dim α) → Nat
  | [] => 1
  | d :: _ => d.stride * d.naxes

def CentersInRange : List (Dim α) → List Nat → Prop
  | [], [] => True
  | d :: ds, c :: cs => (d.order ≤ c ∧ c + d.order + 2 ≤ d.nknots ∧ d.naxes = d.nknots - d.order - 1) ∧ CentersInRange ds cs
  | _, _ => False

/-- `Σ c_d · stride_d ≤ ncoef - 1` for row-major strides -/
theorem sum_centres_lt : ∀ (ds : List (Dim α)) (cs : List Nat), ds ≠ [] → RowMajor ds → CentersInRange ds cs →
    ∃ S : Nat, S + 1 ≤ ncoef ds ∧
      (startPos ds cs : Int) + (ds.foldr (fun d acc => (d.order : Int) * d.stride + acc) 0) = S ∧ 0 ≤ startPos ds cs := by
  intro ds
  induction ds with
  | nil => intro cs h; exact absurd rfl h
  | cons d rest ih =>
    intro cs _ hrm hc
    cases cs with
    | nil => simp [CentersInRange] at hc
    | cons c cs =>
      obtain ⟨⟨h1, h2, h3⟩, hrest⟩ := hc
      have hcn : c + 1 ≤ d.naxes := by omega
      cases rest with
      | nil =>
        have hs : d.stride = 1 := hrm
        cases cs with
        | nil =>
          refine ⟨c, ?_, ?_, ?_⟩
          · simp only [ncoef, hs]; omega
          · simp only [startPos, List.foldr, hs]; push_cast; omega
          · simp only [startPos, hs]; push_cast; omega
        | cons _ _ => simp [CentersInRange] at hrest
      | cons e rest2 =>
        obtain ⟨hs, hrm'⟩ := hrm
        obtain ⟨S, hS1, hS2, hS3⟩ := ih cs (by simp) hrm' hrest
        refine ⟨c * d.stride + S, ?_, ?_, ?_⟩
        · simp only [ncoef] at hS1 ⊢
          have : c * d.stride + d.stride ≤ d.naxes * d.stride := by
            have := Nat.mul_le_mul_right d.stride hcn
            rw [Nat.add_mul] at this; simpa using this
          rw [Nat.mul_comm d.stride d.naxes]
          rw [← hs] at hS1
          omega
        · simp only [startPos, List.foldr] at hS2 ⊢
          push_cast
          have : ((c:Int) - d.order) * d.stride = (c:Int) * d.stride - (d.order:Int) * d.stride := Int.sub_mul _ _ _
          omega
        · simp only [startPos]
          have : (0:Int) ≤ ((c:Int) - d.order) * d.stride := Int.mul_nonneg (by omega) (by omega)
          omega

end PsV
