import PsV.Proofs.ConvStrom
import PsV.Proofs.ConvArea
/-!
# Strøm's identity for the table that `convolve` returns

`convolve_slices`: for a table of any number of dimensions, every one-dimensional slice (fixed indices `i`, `k` of the
dimensions before / after `dim`) of the coefficient array returned by `PsV.convolve`, taken against the new basis
(order `order + n − 1`, knots = the sorted pairwise sums), is the specification's convolution integral
`ConvSpec.conv1` of the corresponding slice of the old coefficients.
-/
namespace PsV
open Finset

/-! ### the transfer matrix as an array -/

theorem loopN_push (g : Nat → Rat) : ∀ (n : Nat) (t : Array Rat),
    (loopN n (fun j t => t.push (g j)) t).size = t.size + n ∧
    (∀ k, k < t.size → (loopN n (fun j t => t.push (g j)) t)[k]? = t[k]?) ∧
    (∀ j, j < n → (loopN n (fun j t => t.push (g j)) t)[t.size + j]? = some (g j))
  | 0, t => ⟨rfl, fun _ _ => rfl, fun _ h => absurd h (by omega)⟩
  | n+1, t => by
    obtain ⟨h1, h2, h3⟩ := loopN_push g n t
    refine ⟨?_, ?_, ?_⟩
    · rw [loopN, Array.size_push, h1]; omega
    · intro k hk
      rw [loopN, Array.getElem?_push, h1, if_neg (by omega), h2 k hk]
    · intro j hj
      rw [loopN, Array.getElem?_push, h1]
      by_cases h : j = n
      · subst h; simp
      · rw [if_neg (by omega), h3 j (by omega)]

theorem trafoMatrix_aux (f : Nat → Nat → Rat) (nOld : Nat) : ∀ (n : Nat) (t0 : Array Rat), t0.size = 0 →
    (loopN n (fun i t => loopN nOld (fun j t => t.push (f i j)) t) t0).size = n * nOld ∧
    (∀ i j, i < n → j < nOld →
      (loopN n (fun i t => loopN nOld (fun j t => t.push (f i j)) t) t0)[i*nOld + j]? = some (f i j))
  | 0, t0, h0 => ⟨by simp [loopN, h0], fun _ _ h => absurd h (by omega)⟩
  | n+1, t0, h0 => by
    obtain ⟨h1, h2⟩ := trafoMatrix_aux f nOld n t0 h0
    obtain ⟨g1, g2, g3⟩ := loopN_push (f n) nOld (loopN n (fun i t => loopN nOld (fun j t => t.push (f i j)) t) t0)
    refine ⟨?_, ?_⟩
    · rw [loopN, g1, h1]; ring
    · intro i j hi hj
      rw [loopN]
      by_cases h : i = n
      · subst h
        have := g3 j hj
        rw [h1] at this
        exact this
      · have hlt : i * nOld + j < n * nOld := by
          have : (i+1) * nOld ≤ n * nOld := Nat.mul_le_mul_right _ (by omega)
          have e : (i+1) * nOld = i * nOld + nOld := by ring
          omega
        rw [g2 _ (by rw [h1]; exact hlt)]
        exact h2 i j (by omega) hj

theorem trafoMatrix_getD (knots ck rho : List Rat) (k q : Nat) (norm : Rat) (nNew nOld i j : Nat)
    (hi : i < nNew) (hj : j < nOld) :
    (trafoMatrix knots ck rho k q norm nNew nOld).getD (i*nOld + j) 0 = trafoEntry knots ck rho k q norm i j := by
  unfold trafoMatrix
  have := (trafoMatrix_aux (fun i j => trafoEntry knots ck rho k q norm i j) nOld nNew
    (Array.emptyWithCapacity (nNew*nOld)) (by simp)).2 i j hi hj
  rw [Array.getD_eq_getD_getElem?, this]
  rfl

/-! ### list facts -/

theorem getK_strict (l : List Rat) (h : l.Pairwise (· < ·)) (a b : Nat) (hab : a < b) (hb : b < l.length) :
    getK l a < getK l b := by
  rw [getK_eq l a (by omega), getK_eq l b hb]
  exact (List.pairwise_iff_getElem.mp h) a b (by omega) hb hab

theorem mem_pairSums (ks cks : List Rat) (a b : Nat) (ha : a < ks.length) (hb : b < cks.length) :
    getK ks a + getK cks b ∈ pairSums ks cks := by
  unfold pairSums
  rw [List.mem_flatMap]
  refine ⟨ks[a], List.getElem_mem ha, ?_⟩
  rw [List.mem_map]
  exact ⟨cks[b], List.getElem_mem hb, by rw [getK_eq ks a ha, getK_eq cks b hb]; rfl⟩

theorem pairSums_lower (ks cks : List Rat) (hk : ks.Pairwise (· < ·)) (hc : cks.Pairwise (· < ·))
    (s : Rat) (hs : s ∈ pairSums ks cks) : getK ks 0 + getK cks 0 ≤ s := by
  unfold pairSums at hs
  rw [List.mem_flatMap] at hs
  obtain ⟨a, ha, hs⟩ := hs
  rw [List.mem_map] at hs
  obtain ⟨b, hb, rfl⟩ := hs
  obtain ⟨ia, hia, rfl⟩ := List.getElem_of_mem ha
  obtain ⟨ib, hib, rfl⟩ := List.getElem_of_mem hb
  have h1 : getK ks 0 ≤ ks[ia] := by
    rcases Nat.eq_zero_or_pos ia with h | h
    · subst h; rw [getK_eq ks 0 hia]
    · have := getK_strict ks hk 0 ia h hia
      rw [getK_eq ks ia hia] at this; exact le_of_lt this
  have h2 : getK cks 0 ≤ cks[ib] := by
    rcases Nat.eq_zero_or_pos ib with h | h
    · subst h; rw [getK_eq cks 0 hib]
    · have := getK_strict cks hc 0 ib h hib
      rw [getK_eq cks ib hib] at this; exact le_of_lt this
  show _ ≤ ks[ia] + cks[ib]
  linarith

/-- `norm = q!(k-1)!/(k+q-1)!` while the factorials fit in `unsigned` -/
theorem convNorm_eq (k q : Nat) (hk : 1 ≤ k) (h : k + q - 1 ≤ 12) :
    (convNorm k q : Rat) = ((q.factorial * (k-1).factorial : Nat) : Rat) / (((k+q-1).factorial : Nat) : Rat) := by
  have small : ∀ n, n ≤ 12 → factorialC n = n.factorial := by
    intro n hn
    unfold factorialC
    rw [factLoop_eq n 1 (by norm_num), Nat.one_mul]
    apply Nat.mod_eq_of_lt
    calc n.factorial ≤ (12).factorial := Nat.factorial_le hn
      _ < 2^32 := by decide
  unfold convNorm
  rw [small q (by omega), small (k-1) (by omega), small (k+q-1) h]
  have hdvd : q.factorial * (k-1).factorial ∣ (k+q-1).factorial := by
    have := Nat.factorial_mul_factorial_dvd_factorial_add q (k-1)
    have e : q + (k - 1) = k + q - 1 := by omega
    rwa [e] at this
  have hle : q.factorial * (k-1).factorial ≤ (12).factorial :=
    le_trans (Nat.le_of_dvd (Nat.factorial_pos _) hdvd) (Nat.factorial_le h)
  have hlt : q.factorial * (k-1).factorial < 2^32 := lt_of_le_of_lt hle (by decide)
  rw [Nat.mod_eq_of_lt hlt]
  rfl

/-! ### the table -/

/-- **every slice of the convolved coefficient array is the true convolution of the old slice** -/
theorem convolve_slices (T : CTable Rat) (dim : Nat) (ck : List Rat) (d : CDim Rat)
    (hd : T.dims[dim]? = some d) (hk : d.knots.length = d.nknots) (hnax : d.naxes + d.order + 1 = d.nknots)
    (hτ : d.knots.Pairwise (· < ·)) (hy : ck.Pairwise (· < ·)) (hq : 2 ≤ ck.length)
    (h12 : d.order + ck.length - 1 ≤ 12) :
    ∃ R d', convolve T dim ck = some R ∧ R.dims[dim]? = some d' ∧
      d'.knots = sortKnots (pairSums d.knots ck) ∧ d'.order = d.order + ck.length - 1 ∧
      d'.naxes = d'.knots.length - d'.order - 1 ∧ d'.nknots = d'.knots.length ∧
      ∀ i k, i < prodL ((T.dims.map (·.naxes)).take dim) → k < prodL ((T.dims.map (·.naxes)).drop (dim+1)) →
      ∀ (t : Int → Rat), (∀ z : Nat, z < d'.knots.length → t (z : Int) = getK d'.knots z) →
      ∀ (left : Nat) (x : Rat), left + 1 < d'.knots.length → getK d'.knots left < getK d'.knots (left+1) →
        getK d'.knots left ≤ x → x ≤ getK d'.knots (left+1) →
        ∑ l ∈ range d'.naxes,
            R.coef.getD (i * prodL ((T.dims.map (·.naxes)).drop (dim+1)) * d'.naxes
              + l * prodL ((T.dims.map (·.naxes)).drop (dim+1)) + k) 0 * Bp t x (left : Int) d'.order (l : Int)
          = ConvSpec.conv1 (getK d.knots) d.nknots d.order d.naxes
              (fun j => T.coef.getD (i * prodL ((T.dims.map (·.naxes)).drop (dim+1)) * d.naxes
                + j * prodL ((T.dims.map (·.naxes)).drop (dim+1)) + k) 0)
              (getK ck) (ck.length - 1) x := by
  have hdim : dim < T.dims.length := by
    rcases Nat.lt_or_ge dim T.dims.length with h | h
    · exact h
    · rw [List.getElem?_eq_none h] at hd; cases hd
  have htake : d.knots.take d.nknots = d.knots := List.take_of_length_le (by omega)
  obtain ⟨q', hq'⟩ : ∃ q', ck.length = q' + 2 := ⟨ck.length - 2, by omega⟩
  -- abbreviations
  set rho := sortKnots (pairSums d.knots ck) with hrho
  set p := d.order with hp
  set nax := T.dims.map (·.naxes) with hnaxl
  set nNew := rho.length - (p + ck.length - 1) - 1 with hnNew
  set s2 := prodL (nax.drop (dim+1)) with hs2
  set s1 := prodL (nax.take dim) with hs1
  have hs1' : prodL ((setAt nax dim nNew).take dim) = s1 := by
    unfold setAt; rw [List.take_set_of_le (le_refl _)]
  have hs2' : prodL ((setAt nax dim nNew).drop (dim+1)) = s2 := by
    unfold setAt; rw [List.drop_set_of_lt (by omega)]
  have hnaxlen : dim < nax.length := by rw [hnaxl, List.length_map]; exact hdim
  unfold convolve
  simp only [hd, htake]
  refine ⟨_, { order := p + ck.length - 1, nknots := rho.length, naxes := nNew,
               stride := (rowMajor (setAt nax dim nNew)).1.getD dim 0, knots := rho,
               extLo := if Arith.lt d.extLo (getK d.knots p) then getK rho 0 else getK rho (p + ck.length - 1),
               extHi := Arith.add d.extHi (getK ck 0) }, rfl, ?_, rfl, rfl, rfl, rfl, ?_⟩
  · rw [restride_getElem?, setAt_self _ _ _ hdim]
    rfl
  · intro i k hi hk' t ht left x hleft hne hx1 hx2
    -- the coefficients: mode product with the transfer matrix
    have hcoef : ∀ l, l < nNew →
        (coefLoops (fun pp => (trafoMatrix d.knots ck rho (p+1) (ck.length-1) (convNorm (p+1) (ck.length-1)) nNew d.naxes).getD pp Arith.zero)
          (fun pp => T.coef.getD pp Arith.zero) (prodL ((setAt nax dim nNew).take dim))
          (prodL ((setAt nax dim nNew).drop (dim+1))) nNew d.naxes
          (Array.replicate (rowMajor (setAt nax dim nNew)).2 (Arith.rnd Arith.zero))).getD (i * s2 * nNew + l * s2 + k) 0 =
        ∑ j ∈ range d.naxes, trafoEntry d.knots ck rho (p+1) (ck.length-1) (convNorm (p+1) (ck.length-1)) l j *
          T.coef.getD (i * s2 * d.naxes + j * s2 + k) 0 := by
      intro l hl
      rw [hs1', hs2']
      have hN : i * s2 * nNew + l * s2 + k < (rowMajor (setAt nax dim nNew)).2 := by
        rw [rowMajor_split nax dim nNew hnaxlen, hs1', hs2']
        have h1 : l * s2 + k < nNew * s2 := by
          calc l * s2 + k < l * s2 + s2 := by omega
            _ = (l+1) * s2 := by ring
            _ ≤ nNew * s2 := Nat.mul_le_mul_right s2 hl
        calc i * s2 * nNew + l * s2 + k = (l * s2 + k) + i * (nNew * s2) := by ring
          _ < nNew * s2 + i * (nNew * s2) := by omega
          _ = (i+1) * (nNew * s2) := by ring
          _ ≤ s1 * (nNew * s2) := Nat.mul_le_mul_right _ hi
          _ = s1 * nNew * s2 := by ring
      rw [Array.getD_eq_getD_getElem?, coefLoops_cell _ _ s1 s2 nNew d.naxes _ i l k hi hl hk']
      simp only [Array.getElem?_replicate, hN, if_true, Option.map_some, Option.getD_some]
      rw [cellFold_rat]
      apply Finset.sum_congr rfl
      intro j hj
      rw [mem_range] at hj
      have h := trafoMatrix_getD d.knots ck rho (p+1) (ck.length-1) (convNorm (p+1) (ck.length-1)) nNew d.naxes l j hl hj
      exact congrArg (fun z => z * T.coef.getD (i * s2 * d.naxes + j * s2 + k) 0) h
    show ∑ l ∈ range nNew, _ = _
    have hsum : ∀ l ∈ range nNew,
        (coefLoops (fun pp => (trafoMatrix d.knots ck rho (p+1) (ck.length-1) (convNorm (p+1) (ck.length-1)) nNew d.naxes).getD pp Arith.zero)
          (fun pp => T.coef.getD pp Arith.zero) (prodL ((setAt nax dim nNew).take dim))
          (prodL ((setAt nax dim nNew).drop (dim+1))) nNew d.naxes
          (Array.replicate (rowMajor (setAt nax dim nNew)).2 (Arith.rnd Arith.zero))).getD (i * s2 * nNew + l * s2 + k) 0
          * Bp t x (left : Int) (p + ck.length - 1) (l : Int) =
        (∑ j ∈ range d.naxes, trafoEntry d.knots ck rho (p+1) (ck.length-1) (convNorm (p+1) (ck.length-1)) l j *
          T.coef.getD (i * s2 * d.naxes + j * s2 + k) 0) * Bp t x (left : Int) (p + ck.length - 1) (l : Int) := by
      intro l hl
      rw [hcoef l (mem_range.mp hl)]
    refine Eq.trans (Finset.sum_congr rfl hsum) ?_
    -- Strøm's identity
    have e1 : ck.length - 1 = q' + 1 := by omega
    have e2 : p + ck.length - 1 = p + (q' + 1) := by omega
    rw [hnNew, e1, e2]
    rw [← hk]
    exact strom_core d.knots ck rho p q' d.naxes _ left t x _ hq' (by omega)
      (fun a b hab hb => getK_strict d.knots hτ a b hab hb)
      (fun a b hab hb => getK_strict ck hy a b hab hb)
      (sortKnots_sorted _)
      (fun a b ha hb => ((sortKnots_perm _).mem_iff).mpr (mem_pairSums d.knots ck a b ha hb))
      (by
        have hleft' : left + 1 < rho.length := hleft
        have hpos : 0 < rho.length := by omega
        have hm : getK rho 0 ∈ rho := by rw [getK_eq rho 0 hpos]; exact List.getElem_mem hpos
        exact pairSums_lower d.knots ck hτ hy _ (((sortKnots_perm _).mem_iff).mp hm))
      hleft hne hx1 hx2 ht
      (by rw [convNorm_eq (p+1) (q'+1) (by omega) (by omega)]; rfl)

end PsV
