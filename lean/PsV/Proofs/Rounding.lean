import PsV.Proofs.RelErr
import PsV.Proofs.Field
import PsV.Model.Eval
/-!
# Forward error of value evaluation under rounding

The same model definitions (`vbStep`, `bsplvb`, `bsplvbSimple`, `walk`, `ndsplineeval`) are run at two
instances of the arithmetic bundle on one ordered field `F`:

* `Arith.ofField F` — exact;
* `Arith.rounded fl st` — every `+ − × ÷` is followed by the working-precision rounding `fl`, every store
  into a `Float`-typed variable by the storage rounding `st` (for `Float = double` both are rounding to
  double; for `Float = float`, `fl` rounds to double and `st` to float), comparisons exact.

Roundings are any functions with `RelErr ε 1 a (fl a)` — the standard model without underflow/overflow.
-/
namespace PsV
variable {F : Type} [Field F] [LinearOrder F] [IsStrictOrderedRing F]

@[reducible] def Arith.rounded (fl st : F → F) : Arith F where
  add a b := fl (a + b)
  sub a b := fl (a - b)
  mul a b := fl (a * b)
  div a b := fl (a / b)
  neg a := -a
  lt a b := decide (a < b)
  le a b := decide (a ≤ b)
  zero := 0
  one := 1
  ofNat n := fl (n : F)
  rnd := st

section
variable (fl st : F → F)
@[simp] theorem rd_add (a b : F) : @Arith.add F (Arith.rounded fl st) a b = fl (a + b) := rfl
@[simp] theorem rd_sub (a b : F) : @Arith.sub F (Arith.rounded fl st) a b = fl (a - b) := rfl
@[simp] theorem rd_mul (a b : F) : @Arith.mul F (Arith.rounded fl st) a b = fl (a * b) := rfl
@[simp] theorem rd_div (a b : F) : @Arith.div F (Arith.rounded fl st) a b = fl (a / b) := rfl
@[simp] theorem rd_rnd (a : F) : @Arith.rnd F (Arith.rounded fl st) a = st a := rfl
@[simp] theorem rd_zero : @Arith.zero F (Arith.rounded fl st) = 0 := rfl
@[simp] theorem rd_one : @Arith.one F (Arith.rounded fl st) = 1 := rfl
@[simp] theorem rd_lt (a b : F) : @Arith.lt F (Arith.rounded fl st) a b = decide (a < b) := rfl
@[simp] theorem rd_le (a b : F) : @Arith.le F (Arith.rounded fl st) a b = decide (a ≤ b) := rfl
@[simp] theorem rd_smul (a b : F) : @Arith.smul F (Arith.rounded fl st) a b = st (fl (a * b)) := rfl
@[simp] theorem rd_sadd (a b : F) : @Arith.sadd F (Arith.rounded fl st) a b = st (fl (a + b)) := rfl
end

variable {ε : F} {fl st : F → F}

/-- one level of `bsplvb` adds at most 7 roundings to every entry; entries stay non-negative -/
theorem vbStep_relerr (hε : 0 ≤ ε) (hfl : ∀ a, RelErr ε 1 a (fl a)) (hst : ∀ a, RelErr ε 1 a (st a))
    (t : Int → F) (x : F) (left : Int) (j : Nat) (k : Nat) :
    ∀ (bsE bsR : List F) (i : Nat) (sE sR : F),
      List.Forall₂ (RelErr ε k) bsE bsR → (∀ b ∈ bsE, 0 ≤ b) → 0 ≤ sE → RelErr ε (k + 5) sE sR →
      (∀ m : Nat, i ≤ m → m < i + bsE.length →
        x ≤ t (left + m + 1) ∧ t (left - ((j - m : Nat) : Int)) ≤ x) →
      List.Forall₂ (RelErr ε (k + 7)) (@vbStep F (Arith.ofField F) t x left j i sE bsE)
        (@vbStep F (Arith.rounded fl st) t x left j i sR bsR) ∧
      ∀ b ∈ @vbStep F (Arith.ofField F) t x left j i sE bsE, 0 ≤ b := by
  intro bsE
  induction bsE with
  | nil =>
    intro bsR i sE sR hb _ hs hsr _
    cases hb
    simp only [vbStep, of_rnd, rd_rnd]
    refine ⟨List.Forall₂.cons ?_ List.Forall₂.nil, by simpa using hs⟩
    exact (RelErr.round hε hst hsr).mono hε (by omega)
  | cons b bs ih =>
    intro bsR i sE sR hb hnn hs hsr hk
    cases hb with
    | cons hb1 hbs =>
      rename_i bR bsR'
      simp only [vbStep, of_rnd, rd_rnd, of_add, of_sub, of_mul, of_div, rd_add, rd_sub, rd_mul, rd_div]
      obtain ⟨hx1, hx2⟩ := hk i (le_refl _) (by simp)
      have hdr0 : 0 ≤ t (left + i + 1) - x := by linarith
      have hdl0 : 0 ≤ x - t (left - ((j - i : Nat) : Int)) := by linarith
      have hb0 : 0 ≤ b := hnn b (by simp)
      have hdr : RelErr ε 1 (t (left + i + 1) - x) (fl (t (left + i + 1) - x)) := hfl _
      have hdl : RelErr ε 1 (x - t (left - ((j - i : Nat) : Int))) (fl (x - t (left - ((j - i : Nat) : Int)))) := hfl _
      have hsum := RelErr.round hε hfl (RelErr.add_nonneg hε hdr hdl hdr0 hdl0)
      have hterm := RelErr.round hε hfl (RelErr.div hε hb1 hsum)
      have hterm0 : 0 ≤ b / (t (left + i + 1) - x + (x - t (left - ((j - i : Nat) : Int)))) :=
        div_nonneg hb0 (add_nonneg hdr0 hdl0)
      have hdrt := RelErr.round hε hfl (RelErr.mul hε hdr hterm)
      have hdlt := RelErr.round hε hfl (RelErr.mul hε hdl hterm)
      have hnew := RelErr.round hε hst (RelErr.round hε hfl
        (RelErr.add_nonneg hε hsr (hdrt.mono hε (by omega)) hs (mul_nonneg hdr0 hterm0)))
      obtain ⟨ih1, ih2⟩ := ih bsR' (i + 1) _ _ hbs (fun c hc => hnn c (by simp [hc])) (mul_nonneg hdl0 hterm0)
        (hdlt.mono hε (by omega))
        (fun m h1 h2 => hk m (by omega) (by simp only [List.length_cons]; omega))
      refine ⟨List.Forall₂.cons (hnew.mono hε (by omega)) ih1, ?_⟩
      intro c hc
      simp only [List.mem_cons] at hc
      rcases hc with rfl | hc
      · exact add_nonneg hs (mul_nonneg hdr0 hterm0)
      · exact ih2 c hc

/-- the levels `j … j+count-1` of `bsplvb` on a row of level `j` -/
theorem vbLevels_relerr (hε : 0 ≤ ε) (hfl : ∀ a, RelErr ε 1 a (fl a)) (hst : ∀ a, RelErr ε 1 a (st a))
    (t : Int → F) (x : F) (left : Int) (n : Nat)
    (hup : ∀ m : Nat, m < n → x ≤ t (left + m + 1)) (hdn : ∀ m : Nat, m < n → t (left - (m : Int)) ≤ x) :
    ∀ (count j : Nat) (rowE rowR : List F) (k : Nat), j + count ≤ n → rowE.length = j + 1 →
      List.Forall₂ (RelErr ε k) rowE rowR → (∀ b ∈ rowE, 0 ≤ b) →
      List.Forall₂ (RelErr ε (k + 7 * count)) (@vbLevels F (Arith.ofField F) t x left count j rowE)
        (@vbLevels F (Arith.rounded fl st) t x left count j rowR) ∧
      ∀ b ∈ @vbLevels F (Arith.ofField F) t x left count j rowE, 0 ≤ b := by
  intro count
  induction count with
  | zero => intro j rowE rowR k _ _ h hnn; simpa [vbLevels] using ⟨h, hnn⟩
  | succ c ih =>
    intro j rowE rowR k hj hl h hnn
    simp only [vbLevels]
    obtain ⟨s1, s2⟩ := vbStep_relerr hε hfl hst t x left j k rowE rowR 0 0 0 h hnn (le_refl _)
      (RelErr.of_zero hε _) (by
        intro m _ hm
        rw [hl] at hm
        exact ⟨hup m (by omega), hdn (j - m) (by omega)⟩)
    have hlen : (@vbStep F (Arith.ofField F) t x left j 0 0 rowE).length = (j + 1) + 1 := by
      have : ∀ (bs : List F) (i : Nat) (sv : F), (@vbStep F (Arith.ofField F) t x left j i sv bs).length = bs.length + 1 := by
        intro bs; induction bs with
        | nil => intros; simp [vbStep]
        | cons b bs ihb => intros; simp [vbStep, ihb]
      rw [this, hl]
    obtain ⟨r1, r2⟩ := ih (j + 1) _ _ (k + 7) (by omega) hlen s1 s2
    refine ⟨?_, r2⟩
    have e : k + 7 + 7 * c = k + 7 * (c + 1) := by ring
    rw [← e]
    simpa using r1

/-- `bsplvb(…, jhigh)`: every entry carries at most `7(jhigh-1)+1` roundings -/
theorem bsplvb_relerr (hε : 0 ≤ ε) (hfl : ∀ a, RelErr ε 1 a (fl a)) (hst : ∀ a, RelErr ε 1 a (st a))
    (t : Int → F) (x : F) (left : Int) (jhigh : Nat)
    (hup : ∀ m : Nat, m + 1 < jhigh → x ≤ t (left + m + 1)) (hdn : ∀ m : Nat, m + 1 < jhigh → t (left - (m : Int)) ≤ x) :
    List.Forall₂ (RelErr ε (1 + 7 * (jhigh - 1))) (@bsplvb F (Arith.ofField F) t x left jhigh)
        (@bsplvb F (Arith.rounded fl st) t x left jhigh) ∧
      ∀ b ∈ @bsplvb F (Arith.ofField F) t x left jhigh, 0 ≤ b := by
  unfold bsplvb
  simp only [of_rnd, of_one, rd_rnd, rd_one]
  exact vbLevels_relerr hε hfl hst t x left (jhigh - 1) (fun m h => hup m (by omega)) (fun m h => hdn m (by omega))
    (jhigh - 1) 0 [1] [st 1] 1 (by omega) rfl
    (List.Forall₂.cons (by simpa using RelErr.round hε hst (RelErr.refl hε (1 : F))) List.Forall₂.nil)
    (by simp)

/-- inside the fully supported range the margin handling does nothing (any arithmetic) -/
theorem marginShift_interior {α : Type} [A : Arith α] (t : Int → α) (nknots : Nat) (x : α) (left : Int) (n : Nat)
    (h1 : A.lt x (t left) = false) (h2 : A.lt (t (left + 1)) x = false) :
    marginShift t nknots x left n = left := by
  have hd : shiftDown t x (nknots + 1) left = left := by simp [shiftDown, h1]
  have hu : shiftUp t nknots x (nknots + 1) left = left := by simp [shiftUp, h2]
  unfold marginShift
  by_cases e1 : left = n
  · simp only [e1, if_true]
    rw [← e1, hd]
    split
    · exact hu
    · rfl
  · simp only [e1, if_false]
    split
    · exact hu
    · rfl

theorem rearrange_interior {α : Type} [A : Arith α] (nknots : Nat) (left : Int) (n : Nat) (row : List α)
    (h1 : (n : Int) ≤ left) (h2 : left + n + 2 ≤ nknots) : rearrange nknots left n row = row := by
  unfold rearrange
  simp only
  rw [if_neg (by omega), if_neg (by omega)]

/-- `bsplvb_simple` at a point of the fully supported range -/
theorem bsplvbSimple_relerr (hε : 0 ≤ ε) (hfl : ∀ a, RelErr ε 1 a (fl a)) (hst : ∀ a, RelErr ε 1 a (st a))
    (t : Int → F) (nknots : Nat) (x : F) (c : Nat) (n : Nat)
    (hc1 : n ≤ c) (hc2 : c + n + 2 ≤ nknots) (hx1 : t c ≤ x) (hx2 : x ≤ t ((c : Int) + 1))
    (hmono : ∀ a b : Int, (c : Int) - n ≤ a → a ≤ b → b ≤ (c : Int) + n + 1 → t a ≤ t b) :
    List.Forall₂ (RelErr ε (1 + 7 * n)) (@bsplvbSimple F (Arith.ofField F) t nknots x c n)
        (@bsplvbSimple F (Arith.rounded fl st) t nknots x c n) ∧
      ∀ b ∈ @bsplvbSimple F (Arith.ofField F) t nknots x c n, 0 ≤ b := by
  unfold bsplvbSimple
  simp only
  rw [marginShift_interior (A := Arith.ofField F) t nknots x c n (by simpa using hx1) (by simpa using hx2),
    marginShift_interior (A := Arith.rounded fl st) t nknots x c n (by simpa using hx1) (by simpa using hx2),
    rearrange_interior (A := Arith.ofField F) nknots c n _ (by exact_mod_cast hc1) (by exact_mod_cast hc2),
    rearrange_interior (A := Arith.rounded fl st) nknots c n _ (by exact_mod_cast hc1) (by exact_mod_cast hc2)]
  have := bsplvb_relerr hε hfl hst t x c (n + 1)
    (fun m hm => le_trans hx2 (hmono _ _ (by omega) (by omega) (by omega)))
    (fun m hm => le_trans (hmono _ _ (by omega) (by omega) (by omega)) hx1)
  simpa using this


/-! ## the coefficient-block walk: absolute error against the sum of magnitudes -/

/-- accumulator invariant: the rounded accumulator `b` is within `gfac K · S` of the exact one `a`,
where `S` bounds the magnitudes accumulated so far -/
def Acc (ε : F) (K : Nat) (S a b : F) : Prop := |b - a| ≤ gfac ε K * S ∧ |a| ≤ S

theorem Acc.mono (hε : 0 ≤ ε) {K K' : Nat} {S a b : F} (h : Acc ε K S a b) (hK : K ≤ K') : Acc ε K' S a b := by
  refine ⟨le_trans h.1 (mul_le_mul_of_nonneg_right (gfac_mono hε hK) (le_trans (abs_nonneg _) h.2)), h.2⟩

/-- one accumulation `acc = st(fl(acc + term))`: two more roundings on everything accumulated so far -/
theorem Acc.step (hε : 0 ≤ ε) {K kt : Nat} {S a b tE tR c : F} (h : Acc ε K S a b) (ht : RelErr ε kt tE tR)
    (hk : kt ≤ K) (hc : RelErr ε 2 (b + tR) c) : Acc ε (K + 2) (S + |tE|) (a + tE) c := by
  obtain ⟨r, rfl, r1, r2⟩ := ht
  obtain ⟨ρ, rfl, p1, p2⟩ := hc
  have hρ0 : 0 < ρ := RelErr.factor_pos hε p1
  have hρ : |ρ - 1| ≤ gfac ε 2 := RelErr.abs_factor hε p1 p2
  have hrρ : |r * ρ - 1| ≤ gfac ε (K + 2) := by
    have hm := RelErr.mul hε (⟨r, rfl, r1, r2⟩ : RelErr ε kt 1 (1 * r)) (⟨ρ, rfl, p1, p2⟩ : RelErr ε 2 1 (1 * ρ))
    obtain ⟨q, e, q1, q2⟩ := hm
    have hq : q = r * ρ := by simpa using e.symm
    rw [← hq]
    exact le_trans (RelErr.abs_factor hε q1 q2) (gfac_mono hε (by omega))
  have hS : 0 ≤ S := le_trans (abs_nonneg _) h.2
  have key : (b + tE * r) * ρ - (a + tE) = (b - a) * ρ + a * (ρ - 1) + tE * (r * ρ - 1) := by ring
  have hg : gfac ε K * (1 + ε) ^ 2 + gfac ε 2 = gfac ε (K + 2) := by unfold gfac; ring
  constructor
  · rw [key]
    have t1 : |(b - a) * ρ| ≤ gfac ε K * S * (1 + ε) ^ 2 := by
      rw [abs_mul, abs_of_pos hρ0]
      exact mul_le_mul h.1 p2 (le_of_lt hρ0) (mul_nonneg (gfac_nonneg hε K) hS)
    have t2 : |a * (ρ - 1)| ≤ S * gfac ε 2 := by
      rw [abs_mul]; exact mul_le_mul h.2 hρ (abs_nonneg _) hS
    have t3 : |tE * (r * ρ - 1)| ≤ |tE| * gfac ε (K + 2) := by
      rw [abs_mul]; exact mul_le_mul_of_nonneg_left hrρ (abs_nonneg _)
    calc |(b - a) * ρ + a * (ρ - 1) + tE * (r * ρ - 1)|
        ≤ |(b - a) * ρ| + |a * (ρ - 1)| + |tE * (r * ρ - 1)| := abs_add_three _ _ _
      _ ≤ gfac ε K * S * (1 + ε) ^ 2 + S * gfac ε 2 + |tE| * gfac ε (K + 2) := by linarith
      _ = gfac ε (K + 2) * (S + |tE|) := by rw [← hg]; ring
  · exact le_trans (abs_add_le _ _) (by linarith [h.2])

/-- number of accumulated terms of a block walk -/
def nterms : List (Nat × List F) → Nat
  | [] => 0
  | [(_, row)] => row.length
  | (_, row) :: r :: rest => row.length * nterms (r :: rest)

/-- paired exact / rounded rows: same strides, entries related by `kr` roundings, exact entries ≥ 0 -/
def RowsRel (ε : F) (kr : Nat) (rowsE rowsR : List (Nat × List F)) : Prop :=
  List.Forall₂ (fun re rr => re.1 = rr.1 ∧ List.Forall₂ (RelErr ε kr) re.2 rr.2 ∧ ∀ b ∈ re.2, 0 ≤ b) rowsE rowsR

section walk
variable (hε : 0 ≤ ε) (hfl : ∀ a, RelErr ε 1 a (fl a)) (hst : ∀ a, RelErr ε 1 a (st a)) (coef : Int → F)
include hε hfl hst

theorem walkLast_err (kt kr kb : Nat) (btE btR : F) (hbt : RelErr ε kb btE btR) (hbt0 : 0 ≤ btE)
    (hk : kb + kr + 4 ≤ kt) :
    ∀ (rowE rowR : List F) (pos : Int) (accE accR S : F) (m : Nat),
      List.Forall₂ (RelErr ε kr) rowE rowR → (∀ b ∈ rowE, 0 ≤ b) → Acc ε (kt + 2 * m) S accE accR →
      Acc ε (kt + 2 * (m + rowE.length))
        (@walkLast F (Arith.ofField F) (fun i => |coef i|) btE rowE pos S)
        (@walkLast F (Arith.ofField F) coef btE rowE pos accE)
        (@walkLast F (Arith.rounded fl st) coef btR rowR pos accR) := by
  intro rowE
  induction rowE with
  | nil => intro rowR pos accE accR S m h _ hacc; cases h; simpa [walkLast] using hacc
  | cons b bs ih =>
    intro rowR pos accE accR S m h hnn hacc
    cases h with
    | cons hb hbs =>
      rename_i bR bsR
      simp only [walkLast, of_sadd, of_smul, rd_sadd, rd_smul]
      have hb0 : 0 ≤ b := hnn b (by simp)
      have hterm : RelErr ε kt (btE * b * coef pos) (st (fl (st (fl (btR * bR)) * coef pos))) := by
        have h1 := RelErr.round hε hst (RelErr.round hε hfl (RelErr.mul hε hbt hb))
        have h2 := RelErr.round hε hst (RelErr.round hε hfl (RelErr.mul hε h1 (RelErr.refl hε (coef pos))))
        exact h2.mono hε (by omega)
      have hc : RelErr ε 2 (accR + st (fl (st (fl (btR * bR)) * coef pos)))
          (st (fl (accR + st (fl (st (fl (btR * bR)) * coef pos))))) := by
        simpa using RelErr.round hε hst (RelErr.round hε hfl (RelErr.refl hε _))
      have hstep := Acc.step hε hacc hterm (by omega) hc
      have habs : |btE * b * coef pos| = btE * b * |coef pos| := by
        rw [abs_mul, abs_of_nonneg (mul_nonneg hbt0 hb0)]
      rw [habs] at hstep
      have := ih bsR (pos + 1) _ _ _ (m + 1) hbs (fun c hc => hnn c (by simp [hc]))
        (by have e : kt + 2 * (m + 1) = kt + 2 * m + 2 := by ring
            rw [e]; exact hstep)
      have e2 : m + 1 + bs.length = m + (b :: bs).length := by simp only [List.length_cons]; omega
      rw [e2] at this
      exact this

theorem walkRow_err (kt kr kb : Nat) (s : Nat) (restE restR : List (Nat × List F))
    (ih : ∀ (btE btR : F), RelErr ε (kb + kr + 2) btE btR → 0 ≤ btE →
      ∀ (pos : Int) (accE accR S : F) (m : Nat), Acc ε (kt + 2 * m) S accE accR →
        Acc ε (kt + 2 * (m + nterms restE))
          (@walk F (Arith.ofField F) (fun i => |coef i|) restE btE pos S)
          (@walk F (Arith.ofField F) coef restE btE pos accE)
          (@walk F (Arith.rounded fl st) coef restR btR pos accR))
    (btE btR : F) (hbt : RelErr ε kb btE btR) (hbt0 : 0 ≤ btE) :
    ∀ (rowE rowR : List F) (pos : Int) (accE accR S : F) (m : Nat),
      List.Forall₂ (RelErr ε kr) rowE rowR → (∀ b ∈ rowE, 0 ≤ b) → Acc ε (kt + 2 * m) S accE accR →
      Acc ε (kt + 2 * (m + rowE.length * nterms restE))
        (@walkRow F (Arith.ofField F) (fun i => |coef i|) s restE btE rowE pos S)
        (@walkRow F (Arith.ofField F) coef s restE btE rowE pos accE)
        (@walkRow F (Arith.rounded fl st) coef s restR btR rowR pos accR) := by
  intro rowE
  induction rowE with
  | nil => intro rowR pos accE accR S m h _ hacc; cases h; simpa [walkRow] using hacc
  | cons b bs ihr =>
    intro rowR pos accE accR S m h hnn hacc
    cases h with
    | cons hb hbs =>
      rename_i bR bsR
      simp only [walkRow, of_smul, rd_smul]
      have hb0 : 0 ≤ b := hnn b (by simp)
      have hbt' : RelErr ε (kb + kr + 2) (btE * b) (st (fl (btR * bR))) :=
        RelErr.round hε hst (RelErr.round hε hfl (RelErr.mul hε hbt hb))
      have h1 := ih (btE * b) _ hbt' (mul_nonneg hbt0 hb0) pos accE accR S m hacc
      have := ihr bsR (pos + s) _ _ _ (m + nterms restE) hbs (fun c hc => hnn c (by simp [hc])) h1
      have e : m + nterms restE + bs.length * nterms restE = m + (b :: bs).length * nterms restE := by
        simp only [List.length_cons]; ring
      rw [e] at this
      exact this

theorem walk_err (kt kr : Nat) :
    ∀ (rowsE rowsR : List (Nat × List F)), RowsRel ε kr rowsE rowsR →
      ∀ (kb : Nat) (btE btR : F), RelErr ε kb btE btR → 0 ≤ btE → kb + rowsE.length * (kr + 2) + 2 ≤ kt →
      ∀ (pos : Int) (accE accR S : F) (m : Nat), Acc ε (kt + 2 * m) S accE accR →
        Acc ε (kt + 2 * (m + nterms rowsE))
          (@walk F (Arith.ofField F) (fun i => |coef i|) rowsE btE pos S)
          (@walk F (Arith.ofField F) coef rowsE btE pos accE)
          (@walk F (Arith.rounded fl st) coef rowsR btR pos accR) := by
  intro rowsE
  induction rowsE with
  | nil =>
    intro rowsR h kb btE btR _ _ _ pos accE accR S m hacc
    cases h
    simpa [walk, nterms] using hacc
  | cons rE restE ih =>
    intro rowsR h kb btE btR hbt hbt0 hk pos accE accR S m hacc
    cases h with
    | cons h1 hrest =>
      rename_i rR restR
      obtain ⟨sE, rowE⟩ := rE
      obtain ⟨sR, rowR⟩ := rR
      obtain ⟨hs, hrow, hnn⟩ := h1
      simp only at hs hrow hnn
      subst hs
      cases restE with
      | nil =>
        cases hrest
        simp only [walk, nterms]
        exact walkLast_err hε hfl hst coef kt kr kb btE btR hbt hbt0
          (by simp only [List.length_cons, List.length_nil] at hk; omega) rowE rowR pos accE accR S m hrow hnn hacc
      | cons r2 rest2 =>
        cases hrest with
        | cons h2 hrest2 =>
          rename_i r2R rest2R
          simp only [walk, nterms]
          exact walkRow_err hε hfl hst coef kt kr kb sE (r2 :: rest2) (r2R :: rest2R)
            (fun bE bR hb hb0 pos' aE aR S' m' ha =>
              ih (r2R :: rest2R) (List.Forall₂.cons h2 hrest2) (kb + kr + 2) bE bR hb hb0
                (by simp only [List.length_cons] at hk ⊢; nlinarith) pos' aE aR S' m' ha)
            btE btR hbt hbt0 rowE rowR pos accE accR S m hrow hnn hacc

end walk

end PsV
