import PsV.Model.Lifecycle
/-! Helper lemmas for C20: ledger algebra up to permutation, step programs, per-operation invariants. -/
namespace PsV.Lifecycle
open List

/-! ### ledger algebra -/

theorem applyEvs_nil (s : Led) : applyEvs s [] = s := rfl
theorem applyEvs_cons (s : Led) (e : Ev) (es : List Ev) : applyEvs s (e :: es) = applyEvs (applyEv s e) es := rfl
theorem applyEvs_append (s : Led) (xs ys : List Ev) : applyEvs s (xs ++ ys) = applyEvs (applyEvs s xs) ys := by
  simp [applyEvs, List.foldl_append]

/-- `Good L b R evs`: running `evs` on any ledger that is a permutation of `L` keeps `bad = b`
    and ends in a permutation of `R`. -/
def Good (b : Nat) (L : List Nat) (evs : List Ev) (R : List Nat) : Prop :=
  ∀ L', L'.Perm L → (applyEvs (L', b) evs).2 = b ∧ (applyEvs (L', b) evs).1.Perm R

theorem Good.nil {b L R} (h : L.Perm R) : Good b L [] R := fun L' h' => ⟨rfl, h'.trans h⟩

theorem Good.append {b L M R xs ys} (h1 : Good b L xs M) (h2 : Good b M ys R) : Good b L (xs ++ ys) R := by
  intro L' hL
  obtain ⟨hb, hp⟩ := h1 L' hL
  rw [applyEvs_append]
  have : applyEvs (L', b) xs = ((applyEvs (L', b) xs).1, b) := Prod.ext rfl hb
  rw [this]
  exact h2 _ hp

theorem Good.alloc {b L} (n : Nat) : Good b L [.a n] (n :: L) := by
  intro L' hL
  simp [applyEvs, applyEv, hL]

theorem Good.free {b L} (n : Nat) : Good b (n :: L) [.d n] L := by
  intro L' hL
  have hm : n ∈ L' := hL.symm.subset (by simp)
  simp only [applyEvs, List.foldl, applyEv, hm, if_true, true_and]
  have := hL.erase n
  simpa using this

theorem Good.perm_left {b L L2 evs R} (h : Good b L evs R) (p : L2.Perm L) : Good b L2 evs R :=
  fun L' hL => h L' (hL.trans p)
theorem Good.perm_right {b L evs R R2} (h : Good b L evs R) (p : R.Perm R2) : Good b L evs R2 :=
  fun L' hL => ⟨(h L' hL).1, (h L' hL).2.trans p⟩

theorem Good.allocs {b L} (as : List Nat) : Good b L (as.map .a) (as ++ L) := by
  induction as generalizing L with
  | nil => exact Good.nil (Perm.refl _)
  | cons x xs ih =>
    have h1 : Good b L [.a x] (x :: L) := Good.alloc x
    have h2 : Good b (x :: L) (xs.map .a) (xs ++ x :: L) := ih
    have := Good.append h1 h2
    refine (this.perm_right ?_)
    exact perm_middle

theorem Good.frees {b R} (fs : List Nat) : Good b (fs ++ R) (fs.map .d) R := by
  induction fs with
  | nil => exact Good.nil (Perm.refl _)
  | cons x xs ih =>
    have h1 : Good b (x :: (xs ++ R)) [.d x] (xs ++ R) := Good.free x
    exact Good.append h1 ih

/-- apply a `Good` run to a table -/
theorem Tab.apply_good {t : Tab} {evs R} (h : Good t.bad t.ledger evs R) :
    (t.apply evs).bad = t.bad ∧ (t.apply evs).ledger.Perm R := by
  have := h t.ledger (Perm.refl _)
  simpa [Tab.apply] using this

/-! ### step programs -/

/-- blocks a fully executed program keeps -/
def net : List Step → List Nat
  | [] => []
  | .a n :: r => n :: net r
  | .swap _ s :: r => s :: net r
  | .fail :: r => net r

theorem runSteps_good (b : Nat) : ∀ (steps : List Step) (cd : Option Nat) (live R : List Nat),
    Good b (live ++ R) (runSteps cd steps live).1 ((runSteps cd steps live).2.1 ++ R) ∧
    ((runSteps cd steps live).2.2.2 = true → (runSteps cd steps live).2.1 = live ++ net steps) := by
  intro steps
  induction steps with
  | nil => intro cd live R; simp [runSteps, net]; exact Good.nil (Perm.refl _)
  | cons s rest ih =>
    intro cd live R
    cases s with
    | fail => simp [runSteps]; exact Good.nil (Perm.refl _)
    | a n =>
      have key : ∀ cd', Good b (live ++ R) (.a n :: (runSteps cd' rest (live ++ [n])).1)
            ((runSteps cd' rest (live ++ [n])).2.1 ++ R) := by
        intro cd'
        have h1 : Good b (live ++ R) [.a n] (n :: (live ++ R)) := Good.alloc n
        have h2 := (ih cd' (live ++ [n]) R).1
        have h2' := h2.perm_left (L2 := n :: (live ++ R)) (by simpa using (perm_middle (l₁ := live) (l₂ := R) (a := n)).symm)
        exact Good.append h1 h2'
      have key2 : ∀ cd', (runSteps cd' rest (live ++ [n])).2.2.2 = true →
            (runSteps cd' rest (live ++ [n])).2.1 = live ++ net (.a n :: rest) := by
        intro cd' h; rw [(ih cd' (live ++ [n]) R).2 h]; simp [net]
      match cd with
      | none => simp only [runSteps]; exact ⟨key _, key2 _⟩
      | some 0 => simp [runSteps]; exact Good.nil (Perm.refl _)
      | some (k+1) => simp only [runSteps]; exact ⟨key _, key2 _⟩
    | swap raw st =>
      have key : ∀ cd', Good b (live ++ R) (.a raw :: .a st :: .d raw :: (runSteps cd' rest (live ++ [st])).1)
            ((runSteps cd' rest (live ++ [st])).2.1 ++ R) := by
        intro cd'
        have h1 : Good b (live ++ R) [.a raw] (raw :: (live ++ R)) := Good.alloc raw
        have h2 : Good b (raw :: (live ++ R)) [.a st] (st :: raw :: (live ++ R)) := Good.alloc st
        have h3 : Good b (st :: raw :: (live ++ R)) [.d raw] (st :: (live ++ R)) :=
          (Good.free (L := st :: (live ++ R)) raw).perm_left (Perm.swap _ _ _)
        have h4 := ((ih cd' (live ++ [st]) R).1).perm_left (L2 := st :: (live ++ R))
          (by simpa using (perm_middle (l₁ := live) (l₂ := R) (a := st)).symm)
        exact Good.append h1 (Good.append h2 (Good.append h3 h4))
      have key2 : ∀ cd', (runSteps cd' rest (live ++ [st])).2.2.2 = true →
            (runSteps cd' rest (live ++ [st])).2.1 = live ++ net (.swap raw st :: rest) := by
        intro cd' h; rw [(ih cd' (live ++ [st]) R).2 h]; simp [net]
      match cd with
      | none => simp only [runSteps]; exact ⟨key _, key2 _⟩
      | some 0 => simp [runSteps]; exact Good.nil (Perm.refl _)
      | some 1 =>
        simp [runSteps]
        exact Good.append (Good.alloc raw) (Good.free raw)
      | some (k+2) => simp only [runSteps]; exact ⟨key _, key2 _⟩


/-! ### invariants -/

@[simp] theorem Tab.apply_shape (t : Tab) (evs) : (t.apply evs).shape = t.shape := rfl
@[simp] theorem Tab.apply_blocks (t : Tab) (evs) : (t.apply evs).blocks = t.blocks := rfl

theorem Tab.OwnX.of_shape {t t' : Tab} (h : t.OwnX) (e : t'.shape = t.shape) : t'.OwnX := by
  simp only [Tab.shape, Prod.mk.injEq] at e
  obtain ⟨e1, e2, e3, e4, e5, e6, e7, e8⟩ := e
  exact ⟨by rw [e1, e3, e4, e5, e6, e2, e8]; exact h.empty, by rw [e1, e3, e2]; exact h.full,
         by rw [e6, e5]; exact h.auxArr, by rw [e7]; exact h.sound⟩

theorem Tab.noExt_of_shape {t t' : Tab} (e : t'.shape = t.shape) : t'.noExtents = t.noExtents := by
  simp only [Tab.shape, Prod.mk.injEq] at e
  exact e.2.2.2.2.2.2.2

theorem Tab.Inv.toInvX {t : Tab} (h : t.Inv) : t.InvX := ⟨h.toOwnX, h.toBalanced⟩
theorem Tab.InvX.toInv {t : Tab} (h : t.InvX) (hx : t.noExtents = false) : t.Inv := ⟨⟨h.toOwnX, hx⟩, h.toBalanced⟩

theorem invX_apply {t' : Tab} {evs : List Ev} {L R : List Nat} (hown : t'.OwnX) (hb : t'.bad = 0)
    (hL : t'.ledger.Perm L) (hg : Good 0 L evs R) (hR : R.Perm t'.blocks) : (t'.apply evs).InvX := by
  have hg' : Good t'.bad t'.ledger evs R := by rw [hb]; exact hg.perm_left hL
  obtain ⟨h1, h2⟩ := Tab.apply_good hg'
  exact { toOwnX := hown.of_shape (Tab.apply_shape _ _), ledger := h2.trans hR, bad := by rw [h1, hb] }

theorem Tab.InvX.blocks_nil {t : Tab} (h : t.InvX) (h0 : t.ndim = 0) : t.blocks = [] := by
  obtain ⟨c, p, a, x, _, _⟩ := h.empty h0
  simp [Tab.blocks, c, p, a, x, auxBlocks, auxEntryBlocks]

theorem Tab.InvX.ledger_nil {t : Tab} (h : t.InvX) (h0 : t.ndim = 0) : t.ledger = [] := by
  have := h.ledger
  rw [h.blocks_nil h0] at this
  simpa using this

theorem Tab.empty_inv : Tab.empty.Inv :=
  { empty := fun _ => ⟨rfl, rfl, rfl, rfl, rfl, rfl⟩, full := fun h => absurd rfl h, auxArr := fun h => absurd rfl h,
    sound := rfl, extents := rfl, ledger := Perm.refl _, bad := rfl }

theorem Tab.empty_invX : Tab.empty.InvX := Tab.empty_inv.toInvX

/-! ### net effect of the step programs -/

theorem net_append (xs ys : List Step) : net (xs ++ ys) = net xs ++ net ys := by
  induction xs with
  | nil => rfl
  | cons x xs ih => cases x <;> simp [net, ih]

theorem net_map_a (l : List Nat) : net (l.map .a) = l := by
  induction l with
  | nil => rfl
  | cons x xs ih => simp [net, ih]

/-- `read_fits_core` stores, for every aux value, the size it will later release it with — provided the
    value block has that size (C20-9) or the file contains no value whose two sizes differ. -/
theorem net_auxInSteps (c : Cfg) (aux : List AuxIn) (h : c.readAuxExact = true ∨ ∀ e ∈ aux, e.stored = e.raw) :
    net (auxInSteps c aux) = auxEntryBlocks (readAux aux) := by
  induction aux with
  | nil => rfl
  | cons e es ih =>
    have ih' := ih (h.imp id fun h' e' he' => h' e' (List.mem_cons_of_mem _ he'))
    simp only [auxInSteps, readAux, auxEntryBlocks, flatMap_cons, map_cons] at ih' ⊢
    rw [net_append, ih']
    rcases h with h | h
    · by_cases h2 : e.stored = e.raw <;> simp [h, net, h2]
    · have h2 := h e (List.mem_cons_self)
      by_cases h3 : c.readAuxExact = true <;> simp [h3, net, h2]

/-- a failure step obtains nothing -/
theorem net_failIf (p : Prop) [Decidable p] : net (failIf p) = [] := by
  unfold failIf; split <;> rfl

theorem net_knotSteps (fa fb : Option Nat) (dims : List Dim) : net (knotSteps fa fb dims) = knotBlocks dims := by
  unfold knotSteps knotBlocks
  generalize 0 = k
  induction dims generalizing k with
  | nil => rfl
  | cons d ds ih =>
    simp only [zipIdx_cons, flatMap_cons, map_cons, net_append, ih, net_failIf]
    simp [net]

theorem auxEntryBlocks_append (a b : List Aux) : auxEntryBlocks (a ++ b) = auxEntryBlocks a ++ auxEntryBlocks b := by
  simp [auxEntryBlocks]

macro "perm_count" : tactic =>
  `(tactic| (simp only [perm_iff_count]; intro x; simp only [count_append, count_cons, count_nil]; omega))

/-! ### programs that run to their end -/

/-- the program runs to its end under the countdown `cd` (no injected allocation failure hits it, no
    read / GLAM failure is part of it) -/
def Completes (cd : Option Nat) (steps : List Step) : Prop := (runSteps cd steps []).2.2.2 = true

theorem runSteps_none_ok : ∀ (steps : List Step) (live : List Nat), Step.fail ∉ steps →
    (runSteps none steps live).2.2.2 = true ∧ (runSteps none steps live).2.2.1 = none := by
  intro steps
  induction steps with
  | nil => intro live _; exact ⟨rfl, rfl⟩
  | cons s rest ih =>
    intro live h
    have hr : Step.fail ∉ rest := fun h' => h (List.mem_cons_of_mem _ h')
    cases s with
    | fail => exact absurd (List.mem_cons_self) h
    | a n => simpa [runSteps, dec] using ih (live ++ [n]) hr
    | swap raw st => simpa [runSteps, dec] using ih (live ++ [st]) hr

/-- without an injected allocation failure a program without a failure step runs to its end -/
theorem Completes.of_none {steps : List Step} (h : Step.fail ∉ steps) : Completes none steps :=
  (runSteps_none_ok steps [] h).1

theorem fail_not_mem_map_a (l : List Nat) : Step.fail ∉ l.map Step.a := by simp

/-- a program containing a failure step never runs to its end, wherever the injected allocation failure is -/
theorem runSteps_fail : ∀ (steps : List Step) (cd : Option Nat) (live : List Nat), Step.fail ∈ steps →
    (runSteps cd steps live).2.2.2 = false := by
  intro steps
  induction steps with
  | nil => intro _ _ h; exact absurd h (by simp)
  | cons s rest ih =>
    intro cd live h
    cases s with
    | fail => simp [runSteps]
    | a n =>
      have hr : Step.fail ∈ rest := by simpa using h
      match cd with
      | none => simpa [runSteps] using ih (dec none) (live ++ [n]) hr
      | some 0 => simp [runSteps]
      | some (k+1) => simpa [runSteps] using ih (dec (some (k+1))) (live ++ [n]) hr
    | swap raw st =>
      have hr : Step.fail ∈ rest := by simpa using h
      match cd with
      | none => simpa [runSteps] using ih (dec (dec none)) (live ++ [st]) hr
      | some 0 => simp [runSteps]
      | some 1 => simp [runSteps]
      | some (k+2) => simpa [runSteps] using ih (dec (dec (some (k+2)))) (live ++ [st]) hr

theorem not_completes_of_fail {steps : List Step} (h : Step.fail ∈ steps) (cd : Option Nat) : ¬ Completes cd steps := by
  unfold Completes; rw [runSteps_fail steps cd [] h]; simp

/-- the stages of `read_fits_core` after `ndim` is assigned at which a read can fail (`FileDesc.kind`), each with a
    position that exists in the file (`arg` names a dimension for the two per-knot-vector stages) -/
def FileDesc.failsLate (f : FileDesc) : Prop :=
  f.kind = 2 ∨ f.kind = 4 ∨ f.kind = 5 ∨ f.kind = 7 ∨ ((f.kind = 3 ∨ f.kind = 6) ∧ f.arg < f.dims.length)

instance (f : FileDesc) : Decidable f.failsLate := by unfold FileDesc.failsLate; infer_instance

theorem fail_mem_knotSteps (fa fb : Option Nat) (dims : List Dim) (i : Nat) (hi : i < dims.length)
    (h : fa = some i ∨ fb = some i) : Step.fail ∈ knotSteps fa fb dims := by
  unfold knotSteps
  have hm : (dims[i], i) ∈ dims.zipIdx := by
    rw [List.mem_zipIdx_iff_getElem?]; simp [hi]
  refine List.mem_flatMap.mpr ⟨(dims[i], i), hm, ?_⟩
  rcases h with h | h <;> simp [failIf, h]

/-- every late failing stage puts a failure step into the reader's program -/
theorem fail_mem_readSteps (c : Cfg) (f : FileDesc) (h : f.failsLate) : Step.fail ∈ readSteps c f := by
  unfold readSteps
  rcases h with h | h | h | h | ⟨h, hi⟩
  · simp [failIf, h]
  · simp [failIf, h]
  · simp [failIf, h]
  · simp [failIf, h]
  · have := fail_mem_knotSteps (if f.kind = 3 then some f.arg else none) (if f.kind = 6 then some f.arg else none) f.dims f.arg hi
      (by rcases h with h | h <;> simp [h])
    simp [this]

/-! ### building storage from the empty state (read, fit) -/

theorem build_spec {guard : Bool} {t target : Tab} {cd : Option Nat} {steps : List Step} {n : Nat}
    (h : t.InvX) (h0 : t.ndim = 0) (hl : target.ledger = t.ledger) (hb : target.bad = t.bad)
    (hown : target.OwnX) (hnet : (net steps).Perm target.blocks) (hg : guard = true ∨ Completes cd steps) :
    (build guard t cd steps target n).tab.InvX ∧
    (((build guard t cd steps target n).res = .ok ∧ (build guard t cd steps target n).tab.shape = target.shape) ∨
     ((build guard t cd steps target n).res = .threw ∧ (build guard t cd steps target n).tab.shape = t.shape)) := by
  have hnil := h.ledger_nil h0
  obtain ⟨hgd, hlive⟩ := runSteps_good 0 steps cd [] []
  simp only [build]
  split
  · rename_i hok
    refine ⟨?_, Or.inl ⟨rfl, rfl⟩⟩
    have hl' := hlive hok
    simp only [List.nil_append] at hl' hgd
    refine invX_apply (L := []) hown (by rw [hb, h.bad]) (by rw [hl, hnil]) hgd ?_
    rw [hl']; simpa using hnet
  · rename_i hno
    have hguard : guard = true := hg.resolve_right hno
    subst hguard
    refine ⟨?_, Or.inr ⟨by simp, by simp⟩⟩
    simp only [if_true]
    refine invX_apply (L := []) h.toOwnX h.bad (by rw [hnil]) ?_ (by rw [h.blocks_nil h0])
    simp only [List.nil_append, List.append_nil] at hgd
    have := Good.frees (b := 0) (R := []) (runSteps cd steps []).2.1
    simp only [List.append_nil] at this
    exact Good.append hgd this

/-- Outcome of a single-table call: the table is still destructible and leak-free (`InvX`), a throwing
    call left it unchanged or empty, the call had no undefined behaviour, and a table that has its
    `extents` keeps them. -/
structure Spec (t : Tab) (o : Out) : Prop where
  inv : o.tab.InvX
  threw : o.res = .threw → o.tab.shape = t.shape ∨ o.tab.isEmpty = true
  nocrash : o.res ≠ .crash
  ext : t.noExtents = false → o.tab.noExtents = false

theorem spec_unchanged {t : Tab} {cd : Option Nat} {r : Res} (h : t.InvX) (hr : r ≠ .crash) : Spec t ⟨t, cd, r, []⟩ :=
  ⟨h, fun _ => Or.inl rfl, hr, id⟩

/-- The circumstances under which `read_fits` keeps the invariant whatever the configuration: the C07 /
    C20-11 guard is in, or the read runs to its end; C20-9 is in, or no aux value changes size. -/
def ReadSafe (c : Cfg) (cd : Option Nat) (f : FileDesc) : Prop :=
  (c.readGuard = true ∨ Completes cd (readSteps c f)) ∧ (c.readAuxExact = true ∨ ∀ e ∈ f.aux, e.stored = e.raw)

theorem read_spec (c : Cfg) (t : Tab) (cd : Option Nat) (f : FileDesc) (h : t.InvX)
    (hs : t.ndim ≠ 0 ∨ ReadSafe c cd f) : Spec t (read c t cd f) := by
  unfold read
  split
  · exact spec_unchanged h (by decide)
  · rename_i h0
    have h0 : t.ndim = 0 := by simpa using h0
    obtain ⟨hs1, hs2⟩ := hs.resolve_left (by simp [h0])
    split
    · exact spec_unchanged h (by decide)
    · rename_i hk
      have hd : f.dims ≠ [] := fun e => hk (Or.inr e)
      obtain ⟨cc, p, a, x, d, ne⟩ := h.empty h0
      have hown : (readTarget f t).OwnX := by
        refine ⟨fun e => ?_, fun _ => ⟨rfl, rfl⟩, fun e => ?_, h.sound⟩
        · exact absurd (List.length_eq_zero_iff.mp e) hd
        · by_cases hk : f.hasKeys <;> simp_all [readTarget]
      have hnet : (net (readSteps c f)).Perm (readTarget f t).blocks := by
        simp only [readSteps, net_append, net_knotSteps, net_failIf, readTarget, Tab.blocks, fixedBlocks, auxBlocks, ne]
        by_cases hk : f.hasKeys <;>
          simp only [hk, if_true, if_false, net, net_append, net_auxInSteps c f.aux hs2, readAux, List.length_map, Bool.false_eq_true,
            auxEntryBlocks, List.flatMap_nil, List.length_nil] <;> perm_count
      obtain ⟨hi, hr⟩ := build_spec (cd := cd) (n := f.dims.length) h h0 (target := readTarget f t) rfl rfl hown hnet hs1
      refine ⟨hi, ?_, ?_, ?_⟩
      · intro ht
        rcases hr with ⟨hr, _⟩ | ⟨_, hsh⟩
        · simp [hr] at ht
        · exact Or.inl hsh
      · rcases hr with ⟨hr, _⟩ | ⟨hr, _⟩ <;> simp [hr]
      · intro hne
        rcases hr with ⟨_, hsh⟩ | ⟨_, hsh⟩
        · have := Tab.noExt_of_shape hsh; simpa [readTarget, hne] using this
        · have := Tab.noExt_of_shape hsh; simpa [hne] using this

/-- `fit`: C20-2 is in, or the table is empty, or the arguments are refused anyway; C20-3 is in, or the
    fit runs to its end (no allocation failure, GLAM succeeds). -/
def FitSafe (c : Cfg) (cd : Option Nat) (t : Tab) (a : FitArgs) : Prop :=
  (c.fitRefuse = true ∨ t.ndim = 0 ∨ a.valid = false ∨ a.dims = []) ∧ (c.fitGuard = true ∨ Completes cd (fitSteps a))

theorem fit_spec (c : Cfg) (t : Tab) (cd : Option Nat) (a : FitArgs) (h : t.InvX) (hs : FitSafe c cd t a) :
    Spec t (fit c t cd a) := by
  obtain ⟨hs1, hs2⟩ := hs
  unfold fit
  split
  · exact spec_unchanged h (by decide)
  · rename_i hr0
    split
    · exact spec_unchanged h (by decide)
    · rename_i hk
      have hd : a.dims ≠ [] := fun e => hk (Or.inr e)
      have hv : a.valid = true := by
        cases hv : a.valid
        · exact absurd (Or.inl (by simp [hv])) hk
        · rfl
      have h0 : t.ndim = 0 := by
        rcases hs1 with h1 | h1 | h1 | h1
        · by_cases h0 : t.ndim = 0
          · exact h0
          · exact absurd ⟨h1, h0⟩ hr0
        · exact h1
        · rw [hv] at h1; cases h1
        · exact absurd h1 hd
      rw [if_neg (by simp [h0])]
      obtain ⟨cc, p, x, y, d, ne⟩ := h.empty h0
      have hown : (fitTarget a t).OwnX := by
        refine ⟨fun e => ?_, fun _ => ⟨rfl, rfl⟩, fun e => ?_, h.sound⟩
        · exact absurd (List.length_eq_zero_iff.mp e) hd
        · simp_all [fitTarget]
      have hnet : (net (fitSteps a)).Perm (fitTarget a t).blocks := by
        simp only [fitSteps, net_append, net_map_a, fitTarget, Tab.blocks, p, x, y, ne, auxBlocks, auxEntryBlocks]
        by_cases hg : a.glamOk <;> simp [hg, net]
      obtain ⟨hi, hr⟩ := build_spec (cd := cd) (n := a.dims.length) h h0 (target := fitTarget a t) rfl rfl hown hnet hs2
      refine ⟨hi, ?_, ?_, ?_⟩
      · intro ht
        rcases hr with ⟨hr, _⟩ | ⟨_, hsh⟩
        · simp [hr] at ht
        · exact Or.inl hsh
      · rcases hr with ⟨hr, _⟩ | ⟨hr, _⟩ <;> simp [hr]
      · intro hne
        rcases hr with ⟨_, hsh⟩ | ⟨_, hsh⟩
        · have := Tab.noExt_of_shape hsh; simpa [fitTarget, hne] using this
        · have := Tab.noExt_of_shape hsh; simpa [hne] using this


theorem findIdx_some {aux : List Aux} {id i : Nat} (h : findIdx aux id = some i) :
    ∃ pre e post, aux = pre ++ e :: post ∧ pre.length = i ∧ aux.getD i ⟨0, 0, 0⟩ = e := by
  unfold findIdx at h
  dsimp only at h
  split at h
  · rename_i hlt
    simp only [Option.some.injEq] at h
    subst h
    refine ⟨aux.take (aux.findIdx (·.id == id)), aux[aux.findIdx (·.id == id)], aux.drop (aux.findIdx (·.id == id) + 1), ?_, ?_, ?_⟩
    · simp
    · simp [List.length_take, Nat.min_eq_left (Nat.le_of_lt hlt)]
    · simp [List.getD_eq_getElem?_getD, hlt]
  · simp at h

/-- run a program on top of what the table holds, then release `fs`: the pattern of the key edits -/
theorem run_frees_inv {t t' : Tab} {cd : Option Nat} {steps : List Step} {fs : List Nat}
    (h : t.InvX) (hl : t'.ledger = t.ledger) (hb : t'.bad = t.bad) (hown : t'.OwnX)
    (hok : (runSteps cd steps []).2.2.2 = true)
    (hperm : (net steps ++ t.blocks).Perm (fs ++ t'.blocks)) :
    (t'.apply ((runSteps cd steps []).1 ++ fs.map .d)).InvX := by
  obtain ⟨hg, hlive⟩ := runSteps_good 0 steps cd [] t.blocks
  have hl' := hlive hok
  simp only [List.nil_append] at hl' hg
  rw [hl'] at hg
  refine invX_apply (L := t.blocks) (R := t'.blocks) hown (by rw [hb, h.bad]) (by rw [hl]; exact h.ledger) ?_ (Perm.refl _)
  exact Good.append (hg.perm_right hperm) (Good.frees fs)

/-- the other order (unrepaired `remove_key`): release `fs` first, then run a program to its end -/
theorem frees_run_inv {t t' : Tab} {cd : Option Nat} {steps : List Step} {fs : List Nat}
    (h : t.InvX) (hl : t'.ledger = t.ledger) (hb : t'.bad = t.bad) (hown : t'.OwnX)
    (hok : (runSteps cd steps []).2.2.2 = true) {rest : List Nat}
    (hsplit : t.blocks.Perm (fs ++ rest)) (hperm : (net steps ++ rest).Perm t'.blocks) :
    (t'.apply (fs.map .d ++ (runSteps cd steps []).1)).InvX := by
  obtain ⟨hg, hlive⟩ := runSteps_good 0 steps cd [] rest
  have hl' := hlive hok
  simp only [List.nil_append] at hl' hg
  rw [hl'] at hg
  refine invX_apply (L := fs ++ rest) (R := t'.blocks) hown (by rw [hb, h.bad]) (by rw [hl]; exact h.ledger.trans hsplit) ?_ (Perm.refl _)
  exact Good.append (Good.frees fs) (hg.perm_right hperm)

theorem run_fail_inv {t : Tab} {cd : Option Nat} {steps : List Step} (h : t.InvX) :
    (t.apply ((runSteps cd steps []).1 ++ (runSteps cd steps []).2.1.map .d)).InvX := by
  obtain ⟨hg, _⟩ := runSteps_good 0 steps cd [] t.blocks
  simp only [List.nil_append] at hg
  exact invX_apply (L := t.blocks) (R := t.blocks) h.toOwnX h.bad h.ledger (Good.append hg (Good.frees _)) (Perm.refl _)

/-- `write_key`: C20-1 is in, or the table is not empty, or the key / value is refused anyway -/
def WriteKeySafe (c : Cfg) (t : Tab) (a : KeyArg) : Prop := c.writeKeyRefuse = true ∨ t.ndim ≠ 0 ∨ a.kind ≠ 0

theorem writeKey_spec (c : Cfg) (t : Tab) (cd : Option Nat) (a : KeyArg) (h : t.InvX) (hs : WriteKeySafe c t a) :
    Spec t (writeKey c t cd a) := by
  unfold writeKey
  split
  · exact spec_unchanged h (by decide)
  · rename_i hr0
    split
    · exact spec_unchanged h (by decide)
    · rename_i hk
      have h0 : t.ndim ≠ 0 := by
        rcases hs with h1 | h1 | h1
        · intro e; exact hr0 ⟨h1, e⟩
        · exact h1
        · exact absurd h1 hk
      split
      · rename_i i hi
        obtain ⟨pre, e, post, hsplit, hlen, hget⟩ := findIdx_some hi
        dsimp only
        by_cases hok : (runSteps cd [Step.a a.v] []).2.2.2 = true
        · rw [if_pos hok]
          refine ⟨?_, by simp, by simp, fun hne => by simpa [Tab.apply] using hne⟩
          have hev : [Ev.a a.v, Ev.d (t.aux.getD i ⟨0, 0, 0⟩).v] = (runSteps cd [.a a.v] []).1 ++ [(t.aux.getD i ⟨0, 0, 0⟩).v].map .d := by
            cases cd with
            | none => simp [runSteps, dec]
            | some k => cases k <;> simp_all [runSteps, dec]
          rw [hev]
          refine run_frees_inv h rfl rfl ?_ hok ?_
          · refine ⟨fun e => absurd e h0, fun _ => h.full h0, fun _ => ?_, h.sound⟩
            exact h.auxArr (by rw [hsplit]; simp)
          · obtain ⟨ndim, dims, core, periods, auxArr, aux, ledger, bad, broken, noExt⟩ := t
            simp only at hsplit hget
            subst hsplit hlen
            simp only [hget]
            simp only [Tab.blocks, auxBlocks, auxEntryBlocks, net, Std.le_refl, set_append_right, Nat.sub_self, set_cons_zero,
              List.flatMap_append, List.flatMap_cons, List.length_append, List.length_cons]
            perm_count
        · rw [if_neg hok]; exact ⟨h, fun _ => Or.inl rfl, by simp, id⟩
      · rename_i hnone
        dsimp only
        by_cases hok : (runSteps cd [Step.a (8 * (t.aux.length + 1)), Step.a 16, Step.a a.k, Step.a a.v] []).2.2.2 = true
        · rw [if_pos hok]
          refine ⟨?_, by simp, by simp, fun hne => by simpa [Tab.apply] using hne⟩
          have hfs : (if t.auxArr = true then [Ev.d (8 * t.aux.length)] else []) = (if t.auxArr = true then [8 * t.aux.length] else []).map .d := by
            split <;> rfl
          rw [hfs]
          refine run_frees_inv h rfl rfl ?_ hok ?_
          · exact ⟨fun e => absurd e h0, fun _ => h.full h0, fun _ => rfl, h.sound⟩
          · obtain ⟨ndim, dims, core, periods, auxArr, aux, ledger, bad, broken, noExt⟩ := t
            cases auxArr <;>
            simp only [Tab.blocks, auxBlocks, auxEntryBlocks, net, List.flatMap_append, List.flatMap_cons, List.flatMap_nil,
              List.length_append, List.length_cons, List.length_nil, if_true, if_false, Bool.false_eq_true, Nat.zero_add] <;> perm_count
        · rw [if_neg hok]; exact ⟨run_fail_inv h, fun _ => Or.inl rfl, by simp, fun hne => by simpa [Tab.apply] using hne⟩

/-- `remove_key`: C20-6 is in, or the key is not there, or the smaller array is obtained -/
def RemoveKeySafe (c : Cfg) (cd : Option Nat) (t : Tab) (id : Nat) : Prop :=
  c.removeKeyFirst = true ∨ findIdx t.aux id = none ∨ Completes cd [.a (8 * (t.aux.length - 1))]

theorem removeKey_spec (c : Cfg) (t : Tab) (cd : Option Nat) (id : Nat) (h : t.InvX) (hs : RemoveKeySafe c cd t id) :
    Spec t (removeKey c t cd id) := by
  unfold removeKey
  split
  · exact spec_unchanged h (by decide)
  · rename_i i hi
    obtain ⟨pre, e, post, hsplit, hlen, hget⟩ := findIdx_some hi
    have hne : t.aux ≠ [] := by rw [hsplit]; simp
    have harr := h.auxArr hne
    have hnd : t.ndim ≠ 0 := fun e0 => hne (h.empty e0).2.2.2.1
    have hfs : [Ev.d (t.aux.getD i ⟨0, 0, 0⟩).k, Ev.d (t.aux.getD i ⟨0, 0, 0⟩).v, Ev.d 16, Ev.d (8 * t.aux.length)] =
        [(t.aux.getD i ⟨0, 0, 0⟩).k, (t.aux.getD i ⟨0, 0, 0⟩).v, 16, 8 * t.aux.length].map .d := rfl
    dsimp only
    by_cases hfirst : c.removeKeyFirst = true
    · rw [if_pos hfirst]
      by_cases hok : (runSteps cd [Step.a (8 * (t.aux.length - 1))] []).2.2.2 = true
      · rw [if_pos hok]
        refine ⟨?_, by simp, by simp, fun hx => by simpa [Tab.apply] using hx⟩
        rw [hfs]
        refine run_frees_inv h rfl rfl ?_ hok ?_
        · exact ⟨fun e => absurd e hnd, fun _ => h.full hnd, fun _ => harr, h.sound⟩
        · obtain ⟨ndim, dims, core, periods, auxArr, aux, ledger, bad, broken, noExt⟩ := t
          simp only at hsplit hget harr
          subst hsplit harr hlen
          simp only [hget]
          simp only [Tab.blocks, auxBlocks, auxEntryBlocks, net, List.eraseIdx_append_of_length_le (Nat.le_refl _),
            Nat.sub_self, List.eraseIdx_cons_zero,
            List.flatMap_append, List.flatMap_cons, List.length_append, List.length_cons, if_true]
          have : pre.length + (post.length + 1) - 1 = pre.length + post.length := by omega
          rw [this]
          perm_count
      · rw [if_neg hok]; exact ⟨h, fun _ => Or.inl rfl, by simp, fun hx => hx⟩
    · rw [if_neg hfirst]
      have hok : (runSteps cd [Step.a (8 * (t.aux.length - 1))] []).2.2.2 = true := by
        rcases hs with h1 | h1 | h1
        · exact absurd h1 hfirst
        · rw [hi] at h1; cases h1
        · exact h1
      simp only [hok, Bool.not_true, if_true]
      refine ⟨?_, by simp, by simp, fun hx => by simpa [Tab.apply] using hx⟩
      rw [hfs]
      -- the table after the call, before the events are applied to its ledger
      have key := frees_run_inv (t := t) (t' := { t with aux := t.aux.eraseIdx i, broken := false, auxArr := true })
        (cd := cd) (steps := [Step.a (8 * (t.aux.length - 1))])
        (fs := [(t.aux.getD i ⟨0, 0, 0⟩).k, (t.aux.getD i ⟨0, 0, 0⟩).v, 16, 8 * t.aux.length])
        (rest := (if t.core then (if t.noExtents then fixedBlocksNoExt t.ndim t.dims else fixedBlocks t.ndim t.dims) ++ knotBlocks t.dims else []) ++
          (if t.periods then [8 * t.ndim] else []) ++ auxEntryBlocks (t.aux.eraseIdx i))
        h rfl rfl ⟨fun e => absurd e hnd, fun _ => h.full hnd, fun _ => rfl, rfl⟩ hok ?_ ?_
      · have e : ({ ({ t with aux := t.aux.eraseIdx i, broken := false } : Tab).apply
            ([(t.aux.getD i ⟨0, 0, 0⟩).k, (t.aux.getD i ⟨0, 0, 0⟩).v, 16, 8 * t.aux.length].map Ev.d ++
              (runSteps cd [Step.a (8 * (t.aux.length - 1))] []).1) with auxArr := true } : Tab) =
            ({ t with aux := t.aux.eraseIdx i, broken := false, auxArr := true } : Tab).apply
            ([(t.aux.getD i ⟨0, 0, 0⟩).k, (t.aux.getD i ⟨0, 0, 0⟩).v, 16, 8 * t.aux.length].map Ev.d ++
              (runSteps cd [Step.a (8 * (t.aux.length - 1))] []).1) := rfl
        rw [e]; exact key
      · obtain ⟨ndim, dims, core, periods, auxArr, aux, ledger, bad, broken, noExt⟩ := t
        simp only at hsplit hget harr
        subst hsplit harr hlen
        simp only [hget]
        simp only [Tab.blocks, auxBlocks, auxEntryBlocks, List.eraseIdx_append_of_length_le (Nat.le_refl _),
          Nat.sub_self, List.eraseIdx_cons_zero,
          List.flatMap_append, List.flatMap_cons, List.length_append, List.length_cons, if_true]
        perm_count
      · obtain ⟨ndim, dims, core, periods, auxArr, aux, ledger, bad, broken, noExt⟩ := t
        simp only at hsplit hget harr
        subst hsplit harr hlen
        simp only [Tab.blocks, auxBlocks, auxEntryBlocks, net, List.eraseIdx_append_of_length_le (Nat.le_refl _),
          Nat.sub_self, List.eraseIdx_cons_zero,
          List.flatMap_append, List.flatMap_cons, List.length_append, List.length_cons, if_true]
        have : pre.length + (post.length + 1) - 1 = pre.length + post.length := by omega
        rw [this]
        perm_count


theorem convDims_length (dims : List Dim) (dim nk : Nat) : (convDims dims dim nk).length = dims.length := by
  simp [convDims]

/-- `convolve`: C20-5 is in, or the arguments are in range; the table has its `extents`, or the
    arguments are refused before they are read; C20-4 is in, or the replacement arrays are obtained. -/
def ConvSafe (c : Cfg) (cd : Option Nat) (t : Tab) (dim nk : Nat) : Prop :=
  (c.convCheck = true ∨ (dim < t.ndim ∧ nk ≠ 0)) ∧ (t.noExtents = false ∨ t.ndim ≤ dim ∨ nk = 0) ∧
  (c.convGuard = true ∨ Completes cd (convSteps t dim nk))

theorem convolve_spec (c : Cfg) (t : Tab) (cd : Option Nat) (dim nk : Nat) (h : t.InvX) (hs : ConvSafe c cd t dim nk) :
    Spec t (convolve c t cd dim nk) := by
  obtain ⟨hs1, hs2, hs3⟩ := hs
  unfold convolve
  split
  · rename_i hbad
    have : c.convCheck = true := hs1.resolve_right (by omega)
    simp only [this, if_true]
    exact spec_unchanged h (by decide)
  · rename_i hd
    have hne : t.noExtents = false := by
      rcases hs2 with h1 | h1 | h1
      · exact h1
      · exact absurd (Or.inl h1) hd
      · exact absurd (Or.inr h1) hd
    have hnd : t.ndim ≠ 0 := by omega
    obtain ⟨hcore, hlen⟩ := h.full hnd
    rw [if_neg (show ¬ (t.noExtents = true) by rw [hne]; decide)]
    dsimp only
    obtain ⟨hg, hlive⟩ := runSteps_good 0 (convSteps t dim nk) cd []
      ([8 * t.ndim, 8 * t.ndim, 4 * t.ndim, 16 * t.ndim, 8 * t.ndim] ++
        (if t.periods then [8 * t.ndim] else []) ++ [8 * t.ndim, 8 * t.ndim] ++
        auxEntryBlocks t.aux ++ (if t.auxArr then [8 * t.aux.length] else []))
    simp only [List.nil_append] at hg hlive
    have hfree : Good 0 t.blocks ((4 * ncoef t.dims :: knotBlocks t.dims).map Ev.d)
        ([8 * t.ndim, 8 * t.ndim, 4 * t.ndim, 16 * t.ndim, 8 * t.ndim] ++
        (if t.periods then [8 * t.ndim] else []) ++ [8 * t.ndim, 8 * t.ndim] ++
        auxEntryBlocks t.aux ++ (if t.auxArr then [8 * t.aux.length] else [])) := by
      refine (Good.frees (4 * ncoef t.dims :: knotBlocks t.dims)).perm_left ?_
      simp only [Tab.blocks, hcore, hne, if_true, fixedBlocks, auxBlocks, Bool.false_eq_true, if_false]
      cases t.periods <;> cases t.auxArr <;> simp only [if_true, if_false, Bool.false_eq_true] <;> perm_count
    have hsucc : (runSteps cd (convSteps t dim nk) []).2.2.2 = true →
        (({ t with dims := convDims t.dims dim nk } : Tab).apply
          ((4 * ncoef t.dims :: knotBlocks t.dims).map Ev.d ++ (runSteps cd (convSteps t dim nk) []).1)).InvX := by
      intro hok
      refine invX_apply (t' := { t with dims := convDims t.dims dim nk }) (L := t.blocks) ?_ h.bad h.ledger (Good.append hfree hg) ?_
      · exact ⟨fun e => absurd e hnd, fun _ => ⟨hcore, by rw [convDims_length]; exact hlen⟩, h.auxArr, h.sound⟩
      · rw [hlive hok, convSteps, net_map_a]
        simp only [Tab.blocks, hcore, hne, if_true, fixedBlocks, auxBlocks, Bool.false_eq_true, if_false]
        cases t.periods <;> cases t.auxArr <;> simp only [if_true, if_false, Bool.false_eq_true] <;> perm_count
    by_cases hok : (runSteps cd (convSteps t dim nk) []).2.2.2 = true
    · rw [if_pos hok]
      exact ⟨hsucc hok, by simp, by simp, fun _ => by simpa [Tab.apply] using hne⟩
    · rw [if_neg hok]
      have hguard : c.convGuard = true := hs3.resolve_right hok
      simp only [hguard, if_true]
      refine ⟨?_, fun _ => Or.inr ?_, by simp, fun hx => by simpa [Tab.apply] using hx⟩
      · refine invX_apply (t' := { t with ndim := 0, dims := [], core := false, periods := false, auxArr := false, aux := [] })
          (L := t.blocks) (R := []) ?_ h.bad h.ledger ?_ ?_
        · exact ⟨fun _ => ⟨rfl, rfl, rfl, rfl, rfl, hne⟩, fun e => absurd rfl e, fun e => absurd rfl e, h.sound⟩
        · rw [List.append_assoc]
          refine Good.append hfree (Good.append hg ?_)
          have := Good.frees (b := 0) (R := []) ((runSteps cd (convSteps t dim nk) []).2.1 ++
            ([8 * t.ndim, 8 * t.ndim, 4 * t.ndim, 16 * t.ndim, 8 * t.ndim] ++
            (if t.periods then [8 * t.ndim] else []) ++ [8 * t.ndim, 8 * t.ndim] ++
            auxEntryBlocks t.aux ++ (if t.auxArr then [8 * t.aux.length] else [])))
          simpa using this
        · simp [Tab.blocks, auxBlocks, auxEntryBlocks]
      · simp [Tab.apply, Tab.isEmpty, h.sound, hne]

theorem map_getD_range {α} (l : List α) (d : α) : (List.range l.length).map (fun j => l.getD j d) = l := by
  apply List.ext_getElem
  · simp
  · intro i h1 h2
    simp at h1
    simp [h1]

theorem ncoef_perm {a b : List Dim} (p : a.Perm b) : ncoef a = ncoef b := by
  unfold ncoef
  exact (p.map _).foldr_eq' (fun x _ y _ z => by rw [Nat.mul_left_comm]) 1

/-- `permuteDimensions`: C20-8 is in, or the table is not empty, or the permutation is refused; the
    table has its `extents`, or the permutation is refused before they are read. -/
def PermSafe (c : Cfg) (t : Tab) (p : List Nat) : Prop :=
  (c.permuteEmpty = true ∨ t.ndim ≠ 0 ∨ p.isPerm (List.range t.ndim) = false) ∧
  (t.noExtents = false ∨ p.isPerm (List.range t.ndim) = false)

theorem permute_spec (c : Cfg) (t : Tab) (cd : Option Nat) (p : List Nat) (h : t.InvX) (hs : PermSafe c t p) :
    Spec t (permute c t cd p) := by
  obtain ⟨hs1, hs2⟩ := hs
  unfold permute
  split
  · exact spec_unchanged h (by decide)
  · rename_i hp
    have hpb : p.isPerm (List.range t.ndim) = true := by simpa using hp
    have hp : p.Perm (List.range t.ndim) := by simpa [List.isPerm_iff] using hp
    have hne : t.noExtents = false := hs2.resolve_right (by simp [hpb])
    split
    · rename_i h0
      have : c.permuteEmpty = true := by
        rcases hs1 with h1 | h1 | h1
        · exact h1
        · exact absurd h0 h1
        · rw [hpb] at h1; cases h1
      simp only [this, if_true]
      exact spec_unchanged h (by decide)
    · rename_i hnd
      obtain ⟨hcore, hlen⟩ := h.full hnd
      rw [if_neg (show ¬ (t.noExtents = true) by rw [hne]; decide)]
      have hd : (p.map fun j => t.dims.getD j ⟨0, 0, 0⟩).Perm t.dims := by
        have := hp.map (fun j => t.dims.getD j ⟨0, 0, 0⟩)
        rw [← hlen, map_getD_range] at this
        exact this
      refine ⟨?_, by simp, by simp, fun _ => hne⟩
      refine { empty := fun e => absurd e hnd, full := fun _ => ⟨hcore, ?_⟩, auxArr := h.auxArr, sound := h.sound, ledger := ?_, bad := h.bad }
      · simp [hp.length_eq]
      · refine h.ledger.trans ?_
        simp only [Tab.blocks, hcore, hne, if_true, fixedBlocks, ncoef_perm hd, Bool.false_eq_true, if_false]
        have hk : (knotBlocks (p.map fun j => t.dims.getD j ⟨0, 0, 0⟩)).Perm (knotBlocks t.dims) := hd.map _
        exact ((Perm.refl _).append hk.symm).append_right _ |>.append_right _

theorem getKey_spec (t : Tab) (cd : Option Nat) (id : Nat) (h : t.InvX) : Spec t (getKey t cd id) :=
  ⟨h, fun _ => Or.inl rfl, by simp only [getKey]; split <;> simp, fun hx => hx⟩

theorem writeFits_spec (t : Tab) (cd : Option Nat) (ioOk : Bool) (h : t.InvX) : Spec t (writeFits t cd ioOk) :=
  ⟨h, fun _ => Or.inl rfl, by simp only [writeFits]; split <;> simp, fun hx => hx⟩

/-- the destructor returns everything, exactly once — also for a table without `extents` -/
theorem destroy_spec (t : Tab) (h : t.InvX) : (destroy t).1.ledger = [] ∧ (destroy t).1.bad = 0 := by
  unfold destroy
  rw [if_neg (by simp [h.sound])]
  split
  · rename_i h0; exact ⟨h.ledger_nil h0, h.bad⟩
  · rename_i hnd
    obtain ⟨hcore, hlen⟩ := h.full hnd
    dsimp only
    have hg := Good.frees (b := 0) (R := []) (knotBlocks t.dims ++ [8 * t.ndim, 8 * t.ndim, 4 * t.ndim] ++ extBlocks t.noExtents t.ndim ++
      (if t.periods then [8 * t.ndim] else []) ++ [4 * ncoef t.dims, 8 * t.ndim, 8 * t.ndim] ++
      auxEntryBlocks t.aux ++ (if t.auxArr then [8 * t.aux.length] else []))
    have hg' := hg.perm_left (L2 := t.ledger) (h.ledger.trans (by
      simp only [Tab.blocks, hcore, if_true, fixedBlocks, fixedBlocksNoExt, extBlocks, auxBlocks, List.append_nil]
      cases t.periods <;> cases t.auxArr <;> cases t.noExtents <;> simp only [if_true, if_false, Bool.false_eq_true] <;> perm_count))
    rw [← h.bad] at hg'
    obtain ⟨h1, h2⟩ := Tab.apply_good hg'
    exact ⟨by simpa using h2, by rw [h1, h.bad]⟩

end PsV.Lifecycle
