import PsV.Model.Lifecycle
/-! Helper lemmas for C20: ledger algebra up to permutation, step programs, per-operation invariants. -/
namespace PsV.Lifecycle
open List

/-! ### ledger algebra -/

theorem applyEvs_nil (s : Led) : applyEvs s [] = s := rfl
theorem applyEvs_cons (s : Led) (e : Ev) (es : List Ev) : applyEvs s (e :: es) = applyEvs (applyEv s e) es := rfl
theorem applyEvs_append (s : Led) (xs ys : List Ev) : applyEvs s (xs ++ ys) = applyEvs (applyEvs s xs) ys := by
  simp [applyEvs, List.foldl_append]

/-- `Good L b R evs`: running `evs` on any ledger that is a permutation of `L` keeps `bad = b`
    and ends in a permutation of `R`. -/
def Good (b : Nat) (L : List Nat) (evs : List Ev) (R : List Nat) : Prop :=
  ∀ L', L'.Perm L → (applyEvs (L', b) evs).2 = b ∧ (applyEvs (L', b) evs).1.Perm R

theorem Good.nil {b L R} (h : L.Perm R) : Good b L [] R := fun L' h' => ⟨rfl, h'.trans h⟩

theorem Good.append {b L M R xs ys} (h1 : Good b L xs M) (h2 : Good b M ys R) : Good b L (xs ++ ys) R := by
  intro L' hL
  obtain ⟨hb, hp⟩ := h1 L' hL
  rw [applyEvs_append]
  have : applyEvs (L', b) xs = ((applyEvs (L', b) xs).1, b) := Prod.ext rfl hb
  rw [this]
  exact h2 _ hp

theorem Good.alloc {b L} (n : Nat) : Good b L [.a n] (n :: L) := by
  intro L' hL
  simp [applyEvs, applyEv, hL]

theorem Good.free {b L} (n : Nat) : Good b (n :: L) [.d n] L := by
  intro L' hL
  have hm : n ∈ L' := hL.symm.subset (by simp)
  simp only [applyEvs, List.foldl, applyEv, hm, if_true, true_and]
  have := hL.erase n
  simpa using this

theorem Good.perm_left {b L L2 evs R} (h : Good b L evs R) (p : L2.Perm L) : Good b L2 evs R :=
  fun L' hL => h L' (hL.trans p)
theorem Good.perm_right {b L evs R R2} (h : Good b L evs R) (p : R.Perm R2) : Good b L evs R2 :=
  fun L' hL => ⟨(h L' hL).1, (h L' hL).2.trans p⟩

theorem Good.allocs {b L} (as : List Nat) : Good b L (as.map .a) (as ++ L) := by
  induction as generalizing L with
  | nil => exact Good.nil (Perm.refl _)
  | cons x xs ih =>
    have h1 : Good b L [.a x] (x :: L) := Good.alloc x
    have h2 : Good b (x :: L) (xs.map .a) (xs ++ x :: L) := ih
    have := Good.append h1 h2
    refine (this.perm_right ?_)
    exact perm_middle

theorem Good.frees {b R} (fs : List Nat) : Good b (fs ++ R) (fs.map .d) R := by
  induction fs with
  | nil => exact Good.nil (Perm.refl _)
  | cons x xs ih =>
    have h1 : Good b (x :: (xs ++ R)) [.d x] (xs ++ R) := Good.free x
    exact Good.append h1 ih

/-- apply a `Good` run to a table -/
theorem Tab.apply_good {t : Tab} {evs R} (h : Good t.bad t.ledger evs R) :
    (t.apply evs).bad = t.bad ∧ (t.apply evs).ledger.Perm R := by
  have := h t.ledger (Perm.refl _)
  simpa [Tab.apply] using this

/-! ### step programs -/

/-- blocks a fully executed program keeps -/
def net : List Step → List Nat
  | [] => []
  | .a n :: r => n :: net r
  | .swap _ s :: r => s :: net r
  | .fail :: r => net r

theorem runSteps_good (b : Nat) : ∀ (steps : List Step) (cd : Option Nat) (live R : List Nat),
    Good b (live ++ R) (runSteps cd steps live).1 ((runSteps cd steps live).2.1 ++ R) ∧
    ((runSteps cd steps live).2.2.2 = true → (runSteps cd steps live).2.1 = live ++ net steps) := by
  intro steps
  induction steps with
  | nil => intro cd live R; simp [runSteps, net]; exact Good.nil (Perm.refl _)
  | cons s rest ih =>
    intro cd live R
    cases s with
    | fail => simp [runSteps]; exact Good.nil (Perm.refl _)
    | a n =>
      have key : ∀ cd', Good b (live ++ R) (.a n :: (runSteps cd' rest (live ++ [n])).1)
            ((runSteps cd' rest (live ++ [n])).2.1 ++ R) := by
        intro cd'
        have h1 : Good b (live ++ R) [.a n] (n :: (live ++ R)) := Good.alloc n
        have h2 := (ih cd' (live ++ [n]) R).1
        have h2' := h2.perm_left (L2 := n :: (live ++ R)) (by simpa using (perm_middle (l₁ := live) (l₂ := R) (a := n)).symm)
        exact Good.append h1 h2'
      have key2 : ∀ cd', (runSteps cd' rest (live ++ [n])).2.2.2 = true →
            (runSteps cd' rest (live ++ [n])).2.1 = live ++ net (.a n :: rest) := by
        intro cd' h; rw [(ih cd' (live ++ [n]) R).2 h]; simp [net]
      match cd with
      | none => simp only [runSteps]; exact ⟨key _, key2 _⟩
      | some 0 => simp [runSteps]; exact Good.nil (Perm.refl _)
      | some (k+1) => simp only [runSteps]; exact ⟨key _, key2 _⟩
    | swap raw st =>
      have key : ∀ cd', Good b (live ++ R) (.a raw :: .a st :: .d raw :: (runSteps cd' rest (live ++ [st])).1)
            ((runSteps cd' rest (live ++ [st])).2.1 ++ R) := by
        intro cd'
        have h1 : Good b (live ++ R) [.a raw] (raw :: (live ++ R)) := Good.alloc raw
        have h2 : Good b (raw :: (live ++ R)) [.a st] (st :: raw :: (live ++ R)) := Good.alloc st
        have h3 : Good b (st :: raw :: (live ++ R)) [.d raw] (st :: (live ++ R)) :=
          (Good.free (L := st :: (live ++ R)) raw).perm_left (Perm.swap _ _ _)
        have h4 := ((ih cd' (live ++ [st]) R).1).perm_left (L2 := st :: (live ++ R))
          (by simpa using (perm_middle (l₁ := live) (l₂ := R) (a := st)).symm)
        exact Good.append h1 (Good.append h2 (Good.append h3 h4))
      have key2 : ∀ cd', (runSteps cd' rest (live ++ [st])).2.2.2 = true →
            (runSteps cd' rest (live ++ [st])).2.1 = live ++ net (.swap raw st :: rest) := by
        intro cd' h; rw [(ih cd' (live ++ [st]) R).2 h]; simp [net]
      match cd with
      | none => simp only [runSteps]; exact ⟨key _, key2 _⟩
      | some 0 => simp [runSteps]; exact Good.nil (Perm.refl _)
      | some 1 =>
        simp [runSteps]
        exact Good.append (Good.alloc raw) (Good.free raw)
      | some (k+2) => simp only [runSteps]; exact ⟨key _, key2 _⟩


/-! ### invariants -/

@[simp] theorem Tab.apply_shape (t : Tab) (evs) : (t.apply evs).shape = t.shape := rfl
@[simp] theorem Tab.apply_blocks (t : Tab) (evs) : (t.apply evs).blocks = t.blocks := rfl

theorem Tab.Own.of_shape {t t' : Tab} (h : t.Own) (e : t'.shape = t.shape) : t'.Own := by
  simp only [Tab.shape, Prod.mk.injEq] at e
  obtain ⟨e1, e2, e3, e4, e5, e6, e7⟩ := e
  exact ⟨by rw [e1, e3, e4, e5, e6, e2]; exact h.empty, by rw [e1, e3, e2]; exact h.full,
         by rw [e6, e5]; exact h.auxArr, by rw [e7]; exact h.sound⟩

theorem inv_apply {t' : Tab} {evs : List Ev} {L R : List Nat} (hown : t'.Own) (hb : t'.bad = 0)
    (hL : t'.ledger.Perm L) (hg : Good 0 L evs R) (hR : R.Perm t'.blocks) : (t'.apply evs).Inv := by
  have hg' : Good t'.bad t'.ledger evs R := by rw [hb]; exact hg.perm_left hL
  obtain ⟨h1, h2⟩ := Tab.apply_good hg'
  exact { toOwn := hown.of_shape (Tab.apply_shape _ _), ledger := h2.trans hR, bad := by rw [h1, hb] }

theorem Tab.Inv.ledger_nil {t : Tab} (h : t.Inv) (h0 : t.ndim = 0) : t.ledger = [] := by
  obtain ⟨c, p, a, x, _⟩ := h.empty h0
  have := h.ledger
  simpa [Tab.blocks, c, p, a, x, auxBlocks, auxEntryBlocks] using this

theorem Tab.Inv.blocks_nil {t : Tab} (h : t.Inv) (h0 : t.ndim = 0) : t.blocks = [] := by
  obtain ⟨c, p, a, x, _⟩ := h.empty h0
  simp [Tab.blocks, c, p, a, x, auxBlocks, auxEntryBlocks]

theorem Tab.empty_inv : Tab.empty.Inv :=
  { empty := fun _ => ⟨rfl, rfl, rfl, rfl, rfl⟩, full := fun h => absurd rfl h, auxArr := fun h => absurd rfl h,
    sound := rfl, ledger := Perm.refl _, bad := rfl }

/-! ### net effect of the step programs -/

theorem net_append (xs ys : List Step) : net (xs ++ ys) = net xs ++ net ys := by
  induction xs with
  | nil => rfl
  | cons x xs ih => cases x <;> simp [net, ih]

theorem net_map_a (l : List Nat) : net (l.map .a) = l := by
  induction l with
  | nil => rfl
  | cons x xs ih => simp [net, ih]

theorem net_auxInSteps (aux : List AuxIn) : net (auxInSteps Cfg.repaired aux) = auxEntryBlocks (readAux aux) := by
  induction aux with
  | nil => rfl
  | cons e es ih =>
    simp only [auxInSteps, readAux, auxEntryBlocks, flatMap_cons, map_cons] at ih ⊢
    rw [net_append, ih]
    by_cases h : e.stored = e.raw <;> simp [Cfg.repaired, net, h]

theorem net_knotSteps (fa : Option Nat) (dims : List Dim) : net (knotSteps fa dims) = knotBlocks dims := by
  unfold knotSteps knotBlocks
  generalize 0 = k
  induction dims generalizing k with
  | nil => rfl
  | cons d ds ih =>
    simp only [zipIdx_cons, flatMap_cons, map_cons, net_append, ih]
    by_cases h : fa = some k <;> simp [net, h]

theorem auxEntryBlocks_append (a b : List Aux) : auxEntryBlocks (a ++ b) = auxEntryBlocks a ++ auxEntryBlocks b := by
  simp [auxEntryBlocks]

macro "perm_count" : tactic =>
  `(tactic| (simp only [perm_iff_count]; intro x; simp only [count_append, count_cons, count_nil]; omega))

/-! ### building storage from the empty state (read, fit) -/

theorem build_spec {t target : Tab} {cd : Option Nat} {steps : List Step} {n : Nat}
    (h : t.Inv) (h0 : t.ndim = 0) (hl : target.ledger = t.ledger) (hb : target.bad = t.bad)
    (hown : target.Own) (hnet : (net steps).Perm target.blocks) :
    (build true t cd steps target n).tab.Inv ∧
    ((build true t cd steps target n).res = .ok ∨
     ((build true t cd steps target n).res = .threw ∧ (build true t cd steps target n).tab.shape = t.shape)) := by
  have hnil := h.ledger_nil h0
  obtain ⟨hg, hlive⟩ := runSteps_good 0 steps cd [] []
  simp only [build]
  split
  · rename_i hok
    refine ⟨?_, Or.inl rfl⟩
    have hl' := hlive hok
    simp only [List.nil_append] at hl' hg
    refine inv_apply (L := []) hown (by rw [hb, h.bad]) (by rw [hl, hnil]) hg ?_
    rw [hl']; simpa using hnet
  · refine ⟨?_, Or.inr ⟨by simp, by simp⟩⟩
    simp only [if_true]
    refine inv_apply (L := []) h.toOwn h.bad (by rw [hnil]) ?_ (by rw [h.blocks_nil h0])
    simp only [List.nil_append, List.append_nil] at hg
    have := Good.frees (b := 0) (R := []) (runSteps cd steps []).2.1
    simp only [List.append_nil] at this
    exact Good.append hg this


/-- outcome of a single-table call: invariant kept; a throwing call leaves the table unchanged or empty -/
def Spec (t : Tab) (o : Out) : Prop :=
  o.tab.Inv ∧ (o.res = .threw → o.tab.shape = t.shape ∨ o.tab.isEmpty = true) ∧ o.res ≠ .crash

theorem spec_unchanged {t : Tab} {cd : Option Nat} {r : Res} (h : t.Inv) (hr : r ≠ .crash) : Spec t ⟨t, cd, r, []⟩ :=
  ⟨h, fun _ => Or.inl rfl, hr⟩

theorem read_spec (t : Tab) (cd : Option Nat) (f : FileDesc) (h : t.Inv) : Spec t (read Cfg.repaired t cd f) := by
  unfold read
  simp only [show Cfg.repaired.readGuard = true from rfl]
  split
  · exact spec_unchanged h (by decide)
  · rename_i h0
    have h0 : t.ndim = 0 := by simpa using h0
    split
    · exact spec_unchanged h (by decide)
    · rename_i hk
      have hd : f.dims ≠ [] := fun e => hk (Or.inr e)
      obtain ⟨c, p, a, x, d⟩ := h.empty h0
      have hown : (readTarget f t).Own := by
        refine ⟨fun e => ?_, fun _ => ⟨rfl, rfl⟩, fun e => ?_, h.sound⟩
        · exact absurd (List.length_eq_zero_iff.mp e) hd
        · by_cases hk : f.hasKeys <;> simp_all [readTarget]
      have hnet : (net (readSteps Cfg.repaired f)).Perm (readTarget f t).blocks := by
        simp only [readSteps, net_append, net_knotSteps, readTarget, Tab.blocks, fixedBlocks, auxBlocks]
        by_cases hk : f.hasKeys <;> by_cases h2 : f.kind = 2 <;>
          simp only [hk, h2, if_true, if_false, net, net_append, net_auxInSteps, readAux, List.length_map, Bool.false_eq_true,
            auxEntryBlocks, List.flatMap_nil, List.length_nil] <;> perm_count
      have := build_spec (cd := cd) (n := f.dims.length) h h0 (target := readTarget f t) rfl rfl hown hnet
      obtain ⟨hi, hr⟩ := this
      refine ⟨hi, ?_, ?_⟩
      · intro ht
        rcases hr with hr | ⟨_, hs⟩
        · simp [hr] at ht
        · exact Or.inl hs
      · rcases hr with hr | ⟨hr, _⟩ <;> simp [hr]

theorem fit_spec (t : Tab) (cd : Option Nat) (a : FitArgs) (h : t.Inv) : Spec t (fit Cfg.repaired t cd a) := by
  unfold fit
  split
  · exact spec_unchanged h (by decide)
  · rename_i h0
    have h0 : t.ndim = 0 := by simpa [Cfg.repaired] using h0
    split
    · exact spec_unchanged h (by decide)
    · rename_i hk
      have hd : a.dims ≠ [] := fun e => hk (Or.inr e)
      rw [if_neg (by simp [h0])]
      obtain ⟨c, p, x, y, d⟩ := h.empty h0
      have hown : (fitTarget a t).Own := by
        refine ⟨fun e => ?_, fun _ => ⟨rfl, rfl⟩, fun e => ?_, h.sound⟩
        · exact absurd (List.length_eq_zero_iff.mp e) hd
        · simp_all [fitTarget]
      have hnet : (net (fitSteps a)).Perm (fitTarget a t).blocks := by
        simp only [fitSteps, net_append, net_map_a, fitTarget, Tab.blocks, p, x, y, auxBlocks, auxEntryBlocks]
        by_cases hg : a.glamOk <;> simp [hg, net]
      have := build_spec (cd := cd) (n := a.dims.length) h h0 (target := fitTarget a t) rfl rfl hown hnet
      obtain ⟨hi, hr⟩ := this
      refine ⟨hi, ?_, ?_⟩
      · intro ht
        rcases hr with hr | ⟨_, hs⟩
        · simp [Cfg.repaired, hr] at ht
        · exact Or.inl hs
      · rcases hr with hr | ⟨hr, _⟩ <;> simp [Cfg.repaired, hr]


theorem findIdx_some {aux : List Aux} {id i : Nat} (h : findIdx aux id = some i) :
    ∃ pre e post, aux = pre ++ e :: post ∧ pre.length = i ∧ aux.getD i ⟨0, 0, 0⟩ = e := by
  unfold findIdx at h
  dsimp only at h
  split at h
  · rename_i hlt
    simp only [Option.some.injEq] at h
    subst h
    refine ⟨aux.take (aux.findIdx (·.id == id)), aux[aux.findIdx (·.id == id)], aux.drop (aux.findIdx (·.id == id) + 1), ?_, ?_, ?_⟩
    · simp
    · simp [List.length_take, Nat.min_eq_left (Nat.le_of_lt hlt)]
    · simp [List.getD_eq_getElem?_getD, hlt]
  · simp at h

/-- run a program on top of what the table holds, then release `fs`: the pattern of the key edits -/
theorem run_frees_inv {t t' : Tab} {cd : Option Nat} {steps : List Step} {fs : List Nat}
    (h : t.Inv) (hl : t'.ledger = t.ledger) (hb : t'.bad = t.bad) (hown : t'.Own)
    (hok : (runSteps cd steps []).2.2.2 = true)
    (hperm : (net steps ++ t.blocks).Perm (fs ++ t'.blocks)) :
    (t'.apply ((runSteps cd steps []).1 ++ fs.map .d)).Inv := by
  obtain ⟨hg, hlive⟩ := runSteps_good 0 steps cd [] t.blocks
  have hl' := hlive hok
  simp only [List.nil_append] at hl' hg
  rw [hl'] at hg
  refine inv_apply (L := t.blocks) (R := t'.blocks) hown (by rw [hb, h.bad]) (by rw [hl]; exact h.ledger) ?_ (Perm.refl _)
  exact Good.append (hg.perm_right hperm) (Good.frees fs)

theorem run_fail_inv {t : Tab} {cd : Option Nat} {steps : List Step} (h : t.Inv) :
    (t.apply ((runSteps cd steps []).1 ++ (runSteps cd steps []).2.1.map .d)).Inv := by
  obtain ⟨hg, _⟩ := runSteps_good 0 steps cd [] t.blocks
  simp only [List.nil_append] at hg
  exact inv_apply (L := t.blocks) (R := t.blocks) h.toOwn h.bad h.ledger (Good.append hg (Good.frees _)) (Perm.refl _)

theorem writeKey_spec (t : Tab) (cd : Option Nat) (a : KeyArg) (h : t.Inv) : Spec t (writeKey Cfg.repaired t cd a) := by
  unfold writeKey
  split
  · exact spec_unchanged h (by decide)
  · rename_i h0
    have h0 : t.ndim ≠ 0 := by simpa [Cfg.repaired] using h0
    split
    · exact spec_unchanged h (by decide)
    · split
      · rename_i i hi
        obtain ⟨pre, e, post, hsplit, hlen, hget⟩ := findIdx_some hi
        dsimp only
        by_cases hok : (runSteps cd [Step.a a.v] []).2.2.2 = true
        · rw [if_pos hok]
          refine ⟨?_, by simp, by simp⟩
          have hev : [Ev.a a.v, Ev.d (t.aux.getD i ⟨0, 0, 0⟩).v] = (runSteps cd [.a a.v] []).1 ++ [(t.aux.getD i ⟨0, 0, 0⟩).v].map .d := by
            cases cd with
            | none => simp [runSteps, dec]
            | some k => cases k <;> simp_all [runSteps, dec]
          rw [hev]
          refine run_frees_inv h rfl rfl ?_ hok ?_
          · refine ⟨fun e => absurd e h0, fun _ => h.full h0, fun _ => ?_, h.sound⟩
            exact h.auxArr (by rw [hsplit]; simp)
          · obtain ⟨ndim, dims, core, periods, auxArr, aux, ledger, bad, broken⟩ := t
            simp only at hsplit hget
            subst hsplit hlen
            simp only [hget]
            simp only [Tab.blocks, auxBlocks, auxEntryBlocks, net, Std.le_refl, set_append_right, Nat.sub_self, set_cons_zero,
              List.flatMap_append, List.flatMap_cons, List.length_append, List.length_cons]
            perm_count
        · rw [if_neg hok]; exact ⟨h, fun _ => Or.inl rfl, by simp⟩
      · rename_i hnone
        dsimp only
        by_cases hok : (runSteps cd [Step.a (8 * (t.aux.length + 1)), Step.a 16, Step.a a.k, Step.a a.v] []).2.2.2 = true
        · rw [if_pos hok]
          refine ⟨?_, by simp, by simp⟩
          have hfs : (if t.auxArr = true then [Ev.d (8 * t.aux.length)] else []) = (if t.auxArr = true then [8 * t.aux.length] else []).map .d := by
            split <;> rfl
          rw [hfs]
          refine run_frees_inv h rfl rfl ?_ hok ?_
          · exact ⟨fun e => absurd e h0, fun _ => h.full h0, fun _ => rfl, h.sound⟩
          · obtain ⟨ndim, dims, core, periods, auxArr, aux, ledger, bad, broken⟩ := t
            cases auxArr <;>
            simp only [Tab.blocks, auxBlocks, auxEntryBlocks, net, List.flatMap_append, List.flatMap_cons, List.flatMap_nil,
              List.length_append, List.length_cons, List.length_nil, if_true, if_false, Bool.false_eq_true, Nat.zero_add] <;> perm_count
        · rw [if_neg hok]; exact ⟨run_fail_inv h, fun _ => Or.inl rfl, by simp⟩

theorem removeKey_spec (t : Tab) (cd : Option Nat) (id : Nat) (h : t.Inv) : Spec t (removeKey Cfg.repaired t cd id) := by
  unfold removeKey
  split
  · exact spec_unchanged h (by decide)
  · rename_i i hi
    obtain ⟨pre, e, post, hsplit, hlen, hget⟩ := findIdx_some hi
    simp only [show Cfg.repaired.removeKeyFirst = true from rfl, if_true]
    by_cases hok : (runSteps cd [Step.a (8 * (t.aux.length - 1))] []).2.2.2 = true
    · rw [if_pos hok]
      refine ⟨?_, by simp, by simp⟩
      have hne : t.aux ≠ [] := by rw [hsplit]; simp
      have harr := h.auxArr hne
      have hnd : t.ndim ≠ 0 := fun e0 => hne (h.empty e0).2.2.2.1
      have hfs : [Ev.d (t.aux.getD i ⟨0, 0, 0⟩).k, Ev.d (t.aux.getD i ⟨0, 0, 0⟩).v, Ev.d 16, Ev.d (8 * t.aux.length)] =
          [(t.aux.getD i ⟨0, 0, 0⟩).k, (t.aux.getD i ⟨0, 0, 0⟩).v, 16, 8 * t.aux.length].map .d := rfl
      rw [hfs]
      refine run_frees_inv h rfl rfl ?_ hok ?_
      · exact ⟨fun e => absurd e hnd, fun _ => h.full hnd, fun _ => harr, h.sound⟩
      · obtain ⟨ndim, dims, core, periods, auxArr, aux, ledger, bad, broken⟩ := t
        simp only at hsplit hget harr
        subst hsplit harr hlen
        simp only [hget]
        simp only [Tab.blocks, auxBlocks, auxEntryBlocks, net, List.eraseIdx_append_of_length_le (Nat.le_refl _),
          Nat.sub_self, List.eraseIdx_cons_zero,
          List.flatMap_append, List.flatMap_cons, List.length_append, List.length_cons, if_true]
        have : pre.length + (post.length + 1) - 1 = pre.length + post.length := by omega
        rw [this]
        perm_count
    · rw [if_neg hok]; exact ⟨h, fun _ => Or.inl rfl, by simp⟩


theorem convDims_length (dims : List Dim) (dim nk : Nat) : (convDims dims dim nk).length = dims.length := by
  simp [convDims]

theorem convolve_spec (t : Tab) (cd : Option Nat) (dim nk : Nat) (h : t.Inv) : Spec t (convolve Cfg.repaired t cd dim nk) := by
  unfold convolve
  split
  · simp only [show Cfg.repaired.convCheck = true from rfl, if_true]
    exact spec_unchanged h (by decide)
  · rename_i hd
    have hnd : t.ndim ≠ 0 := by omega
    obtain ⟨hcore, hlen⟩ := h.full hnd
    dsimp only
    simp only [show Cfg.repaired.convGuard = true from rfl, if_true]
    obtain ⟨hg, hlive⟩ := runSteps_good 0 ((4 * ncoef (convDims t.dims dim nk) :: knotBlocks (convDims t.dims dim nk)).map Step.a) cd []
      ([8 * t.ndim, 8 * t.ndim, 4 * t.ndim, 16 * t.ndim, 8 * t.ndim] ++
        (if t.periods then [8 * t.ndim] else []) ++ [8 * t.ndim, 8 * t.ndim] ++
        auxEntryBlocks t.aux ++ (if t.auxArr then [8 * t.aux.length] else []))
    simp only [List.nil_append] at hg hlive
    have hfree : Good 0 t.blocks ((4 * ncoef t.dims :: knotBlocks t.dims).map Ev.d)
        ([8 * t.ndim, 8 * t.ndim, 4 * t.ndim, 16 * t.ndim, 8 * t.ndim] ++
        (if t.periods then [8 * t.ndim] else []) ++ [8 * t.ndim, 8 * t.ndim] ++
        auxEntryBlocks t.aux ++ (if t.auxArr then [8 * t.aux.length] else [])) := by
      refine (Good.frees (4 * ncoef t.dims :: knotBlocks t.dims)).perm_left ?_
      simp only [Tab.blocks, hcore, if_true, fixedBlocks, auxBlocks]
      cases t.periods <;> cases t.auxArr <;> simp only [if_true, if_false, Bool.false_eq_true] <;> perm_count
    by_cases hok : (runSteps cd ((4 * ncoef (convDims t.dims dim nk) :: knotBlocks (convDims t.dims dim nk)).map Step.a) []).2.2.2 = true
    · rw [if_pos hok]
      refine ⟨?_, by simp, by simp⟩
      refine inv_apply (t' := { t with dims := convDims t.dims dim nk }) (L := t.blocks) ?_ h.bad h.ledger (Good.append hfree hg) ?_
      · exact ⟨fun e => absurd e hnd, fun _ => ⟨hcore, by rw [convDims_length]; exact hlen⟩, h.auxArr, h.sound⟩
      · rw [hlive hok, net_map_a]
        simp only [Tab.blocks, hcore, if_true, fixedBlocks, auxBlocks]
        cases t.periods <;> cases t.auxArr <;> simp only [if_true, if_false, Bool.false_eq_true] <;> perm_count
    · rw [if_neg hok]
      refine ⟨?_, fun _ => Or.inr ?_, by simp⟩
      · refine inv_apply (t' := { t with ndim := 0, dims := [], core := false, periods := false, auxArr := false, aux := [] })
          (L := t.blocks) (R := []) ?_ h.bad h.ledger ?_ ?_
        · exact ⟨fun _ => ⟨rfl, rfl, rfl, rfl, rfl⟩, fun e => absurd rfl e, fun e => absurd rfl e, h.sound⟩
        · rw [List.append_assoc]
          refine Good.append hfree (Good.append hg ?_)
          have := Good.frees (b := 0) (R := []) ((runSteps cd ((4 * ncoef (convDims t.dims dim nk) :: knotBlocks (convDims t.dims dim nk)).map Step.a) []).2.1 ++
            ([8 * t.ndim, 8 * t.ndim, 4 * t.ndim, 16 * t.ndim, 8 * t.ndim] ++
            (if t.periods then [8 * t.ndim] else []) ++ [8 * t.ndim, 8 * t.ndim] ++
            auxEntryBlocks t.aux ++ (if t.auxArr then [8 * t.aux.length] else [])))
          simpa using this
        · simp [Tab.blocks, auxBlocks, auxEntryBlocks]
      · simp [Tab.apply, Tab.isEmpty, h.sound]

theorem map_getD_range {α} (l : List α) (d : α) : (List.range l.length).map (fun j => l.getD j d) = l := by
  apply List.ext_getElem
  · simp
  · intro i h1 h2
    simp at h1
    simp [h1]

theorem ncoef_perm {a b : List Dim} (p : a.Perm b) : ncoef a = ncoef b := by
  unfold ncoef
  exact (p.map _).foldr_eq' (fun x _ y _ z => by rw [Nat.mul_left_comm]) 1

theorem permute_spec (t : Tab) (cd : Option Nat) (p : List Nat) (h : t.Inv) : Spec t (permute Cfg.repaired t cd p) := by
  unfold permute
  split
  · exact spec_unchanged h (by decide)
  · rename_i hp
    have hp : p.Perm (List.range t.ndim) := by simpa [List.isPerm_iff] using hp
    split
    · exact spec_unchanged h (by simp [Cfg.repaired])
    · rename_i hnd
      obtain ⟨hcore, hlen⟩ := h.full hnd
      have hd : (p.map fun j => t.dims.getD j ⟨0, 0, 0⟩).Perm t.dims := by
        have := hp.map (fun j => t.dims.getD j ⟨0, 0, 0⟩)
        rw [← hlen, map_getD_range] at this
        exact this
      refine ⟨?_, by simp, by simp⟩
      refine { empty := fun e => absurd e hnd, full := fun _ => ⟨hcore, ?_⟩, auxArr := h.auxArr, sound := h.sound, ledger := ?_, bad := h.bad }
      · simp [hp.length_eq]
      · refine h.ledger.trans ?_
        simp only [Tab.blocks, hcore, if_true, fixedBlocks, ncoef_perm hd]
        have hk : (knotBlocks (p.map fun j => t.dims.getD j ⟨0, 0, 0⟩)).Perm (knotBlocks t.dims) := hd.map _
        exact ((Perm.refl _).append hk.symm).append_right _ |>.append_right _

theorem destroy_spec (t : Tab) (h : t.Inv) : (destroy t).1.ledger = [] ∧ (destroy t).1.bad = 0 := by
  unfold destroy
  rw [if_neg (by simp [h.sound])]
  split
  · rename_i h0; exact ⟨h.ledger_nil h0, h.bad⟩
  · rename_i hnd
    obtain ⟨hcore, hlen⟩ := h.full hnd
    dsimp only
    have hg := Good.frees (b := 0) (R := []) (knotBlocks t.dims ++ [8 * t.ndim, 8 * t.ndim, 4 * t.ndim, 16 * t.ndim, 8 * t.ndim] ++
      (if t.periods then [8 * t.ndim] else []) ++ [4 * ncoef t.dims, 8 * t.ndim, 8 * t.ndim] ++
      auxEntryBlocks t.aux ++ (if t.auxArr then [8 * t.aux.length] else []))
    have hg' := hg.perm_left (L2 := t.ledger) (h.ledger.trans (by
      simp only [Tab.blocks, hcore, if_true, fixedBlocks, auxBlocks, List.append_nil]
      cases t.periods <;> cases t.auxArr <;> simp only [if_true, if_false, Bool.false_eq_true] <;> perm_count))
    rw [← h.bad] at hg'
    obtain ⟨h1, h2⟩ := Tab.apply_good hg'
    exact ⟨by simpa using h2, by rw [h1, h.bad]⟩


/-! ### histories over several objects -/

theorem World.mem_put {w : World} {i : Nat} {o x : Option Tab} (h : x ∈ (w.put i o).objs) :
    x = o ∨ x ∈ w.objs ∨ x = none := by
  simp only [World.put] at h
  rcases List.mem_or_eq_of_mem_set h with h | h
  · rcases List.mem_append.mp h with h | h
    · exact Or.inr (Or.inl h)
    · exact Or.inr (Or.inr (List.eq_of_mem_replicate h))
  · exact Or.inl h

theorem World.get_mem {w : World} {i : Nat} {t : Tab} (h : w.get i = some t) : some t ∈ w.objs := by
  simp only [World.get, List.getD_eq_getElem?_getD] at h
  cases hi : w.objs[i]? with
  | none => simp [hi] at h
  | some x =>
    simp [hi] at h
    subst h
    exact List.mem_of_getElem? hi

theorem World.get_put_same (w : World) (i : Nat) (o : Option Tab) : (w.put i o).get i = o := by
  simp only [World.get, World.put, List.getD_eq_getElem?_getD]
  rw [List.getElem?_set_self (by simp; omega)]
  rfl

theorem World.get_put_ne (w : World) {i j : Nat} (o : Option Tab) (h : i ≠ j) : (w.put i o).get j = w.get j := by
  simp only [World.get, World.put, List.getD_eq_getElem?_getD]
  rw [List.getElem?_set_ne h]
  by_cases hj : j < w.objs.length
  · rw [List.getElem?_append_left hj]
  · rw [List.getElem?_append_right (by omega)]
    have : w.objs[j]? = none := List.getElem?_eq_none (by omega)
    rw [this]
    cases hh : (List.replicate (i + 1 - w.objs.length) (none : Option Tab))[j - w.objs.length]? with
    | none => rfl
    | some x =>
      have := List.mem_of_getElem? hh
      rw [List.eq_of_mem_replicate this]
      rfl

/-- every live object satisfies its invariant; every object that died returned all memory exactly once -/
structure World.Inv (w : World) : Prop where
  live : ∀ t, some t ∈ w.objs → t.Inv
  dead : ∀ r, r ∈ w.retired → r = ([], 0)

theorem World.Inv.put {w : World} (h : w.Inv) (i : Nat) {o : Option Tab} (ho : ∀ t, o = some t → t.Inv) :
    (w.put i o).Inv := by
  refine ⟨fun t ht => ?_, h.dead⟩
  rcases World.mem_put ht with e | e | e
  · exact ho t e.symm
  · exact h.live t e
  · cases e

theorem onTab_inv {w : World} {i : Nat} {f : Tab → Option Nat → Out} (h : w.Inv)
    (hf : ∀ t, t.Inv → (f t w.cd).tab.Inv) : (onTab w i f).w.Inv := by
  unfold onTab
  cases hg : w.get i with
  | none => exact h
  | some t =>
    have hi := h.live t (World.get_mem hg)
    have := h.put i (o := some (f t w.cd).tab) (fun t' e => by cases e; exact hf t hi)
    exact ⟨this.live, this.dead⟩

theorem step_inv {w : World} (h : w.Inv) (op : Op) : (step Cfg.repaired w op).w.Inv := by
  cases op with
  | construct i =>
    simp only [step]
    cases hg : w.get i with
    | some _ => exact h
    | none => exact h.put i (fun t e => by cases e; exact Tab.empty_inv)
  | constructFile i f =>
    simp only [step]
    cases hg : w.get i with
    | some _ => exact h
    | none =>
      have hs := read_spec Tab.empty w.cd f Tab.empty_inv
      dsimp only
      split
      · have := h.put i (o := some (read Cfg.repaired Tab.empty w.cd f).tab) (fun t e => by cases e; exact hs.1)
        exact ⟨this.live, this.dead⟩
      · rename_i hr
        refine ⟨h.live, fun r hr' => ?_⟩
        rcases List.mem_cons.mp hr' with e | e
        · subst e
          -- the read failed: the shape is unchanged (empty), so the ledger is empty
          have hres : (read Cfg.repaired Tab.empty w.cd f).res = .threw := by
            have hne := hs.2.2
            cases hres : (read Cfg.repaired Tab.empty w.cd f).res <;> simp_all
            all_goals
              (unfold read at hres; simp only [show Cfg.repaired.readGuard = true from rfl] at hres
               split at hres
               · simp at hres
               · split at hres
                 · simp at hres
                 · simp only [build] at hres
                   split at hres <;> simp at hres)
          have hsh := hs.2.1 hres
          have hnd : (read Cfg.repaired Tab.empty w.cd f).tab.ndim = 0 := by
            rcases hsh with e | e
            · have := congrArg Prod.fst e; simpa [Tab.shape, Tab.empty] using this
            · simp [Tab.isEmpty] at e; exact e.1.1.1.1.1.1
          rw [hs.1.ledger_nil hnd, hs.1.bad]
        · exact h.dead r e
  | read i f => exact onTab_inv h fun t ht => (read_spec t _ f ht).1
  | fit i a => exact onTab_inv h fun t ht => (fit_spec t _ a ht).1
  | writeKey i a => exact onTab_inv h fun t ht => (writeKey_spec t _ a ht).1
  | removeKey i id => exact onTab_inv h fun t ht => (removeKey_spec t _ id ht).1
  | getKey i id => exact onTab_inv h fun t ht => ht
  | convolve i dim nk => exact onTab_inv h fun t ht => (convolve_spec t _ dim nk ht).1
  | permute i p => exact onTab_inv h fun t ht => (permute_spec t _ p ht).1
  | writeFits i => exact onTab_inv h fun t ht => ht
  | moveConstruct i j =>
    simp only [step]
    cases hi : w.get i with
    | some _ => cases w.get j <;> exact h
    | none =>
      cases hj : w.get j with
      | none => exact h
      | some s =>
        have hs := h.live s (World.get_mem hj)
        exact (h.put i (o := some s) (fun t e => by cases e; exact hs)).put j (fun t e => by cases e; exact Tab.empty_inv)
  | moveAssign i j =>
    simp only [step]
    cases hi : w.get i with
    | none => cases w.get j <;> exact h
    | some t =>
      cases hj : w.get j with
      | none => exact h
      | some s =>
        have ht := h.live t (World.get_mem hi)
        have hs := h.live s (World.get_mem hj)
        dsimp only
        split
        · exact h
        · simp only [show Cfg.repaired.moveAssignRelease = true from rfl, if_true]
          have h2 := (h.put i (o := some s) (fun t e => by cases e; exact hs)).put j (o := some Tab.empty) (fun t e => by cases e; exact Tab.empty_inv)
          refine ⟨h2.live, fun r hr => ?_⟩
          rcases List.mem_cons.mp hr with e | e
          · subst e; obtain ⟨a, b⟩ := destroy_spec t ht; rw [a, b]
          · exact h.dead r e
  | compare i j =>
    simp only [step]
    cases hi : w.get i with
    | none => cases w.get j <;> exact h
    | some t =>
      cases hj : w.get j with
      | none => exact h
      | some s =>
        dsimp only
        split
        · exact h
        · split <;> exact h
  | destroy i =>
    simp only [step]
    cases hi : w.get i with
    | none => exact h
    | some t =>
      have ht := h.live t (World.get_mem hi)
      have h2 := h.put i (o := none) (fun t e => by cases e)
      refine ⟨h2.live, fun r hr => ?_⟩
      rcases List.mem_cons.mp hr with e | e
      · subst e; obtain ⟨a, b⟩ := destroy_spec t ht; rw [a, b]
      · exact h.dead r e

theorem World.init_inv (cd : Option Nat) : (World.init cd).Inv :=
  ⟨fun t h => by simp [World.init] at h, fun r h => by simp [World.init] at h⟩

theorem run_inv {w : World} (h : w.Inv) (ops : List Op) : (run Cfg.repaired w ops).Inv := by
  induction ops generalizing w with
  | nil => exact h
  | cons op ops ih => exact ih (step_inv h op)

end PsV.Lifecycle
