import PsV.Model.Arith
import Mathlib.Algebra.Order.Field.Rat
import Mathlib.Tactic.Ring
import Mathlib.Tactic.FieldSimp
import Mathlib.Tactic.Linarith
/-!
The exact instance of the arithmetic bundle: any linearly ordered field, `rnd = id`.
All theorems about the numerical kernels are stated for this instance; `instArithRat_eq` shows that
the `Rat` instance the driver executes *is* this instance.
-/
namespace PsV

@[reducible] def Arith.ofField (α : Type) [Field α] [LinearOrder α] : Arith α where
  add := (· + ·)
  sub := (· - ·)
  mul := (· * ·)
  div := (· / ·)
  neg := fun a => -a
  lt := fun a b => decide (a < b)
  le := fun a b => decide (a ≤ b)
  zero := 0
  one := 1
  ofNat := fun n => (n : α)
  rnd := id

section
variable {α : Type} [Field α] [LinearOrder α]
attribute [local instance] Arith.ofField
@[simp] theorem of_add (a b : α) : Arith.add a b = a + b := rfl
@[simp] theorem of_sub (a b : α) : Arith.sub a b = a - b := rfl
@[simp] theorem of_mul (a b : α) : Arith.mul a b = a * b := rfl
@[simp] theorem of_div (a b : α) : Arith.div a b = a / b := rfl
@[simp] theorem of_neg (a : α) : Arith.neg a = -a := rfl
@[simp] theorem of_rnd (a : α) : Arith.rnd a = a := rfl
@[simp] theorem of_zero : (Arith.zero : α) = 0 := rfl
@[simp] theorem of_one : (Arith.one : α) = 1 := rfl
@[simp] theorem of_ofNat (n : Nat) : (Arith.ofNat n : α) = (n : α) := rfl
@[simp] theorem of_lt (a b : α) : Arith.lt a b = decide (a < b) := rfl
@[simp] theorem of_le (a b : α) : Arith.le a b = decide (a ≤ b) := rfl
@[simp] theorem of_smul (a b : α) : Arith.smul a b = a * b := rfl
@[simp] theorem of_sadd (a b : α) : Arith.sadd a b = a + b := rfl
end

theorem instArithRat_eq : (inferInstance : Arith Rat) = Arith.ofField Rat := rfl

end PsV
