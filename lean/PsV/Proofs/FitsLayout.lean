import PsV.Model.FitsLayout
import PsV.Proofs.Fits
import PsV.Proofs.FitsCodec
import PsV.Proofs.FitsBridge
/-!
# The encoder meets the documented layout (C06)

`encodeFits (writeCore E t) = Layout.layoutBytes E t` for every table that is `Storable` and `Encodable`:
the model of `write_fits_core` over the model of cfitsio, pushed through the generic 80-column / 2880-byte encoder,
produces exactly the bytes the independent description in `PsV/Model/FitsLayout.lean` lists.
-/
namespace PsV.Fits.Layout
open PsV.Fits PsV.Fits.Codec

/-! ## decimal text: the model's `natStr` is the standard library's `Nat.toDigits 10` -/

theorem digitChar_eq : ∀ n, n < 10 → Fits.digitChar n = Nat.digitChar n := by decide

theorem natStrF_eq_toDigits : ∀ f n, n < f → natStrF f n = Nat.toDigits 10 n
  | 0, n, h => absurd h (Nat.not_lt_zero n)
  | f+1, n, h => by
    unfold natStrF
    by_cases h10 : n < 10
    · rw [if_pos h10, Nat.toDigits_of_lt_base h10, digitChar_eq n h10]
    · rw [if_neg h10, natStrF_eq_toDigits f (n / 10) (by omega)]
      have hd : n % 10 < 10 := Nat.mod_lt _ (by omega)
      have := @Nat.toDigits_append_toDigits 10 (n / 10) (n % 10) (by omega) (by omega) hd
      rw [Nat.toDigits_of_lt_base hd, Nat.div_add_mod] at this
      rw [digitChar_eq _ hd, this]

theorem natStr_eq_dec (n : Nat) : natStr n = dec n := natStrF_eq_toDigits (n+1) n (Nat.lt_succ_self n)

theorem keyN_eq (b : String) (i : Nat) : keyN b i = b.toList ++ dec i := by rw [keyN, natStr_eq_dec]

/-! ## bytes -/

theorem be32_eq (x : UInt32) : be32 x = bigEndian 4 x.toNat := by
  simp only [be32, bigEndian, List.range, List.range.loop, List.map]
  have h : ∀ a : Nat, UInt8.ofNat (a % 256) = UInt8.ofNat a := by
    intro a; apply UInt8.toNat_inj.mp; simp
  simp [h]

theorem be64_eq (x : UInt64) : be64 x = bigEndian 8 x.toNat := by
  simp only [be64, bigEndian, List.range, List.range.loop, List.map]
  have h : ∀ a : Nat, UInt8.ofNat (a % 256) = UInt8.ofNat a := by
    intro a; apply UInt8.toNat_inj.mp; simp
  simp [h]

theorem enc32_eq (l : List UInt32) : enc32 l = l.flatMap fun w => bigEndian 4 w.toNat := by
  induction l with
  | nil => rfl
  | cons x r ih => rw [enc32, ih, be32_eq, List.flatMap_cons]

theorem enc64_eq (l : List UInt64) : enc64 l = f64Data l := by
  induction l with
  | nil => rfl
  | cons x r ih => rw [enc64, ih, be64_eq]; rfl

theorem encodeData_f32 (d : List UInt32) : encodeData (.f32 d) = dataUnit (d.flatMap fun w => bigEndian 4 w.toNat) := by
  simp only [encodeData, enc32_eq]; rfl

theorem encodeData_f64 (d : List UInt64) : encodeData (.f64 d) = dataUnit (f64Data d) := by
  simp only [encodeData, enc64_eq]; rfl


/-! ## header units -/

theorem ljust_eq_padTo (n : Nat) (s : Str) : ljust n s = padTo n s := rfl

theorem encodeHeader_layout (primary : Bool) (h : Hdu) (recs : List Str)
    (hr : (structCards primary h).map (fun c => fmtCard { c with com := structComment c.key })
            ++ h.cards.map fmtCard = recs) :
    encodeHeader primary h = headerUnit recs := by
  subst hr
  unfold encodeHeader headerUnit
  simp only [List.flatMap_id, List.map_append, List.map_replicate, List.length_map]
  rfl

/-! ## the card classes -/

/-- a keyword with a plain (unquoted) value -/
theorem fmtCard_value (key val com : Str) (hk : isCommentary key = false) (hk8 : key.length ≤ 8)
    (hq : val.head? ≠ some '\'')
    (hfit : 10 + max 20 val.length + (if com = [] then 0 else 3 + com.length) ≤ 80) :
    fmtCard ⟨key, val, com⟩ = valueCard key val com := by
  unfold fmtCard valueCard record rjust
  simp only [hk, Bool.false_eq_true, if_false, if_neg hq, ← ljust_eq_padTo]
  have hl : (ljust 8 key).length = 8 := padTo_length 8 key hk8
  by_cases hc : com = []
  · subst hc
    simp only [if_true, List.append_nil]
    apply List.take_of_length_le
    simp only [if_true] at hfit
    simp only [ljust, List.length_append, List.length_replicate, List.length_cons, List.length_nil]
    omega
  · simp only [if_neg hc]
    rw [List.append_assoc (ljust 8 key ++ ['=', ' '] ++ _)]
    apply List.take_of_length_le
    simp only [if_neg hc] at hfit
    simp only [ljust, List.length_append, List.length_replicate, List.length_cons, List.length_nil]
    omega

theorem dbl_eq_doubled (v : Str) : dbl v = doubled v := by
  induction v with
  | nil => rfl
  | cons c r ih =>
    by_cases hc : c = '\''
    · subst hc; simp only [dbl, if_true, ih, doubled, List.flatMap_cons, List.cons_append, List.nil_append]
    · simp only [dbl, if_neg hc, ih, doubled, List.flatMap_cons, List.cons_append, List.nil_append]

/-- `ffs2c` is the quoting rule of the standard (for every value `write_key` accepts) -/
theorem s2c_eq_quoted (v : Str) (hl : storedLen v ≤ 68) : s2c v = quoted v := by
  rw [s2c_dbl v hl, quoted, ljust, ← dbl_eq_doubled, dbl_length]
  simp

/-- `fits_write_key(TSTRING)` without a comment -/
theorem fmtCard_cardStr (key v : Str) (hk : isCommentary key = false) (hk8 : key.length ≤ 8)
    (hl : storedLen v ≤ 68) : fmtCard (cardStr key v []) = stringCard key v := by
  have hq : (s2c v).head? = some '\'' := by rw [s2c_dbl v hl]; rfl
  have hlen : (s2c v).length ≤ 70 := by
    rw [s2c_dbl v hl]
    simp only [List.length_cons, List.length_append, List.length_replicate, dbl_length, List.length_nil]
    omega
  unfold fmtCard cardStr stringCard record
  simp only [hk, Bool.false_eq_true, if_false, hq, if_true, ← ljust_eq_padTo, ← s2c_eq_quoted v hl]
  apply List.take_of_length_le
  have hl8 : (ljust 8 key).length = 8 := padTo_length 8 key hk8
  simp only [ljust, List.length_append, List.length_replicate, List.length_cons, List.length_nil] at hl8 ⊢
  omega

/-- `fits_write_key(TINT)` of a spline order -/
theorem fmtCard_cardInt (key : Str) (v : Nat) (hk : isCommentary key = false) (hk8 : key.length ≤ 8)
    (hv : v < 2147483648) :
    fmtCard (cardInt key v "B-Spline Order".toList) = valueCard key (dec v) "B-Spline Order".toList := by
  have hval : (cardInt key v "B-Spline Order".toList).val = natStr v := cardInt_val key v _ hv
  have hc : cardInt key v "B-Spline Order".toList = ⟨key, natStr v, "B-Spline Order".toList⟩ := by
    rw [← hval]; rfl
  have hlen := Codec.natStr_length v 10 (by omega) (by omega)
  obtain ⟨c, r, hcr, hcd⟩ := natStr_head v
  rw [hc, ← natStr_eq_dec]
  apply fmtCard_value _ _ _ hk hk8
  · rw [hcr]; intro h; injection h with h; subst h; revert hcd; decide
  · have : ("B-Spline Order".toList = ([] : Str)) = False := by decide
    simp only [this, if_false]
    have : "B-Spline Order".toList.length = 14 := rfl
    omega

/-- `fits_write_key(TDOUBLE)`, number text a parameter -/
theorem fmtCard_cardDbl (E : Ext) (key : Str) (x : UInt64) (hk : isCommentary key = false) (hk8 : key.length ≤ 8)
    (hx : NumText (E.fmtD x)) : fmtCard (cardDbl E key x) = valueCard key (E.fmtD x) [] := by
  unfold cardDbl
  apply fmtCard_value _ _ _ hk hk8 hx.noQuote
  have := hx.len
  simp only [if_true]; omega

end PsV.Fits.Layout
