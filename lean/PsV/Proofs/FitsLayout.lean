import PsV.Model.FitsLayout
import PsV.Proofs.Fits
import PsV.Proofs.FitsCodec
import PsV.Proofs.FitsBridge
/-!
# The encoder meets the documented layout (C06)

`encodeFits (writeCore E t) = Layout.layoutBytes E t` for every table that is `Storable` and `Encodable`:
the model of `write_fits_core` over the model of cfitsio, pushed through the generic 80-column / 2880-byte encoder,
produces exactly the bytes the independent description in `PsV/Model/FitsLayout.lean` lists.
-/
namespace PsV.Fits.Layout
open PsV.Fits PsV.Fits.Codec

/-! ## decimal text: the model's `natStr` is the standard library's `Nat.toDigits 10` -/

theorem digitChar_eq : ∀ n, n < 10 → Fits.digitChar n = Nat.digitChar n := by decide

theorem natStrF_eq_toDigits : ∀ f n, n < f → natStrF f n = Nat.toDigits 10 n
  | 0, n, h => absurd h (Nat.not_lt_zero n)
  | f+1, n, h => by
    unfold natStrF
    by_cases h10 : n < 10
    · rw [if_pos h10, Nat.toDigits_of_lt_base h10, digitChar_eq n h10]
    · rw [if_neg h10, natStrF_eq_toDigits f (n / 10) (by omega)]
      have hd : n % 10 < 10 := Nat.mod_lt _ (by omega)
      have := @Nat.toDigits_append_toDigits 10 (n / 10) (n % 10) (by omega) (by omega) hd
      rw [Nat.toDigits_of_lt_base hd, Nat.div_add_mod] at this
      rw [digitChar_eq _ hd, this]

theorem natStr_eq_dec (n : Nat) : natStr n = dec n := natStrF_eq_toDigits (n+1) n (Nat.lt_succ_self n)

theorem keyN_eq (b : String) (i : Nat) : keyN b i = b.toList ++ dec i := by rw [keyN, natStr_eq_dec]

/-! ## bytes -/

theorem be32_eq (x : UInt32) : be32 x = bigEndian 4 x.toNat := by
  simp only [be32, bigEndian, List.range, List.range.loop, List.map]
  have h : ∀ a : Nat, UInt8.ofNat (a % 256) = UInt8.ofNat a := by
    intro a; apply UInt8.toNat_inj.mp; simp
  simp [h]

theorem be64_eq (x : UInt64) : be64 x = bigEndian 8 x.toNat := by
  simp only [be64, bigEndian, List.range, List.range.loop, List.map]
  have h : ∀ a : Nat, UInt8.ofNat (a % 256) = UInt8.ofNat a := by
    intro a; apply UInt8.toNat_inj.mp; simp
  simp [h]

theorem enc32_eq (l : List UInt32) : enc32 l = l.flatMap fun w => bigEndian 4 w.toNat := by
  induction l with
  | nil => rfl
  | cons x r ih => rw [enc32, ih, be32_eq, List.flatMap_cons]

theorem enc64_eq (l : List UInt64) : enc64 l = f64Data l := by
  induction l with
  | nil => rfl
  | cons x r ih => rw [enc64, ih, be64_eq]; rfl

theorem encodeData_f32 (d : List UInt32) : encodeData (.f32 d) = dataUnit (d.flatMap fun w => bigEndian 4 w.toNat) := by
  simp only [encodeData, enc32_eq]; rfl

theorem encodeData_f64 (d : List UInt64) : encodeData (.f64 d) = dataUnit (f64Data d) := by
  simp only [encodeData, enc64_eq]; rfl


/-! ## header units -/

theorem ljust_eq_padTo (n : Nat) (s : Str) : ljust n s = padTo n s := rfl

theorem encodeHeader_layout (primary : Bool) (h : Hdu) (recs : List Str)
    (hr : (structCards primary h).map (fun c => fmtCard { c with com := structComment c.key })
            ++ h.cards.map fmtCard = recs) :
    encodeHeader primary h = headerUnit recs := by
  subst hr
  unfold encodeHeader headerUnit
  simp only [List.flatMap_id, List.map_append, List.map_replicate, List.length_map]
  rfl

/-! ## the card classes -/

/-- a keyword with a plain (unquoted) value -/
theorem fmtCard_value (key val com : Str) (hk : isCommentary key = false) (hk8 : key.length ≤ 8)
    (hq : val.head? ≠ some '\'')
    (hfit : 10 + max 20 val.length + (if com = [] then 0 else 3 + com.length) ≤ 80) :
    fmtCard ⟨key, val, com⟩ = valueCard key val com := by
  unfold fmtCard valueCard record rjust
  simp only [hk, Bool.false_eq_true, if_false, if_neg hq, ← ljust_eq_padTo]
  have hl : (ljust 8 key).length = 8 := padTo_length 8 key hk8
  by_cases hc : com = []
  · subst hc
    simp only [if_true, List.append_nil]
    apply List.take_of_length_le
    simp only [if_true] at hfit
    simp only [ljust, List.length_append, List.length_replicate, List.length_cons, List.length_nil]
    omega
  · simp only [if_neg hc]
    rw [List.append_assoc (ljust 8 key ++ ['=', ' '] ++ _)]
    apply List.take_of_length_le
    simp only [if_neg hc] at hfit
    simp only [ljust, List.length_append, List.length_replicate, List.length_cons, List.length_nil]
    omega

theorem dbl_eq_doubled (v : Str) : dbl v = doubled v := by
  induction v with
  | nil => rfl
  | cons c r ih =>
    by_cases hc : c = '\''
    · subst hc; simp only [dbl, if_true, ih, doubled, List.flatMap_cons, List.cons_append, List.nil_append]
    · simp only [dbl, if_neg hc, ih, doubled, List.flatMap_cons, List.cons_append, List.nil_append]

/-- `ffs2c` is the quoting rule of the standard (for every value `write_key` accepts) -/
theorem s2c_eq_quoted (v : Str) (hl : storedLen v ≤ 68) : s2c v = quoted v := by
  rw [s2c_dbl v hl, quoted, ljust, ← dbl_eq_doubled, dbl_length]
  simp

/-- `fits_write_key(TSTRING)` without a comment -/
theorem fmtCard_cardStr (key v : Str) (hk : isCommentary key = false) (hk8 : key.length ≤ 8)
    (hl : storedLen v ≤ 68) : fmtCard (cardStr key v []) = stringCard key v := by
  have hq : (s2c v).head? = some '\'' := by rw [s2c_dbl v hl]; rfl
  have hlen : (s2c v).length ≤ 70 := by
    rw [s2c_dbl v hl]
    simp only [List.length_cons, List.length_append, List.length_replicate, dbl_length, List.length_nil]
    omega
  unfold fmtCard cardStr stringCard record
  simp only [hk, Bool.false_eq_true, if_false, hq, if_true, ← ljust_eq_padTo, ← s2c_eq_quoted v hl]
  apply List.take_of_length_le
  have hl8 : (ljust 8 key).length = 8 := padTo_length 8 key hk8
  simp only [ljust, List.length_append, List.length_replicate, List.length_cons, List.length_nil] at hl8 ⊢
  omega

/-- `fits_write_key(TINT)` of a spline order -/
theorem fmtCard_cardInt (key : Str) (v : Nat) (hk : isCommentary key = false) (hk8 : key.length ≤ 8)
    (hv : v < 2147483648) :
    fmtCard (cardInt key v "B-Spline Order".toList) = valueCard key (dec v) "B-Spline Order".toList := by
  have hval : (cardInt key v "B-Spline Order".toList).val = natStr v := cardInt_val key v _ hv
  have hc : cardInt key v "B-Spline Order".toList = ⟨key, natStr v, "B-Spline Order".toList⟩ := by
    rw [← hval]; rfl
  have hlen := Codec.natStr_length v 10 (by omega) (by omega)
  obtain ⟨c, r, hcr, hcd⟩ := natStr_head v
  rw [hc, ← natStr_eq_dec]
  apply fmtCard_value _ _ _ hk hk8
  · rw [hcr]; intro h; injection h with h; subst h; revert hcd; decide
  · have : ("B-Spline Order".toList = ([] : Str)) = False := by decide
    simp only [this, if_false]
    have : "B-Spline Order".toList.length = 14 := rfl
    omega

/-- `fits_write_key(TDOUBLE)`, number text a parameter -/
theorem fmtCard_cardDbl (E : Ext) (key : Str) (x : UInt64) (hk : isCommentary key = false) (hk8 : key.length ≤ 8)
    (hx : NumText (E.fmtD x)) : fmtCard (cardDbl E key x) = valueCard key (E.fmtD x) [] := by
  unfold cardDbl
  apply fmtCard_value _ _ _ hk hk8 hx.noQuote
  have := hx.len
  simp only [if_true]; omega


/-! ## the mandatory keywords -/

/-- the formatter `encodeHeader` applies to the mandatory keywords -/
def fmtStruct (c : Card) : Str := fmtCard { c with com := structComment c.key }

theorem natStr_noQuote (n : Nat) : (natStr n).head? ≠ some '\'' := by
  obtain ⟨c, r, hcr, hcd⟩ := natStr_head n
  rw [hcr]; intro h; injection h with h; subst h; revert hcd; decide

theorem fmtStruct_naxisN (i a : Nat) (hi : i ≤ 999) (ha : a < 10 ^ 20) :
    fmtStruct ⟨"NAXIS".toList ++ natStr i, natStr a, []⟩
      = valueCard ("NAXIS".toList ++ dec i) (dec a) ("length of data axis ".toList ++ dec i) := by
  have hk := keyOK_naxis i hi
  have hl := Codec.natStr_length i 3 (by omega) (by omega)
  have hla := Codec.natStr_length a 20 (by omega) ha
  unfold fmtStruct
  simp only [structComment_naxisN]
  rw [← natStr_eq_dec, ← natStr_eq_dec]
  apply fmtCard_value _ _ _ hk.notCommentary hk.len (natStr_noQuote a)
  have hne : ("length of data axis ".toList ++ natStr i = ([] : Str)) = False := by simp
  simp only [hne, if_false, List.length_append]
  have : "length of data axis ".toList.length = 20 := rfl
  omega

theorem fmtStruct_naxis (n : Nat) (hn : n ≤ 999) :
    fmtStruct ⟨"NAXIS".toList, natStr n, []⟩ = valueCard "NAXIS".toList (dec n) "number of data axes".toList := by
  have hl := Codec.natStr_length n 3 (by omega) (by omega)
  unfold fmtStruct
  rw [← natStr_eq_dec]
  have hc : structComment "NAXIS".toList = "number of data axes".toList := by decide
  simp only [hc]
  apply fmtCard_value _ _ _ (by decide) (by decide) (natStr_noQuote n)
  have hne : ("number of data axes".toList = ([] : Str)) = False := by decide
  simp only [hne, if_false]
  have : "number of data axes".toList.length = 19 := rfl
  omega

theorem map_axisCards (axes : List Nat) (hax : axes.length ≤ 999) (hlt : ∀ a ∈ axes, a < 10 ^ 20) :
    (axisCards axes).map fmtStruct = (List.range axes.length).map fun j =>
      valueCard ("NAXIS".toList ++ dec (j+1)) (dec (axes.getD j 0)) ("length of data axis ".toList ++ dec (j+1)) := by
  unfold axisCards
  rw [List.map_map]
  apply List.map_congr_left
  intro j hj
  rw [List.mem_range] at hj
  have ha : axes.getD j 0 < 10 ^ 20 := by
    rw [List.getD_eq_getElem?_getD, List.getElem?_eq_getElem hj]
    exact hlt _ (List.getElem_mem hj)
  exact fmtStruct_naxisN (j+1) _ (by omega) ha

/-- mandatory keywords of the primary unit -/
theorem struct_primary (axes : List Nat) (cards : List Card) (d : List UInt32)
    (hax : axes.length ≤ 999) (hlt : ∀ a ∈ axes, a < 10 ^ 20) :
    (structCards true ⟨axes, cards, .f32 d⟩).map fmtStruct =
      [ valueCard "SIMPLE".toList ['T'] "file does conform to FITS standard".toList,
        valueCard "BITPIX".toList "-32".toList "number of bits per data pixel".toList,
        valueCard "NAXIS".toList (dec axes.length) "number of data axes".toList ]
      ++ (List.range axes.length).map (fun j =>
          valueCard ("NAXIS".toList ++ dec (j+1)) (dec (axes.getD j 0)) ("length of data axis ".toList ++ dec (j+1))) := by
  have h1 : fmtStruct ⟨"SIMPLE".toList, ['T'], []⟩
      = valueCard "SIMPLE".toList ['T'] "file does conform to FITS standard".toList := by decide
  have h2 : fmtStruct ⟨"BITPIX".toList, intStr (-32), []⟩
      = valueCard "BITPIX".toList "-32".toList "number of bits per data pixel".toList := by decide
  simp only [structCards, if_true, List.map_append, List.map_cons, List.map_nil, Pix.bitpix, h1, h2,
    fmtStruct_naxis _ hax, map_axisCards axes hax hlt, List.append_nil]
  rfl

/-- mandatory keywords of a one-dimensional double image extension -/
theorem struct_ext (n : Nat) (cards : List Card) (d : List UInt64) (hn : n < 10 ^ 20) :
    (structCards false ⟨[n], cards, .f64 d⟩).map fmtStruct =
      [ stringCardC "XTENSION".toList "IMAGE".toList "IMAGE extension".toList,
        valueCard "BITPIX".toList "-64".toList "number of bits per data pixel".toList,
        valueCard "NAXIS".toList ['1'] "number of data axes".toList,
        valueCard "NAXIS1".toList (dec n) "length of data axis 1".toList,
        valueCard "PCOUNT".toList ['0'] "required keyword; must = 0".toList,
        valueCard "GCOUNT".toList ['1'] "required keyword; must = 1".toList ] := by
  have h1 : fmtStruct ⟨"XTENSION".toList, "'IMAGE   '".toList, []⟩
      = stringCardC "XTENSION".toList "IMAGE".toList "IMAGE extension".toList := by decide
  have h2 : fmtStruct ⟨"BITPIX".toList, intStr (-64), []⟩
      = valueCard "BITPIX".toList "-64".toList "number of bits per data pixel".toList := by decide
  have h3 : fmtStruct ⟨"NAXIS".toList, natStr 1, []⟩
      = valueCard "NAXIS".toList ['1'] "number of data axes".toList := by decide
  have h4 := fmtStruct_naxisN 1 n (by omega) hn
  have h5 : fmtStruct ⟨"PCOUNT".toList, ['0'], []⟩
      = valueCard "PCOUNT".toList ['0'] "required keyword; must = 0".toList := by decide
  have h6 : fmtStruct ⟨"GCOUNT".toList, ['1'], []⟩
      = valueCard "GCOUNT".toList ['1'] "required keyword; must = 1".toList := by decide
  have e1 : "NAXIS".toList ++ natStr 1 = "NAXIS1".toList := by decide
  have e2 : "NAXIS".toList ++ dec 1 = "NAXIS1".toList := by decide
  have e3 : "length of data axis ".toList ++ dec 1 = "length of data axis 1".toList := by decide
  rw [e1, e2, e3] at h4
  simp only [structCards, Bool.false_eq_true, if_false, List.map_append, List.map_cons, List.map_nil, Pix.bitpix,
    axisCards, List.length_cons, List.length_nil, List.range, List.range.loop, List.getD_cons_zero,
    h1, h2, h3, e1, h4, h5, h6]
  rfl


/-! ## the keywords `write_fits_core` writes into the primary header -/

set_option maxRecDepth 4000 in
theorem map_primaryBoiler : primaryBoiler.map fmtCard =
    [ valueCard "EXTEND".toList ['T'] "FITS dataset may contain extensions".toList,
      commentCard "  FITS (Flexible Image Transport System) format is defined in 'Astronomy".toList,
      commentCard "  and Astrophysics', volume 376, page 359; bibcode: 2001A&A...376..359H".toList ] := by
  have h1 : fmtCard ⟨"EXTEND".toList, ['T'], "FITS dataset may contain extensions".toList⟩
      = valueCard "EXTEND".toList ['T'] "FITS dataset may contain extensions".toList := by decide
  have h2 : fmtCard ⟨"COMMENT".toList, [], "  FITS (Flexible Image Transport System) format is defined in 'Astronomy".toList⟩
      = commentCard "  FITS (Flexible Image Transport System) format is defined in 'Astronomy".toList := by decide
  have h3 : fmtCard ⟨"COMMENT".toList, [], "  and Astrophysics', volume 376, page 359; bibcode: 2001A&A...376..359H".toList⟩
      = commentCard "  and Astrophysics', volume 376, page 359; bibcode: 2001A&A...376..359H".toList := by decide
  simp only [primaryBoiler, List.map_cons, List.map_nil, h1, h2, h3]

theorem fmtCard_typeCard : fmtCard typeCard = stringCard "TYPE".toList "Spline Coefficient Table".toList :=
  fmtCard_cardStr _ _ (by decide) (by decide) (by decide)

theorem getD_mem_lt {l : List Nat} {i b : Nat} (hi : i < l.length) (h : ∀ o ∈ l, o < b) : l.getD i 0 < b := by
  rw [List.getD_eq_getElem?_getD, List.getElem?_eq_getElem hi]
  exact h _ (List.getElem_mem hi)

theorem map_orderCards (t : Table) (hnd : t.ndim ≤ 1000) (hlt : ∀ o ∈ t.order, o < 2147483648) :
    (orderCards t).map fmtCard = (List.range t.ndim).map fun i =>
      valueCard ("ORDER".toList ++ dec i) (dec (t.order.getD i 0)) "B-Spline Order".toList := by
  unfold orderCards
  rw [List.map_map]
  apply List.map_congr_left
  intro i hi
  rw [List.mem_range] at hi
  obtain ⟨hk, _, _⟩ := keyN_order_ok i (by omega)
  show fmtCard (cardInt (keyN "ORDER" i) (t.order.getD i 0) "B-Spline Order".toList) = _
  rw [fmtCard_cardInt _ _ hk.notCommentary hk.len (getD_mem_lt hi hlt), keyN_eq]

theorem map_periodCards (E : Ext) (t : Table) (h : Encodable E t) :
    (periodCards E t).map fmtCard = periodRecords E t := by
  unfold periodCards periodRecords
  cases hp : t.periods with
  | none => rfl
  | some p =>
    simp only
    rw [List.map_map]
    apply List.map_congr_left
    intro i hi
    rw [List.mem_range] at hi
    have hnd : t.ndim ≤ 100 := h.periods_dim (by rw [hp]; exact fun e => nomatch e)
    have hpl := h.periods_len p hp
    have hip : i < p.length := by omega
    obtain ⟨hk, _, _⟩ := keyN_period_ok i (by omega)
    have hx : NumText (E.fmtD (p.getD i 0)) := by
      apply h.periods_text p hp
      rw [List.getD_eq_getElem?_getD, List.getElem?_eq_getElem hip]
      exact List.getElem_mem hip
    show fmtCard (cardDbl E (keyN "PERIOD" i) (p.getD i 0)) = _
    rw [fmtCard_cardDbl E _ _ hk.notCommentary hk.len hx, keyN_eq]

theorem map_auxCards (E : Ext) (t : Table) (h : Encodable E t) :
    (auxCards t).map fmtCard = t.aux.map fun kv => stringCard kv.1 kv.2 := by
  unfold auxCards
  rw [List.map_map]
  apply List.map_congr_left
  intro kv hkv
  obtain ⟨hk, _, _, _, hl⟩ := h.aux_ok kv hkv
  exact fmtCard_cardStr _ _ hk.notCommentary hk.len hl

theorem wAxes_getD (t : Table) (j : Nat) (hj : j < t.ndim) : (wAxes t).getD j 0 = t.naxes.getD (t.ndim - 1 - j) 0 := by
  unfold wAxes
  rw [List.getD_eq_getElem?_getD, List.getElem?_map, List.getElem?_range hj]
  simp only [Option.map_some, Option.getD_some]
  congr 1; omega

theorem wAxes_length (t : Table) : (wAxes t).length = t.ndim := by simp [wAxes]

/-- the primary header, record by record -/
theorem primary_records (E : Ext) (t : Table) (h : Encodable E t) (hlt : ∀ o ∈ t.order, o < 2147483648) :
    (structCards true (primHdu E false t)).map (fun c => fmtCard { c with com := structComment c.key })
      ++ (primHdu E false t).cards.map fmtCard = primaryHeader E t := by
  have hax : wAxes t = t.naxes.reverse := wAxes_eq t h.naxes_len
  have hl : (wAxes t).length ≤ 999 := by rw [wAxes_length]; exact h.ndim_le
  have hlt' : ∀ a ∈ wAxes t, a < 10 ^ 20 := by
    intro a ha; rw [hax] at ha; exact h.naxes_lt a (List.mem_reverse.mp ha)
  have hnax : (List.range (wAxes t).length).map (fun j =>
      valueCard ("NAXIS".toList ++ dec (j+1)) (dec ((wAxes t).getD j 0)) ("length of data axis ".toList ++ dec (j+1)))
      = (List.range t.ndim).map (fun j =>
      valueCard ("NAXIS".toList ++ dec (j+1)) (dec (t.naxes.getD (t.ndim - 1 - j) 0))
        ("length of data axis ".toList ++ dec (j+1))) := by
    rw [wAxes_length]
    apply List.map_congr_left
    intro j hj
    rw [wAxes_getD t j (List.mem_range.mp hj)]
  show (structCards true ⟨wAxes t, _, .f32 _⟩).map fmtStruct ++ _ = _
  rw [struct_primary (wAxes t) _ _ hl hlt', hnax, wAxes_length]
  show _ ++ (primaryBoiler ++ [typeCard] ++ ordCards false t ++ periodCards E t ++ auxCards t).map fmtCard = _
  simp only [List.map_append, map_primaryBoiler, List.map_cons, List.map_nil, fmtCard_typeCard, ordCards,
    Bool.false_eq_true, if_false, map_orderCards t (by have := h.ndim_le; omega) hlt, map_periodCards E t h,
    map_auxCards E t h]
  simp only [primaryHeader, List.append_assoc, List.cons_append, List.nil_append]

/-- **unit 0**: the primary header and the coefficient image -/
theorem primary_unit (E : Ext) (t : Table) (h : Encodable E t) (hlt : ∀ o ∈ t.order, o < 2147483648)
    (hc : t.coef.length = prod t.naxes) :
    encodeHdu true (primHdu E false t) = primaryUnit E t := by
  unfold encodeHdu primaryUnit
  rw [encodeHeader_layout true _ _ (primary_records E t h hlt)]
  show _ ++ encodeData (.f32 (t.coef.take (prod (wAxes t)))) = _
  rw [wAxes_eq t h.naxes_len, prod_reverse, List.take_of_length_le (by omega), encodeData_f32]
  rfl


/-! ## the extension units and the whole file -/

theorem ext_unit (n : Nat) (d : List UInt64) (nm : Str) (hn : n < 10 ^ 20) (hl : storedLen nm ≤ 68) :
    encodeHdu false (extHdu [n] (.f64 d) nm) = headerUnit (extensionHeader nm n) ++ dataUnit (f64Data d) := by
  unfold encodeHdu
  have hr : (structCards false (extHdu [n] (.f64 d) nm)).map (fun c => fmtCard { c with com := structComment c.key })
      ++ (extHdu [n] (.f64 d) nm).cards.map fmtCard = extensionHeader nm n := by
    show (structCards false ⟨[n], _, .f64 d⟩).map fmtStruct ++ [cardStr "EXTNAME".toList nm []].map fmtCard = _
    rw [struct_ext n _ d hn]
    simp only [List.map_cons, List.map_nil, fmtCard_cardStr "EXTNAME".toList nm (by decide) (by decide) hl]
    rfl
  rw [encodeHeader_layout false _ _ hr]
  show _ ++ encodeData (.f64 d) = _
  rw [encodeData_f64]

theorem knot_unit (E : Ext) (t : Table) (h : Encodable E t) (i : Nat) (hi : i < t.ndim) :
    encodeHdu false (knotHdu t i) = knotUnit t i := by
  rw [knotHdu_eq]
  obtain ⟨_, h2, h3⟩ := keyN_knots_text i (by have := h.ndim_le; omega)
  have hk : (t.knots.getD i []).length < 10 ^ 20 := by
    rw [List.getD_eq_getElem?_getD]
    cases hk : t.knots[i]? with
    | none => simp
    | some k => exact h.knots_lt k (List.mem_of_getElem? hk)
  rw [ext_unit _ _ _ hk (by rw [storedLen_plain _ h2]; exact h3), keyN_eq]
  rfl

theorem extents_units (E : Ext) (t : Table) (h : Encodable E t)
    (hel : ∀ e, t.extents = some e → e.length = 2 * t.ndim) :
    (extentsHdus t).flatMap (encodeHdu false) = extentsUnits t := by
  unfold extentsHdus extentsUnits
  cases he : t.extents with
  | none => rfl
  | some e =>
    simp only [List.flatMap_cons, List.flatMap_nil, List.append_nil]
    rw [updateKey_createImg, List.take_of_length_le (by rw [hel e he]; exact Nat.le_refl _)]
    have hnd := h.ndim_le
    have h20 : (10 : Nat) ^ 20 = 100000000000000000000 := by decide
    exact ext_unit _ _ _ (by rw [h20]; omega) (by decide)

theorem flatMap_congr' {α β} (l : List α) (f g : α → List β) (h : ∀ a ∈ l, f a = g a) :
    l.flatMap f = l.flatMap g := by
  induction l with
  | nil => rfl
  | cons a r ih =>
    rw [List.flatMap_cons, List.flatMap_cons, h a (by simp), ih (fun b hb => h b (by simp [hb]))]

theorem encodeAux_false (l : List Hdu) : encodeAux false l = l.flatMap (encodeHdu false) := by
  induction l with
  | nil => rfl
  | cons a r ih => rw [encodeAux, ih, List.flatMap_cons]

/-- **The encoder meets the documented layout**: for every table in the domain of the writer model and of the byte
    codec, the bytes of the file are the bytes the independent description lists. -/
theorem encode_writeCore_eq_layout (E : Ext) (t : Table) (h : Encodable E t)
    (hlt : ∀ o ∈ t.order, o < 2147483648) (hc : t.coef.length = prod t.naxes)
    (hel : ∀ e, t.extents = some e → e.length = 2 * t.ndim) :
    encodeFits (writeCore E t) = layoutBytes E t := by
  have hk : ((List.range t.ndim).map (knotHdu t)).flatMap (encodeHdu false)
      = (List.range t.ndim).flatMap (knotUnit t) := by
    rw [List.flatMap_map]
    apply flatMap_congr'
    intro i hi
    exact knot_unit E t h i (List.mem_range.mp hi)
  have h0 : encodeFits (writeCore E t)
      = encodeHdu true (primHdu E false t) ++ encodeAux false (restHdus t) := rfl
  rw [h0, encodeAux_false, restHdus, List.flatMap_append, hk, primary_unit E t h hlt hc, extents_units E t h hel,
    layoutBytes, List.append_assoc]


/-! ## pixel numbering: reversed axes + first-axis-fastest = row-major -/

theorem fitsIndex_snoc : ∀ (A P : List Nat) (a p : Nat), A.length = P.length →
    fitsIndex (A ++ [a]) (P ++ [p]) = fitsIndex A P + prod A * p
  | [], [], a, p, _ => by simp [fitsIndex, prod]
  | x :: A, y :: P, a, p, h => by
    have h' : A.length = P.length := by simpa using h
    simp only [List.cons_append, fitsIndex, fitsIndex_snoc A P a p h', prod_cons, Nat.mul_add, Nat.mul_assoc,
      Nat.add_assoc]
  | [], _ :: _, _, _, h => by simp at h
  | _ :: _, [], _, _, h => by simp at h

/-- **Axis reversal is right**: the pixel of the FITS image (axes = reversed `naxes`, first axis fastest) whose
    coordinates are the reversed multi-index `idx` is element `Σ idx[i]·strides[i]` of the table's row-major array —
    so writing the coefficient array in memory order into the image with reversed axes stores
    coefficient `idx` at pixel `(idx[n-1]+1, …, idx[0]+1)`. -/
theorem fitsIndex_reverse : ∀ (naxes idx : List Nat), naxes.length = idx.length →
    fitsIndex naxes.reverse idx.reverse = tableIndex (rowMajor naxes) idx
  | [], [], _ => rfl
  | a :: as, i :: is, h => by
    have h' : as.length = is.length := by simpa using h
    rw [List.reverse_cons, List.reverse_cons,
      fitsIndex_snoc _ _ _ _ (by rw [List.length_reverse, List.length_reverse]; exact h'),
      fitsIndex_reverse as is h', prod_reverse, rowMajor, tableIndex]
    rw [Nat.add_comm, Nat.mul_comm]
  | [], _ :: _, h => by simp at h
  | _ :: _, [], h => by simp at h

/-! ## where a coefficient is in the file -/

theorem bigEndian_length (k n : Nat) : (bigEndian k n).length = k := by simp [bigEndian]

theorem flatMap_drop_take {α β} (f : α → List β) (k : Nat) (hf : ∀ a, (f a).length = k) :
    ∀ (l : List α) (j : Nat) (hj : j < l.length), ((l.flatMap f).drop (k * j)).take k = f l[j]
  | a :: r, 0, _ => by
    simp only [Nat.mul_zero, List.drop_zero, List.flatMap_cons, List.getElem_cons_zero]
    rw [List.take_left' (hf a)]
  | a :: r, j+1, hj => by
    have hj' : j < r.length := by simpa using hj
    rw [List.flatMap_cons, Nat.mul_succ, Nat.add_comm, ← List.drop_drop, List.drop_left' (hf a)]
    simpa using flatMap_drop_take f k hf r j hj'

theorem headerUnit_length (recs : List Str) : (headerUnit recs).length % 2880 = 0 := by
  simp only [headerUnit, List.length_map, List.length_append, List.length_replicate, fill]
  omega

/-- In the documented layout the primary data start on a block boundary right after the primary header, and the four
    bytes at offset `4·j` of the data are the big-endian bit pattern of `coef[j]` — for every bit pattern. -/
theorem layout_coef_bytes (E : Ext) (t : Table) (j : Nat) (hj : j < t.coef.length) :
    ∃ hdr rest, layoutBytes E t = hdr ++ rest ∧ hdr = headerUnit (primaryHeader E t) ∧ hdr.length % 2880 = 0 ∧
      (rest.drop (4 * j)).take 4 = bigEndian 4 t.coef[j].toNat := by
  refine ⟨headerUnit (primaryHeader E t),
    dataUnit (coefData t) ++ ((List.range t.ndim).flatMap (knotUnit t) ++ extentsUnits t), ?_, rfl,
    headerUnit_length _, ?_⟩
  · simp only [layoutBytes, primaryUnit, List.append_assoc]
  · have hlen : 4 * j + 4 ≤ (coefData t).length := by
      have : (coefData t).length = 4 * t.coef.length := by
        unfold coefData
        induction t.coef with
        | nil => rfl
        | cons a r ih => rw [List.flatMap_cons, List.length_append, ih, bigEndian_length, List.length_cons]; omega
      omega
    have h1 := flatMap_drop_take (fun w : UInt32 => bigEndian 4 w.toNat) 4 (fun _ => bigEndian_length _ _) t.coef j hj
    unfold dataUnit
    rw [List.append_assoc, List.drop_append_of_le_length (by omega), List.take_append_of_le_length]
    · exact h1
    · rw [List.length_drop]; omega

end PsV.Fits.Layout
