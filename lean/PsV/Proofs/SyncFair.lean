import PsV.Proofs.SyncLive
/-! Strong fairness ⇒ termination, for the repaired protocol with unboundedly many spurious wake-ups.

`prog = 3·rank + corr` is a progress measure that never increases — not even under spurious wake-ups — and strictly
decreases on every transition except the three *futile* ones of a thread whose wait predicate is still false
(spuriously woken, re-acquire the mutex, wait again).  An infinite execution therefore has a tail of futile steps only;
in that tail some thread is *pending* (its next call makes progress), keeps being pending, and is enabled whenever the
mutex is free, which happens infinitely often if the mutex holder is treated fairly.  A strongly fair scheduler must
run it — contradiction. -/
namespace PsV.Sync

/-! ## the progress measure -/
def corrW (p : WPc) (st : WSt) : Nat :=
  match st, p with
  | .wait, .waiting => 6 | .wait, .hold => 3 | .wait, .lock1 => 1 | _, _ => 0
def corrC : CPc → Nat
  | .waiting => 6 | .condWait => 3 | _ => 0
def corr (c : Cfg) (s : State) : Nat := corrC s.cpc + sumTo c.n (fun w => corrW (s.wpc w) (s.st w))
def prog (c : Cfg) (s : State) : Nat := 3 * rank c s + corr c s

/-- thread `t` is in a futile position: its next pthread call only re-tests a predicate that is still false -/
def futile (c : Cfg) (s : State) : Nat → Bool
  | 0 => s.cpc == .condWait || (s.cpc == .woken && !allWait c s)
  | w+1 => s.st w == .wait && (s.wpc w == .hold || s.wpc w == .woken)

theorem sumTo_upd_eq (n : Nat) (f g : Nat → Nat) (w : Nat) (hw : w < n) (h : ∀ k, k < n → k ≠ w → g k = f k) :
    sumTo n g + f w = sumTo n f + g w := by
  induction n with
  | zero => omega
  | succ n ih =>
    simp only [sumTo]
    rcases Nat.lt_or_ge w n with h1 | h1
    · have := ih h1 (fun k hk hne => h k (Nat.lt_succ_of_lt hk) hne)
      have := h n (Nat.lt_succ_self n) (by omega)
      omega
    · have hwn : w = n := by omega
      subst hwn
      have e : sumTo w g = sumTo w f := by
        have h1 := sumTo_le_add w f g 0 (fun k hk => by rw [h k (Nat.lt_succ_of_lt hk) (by omega)]; omega)
        have h2 := sumTo_le_add w g f 0 (fun k hk => by rw [h k (Nat.lt_succ_of_lt hk) (by omega)]; omega)
        omega
      omega

theorem corrC_wakeC (p : CPc) : corrC (wakeC p) ≤ corrC p := by cases p <;> simp [wakeC, corrC]
theorem corrW_wake (p : WPc) (st : WSt) : corrW (if p = .waiting then .woken else p) st ≤ corrW p st := by
  cases p <;> cases st <;> simp [corrW]
theorem corrW_run (p : WPc) : corrW p .run = 0 := by cases p <;> rfl
theorem corrW_term (p : WPc) : corrW p .term = 0 := by cases p <;> rfl

/-- worker steps: `corr` grows by at most 3, and by at most 2 unless the step is futile -/
theorem corr_stepW (c : Cfg) (s s' : State) (w : Nat) (hw : w < c.n) (hs : stepW s w = some s') :
    corr c s' ≤ corr c s + (if futile c s (w+1) then 3 else 2) := by
  have key : ∀ e, corrC s'.cpc ≤ corrC s.cpc →
      (∀ k, k < c.n → k ≠ w → corrW (s'.wpc k) (s'.st k) ≤ corrW (s.wpc k) (s.st k)) →
      corrW (s'.wpc w) (s'.st w) ≤ corrW (s.wpc w) (s.st w) + e → corr c s' ≤ corr c s + e := by
    intro e h1 h2 h3
    have := sumTo_upd_incr c.n (fun k => corrW (s.wpc k) (s.st k)) (fun k => corrW (s'.wpc k) (s'.st k)) w e h2 h3
    simp only [corr]; omega
  unfold stepW at hs
  cases hp : s.wpc w <;> simp only [hp] at hs
  case idle => cases hs
  case waiting => cases hs
  case done => cases hs
  case lock1 =>
    split at hs
    · injection hs with hs; subst hs
      have := key 2 (Nat.le_refl _) (fun k _ hne => by simp [upd, hne]) (by simp [upd, hp]; cases s.st w <;> simp [corrW])
      split <;> omega
    · cases hs
  case hold =>
    cases hst : s.st w <;> simp only [hst] at hs <;> injection hs with hs <;> subst hs
    · have := key 3 (Nat.le_refl _) (fun k _ hne => by simp [upd, hne]) (by simp [upd, hp, hst, corrW])
      simp [futile, hp, hst]; exact this
    · have := key 0 (Nat.le_refl _) (fun k _ hne => by simp [upd, hne]) (by simp [upd, hp, hst, corrW])
      split <;> omega
    · have := key 0 (Nat.le_refl _) (fun k _ hne => by simp [upd, hne]) (by simp [upd, hp, hst, corrW])
      split <;> omega
  case woken =>
    split at hs
    · injection hs with hs; subst hs
      cases hst : s.st w
      · have := key 3 (Nat.le_refl _) (fun k _ hne => by simp [upd, hne]) (by simp [upd, hp, hst, corrW])
        simp [futile, hp, hst]; exact this
      · have := key 0 (Nat.le_refl _) (fun k _ hne => by simp [upd, hne]) (by simp [upd, hp, hst, corrW])
        split <;> omega
      · have := key 0 (Nat.le_refl _) (fun k _ hne => by simp [upd, hne]) (by simp [upd, hp, hst, corrW])
        split <;> omega
    · cases hs
  case lock2 =>
    split at hs
    · injection hs with hs; subst hs
      have := key 0 (Nat.le_refl _) (fun k _ hne => by simp [upd, hne]) (by simp [upd, corrW])
      split <;> omega
    · cases hs
  case bcast =>
    injection hs with hs; subst hs
    have := key 0 (corrC_wakeC _) (fun k _ hne => by simp only [upd, hne, if_false, wakeAll]; exact corrW_wake _ _)
      (by simp [upd]; cases s.st w <;> simp [corrW])
    split <;> omega
  case unlock2 =>
    injection hs with hs; subst hs
    have := key 1 (Nat.le_refl _) (fun k _ hne => by simp [upd, hne]) (by simp [upd, hp]; cases s.st w <;> simp [corrW])
    split <;> omega
  case exit =>
    injection hs with hs; subst hs
    have := key 0 (Nat.le_refl _) (fun k _ hne => by simp [upd, hne]) (by simp [upd]; cases s.st w <;> simp [corrW])
    split <;> omega

theorem corr_le_of_pointwise (c : Cfg) (s s' : State) (e : Nat) (h1 : corrC s'.cpc ≤ corrC s.cpc + e)
    (h2 : ∀ k, k < c.n → corrW (s'.wpc k) (s'.st k) ≤ corrW (s.wpc k) (s.st k)) : corr c s' ≤ corr c s + e := by
  have := sumTo_le_add c.n (fun k => corrW (s.wpc k) (s.st k)) (fun k => corrW (s'.wpc k) (s'.st k)) 0
    (fun k hk => by have := h2 k hk; omega)
  simp only [corr]; omega

/-- coordinator steps other than the one from `lockB`: `corr` grows by at most 3, by at most 2 unless futile -/
theorem corr_stepC (c : Cfg) (s s' : State) (hs : stepC c s = some s') (hB : s.cpc ≠ .lockB) :
    corr c s' ≤ corr c s + (if futile c s 0 then 3 else 2) := by
  have hweak : ∀ x, x ≤ corr c s + 2 → x ≤ corr c s + (if futile c s 0 then 3 else 2) := by
    intro x hx; split <;> omega
  have hsame : ∀ (p : CPc) (o : Option Nat), corrC p = 0 →
      corr c { s with cpc := p, owner := o } ≤ corr c s + 2 := by
    intro p o h0
    have := corr_le_of_pointwise c s { s with cpc := p, owner := o } 0 (by simp [h0]) (fun k _ => Nat.le_refl _)
    omega
  cases hp : s.cpc with
  | lockB => exact absurd hp hB
  | final => simp [stepC, hp] at hs
  | waiting => simp [stepC, hp] at hs
  | create k =>
    simp only [stepC, hp] at hs; injection hs with hs; subst hs
    apply hweak
    have hsum := sumTo_upd_incr c.n (fun w => corrW (s.wpc w) (s.st w))
      (fun w => corrW (upd s.wpc k .lock1 w) (s.st w)) k 1
      (fun w _ hne => by simp [upd, hne]) (by simp [upd]; cases s.st k <;> cases s.wpc k <;> simp [corrW])
    have hc : corrC (if k + 1 < c.n then CPc.create (k+1) else loopHead c 0 false) = 0 := by
      split
      · rfl
      · simp only [loopHead]; split <;> rfl
    simp only [corr, hc]
    omega
  | lockA =>
    simp only [stepC, hp] at hs; split at hs
    · injection hs with hs; subst hs
      apply hweak
      refine Nat.le_trans (corr_le_of_pointwise c s _ 0 (by simp [corrC]) ?_) (by omega)
      intro k _
      show corrW (s.wpc k) (if k < c.active s.blk then WSt.run else s.st k) ≤ _
      split
      · rw [corrW_run]; exact Nat.zero_le _
      · exact Nat.le_refl _
    · cases hs
  | lockT =>
    simp only [stepC, hp] at hs; split at hs
    · injection hs with hs; subst hs
      apply hweak
      refine Nat.le_trans (corr_le_of_pointwise c s _ 0 (by simp [corrC]) ?_) (by omega)
      intro k hk
      show corrW (s.wpc k) (if k < c.n then WSt.term else s.st k) ≤ _
      rw [if_pos hk, corrW_term]; exact Nat.zero_le _
    · cases hs
  | bcastA =>
    simp only [stepC, hp] at hs; injection hs with hs; subst hs
    apply hweak
    refine Nat.le_trans (corr_le_of_pointwise c s _ 0 (by simp [corrC]) ?_) (by omega)
    intro k _; exact corrW_wake _ _
  | bcastT =>
    simp only [stepC, hp] at hs; injection hs with hs; subst hs
    apply hweak
    refine Nat.le_trans (corr_le_of_pointwise c s _ 0 (by simp [corrC]) ?_) (by omega)
    intro k _; exact corrW_wake _ _
  | unlockA =>
    simp only [stepC, hp] at hs; injection hs with hs; subst hs
    exact hweak _ (hsame _ _ rfl)
  | unlockT =>
    simp only [stepC, hp] at hs; injection hs with hs; subst hs
    exact hweak _ (hsame _ _ rfl)
  | unlockB =>
    simp only [stepC, hp] at hs; injection hs with hs; subst hs
    have hc : corrC (loopHead c (s.blk + 1) (scan c s.val s.blk (s.base, s.chosen)).2.isSome) = 0 := by
      simp only [loopHead]; split <;> rfl
    apply hweak
    refine Nat.le_trans (corr_le_of_pointwise c s _ 0 (by simp only [hc]; omega) (fun k _ => Nat.le_refl _)) (by omega)
  | condWait =>
    simp only [stepC, hp] at hs; injection hs with hs; subst hs
    have hf : futile c s 0 = true := by simp [futile, hp]
    rw [hf, if_pos rfl]
    exact corr_le_of_pointwise c s _ 3 (by simp [hp, corrC]) (fun k _ => Nat.le_refl _)
  | woken =>
    simp only [stepC, hp] at hs; split at hs
    · injection hs with hs; subst hs
      cases ha : allWait c s
      · have hf : futile c s 0 = true := by simp [futile, hp, ha]
        rw [hf, if_pos rfl]
        exact corr_le_of_pointwise c s _ 3 (by simp [hp, corrC, ha]) (fun k _ => Nat.le_refl _)
      · apply hweak
        refine Nat.le_trans (corr_le_of_pointwise c s _ 0 (by simp [corrC, ha]) (fun k _ => Nat.le_refl _)) (by omega)
    · cases hs
  | join k =>
    simp only [stepC, hp] at hs; split at hs
    · injection hs with hs; subst hs
      have hc : corrC (if k + 1 < c.n then CPc.join (k+1) else CPc.final) = 0 := by split <;> rfl
      apply hweak
      refine Nat.le_trans (corr_le_of_pointwise c s _ 0 (by simp only [hc]; omega) (fun k _ => Nat.le_refl _)) (by omega)
    · cases hs

/-- the coordinator's step from `lockB` (re-acquire the mutex, test the states): the rank drops by at least 2 -/
theorem prog_lockB (c : Cfg) (s s' : State) (hs : stepC c s = some s') (hB : s.cpc = .lockB) :
    prog c s' < prog c s := by
  simp only [stepC, hB] at hs; split at hs
  · injection hs with hs; subst hs
    simp only [prog, rank, corr, hB]
    split <;> simp only [rankC, corrC] <;> omega
  · cases hs

/-- **Progress measure**: every pthread-call transition from a state satisfying the invariant leaves `prog`
    non-increasing, and strictly decreases it unless the thread was in a futile position. -/
theorem prog_step (c : Cfg) (s s' : State) (t : Nat) (h : Inv c s) (hs : step? c s t = some s') :
    prog c s' ≤ prog c s ∧ (futile c s t = false → prog c s' < prog c s) := by
  have hr := rank_step c s s' t h hs
  cases t with
  | zero =>
    by_cases hB : s.cpc = .lockB
    · have := prog_lockB c s s' hs hB
      exact ⟨Nat.le_of_lt this, fun _ => this⟩
    · have hc := corr_stepC c s s' hs hB
      simp only [prog]
      constructor
      · split at hc <;> omega
      · intro hf; rw [hf] at hc; simp at hc; omega
  | succ w =>
    simp only [step?] at hs
    split at hs
    · rename_i hw
      have hc := corr_stepW c s s' w hw hs
      simp only [prog]
      constructor
      · split at hc <;> omega
      · intro hf; rw [hf] at hc; simp at hc; omega
    · cases hs

/-- spurious wake-ups never increase `prog`, and decrease it when the woken worker's state is not WAIT -/
theorem prog_spur (c : Cfg) (s s' : State) (t : Nat) (hs : spur? c s t = some s') :
    prog c s' ≤ prog c s ∧ (∀ w, t = w+1 → s.st w ≠ .wait → prog c s' < prog c s) := by
  cases t with
  | zero =>
    simp only [spur?] at hs
    split at hs
    · rename_i hp
      injection hs with hs; subst hs
      refine ⟨?_, fun w hw => by cases hw⟩
      simp only [prog, rank, corr, hp, rankC, corrC]; omega
    · cases hs
  | succ w =>
    simp only [spur?] at hs
    split at hs
    · rename_i hp
      injection hs with hs; subst hs
      have e1 := sumTo_upd_eq c.n (fun k => lw c.n (s.wpc k) (s.st k))
        (fun k => lw c.n (upd s.wpc w .woken k) (s.st k)) w hp.1 (fun k _ hne => by simp [upd, hne])
      have e2 := sumTo_upd_eq c.n (fun k => corrW (s.wpc k) (s.st k))
        (fun k => corrW (upd s.wpc w .woken k) (s.st k)) w hp.1 (fun k _ hne => by simp [upd, hne])
      have h1 : upd s.wpc w .woken w = .woken := by simp [upd]
      rw [h1, hp.2] at e1 e2
      simp only [prog, rank, corr]
      cases hst : s.st w <;> rw [hst] at e1 e2
      · have a1 : lw c.n .waiting .wait = 0 := rfl
        have a2 : lw c.n .woken .wait = 2 := rfl
        have a3 : corrW .waiting .wait = 6 := rfl
        have a4 : corrW .woken .wait = 0 := rfl
        rw [a1, a2] at e1; rw [a3, a4] at e2
        refine ⟨by omega, fun w' hw' hne => ?_⟩
        have : w' = w := by omega
        subst this; exact absurd hst hne
      · have a1 : lw c.n .waiting .run = 8 + BW c.n := rfl
        have a2 : lw c.n .woken .run = 7 + BW c.n := rfl
        have a3 : corrW .waiting .run = 0 := rfl
        have a4 : corrW .woken .run = 0 := rfl
        rw [a1, a2] at e1; rw [a3, a4] at e2
        exact ⟨by omega, fun _ _ _ => by omega⟩
      · have a1 : lw c.n .waiting .term = 4 := rfl
        have a2 : lw c.n .woken .term = 3 := rfl
        have a3 : corrW .waiting .term = 0 := rfl
        have a4 : corrW .woken .term = 0 := rfl
        rw [a1, a2] at e1; rw [a3, a4] at e2
        exact ⟨by omega, fun _ _ _ => by omega⟩
    · cases hs

/-! ## what the futile transitions leave unchanged -/
theorem futile_stepW_frame (c : Cfg) (s s' : State) (w : Nat) (hf : futile c s (w+1) = true)
    (hs : stepW s w = some s') :
    s'.st = s.st ∧ s'.blk = s.blk ∧ s'.cpc = s.cpc ∧ (∀ k, k ≠ w → s'.wpc k = s.wpc k) ∧
    (s'.wpc w = .waiting ∨ s'.wpc w = .hold) ∧ (s.owner ≠ none → s'.owner = none) := by
  simp only [futile, Bool.and_eq_true, Bool.or_eq_true, beq_iff_eq] at hf
  obtain ⟨hst, hp | hp⟩ := hf
  · simp only [stepW, hp, hst] at hs
    injection hs with hs; subst hs
    exact ⟨rfl, rfl, rfl, fun k hk => by simp [upd, hk], Or.inl (by simp [upd]), fun _ => rfl⟩
  · simp only [stepW, hp] at hs
    split at hs
    · rename_i ho
      injection hs with hs; subst hs
      exact ⟨rfl, rfl, rfl, fun k hk => by simp [upd, hk], Or.inr (by simp [upd]), fun h => absurd ho h⟩
    · cases hs

theorem futile_stepC_frame (c : Cfg) (s s' : State) (hf : futile c s 0 = true) (hs : stepC c s = some s') :
    s'.st = s.st ∧ s'.blk = s.blk ∧ s'.wpc = s.wpc ∧ (s'.cpc = .waiting ∨ s'.cpc = .condWait) ∧
    (s.owner ≠ none → s'.owner = none) := by
  simp only [futile, Bool.or_eq_true, Bool.and_eq_true, beq_iff_eq, Bool.not_eq_true'] at hf
  rcases hf with hp | ⟨hp, ha⟩
  · simp only [stepC, hp] at hs
    injection hs with hs; subst hs
    exact ⟨rfl, rfl, rfl, Or.inl rfl, fun _ => rfl⟩
  · simp only [stepC, hp] at hs
    split at hs
    · rename_i ho
      injection hs with hs; subst hs
      exact ⟨rfl, rfl, rfl, Or.inr (by simp [ha]), fun h => absurd ho h⟩
    · cases hs

theorem spurC_frame (c : Cfg) (s s' : State) (hs : spur? c s 0 = some s') :
    s'.st = s.st ∧ s'.blk = s.blk ∧ s'.owner = s.owner ∧ s'.wpc = s.wpc ∧ s.cpc = .waiting ∧ s'.cpc = .woken := by
  simp only [spur?] at hs
  split at hs
  · rename_i hp
    injection hs with hs; subst hs
    exact ⟨rfl, rfl, rfl, rfl, hp, rfl⟩
  · cases hs

theorem spurW_frame (c : Cfg) (s s' : State) (w : Nat) (hs : spur? c s (w+1) = some s') :
    s'.st = s.st ∧ s'.blk = s.blk ∧ s'.owner = s.owner ∧ s'.cpc = s.cpc ∧ s.wpc w = .waiting ∧
    s'.wpc w = .woken ∧ ∀ k, k ≠ w → s'.wpc k = s.wpc k := by
  simp only [spur?] at hs
  split at hs
  · rename_i hp
    injection hs with hs; subst hs
    exact ⟨rfl, rfl, rfl, rfl, hp.2, by simp [upd], fun k hk => by simp [upd, hk]⟩
  · cases hs

theorem allWait_congr (c : Cfg) (s s' : State) (h1 : s'.st = s.st) (h2 : s'.blk = s.blk) :
    allWait c s' = allWait c s := by
  simp only [allWait, h1, h2]

/-! ## pending threads -/
def cSimple : CPc → Bool
  | .create _ | .lockA | .bcastA | .unlockA | .lockB | .unlockB | .lockT | .bcastT | .unlockT => true
  | _ => false
def pcLive : WPc → Bool
  | .lock1 | .hold | .woken | .lock2 | .bcast | .unlock2 | .exit => true
  | _ => false

/-- thread `t` is pending: its next pthread call makes progress, and it will stay so until it runs -/
def Pend (c : Cfg) (s : State) : Nat → Prop
  | 0 => cSimple s.cpc = true ∨ (s.cpc = .woken ∧ allWait c s = true) ∨ (∃ k, s.cpc = .join k ∧ s.wpc k = .done)
  | w+1 => w < c.n ∧ ((s.st w ≠ .wait ∧ pcLive (s.wpc w) = true) ∨ s.wpc w = .bcast)

theorem pend_not_futile (c : Cfg) (s : State) (t : Nat) (h : Pend c s t) : futile c s t = false := by
  cases t with
  | zero =>
    simp only [Pend] at h
    rcases h with h | ⟨h1, h2⟩ | ⟨k, h1, _⟩
    · cases hq : s.cpc <;> simp_all [futile, cSimple]
    · simp [futile, h1, h2]
    · simp [futile, h1]
  | succ w =>
    simp only [Pend] at h
    rcases h.2 with ⟨h1, _⟩ | h1
    · cases hq : s.st w <;> simp_all [futile]
    · simp [futile, h1]

theorem pend_enabled (c : Cfg) (s : State) (t : Nat) (h : Pend c s t) (ho : s.owner = none) :
    (step? c s t).isSome = true := by
  cases t with
  | zero =>
    simp only [Pend] at h
    simp only [step?]
    rcases h with h | ⟨h1, h2⟩ | ⟨k, h1, h2⟩
    · cases hq : s.cpc <;> simp_all [stepC, cSimple]
    · simp [stepC, h1, ho]
    · simp [stepC, h1, h2]
  | succ w =>
    simp only [Pend] at h
    simp only [step?, h.1, if_true]
    rcases h.2 with ⟨_, h1⟩ | h1
    · cases hq : s.wpc w <;> simp_all [stepW, pcLive]
      cases s.st w <;> rfl
    · simp [stepW, h1]

theorem wst_run_or_term (x : WSt) (h : x ≠ .wait) : x = .run ∨ x = .term := by
  cases x <;> simp_all

/-- in every non-final reachable state of the repaired protocol some thread is pending -/
theorem pend_exists (c : Cfg) (s : State) (h : Inv c s) (hr : c.repaired = true) (hf : s.cpc ≠ .final) :
    ∃ t, t ≤ c.n ∧ Pend c s t := by
  -- a worker whose state is RUN is pending
  have hrun : ∀ j, j < c.active s.blk → s.st j = .run → (s.cpc = .condWait ∨ s.cpc = .waiting ∨ s.cpc = .woken) →
      ∃ t, t ≤ c.n ∧ Pend c s t := by
    intro j hj hst hb
    have hjn : j < c.n := Nat.lt_of_lt_of_le hj (active_le c _)
    refine ⟨j+1, by omega, hjn, Or.inl ⟨by rw [hst]; simp, ?_⟩⟩
    have h1 := h.createdAll (by rcases hb with hb | hb | hb <;> simp [hb, isCreate]) j hjn
    have h2 := h.waitSt j
    have h3 := h.exitTerm j
    cases hq : s.wpc j <;> simp_all [pcLive]
    all_goals (rcases hb with hb | hb | hb <;> simp_all [isBcast, termPhase])
  cases hp : s.cpc with
  | final => exact absurd hp hf
  | create k => exact ⟨0, Nat.zero_le _, Or.inl (by simp [hp, cSimple])⟩
  | lockA => exact ⟨0, Nat.zero_le _, Or.inl (by simp [hp, cSimple])⟩
  | bcastA => exact ⟨0, Nat.zero_le _, Or.inl (by simp [hp, cSimple])⟩
  | unlockA => exact ⟨0, Nat.zero_le _, Or.inl (by simp [hp, cSimple])⟩
  | lockB => exact ⟨0, Nat.zero_le _, Or.inl (by simp [hp, cSimple])⟩
  | unlockB => exact ⟨0, Nat.zero_le _, Or.inl (by simp [hp, cSimple])⟩
  | lockT => exact ⟨0, Nat.zero_le _, Or.inl (by simp [hp, cSimple])⟩
  | bcastT => exact ⟨0, Nat.zero_le _, Or.inl (by simp [hp, cSimple])⟩
  | unlockT => exact ⟨0, Nat.zero_le _, Or.inl (by simp [hp, cSimple])⟩
  | condWait =>
    obtain ⟨j, hj, hst⟩ := h.condRun hr hp
    exact hrun j hj hst (Or.inl hp)
  | waiting =>
    rcases h.waitRun hr hp with ⟨j, hj, hst⟩ | ⟨w, hw⟩
    · exact hrun j hj hst (Or.inr (Or.inl hp))
    · have hwn : w < c.n := by
        rcases Nat.lt_or_ge w c.n with h1 | h1
        · exact h1
        · have := h.idleOut w h1; rw [this] at hw; cases hw
      exact ⟨w+1, by omega, hwn, Or.inr hw⟩
  | woken =>
    cases ha : allWait c s with
    | true => exact ⟨0, Nat.zero_le _, Or.inr (Or.inl ⟨hp, ha⟩)⟩
    | false =>
      have : ¬ ∀ j, j < c.active s.blk → s.st j = .wait := fun hall => by
        rw [(allWait_iff c s).mpr hall] at ha; cases ha
      have hex : ∃ j, j < c.active s.blk ∧ s.st j ≠ .wait := by
        apply Classical.byContradiction
        intro hno
        exact this (fun j hj => Classical.byContradiction fun hne => hno ⟨j, hj, hne⟩)
      obtain ⟨j, hj, hne⟩ := hex
      have hnt := h.noTerm (by simp [hp, termPhase]) j
      rcases wst_run_or_term _ hne with h1 | h1
      · exact hrun j hj h1 (Or.inr (Or.inr hp))
      · exact absurd h1 hnt
  | join k =>
    have hk := h.joinLt k hp
    by_cases hd : s.wpc k = .done
    · exact ⟨0, Nat.zero_le _, Or.inr (Or.inr ⟨k, hp, hd⟩)⟩
    · have hst := h.allTerm (by simp [hp, termPhase]) k hk
      refine ⟨k+1, by omega, hk, Or.inl ⟨by rw [hst]; simp, ?_⟩⟩
      have h1 := h.createdAll (by simp [hp, isCreate]) k hk
      have h2 := h.waitSt k
      cases hq : s.wpc k <;> simp_all [pcLive, isBcast]

/-! ## transitions that do not decrease `prog` -/
theorem neutral_step (c : Cfg) (s s' : State) (t : Nat) (h : Inv c s) (hs : step? c s t = some s')
    (hne : ¬ prog c s' < prog c s) : futile c s t = true := by
  cases hf : futile c s t with
  | true => rfl
  | false => exact absurd ((prog_step c s s' t h hs).2 hf) hne

theorem neutral_spur (c : Cfg) (s s' : State) (w : Nat) (hs : spur? c s (w+1) = some s')
    (hne : ¬ prog c s' < prog c s) : s.st w = .wait :=
  Classical.byContradiction fun hst => hne ((prog_spur c s s' (w+1) hs).2 w rfl hst)

/-- a pending thread stays pending across every transition that does not decrease `prog` -/
theorem pend_stable (c : Cfg) (s s' : State) (lab : Nat × Bool) (T : Nat) (hi : Inv c s)
    (hs : stepL c s lab = some s') (hne : ¬ prog c s' < prog c s) (hp : Pend c s T) : Pend c s' T := by
  obtain ⟨u, sp⟩ := lab
  cases sp with
  | false =>
    simp only [stepL, Bool.false_eq_true, if_false] at hs
    have hf := neutral_step c s s' u hi hs hne
    cases u with
    | zero =>
      obtain ⟨h1, h2, h3, h4, _⟩ := futile_stepC_frame c s s' hf hs
      have hnp := pend_not_futile c s 0
      cases T with
      | zero => rw [hnp hp] at hf; cases hf
      | succ w => simp only [Pend, h1, h3] at hp ⊢; exact hp
    | succ w =>
      simp only [step?] at hs
      split at hs
      case isFalse => cases hs
      obtain ⟨h1, h2, h3, h4, h5, _⟩ := futile_stepW_frame c s s' w hf hs
      cases T with
      | zero =>
        simp only [Pend, h3, allWait_congr c s s' h1 h2] at hp ⊢
        rcases hp with hp | hp | ⟨k, hk1, hk2⟩
        · exact Or.inl hp
        · exact Or.inr (Or.inl hp)
        · refine Or.inr (Or.inr ⟨k, hk1, ?_⟩)
          by_cases hkw : k = w
          · subst hkw
            simp only [futile, Bool.and_eq_true, Bool.or_eq_true, beq_iff_eq] at hf
            rcases hf.2 with hq | hq <;> rw [hk2] at hq <;> cases hq
          · rw [h4 k hkw]; exact hk2
      | succ w' =>
        by_cases hww : w' = w
        · subst hww
          have := pend_not_futile c s (w'+1) hp
          rw [this] at hf; cases hf
        · simp only [Pend, h1, h4 w' hww] at hp ⊢; exact hp
  | true =>
    simp only [stepL, if_true] at hs
    cases u with
    | zero =>
      obtain ⟨h1, h2, _, h4, h5, h6⟩ := spurC_frame c s s' hs
      cases T with
      | zero =>
        simp only [Pend, h5] at hp
        rcases hp with hp | ⟨hp, _⟩ | ⟨k, hp, _⟩
        · simp [cSimple] at hp
        · cases hp
        · cases hp
      | succ w => simp only [Pend, h1, h4] at hp ⊢; exact hp
    | succ w =>
      have hst := neutral_spur c s s' w hs hne
      obtain ⟨h1, h2, _, h4, h5, h6, h7⟩ := spurW_frame c s s' w hs
      cases T with
      | zero =>
        simp only [Pend, h4, allWait_congr c s s' h1 h2] at hp ⊢
        rcases hp with hp | hp | ⟨k, hk1, hk2⟩
        · exact Or.inl hp
        · exact Or.inr (Or.inl hp)
        · refine Or.inr (Or.inr ⟨k, hk1, ?_⟩)
          by_cases hkw : k = w
          · subst hkw; rw [hk2] at h5; cases h5
          · rw [h7 k hkw]; exact hk2
      | succ w' =>
        by_cases hww : w' = w
        · subst hww
          simp only [Pend, h5] at hp
          rcases hp.2 with ⟨_, hq⟩ | hq
          · simp [pcLive] at hq
          · cases hq
        · simp only [Pend, h1, h7 w' hww] at hp ⊢; exact hp

/-- a neutral pthread-call transition taken while the mutex is owned releases it -/
theorem neutral_step_releases (c : Cfg) (s s' : State) (t : Nat) (h : Inv c s) (hs : step? c s t = some s')
    (hne : ¬ prog c s' < prog c s) (ho : s.owner ≠ none) : s'.owner = none := by
  have hf := neutral_step c s s' t h hs hne
  cases t with
  | zero => exact (futile_stepC_frame c s s' hf hs).2.2.2.2 ho
  | succ w =>
    simp only [step?] at hs
    split at hs
    · exact (futile_stepW_frame c s s' w hf hs).2.2.2.2.2 ho
    · cases hs

/-- the owner of the mutex can always take its next step -/
theorem holder_enabled (c : Cfg) (s : State) (h : Inv c s) (t : Nat) (ho : s.owner = some t) :
    t ≤ c.n ∧ (step? c s t).isSome = true := by
  cases t with
  | zero =>
    have hc := h.own0.mp ho
    refine ⟨Nat.zero_le _, ?_⟩
    simp only [step?, stepC]
    cases hp : s.cpc <;> simp_all [cHolds]
  | succ w =>
    have hwh := (h.ownW w).mp ho
    have hw : w < c.n := by
      rcases Nat.lt_or_ge w c.n with h1 | h1
      · exact h1
      · have := h.idleOut w h1; simp_all [wHolds]
    refine ⟨by omega, ?_⟩
    simp only [step?, hw, if_true, stepW]
    cases hp : s.wpc w <;> simp_all [wHolds]
    cases s.st w <;> rfl

/-! ## non-increasing sequences of naturals are eventually constant -/
theorem antitone_le (f : Nat → Nat) (h : ∀ i, f (i+1) ≤ f i) (N : Nat) : ∀ k, f (N + k) ≤ f N := by
  intro k
  induction k with
  | zero => exact Nat.le_refl _
  | succ k ih => exact Nat.le_trans (h (N + k)) ih

theorem antitone_eventually_const (f : Nat → Nat) (h : ∀ i, f (i+1) ≤ f i) :
    ∃ N, ∀ i, N ≤ i → ¬ f (i+1) < f i := by
  have key : ∀ v N, f N ≤ v → ∃ M, ∀ i, M ≤ i → ¬ f (i+1) < f i := by
    intro v
    induction v with
    | zero =>
      intro N hN
      refine ⟨N, fun i hi hlt => ?_⟩
      have := antitone_le f h N (i - N)
      have e : N + (i - N) = i := by omega
      rw [e] at this
      omega
    | succ v ih =>
      intro N hN
      by_cases hex : ∃ i, N ≤ i ∧ f (i+1) < f i
      · obtain ⟨i, hi, hlt⟩ := hex
        have := antitone_le f h N (i - N)
        have e : N + (i - N) = i := by omega
        rw [e] at this
        exact ih (i+1) (by omega)
      · exact ⟨N, fun i hi hlt => hex ⟨i, hi, hlt⟩⟩
  exact key (f 0) 0 (Nat.le_refl _)

/-! ## strongly fair executions are finite -/
theorem Exec.prog_antitone {c : Cfg} (hn : 0 < c.n) (e : Exec c) (i : Nat) :
    prog c (e.st (i+1)) ≤ prog c (e.st i) := by
  have h := e.next i
  unfold stepL at h
  split at h
  · exact (prog_spur c _ _ _ h).1
  · exact (prog_step c _ _ _ (reach_inv c hn (e.reach i)) h).1

/-- **No strongly fair infinite execution** of the repaired protocol: in every infinite execution some thread is
    enabled infinitely often but performs only finitely many pthread calls. -/
theorem Exec.not_strongly_fair {c : Cfg} (hn : 0 < c.n) (hr : c.repaired = true) (e : Exec c)
    (hsf : ∀ t, t ≤ c.n → e.StrongFair t) : False := by
  obtain ⟨N, hN⟩ := antitone_eventually_const (fun i => prog c (e.st i)) (e.prog_antitone hn)
  have hinv : ∀ i, Inv c (e.st i) := fun i => reach_inv c hn (e.reach i)
  -- the mutex is free infinitely often
  have hfree : ∀ i, N ≤ i → ∃ j, i ≤ j ∧ (e.st j).owner = none := by
    intro i hi
    apply Classical.byContradiction
    intro hno
    have hown : ∀ j, i ≤ j → (e.st j).owner ≠ none := fun j hj ho => hno ⟨j, hj, ho⟩
    cases hoi : (e.st i).owner with
    | none => exact hown i (Nat.le_refl _) hoi
    | some t =>
      -- every later transition is a spurious wake-up or would release the mutex: the owner stays `t`
      have hconst : ∀ k, (e.st (i + k)).owner = some t := by
        intro k
        induction k with
        | zero => exact hoi
        | succ k ih =>
          have hnx := e.next (i + k)
          have hne := hN (i + k) (by omega)
          cases hl : e.lab (i + k) with
          | mk u sp =>
            rw [hl] at hnx
            cases sp with
            | true =>
              simp only [stepL, if_true] at hnx
              have : (e.st (i + k + 1)).owner = (e.st (i + k)).owner := by
                cases u with
                | zero => exact (spurC_frame c _ _ hnx).2.2.1
                | succ w => exact (spurW_frame c _ _ w hnx).2.2.1
              show (e.st (i + k + 1)).owner = some t
              rw [this, ih]
            | false =>
              simp only [stepL, Bool.false_eq_true, if_false] at hnx
              have := neutral_step_releases c _ _ u (hinv (i + k)) hnx hne (by rw [ih]; simp)
              exact absurd this (hown (i + k + 1) (by omega))
      have hen := fun k => holder_enabled c (e.st (i + k)) (hinv (i + k)) t (hconst k)
      have htn : t ≤ c.n := (hen 0).1
      obtain ⟨j, hj, hlab⟩ := hsf t htn (fun M => ⟨i + M, by omega, (hen M).2⟩) i
      have hnx := e.next j
      rw [hlab] at hnx
      simp only [stepL, Bool.false_eq_true, if_false] at hnx
      have hjk : j = i + (j - i) := by omega
      have hoj : (e.st j).owner = some t := by rw [hjk]; exact hconst (j - i)
      have := neutral_step_releases c _ _ t (hinv j) hnx (hN j (by omega)) (by rw [hoj]; simp)
      exact hown (j + 1) (by omega) this
  -- the state at N is not final: the transition taken there would have to be futile
  have hnf : (e.st N).cpc ≠ .final := by
    intro hfin
    have hnx := e.next N
    have hne := hN N (Nat.le_refl _)
    have hterm := (hinv N).allTerm (by simp [hfin, termPhase])
    cases hl : e.lab N with
    | mk u sp =>
      rw [hl] at hnx
      cases sp with
      | true =>
        simp only [stepL, if_true] at hnx
        cases u with
        | zero => have := (spurC_frame c _ _ hnx).2.2.2.2.1; rw [hfin] at this; cases this
        | succ w =>
          have hst := neutral_spur c _ _ w hnx hne
          have hw : w < c.n := by
            simp only [spur?] at hnx; split at hnx
            · rename_i hp; exact hp.1
            · cases hnx
          rw [hterm w hw] at hst; cases hst
      | false =>
        simp only [stepL, Bool.false_eq_true, if_false] at hnx
        have hf := neutral_step c _ _ u (hinv N) hnx hne
        cases u with
        | zero => simp [futile, hfin] at hf
        | succ w =>
          have hw : w < c.n := by
            simp only [step?] at hnx; split at hnx
            · assumption
            · cases hnx
          simp only [futile, Bool.and_eq_true, beq_iff_eq] at hf
          rw [hterm w hw] at hf; cases hf.1
  -- some thread is pending at N, stays pending, is enabled whenever the mutex is free, and must eventually run
  obtain ⟨T, hT, hpend⟩ := pend_exists c (e.st N) (hinv N) hr hnf
  have hstab : ∀ k, Pend c (e.st (N + k)) T := by
    intro k
    induction k with
    | zero => exact hpend
    | succ k ih => exact pend_stable c _ _ (e.lab (N + k)) T (hinv (N + k)) (e.next (N + k)) (hN (N + k) (by omega)) ih
  have hen : ∀ M, ∃ i, M ≤ i ∧ (step? c (e.st i) T).isSome = true := by
    intro M
    obtain ⟨j, hj, ho⟩ := hfree (N + M) (by omega)
    have hjk : j = N + (j - N) := by omega
    refine ⟨j, by omega, pend_enabled c _ T ?_ ho⟩
    rw [hjk]; exact hstab (j - N)
  obtain ⟨j, hj, hlab⟩ := hsf T hT hen N
  have hnx := e.next j
  rw [hlab] at hnx
  simp only [stepL, Bool.false_eq_true, if_false] at hnx
  have hf := neutral_step c _ _ T (hinv j) hnx (hN j hj)
  have hjk : j = N + (j - N) := by omega
  have := pend_not_futile c (e.st j) T (by rw [hjk]; exact hstab (j - N))
  rw [this] at hf; cases hf

end PsV.Sync
