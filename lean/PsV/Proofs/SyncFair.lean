import PsV.Proofs.SyncLive
/-! Strong fairness ⇒ termination, for the repaired protocol with unboundedly many spurious wake-ups.

`prog = 3·rank + corr` is a progress measure that never increases — not even under spurious wake-ups — and strictly
decreases on every transition except the three *futile* ones of a thread whose wait predicate is still false
(spuriously woken, re-acquire the mutex, wait again).  An infinite execution therefore has a tail of futile steps only;
in that tail some thread is *pending* (its next call makes progress), keeps being pending, and is enabled whenever the
mutex is free, which happens infinitely often if the mutex holder is treated fairly.  A strongly fair scheduler must
run it — contradiction. -/
namespace PsV.Sync

/-! ## the progress measure -/
def corrW (p : WPc) (st : WSt) : Nat :=
  match st, p with
  | .wait, .waiting => 6 | .wait, .hold => 3 | .wait, .lock1 => 1 | _, _ => 0
def corrC : CPc → Nat
  | .waiting => 6 | .condWait => 3 | _ => 0
def corr (c : Cfg) (s : State) : Nat := corrC s.cpc + sumTo c.n (fun w => corrW (s.wpc w) (s.st w))
def prog (c : Cfg) (s : State) : Nat := 3 * rank c s + corr c s

/-- thread `t` is in a futile position: its next pthread call only re-tests a predicate that is still false -/
def futile (c : Cfg) (s : State) : Nat → Bool
  | 0 => s.cpc == .condWait || (s.cpc == .woken && !allWait c s)
  | w+1 => s.st w == .wait && (s.wpc w == .hold || s.wpc w == .woken)

theorem sumTo_upd_eq (n : Nat) (f g : Nat → Nat) (w : Nat) (hw : w < n) (h : ∀ k, k < n → k ≠ w → g k = f k) :
    sumTo n g + f w = sumTo n f + g w := by
  induction n with
  | zero => omega
  | succ n ih =>
    simp only [sumTo]
    rcases Nat.lt_or_ge w n with h1 | h1
    · have := ih h1 (fun k hk hne => h k (Nat.lt_succ_of_lt hk) hne)
      have := h n (Nat.lt_succ_self n) (by omega)
      omega
    · have hwn : w = n := by omega
      subst hwn
      have e : sumTo w g = sumTo w f := by
        have h1 := sumTo_le_add w f g 0 (fun k hk => by rw [h k (Nat.lt_succ_of_lt hk) (by omega)]; omega)
        have h2 := sumTo_le_add w g f 0 (fun k hk => by rw [h k (Nat.lt_succ_of_lt hk) (by omega)]; omega)
        omega
      omega

theorem corrC_wakeC (p : CPc) : corrC (wakeC p) ≤ corrC p := by cases p <;> simp [wakeC, corrC]
theorem corrW_wake (p : WPc) (st : WSt) : corrW (if p = .waiting then .woken else p) st ≤ corrW p st := by
  cases p <;> cases st <;> simp [corrW]
theorem corrW_run (p : WPc) : corrW p .run = 0 := by cases p <;> rfl
theorem corrW_term (p : WPc) : corrW p .term = 0 := by cases p <;> rfl

/-- worker steps: `corr` grows by at most 3, and by at most 2 unless the step is futile -/
theorem corr_stepW (c : Cfg) (s s' : State) (w : Nat) (hw : w < c.n) (hs : stepW s w = some s') :
    corr c s' ≤ corr c s + (if futile c s (w+1) then 3 else 2) := by
  have key : ∀ e, corrC s'.cpc ≤ corrC s.cpc →
      (∀ k, k < c.n → k ≠ w → corrW (s'.wpc k) (s'.st k) ≤ corrW (s.wpc k) (s.st k)) →
      corrW (s'.wpc w) (s'.st w) ≤ corrW (s.wpc w) (s.st w) + e → corr c s' ≤ corr c s + e := by
    intro e h1 h2 h3
    have := sumTo_upd_incr c.n (fun k => corrW (s.wpc k) (s.st k)) (fun k => corrW (s'.wpc k) (s'.st k)) w e h2 h3
    simp only [corr]; omega
  unfold stepW at hs
  cases hp : s.wpc w <;> simp only [hp] at hs
  case idle => cases hs
  case waiting => cases hs
  case done => cases hs
  case lock1 =>
    split at hs
    · injection hs with hs; subst hs
      have := key 2 (Nat.le_refl _) (fun k _ hne => by simp [upd, hne]) (by simp [upd, hp]; cases s.st w <;> simp [corrW])
      split <;> omega
    · cases hs
  case hold =>
    cases hst : s.st w <;> simp only [hst] at hs <;> injection hs with hs <;> subst hs
    · have := key 3 (Nat.le_refl _) (fun k _ hne => by simp [upd, hne]) (by simp [upd, hp, hst, corrW])
      simp [futile, hp, hst]; exact this
    · have := key 0 (Nat.le_refl _) (fun k _ hne => by simp [upd, hne]) (by simp [upd, hp, hst, corrW])
      split <;> omega
    · have := key 0 (Nat.le_refl _) (fun k _ hne => by simp [upd, hne]) (by simp [upd, hp, hst, corrW])
      split <;> omega
  case woken =>
    split at hs
    · injection hs with hs; subst hs
      cases hst : s.st w
      · have := key 3 (Nat.le_refl _) (fun k _ hne => by simp [upd, hne]) (by simp [upd, hp, hst, corrW])
        simp [futile, hp, hst]; exact this
      · have := key 0 (Nat.le_refl _) (fun k _ hne => by simp [upd, hne]) (by simp [upd, hp, hst, corrW])
        split <;> omega
      · have := key 0 (Nat.le_refl _) (fun k _ hne => by simp [upd, hne]) (by simp [upd, hp, hst, corrW])
        split <;> omega
    · cases hs
  case lock2 =>
    split at hs
    · injection hs with hs; subst hs
      have := key 0 (Nat.le_refl _) (fun k _ hne => by simp [upd, hne]) (by simp [upd, corrW])
      split <;> omega
    · cases hs
  case bcast =>
    injection hs with hs; subst hs
    have := key 0 (corrC_wakeC _) (fun k _ hne => by simp only [upd, hne, if_false, wakeAll]; exact corrW_wake _ _)
      (by simp [upd]; cases s.st w <;> simp [corrW])
    split <;> omega
  case unlock2 =>
    injection hs with hs; subst hs
    have := key 1 (Nat.le_refl _) (fun k _ hne => by simp [upd, hne]) (by simp [upd, hp]; cases s.st w <;> simp [corrW])
    split <;> omega
  case exit =>
    injection hs with hs; subst hs
    have := key 0 (Nat.le_refl _) (fun k _ hne => by simp [upd, hne]) (by simp [upd]; cases s.st w <;> simp [corrW])
    split <;> omega

theorem corr_le_of_pointwise (c : Cfg) (s s' : State) (e : Nat) (h1 : corrC s'.cpc ≤ corrC s.cpc + e)
    (h2 : ∀ k, k < c.n → corrW (s'.wpc k) (s'.st k) ≤ corrW (s.wpc k) (s.st k)) : corr c s' ≤ corr c s + e := by
  have := sumTo_le_add c.n (fun k => corrW (s.wpc k) (s.st k)) (fun k => corrW (s'.wpc k) (s'.st k)) 0
    (fun k hk => by have := h2 k hk; omega)
  simp only [corr]; omega

/-- coordinator steps other than the one from `lockB`: `corr` grows by at most 3, by at most 2 unless futile -/
theorem corr_stepC (c : Cfg) (s s' : State) (hs : stepC c s = some s') (hB : s.cpc ≠ .lockB) :
    corr c s' ≤ corr c s + (if futile c s 0 then 3 else 2) := by
  have hweak : ∀ x, x ≤ corr c s + 2 → x ≤ corr c s + (if futile c s 0 then 3 else 2) := by
    intro x hx; split <;> omega
  have hsame : ∀ (p : CPc) (o : Option Nat), corrC p = 0 →
      corr c { s with cpc := p, owner := o } ≤ corr c s + 2 := by
    intro p o h0
    have := corr_le_of_pointwise c s { s with cpc := p, owner := o } 0 (by simp [h0]) (fun k _ => Nat.le_refl _)
    omega
  cases hp : s.cpc with
  | lockB => exact absurd hp hB
  | final => simp [stepC, hp] at hs
  | waiting => simp [stepC, hp] at hs
  | create k =>
    simp only [stepC, hp] at hs; injection hs with hs; subst hs
    apply hweak
    have hsum := sumTo_upd_incr c.n (fun w => corrW (s.wpc w) (s.st w))
      (fun w => corrW (upd s.wpc k .lock1 w) (s.st w)) k 1
      (fun w _ hne => by simp [upd, hne]) (by simp [upd]; cases s.st k <;> cases s.wpc k <;> simp [corrW])
    have hc : corrC (if k + 1 < c.n then CPc.create (k+1) else loopHead c 0 false) = 0 := by
      split
      · rfl
      · simp only [loopHead]; split <;> rfl
    simp only [corr, hc]
    omega
  | lockA =>
    simp only [stepC, hp] at hs; split at hs
    · injection hs with hs; subst hs
      apply hweak
      refine Nat.le_trans (corr_le_of_pointwise c s _ 0 (by simp [corrC]) ?_) (by omega)
      intro k _
      show corrW (s.wpc k) (if k < c.active s.blk then WSt.run else s.st k) ≤ _
      split
      · rw [corrW_run]; exact Nat.zero_le _
      · exact Nat.le_refl _
    · cases hs
  | lockT =>
    simp only [stepC, hp] at hs; split at hs
    · injection hs with hs; subst hs
      apply hweak
      refine Nat.le_trans (corr_le_of_pointwise c s _ 0 (by simp [corrC]) ?_) (by omega)
      intro k hk
      show corrW (s.wpc k) (if k < c.n then WSt.term else s.st k) ≤ _
      rw [if_pos hk, corrW_term]; exact Nat.zero_le _
    · cases hs
  | bcastA =>
    simp only [stepC, hp] at hs; injection hs with hs; subst hs
    apply hweak
    refine Nat.le_trans (corr_le_of_pointwise c s _ 0 (by simp [corrC]) ?_) (by omega)
    intro k _; exact corrW_wake _ _
  | bcastT =>
    simp only [stepC, hp] at hs; injection hs with hs; subst hs
    apply hweak
    refine Nat.le_trans (corr_le_of_pointwise c s _ 0 (by simp [corrC]) ?_) (by omega)
    intro k _; exact corrW_wake _ _
  | unlockA =>
    simp only [stepC, hp] at hs; injection hs with hs; subst hs
    exact hweak _ (hsame _ _ rfl)
  | unlockT =>
    simp only [stepC, hp] at hs; injection hs with hs; subst hs
    exact hweak _ (hsame _ _ rfl)
  | unlockB =>
    simp only [stepC, hp] at hs; injection hs with hs; subst hs
    have hc : corrC (loopHead c (s.blk + 1) (scan c s.val s.blk (s.base, s.chosen)).2.isSome) = 0 := by
      simp only [loopHead]; split <;> rfl
    apply hweak
    refine Nat.le_trans (corr_le_of_pointwise c s _ 0 (by simp only [hc]; omega) (fun k _ => Nat.le_refl _)) (by omega)
  | condWait =>
    simp only [stepC, hp] at hs; injection hs with hs; subst hs
    have hf : futile c s 0 = true := by simp [futile, hp]
    rw [hf, if_pos rfl]
    exact corr_le_of_pointwise c s _ 3 (by simp [hp, corrC]) (fun k _ => Nat.le_refl _)
  | woken =>
    simp only [stepC, hp] at hs; split at hs
    · injection hs with hs; subst hs
      cases ha : allWait c s
      · have hf : futile c s 0 = true := by simp [futile, hp, ha]
        rw [hf, if_pos rfl]
        exact corr_le_of_pointwise c s _ 3 (by simp [hp, corrC, ha]) (fun k _ => Nat.le_refl _)
      · apply hweak
        refine Nat.le_trans (corr_le_of_pointwise c s _ 0 (by simp [corrC, ha]) (fun k _ => Nat.le_refl _)) (by omega)
    · cases hs
  | join k =>
    simp only [stepC, hp] at hs; split at hs
    · injection hs with hs; subst hs
      have hc : corrC (if k + 1 < c.n then CPc.join (k+1) else CPc.final) = 0 := by split <;> rfl
      apply hweak
      refine Nat.le_trans (corr_le_of_pointwise c s _ 0 (by simp only [hc]; omega) (fun k _ => Nat.le_refl _)) (by omega)
    · cases hs

/-- the coordinator's step from `lockB` (re-acquire the mutex, test the states): the rank drops by at least 2 -/
theorem prog_lockB (c : Cfg) (s s' : State) (hs : stepC c s = some s') (hB : s.cpc = .lockB) :
    prog c s' < prog c s := by
  simp only [stepC, hB] at hs; split at hs
  · injection hs with hs; subst hs
    simp only [prog, rank, corr, hB]
    split <;> simp only [rankC, corrC] <;> omega
  · cases hs

/-- **Progress measure**: every pthread-call transition from a state satisfying the invariant leaves `prog`
    non-increasing, and strictly decreases it unless the thread was in a futile position. -/
theorem prog_step (c : Cfg) (s s' : State) (t : Nat) (h : Inv c s) (hs : step? c s t = some s') :
    prog c s' ≤ prog c s ∧ (futile c s t = false → prog c s' < prog c s) := by
  have hr := rank_step c s s' t h hs
  cases t with
  | zero =>
    by_cases hB : s.cpc = .lockB
    · have := prog_lockB c s s' hs hB
      exact ⟨Nat.le_of_lt this, fun _ => this⟩
    · have hc := corr_stepC c s s' hs hB
      simp only [prog]
      constructor
      · split at hc <;> omega
      · intro hf; rw [hf] at hc; simp at hc; omega
  | succ w =>
    simp only [step?] at hs
    split at hs
    · rename_i hw
      have hc := corr_stepW c s s' w hw hs
      simp only [prog]
      constructor
      · split at hc <;> omega
      · intro hf; rw [hf] at hc; simp at hc; omega
    · cases hs

/-- spurious wake-ups never increase `prog`, and decrease it when the woken worker's state is not WAIT -/
theorem prog_spur (c : Cfg) (s s' : State) (t : Nat) (hs : spur? c s t = some s') :
    prog c s' ≤ prog c s ∧ (∀ w, t = w+1 → s.st w ≠ .wait → prog c s' < prog c s) := by
  cases t with
  | zero =>
    simp only [spur?] at hs
    split at hs
    · rename_i hp
      injection hs with hs; subst hs
      refine ⟨?_, fun w hw => by cases hw⟩
      simp only [prog, rank, corr, hp, rankC, corrC]; omega
    · cases hs
  | succ w =>
    simp only [spur?] at hs
    split at hs
    · rename_i hp
      injection hs with hs; subst hs
      have e1 := sumTo_upd_eq c.n (fun k => lw c.n (s.wpc k) (s.st k))
        (fun k => lw c.n (upd s.wpc w .woken k) (s.st k)) w hp.1 (fun k _ hne => by simp [upd, hne])
      have e2 := sumTo_upd_eq c.n (fun k => corrW (s.wpc k) (s.st k))
        (fun k => corrW (upd s.wpc w .woken k) (s.st k)) w hp.1 (fun k _ hne => by simp [upd, hne])
      have h1 : upd s.wpc w .woken w = .woken := by simp [upd]
      rw [h1, hp.2] at e1 e2
      simp only [prog, rank, corr]
      cases hst : s.st w <;> rw [hst] at e1 e2
      · have a1 : lw c.n .waiting .wait = 0 := rfl
        have a2 : lw c.n .woken .wait = 2 := rfl
        have a3 : corrW .waiting .wait = 6 := rfl
        have a4 : corrW .woken .wait = 0 := rfl
        rw [a1, a2] at e1; rw [a3, a4] at e2
        refine ⟨by omega, fun w' hw' hne => ?_⟩
        have : w' = w := by omega
        subst this; exact absurd hst hne
      · have a1 : lw c.n .waiting .run = 8 + BW c.n := rfl
        have a2 : lw c.n .woken .run = 7 + BW c.n := rfl
        have a3 : corrW .waiting .run = 0 := rfl
        have a4 : corrW .woken .run = 0 := rfl
        rw [a1, a2] at e1; rw [a3, a4] at e2
        exact ⟨by omega, fun _ _ _ => by omega⟩
      · have a1 : lw c.n .waiting .term = 4 := rfl
        have a2 : lw c.n .woken .term = 3 := rfl
        have a3 : corrW .waiting .term = 0 := rfl
        have a4 : corrW .woken .term = 0 := rfl
        rw [a1, a2] at e1; rw [a3, a4] at e2
        exact ⟨by omega, fun _ _ _ => by omega⟩
    · cases hs

end PsV.Sync
