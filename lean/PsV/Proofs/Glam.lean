import Mathlib.Algebra.BigOperators.Group.Finset.Sigma
import Mathlib.Algebra.BigOperators.Intervals
import PsV.Proofs.Lawful
import PsV.Spec.Grid
/-!
# Helper lemmas for C17 (grid evaluation = mode products = the tensor-product sum)

* index validity `IdxIn`, `NdSparse.WF`
* the rotated mixed-radix flattening of `slicemultiply` and its inverse
* `NdSparse.get` as a sum; `sliceMultiply` as a mode product
* `bsplineRec = Bind indR`; `specSum` as nested finite sums; the row-major coefficient tensor
* the loop invariant of `gridLoop`
-/
namespace PsV
open Arith
set_option linter.unusedSectionVars false
set_option linter.unusedSimpArgs false

/-! ## index validity -/

/-- `idx` is a valid index tuple for `ranges`: same length, every entry below its range -/
def IdxIn (idx ranges : List Nat) : Prop :=
  idx.length = ranges.length ∧ ∀ k, k < ranges.length → idx.getD k 0 < ranges.getD k 0

/-- every listed entry of the tensor has a valid index tuple -/
def NdSparse.WF {α : Type} (s : NdSparse α) : Prop := ∀ e ∈ s.entries, IdxIn e.1 s.ranges

theorem list_ext_getD {l₁ l₂ : List Nat} (hl : l₁.length = l₂.length)
    (h : ∀ p, p < l₁.length → l₁.getD p 0 = l₂.getD p 0) : l₁ = l₂ := by
  apply List.ext_getElem hl
  intro p h1 h2
  have := h p h1
  simpa [List.getD_eq_getElem?_getD, h1, h2] using this

theorem getD_set (l : List Nat) (k v p : Nat) :
    (l.set k v).getD p 0 = if k = p ∧ k < l.length then v else l.getD p 0 := by
  simp only [List.getD_eq_getElem?_getD, List.getElem?_set]
  by_cases h : k = p
  · subst h
    by_cases h2 : k < l.length
    · simp [h2]
    · simp [h2]
  · simp [h]

theorem set_getD_self (l : List Nat) (k : Nat) : l.set k (l.getD k 0) = l := by
  apply list_ext_getD (by simp)
  intro p _
  rw [getD_set]
  split
  · rename_i h; rw [h.1]
  · rfl

theorem IdxIn.set {idx ranges : List Nat} (h : IdxIn idx ranges) (k v n : Nat) (hv : v < n) :
    IdxIn (idx.set k v) (ranges.set k n) := by
  obtain ⟨hl, hb⟩ := h
  refine ⟨by simp [hl], ?_⟩
  intro p hp
  simp only [List.length_set] at hp
  rw [getD_set, getD_set, hl]
  by_cases h : k = p ∧ k < ranges.length
  · rw [if_pos h, if_pos h]; exact hv
  · rw [if_neg h, if_neg h]; exact hb p hp

/-! ## `loopDims`: every dimension other than `dim` -/

theorem mem_loopDims {n dim k : Nat} (hd : dim < n) : k ∈ loopDims n dim ↔ k < n ∧ k ≠ dim := by
  unfold loopDims
  simp only [List.mem_map, List.mem_range]
  constructor
  · rintro ⟨m, hm, rfl⟩
    have hn : 0 < n := by omega
    refine ⟨Nat.mod_lt _ hn, ?_⟩
    by_cases h : dim + n - 1 - m < n
    · rw [Nat.mod_eq_of_lt h]; omega
    · rw [Nat.mod_eq_sub_mod (by omega), Nat.mod_eq_of_lt (by omega)]; omega
  · rintro ⟨hk, hne⟩
    by_cases h : dim < k
    · refine ⟨dim + n - 1 - k, by omega, ?_⟩
      have : dim + n - 1 - (dim + n - 1 - k) = k := by omega
      rw [this, Nat.mod_eq_of_lt hk]
    · refine ⟨dim - 1 - k, by omega, ?_⟩
      have : dim + n - 1 - (dim - 1 - k) = k + n := by omega
      rw [this, Nat.add_mod_right, Nat.mod_eq_of_lt hk]

/-! ## mixed radix numbers, most significant digit first -/

/-- product of the radices `r k`, `k ∈ ks` -/
def mrProd (r : Nat → Nat) : List Nat → Nat
  | [] => 1
  | k :: ks => r k * mrProd r ks

/-- the number with digits `d k` in radices `r k`, `k` running through `ks`, most significant first -/
def mrNum (r d : Nat → Nat) : List Nat → Nat
  | [] => 0
  | k :: ks => d k * mrProd r ks + mrNum r d ks

theorem mrProd_append (r : Nat → Nat) (l₁ l₂ : List Nat) :
    mrProd r (l₁ ++ l₂) = mrProd r l₁ * mrProd r l₂ := by
  induction l₁ with
  | nil => simp [mrProd]
  | cons k ks ih => simp [mrProd, ih, Nat.mul_assoc]

theorem mrNum_snoc (r d : Nat → Nat) (l : List Nat) (k : Nat) :
    mrNum r d (l ++ [k]) = r k * mrNum r d l + d k := by
  induction l with
  | nil => simp [mrNum, mrProd]
  | cons a l ih =>
    simp only [List.cons_append, mrNum, mrProd_append, mrProd, ih]
    ring

theorem mrNum_lt (r d : Nat → Nat) (ks : List Nat) (h : ∀ k ∈ ks, d k < r k) :
    mrNum r d ks < mrProd r ks := by
  induction ks with
  | nil => simp [mrNum, mrProd]
  | cons k ks ih =>
    have h1 := h k (by simp)
    have h2 := ih (fun a ha => h a (by simp [ha]))
    simp only [mrNum, mrProd]
    calc d k * mrProd r ks + mrNum r d ks < d k * mrProd r ks + mrProd r ks := by omega
      _ = (d k + 1) * mrProd r ks := by ring
      _ ≤ r k * mrProd r ks := Nat.mul_le_mul_right _ h1

theorem mrProd_congr {r r' : Nat → Nat} {ks : List Nat} (h : ∀ k ∈ ks, r k = r' k) :
    mrProd r ks = mrProd r' ks := by
  induction ks with
  | nil => rfl
  | cons k ks ih =>
    simp only [mrProd]
    rw [h k (by simp), ih (fun a ha => h a (by simp [ha]))]

theorem mrNum_congr {r r' : Nat → Nat} (d : Nat → Nat) {ks : List Nat} (h : ∀ k ∈ ks, r k = r' k) :
    mrNum r d ks = mrNum r' d ks := by
  induction ks with
  | nil => rfl
  | cons k ks ih =>
    have h' : ∀ a ∈ ks, r a = r' a := fun a ha => h a (by simp [ha])
    simp only [mrNum]
    rw [mrProd_congr h', ih h']

theorem flatLoop_eq (ranges idx : List Nat) (ks : List Nat) (stride col : Nat) :
    flatLoop ranges idx ks stride col
      = col + stride * mrNum (fun k => ranges.getD k 0) (fun k => idx.getD k 0) ks.reverse := by
  induction ks generalizing stride col with
  | nil => simp [flatLoop, mrNum]
  | cons k ks ih =>
    simp only [flatLoop, ih, List.reverse_cons, mrNum_snoc]
    ring

theorem foldl_mul_eq (r : Nat → Nat) (ks : List Nat) (s : Nat) :
    ks.foldl (fun s k => s * r k) s = s * mrProd r ks.reverse := by
  induction ks generalizing s with
  | nil => simp [mrProd]
  | cons k ks ih =>
    simp only [List.foldl_cons, ih, List.reverse_cons, mrProd_append, mrProd]
    ring

theorem unflatLoop_eq (R : List Nat) (d : Nat → Nat) (ks : List Nat) (acc : List Nat)
    (h : ∀ k ∈ ks, d k < R.getD k 0) :
    unflatLoop R ks (mrProd (fun k => R.getD k 0) ks) (mrNum (fun k => R.getD k 0) d ks) acc
      = ks.foldl (fun a k => a.set k (d k)) acc := by
  induction ks generalizing acc with
  | nil => simp [unflatLoop]
  | cons k ks ih =>
    have hk := h k (by simp)
    have hlt := mrNum_lt (fun k => R.getD k 0) d ks (fun a ha => h a (by simp [ha]))
    have hpos : 0 < R.getD k 0 := by omega
    have hP : 0 < mrProd (fun k => R.getD k 0) ks := by omega
    simp only [unflatLoop, mrProd, mrNum, List.foldl_cons]
    rw [Nat.mul_div_cancel_left _ hpos, Nat.add_comm (d k * _), Nat.add_mul_div_right _ _ hP,
      Nat.div_eq_of_lt hlt, Nat.zero_add, Nat.add_mul_mod_self_right, Nat.mod_eq_of_lt hlt]
    exact ih _ (fun a ha => h a (by simp [ha]))

theorem foldl_set_length (d : Nat → Nat) (ks : List Nat) (acc : List Nat) :
    (ks.foldl (fun a k => a.set k (d k)) acc).length = acc.length := by
  induction ks generalizing acc with
  | nil => rfl
  | cons k ks ih => simp [ih]

theorem foldl_set_getD (d : Nat → Nat) (ks : List Nat) (acc : List Nat) (p : Nat)
    (hp : p < acc.length) :
    (ks.foldl (fun a k => a.set k (d k)) acc).getD p 0 = if p ∈ ks then d p else acc.getD p 0 := by
  induction ks generalizing acc with
  | nil => simp
  | cons k ks ih =>
    simp only [List.foldl_cons, List.mem_cons]
    rw [ih _ (by simpa using hp), getD_set]
    by_cases h1 : p ∈ ks
    · simp [h1]
    · by_cases h2 : k = p
      · subst h2; simp [h1, hp]
      · have : ¬ p = k := fun h => h2 h.symm
        simp [h1, h2, this]

/-- the un-flattening loop of `slicemultiply` inverts the flattening loop (result entry: every index
other than `dim` is that of the source entry, index `dim` is the result row) -/
theorem unflatten_flatten' (ranges idx : List Nat) (dim g n' : Nat) (hv : IdxIn idx ranges)
    (hd : dim < ranges.length) :
    unflattenIdx (ranges.set dim n') dim g (flattenCol ranges idx dim) = idx.set dim g := by
  obtain ⟨hl, hb⟩ := hv
  unfold unflattenIdx flattenCol
  simp only [List.length_set]
  rw [flatLoop_eq, foldl_mul_eq]
  simp only [Nat.zero_add, Nat.one_mul]
  have hmem : ∀ k ∈ (loopDims ranges.length dim).reverse, k < ranges.length ∧ k ≠ dim := by
    intro k hk; exact (mem_loopDims hd).mp (List.mem_reverse.mp hk)
  have hcongr : ∀ k ∈ (loopDims ranges.length dim).reverse,
      ranges.getD k 0 = (ranges.set dim n').getD k 0 := by
    intro k hk
    rw [getD_set]
    have := (hmem k hk).2
    rw [if_neg (fun h => this h.1.symm)]
  rw [mrNum_congr _ hcongr, unflatLoop_eq]
  · apply list_ext_getD
    · rw [foldl_set_length]; simp [hl]
    · intro p hp
      simp only [foldl_set_length, List.length_set, List.length_replicate] at hp
      rw [foldl_set_getD _ _ _ _ (by simpa using hp), getD_set, getD_set]
      by_cases hpd : dim = p
      · subst hpd
        have : dim ∉ (loopDims ranges.length dim).reverse := fun h => (hmem _ h).2 rfl
        simp [this, hd, hl]
      · have : p ∈ (loopDims ranges.length dim).reverse :=
          List.mem_reverse.mpr ((mem_loopDims hd).mpr ⟨hp, fun h => hpd h.symm⟩)
        simp [this, hpd]
  · intro k hk
    rw [← hcongr k hk]
    exact hb k (hmem k hk).1

theorem getD_set_self_idx (l : List Nat) (k v : Nat) (h : k < l.length) : (l.set k v).getD k 0 = v := by
  rw [getD_set]; simp [h]

/-- the flattened column determines every index other than `dim` -/
theorem flattenCol_inj (ranges idx idx' : List Nat) (dim : Nat) (hv : IdxIn idx ranges)
    (hv' : IdxIn idx' ranges) (hd : dim < ranges.length)
    (h : flattenCol ranges idx dim = flattenCol ranges idx' dim) : idx.set dim 0 = idx'.set dim 0 := by
  rw [← unflatten_flatten' ranges idx dim 0 0 hv hd, ← unflatten_flatten' ranges idx' dim 0 0 hv' hd, h]

/-! ## `NdSparse.get` as a sum -/
section
variable {α : Type} [Field α] [LinearOrder α] [A : Arith α] [L : LawfulArith α]

/-- sum of the listed values at `idx` -/
def entSum (l : List (List Nat × α)) (idx : List Nat) : α :=
  (l.map fun e => if e.1 = idx then e.2 else 0).sum

theorem get_eq_entSum (s : NdSparse α) (idx : List Nat) : s.get idx = entSum s.entries idx := by
  unfold NdSparse.get entSum
  have hf : (fun (e : List Nat × α) acc => if e.1 = idx then A.add e.2 acc else acc)
      = fun e acc => if e.1 = idx then e.2 + acc else acc := by
    funext e acc; rw [L.add_eq]
  rw [hf, L.zero_eq]
  induction s.entries with
  | nil => simp
  | cons e es ih =>
    simp only [List.foldr_cons, List.map_cons, List.sum_cons, ← ih]
    split <;> simp

theorem entSum_nil (idx : List Nat) : entSum ([] : List (List Nat × α)) idx = 0 := by simp [entSum]

theorem entSum_cons (e : List Nat × α) (l : List (List Nat × α)) (idx : List Nat) :
    entSum (e :: l) idx = (if e.1 = idx then e.2 else 0) + entSum l idx := by simp [entSum]

theorem entSum_append (l₁ l₂ : List (List Nat × α)) (idx : List Nat) :
    entSum (l₁ ++ l₂) idx = entSum l₁ idx + entSum l₂ idx := by simp [entSum]

theorem entSum_eq_zero (l : List (List Nat × α)) (idx : List Nat) (h : ∀ e ∈ l, e.1 ≠ idx) :
    entSum l idx = 0 := by
  induction l with
  | nil => exact entSum_nil idx
  | cons e es ih =>
    rw [entSum_cons, ih (fun a ha => h a (by simp [ha])), if_neg (h e (by simp))]; simp

/-- contribution of an optional entry -/
def optVal (o : Option (List Nat × α)) (idx : List Nat) : α :=
  match o with
  | none => 0
  | some e => if e.1 = idx then e.2 else 0

theorem entSum_filterMap_range (F : Nat → Option (List Nat × α)) (n : Nat) (idx : List Nat) :
    entSum ((List.range n).filterMap F) idx = ∑ g ∈ Finset.range n, optVal (F g) idx := by
  induction n with
  | zero => simp [entSum]
  | succ n ih =>
    rw [List.range_succ, List.filterMap_append, entSum_append, ih, Finset.sum_range_succ]
    congr 1
    cases h : F n with
    | none => simp [List.filterMap_cons, h, optVal, entSum]
    | some e => simp [List.filterMap_cons, h, optVal, entSum]

theorem set_eq_iff (e idx : List Nat) (dim : Nat) :
    e.set dim (idx.getD dim 0) = idx ↔ e = idx.set dim (e.getD dim 0) := by
  constructor
  · intro h
    have : idx.set dim (e.getD dim 0) = (e.set dim (idx.getD dim 0)).set dim (e.getD dim 0) := by rw [h]
    rw [this, List.set_set, set_getD_self]
  · intro h
    have : e.set dim (idx.getD dim 0) = (idx.set dim (e.getD dim 0)).set dim (idx.getD dim 0) := by rw [← h]
    rw [this, List.set_set, set_getD_self]

/-- one source entry of `slicemultiply`: what it contributes at a result index -/
theorem slice_entry (ranges : List Nat) (b : Mat α) (dim : Nat) (e : List Nat × α) (idx : List Nat)
    (he : IdxIn e.1 ranges) (hd : dim < ranges.length) (hidx : IdxIn idx (ranges.set dim b.ncol))
    (hb : b.nrow = ranges.getD dim 0) :
    entSum ((List.range b.ncol).filterMap fun g =>
        if isZero (b.val (e.1.getD dim 0) g) then none
        else some (unflattenIdx (ranges.set dim b.ncol) dim g (flattenCol ranges e.1 dim),
                   A.mul (b.val (e.1.getD dim 0) g) e.2)) idx
      = ∑ j ∈ Finset.range b.nrow, b.val j (idx.getD dim 0) * (if e.1 = idx.set dim j then e.2 else 0) := by
  have hde : dim < e.1.length := by rw [he.1]; exact hd
  have hdi : dim < idx.length := by rw [hidx.1]; simpa using hd
  have hg0 : idx.getD dim 0 < b.ncol := by
    have := hidx.2 dim (by simpa using hd)
    rwa [getD_set_self_idx _ _ _ hd] at this
  have hj0 : e.1.getD dim 0 < b.nrow := by rw [hb]; exact he.2 dim hd
  rw [entSum_filterMap_range]
  have hL : ∑ g ∈ Finset.range b.ncol, optVal (if isZero (b.val (e.1.getD dim 0) g) then none
        else some (unflattenIdx (ranges.set dim b.ncol) dim g (flattenCol ranges e.1 dim),
                   A.mul (b.val (e.1.getD dim 0) g) e.2)) idx
      = if e.1.set dim (idx.getD dim 0) = idx then b.val (e.1.getD dim 0) (idx.getD dim 0) * e.2 else 0 := by
    rw [Finset.sum_eq_single (idx.getD dim 0)]
    · rw [unflatten_flatten' ranges e.1 dim _ _ he hd, L.mul_eq]
      by_cases hz : isZero (b.val (e.1.getD dim 0) (idx.getD dim 0)) = true
      · rw [if_pos hz]
        have := (isZero_iff _).mp hz
        rw [this]
        simp [optVal]
      · rw [if_neg hz]; simp [optVal]
    · intro g _ hne
      by_cases hz : isZero (b.val (e.1.getD dim 0) g) = true
      · rw [if_pos hz]; rfl
      · rw [if_neg hz, unflatten_flatten' ranges e.1 dim _ _ he hd]
        have : e.1.set dim g ≠ idx := by
          intro h
          apply hne
          rw [← h, getD_set_self_idx _ _ _ hde]
        simp [optVal, this]
    · intro h; exact absurd (Finset.mem_range.mpr hg0) h
  rw [hL, Finset.sum_eq_single (e.1.getD dim 0)]
  · by_cases h : e.1.set dim (idx.getD dim 0) = idx
    · rw [if_pos h, if_pos ((set_eq_iff _ _ _).mp h)]
    · rw [if_neg h, if_neg (fun h' => h ((set_eq_iff _ _ _).mpr h'))]; simp
  · intro j _ hne
    have : e.1 ≠ idx.set dim j := by
      intro h
      apply hne
      rw [h, getD_set_self_idx _ _ _ hdi]
    rw [if_neg this]; simp
  · intro h; exact absurd (Finset.mem_range.mpr hj0) h

theorem slice_entries (ranges : List Nat) (b : Mat α) (dim : Nat) (es : List (List Nat × α))
    (idx : List Nat) (hes : ∀ e ∈ es, IdxIn e.1 ranges) (hd : dim < ranges.length)
    (hidx : IdxIn idx (ranges.set dim b.ncol)) (hb : b.nrow = ranges.getD dim 0) :
    entSum (es.flatMap fun e =>
        (List.range b.ncol).filterMap fun g =>
          if isZero (b.val (e.1.getD dim 0) g) then none
          else some (unflattenIdx (ranges.set dim b.ncol) dim g (flattenCol ranges e.1 dim),
                     A.mul (b.val (e.1.getD dim 0) g) e.2)) idx
      = ∑ j ∈ Finset.range b.nrow, b.val j (idx.getD dim 0) * entSum es (idx.set dim j) := by
  induction es with
  | nil => simp [entSum]
  | cons e es ih =>
    rw [List.flatMap_cons, entSum_append, slice_entry ranges b dim e idx (hes e (by simp)) hd hidx hb,
      ih (fun a ha => hes a (by simp [ha])), ← Finset.sum_add_distrib]
    apply Finset.sum_congr rfl
    intro j _
    rw [entSum_cons, mul_add]

theorem slice_entries_wf (ranges : List Nat) (b : Mat α) (dim : Nat) (es : List (List Nat × α))
    (hes : ∀ e ∈ es, IdxIn e.1 ranges) (hd : dim < ranges.length) :
    ∀ e' ∈ (es.flatMap fun e =>
        (List.range b.ncol).filterMap fun g =>
          if isZero (b.val (e.1.getD dim 0) g) then none
          else some (unflattenIdx (ranges.set dim b.ncol) dim g (flattenCol ranges e.1 dim),
                     A.mul (b.val (e.1.getD dim 0) g) e.2)),
      IdxIn e'.1 (ranges.set dim b.ncol) := by
  intro e' he'
  rw [List.mem_flatMap] at he'
  obtain ⟨e, hemem, he'⟩ := he'
  rw [List.mem_filterMap] at he'
  obtain ⟨g, hg, he'⟩ := he'
  by_cases hz : isZero (b.val (e.1.getD dim 0) g) = true
  · rw [if_pos hz] at he'; exact absurd he' (by simp)
  · rw [if_neg hz, unflatten_flatten' ranges e.1 dim _ _ (hes e hemem) hd] at he'
    have : e'.1 = e.1.set dim g := by
      have := Option.some.inj he'
      rw [← this]
    rw [this]
    exact (hes e hemem).set dim g b.ncol (List.mem_range.mp hg)

end

section
variable {α : Type} [Field α] [LinearOrder α] [A : Arith α] [L : LawfulArith α]

theorem sliceMultiply_eq_some (a : NdSparse α) (b : Mat α) (dim : Nat)
    (hb : b.nrow = a.ranges.getD dim 0) :
    sliceMultiply a b dim = some ⟨a.ranges.set dim b.ncol,
      a.entries.flatMap fun e =>
        (List.range b.ncol).filterMap fun g =>
          if isZero (b.val (e.1.getD dim 0) g) then none
          else some (unflattenIdx (a.ranges.set dim b.ncol) dim g (flattenCol a.ranges e.1 dim),
                     A.mul (b.val (e.1.getD dim 0) g) e.2)⟩ := by
  unfold sliceMultiply
  rw [if_neg (fun h => h hb)]

theorem sliceMultiply_spec (a : NdSparse α) (b : Mat α) (dim : Nat) (ha : a.WF)
    (hd : dim < a.ranges.length) (hb : b.nrow = a.ranges.getD dim 0) :
    ∃ a', sliceMultiply a b dim = some a' ∧ a'.ranges = a.ranges.set dim b.ncol ∧ a'.WF ∧
      ∀ idx, IdxIn idx a'.ranges →
        a'.get idx = ∑ j ∈ Finset.range b.nrow, b.val j (idx.getD dim 0) * a.get (idx.set dim j) := by
  refine ⟨_, sliceMultiply_eq_some a b dim hb, rfl, ?_, ?_⟩
  · exact slice_entries_wf a.ranges b dim a.entries ha hd
  · intro idx hidx
    rw [get_eq_entSum]
    simp only [get_eq_entSum]
    exact slice_entries a.ranges b dim a.entries idx ha hd hidx hb

end

/-! ## the basis matrix, `specSum` as nested sums -/
section
variable {α : Type} [Field α] [LinearOrder α] [A : Arith α] [L : LawfulArith α]

/-- the guarded recursion of splineutil.c is Cox–de Boor with the right-continuous indicator and
`a/0 = 0` -/
theorem bsplineG_eq_Bind (t : Int → α) (x : α) (n : Nat) (i : Int) :
    bsplineG t x n i = Bind (indR t x) t x n i := by
  induction n generalizing i with
  | zero => simp [bsplineG, Bind, indR]
  | succ n ih =>
    simp only [bsplineG, Bind, ih, L.add_eq, L.sub_eq, L.mul_eq, L.div_eq, L.zero_eq, isZero_iff]
    by_cases h1 : t (i + n + 1) - t i = 0 <;> by_cases h2 : t (i + n + 2) - t (i + 1) = 0
    · simp [h1, h2]
    · simp [h1, h2, mul_div_right_comm]
    · simp [h1, h2, mul_div_right_comm]
    · simp [h1, h2, mul_div_right_comm]

theorem basisT_val (t : Int → α) (nknots order : Nat) (xs : List α) (j g : Nat) (hg : g < xs.length) :
    (bsplineBasis t nknots order xs).transpose.val j g
      = Bind (indR t (xs.getD g 0)) t (xs.getD g 0) order j := by
  simp only [Mat.transpose, bsplineBasis, tabGet_tabOf]
  rw [List.getElem?_eq_getElem hg]
  simp only [bsplineG_eq_Bind]
  simp [List.getD_eq_getElem?_getD, hg]

theorem specSumRow_eq_rangeSum (inner : α → Int → α) (s : Nat) (p : α) (fs : List α) (pos : Int) :
    specSumRow inner s p fs pos
      = ∑ k ∈ Finset.range fs.length, inner (p * fs.getD k 0) (pos + (k : Int) * s) := by
  induction fs generalizing pos with
  | nil => simp [specSumRow, L.zero_eq]
  | cons f fs ih =>
    simp only [specSumRow, L.add_eq, L.mul_eq, ih, List.length_cons]
    rw [Finset.sum_range_succ', add_comm]
    congr 1
    · apply Finset.sum_congr rfl
      intro k _
      have : pos + (s : Int) + (k : Int) * s = pos + ((k + 1 : Nat) : Int) * s := by push_cast; ring
      rw [this]; simp
    · simp

/-- appending a row (= one more dimension, innermost) to `specSum` -/
theorem specSum_snoc (coef : Int → α) (rows : List (Nat × List α)) (s : Nat) (fs : List α) (p : α)
    (pos : Int) :
    specSum coef (rows ++ [(s, fs)]) p pos
      = ∑ j ∈ Finset.range fs.length, fs.getD j 0 * specSum coef rows p (pos + (j : Int) * s) := by
  induction rows generalizing p pos with
  | nil =>
    simp only [List.nil_append, specSum, specSumRow_eq_rangeSum, L.mul_eq]
    apply Finset.sum_congr rfl
    intro j _; ring
  | cons r rows ih =>
    obtain ⟨s', fs'⟩ := r
    simp only [List.cons_append, specSum, specSumRow_eq_rangeSum, ih]
    rw [Finset.sum_comm]
    apply Finset.sum_congr rfl
    intro j _
    rw [Finset.mul_sum]
    apply Finset.sum_congr rfl
    intro i _
    have : pos + (i : Int) * s' + (j : Int) * s = pos + (j : Int) * s + (i : Int) * s' := by ring
    rw [this]

end

/-! ## the row-major coefficient tensor -/
section
variable {α : Type}

/-- strides of a C-ordered array: last stride 1, `stride_d = stride_{d+1} · naxes_{d+1}` -/
def StridesRowMajor : List (Dim α) → Prop
  | [] => True
  | [d] => d.stride = 1
  | d :: d' :: ds => d.stride = d'.stride * d'.naxes ∧ StridesRowMajor (d' :: ds)

/-- what grid evaluation needs of the dimension list -/
structure GridTableWF (dims : List (Dim α)) : Prop where
  ne : dims ≠ []
  naxes_eq : ∀ d ∈ dims, d.naxes = d.nknots - d.order - 1
  strides : StridesRowMajor dims

/-- number of coefficients `naxes_0 · stride_0` -/
def tableSize : List (Dim α) → Nat
  | [] => 0
  | d :: _ => d.naxes * d.stride

/-- position of the coefficient with index tuple `idx` -/
def posL : List (Dim α) → List Nat → Nat
  | d :: ds, j :: js => j * d.stride + posL ds js
  | _, _ => 0

theorem idxIn_cons (j a : Nat) (js as : List Nat) :
    IdxIn (j :: js) (a :: as) ↔ j < a ∧ IdxIn js as := by
  unfold IdxIn
  constructor
  · rintro ⟨hl, hb⟩
    refine ⟨by simpa using hb 0 (by simp), by simpa using hl, fun k hk => ?_⟩
    simpa using hb (k+1) (by simpa using hk)
  · rintro ⟨h0, hl, hb⟩
    refine ⟨by simp [hl], fun k hk => ?_⟩
    cases k with
    | zero => simpa using h0
    | succ k => simpa using hb k (by simpa using hk)

theorem idxIn_nil_right (idx : List Nat) : IdxIn idx [] ↔ idx = [] := by
  unfold IdxIn; simp

theorem decode_pos (ds : List (Dim α)) (hs : StridesRowMajor ds) (hne : ds ≠ []) (idx : List Nat)
    (hv : IdxIn idx (ds.map (·.naxes))) :
    posL ds idx < tableSize ds ∧ decodeStrides (ds.map (·.stride)) (posL ds idx) = idx := by
  induction ds generalizing idx with
  | nil => exact absurd rfl hne
  | cons d ds ih =>
    cases idx with
    | nil => exact absurd hv.1 (by simp)
    | cons j js =>
      rw [List.map_cons, idxIn_cons] at hv
      obtain ⟨hj, hjs⟩ := hv
      cases ds with
      | nil =>
        have : js = [] := by simpa [idxIn_nil_right] using hjs
        subst this
        have hs1 : d.stride = 1 := hs
        simp [posL, tableSize, decodeStrides, hs1, hj]
      | cons d' ds' =>
        obtain ⟨hs1, hs2⟩ := hs
        obtain ⟨h1, h2⟩ := ih hs2 (by simp) js hjs
        have hlt : posL (d' :: ds') js < d.stride := by
          rw [hs1, Nat.mul_comm]; exact h1
        have hpos : 0 < d.stride := by omega
        generalize d' :: ds' = dd at h1 h2 hlt ⊢
        refine ⟨?_, ?_⟩
        · simp only [posL, tableSize]
          calc j * d.stride + posL dd js < j * d.stride + d.stride := by omega
            _ = (j + 1) * d.stride := by ring
            _ ≤ d.naxes * d.stride := Nat.mul_le_mul_right _ hj
        · simp only [posL, List.map_cons, decodeStrides]
          rw [Nat.add_comm (j * d.stride), Nat.add_mul_div_right _ _ hpos, Nat.div_eq_of_lt hlt,
            Nat.zero_add, Nat.add_mul_mod_self_right, Nat.mod_eq_of_lt hlt]
          rw [h2]

theorem pos_decode (ds : List (Dim α)) (hs : StridesRowMajor ds) (hne : ds ≠ []) (i : Nat)
    (hi : i < tableSize ds) :
    IdxIn (decodeStrides (ds.map (·.stride)) i) (ds.map (·.naxes)) ∧
      posL ds (decodeStrides (ds.map (·.stride)) i) = i := by
  induction ds generalizing i with
  | nil => exact absurd rfl hne
  | cons d ds ih =>
    cases ds with
    | nil =>
      have hs1 : d.stride = 1 := hs
      simp only [tableSize, hs1, Nat.mul_one] at hi
      simp only [List.map_cons, List.map_nil, decodeStrides, hs1, Nat.div_one, posL, idxIn_cons]
      exact ⟨⟨hi, (idxIn_nil_right _).mpr rfl⟩, by simp⟩
    | cons d' ds' =>
      obtain ⟨hs1, hs2⟩ := hs
      simp only [tableSize] at hi
      have hpos : 0 < d.stride := by
        rcases Nat.eq_zero_or_pos d.stride with h | h
        · rw [h] at hi; simp at hi
        · exact h
      have hmod : i % d.stride < tableSize (d' :: ds') := by
        simp only [tableSize]; rw [Nat.mul_comm, ← hs1]; exact Nat.mod_lt _ hpos
      obtain ⟨h1, h2⟩ := ih hs2 (by simp) (i % d.stride) hmod
      generalize d' :: ds' = dd at h1 h2 ⊢
      simp only [List.map_cons, decodeStrides, idxIn_cons, posL]
      refine ⟨⟨(Nat.div_lt_iff_lt_mul hpos).mpr hi, h1⟩, ?_⟩
      rw [h2]; exact Nat.div_add_mod' i d.stride

end

section
variable {α : Type} [Field α] [LinearOrder α] [A : Arith α] [L : LawfulArith α]

theorem coefTensor_eq (dims : List (Dim α)) (coef : Int → α) :
    coefTensor dims coef = ⟨dims.map (·.naxes),
      (List.range (tableSize dims)).filterMap fun (i : Nat) =>
        if isZero (coef (Int.ofNat i)) then none
        else some (decodeStrides (dims.map (·.stride)) i, coef (Int.ofNat i))⟩ := by
  cases dims <;> rfl

theorem coefTensor_wf (dims : List (Dim α)) (coef : Int → α) (hs : StridesRowMajor dims)
    (hne : dims ≠ []) : (coefTensor dims coef).WF := by
  rw [coefTensor_eq]
  intro e he
  simp only [List.mem_filterMap, List.mem_range] at he
  obtain ⟨i, hi, he⟩ := he
  by_cases hz : isZero (coef (Int.ofNat i)) = true
  · rw [if_pos hz] at he; exact absurd he (by simp)
  · rw [if_neg hz] at he
    have := Option.some.inj he
    rw [← this]
    exact (pos_decode dims hs hne i hi).1

/-- the coefficient tensor holds `coef[Σ idx_d·stride_d]` at a valid index tuple -/
theorem coefTensor_get (dims : List (Dim α)) (coef : Int → α) (hs : StridesRowMajor dims)
    (hne : dims ≠ []) (idx : List Nat) (hv : IdxIn idx (dims.map (·.naxes))) :
    (coefTensor dims coef).get idx = coef (posL dims idx : Nat) := by
  rw [get_eq_entSum, coefTensor_eq]
  simp only
  rw [entSum_filterMap_range]
  obtain ⟨h1, h2⟩ := decode_pos dims hs hne idx hv
  rw [Finset.sum_eq_single (posL dims idx)]
  · rw [h2]
    by_cases hz : isZero (coef (Int.ofNat (posL dims idx))) = true
    · rw [if_pos hz]
      have := (isZero_iff _).mp hz
      simp only [Int.ofNat_eq_natCast] at this
      rw [this]; rfl
    · rw [if_neg hz]; simp [optVal]
  · intro i hi hne'
    by_cases hz : isZero (coef (Int.ofNat i)) = true
    · rw [if_pos hz]; rfl
    · rw [if_neg hz]
      have : decodeStrides (dims.map (·.stride)) i ≠ idx := by
        intro h
        apply hne'
        rw [← (pos_decode dims hs hne i (Finset.mem_range.mp hi)).2, h]
      simp [optVal, this]
  · intro h; exact absurd (Finset.mem_range.mpr h1) h

/-! ## the loop of `grideval` -/

/-- dimension `d` (a dummy beyond the end) -/
def dimAt (dims : List (Dim α)) (d : Nat) : Dim α := dims.getD d ⟨0, 0, 0, 0, fun _ => 0⟩

/-- coordinate of the grid point `idx` in dimension `d` -/
def xAt (coords : List (List α)) (idx : List Nat) (d : Nat) : α :=
  (coords.getD d []).getD (idx.getD d 0) 0

/-- `(stride, [B_0(x), …])` of dimension `d` at the grid point `idx` -/
def gRow (dims : List (Dim α)) (coords : List (List α)) (idx : List Nat) (d : Nat) : Nat × List α :=
  ((dimAt dims d).stride, (List.range (dimAt dims d).naxes).map fun (i : Nat) =>
    Bind (indR (dimAt dims d).knots (xAt coords idx d)) (dimAt dims d).knots (xAt coords idx d)
      (dimAt dims d).order i)

def gRowsUpTo (dims : List (Dim α)) (coords : List (List α)) (idx : List Nat) (k : Nat) :
    List (Nat × List α) := (List.range k).map (gRow dims coords idx)

/-- `Σ_{k ≤ d < n} idx_d · stride_d` -/
def posFrom (dims : List (Dim α)) (idx : List Nat) (k n : Nat) : Int :=
  ∑ d ∈ Finset.Ico k n, (idx.getD d 0 : Int) * ((dimAt dims d).stride : Int)

theorem posL_eq_posFrom (dims : List (Dim α)) (idx : List Nat) :
    ((posL dims idx : Nat) : Int) = posFrom dims idx 0 dims.length := by
  unfold posFrom
  rw [← Finset.range_eq_Ico]
  induction dims generalizing idx with
  | nil => simp [posL]
  | cons d ds ih =>
    cases idx with
    | nil => simp [posL]
    | cons j js =>
      rw [List.length_cons, Finset.sum_range_succ', posL]
      push_cast
      rw [ih js, add_comm]
      simp [dimAt]

/-- state of the tensor after `k` of the `n` mode products -/
structure GridInv (dims : List (Dim α)) (coef : Int → α) (coords : List (List α)) (k : Nat)
    (nd : NdSparse α) : Prop where
  ranges : nd.ranges = (List.range dims.length).map fun d =>
    if d < k then (coords.getD d []).length else (dimAt dims d).naxes
  wf : nd.WF
  get : ∀ idx, IdxIn idx nd.ranges →
    nd.get idx = specSum coef (gRowsUpTo dims coords idx k) 1 (posFrom dims idx k dims.length)

theorem getD_map_range (n : Nat) (f : Nat → Nat) (p : Nat) (hp : p < n) :
    ((List.range n).map f).getD p 0 = f p := by
  simp [List.getD_eq_getElem?_getD, hp]

theorem gridInv_init (dims : List (Dim α)) (coef : Int → α) (coords : List (List α))
    (hs : StridesRowMajor dims) (hne : dims ≠ []) :
    GridInv dims coef coords 0 (coefTensor dims coef) := by
  have hr : (coefTensor dims coef).ranges = dims.map (·.naxes) := by rw [coefTensor_eq]
  refine ⟨?_, coefTensor_wf dims coef hs hne, ?_⟩
  · rw [hr]
    apply list_ext_getD (by simp)
    intro p hp
    simp only [List.length_map] at hp
    rw [getD_map_range _ _ _ hp]
    simp [dimAt, List.getD_eq_getElem?_getD, hp]
  · intro idx hv
    rw [hr] at hv
    rw [coefTensor_get dims coef hs hne idx hv, posL_eq_posFrom]
    simp [gRowsUpTo, specSum, L.mul_eq]

theorem gridInv_step (dims : List (Dim α)) (coef : Int → α) (coords : List (List α)) (k : Nat)
    (nd : NdSparse α) (hk : k < dims.length)
    (hna : (dimAt dims k).naxes = (dimAt dims k).nknots - (dimAt dims k).order - 1)
    (h : GridInv dims coef coords k nd) :
    ∃ nd', sliceMultiply nd (bsplineBasis (dimAt dims k).knots (dimAt dims k).nknots
        (dimAt dims k).order (coords.getD k [])).transpose k = some nd' ∧
      GridInv dims coef coords (k+1) nd' := by
  obtain ⟨hr, hwf, hget⟩ := h
  have hlen : nd.ranges.length = dims.length := by rw [hr]; simp
  have hrk : nd.ranges.getD k 0 = (dimAt dims k).naxes := by
    rw [hr, getD_map_range _ _ _ hk]; simp
  obtain ⟨nd', h1, h2, h3, h4⟩ := sliceMultiply_spec nd
    (bsplineBasis (dimAt dims k).knots (dimAt dims k).nknots (dimAt dims k).order
      (coords.getD k [])).transpose k hwf (by rw [hlen]; exact hk)
    (by rw [hrk, hna]; rfl)
  refine ⟨nd', h1, ?_, h3, ?_⟩
  · rw [h2]
    apply list_ext_getD (by simp [hlen])
    intro p hp
    simp only [List.length_set, hlen] at hp
    rw [getD_set, hlen, getD_map_range _ _ _ hp, hr, getD_map_range _ _ _ hp]
    by_cases hpk : k = p
    · subst hpk
      simp [hk, Mat.transpose, bsplineBasis]
    · have : ¬ (k = p ∧ k < dims.length) := fun hh => hpk hh.1
      rw [if_neg this]
      by_cases hlt : p < k
      · have : p < k + 1 := by omega
        simp [hlt, this]
      · have : ¬ p < k + 1 := by omega
        simp [hlt, this]
  · intro idx hv
    rw [h4 idx hv]
    rw [h2] at hv
    have hgk : idx.getD k 0 < (coords.getD k []).length := by
      have := hv.2 k (by simpa [hlen] using hk)
      rw [getD_set_self_idx _ _ _ (by rw [hlen]; exact hk)] at this
      simpa [Mat.transpose, bsplineBasis] using this
    have hvj : ∀ j, j < (dimAt dims k).naxes → IdxIn (idx.set k j) nd.ranges := by
      intro j hj
      have := hv.set k j (dimAt dims k).naxes hj
      rwa [List.set_set, ← hrk, set_getD_self] at this
    have hnrow : (bsplineBasis (dimAt dims k).knots (dimAt dims k).nknots (dimAt dims k).order
      (coords.getD k [])).transpose.nrow = (dimAt dims k).naxes := by rw [hna]; rfl
    rw [hnrow]
    have hrows : gRowsUpTo dims coords idx (k+1)
        = gRowsUpTo dims coords idx k ++ [gRow dims coords idx k] := by
      simp [gRowsUpTo, List.range_succ]
    rw [hrows]
    unfold gRow
    rw [specSum_snoc]
    simp only [List.length_map, List.length_range]
    apply Finset.sum_congr rfl
    intro j hj
    have hj' := Finset.mem_range.mp hj
    rw [basisT_val _ _ _ _ _ _ hgk, hget _ (hvj j hj')]
    have e1 : gRowsUpTo dims coords (idx.set k j) k = gRowsUpTo dims coords idx k := by
      unfold gRowsUpTo
      apply List.map_congr_left
      intro d hd
      have hdk : ¬ (k = d ∧ k < idx.length) := fun hh => by
        have := List.mem_range.mp hd; omega
      simp only [gRow, xAt, getD_set, if_neg hdk]
    have e2 : posFrom dims (idx.set k j) k dims.length
        = posFrom dims idx (k+1) dims.length + (j : Int) * ((dimAt dims k).stride : Int) := by
      unfold posFrom
      rw [Finset.sum_eq_sum_Ico_succ_bot hk, add_comm]
      have hki : k < idx.length := by rw [hv.1]; simpa [hlen] using hk
      congr 1
      · apply Finset.sum_congr rfl
        intro d hd
        have hdk : ¬ (k = d ∧ k < idx.length) := fun hh => by
          have := (Finset.mem_Ico.mp hd).1; omega
        rw [getD_set, if_neg hdk]
      · rw [getD_set_self_idx _ _ _ hki]
    rw [e1, e2]
    congr 1
    simp [xAt, List.getD_eq_getElem?_getD, hj']

end

section
variable {α : Type} [Field α] [LinearOrder α] [A : Arith α] [L : LawfulArith α]

theorem gridLoop_spec (dims : List (Dim α)) (coef : Int → α) (coords : List (List α))
    (hlen : coords.length = dims.length)
    (hna : ∀ d ∈ dims, d.naxes = d.nknots - d.order - 1) :
    ∀ m k nd, k + m = dims.length → GridInv dims coef coords k nd →
      ∃ nd', gridLoop (dims.drop k) (coords.drop k) k nd = some nd' ∧
        GridInv dims coef coords dims.length nd' := by
  intro m
  induction m with
  | zero =>
    intro k nd hk h
    have : k = dims.length := by omega
    subst this
    refine ⟨nd, ?_, h⟩
    rw [List.drop_length, List.drop_eq_nil_of_le (by omega)]
    rfl
  | succ m ih =>
    intro k nd hk h
    have hkd : k < dims.length := by omega
    have hkc : k < coords.length := by omega
    have e1 : dims[k] = dimAt dims k := by simp [dimAt, List.getD_eq_getElem?_getD, hkd]
    have e2 : coords[k] = coords.getD k [] := by simp [List.getD_eq_getElem?_getD, hkc]
    rw [List.drop_eq_getElem_cons hkd, List.drop_eq_getElem_cons hkc, e1, e2]
    obtain ⟨nd', h1, h2⟩ := gridInv_step dims coef coords k nd hkd
      (by rw [← e1]; exact hna _ (List.getElem_mem hkd)) h
    simp only [gridLoop, h1]
    exact ih (k+1) nd' (by omega) h2

theorem gridPoint_idxIn (coords : List (List α)) (g : List Nat) (xs : List α)
    (h : gridPoint coords g = some xs) : IdxIn g (coords.map List.length) := by
  induction coords generalizing g xs with
  | nil =>
    cases g with
    | nil => exact ⟨rfl, fun k hk => absurd hk (by simp)⟩
    | cons g0 gs => simp [gridPoint] at h
  | cons c cs ih =>
    cases g with
    | nil => simp [gridPoint] at h
    | cons g0 gs =>
      cases hc : c[g0]? with
      | none => simp [gridPoint, hc] at h
      | some x =>
        cases hr : gridPoint cs gs with
        | none => simp [gridPoint, hc, hr] at h
        | some xs' =>
          rw [List.map_cons, idxIn_cons]
          exact ⟨(List.getElem?_eq_some_iff.mp hc).1, ih gs xs' hr⟩

theorem gRowsUpTo_eq_gridRows (dims : List (Dim α)) (coords : List (List α)) (g : List Nat)
    (xs : List α) (hlen : coords.length = dims.length) (h : gridPoint coords g = some xs) :
    gRowsUpTo dims coords g dims.length = gridRows dims xs := by
  induction dims generalizing coords g xs with
  | nil => simp [gRowsUpTo, gridRows]
  | cons d ds ih =>
    cases coords with
    | nil => simp at hlen
    | cons c cs =>
      cases g with
      | nil => simp [gridPoint] at h
      | cons g0 gs =>
        cases hc : c[g0]? with
        | none => simp [gridPoint, hc] at h
        | some x =>
          cases hr : gridPoint cs gs with
          | none => simp [gridPoint, hc, hr] at h
          | some xs' =>
            simp only [gridPoint, hc, hr, Option.some.injEq] at h
            subst h
            have ih' := ih cs gs xs' (by simpa using hlen) hr
            have hx : c.getD g0 0 = x := by simp [List.getD_eq_getElem?_getD, hc]
            unfold gRowsUpTo at ih' ⊢
            rw [List.length_cons, List.range_succ_eq_map, List.map_cons, List.map_map, gridRows,
              ← ih']
            congr 1
            simp only [gRow, dimAt, xAt, List.getD_cons_zero, hx]

/-- `grideval` = the tensor-product sum at every grid point -/
theorem gridEval_spec (dims : List (Dim α)) (coef : Int → α) (coords : List (List α))
    (hwf : GridTableWF dims) (hlen : coords.length = dims.length) :
    ∃ nd, gridEval dims coef coords = some nd ∧ nd.ranges = coords.map List.length ∧ nd.WF ∧
      ∀ g xs, gridPoint coords g = some xs → nd.get g = gridSpec dims coef xs := by
  obtain ⟨nd, h1, h2⟩ := gridLoop_spec dims coef coords hlen hwf.naxes_eq dims.length 0
    (coefTensor dims coef) (by omega) (gridInv_init dims coef coords hwf.strides hwf.ne)
  rw [List.drop_zero, List.drop_zero] at h1
  have hr : nd.ranges = coords.map List.length := by
    rw [h2.ranges]
    apply list_ext_getD (by simp [hlen])
    intro p hp
    simp only [List.length_map, List.length_range] at hp
    rw [getD_map_range _ _ _ hp]
    simp [List.getD_eq_getElem?_getD, hp, hlen]
  refine ⟨nd, ?_, hr, h2.wf, ?_⟩
  · unfold gridEval
    rw [if_neg (fun hh => hh hlen)]
    exact h1
  · intro g xs hg
    have hv := gridPoint_idxIn coords g xs hg
    rw [← hr] at hv
    rw [h2.get g hv, gRowsUpTo_eq_gridRows dims coords g xs hlen hg]
    unfold gridSpec posFrom
    simp [L.one_eq]

end

/-! ## grid convention vs. pointwise convention -/
section
variable {α : Type} [Field α] [LinearOrder α] [A : Arith α] [L : LawfulArith α]

/-- where the pointwise evaluation convention (C01) is the right-continuous one -/
def RightContAt (d : Dim α) (x : α) : Prop := x < d.knots d.naxes ∨ ∀ i : Int, x ≠ d.knots i

theorem selInd_eq_indR (d : Dim α) (x : α) (h : RightContAt d x) : selInd d x = indR d.knots x := by
  unfold selInd
  by_cases hlt : A.lt x (d.knots d.naxes) = true
  · rw [if_pos hlt]
  · rw [if_neg hlt]
    rcases h with h | h
    · exact absurd ((L.lt_iff _ _).mpr h) hlt
    · funext i
      unfold indL indR
      rw [Bool.eq_iff_iff]
      simp only [Bool.and_eq_true, L.lt_iff, L.le_iff]
      have h1 := h i
      have h2 := h (i+1)
      constructor
      · rintro ⟨a, b⟩; exact ⟨le_of_lt a, lt_of_le_of_ne b h2⟩
      · rintro ⟨a, b⟩; exact ⟨lt_of_le_of_ne a (Ne.symm h1), le_of_lt b⟩

theorem gridRows_eq_specRows (dims : List (Dim α)) (xs : List α)
    (h : List.Forall₂ RightContAt dims xs) :
    gridRows dims xs = specRows dims xs (List.replicate dims.length BasisMode.value) := by
  induction h with
  | nil => simp [gridRows, specRows]
  | cons hd _ ih =>
    simp only [gridRows, List.length_cons, List.replicate_succ, specRows, ih]
    congr 2
    apply List.map_congr_left
    intro i _
    simp [Bsel, derivOrder, Dind, selInd_eq_indR _ _ hd]

end

/-- `IdxIn` is the pointwise `<` relation of the two lists -/
theorem idxIn_iff_forall₂ (idx ranges : List Nat) :
    IdxIn idx ranges ↔ List.Forall₂ (· < ·) idx ranges := by
  induction idx generalizing ranges with
  | nil =>
    cases ranges with
    | nil => simp [IdxIn]
    | cons a as => simp [IdxIn]
  | cons j js ih =>
    cases ranges with
    | nil => simp [IdxIn]
    | cons a as => rw [idxIn_cons, List.forall₂_cons, ih]

end PsV
