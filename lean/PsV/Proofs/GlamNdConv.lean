import PsV.Proofs.Glam1d
import PsV.Proofs.GlamNdDefs
/-!
# C09, n dimensions: the convolution loop of `glamfit_complex`

`glamConvolve bs 0 F R` applies `slicemultiply(F, box(b_i,b_i), i)` and `slicemultiply(R, b_i, i)` for every
dimension.  The result tensors hold, at a valid index tuple `idx`,
`Σ_entries (Π_d box(b_d,b_d)[e_d, idx_d])·v` and `Σ_entries (Π_d b_d[e_d, idx_d])·v` (`glamConvolve_get`).

* `convLoop` – the loop for one tensor; `glamConvolve` is two of them run side by side (`glamConvolve_eq`).
* `pProd pre e idx = Π_{d<k} pre_d[e_d, idx_d] · [e_d = idx_d for d ≥ k]` (`k = pre.length`) – the weight of a source
  entry after the first `k` mode products; `pProd_snoc` is one step, `pProd_eq_matProd` the end.
* `convLoop_spec` – the loop invariant.
-/
set_option linter.unusedSectionVars false
set_option linter.unusedSimpArgs false
set_option linter.unusedVariables false
namespace PsV
open Arith Finset
section
variable {α : Type} [Field α] [LinearOrder α] [IsStrictOrderedRing α] [A : Arith α] [L : LawfulArith α]

/-- `for i: a = slicemultiply(a, b_i, i)` starting at dimension `i` -/
def convLoop : List (Mat α) → Nat → NdSparse α → Option (NdSparse α)
  | [], _, a => some a
  | b :: bs, i, a =>
    match sliceMultiply a b i with
    | some a' => convLoop bs (i+1) a'
    | none => none

/-- the convolution loop of `glamfit_complex` is the single-tensor loop run on `F` (boxed bases) and on `R` -/
theorem glamConvolve_eq (bs : List (Mat α)) (i : Nat) (F R : NdSparse α) :
    glamConvolve bs i F R
      = match convLoop (bs.map fun b => box b b) i F, convLoop bs i R with
        | some F', some R' => some (F', R')
        | _, _ => none := by
  induction bs generalizing i F R with
  | nil => rfl
  | cons b bs ih =>
    simp only [glamConvolve, List.map_cons, convLoop]
    cases hF : sliceMultiply F (box b b) i with
    | none => simp
    | some F' =>
      cases hR : sliceMultiply R b i with
      | none =>
        simp only
        cases convLoop (bs.map fun b => box b b) (i+1) F' <;> rfl
      | some R' => simp only [ih]

/-- weight of a source entry `js` at the index `gs` after the mode products with `bs` along the leading dimensions:
`Π_d bs_d[js_d, gs_d]` times `[the remaining indices agree]` -/
def pProd : List (Mat α) → List Nat → List Nat → α
  | [], js, gs => if js = gs then 1 else 0
  | b :: bs, j :: js, g :: gs => b.val j g * pProd bs js gs
  | _ :: _, _, _ => 0

theorem pProd_eq_matProd (bs : List (Mat α)) (js gs : List Nat) (h : js.length = bs.length) :
    pProd bs js gs = matProd bs js gs := by
  induction bs generalizing js gs with
  | nil =>
    have : js = [] := by simpa using h
    subst this
    cases gs <;> simp [pProd, matProd]
  | cons b bs ih =>
    cases js with
    | nil => simp at h
    | cons j js =>
      cases gs with
      | nil => simp [pProd, matProd]
      | cons g gs =>
        simp only [pProd, matProd]
        rw [ih js gs (by simpa using h)]

/-- one more mode product, along dimension `pre.length` -/
theorem pProd_snoc (pre : List (Mat α)) (b : Mat α) (n : Nat) (e idx : List Nat)
    (he : pre.length < e.length) (hi : pre.length < idx.length) (hn : e.getD pre.length 0 < n) :
    pProd (pre ++ [b]) e idx
      = ∑ j ∈ range n, b.val j (idx.getD pre.length 0) * pProd pre e (idx.set pre.length j) := by
  induction pre generalizing e idx with
  | nil =>
    cases e with
    | nil => simp at he
    | cons e0 es =>
      cases idx with
      | nil => simp at hi
      | cons i0 is =>
        simp only [List.nil_append, pProd, List.length_nil, List.getD_cons_zero, List.set_cons_zero,
          List.cons.injEq] at hn ⊢
        rw [Finset.sum_eq_single e0]
        · simp
        · intro j _ hne
          have : ¬ (e0 = j ∧ es = is) := fun h => hne h.1.symm
          rw [if_neg this, mul_zero]
        · intro h; exact absurd (mem_range.mpr hn) h
  | cons p pre ih =>
    cases e with
    | nil => simp at he
    | cons e0 es =>
      cases idx with
      | nil => simp at hi
      | cons i0 is =>
        simp only [List.cons_append, pProd, List.length_cons, List.getD_cons_succ, List.set_cons_succ] at hn ⊢
        rw [ih es is (by simpa using he) (by simpa using hi) hn, Finset.mul_sum]
        apply Finset.sum_congr rfl
        intro j _
        ring

/-- a weighted sum of list sums is the list sum of the weighted sums -/
theorem sum_mul_listSum {β : Type} (n : Nat) (c : Nat → α) (l : List β) (f : Nat → β → α) :
    ∑ j ∈ range n, c j * (l.map (f j)).sum = (l.map fun e => ∑ j ∈ range n, c j * f j e).sum := by
  induction l with
  | nil => simp
  | cons e l ih =>
    simp only [List.map_cons, List.sum_cons, mul_add, sum_add_distrib, ih]

theorem getD_append_length (l₁ l₂ : List Nat) (r : Nat) : (l₁ ++ r :: l₂).getD l₁.length 0 = r := by
  simp [List.getD_eq_getElem?_getD]

theorem set_append_length (l₁ l₂ : List Nat) (r v : Nat) :
    (l₁ ++ r :: l₂).set l₁.length v = l₁ ++ v :: l₂ := by
  induction l₁ with
  | nil => rfl
  | cons a l₁ ih => simp [ih]

/-- loop invariant of `convLoop`: after the matrices `pre`, with `post` still to come -/
theorem convLoop_spec (es : List (List Nat × α)) (post : List (Mat α)) (rpost : List Nat)
    (hrow : List.Forall₂ (fun (b : Mat α) r => b.nrow = r) post rpost) :
    ∀ (pre : List (Mat α)) (rpre : List Nat) (a : NdSparse α), rpre.length = pre.length →
      (∀ e ∈ es, IdxIn e.1 (rpre ++ rpost)) →
      a.ranges = pre.map (fun b => b.ncol) ++ rpost → a.WF →
      (∀ idx, IdxIn idx a.ranges → a.get idx = (es.map fun e => pProd pre e.1 idx * e.2).sum) →
      ∃ a', convLoop post pre.length a = some a' ∧ a'.ranges = (pre ++ post).map (fun b => b.ncol) ∧ a'.WF ∧
        ∀ idx, IdxIn idx a'.ranges → a'.get idx = (es.map fun e => pProd (pre ++ post) e.1 idx * e.2).sum := by
  induction hrow with
  | nil =>
    intro pre rpre a hl hes hr hwf hget
    refine ⟨a, rfl, by simpa using hr, hwf, ?_⟩
    simpa using hget
  | @cons b r post rpost hbr hrest ih =>
    intro pre rpre a hl hes hr hwf hget
    have hk : pre.length = (pre.map fun b => b.ncol).length := by simp
    have hd : pre.length < a.ranges.length := by rw [hr]; simp
    have hrk : a.ranges.getD pre.length 0 = r := by
      rw [hr, hk]; exact getD_append_length _ _ _
    obtain ⟨a', h1, h2, h3, h4⟩ := sliceMultiply_spec a b pre.length hwf hd (by rw [hrk]; exact hbr)
    have hr' : a'.ranges = (pre ++ [b]).map (fun b => b.ncol) ++ rpost := by
      rw [h2, hr]
      conv_lhs => rw [hk]
      rw [set_append_length]
      simp
    have hget' : ∀ idx, IdxIn idx a'.ranges →
        a'.get idx = (es.map fun e => pProd (pre ++ [b]) e.1 idx * e.2).sum := by
      intro idx hv
      rw [h4 idx hv]
      rw [h2] at hv
      have hvj : ∀ j, j < b.nrow → IdxIn (idx.set pre.length j) a.ranges := by
        intro j hj
        have := hv.set pre.length j b.nrow hj
        rwa [List.set_set, hbr, ← hrk, set_getD_self] at this
      have hil : pre.length < idx.length := by rw [hv.1]; simpa using hd
      have e1 : ∑ j ∈ range b.nrow, b.val j (idx.getD pre.length 0) * a.get (idx.set pre.length j)
          = ∑ j ∈ range b.nrow, b.val j (idx.getD pre.length 0)
              * (es.map ((fun j (e : List Nat × α) => pProd pre e.1 (idx.set pre.length j) * e.2) j)).sum := by
        apply Finset.sum_congr rfl
        intro j hj
        rw [hget _ (hvj j (mem_range.mp hj))]
      rw [e1, sum_mul_listSum]
      congr 1
      apply List.map_congr_left
      intro e he
      have hv_e := hes e he
      have hel : pre.length < e.1.length := by rw [hv_e.1]; simp [hl]
      have hen : e.1.getD pre.length 0 < b.nrow := by
        have := hv_e.2 pre.length (by simp [hl])
        rw [← hl, getD_append_length] at this
        rw [hbr]; rw [← hl]; exact this
      rw [pProd_snoc pre b b.nrow e.1 idx hel hil hen, Finset.sum_mul]
      apply Finset.sum_congr rfl
      intro j _
      ring
    obtain ⟨a'', g1, g2, g3, g4⟩ := ih (pre ++ [b]) (rpre ++ [r]) a' (by simp [hl])
      (by simpa using hes) hr' h3 hget'
    refine ⟨a'', ?_, by simpa using g2, g3, ?_⟩
    · simp only [convLoop, h1]
      simpa using g1
    · simpa using g4

/-- the whole loop for one tensor, started from the listed entries `es` -/
theorem convLoop_get (bs : List (Mat α)) (ranges : List Nat) (es : List (List Nat × α))
    (hrow : List.Forall₂ (fun (b : Mat α) r => b.nrow = r) bs ranges)
    (hes : ∀ e ∈ es, IdxIn e.1 ranges) :
    ∃ a', convLoop bs 0 ⟨ranges, es⟩ = some a' ∧ a'.ranges = bs.map (fun b => b.ncol) ∧ a'.WF ∧
      ∀ idx, IdxIn idx a'.ranges → a'.get idx = (es.map fun e => matProd bs e.1 idx * e.2).sum := by
  obtain ⟨a', h1, h2, h3, h4⟩ := convLoop_spec es bs ranges hrow [] [] ⟨ranges, es⟩ rfl
    (by simpa using hes) (by simp) hes (by
      intro idx _
      rw [get_eq_entSum]
      unfold entSum
      congr 1
      apply List.map_congr_left
      intro e _
      simp only [pProd]
      split <;> simp)
  refine ⟨a', by simpa using h1, by simpa using h2, h3, ?_⟩
  intro idx hv
  rw [h4 idx hv]
  congr 1
  apply List.map_congr_left
  intro e he
  rw [List.nil_append, pProd_eq_matProd bs e.1 idx (by rw [(hes e he).1, hrow.length_eq])]

/-- the two tensors of the GLAM fit after the convolution loop: `F` holds the sums of the boxed basis products, `R` those
of the basis products, over the listed data -/
theorem glamConvolve_get (bs : List (Mat α)) (ranges : List Nat) (esF esR : List (List Nat × α))
    (hrow : List.Forall₂ (fun (b : Mat α) r => b.nrow = r) bs ranges)
    (hF : ∀ e ∈ esF, IdxIn e.1 ranges) (hR : ∀ e ∈ esR, IdxIn e.1 ranges) :
    ∃ F R, glamConvolve bs 0 ⟨ranges, esF⟩ ⟨ranges, esR⟩ = some (F, R) ∧
      F.ranges = bs.map (fun b => b.ncol * b.ncol) ∧ F.WF ∧
      R.ranges = bs.map (fun b => b.ncol) ∧ R.WF ∧
      (∀ idx, IdxIn idx F.ranges →
        F.get idx = (esF.map fun e => matProd (bs.map fun b => box b b) e.1 idx * e.2).sum) ∧
      (∀ idx, IdxIn idx R.ranges →
        R.get idx = (esR.map fun e => matProd bs e.1 idx * e.2).sum) := by
  have hrowF : List.Forall₂ (fun (b : Mat α) r => b.nrow = r) (bs.map fun b => box b b) ranges := by
    rw [List.forall₂_map_left_iff]
    exact hrow
  obtain ⟨F, f1, f2, f3, f4⟩ := convLoop_get (bs.map fun b => box b b) ranges esF hrowF hF
  obtain ⟨R, r1, r2, r3, r4⟩ := convLoop_get bs ranges esR hrow hR
  refine ⟨F, R, ?_, ?_, f3, r2, r3, f4, r4⟩
  · rw [glamConvolve_eq, f1, r1]
  · rw [f2, List.map_map]
    rfl

end
end PsV
